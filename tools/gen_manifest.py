#!/usr/bin/env python3
"""Writes /verif/MANIFEST.json from the table below (kept next to the checks so
that the manifest, the claimed set and the hook commits stay in step)."""
import json, subprocess, sys, os

HERE = os.path.dirname(os.path.dirname(os.path.abspath(__file__)))

# id -> (level, engine, technique, level text, level note, design ref)
CLAIMED = {}
PENDING = {}

def claim(pid, level, engine, technique, text, note, ref):
    CLAIMED[pid] = dict(level=level, engine=engine, technique=technique, text=text, note=note, ref=ref)

claim("C08", "exploration", "balance",
      "runtime oracle over direct Plan calls: exhaustive small groups (incl. every sticky prior user data over a small universe), random large groups, rebalance chains, one-step changes from every settled 3x3 group, generation conflicts with a stale claimant, growth-and-joins steps (two settled members, then topics grow and 2-4 members with other subscriptions join), four literal chains in which the sticky movement tracker has to forget a movement (25 plans each), a member x partition sweep per strategy, subscription lists naming a topic twice, literal groups that once broke a strategy (hook bal.cycle marks plans cut by the sticky repetition guard)",
      "Every plan produced by range / round-robin / sticky on the enumerated and generated groups is checked by a validity oracle written from the statement (each subscribed partition exactly one owner, owner subscribed, no unknown member/partition). Small bounds are enumerated completely, large groups and chains of rebalances are sampled; panics and non-returning Plan calls are caught per call.",
      "Held on the inputs of the run only. Inputs are restricted to what consumerGroup.balance can build (every topic has a subscriber).",
      "DESIGN.md §7 C08")
claim("C13", "exploration", "balance",
      "runtime oracle over direct Plan calls and re-plan chains: contiguity/fairness for range and round-robin, Kafka's balance criterion, fixed point, stickiness on join/leave, no pairwise swaps for sticky",
      "Same executions as C08 judged by the balance and stickiness oracles; sticky plans are fed back as user data (through sarama's AssignmentData and through an independent encoder) with increasing generations.",
      "Held on the inputs of the run only; stickiness clauses are only judged where the statement applies (identical subscriptions, unchanged partitions).",
      "DESIGN.md §7 C13")

claim("C01", "fault_enumeration", "prod",
      "runtime monitor of the real AsyncProducer/SyncProducer against a simulated cluster: enumerated fault words x retry budget x idempotence plus seeded random scenarios with hook-based schedule steering; conservation oracle over submit/outcome events at the API boundary, quiescence-based completion verdict, race detector",
      "Every fault word of length <= 2 (quick) / <= 3 (thorough) over the 9-letter produce-fault alphabet is run for Retry.Max 0-2 and idempotent on/off on a small scenario; seeded random scenarios add brokers, partitions, flush settings, versions, acks, leader moves, leaderless windows, metadata failures, SyncProducer callers and steering plans; directed multi-step scenarios (retry cycle / leaderless window / second retry cycle; a metadata refresh that fails right after a refusal; the same partition refused several times in a row with input at several paces and responses held until k more messages are buffered; one response refusing batches of 2-3 partitions of one broker; a refusal followed by a refusal that leaves the partition leaderless; messages whose request cannot be encoded); cases that re-submit message objects handed back on Successes()/Errors(). For each run: every submitted message has exactly one terminal event, no event for anything else, Close/AsyncClose completes (stuck only when nothing moves any more), SyncProducer returns equal the producer's outcome for that pointer.",
      "Held on the executions of the run. Successes pending when Close() is called are drained by Close itself (documented) and are then checked through the ap.outcome hook instead of the channel.",
      "DESIGN.md §7 C01")
claim("C02", "fault_enumeration", "prod",
      "runtime monitor: per-partition order oracle over the simulated partition logs and success offsets, under enumerated fault words and steered interleavings of fresh input with retries (hooks pp.newhwm, pp.flush, bp.response, bp.bridge)",
      "Same engine as C01 weighted to several partitions per broker, leader moves, Retry.Max including 0; first copies in each log and success offsets must follow submission order.",
      "Held on the executions of the run; one submitting goroutine per partition.",
      "DESIGN.md §7 C02")
claim("C04", "exploration", "prod",
      "runtime monitor: every produce request is parsed by an independent reference reader (message v0/v1, record batch v2, all codecs, CRCs, varints, relative offsets); success events are checked against the simulated log content and a reference partitioner",
      "Payload (nil vs empty keys and values, neither key nor value, headers - also under versions that cannot carry them, which the producer has to refuse -, sub-millisecond timestamps in no order) x version x codec x batching x acks x light fault scripts; each success must name the partition the partitioner chose and an offset holding exactly that message; nothing else may be in the log; wire format rules checked per request.",
      "Held on the executions of the run. Offset under RequiredAcks=NoResponse is not judged (documented as undefined).",
      "DESIGN.md §7 C04")
claim("C05", "fault_enumeration", "prod",
      "runtime monitor: simulated brokers enforce Kafka's producer id/epoch/sequence rules; oracles over the partition logs (no duplicate, success implies present) and over the sequence of batches received per (partition, producer id, epoch); hook facts attribute violations to mechanisms",
      "Enumerated fault words x retry budget with idempotence on, random scenarios (half of them submitting sequentially so that no fresh input arrives inside a retry window), the deep-retry directed family of C01, two topics whose name + partition number concatenate to the same string, key-less messages under the default hash partitioner, and cases that re-submit message objects handed back by the producer (two in three with the partition worker held at hook pp.newhwm until the first re-used object was sent; judged by record ids and per-epoch sequence continuity). In the clean context (retriable error codes only, no failed message) any deviation is reported with its kind; after a connection fault or a failed message the pinned tree has three known mechanisms (KNOWN_FINDINGS.txt).",
      "Held on the executions of the run, in the clean context; after connection faults / failed messages the known findings apply.",
      "DESIGN.md §7 C05, §8")
claim("C16", "exploration", "prod",
      "runtime monitor: sizes and counts of every produce request measured at the simulated cluster (wire size, per-partition key+value bytes, records per request), rejection outcomes, and a quiescence-judged flush clause after the input stops",
      "Message sizes straddling each limit x Flush.{Messages,Bytes,Frequency,MaxMessages} x MaxMessageBytes x lowered MaxRequestSize x version x partitions per broker, answers delayed by steering so batches accumulate; record headers in 40% of the 0.11+ scenarios; a byte trigger that the last message passes on its own; one message larger than the lowered MaxRequestSize while Producer.MaxMessageBytes allows it; delayed-retry scenarios (only Flush.Frequency, answers slower than the frequency, a retriable refusal, input for several partitions meanwhile, then the input stops); cases that refill message objects handed back earlier with payloads of another size (small / just fitting / 0.6 x limit / oversize, 2-3 rounds) and send them again.",
      "Held on the executions of the run. MaxMessageBytes is kept below MaxRequestSize (the other order is a misconfiguration outside the statement).",
      "DESIGN.md §7 C16")

claim("C20", "exploration", "mocks",
      "runtime monitor of the mock producers/consumer: recording ErrorReporter, reference model of the expectation script (sequential walk; porcupine linearizability check for concurrent senders), reference partitioners, consumer yield-order/offset/high-water-mark oracles, race detector",
      "Enumerated core of minimal scripts plus seeded scripts of 0-200 expectations (success/error/checker pass|fail) x submitted count relative to the script x partitioners x topic configs x 1-4 senders x SendMessages batches; a message whose key cannot be encoded or that has no value in the middle of a script; consumer mock with 1-4 partitions, several close orders and 2-8 goroutines yielding on one partition consumer; async mock with Return.Successes or Return.Errors off. Reporter calls must be exactly the deviations of the case.",
      "Held on the executions of the run. Not demanded: an outcome for a message without expectation; messages of a SendMessages batch after its first failing expectation.",
      "DESIGN.md §7 C20")

claim("C03", "exploration", "cons",
      "runtime monitor of the real PartitionConsumer against the simulated cluster whose fetch answers are written by an independent reference writer (record batches, legacy v0/v1, compressed wrappers, batches starting before the start offset, partial trailing data); exact-sequence oracle on delivered messages, bounded-progress verdict in logical steps, race detector",
      "Enumerated core (partial record cut at byte positions of the answer x format; every literal start offset of a small log) plus seeded scenarios: log content x framing x Kafka version x start offset (oldest/newest/literal) x per-fetch fault word x reader pace x channel buffer x 1-3 partitions on 1-2 brokers; a quarter of the scenarios compact a third of each partition (non-contiguous record offsets inside batches and wrappers); fault letter no-leader (one partition refused and leaderless for some metadata answers while the others read on), shared-broker core cases (2-3 partitions x 400 records, every fault letter), Fetch.Max core cases (limit off the doubling ladder). Delivered messages must equal the visible log suffix field by field; after the fault word is exhausted delivery must reach the end (stalled = 300 further error-free fetch answers without a delivery, or nothing moving).",
      "Held on the executions of the run. Delivery after OFFSET_OUT_OF_RANGE is not demanded; a compacted record is never the last of the initial log.",
      "DESIGN.md §7 C03")
claim("C11", "exploration", "cons",
      "runtime monitor: transactional logs with a faithful aborted-transaction index and last stable offset served by the simulated cluster; reference view of committed / non-transactional records; fetch offsets observed to move past control and aborted records",
      "Enumerated core (6 transaction patterns incl. 3-4 staggered aborted transactions in one answer x every start offset x batch size x isolation level) plus seeded logs with 1-4 producer ids (from 0, 9000 or 2^40), overlapping / back-to-back / aborted-then-committed / open transactions, shuffled aborted index, aborted lists that reach behind the last record served, C03's faults and paces.",
      "Held on the executions of the run; versions >= 0.11.",
      "DESIGN.md §7 C11")
claim("C18", "fault_enumeration", "prod",
      "runtime monitor: recording / mutating / panicking interceptor chains on the real producer (enumerated fault words, retries at depth 1-3, chaser markers) and on the real consumer (slow-reader path forced by reader pace, observed through the pc.expired hook); exactly-once oracle per message pointer / offset and on the wire / delivered payload",
      "Producer: C01's enumerated core, directed and random scenarios with chains of 1-4 interceptors, tombstones and messages the producer must refuse; consumer: C03 scenarios with slow readers; cases that refill message objects and submit them again (to the same producer once handed back, to a second producer after Close; Return.Successes / Return.Errors on and off; first life failed, retried or plain). Each interceptor must run exactly once per application message, in order, never for markers; mutations must appear exactly once; a panicking interceptor must not break the chain or the pipeline.",
      "Held on the executions of the run.",
      "DESIGN.md §7 C18")

claim("C09", "exploration", "codec",
      "runtime oracle over encode/decode of generated values (harness injected into package sarama): both encoder passes run separately, decode of own encoding, re-encode, second decode, carried-leaf comparison by single-leaf perturbation, and an independent reference reader for framing, CRC32/CRC32C, varints and nested record data under every codec",
      "Reflection-filled values driven by a domain table for every protocol body x every version it implements (registry generated from the working tree at check time), plus RecordBatch, MessageSet, Message, Records, member metadata/assignment, sticky user data, response headers, request framing and producer-built batches; 40 values per (body, version) in quick, 2000 in thorough, the first five being fixed corner shapes.",
      "Held on the values of the run. nil and empty collections compare equal; a field that both passes silently drop looks 'not carried'; flexible-version bodies get no schema-level reference parse beyond the framing.",
      "DESIGN.md §7 C09")

claim("C17", "exploration", "part",
      "runtime oracle: direct calls of every partitioner constructor/option against an independent FNV-1a reference (keys with negative and MinInt32 hashes found by meet-in-the-middle search at run time), plus producer scenarios with recording partitioners against the simulated cluster with leaderless subsets (one or two topics served by partitioner instances of one constructor); race detector",
      "Direct: 50 000 (quick) / 5 million (thorough) Partition calls over constructors x key classes x partition counts 1..64, 2^30, 2^31-1; range, consistency, reference equality (sarama rule and Kafka toPositive rule), round-robin cycles, manual, custom hash and custom fallback actually used. Producer: the partition at the cluster and in the outcome equals the choice; keyed messages of consistency-requiring partitioners are offered all partitions, others only writable ones; out-of-range / error / no partition => error outcome and nothing on the wire; equal keys of a topic go to equal indices.",
      "Held on the calls and scenarios of the run.",
      "DESIGN.md §7 C17")

claim("C06", "exploration", "om",
      "runtime monitor of the real OffsetManager against the simulated group coordinator: recorded call/return history of MarkOffset/ResetOffset/NextOffset per partition, commit observations taken at the om.flush/om.built hooks, final store reads; per-partition porcupine linearizability check against a sequential register model, conservation checks on the requests the coordinator received, race detector",
      "300 (quick) / 5000 (thorough) seeded histories: 1-4 partitions, 1-4 marker goroutines, auto-commit ticker or one manual committer, per-commit coordinator behaviour word (accept, error classes, partial errors, omitted blocks, dropped connection, coordinator moved, coordinator moved while the old broker keeps answering COORDINATOR_NOT_AVAILABLE), retention, retry budgets, steering that parks the committer between building and handling a commit until marks land inside the window; 40% of the histories use one constant metadata string; Metadata.Retry.Max 0 or 3 and 0-5 OFFSETS_LOAD_IN_PROGRESS answers to the first offset fetches; 1-3 topics per manager. After the behaviour word is exhausted the stored offset/metadata must equal the latest mark (lost-mark clause), also for manual commits.",
      "Held on the histories of the run; one committer at a time as the statement assumes; porcupine timeouts are inconclusive.",
      "DESIGN.md §7 C06")

claim("C07", "fault_enumeration", "group",
      "runtime monitor of real ConsumerGroup members (each with its own client) against a simulated group coordinator implementing Kafka's group state machine: trace automaton per Consume call over a recording handler (Setup / ConsumeClaim / Cleanup), coordinator-side event log for identities, start offsets, final commits and assignments, delivery coverage across sessions, quiescence-judged termination, race detector",
      "Enumerated core: every single fault (and fault after one ok; pairs in thorough) x request kind (find-coordinator, join, sync, heartbeat, commit, leave, offset-fetch; join faults also on the 2nd-4th join) x two handler behaviours on a one-member scenario; plus seeded scenarios with 1-3 members, 1-2 topics, 3 strategies, 7 handler behaviours (incl. marking inside Cleanup), late joiners, Close mid-session, context cancellation, pre-stored commits (inside, below and beyond the log), Consumer.Offsets.Retention, claims that cannot be started (ListOffsets failing per partition), a partition that is leaderless while the group leader plans, a topic that gains a partition between two Consume calls, members without claims. Injected UNKNOWN_MEMBER_ID answers are made true at the coordinator (the member is removed); UNKNOWN_MEMBER_ID anywhere and ILLEGAL_GENERATION on a join or sync count as fencing for the fresh-identity clause.",
      "Held on the executions of the run. The final-commit clause is only judged when the member's commit path was not disturbed by injected faults; 'exactly one claim unless the session is ending' is judged as at-most-one, plus: an assigned partition without ConsumeClaim in a session that goes on for 12+ successful heartbeats after its last claim started is a violation.",
      "DESIGN.md §7 C07")

claim("C19", "fault_enumeration", "admin",
      "runtime monitor of the real ClusterAdmin against the simulated cluster's admin side: every admin request is logged at the broker that received it (was it controller / leader / coordinator then, what it answered), return values are judged by a reference model per operation",
      "Enumerated (operation x Admin.Retry.Max in {0,1,2,5} x controller moves 0..Retry.Max+1 x 16 error codes at top and item level, omitted items, dropped connections), leader/coordinator-bound operations spread over 1-4 brokers, 9 Kafka versions incl. below-minimum, shared and concurrently used admins, a coordinator that changes its address between two calls of a shared admin, admins on a Metadata.Full=false client that looked up a missing topic, controller moves whose election is still running when the admin refreshes (one metadata answer reports controller -1), plus seeded random cases; ~4 100 admin calls in quick, ~49 000 in thorough. State changes at the cluster are compared with the reported outcome.",
      "Held on the calls of the run. ListPartitionReassignments is only exercised fault-free (not among the statement's controller-bound operations); DescribeLogDirs for unknown broker ids is not generated; client-side connection errors under concurrent callers are counted, not judged.",
      "DESIGN.md §7 C19")

claim("C15", "exploration", "client",
      "runtime monitor of the real Client against the simulated cluster: every metadata response served is versioned, the cl.applied hook (inside the client's write lock) and the deregistration log line give the order in which the client changed state, every API read samples the applied-event count before and after the call and must equal the reference fold of some prefix inside that window; reachability enumerated over unreachable / refusing / mid-request-failing subsets; race detector",
      "200 (quick) / 5000 (thorough) metadata histories of 5-60 steps (topics appear/vanish/err per class, partitions added/removed, leaders move or vanish, brokers added/removed/readdressed/swapped, full vs per-topic refresh; 1 history in 12 is a flip history: leadership keeps leaving a broker that is readdressed in the same response, under 3-6 readers spinning on Leader) with 1-8 concurrent readers and an optional 1 ms background refresher, sequential histories for the after-refresh clause, plus 471 enumerated and 60 random reachability cases for NewClient and RefreshMetadata with Retry.Max 0/1 (six of them: a total outage met by 2-8 callers refreshing at once, after which the first broker returns).",
      "Held on the executions of the run. Where the statement is silent (WritablePartitions for a leader id that is not a known broker; empty partition lists) either answer is accepted and counted.",
      "DESIGN.md §7 C15")

claim("C12", "fault_enumeration", "shutdown",
      "runtime monitor with crash-point enumeration: each scenario (producer, sync producer, partition consumer, consumer, consumer group, offset manager, client in a given state) is re-run once per k, and at the k-th observable event (hook event or request arriving at the simulated cluster) the documented closing sequence is started from a fresh goroutine; completion judged by quiescence and by a logical-step bound, channels drained and checked for closure, panics collected through sarama.PanicHandler and child deaths, second Close tried where the statement promises it harmless, race detector",
      "35 scenarios (idle, mid-request, mid-retry, back-off, unreachable cluster, a return channel switched off, an application that stops reading when it calls Close (which then reads itself), slow reader, reader that stops reading, redispatch, fetches dying in flight, a failing re-dispatch with partitions sharing the broker, out-of-range, mid-join, mid-sync, rebalance back-off, coordinator unavailable / lost after the first join, heartbeats dying while the coordinator stays cached, a LeaveGroup the coordinator refuses, offset fetch failing during session setup, two members, a member without claims, slow / failing commits, manual commits racing with Close, background refresher, shared client, a client closed while other goroutines are inside its calls) x every 4th (quick) or every (thorough) crash point up to the scenario's event count, plus close after the workload ended.",
      "Held on the executions of the run. The application services output channels as documented (AsyncClose: keep draining; PartitionConsumer.Close: no reading required). Goroutine leaks are not judged. Close blocking under an unfired count/byte flush trigger is a C01 known finding and not re-generated here.",
      "DESIGN.md §7 C12")

claim("C14", "exploration", "broker",
      "runtime monitor of the real Broker against a raw frame server (unix socket): every call carries a token that the server echoes into its typed response, per-connection event log of frames received / sent and of requests received but not yet answered; oracles for crosstalk, delivery of mismatching answers, success after a connection fault, stuck calls (quiescence), duplicate correlation ids on a connection and the in-flight bound; race detector",
      "180 enumerated core cases (each single-fault server behaviour x MaxOpenRequests x callers, pile-up cases) plus 300 (quick) / 10 000 (thorough) seeded cases: 1-16 caller goroutines, nine request kinds (incl. flexible-header and acks=0), MaxOpenRequests in {1,2,3,5}, a client-side write that times out with nothing written (20% of the cases), server behaviour words over answer / delay / hold-until-k-pending / swapped / wrong id / stale id / truncated header or body / short or oversize length / bad tag / close / replayed frame / silence (Net.ReadTimeout 150 ms against Net.WriteTimeout 60 s wherever the server goes silent), Close and re-Open racing with calls.",
      "Held on the executions of the run apart from the known in-flight finding (max+1). An i/o timeout without injected silence is inconclusive; Close itself hanging is C12's clause.",
      "DESIGN.md §7 C14")

claim("C10", "exploration", "fuzz",
      "sanitizer-style runtime monitoring of every decoder that reads data the client does not control: each input is decoded in a sub-process under an address-space cap with the input journaled before the call, per-call allocation measured (runtime/metrics filter, exact MemStats re-measure, heap profile for the site), CPU-time watchdog for hangs, crash classification by panic/fatal class and innermost sarama function, content oracle for CRC-covered formats (altered checksummed span or disagreeing length must give an error or the partial indication, never other records), live Broker.responseReceiver and SASL reads fed by a raw server; built with checkptr",
      "Seeds = valid encodings of every response body x version (from the C09 generator), response headers, RecordBatch / MessageSet / Message / Records, FetchResponse with nested records, member metadata / assignment, sticky user data (directly and through Plan); mutators: truncation at every position, bit flips, every 2-/4-byte window set to -1, 0, -2, 0x7fffffff, remaining+1, varints stretched / overflowed, compact lengths, corrupted and nested compressed payloads with and without recomputed CRC, random strings. ~2.3 million inputs in quick, ~46 million in thorough.",
      "Held on the inputs of the run. Allocation bound: 64 KiB + 40 x input + bytes legitimately produced by decompression. Requests are out of scope. Response framing behind an altered length (partitions re-framed) is counted, not judged.",
      "DESIGN.md §7 C10")

def main():
    props = [json.loads(l) for l in open(os.path.join(HERE, "properties.jsonl"))]
    ids = [p["id"] for p in props]
    na_file = os.path.join(HERE, "tools", "not_applicable.json")
    na = json.load(open(na_file)) if os.path.exists(na_file) else {}
    hooks_commits = subprocess.run(["git", "-C", "/repo", "log", "--format=%H", "--grep=^verif:"], capture_output=True, text=True).stdout.split()
    man = {
        "version": 1,
        "setup_cmd": "./setup.sh",
        "hooks": {
            "guard": "verif",
            "enable": "go build -tags verif -overlay /verif/.build/overlay-*.json (generated by bin/vrun: adds /verif/overlay/sarama/*.go and the generated body registry to package sarama without writing into /repo)",
            "baseline_off_cmd": "cd /repo && GOFLAGS=-mod=mod GOPROXY=off GOSUMDB=off go test -json -vet=off -count=1 -timeout 25m ./...",
            "source_commits": hooks_commits,
            "add_only": True,
        },
        "engines": [],
        "checks": [],
        "notes": "Technique family: runtime monitoring and sanitizers. Every check rebuilds the worker from /repo's working tree (build tag verif, harness injected by -overlay), runs the real code under generated / enumerated / steered workloads in child processes and decides by oracles over recorded events. VERIF_SEED selects the seeded part of the case list; VERIF_REPO=<dir> points the build at another copy of the repository (used for seeded mutants). Known findings: /verif/KNOWN_FINDINGS.txt.",
        "not_applicable": [],
    }
    engines = {}
    for pid in ids:
        if pid in CLAIMED:
            c = CLAIMED[pid]
            engines.setdefault(c["engine"], []).append(pid)
            man["checks"].append({
                "property_id": pid,
                "quick_cmd": "./check %s quick" % pid,
                "thorough_cmd": "./check %s thorough" % pid,
                "evidence_file": "/verif/evidence/%s.json" % pid,
                "replay_cmd_template": "./check %s --replay {path}" % pid,
                "engine": c["engine"],
                "level_claimed": {"category": c["level"], "text": c["text"], "design_ref": c["ref"]},
                "level_note": c["note"],
                "technique": c["technique"],
            })
        else:
            man["not_applicable"].append({"property_id": pid, "reason": na.get(pid, "check not built yet in this session (runtime monitor planned in DESIGN.md §7); not claimed")})
    for e, ps in sorted(engines.items()):
        man["engines"].append({"name": e, "path": "/verif/cmd/vworker/ (engine %s)" % e, "serves_properties": ps,
                               "kind_free_text": "workload generator + runtime monitors, run in child processes by bin/vrun"})
    json.dump(man, open(os.path.join(HERE, "MANIFEST.json"), "w"), indent=1)
    print("claimed:", sorted(CLAIMED), "not claimed:", [i for i in ids if i not in CLAIMED])

if __name__ == "__main__":
    main()
