#!/bin/bash
# tools/seedrun.sh [<seed-dir-name> ...]   re-run the quick checks against the archived seeded changes
# Each change is applied to a scratch copy of /repo (outside /repo and /verif), the owning
# property's quick check runs against the copy (VERIF_REPO), and the copy is removed.
# Prints one line per seed: CAUGHT (new signatures) or MISSED. Exit 1 if any is missed.
export GOFLAGS=-mod=mod GOPROXY=off GOSUMDB=off GOTOOLCHAIN=local
cd "$(dirname "$0")/.." || exit 2
root=$(pwd)
seeds=${@:-$(ls seeded | grep -E '^C[0-9]+-[0-9]+$')}
scratch=$(mktemp -d /tmp/seedrun.XXXXXX)
trap 'rm -rf "$scratch"' EXIT
missed=0
for s in $seeds; do
  prop=${s%-*}
  case $s in C07-1) props="C12";; C03-6|C03-8) props="C11";; C04-5|C04-7) props="C17";; C07-8) props="C06";; C07-10) props="C03";; C04-12) props="C01";; C09-12) props="C10";; C10-12) props="C14";; C13-12) props="C08";; C17-11) props="C15";; C03-13|C03-14) props="C11";; C04-14|C17-14) props="C15";; C07-13|C07-14) props="C06";; C12-13) props="C01";; C16-13) props="C18";; C08-14) props="C07";; C01-15) props="C04";; C06-16) props="C07";; C07-16) props="C06";; C08-15) props="C07";; C14-15) props="C10";; C15-16) props="C19";; C13-15) props="C08";; *) props="$prop";; esac
  # changes no check can tell apart from an open finding, or whose trigger the harness does not produce (DESIGN.md 13.5)
  case $s in C02-8|C14-8|C05-9|C05-10|C19-10|C03-16|C08-16|C10-16|C12-15|C17-16) expected_miss=1;; *) expected_miss=0;; esac
  rm -rf "$scratch/sarama"; mkdir -p "$scratch/sarama"
  rsync -a --exclude .git /repo/ "$scratch/sarama/"
  if ! (cd "$scratch/sarama" && patch -p1 -s --no-backup-if-mismatch < $root/seeded/$s/patch.diff); then
    echo "$s: PATCH DOES NOT APPLY to the current tree"; missed=1; continue
  fi
  out=""
  for p in $props; do
    r=$(VERIF_REPO="$scratch/sarama" VERIF_OUT="$scratch/out" ./check $p quick 2>&1 | grep -v KNOWN-FINDING)
    n=$(echo "$r" | grep -c '^VIOLATION')
    sigs=$(echo "$r" | grep '^VIOLATION' | sed -e 's/.*sig="\([^"]*\)".*/\1/' | head -3 | tr '\n' ' ')
    out="$out $p:new=$n [$sigs]"
    tot=$((tot+n))
    [ "$n" -gt 0 ] && hit=1
  done
  if echo "$out" | grep -q 'new=[1-9]'; then echo "$s: CAUGHT$out"; elif [ "$expected_miss" = 1 ]; then echo "$s: NOT-CAUGHT (documented)$out"; else echo "$s: MISSED$out"; missed=1; fi
done
exit $missed
