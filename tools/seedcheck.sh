#!/bin/bash
# tools/seedcheck.sh <ID> <n> [<PROP> ...]   confirm a seeded change and run checks against it
# 1. demo fails with the change, 2. pinned suite passes with the change, 3. demo passes without it,
# 4. the given checks (default: <ID>) are run against a scratch copy of /repo with the change applied.
export GOFLAGS=-mod=mod GOPROXY=off GOSUMDB=off GOTOOLCHAIN=local
id=$1; n=$2; shift 2; props=${@:-$id}
wt=/tmp/seed-$id; out=/tmp/seed-$id-out
cd $wt || exit 2
if [ -z "$ONLYREPO" ]; then
git checkout -q -- . ; git clean -fdq
git apply $out/change$n.diff || { echo "APPLY FAILED"; exit 2; }
demo=$(ls $out/demo${n}_test.go 2>/dev/null)
pkg=$(head -30 $demo | grep -m1 '^package ' | awk '{print $2}')
dest=zz_seed_demo${n}_test.go; dir=.
case "$pkg" in mocks|mocks_test) dir=mocks;; esac
cp $demo $dir/$dest
echo "--- demo WITH change (expect FAIL)"
(cd $dir && go test -vet=off -count=1 -timeout 5m -run 'Demo|Seed' . 2>&1 | tail -4)
rm -f $dir/$dest
echo "--- pinned suite WITH change (expect ok x3)"
go build ./... && go test -vet=off -count=1 -timeout 25m ./... 2>&1 | grep -v "no test files" | tail -4
git checkout -q -- . ; git clean -fdq
cp $demo $dir/$dest
echo "--- demo WITHOUT change (expect ok)"
(cd $dir && go test -vet=off -count=1 -timeout 5m -run 'Demo|Seed' . 2>&1 | tail -2)
rm -f $dir/$dest
git checkout -q -- . ; git clean -fdq
fi
[ -n "$NOREPO" ] && exit 0
# the checks run against a scratch copy of /repo with the change applied (never /repo itself),
# and write their evidence and replays to a scratch directory
scratch=$(mktemp -d /tmp/seedcheck.XXXXXX)
trap 'rm -rf "$scratch"' EXIT
mkdir -p $scratch/sarama && rsync -a --exclude .git /repo/ $scratch/sarama/
(cd $scratch/sarama && patch -p1 -s --no-backup-if-mismatch < $out/change$n.diff) || { echo "APPLY TO COPY FAILED"; exit 2; }
for p in $props; do
  echo "--- ./check $p quick against the change"
  (cd /verif && VERIF_REPO=$scratch/sarama VERIF_OUT=$scratch/out ./check $p quick 2>&1 | grep -v KNOWN-FINDING | cut -c1-420 | tail -5)
done
