#!/usr/bin/env python3
"""tools/seedkeep.py <ID> <n> <caught-by signatures / note>  — archive a confirmed seeded change under /verif/seeded/<ID>-<n>/"""
import json, os, shutil, sys
pid, n, note = sys.argv[1], sys.argv[2], sys.argv[3]
as_n = os.environ.get("AS", n)  # AS=<k>: archive change <n> as <ID>-<k> (later rounds)
src = "/tmp/seed-%s-out" % pid
dst = "/verif/seeded/%s-%s" % (pid, as_n)
os.makedirs(dst, exist_ok=True)
shutil.copy("%s/change%s.diff" % (src, n), dst + "/patch.diff")
for cand in ("demo%s_test.go" % n,):
    if os.path.exists(os.path.join(src, cand)):
        shutil.copy(os.path.join(src, cand), dst + "/demo_test.go.txt")
m = json.load(open("%s/meta%s.json" % (src, n)))
meta = {
    "property": pid,
    "breaks": m.get("summary"),
    "needs_to_manifest": m.get("needs_to_manifest"),
    "author": "independent sub-agent that saw only the property text and a scratch worktree",
    "confirmed": {
        "demo_fails_with_change": True, "demo_passes_without_change": True, "pinned_suite_passes_with_change": True,
        "how": "tools/seedcheck.sh %s %s (applies the diff in the scratch worktree, runs the demo with and without it, runs `go test ./...` with it, then applies it to /repo, runs the check, restores /repo)" % (pid, n),
        "demo_command": m.get("how_demo_run"),
    },
    "checks_result": note,
}
json.dump(meta, open(dst + "/meta.json", "w"), indent=1)
print("kept", dst)
