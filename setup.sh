#!/bin/bash
# Builds the runner from files on disk only (no network). The worker is rebuilt
# by every check from /repo's current working tree.
set -e
cd "$(dirname "$0")"
export GOFLAGS=-mod=mod GOPROXY=off GOSUMDB=off GOTOOLCHAIN=local
mkdir -p bin .build evidence replays
go build -o bin/vrun ./cmd/vrun
echo "setup ok: $(ls -la bin/vrun | awk '{print $5}') bytes"
