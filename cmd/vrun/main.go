// vrun is the check runner: it rebuilds the worker against the current working
// tree of the repository (hooks on, harness files injected through a build
// overlay), shards the case list over worker children, reads their journals,
// turns child deaths and race-detector reports into violation records, matches
// everything against KNOWN_FINDINGS.txt, writes the evidence file and prints the
// VIOLATION / KNOWN-FINDING lines. It does not import sarama.
package main

import (
	"bufio"
	"encoding/json"
	"fmt"
	"os"
	"os/exec"
	"path/filepath"
	"regexp"
	"sort"
	"strconv"
	"strings"
	"sync"
	"syscall"
	"time"

	"verifharness/internal/proto"
)

type propSpec struct {
	Engine  string
	Race    bool
	Level   string
	Shards  int // max children
	MemMB   int // ulimit -v per child, 0 = none
	Rule    string
	Assume  []string
	Timeout time.Duration // per child wall-clock watchdog (inconclusive when it fires)
}

var verifDir = "/verif"

// outDir receives evidence/ and replays/ (VERIF_OUT; default: verifDir). Runs
// against deliberately broken copies of the repository write elsewhere.
var outDir = ""

func main() {
	if d := os.Getenv("VERIF_DIR"); d != "" {
		verifDir = d
	}
	outDir = verifDir
	if d := os.Getenv("VERIF_OUT"); d != "" {
		outDir = d
	}
	args := os.Args[1:]
	if len(args) < 2 {
		fmt.Fprintln(os.Stderr, "usage: vrun <PROP> quick|thorough | vrun <PROP> --replay <file>")
		os.Exit(2)
	}
	if args[0] == "build" {
		repo := "/repo"
		if r := os.Getenv("VERIF_REPO"); r != "" {
			repo = r
		}
		bin, err := buildWorker(repo, args[1] == "race")
		if err != nil {
			fmt.Fprintln(os.Stderr, err)
			os.Exit(3)
		}
		fmt.Println(bin)
		return
	}
	prop := args[0]
	spec, ok := props[prop]
	if !ok {
		fmt.Fprintf(os.Stderr, "unknown property %s\n", prop)
		os.Exit(2)
	}
	seed := int64(1)
	if s := os.Getenv("VERIF_SEED"); s != "" {
		if v, err := strconv.ParseInt(s, 10, 64); err == nil {
			seed = v
		}
	}
	repo := "/repo"
	if r := os.Getenv("VERIF_REPO"); r != "" {
		repo = r
	}
	if args[1] == "--replay" {
		if len(args) < 3 {
			fmt.Fprintln(os.Stderr, "--replay needs a file")
			os.Exit(2)
		}
		os.Exit(replay(prop, spec, repo, args[2]))
	}
	tier := args[1]
	if t := os.Getenv("VERIF_TIER"); t == "quick" || t == "thorough" {
		tier = t
	}
	if tier != "quick" && tier != "thorough" {
		fmt.Fprintln(os.Stderr, "tier must be quick or thorough")
		os.Exit(2)
	}
	os.Exit(run(prop, spec, repo, tier, seed))
}

// ---------------------------------------------------------------- build

func goEnv() []string {
	env := os.Environ()
	env = append(env, "GOFLAGS=-mod=mod", "GOPROXY=off", "GOSUMDB=off", "GOTOOLCHAIN=local", "CGO_ENABLED=1")
	return env
}

func buildWorker(repo string, race bool) (string, error) {
	bdir := filepath.Join(verifDir, ".build")
	os.MkdirAll(filepath.Join(bdir, "gen"), 0o755)
	// generated registry of protocol bodies (C09/C10)
	gen := filepath.Join(bdir, "gen", "registry_gen.go")
	if err := genRegistry(repo, gen); err != nil {
		return "", fmt.Errorf("registry generation: %v", err)
	}
	ov := map[string]map[string]string{"Replace": {}}
	files, _ := filepath.Glob(filepath.Join(verifDir, "overlay", "sarama", "*.go"))
	for _, f := range files {
		ov["Replace"][filepath.Join(repo, "zz_verif_"+filepath.Base(f))] = f
	}
	ov["Replace"][filepath.Join(repo, "zz_verif_registry_gen.go")] = gen
	ovPath := filepath.Join(bdir, "overlay-"+proto.Hash(repo)+".json")
	b, _ := json.MarshalIndent(ov, "", " ")
	if err := os.WriteFile(ovPath, b, 0o644); err != nil {
		return "", err
	}
	out := filepath.Join(bdir, "vworker")
	if race {
		out += "-race"
	}
	if repo != "/repo" {
		out += "-" + proto.Hash(repo)
	}
	args := []string{"build", "-tags", "verif", "-overlay", ovPath, "-o", out}
	if race {
		args = append(args, "-race")
	} else {
		args = append(args, "-gcflags=all=-d=checkptr")
	}
	if repo != "/repo" {
		mod, err := os.ReadFile(filepath.Join(verifDir, "go.mod"))
		if err != nil {
			return "", err
		}
		alt := strings.Replace(string(mod), "=> /repo", "=> "+repo, 1)
		altMod := filepath.Join(bdir, "alt-"+proto.Hash(repo)+".mod")
		os.WriteFile(altMod, []byte(alt), 0o644)
		sum, _ := os.ReadFile(filepath.Join(verifDir, "go.sum"))
		os.WriteFile(strings.TrimSuffix(altMod, ".mod")+".sum", sum, 0o644)
		args = append(args, "-modfile", altMod)
	}
	args = append(args, "./cmd/vworker")
	cmd := exec.Command("go", args...)
	cmd.Dir = verifDir
	cmd.Env = goEnv()
	outb, err := cmd.CombinedOutput()
	if err != nil {
		return "", fmt.Errorf("go %s: %v\n%s", strings.Join(args, " "), err, outb)
	}
	return out, nil
}

// ---------------------------------------------------------------- run

type caseResult struct {
	proto.Rec
	shard int
	crash string
}

type shardState struct {
	journal string
	stderr  string
}

func run(prop string, spec propSpec, repo, tier string, seed int64) int {
	t0 := time.Now()
	bin, err := buildWorker(repo, spec.Race)
	if err != nil {
		fmt.Fprintf(os.Stderr, "BUILD FAILED for %s: %v\n", prop, err)
		// A tree that no longer builds with the harness cannot be judged; that is
		// neither held nor a property violation. Exit code 3.
		return 3
	}
	buildS := time.Since(t0).Seconds()
	rdir := filepath.Join(verifDir, ".build", "run-"+prop+"-"+tier)
	os.RemoveAll(rdir)
	os.MkdirAll(rdir, 0o755)
	defer func() {
		if os.Getenv("VERIF_KEEP") == "" {
			os.RemoveAll(rdir)
		}
	}()

	// how many cases does this (prop, tier, seed) have?
	total, err := countCases(bin, prop, spec, tier, seed, rdir)
	if err != nil {
		fmt.Fprintf(os.Stderr, "worker cannot enumerate cases: %v\n", err)
		return 3
	}
	shards := spec.Shards
	if shards <= 0 {
		shards = 16
	}
	if total < shards {
		shards = total
	}
	if shards < 1 {
		shards = 1
	}
	results := make([]*caseResult, total)
	var mu sync.Mutex
	var wg sync.WaitGroup
	var notes []string
	extras := map[string]interface{}{}
	for s := 0; s < shards; s++ {
		wg.Add(1)
		go func(s int) {
			defer wg.Done()
			res, nts, ex := runShard(bin, prop, spec, tier, seed, s, shards, total, rdir)
			mu.Lock()
			for _, r := range res {
				if r.Idx >= 0 && r.Idx < total {
					results[r.Idx] = r
				}
			}
			notes = append(notes, nts...)
			for k, v := range ex {
				mergeExtra(extras, k, v)
			}
			mu.Unlock()
		}(s)
	}
	wg.Wait()

	// race reports
	raceViols, raceBlocks := collectRaces(rdir, prop, repo)

	return report(prop, spec, tier, seed, results, raceViols, raceBlocks, notes, extras, t0, buildS)
}

func mergeExtra(dst map[string]interface{}, k string, v interface{}) {
	switch x := v.(type) {
	case float64:
		if old, ok := dst[k].(float64); ok {
			dst[k] = old + x
		} else {
			dst[k] = x
		}
	case map[string]interface{}:
		m, ok := dst[k].(map[string]interface{})
		if !ok {
			m = map[string]interface{}{}
			dst[k] = m
		}
		for kk, vv := range x {
			mergeExtra(m, kk, vv)
		}
	default:
		if _, ok := dst[k]; !ok {
			dst[k] = v
		}
	}
}

func countCases(bin, prop string, spec propSpec, tier string, seed int64, rdir string) (int, error) {
	cmd := exec.Command(bin, "-engine", spec.Engine, "-prop", prop, "-tier", tier, "-seed", fmt.Sprint(seed), "-count")
	cmd.Env = append(os.Environ(), "VERIF_RUNDIR="+rdir, "GORACE=atexit_sleep_ms=0")
	out, err := cmd.Output()
	if err != nil {
		return 0, fmt.Errorf("%v (%s)", err, out)
	}
	n, err := strconv.Atoi(strings.TrimSpace(string(out)))
	return n, err
}

func runShard(bin, prop string, spec propSpec, tier string, seed int64, shard, shards, total int, rdir string) ([]*caseResult, []string, map[string]interface{}) {
	var results []*caseResult
	var notes []string
	extra := map[string]interface{}{}
	from := 0 // resume position inside the shard's own sequence (global index)
	attempt := 0
	for {
		attempt++
		journal := filepath.Join(rdir, fmt.Sprintf("j-%d-%d.jsonl", shard, attempt))
		errf := filepath.Join(rdir, fmt.Sprintf("e-%d-%d.txt", shard, attempt))
		wargs := []string{"-engine", spec.Engine, "-prop", prop, "-tier", tier, "-seed", fmt.Sprint(seed),
			"-shard", fmt.Sprint(shard), "-nshards", fmt.Sprint(shards), "-from", fmt.Sprint(from), "-journal", journal}
		to := spec.Timeout
		if to == 0 {
			to = 20 * time.Minute
		}
		if tier == "thorough" {
			to *= 4
		}
		shell := fmt.Sprintf("exec timeout -s QUIT -k 10 %d %s %s >%s 2>&1", int(to.Seconds()), bin, strings.Join(wargs, " "), errf)
		if spec.MemMB > 0 {
			shell = fmt.Sprintf("ulimit -v %d; %s", spec.MemMB*1024, shell)
		}
		cmd := exec.Command("bash", "-c", shell)
		cmd.Env = append(os.Environ(),
			"GORACE=halt_on_error=0 atexit_sleep_ms=0 log_path="+filepath.Join(rdir, fmt.Sprintf("race-%d-%d", shard, attempt)),
			"VERIF_RUNDIR="+rdir, "GOTRACEBACK=all")
		cmd.SysProcAttr = &syscall.SysProcAttr{Setpgid: true}
		err := cmd.Run()
		recs := readJournal(journal)
		var open *proto.Rec
		done := false
		lastEnd := -1
		for i := range recs {
			r := recs[i]
			switch r.T {
			case "start":
				rr := r
				open = &rr
			case "end":
				results = append(results, &caseResult{Rec: r, shard: shard})
				open = nil
				lastEnd = r.Idx
			case "done":
				done = true
				for k, v := range r.Extra {
					mergeExtra(extra, k, v)
				}
			case "note":
				notes = append(notes, r.Why)
			}
		}
		if done && err == nil {
			return results, notes, extra
		}
		// the child died or was stopped
		crash := tailFile(errf, 200)
		code := -1
		if ee, ok := err.(*exec.ExitError); ok {
			code = ee.ExitCode()
		}
		if open == nil {
			if done {
				return results, notes, extra
			}
			if code == 75 && lastEnd >= 0 {
				from = lastEnd + 1
				continue
			}
			notes = append(notes, fmt.Sprintf("shard %d died outside a case (exit %d): %s", shard, code, firstLines(crash, 12)))
			return results, notes, extra
		}
		cr := &caseResult{Rec: *open, shard: shard, crash: crash}
		cr.T = "end"
		if code == 124 || code == 137 {
			// runner watchdog: wall clock only, never a verdict by itself
			cr.Verdict = "inconclusive"
			cr.Why = "runner watchdog fired; " + classifyDump(crash)
		} else {
			cr.Verdict = "violated"
			kind, attr := classifyCrash(crash)
			cr.Viols = []proto.Viol{{Kind: kind, Attr: attr, Msg: firstLines(crash, 30)}}
		}
		results = append(results, cr)
		from = open.Idx + 1
		if attempt > 200 {
			notes = append(notes, fmt.Sprintf("shard %d: more than 200 child deaths, giving up", shard))
			return results, notes, extra
		}
	}
}

func readJournal(path string) []proto.Rec {
	f, err := os.Open(path)
	if err != nil {
		return nil
	}
	defer f.Close()
	var out []proto.Rec
	sc := bufio.NewScanner(f)
	sc.Buffer(make([]byte, 1<<20), 64<<20)
	for sc.Scan() {
		var r proto.Rec
		if json.Unmarshal(sc.Bytes(), &r) == nil {
			out = append(out, r)
		}
	}
	return out
}

func tailFile(path string, maxLines int) string {
	b, err := os.ReadFile(path)
	if err != nil {
		return ""
	}
	if len(b) > 1<<20 {
		// keep head (the panic message is first) and tail
		b = append(append([]byte{}, b[:512<<10]...), b[len(b)-(256<<10):]...)
	}
	lines := strings.Split(string(b), "\n")
	if len(lines) > maxLines {
		lines = lines[:maxLines]
	}
	return strings.Join(lines, "\n")
}

func firstLines(s string, n int) string {
	l := strings.Split(s, "\n")
	if len(l) > n {
		l = l[:n]
	}
	return strings.Join(l, "\n")
}

var reFrame = regexp.MustCompile(`github\.com/Shopify/sarama(?:/mocks)?\.([A-Za-z0-9_\.\(\)\*]+)\(`)

// classifyCrash turns Go crash output into (kind, attribution): the fatal/panic
// class and the first sarama frame that is not harness code.
func classifyCrash(out string) (string, string) {
	kind := "crash:unknown"
	lines := strings.Split(out, "\n")
	for _, l := range lines {
		switch {
		case strings.HasPrefix(l, "fatal error: runtime: out of memory"), strings.Contains(l, "cannot allocate memory"), strings.HasPrefix(l, "fatal error: out of memory"):
			kind = "fatal:oom"
		case strings.HasPrefix(l, "fatal error: stack overflow"), strings.Contains(l, "goroutine stack exceeds"):
			kind = "fatal:stack"
		case strings.HasPrefix(l, "fatal error: concurrent map"):
			kind = "fatal:concurrent-map"
		case strings.HasPrefix(l, "fatal error: checkptr"):
			kind = "fatal:checkptr"
		case strings.HasPrefix(l, "fatal error: all goroutines are asleep"):
			kind = "fatal:deadlock"
		case strings.HasPrefix(l, "fatal error:"):
			kind = "fatal:" + sanitize(strings.TrimPrefix(l, "fatal error:"))
		case strings.HasPrefix(l, "panic:"):
			kind = "panic:" + panicClass(l)
		default:
			continue
		}
		break
	}
	attr := ""
	seenGoroutine := false
	for _, l := range lines {
		if strings.HasPrefix(l, "goroutine ") {
			if seenGoroutine && attr != "" {
				break
			}
			seenGoroutine = true
		}
		if m := reFrame.FindStringSubmatch(l); m != nil {
			fn := m[1]
			if strings.Contains(fn, "Verif") || strings.HasPrefix(fn, "vr") || strings.HasPrefix(fn, "vsim") || strings.HasPrefix(fn, "(*V") || strings.HasPrefix(fn, "V") {
				continue
			}
			attr = fn
			break
		}
	}
	return kind, attr
}

func panicClass(l string) string {
	l = strings.TrimPrefix(l, "panic: ")
	switch {
	case strings.Contains(l, "makeslice"):
		return "makeslice"
	case strings.Contains(l, "index out of range"):
		return "index"
	case strings.Contains(l, "slice bounds out of range"):
		return "slice-bounds"
	case strings.Contains(l, "nil pointer"):
		return "nil-deref"
	case strings.Contains(l, "send on closed channel"):
		return "send-on-closed"
	case strings.Contains(l, "close of closed channel"):
		return "close-of-closed"
	case strings.Contains(l, "close of nil channel"):
		return "close-of-nil"
	case strings.Contains(l, "negative WaitGroup counter"):
		return "waitgroup-negative"
	case strings.Contains(l, "WaitGroup is reused"):
		return "waitgroup-reuse"
	case strings.Contains(l, "divide by zero"):
		return "div-zero"
	}
	return sanitize(l)
}

func sanitize(s string) string {
	s = strings.TrimSpace(s)
	var b strings.Builder
	for _, r := range s {
		if len(b.String()) >= 40 {
			break
		}
		switch {
		case r >= 'a' && r <= 'z', r >= 'A' && r <= 'Z', r == '-':
			b.WriteRune(r)
		case r == ' ' || r == ':' || r == '_':
			b.WriteRune('-')
		}
	}
	return b.String()
}

func classifyDump(out string) string {
	n := strings.Count(out, "\ngoroutine ")
	return fmt.Sprintf("%d goroutines in dump", n)
}

// ---------------------------------------------------------------- races

var raceOwner = []struct{ file, prop string }{
	{"async_producer.go", "C01"}, {"produce_set.go", "C01"}, {"sync_producer.go", "C01"},
	{"consumer.go", "C03"}, {"offset_manager.go", "C06"}, {"consumer_group.go", "C07"},
	{"balance_strategy.go", "C08"}, {"broker.go", "C14"}, {"client.go", "C15"},
	{"mocks/", "C20"}, {"partitioner.go", "C17"}, {"admin.go", "C19"}, {"interceptors.go", "C18"},
}

type raceBlock struct {
	text  string
	sig   string
	owner string
}

func collectRaces(rdir, prop, repo string) ([]proto.Viol, int) {
	files, _ := filepath.Glob(filepath.Join(rdir, "race-*"))
	seen := map[string]*raceBlock{}
	total := 0
	for _, f := range files {
		b, err := os.ReadFile(f)
		if err != nil {
			continue
		}
		for _, blk := range strings.Split(string(b), "==================") {
			if !strings.Contains(blk, "WARNING: DATA RACE") {
				continue
			}
			total++
			rb := parseRace(blk, repo)
			if rb == nil {
				continue
			}
			if _, ok := seen[rb.sig]; !ok {
				seen[rb.sig] = rb
			}
		}
	}
	var out []proto.Viol
	keys := make([]string, 0, len(seen))
	for k := range seen {
		keys = append(keys, k)
	}
	sort.Strings(keys)
	for _, k := range keys {
		rb := seen[k]
		// every race between two accesses in the repository's own code is reported by
		// the check whose workload produced it, whichever file it is in: another
		// property's workload may never reach it.
		out = append(out, proto.Viol{Kind: "data-race", Attr: rb.sig, Msg: firstLines(rb.text, 40)})
	}
	return out, total
}

func sameEngine(a, b string) bool {
	pa, ok1 := props[a]
	pb, ok2 := props[b]
	return ok1 && ok2 && pa.Engine == pb.Engine
}

var reRaceFrame = regexp.MustCompile(`^\s+(github\.com/Shopify/sarama(?:/mocks)?\.\S+?)\(\)\s*$`)
var reRaceFile = regexp.MustCompile(`^\s+(/[^\s:]+\.go):(\d+)`)

// parseRace keeps a block only when both access stacks contain a frame from a
// file of the repository proper (not an injected zz_verif_ file, not the
// harness); the signature is the pair of innermost such functions.
func parseRace(blk, repo string) *raceBlock {
	sections := regexp.MustCompile(`(?m)^(Read|Write|Previous read|Previous write|Atomic)[^\n]*by [^\n]*:$`).FindAllStringIndex(blk, -1)
	if len(sections) < 2 {
		return nil
	}
	var fns []string
	owner := ""
	for i := 0; i < 2; i++ {
		end := len(blk)
		if i+1 < len(sections) {
			end = sections[i+1][0]
		}
		sec := blk[sections[i][1]:end]
		if j := strings.Index(sec, "\n\n"); j >= 0 {
			sec = sec[:j]
		}
		lines := strings.Split(sec, "\n")
		found := ""
		for k := 0; k+1 < len(lines); k++ {
			m := reRaceFrame.FindStringSubmatch(lines[k])
			if m == nil {
				continue
			}
			fm := reRaceFile.FindStringSubmatch(lines[k+1])
			if fm == nil {
				continue
			}
			file := fm[1]
			if !strings.HasPrefix(file, repo+"/") || strings.Contains(filepath.Base(file), "zz_verif_") || strings.HasPrefix(filepath.Base(file), "verif_hooks") {
				continue
			}
			found = strings.TrimPrefix(m[1], "github.com/Shopify/sarama")
			found = strings.TrimPrefix(found, ".")
			rel := strings.TrimPrefix(file, repo+"/")
			if owner == "" {
				for _, o := range raceOwner {
					if strings.HasPrefix(rel, o.file) || rel == o.file {
						owner = o.prop
						break
					}
				}
			}
			break
		}
		if found == "" {
			return nil
		}
		fns = append(fns, found)
	}
	sort.Strings(fns)
	return &raceBlock{text: blk, sig: strings.Join(fns, "<>"), owner: owner}
}

// ---------------------------------------------------------------- report

type finding struct {
	status string // open | fixed
	prop   string
	sig    string
	text   string
}

func loadFindings() []finding {
	var out []finding
	f, err := os.Open(filepath.Join(verifDir, "KNOWN_FINDINGS.txt"))
	if err != nil {
		return nil
	}
	defer f.Close()
	sc := bufio.NewScanner(f)
	for sc.Scan() {
		l := strings.TrimSpace(sc.Text())
		if l == "" || strings.HasPrefix(l, "#") {
			continue
		}
		var fd finding
		switch {
		case strings.HasPrefix(l, "open:"):
			fd.status = "open"
			l = strings.TrimSpace(strings.TrimPrefix(l, "open:"))
		case strings.HasPrefix(l, "fixed:"):
			fd.status = "fixed"
			l = strings.TrimSpace(strings.TrimPrefix(l, "fixed:"))
		default:
			continue
		}
		fields := strings.Fields(l)
		rest := []string{}
		for _, fl := range fields {
			switch {
			case strings.HasPrefix(fl, "property=") && fd.prop == "":
				fd.prop = strings.TrimPrefix(fl, "property=")
			case strings.HasPrefix(fl, "sig=") && fd.sig == "":
				fd.sig = strings.TrimPrefix(fl, "sig=")
			default:
				rest = append(rest, fl)
			}
		}
		fd.text = strings.Join(rest, " ")
		out = append(out, fd)
	}
	return out
}

func report(prop string, spec propSpec, tier string, seed int64, results []*caseResult, raceViols []proto.Viol, raceBlocks int, notes []string, extras map[string]interface{}, t0 time.Time, buildS float64) int {
	findings := loadFindings()
	open := map[string]finding{}
	for _, f := range findings {
		if f.status == "open" && f.prop == prop {
			open[f.sig] = f
		}
	}
	type agg struct {
		first *caseResult
		viol  proto.Viol
		n     int
	}
	bySig := map[string]*agg{}
	evals, held, inconc, violCases, missing, ncases := 0, 0, 0, 0, 0, 0
	paths := map[string]bool{}
	obs := map[string]int64{}
	var samples []interface{}
	inconcWhy := map[string]int{}
	for _, r := range results {
		if r == nil {
			missing++
			continue
		}
		ncases++
		if r.Evals > 0 {
			evals += r.Evals
		} else {
			evals++
		}
		for _, p := range r.Paths {
			paths[p] = true
		}
		switch r.Verdict {
		case "held":
			held++
		case "inconclusive":
			inconc++
			inconcWhy[firstLines(r.Why, 1)]++
		case "violated":
			violCases++
		}
		if r.NonTrivial && r.Path != "" {
			paths[r.Path] = true
		}
		for k, v := range r.Obs {
			obs[k] += v
		}
		if r.Sample != nil && len(samples) < 5 {
			s := map[string]interface{}{"case": r.ID, "verdict": r.Verdict, "nontrivial": r.NonTrivial, "path": r.Path, "detail": r.Sample}
			samples = append(samples, s)
		}
		for _, v := range r.Viols {
			sig := v.Sig(prop)
			a := bySig[sig]
			if a == nil {
				a = &agg{first: r, viol: v}
				bySig[sig] = a
			}
			a.n++
		}
	}
	for _, v := range raceViols {
		sig := v.Sig(prop)
		if bySig[sig] == nil {
			bySig[sig] = &agg{viol: v, n: 1, first: &caseResult{Rec: proto.Rec{ID: "race-detector", Idx: -1}}}
		}
	}
	if evals > 0 && len(paths) == 0 && missing == 0 {
		// the monitors observed nothing of the kind they exist for
		v := proto.Viol{Kind: "no-observation", Msg: "no case of this run met the non-triviality rule"}
		bySig[v.Sig(prop)] = &agg{viol: v, n: 1, first: &caseResult{Rec: proto.Rec{ID: "aggregate", Idx: -1}}}
	}

	sigs := make([]string, 0, len(bySig))
	for s := range bySig {
		sigs = append(sigs, s)
	}
	sort.Strings(sigs)
	os.MkdirAll(filepath.Join(outDir, "replays"), 0o755)
	newViol := 0
	knownHit := map[string]int{}
	var lines []string
	for _, sig := range sigs {
		a := bySig[sig]
		if f, ok := open[sig]; ok {
			knownHit[sig] = a.n
			_ = f
			continue
		}
		newViol++
		rp := proto.Replay{Property: prop, Engine: spec.Engine, Tier: tier, Seed: seed, CaseID: a.first.ID, Idx: a.first.Idx,
			Sig: sig, Viols: a.first.Viols, Sample: a.first.Sample, Input: a.first.Input, Crash: a.first.crash, Cases: a.n}
		if len(rp.Viols) == 0 {
			rp.Viols = []proto.Viol{a.viol}
		}
		path := filepath.Join(outDir, "replays", fmt.Sprintf("%s-%s.json", prop, proto.Hash(sig)))
		b, _ := json.MarshalIndent(rp, "", " ")
		os.WriteFile(path, b, 0o644)
		lines = append(lines, fmt.Sprintf("VIOLATION property=%s replay=%s sig=%q cases=%d first=%s :: %s", prop, path, sig, a.n, a.first.ID, oneLine(a.viol.Msg)))
	}
	okeys := make([]string, 0, len(open))
	for s := range open {
		okeys = append(okeys, s)
	}
	sort.Strings(okeys)
	for _, s := range okeys {
		fmt.Printf("KNOWN-FINDING: property=%s sig=%s %s (observed in %d cases of this run)\n", prop, s, open[s].text, knownHit[s])
	}
	for _, l := range lines {
		fmt.Println(l)
	}

	wall := time.Since(t0).Seconds()
	cov := map[string]interface{}{
		"evaluations":              evals,
		"cases":                    ncases,
		"distinct_nontrivial":      len(paths),
		"rule":                     spec.Rule,
		"samples":                  samples,
		"held":                     held,
		"inconclusive":             inconc,
		"violated_cases":           violCases,
		"cases_not_run":            missing,
		"observed":                 obs,
		"race_report_blocks":       raceBlocks,
		"known_findings_hit":       knownHit,
		"new_violation_signatures": newViol,
		"build_s":                  buildS,
	}
	if len(inconcWhy) > 0 {
		cov["inconclusive_reasons"] = inconcWhy
	}
	for k, v := range extras {
		cov[k] = v
	}
	if len(notes) > 0 {
		if len(notes) > 20 {
			notes = notes[:20]
		}
		cov["notes"] = notes
	}
	if samples == nil {
		cov["samples"] = []interface{}{}
	}
	ev := map[string]interface{}{
		"property_id": prop, "tier": tier, "seed": seed, "level": spec.Level,
		"coverage": cov, "assumptions": spec.Assume, "wall_s": wall, "violations": newViol,
	}
	b, _ := json.MarshalIndent(ev, "", " ")
	os.MkdirAll(filepath.Join(outDir, "evidence"), 0o755)
	os.WriteFile(filepath.Join(outDir, "evidence", prop+".json"), append(b, '\n'), 0o644)

	fmt.Printf("%s %s seed=%d: cases=%d held=%d inconclusive=%d violated=%d distinct_nontrivial=%d known=%d new=%d races=%d wall=%.1fs\n",
		prop, tier, seed, evals, held, inconc, violCases, len(paths), len(knownHit), newViol, raceBlocks, wall)
	if missing > 0 {
		fmt.Printf("%s: %d cases were not run (child deaths outside a case); see notes in evidence\n", prop, missing)
	}
	if newViol > 0 {
		return 1
	}
	if missing > 0 || evals == 0 {
		fmt.Printf("VIOLATION property=%s replay=%s sig=%q :: the run did not complete its case list\n", prop, filepath.Join(outDir, "evidence", prop+".json"), prop+"|incomplete-run")
		return 1
	}
	return 0
}

func oneLine(s string) string {
	s = strings.ReplaceAll(s, "\n", " / ")
	if len(s) > 300 {
		s = s[:300] + "…"
	}
	return s
}

// ---------------------------------------------------------------- replay

func replay(prop string, spec propSpec, repo, file string) int {
	b, err := os.ReadFile(file)
	if err != nil {
		fmt.Fprintln(os.Stderr, err)
		return 2
	}
	var rp proto.Replay
	if err := json.Unmarshal(b, &rp); err != nil {
		fmt.Fprintln(os.Stderr, err)
		return 2
	}
	if rp.Idx < 0 {
		fmt.Printf("replay: %s is an aggregate finding (%s); re-run the check: ./check %s %s\n", file, rp.Sig, prop, rp.Tier)
		return 0
	}
	bin, err := buildWorker(repo, spec.Race)
	if err != nil {
		fmt.Fprintf(os.Stderr, "BUILD FAILED: %v\n", err)
		return 3
	}
	rdir := filepath.Join(verifDir, ".build", "replay-"+prop)
	os.RemoveAll(rdir)
	os.MkdirAll(rdir, 0o755)
	defer os.RemoveAll(rdir)
	reps, hit := 20, 0
	for i := 0; i < reps; i++ {
		journal := filepath.Join(rdir, fmt.Sprintf("j-%d.jsonl", i))
		cmd := exec.Command(bin, "-engine", spec.Engine, "-prop", prop, "-tier", rp.Tier, "-seed", fmt.Sprint(rp.Seed),
			"-only", fmt.Sprint(rp.Idx), "-journal", journal, "-v")
		cmd.Env = append(os.Environ(), "VERIF_RUNDIR="+rdir, "GORACE=halt_on_error=0 atexit_sleep_ms=0")
		out, err := cmd.CombinedOutput()
		recs := readJournal(journal)
		reproduced := false
		for _, r := range recs {
			if r.T == "end" {
				for _, v := range r.Viols {
					if v.Sig(prop) == rp.Sig {
						reproduced = true
					}
				}
			}
		}
		if err != nil && !reproduced {
			// crash: compare classification
			k, a := classifyCrash(string(out))
			if (proto.Viol{Kind: k, Attr: a}).Sig(prop) == rp.Sig {
				reproduced = true
			}
		}
		if reproduced {
			hit++
			if hit == 1 {
				fmt.Printf("--- reproduction %d ---\n%s\n", i, firstLines(string(out), 80))
			}
		}
	}
	fmt.Printf("replay of %s (%s): reproduced %d of %d repetitions\n", rp.CaseID, rp.Sig, hit, reps)
	if hit > 0 {
		fmt.Printf("VIOLATION property=%s replay=%s\n", prop, file)
		return 1
	}
	return 0
}
