package main

// C15 workload 1: metadata histories. The simulated cluster is mutated step by
// step (topics appear / vanish / error per class, partitions come and go,
// leaders move or become unavailable, brokers are added / removed /
// readdressed, the controller moves), the client refreshes fully, per topic or
// not at all, while 0-8 reader goroutines and optionally the 1 ms background
// refresher run against it.

import (
	"fmt"
	"math/rand"
	"runtime"
	"sort"
	"strings"
	"sync"
	"sync/atomic"
	"time"

	"github.com/Shopify/sarama"

	"verifharness/internal/proto"
)

type cliStep struct {
	Op      string    `json:"op"`
	Topic   string    `json:"topic,omitempty"`
	Part    int32     `json:"partition,omitempty"`
	Broker  int32     `json:"broker,omitempty"`
	Code    int16     `json:"code,omitempty"`
	N       int       `json:"n,omitempty"`
	Sets    [][]int32 `json:"sets,omitempty"`
	Refresh string    `json:"refresh"` // full | topics | none
	RTopics []string  `json:"refresh_topics,omitempty"`
	Live    []string  `json:"-"` // topics that exist without a forgetting error after this step (readers aim mostly at these)
}

type cliScenario struct {
	Brokers      int
	Seeds        []int32
	Protect      int32 // a seed broker that is never removed or readdressed (0 = none)
	Version      sarama.KafkaVersion
	Full         bool
	RetryMax     int
	Readers      int
	Flip         bool // flip history: every reader asks for the leader of partition 0 of the first topic, as fast as it can
	Background   bool
	InitTopics   map[string]int
	Steps        []cliStep
	ReadsPerStep int
}

var cliTopicPool = []string{"t0", "t1", "t2", "t3", "t4"}

var cliTopicErrCodes = []sarama.KError{sarama.ErrInvalidTopic, sarama.ErrTopicAuthorizationFailed, sarama.ErrUnknownTopicOrPartition,
	sarama.ErrLeaderNotAvailable, sarama.ErrKafkaStorageError, sarama.ErrUnknown}

var cliPartErrCodes = []sarama.KError{sarama.ErrLeaderNotAvailable, sarama.ErrReplicaNotAvailable, sarama.ErrNotLeaderForPartition, sarama.ErrNoError, sarama.ErrLeaderNotAvailable}

func (sc *cliScenario) describe() map[string]interface{} {
	return map[string]interface{}{"brokers": sc.Brokers, "seeds": sc.Seeds, "protected_seed": sc.Protect, "version": sc.Version.String(),
		"metadata_full": sc.Full, "metadata_retry_max": sc.RetryMax, "readers": sc.Readers, "background_refresher_1ms": sc.Background,
		"initial_topics": sc.InitTopics, "steps": sc.Steps}
}

// shadow of the cluster used to generate valid steps
type cliShadow struct {
	brokers map[int32]bool
	born    map[int32]int // step at which the broker's current address appeared
	topics  map[string]map[int32]bool
	terr    map[string]bool
}

// reachableWithout: some other broker has had its address since before the last
// step that refreshed, so the client still knows one address that answers.
func (sh *cliShadow) reachableWithout(id int32, lastRefresh int, seeds []int32) bool {
	for b := range sh.brokers {
		if b == id || sh.born[b] > lastRefresh {
			continue
		}
		if lastRefresh >= 0 {
			return true
		}
		for _, s := range seeds { // nothing refreshed yet: the client may know nothing but its seeds
			if s == b {
				return true
			}
		}
	}
	return false
}

func (sh *cliShadow) brokerIDs() []int32 {
	var out []int32
	for id := range sh.brokers {
		out = append(out, id)
	}
	sort.Slice(out, func(i, j int) bool { return out[i] < out[j] })
	return out
}

func (sh *cliShadow) topicNames(withParts bool) []string {
	var out []string
	for t, ps := range sh.topics {
		if !withParts || len(ps) > 0 {
			out = append(out, t)
		}
	}
	sort.Strings(out)
	return out
}

func (sh *cliShadow) partIDs(t string) []int32 {
	var out []int32
	for p := range sh.topics[t] {
		out = append(out, p)
	}
	sort.Slice(out, func(i, j int) bool { return out[i] < out[j] })
	return out
}

func randSubset(rng *rand.Rand, ids []int32, min int) []int32 {
	var out []int32
	for _, id := range ids {
		if rng.Intn(2) == 0 {
			out = append(out, id)
		}
	}
	for len(out) < min && len(ids) > 0 {
		out = append(out, ids[rng.Intn(len(ids))])
	}
	rng.Shuffle(len(out), func(i, j int) { out[i], out[j] = out[j], out[i] })
	return out
}

// cliGenFlipHistory: one partition whose leadership keeps leaving a broker that changes its address
// in the same response, and coming back, under several spinning readers.
func cliGenFlipHistory(rng *rand.Rand) *cliScenario {
	sc := &cliScenario{Brokers: 3, InitTopics: map[string]int{cliTopicPool[0]: 1 + rng.Intn(2)}, Full: true, RetryMax: 2, Readers: 3 + rng.Intn(4), ReadsPerStep: 400, Flip: true}
	sc.Version = []sarama.KafkaVersion{sarama.V0_10_2_0, sarama.V1_0_0_0, sarama.V2_1_0_0}[rng.Intn(3)]
	sc.Seeds = []int32{3}
	sc.Protect = 3
	t := cliTopicPool[0]
	live := []string{t}
	n := 20 + rng.Intn(30)
	for i := 0; i < n; i++ {
		mover := int32(1 + i%2) // brokers 1 and 2 take turns
		other := int32(3 - int(mover))
		sc.Steps = append(sc.Steps,
			cliStep{Op: "set-leader", Topic: t, Part: 0, Broker: mover, Refresh: "full", Live: live},
			cliStep{Op: "leader-off-and-readdress", Topic: t, Part: 0, Broker: mover, N: int(other), Refresh: "full", Live: live})
	}
	return sc
}

func cliGenHistory(rng *rand.Rand, tier string) *cliScenario {
	if rng.Intn(12) == 0 {
		return cliGenFlipHistory(rng)
	}
	sc := &cliScenario{Brokers: 1 + rng.Intn(4), InitTopics: map[string]int{}}
	sc.Version = []sarama.KafkaVersion{sarama.V0_10_2_0, sarama.V1_0_0_0, sarama.V2_1_0_0, sarama.V1_0_0_0}[rng.Intn(4)]
	sc.Full = rng.Intn(3) != 0
	sc.RetryMax = rng.Intn(3)
	switch rng.Intn(6) {
	case 0, 1: // sequential: the stronger clause
		sc.Readers = 0
	case 2:
		sc.Readers = 1 + rng.Intn(2)
	default:
		sc.Readers = 1 + rng.Intn(8)
	}
	sc.Background = sc.Readers > 0 && rng.Intn(2) == 0 || rng.Intn(12) == 0
	sc.ReadsPerStep = 5 + (40+rng.Intn(80))/(sc.Readers+1)
	all := make([]int32, 0, sc.Brokers)
	for i := 1; i <= sc.Brokers; i++ {
		all = append(all, int32(i))
	}
	sc.Seeds = randSubset(rng, all, 1)
	if rng.Intn(10) < 6 {
		sc.Protect = sc.Seeds[rng.Intn(len(sc.Seeds))]
	}
	sh := &cliShadow{brokers: map[int32]bool{}, born: map[int32]int{}, topics: map[string]map[int32]bool{}, terr: map[string]bool{}}
	for _, id := range all {
		sh.brokers[id] = true
		sh.born[id] = -1
	}
	lastRefresh := -1 // NewClient
	for _, t := range cliTopicPool[:1+rng.Intn(3)] {
		n := 1 + rng.Intn(4)
		sc.InitTopics[t] = n
		sh.topics[t] = map[int32]bool{}
		for p := 0; p < n; p++ {
			sh.topics[t][int32(p)] = true
		}
	}
	nSteps := 5 + rng.Intn(56)
	if tier != "thorough" && nSteps > 40 && rng.Intn(2) == 0 {
		nSteps = 5 + rng.Intn(36)
	}
	nextBroker := int32(sc.Brokers + 1)
	for len(sc.Steps) < nSteps {
		st := cliStep{}
		topics := sh.topicNames(false)
		withParts := sh.topicNames(true)
		ids := sh.brokerIDs()
		pickTopic := func(l []string) string { return l[rng.Intn(len(l))] }
		switch k := rng.Intn(100); {
		case k < 8: // topic appears
			var free []string
			for _, t := range cliTopicPool {
				if _, ok := sh.topics[t]; !ok {
					free = append(free, t)
				}
			}
			if len(free) == 0 {
				continue
			}
			st.Op, st.Topic, st.N = "create-topic", pickTopic(free), 1+rng.Intn(4)
			sh.topics[st.Topic] = map[int32]bool{}
			for p := 0; p < st.N; p++ {
				sh.topics[st.Topic][int32(p)] = true
			}
			delete(sh.terr, st.Topic)
		case k < 14: // topic vanishes
			if len(topics) == 0 {
				continue
			}
			st.Op, st.Topic = "delete-topic", pickTopic(topics)
			delete(sh.topics, st.Topic)
			delete(sh.terr, st.Topic)
		case k < 26: // topic errors per class
			if len(topics) == 0 {
				continue
			}
			st.Op, st.Topic = "topic-error", pickTopic(topics)
			st.Code = int16(cliTopicErrCodes[rng.Intn(len(cliTopicErrCodes))])
			sh.terr[st.Topic] = true
		case k < 32:
			var errd []string
			for t := range sh.terr {
				errd = append(errd, t)
			}
			sort.Strings(errd)
			if len(errd) == 0 {
				continue
			}
			st.Op, st.Topic = "topic-error-cleared", pickTopic(errd)
			delete(sh.terr, st.Topic)
		case k < 40:
			if len(topics) == 0 {
				continue
			}
			st.Op, st.Topic, st.Broker = "add-partition", pickTopic(topics), ids[rng.Intn(len(ids))]
			// the simulated cluster picks the smallest free id >= len
			id := int32(len(sh.topics[st.Topic]))
			for sh.topics[st.Topic][id] {
				id++
			}
			sh.topics[st.Topic][id] = true
			st.Part = id
		case k < 46:
			if len(withParts) == 0 {
				continue
			}
			st.Op, st.Topic = "remove-partition", pickTopic(withParts)
			ps := sh.partIDs(st.Topic)
			if len(ps) == 1 && rng.Intn(4) != 0 {
				continue
			}
			st.Part = ps[rng.Intn(len(ps))]
			delete(sh.topics[st.Topic], st.Part)
		case k < 58: // leader moves / becomes unavailable / points to a broker nobody knows
			if len(withParts) == 0 {
				continue
			}
			st.Op, st.Topic = "set-leader", pickTopic(withParts)
			ps := sh.partIDs(st.Topic)
			st.Part = ps[rng.Intn(len(ps))]
			switch r := rng.Intn(10); {
			case r < 3:
				st.Broker = -1
			case r < 4:
				st.Broker = 9
			default:
				st.Broker = ids[rng.Intn(len(ids))]
			}
		case k < 66:
			if len(withParts) == 0 {
				continue
			}
			st.Op, st.Topic = "set-replicas", pickTopic(withParts)
			ps := sh.partIDs(st.Topic)
			st.Part = ps[rng.Intn(len(ps))]
			cand := append(append([]int32(nil), ids...), 9)
			repl := randSubset(rng, cand, 1)
			st.Sets = [][]int32{repl, randSubset(rng, repl, 0), randSubset(rng, repl, 0)}
		case k < 73:
			if len(withParts) == 0 {
				continue
			}
			st.Op, st.Topic = "partition-error", pickTopic(withParts)
			ps := sh.partIDs(st.Topic)
			st.Part = ps[rng.Intn(len(ps))]
			st.Code = int16(cliPartErrCodes[rng.Intn(len(cliPartErrCodes))])
		case k < 79:
			if nextBroker > 7 {
				continue
			}
			st.Op, st.Broker = "add-broker", nextBroker
			sh.brokers[nextBroker] = true
			sh.born[nextBroker] = len(sc.Steps)
			nextBroker++
		case k < 85:
			var cand []int32
			for _, id := range ids {
				if id != sc.Protect && sh.reachableWithout(id, lastRefresh, sc.Seeds) {
					cand = append(cand, id)
				}
			}
			if len(ids) < 2 || len(cand) == 0 {
				continue
			}
			st.Op, st.Broker = "remove-broker", cand[rng.Intn(len(cand))]
			delete(sh.brokers, st.Broker)
		case k < 91:
			var cand []int32
			for _, id := range ids {
				if id != sc.Protect && sh.reachableWithout(id, lastRefresh, sc.Seeds) {
					cand = append(cand, id)
				}
			}
			if len(cand) == 0 {
				continue
			}
			st.Op, st.Broker = "readdress-broker", cand[rng.Intn(len(cand))]
			sh.born[st.Broker] = len(sc.Steps)
		case k < 95: // one broker leaves and another joins between two refreshes: the list does not shrink
			var cand []int32
			for _, id := range ids {
				if id != sc.Protect && sh.reachableWithout(id, lastRefresh, sc.Seeds) {
					cand = append(cand, id)
				}
			}
			if len(ids) < 2 || len(cand) == 0 || nextBroker > 7 {
				continue
			}
			st.Op, st.Broker, st.N = "swap-broker", cand[rng.Intn(len(cand))], int(nextBroker)
			delete(sh.brokers, st.Broker)
			sh.brokers[nextBroker] = true
			sh.born[nextBroker] = len(sc.Steps)
			nextBroker++
			if rng.Intn(3) == 0 && nextBroker <= 7 { // ... or grows
				st.Sets = [][]int32{{nextBroker}}
				sh.brokers[nextBroker] = true
				sh.born[nextBroker] = len(sc.Steps)
				nextBroker++
			}
		case k < 97: // leadership leaves a broker whose address changes in the same breath (one response carries both)
			if len(withParts) == 0 || len(ids) < 2 {
				continue
			}
			var cand []int32
			for _, id := range ids {
				if id != sc.Protect && sh.reachableWithout(id, lastRefresh, sc.Seeds) {
					cand = append(cand, id)
				}
			}
			if len(cand) == 0 {
				continue
			}
			st.Op, st.Topic = "leader-off-and-readdress", pickTopic(withParts)
			ps := sh.partIDs(st.Topic)
			st.Part = ps[rng.Intn(len(ps))]
			st.Broker = cand[rng.Intn(len(cand))] // the broker that loses the partition and gets a new address
			st.N = int(ids[rng.Intn(len(ids))])   // the new leader
			if int32(st.N) == st.Broker {
				st.N = int(ids[(rng.Intn(len(ids)-1)+1+indexOf(ids, st.Broker))%len(ids)])
			}
			// first let the client see that broker as the partition's leader (a step of its own, fully refreshed)
			pre := cliStep{Op: "set-leader", Topic: st.Topic, Part: st.Part, Broker: st.Broker, Refresh: "full"}
			for _, t := range sh.topicNames(true) {
				if !sh.terr[t] {
					pre.Live = append(pre.Live, t)
				}
			}
			lastRefresh = len(sc.Steps)
			sc.Steps = append(sc.Steps, pre)
			sh.born[st.Broker] = len(sc.Steps)
		case k < 99:
			st.Op = "set-controller"
			if rng.Intn(4) == 0 {
				st.Broker = 9
			} else {
				st.Broker = ids[rng.Intn(len(ids))]
			}
		default:
			st.Op = "none"
		}
		switch r := rng.Intn(10); {
		case r < 5:
			st.Refresh = "full"
		case r < 8:
			st.Refresh = "topics"
			n := 1 + rng.Intn(3)
			seen := map[string]bool{}
			if st.Topic != "" && rng.Intn(3) != 0 {
				seen[st.Topic] = true
				st.RTopics = append(st.RTopics, st.Topic)
			}
			for i := 0; i < n; i++ {
				t := cliTopicPool[rng.Intn(len(cliTopicPool))]
				if !seen[t] {
					seen[t] = true
					st.RTopics = append(st.RTopics, t)
				}
			}
		default:
			st.Refresh = "none"
		}
		if st.Refresh != "none" {
			lastRefresh = len(sc.Steps)
		}
		for _, t := range sh.topicNames(true) {
			if !sh.terr[t] {
				st.Live = append(st.Live, t)
			}
		}
		sc.Steps = append(sc.Steps, st)
	}
	return sc
}

func cliApplyStep(sim *sarama.VSim, st *cliStep) {
	switch st.Op {
	case "create-topic":
		sim.CreateTopic(st.Topic, st.N, 0)
	case "delete-topic":
		sim.DeleteTopic(st.Topic)
	case "topic-error":
		sim.SetTopicError(st.Topic, sarama.KError(st.Code))
	case "topic-error-cleared":
		sim.SetTopicError(st.Topic, sarama.ErrNoError)
	case "add-partition":
		sim.AddPartition(st.Topic, st.Broker, 0)
	case "remove-partition":
		sim.RemovePartition(st.Topic, st.Part)
	case "set-leader":
		sim.SetLeader(st.Topic, st.Part, st.Broker)
	case "set-replicas":
		sim.SetReplicas(st.Topic, st.Part, st.Sets[0], st.Sets[1], st.Sets[2])
	case "partition-error":
		sim.SetPartitionError(st.Topic, st.Part, sarama.KError(st.Code))
	case "add-broker":
		sim.AddBroker(st.Broker)
	case "remove-broker":
		sim.RemoveBroker(st.Broker)
	case "readdress-broker":
		sim.Readdress(st.Broker)
	case "leader-off-and-readdress":
		sim.Readdress(st.Broker)
		sim.SetLeader(st.Topic, st.Part, int32(st.N))
	case "swap-broker":
		sim.RemoveBroker(st.Broker)
		sim.AddBroker(int32(st.N))
		if len(st.Sets) == 1 {
			sim.AddBroker(st.Sets[0][0])
		}
	case "set-controller":
		sim.SetController(st.Broker)
	}
}

func cliNetError(err error) bool {
	if err == nil {
		return false
	}
	_, isK := err.(sarama.KError)
	return !isK
}

func cliConfig(version sarama.KafkaVersion, full bool, retryMax int, background bool) *sarama.Config {
	conf := sarama.NewConfig()
	conf.ClientID = "vclient"
	conf.Version = version
	conf.Metadata.Full = full
	conf.Metadata.Retry.Max = retryMax
	conf.Metadata.Retry.Backoff = time.Millisecond
	conf.Metadata.RefreshFrequency = 0
	if background {
		conf.Metadata.RefreshFrequency = time.Millisecond
	}
	// no silence is ever injected: these only bound a lost cause, they never decide a verdict
	conf.Net.DialTimeout = 2 * time.Second
	conf.Net.ReadTimeout = 5 * time.Second
	conf.Net.WriteTimeout = 5 * time.Second
	return conf
}

// runCliHistory executes one history and judges it.
func runCliHistory(sc *cliScenario, rng *rand.Rand) proto.Rec {
	rec := proto.Rec{Obs: map[string]int64{}, Sample: sc.describe()}
	var vs violSet
	sim := sarama.VNewSim(simSocketDir(), sc.Brokers)
	defer sim.Close()
	tnames := make([]string, 0, len(sc.InitTopics))
	for t := range sc.InitTopics {
		tnames = append(tnames, t)
	}
	sort.Strings(tnames)
	for _, t := range tnames {
		sim.CreateTopic(t, sc.InitTopics[t], 0)
	}
	sink := newSink()
	defer sink.retire()
	sink.extra = func() int64 { return sim.Progress() }
	crec := newCliRecorder(sink)
	defer crec.retire()
	dialer := sarama.VNewRecDialer(sim)
	conf := cliConfig(sc.Version, sc.Full, sc.RetryMax, sc.Background)
	dialer.Configure(conf)
	metaV5 := sc.Version.IsAtLeast(sarama.V1_0_0_0)
	var seedAddrs []string
	for _, id := range sc.Seeds {
		seedAddrs = append(seedAddrs, sim.BrokerAddr(id))
	}

	cl, err := sarama.NewClient(seedAddrs, conf)
	if err != nil {
		vs.add("refresh-failed-with-healthy-broker", fmt.Sprintf("newclient,retry.max=%d,healthy=live-seed", sc.RetryMax), fmt.Sprintf("NewClient(%v) on a healthy cluster: %v", seedAddrs, err))
		rec.Viols = vs.list
		return rec
	}

	sequential := sc.Readers == 0 && !sc.Background
	var reads []cliRead
	var stepNo int64
	var stop int32
	var wg sync.WaitGroup
	readerReads := make([][]cliRead, sc.Readers)
	for ri := 0; ri < sc.Readers; ri++ {
		ri := ri
		rrng := rand.New(rand.NewSource(rng.Int63()))
		wg.Add(1)
		go func() {
			defer wg.Done()
			myStep, done := int64(-1), 0
			for atomic.LoadInt32(&stop) == 0 {
				cur := atomic.LoadInt64(&stepNo)
				if cur != myStep {
					myStep, done = cur, 0
				}
				if done >= sc.ReadsPerStep {
					runtime.Gosched()
					time.Sleep(20 * time.Microsecond)
					continue
				}
				done++
				var live []string
				if cur >= 1 && int(cur) <= len(sc.Steps) {
					live = sc.Steps[cur-1].Live
				}
				api, topic, id := cliPickRead(rrng, live, 2)
				if sc.Flip {
					api, topic, id = apiLeader, cliTopicPool[0], 0
				}
				r := cliDoRead(cl, crec, api, topic, id)
				r.who, r.step = ri, int(cur)
				readerReads[ri] = append(readerReads[ri], r)
			}
		}()
	}

	// one more reader that never waits: cache-only APIs in a tight loop, so that
	// some calls fall inside the moments in which a response is being applied
	var tightReads []cliRead
	if sc.Readers > 0 {
		trng := rand.New(rand.NewSource(rng.Int63()))
		wg.Add(1)
		go func() {
			defer wg.Done()
			for n := 0; atomic.LoadInt32(&stop) == 0; n++ {
				if n >= 12000 && !sc.Flip || n >= 150000 {
					time.Sleep(200 * time.Microsecond)
					continue
				}
				var r cliRead
				pick := trng.Intn(4)
				if sc.Flip {
					pick = 3
				}
				switch pick {
				case 0:
					r = cliDoRead(cl, crec, apiBrokers, "", 0)
				case 1:
					r = cliDoRead(cl, crec, apiBroker, "", int32(1+trng.Intn(7)))
				case 2:
					r = cliDoRead(cl, crec, apiTopics, "", 0)
				default:
					cur := atomic.LoadInt64(&stepNo)
					if cur < 1 || int(cur) > len(sc.Steps) || len(sc.Steps[cur-1].Live) == 0 {
						continue
					}
					live := sc.Steps[cur-1].Live
					r = cliDoRead(cl, crec, apiLeader, live[trng.Intn(len(live))], int32(trng.Intn(2)))
				}
				r.who, r.step = 100, int(atomic.LoadInt64(&stepNo))
				tightReads = append(tightReads, r)
				if n%64 == 0 {
					runtime.Gosched()
				}
			}
		}()
	}

	refreshErrs, timeouts := 0, 0
	body := func() {
		for i := range sc.Steps {
			st := &sc.Steps[i]
			cliApplyStep(sim, st)
			atomic.StoreInt64(&stepNo, int64(i+1))
			if st.Refresh != "none" {
				// what the statement's reachability clause quantifies over, sampled before the call
				live, dead := sarama.VerifClientSeeds(cl)
				known := cl.Brokers()
				before := crec.count()
				var rerr error
				if st.Refresh == "full" && i%3 == 1 {
					// "all topics" spelled as an empty list instead of no argument
					rerr = cl.RefreshMetadata([]string{}...)
				} else if st.Refresh == "full" {
					rerr = cl.RefreshMetadata()
				} else {
					rerr = cl.RefreshMetadata(st.RTopics...)
				}
				if rerr != nil {
					refreshErrs++
				}
				if sequential {
					// the stronger clause: every response served so far has been applied when the call returns
					served := len(sim.MetaSnapshots())
					applied := 0
					for _, ev := range crec.events() {
						if ev.Kind == "applied" {
							applied++
						}
					}
					if served != applied {
						vs.add("stale-after-refresh", "RefreshMetadata:response-not-applied", fmt.Sprintf("step %d (%s): RefreshMetadata returned %v, %d responses served, %d applied", i, st.Op, rerr, served, applied))
					}
					if cliTimeout(rerr) {
						timeouts++
					} else if cliNetError(rerr) {
						var where []string
						isLive := func(a string) bool {
							for _, la := range sim.Addrs() {
								if la == a {
									return true
								}
							}
							return false
						}
						for _, a := range live {
							if isLive(a) {
								where = append(where, "live-seed")
							}
						}
						for _, a := range dead {
							if isLive(a) {
								where = append(where, "parked-seed")
							}
						}
						for _, b := range known {
							if isLive(b.Addr()) {
								where = append(where, "known")
							}
						}
						if len(where) > 0 {
							vs.add("refresh-failed-with-healthy-broker", fmt.Sprintf("refresh,retry.max=%d,healthy=%s", sc.RetryMax, strings.Join(uniqSorted(where), "+")),
								fmt.Sprintf("step %d (%s): RefreshMetadata returned %v although a seed or known broker is up (live seeds %v, parked seeds %v, cluster %v); events during the call %d", i, st.Op, rerr, live, dead, sim.Addrs(), crec.count()-before))
						}
					}
				}
			} else if sc.Background {
				time.Sleep(time.Duration(500+rng.Intn(2000)) * time.Microsecond)
			}
			// the history's own battery of reads
			n := 6 + rng.Intn(10)
			if sequential {
				n = 14 + rng.Intn(14)
			}
			for j := 0; j < n; j++ {
				api, topic, id := cliPickRead(rng, st.Live, 2)
				if st.Topic != "" && rng.Intn(3) == 0 {
					topic = st.Topic
				}
				r := cliDoRead(cl, crec, api, topic, id)
				r.who, r.step = -1, i+1
				reads = append(reads, r)
			}
		}
	}
	done := make(chan struct{})
	go func() { body(); close(done) }()
	ok, stuck := waitQuiescent(done, sink, 30*time.Second, 3*time.Minute)
	atomic.StoreInt32(&stop, 1)
	if !ok {
		rec.Verdict = "inconclusive"
		rec.Why = fmt.Sprintf("history did not finish (stuck=%v): %v", stuck, parkedSaramaGoroutines())
		restartAfterCase = true
		return rec
	}
	wg.Wait()
	cl.Close()
	for _, rr := range readerReads {
		reads = append(reads, rr...)
	}
	reads = append(reads, tightReads...)

	// fold and judge
	snaps := map[int64]sarama.VSimMetaSnapshot{}
	for _, sn := range sim.MetaSnapshots() {
		snaps[sn.Ver] = sn
	}
	evs := crec.events()
	states, missing := cliFold(evs, snaps)
	var stats cliJudgeStats
	cliJudgeReads(states, reads, metaV5, &vs, &stats)

	applied, deregs, changes, seedDeregs := 0, 0, 0, 0
	for i, ev := range evs {
		if ev.Kind == "applied" {
			applied++
			if states[i].key() != states[i+1].key() {
				changes++
			}
		} else if ev.ID >= 0 {
			deregs++
		} else {
			seedDeregs++
		}
	}
	rec.Obs["seed_deregistered_twice(no-op)"] = int64(seedDeregs)
	rec.Obs["histories"] = 1
	rec.Obs["steps"] = int64(len(sc.Steps))
	rec.Obs["responses_served"] = int64(len(snaps))
	rec.Obs["responses_applied"] = int64(applied)
	rec.Obs["applied_changing_the_fold"] = int64(changes)
	rec.Obs["brokers_deregistered"] = int64(deregs)
	rec.Obs["reads"] = stats.reads
	rec.Obs["reads_overlapping_an_event"] = stats.overlapped
	rec.Obs["reads_explained_by_a_later_state_of_the_window"] = stats.byLaterState
	rec.Obs["reads_answered_with_error"] = stats.errReads
	rec.Obs["reads_returning_a_broker"] = stats.brokerReads
	rec.Obs["writable_listed_with_unknown_leader(grey)"] = stats.greyWritable
	rec.Obs["leader_not_available_for_unknown_broker"] = stats.unknownLeaderNA
	rec.Obs["refresh_calls_returning_error"] = int64(refreshErrs)
	if sequential {
		rec.Obs["sequential_histories"] = 1
	}
	rec.Viols = vs.list
	if len(vs.list) == 0 {
		switch {
		case missing > 0 || atomic.LoadInt64(&crec.noVer) > 0:
			rec.Verdict, rec.Why = "inconclusive", fmt.Sprintf("%d applied responses could not be mapped to a served snapshot", missing)
		case timeouts > 0:
			rec.Verdict, rec.Why = "inconclusive", "a refresh ran into an i/o timeout although no silence was injected"
		case applied == 0 || stats.reads == 0:
			rec.Verdict, rec.Why = "inconclusive", "no-observation: no response applied or no read recorded"
		}
	}
	classes := map[string]bool{}
	for _, st := range sc.Steps {
		classes[st.Op+"/"+st.Refresh] = true
	}
	var cl2 []string
	for c := range classes {
		cl2 = append(cl2, c)
	}
	sort.Strings(cl2)
	rec.NonTrivial = applied >= 2 && changes >= 1 && (sequential || stats.overlapped > 0)
	rec.Path = fmt.Sprintf("hist|r=%d|bg=%v|full=%v|v5=%v|retry=%d|%s", sc.Readers, sc.Background, sc.Full, metaV5, sc.RetryMax, proto.Hash(strings.Join(cl2, ",")))
	return rec
}

func uniqSorted(in []string) []string {
	m := map[string]bool{}
	for _, s := range in {
		m[s] = true
	}
	var out []string
	for s := range m {
		out = append(out, s)
	}
	sort.Strings(out)
	return out
}

// cliPickRead draws an API and its arguments; unknownPct is the percentage of
// reads aimed at a topic that never exists (those always fall back to a refresh).
func cliPickRead(rng *rand.Rand, live []string, unknownPct int) (api int, topic string, id int32) {
	topic = cliTopicPool[rng.Intn(len(cliTopicPool))]
	if len(live) > 0 && rng.Intn(100) < 85 {
		topic = live[rng.Intn(len(live))]
	}
	if rng.Intn(100) < unknownPct {
		topic = "nosuch"
	}
	id = int32(rng.Intn(3))
	if rng.Intn(5) == 0 {
		id = int32(rng.Intn(7))
	}
	switch k := rng.Intn(100); {
	case k < 16:
		api = apiPartitions
	case k < 32:
		api = apiWritable
	case k < 54:
		api = apiLeader
	case k < 62:
		api = apiReplicas
	case k < 69:
		api = apiISR
	case k < 75:
		api = apiOffline
	case k < 81:
		api = apiTopics
	case k < 89:
		api = apiBrokers
	case k < 95:
		api = apiBroker
		id = int32(1 + rng.Intn(8))
	default:
		api = apiController
	}
	return
}

func indexOf(ids []int32, x int32) int {
	for i, v := range ids {
		if v == x {
			return i
		}
	}
	return 0
}
