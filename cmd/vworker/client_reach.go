package main

// C15 workload 2: reachability. For every subset of seed and known brokers
// being unreachable (dial refused), failing mid-request (connection closed
// after the request was read) or failing after handling it (closed without an
// answer), with at least one seed or known broker healthy, NewClient and
// RefreshMetadata have to succeed. Single-phase subsets are enumerated for
// 1-4 brokers; two-phase words (the set of dead brokers changes between two
// refreshes) for 2-3 brokers, with the seeds being either the advertised
// addresses or bootstrap aliases that metadata never mentions.

import (
	"fmt"
	"math/rand"
	"sort"
	"strings"
	"sync"
	"sync/atomic"
	"time"

	"github.com/Shopify/sarama"

	"verifharness/internal/proto"
)

const (
	rfHealthy    = iota
	rfRefuse     // the dialer refuses the address
	rfDropBefore // the broker reads the metadata request and closes the connection
	rfDropAfter  // the broker handles the request and closes without answering
	rfTransient  // the broker closes on the first metadata request of the phase only
)

var rfNames = []string{"up", "refused", "drop-mid-request", "drop-unanswered", "drop-once"}

// One run: a client, a list of phases. Address labels: "b<i>" = advertised
// address of broker i, "a<i>" = bootstrap alias resolving to broker i.
type cliReachRun struct {
	Mode     string   // newclient: phase 0 is in force while NewClient runs; refresh: the client is created on a healthy cluster
	Seeds    []string // labels
	Order    []string // steered order of the seeds (refresh mode; nil = as NewClient shuffled them)
	RetryMax int
	Phases   []map[string]int // label -> fault kind (b-labels: any kind, a-labels: up / refused)
	Conc     int              // > 1: in a phase in which nobody answers, that many callers refresh at the same time
}

type cliReachCase struct {
	Name    string
	N       int
	Aliases bool
	Runs    []cliReachRun
}

func permutations(in []string) [][]string {
	if len(in) <= 1 {
		return [][]string{append([]string(nil), in...)}
	}
	var out [][]string
	for i := range in {
		rest := append(append([]string(nil), in[:i]...), in[i+1:]...)
		for _, p := range permutations(rest) {
			out = append(out, append([]string{in[i]}, p...))
		}
	}
	return out
}

func words(n, base int) [][]int {
	total := 1
	for i := 0; i < n; i++ {
		total *= base
	}
	var out [][]int
	for w := 0; w < total; w++ {
		word := make([]int, n)
		x := w
		for i := 0; i < n; i++ {
			word[i] = x % base
			x /= base
		}
		out = append(out, word)
	}
	return out
}

func hasZero(w []int) bool {
	for _, x := range w {
		if x == 0 {
			return true
		}
	}
	return false
}

func wordName(w []int) string {
	var b strings.Builder
	for _, x := range w {
		fmt.Fprintf(&b, "%d", x)
	}
	return b.String()
}

var cliReachCoreOnce sync.Once
var cliReachCoreList []cliReachCase

// cliReachCore is the enumerated part of the case list (independent of seed and tier).
func cliReachCore() []cliReachCase {
	cliReachCoreOnce.Do(func() {
		var out []cliReachCase
		labels := func(prefix string, n int) []string {
			var l []string
			for i := 1; i <= n; i++ {
				l = append(l, fmt.Sprintf("%s%d", prefix, i))
			}
			return l
		}
		phase := func(lbls []string, w []int) map[string]int {
			m := map[string]int{}
			for i, l := range lbls {
				m[l] = w[i]
			}
			return m
		}
		// A: client creation under every fault word
		for n := 1; n <= 4; n++ {
			bl := labels("b", n)
			for _, w := range words(n, 4) {
				if !hasZero(w) {
					continue
				}
				c := cliReachCase{Name: fmt.Sprintf("newclient/n=%d/%s", n, wordName(w)), N: n}
				for _, rm := range []int{0, 1} {
					for rep := 0; rep < 3; rep++ {
						c.Runs = append(c.Runs, cliReachRun{Mode: "newclient", Seeds: bl, RetryMax: rm, Phases: []map[string]int{phase(bl, w)}})
					}
				}
				out = append(out, c)
			}
		}
		// B: refresh under every fault word, seeds = all brokers (two steered orders) or only the first one
		k := 0
		for n := 1; n <= 4; n++ {
			bl := labels("b", n)
			perms := permutations(bl)
			for _, w := range words(n, 4) {
				if !hasZero(w) {
					continue
				}
				c := cliReachCase{Name: fmt.Sprintf("refresh/n=%d/%s", n, wordName(w)), N: n}
				for _, rm := range []int{0, 1} {
					for rep := 0; rep < 2; rep++ {
						c.Runs = append(c.Runs, cliReachRun{Mode: "refresh", Seeds: bl, Order: perms[k%len(perms)], RetryMax: rm, Phases: []map[string]int{phase(bl, w)}})
						k++
					}
					c.Runs = append(c.Runs, cliReachRun{Mode: "refresh", Seeds: bl[:1], RetryMax: rm, Phases: []map[string]int{phase(bl, w)}})
				}
				out = append(out, c)
			}
		}
		// C1: two phases, 2 brokers, bootstrap aliases as seeds: up/refused per address
		{
			al := append(labels("a", 2), labels("b", 2)...)
			seeds := labels("a", 2)
			perms := permutations(seeds)
			for _, w1 := range words(4, 2) {
				if !hasZero(w1) {
					continue
				}
				c := cliReachCase{Name: "two-phase/alias/n=2/" + wordName(w1), N: 2, Aliases: true}
				for _, w2 := range words(4, 2) {
					if !hasZero(w2) {
						continue
					}
					for _, rm := range []int{0, 1} {
						for _, p := range perms {
							c.Runs = append(c.Runs, cliReachRun{Mode: "refresh", Seeds: seeds, Order: p, RetryMax: rm, Phases: []map[string]int{phase(al, w1), phase(al, w2)}})
						}
					}
				}
				out = append(out, c)
			}
		}
		// C2: two phases, 2-3 brokers, advertised addresses as seeds; the fault kind alternates with the broker index
		for n := 2; n <= 3; n++ {
			bl := labels("b", n)
			perms := permutations(bl)
			kinds := func(w []int, shift int) []int {
				o := make([]int, len(w))
				for i, x := range w {
					if x != 0 {
						o[i] = 1 + (i+shift)%3
					}
				}
				return o
			}
			for _, w1 := range words(n, 2) {
				if !hasZero(w1) {
					continue
				}
				c := cliReachCase{Name: fmt.Sprintf("two-phase/advertised/n=%d/%s", n, wordName(w1)), N: n}
				j := 0
				for _, w2 := range words(n, 2) {
					if !hasZero(w2) {
						continue
					}
					for _, rm := range []int{0, 1} {
						for rep := 0; rep < 2; rep++ {
							c.Runs = append(c.Runs, cliReachRun{Mode: "refresh", Seeds: bl, Order: perms[j%len(perms)], RetryMax: rm,
								Phases: []map[string]int{phase(bl, kinds(w1, 0)), phase(bl, kinds(w2, 1))}})
							j++
						}
					}
				}
				out = append(out, c)
			}
		}
		// D: a total outage met by several refreshing callers at once, then the seeds (or some) answer again
		for n := 1; n <= 3; n++ {
			for _, alias := range []bool{false, true} {
				bl := labels("b", n)
				seeds := bl
				all := map[string]int{}
				for _, l := range bl {
					all[l] = rfRefuse
				}
				if alias {
					seeds = labels("a", n)
					for _, l := range seeds {
						all[l] = rfRefuse
					}
				}
				back := map[string]int{}
				for _, l := range append(append([]string(nil), bl...), seeds...) {
					if l[1] != '1' {
						back[l] = rfRefuse // only the first broker (and its alias) returns
					}
				}
				c := cliReachCase{Name: fmt.Sprintf("outage-concurrent/n=%d/alias=%v", n, alias), N: n, Aliases: alias}
				for _, conc := range []int{2, 4, 8} {
					for _, rm := range []int{0, 1} {
						for rep := 0; rep < 4; rep++ {
							c.Runs = append(c.Runs, cliReachRun{Mode: "refresh", Seeds: seeds, RetryMax: rm, Conc: conc,
								Phases: []map[string]int{all, all, back, all, {}}})
						}
					}
				}
				out = append(out, c)
			}
		}
		cliReachCoreList = out
	})
	return cliReachCoreList
}

// cliGenReach draws a random multi-phase reachability case (phases may be total outages).
func cliGenReach(rng *rand.Rand) cliReachCase {
	n := 1 + rng.Intn(4)
	c := cliReachCase{Name: "random", N: n, Aliases: rng.Intn(2) == 0}
	var bl, al []string
	for i := 1; i <= n; i++ {
		bl = append(bl, fmt.Sprintf("b%d", i))
		al = append(al, fmt.Sprintf("a%d", i))
	}
	for r := 0; r < 6; r++ {
		run := cliReachRun{Mode: "refresh", RetryMax: rng.Intn(2)}
		if rng.Intn(3) == 0 {
			run.Mode = "newclient"
		}
		pool := bl
		if c.Aliases && rng.Intn(3) != 0 {
			pool = al
			if rng.Intn(3) == 0 {
				pool = append(append([]string(nil), al...), bl...)
			}
		}
		for _, l := range pool {
			if rng.Intn(3) != 0 {
				run.Seeds = append(run.Seeds, l)
			}
		}
		if len(run.Seeds) == 0 {
			run.Seeds = []string{pool[rng.Intn(len(pool))]}
		}
		if rng.Intn(2) == 0 {
			run.Order = append([]string(nil), run.Seeds...)
			rng.Shuffle(len(run.Order), func(i, j int) { run.Order[i], run.Order[j] = run.Order[j], run.Order[i] })
		}
		nph := 1 + rng.Intn(5)
		pDown := []int{20, 45, 70}[rng.Intn(3)]
		for p := 0; p < nph; p++ {
			ph := map[string]int{}
			for _, l := range bl {
				if rng.Intn(100) < pDown {
					ph[l] = 1 + rng.Intn(4)
				}
			}
			if c.Aliases {
				for _, l := range al {
					if rng.Intn(100) < pDown {
						ph[l] = rfRefuse
					}
				}
			}
			run.Phases = append(run.Phases, ph)
		}
		c.Runs = append(c.Runs, run)
	}
	return c
}

func labelBroker(l string) int32 {
	var id int32
	fmt.Sscanf(l[1:], "%d", &id)
	return id
}

// runCliReachCase runs every run of the case on one simulated cluster.
func runCliReachCase(c cliReachCase) proto.Rec {
	rec := proto.Rec{Obs: map[string]int64{}}
	var vs violSet
	sim := sarama.VNewSim(simSocketDir(), c.N)
	defer sim.Close()
	sim.CreateTopic("t0", 2, 0)
	dialer := sarama.VNewRecDialer(sim)
	addrOf := map[string]string{}
	labelOf := map[string]string{}
	for i := 1; i <= c.N; i++ {
		b := fmt.Sprintf("b%d", i)
		addrOf[b] = sim.BrokerAddr(int32(i))
		labelOf[addrOf[b]] = b
		a := fmt.Sprintf("a%d", i)
		addrOf[a] = fmt.Sprintf("boot%d.vsim:9092", i)
		labelOf[addrOf[a]] = a
		dialer.SetAlias(addrOf[a], int32(i))
	}
	// per-broker behaviour of the current phase
	var fmu sync.Mutex
	brokerFault := map[int32]int{}
	transientUsed := map[int32]bool{}
	sim.OnMetadata = func(ctx *sarama.VSimReqCtx) sarama.VSimConnAction {
		fmu.Lock()
		defer fmu.Unlock()
		switch brokerFault[ctx.Broker] {
		case rfDropBefore:
			return sarama.VSimConnAction{Kind: sarama.VConnDropBefore}
		case rfDropAfter:
			return sarama.VSimConnAction{Kind: sarama.VConnDropAfter}
		case rfTransient:
			if !transientUsed[ctx.Broker] {
				transientUsed[ctx.Broker] = true
				return sarama.VSimConnAction{Kind: sarama.VConnDropBefore}
			}
		}
		return sarama.VSimConnAction{}
	}
	setPhase := func(ph map[string]int) {
		fmu.Lock()
		brokerFault = map[int32]int{}
		transientUsed = map[int32]bool{}
		dialer.ClearRefuse()
		for l, k := range ph {
			switch {
			case k == rfRefuse:
				dialer.SetRefuse(addrOf[l], true)
			case k != rfHealthy && l[0] == 'b':
				brokerFault[labelBroker(l)] = k
			}
		}
		fmu.Unlock()
	}
	// an address answers iff it is not refused and its broker handles metadata requests
	answers := func(ph map[string]int, l string) bool {
		if ph[l] != rfHealthy {
			return false
		}
		if l[0] == 'a' {
			return ph["b"+l[1:]] == rfHealthy || ph["b"+l[1:]] == rfRefuse
		}
		return true
	}

	paths := map[string]bool{}
	inconcl := ""
	for ri := range c.Runs {
		run := &c.Runs[ri]
		sink := newSink()
		crec := newCliRecorder(sink)
		conf := cliConfig(sarama.V1_0_0_0, true, run.RetryMax, false)
		dialer.Configure(conf)
		var seedAddrs []string
		for _, l := range run.Seeds {
			seedAddrs = append(seedAddrs, addrOf[l])
		}
		describe := func(pi int) string {
			var ph []string
			for p := 0; p <= pi && p < len(run.Phases); p++ {
				var parts []string
				for l, k := range run.Phases[p] {
					if k != rfHealthy {
						parts = append(parts, l+"="+rfNames[k])
					}
				}
				sort.Strings(parts)
				ph = append(ph, "{"+strings.Join(parts, ",")+"}")
			}
			return fmt.Sprintf("brokers=%d seeds=%v order=%v Metadata.Retry.Max=%d mode=%s concurrent-callers-during-outages=%d phases=%s", c.N, run.Seeds, run.Order, run.RetryMax, run.Mode, run.Conc, strings.Join(ph, " then "))
		}
		first := 0
		setPhase(nil)
		if run.Mode == "newclient" {
			setPhase(run.Phases[0])
			first = 1
		}
		dialer.ResetDials()
		cl, err := sarama.NewClient(seedAddrs, conf)
		rec.Obs["clients_created"]++
		rec.Evals++
		if run.Mode == "newclient" {
			pre := false
			for _, l := range run.Seeds {
				if answers(run.Phases[0], l) {
					pre = true
				}
			}
			order := dialOrder(dialer.Dials(), labelOf)
			if pre {
				rec.Obs["newclient_with_dead_seeds_judged"]++
				if atomic.LoadInt64(&crec.fetchErrs) > 0 {
					rec.Obs["calls_that_tried_a_failing_broker_first"]++
					paths[fmt.Sprintf("newclient|n=%d|retry=%d|%s|%s", c.N, run.RetryMax, phaseKey(run.Phases[0]), order)] = true
				}
				if err != nil {
					vs.add("refresh-failed-with-healthy-broker", fmt.Sprintf("newclient,retry.max=%d,healthy=%s", run.RetryMax, healthyWhere(run.Phases[0], answers, run.Seeds, nil, nil, nil, labelOf)),
						fmt.Sprintf("NewClient failed: %v; %s; addresses dialled in order: %s", err, describe(0), order))
				}
			} else if err == nil && !phaseHasTransient(run.Phases[0]) {
				inconcl = "NewClient succeeded although the model says no seed answers: " + describe(0)
			}
		} else if err != nil {
			inconcl = fmt.Sprintf("NewClient on the healthy cluster failed: %v", err)
		}
		if err != nil {
			sink.retire()
			crec.retire()
			continue
		}
		if run.Order != nil {
			var o []string
			for _, l := range run.Order {
				o = append(o, addrOf[l])
			}
			sarama.VerifClientSetSeedOrder(cl, o)
		}
		for pi := first; pi < len(run.Phases); pi++ {
			ph := run.Phases[pi]
			setPhase(ph)
			live, dead := sarama.VerifClientSeeds(cl)
			var known []string
			for _, b := range cl.Brokers() {
				known = append(known, b.Addr())
			}
			pre := false
			for _, a := range append(append(append(append([]string(nil), live...), dead...), known...), seedAddrs...) {
				if l, ok := labelOf[a]; ok && answers(ph, l) {
					pre = true
				}
			}
			dialer.ResetDials()
			before := crec.count()
			fe0 := atomic.LoadInt64(&crec.fetchErrs)
			if !pre && run.Conc > 1 {
				// nobody answers: several callers run dry at the same time (judged by what the next phases find)
				var wg sync.WaitGroup
				for g := 0; g < run.Conc; g++ {
					wg.Add(1)
					go func() {
						defer wg.Done()
						for i := 0; i < 3; i++ {
							cl.RefreshMetadata()
						}
					}()
				}
				wg.Wait()
				rec.Obs["outage_phases_with_concurrent_callers"]++
				rec.Obs["refresh_calls"] += int64(3 * run.Conc)
				continue
			}
			rerr := cl.RefreshMetadata()
			rec.Obs["refresh_calls"]++
			order := dialOrder(dialer.Dials(), labelOf)
			appliedDuring := 0
			for _, ev := range crec.events()[before:] {
				if ev.Kind == "applied" {
					appliedDuring++
				}
			}
			if cliTimeout(rerr) {
				inconcl = fmt.Sprintf("unexpected timeout without injected silence: %v", rerr)
				break
			}
			if pre {
				rec.Obs["refresh_calls_judged"]++
				if atomic.LoadInt64(&crec.fetchErrs) > fe0 {
					rec.Obs["calls_that_tried_a_failing_broker_first"]++
					paths[fmt.Sprintf("refresh|n=%d|retry=%d|alias=%v|phase=%d|%s|%s", c.N, run.RetryMax, c.Aliases, pi, phaseKey(ph), order)] = true
				}
				if rerr != nil {
					rec.Obs["refresh_failed_with_healthy_broker"]++
					vs.add("refresh-failed-with-healthy-broker", fmt.Sprintf("refresh,retry.max=%d,healthy=%s", run.RetryMax, healthyWhere(ph, answers, nil, live, dead, known, labelOf)),
						fmt.Sprintf("RefreshMetadata failed in phase %d: %v; %s; before the call: live seeds %v, seeds parked as dead %v, known brokers %v; addresses dialled during the call: %s",
							pi, rerr, describe(pi), lbls(live, labelOf), lbls(dead, labelOf), lbls(known, labelOf), order))
				} else {
					if appliedDuring == 0 {
						vs.add("stale-after-refresh", "RefreshMetadata:nil-without-applying-a-response", fmt.Sprintf("phase %d; %s", pi, describe(pi)))
					}
					r := cliDoRead(cl, crec, apiPartitions, "t0", 0)
					if r.err != nil || !eqInt32s(r.ints, []int32{0, 1}) {
						vs.add("wrong-answer", "Partitions:ids", fmt.Sprintf("after a successful refresh: %s; %s", &r, describe(pi)))
					}
					rb := cliDoRead(cl, crec, apiBrokers, "", 0)
					if len(rb.bmap) != c.N {
						vs.add("wrong-answer", "Brokers:set", fmt.Sprintf("after a successful refresh: %s; %s", &rb, describe(pi)))
					}
				}
			} else {
				rec.Obs["refresh_calls_without_claim(no_healthy_seed_or_known_broker)"]++
				if rerr == nil && !phaseHasTransient(ph) {
					inconcl = "RefreshMetadata succeeded although the model says nobody answers: " + describe(pi)
				}
			}
		}
		cl.Close()
		sink.retire()
		crec.retire()
	}
	rec.Viols = vs.list
	for p := range paths {
		rec.Paths = append(rec.Paths, p)
	}
	sort.Strings(rec.Paths)
	rec.NonTrivial = len(rec.Paths) > 0
	if len(rec.Paths) > 0 {
		rec.Path = rec.Paths[0]
	}
	if inconcl != "" && len(vs.list) == 0 {
		rec.Verdict, rec.Why = "inconclusive", inconcl
	}
	rec.Sample = map[string]interface{}{"case": c.Name, "brokers": c.N, "runs": len(c.Runs), "first_run": c.Runs[0]}
	return rec
}

func cliTimeout(err error) bool {
	return err != nil && strings.Contains(err.Error(), "i/o timeout")
}

func phaseKey(ph map[string]int) string {
	var parts []string
	for l, k := range ph {
		if k != rfHealthy {
			parts = append(parts, fmt.Sprintf("%s:%d", l, k))
		}
	}
	sort.Strings(parts)
	return strings.Join(parts, ",")
}

func phaseHasTransient(ph map[string]int) bool {
	for _, k := range ph {
		if k == rfTransient {
			return true
		}
	}
	return false
}

func lbls(addrs []string, labelOf map[string]string) []string {
	var out []string
	for _, a := range addrs {
		if l, ok := labelOf[a]; ok {
			out = append(out, l)
		} else {
			out = append(out, a)
		}
	}
	return out
}

func dialOrder(ds []sarama.VSimDial, labelOf map[string]string) string {
	var out []string
	for _, d := range ds {
		l := labelOf[d.Addr]
		if d.Refused {
			l += "!"
		}
		if d.OldConn {
			l += "(old-conn)"
		}
		out = append(out, l)
	}
	return strings.Join(out, ">")
}

// healthyWhere names, from the client's own lists before the call, where the
// answering addresses were: among the seeds it would still try, among the seeds
// it had parked as dead, or (knownWhere) among the brokers it knows from metadata.
func healthyWhere(ph map[string]int, answers func(map[string]int, string) bool, seedLabels []string, live, dead, known []string, labelOf map[string]string) string {
	var where []string
	for _, l := range seedLabels {
		if answers(ph, l) {
			where = append(where, "live-seed")
		}
	}
	for _, a := range live {
		if l, ok := labelOf[a]; ok && answers(ph, l) {
			where = append(where, "live-seed")
		}
	}
	for _, a := range dead {
		if l, ok := labelOf[a]; ok && answers(ph, l) {
			where = append(where, "parked-seed")
		}
	}
	for _, a := range known {
		if l, ok := labelOf[a]; ok && answers(ph, l) {
			where = append(where, "known")
		}
	}
	if len(where) == 0 {
		return "seed-in-none-of-the-client's-lists"
	}
	return strings.Join(uniqSorted(where), "+")
}

var _ = time.Second
