package main

// Engine "fuzz": C10 (malformed or corrupted input yields an error, never a
// crash or wrong data). Targets, seeds, mutators and oracles live inside
// package sarama (overlay/sarama/fuzz*.go). This file runs every case in a
// sub-process of the worker (the same binary, entered through init when
// VERIF_FUZZ_SUB is set), because the failures looked for include deaths no
// recover() can stop (out of memory, stack overflow) and calls that never
// return: the sub-process writes the sequence number and the bytes of every
// input to a file before decoding it, the worker watches it (CPU time consumed
// without the sequence number moving = hang), reads the witness when it dies,
// and starts a successor behind the fatal input, so that one case always
// evaluates its whole mutation space and every death becomes one violation
// with the input attached.

import (
	"bufio"
	"encoding/binary"
	"encoding/hex"
	"encoding/json"
	"fmt"
	"io/ioutil"
	"log"
	"os"
	"os/exec"
	"path/filepath"
	"regexp"
	"runtime/debug"
	"sort"
	"strconv"
	"strings"
	"syscall"
	"time"

	"github.com/Shopify/sarama"

	"verifharness/internal/proto"
)

func init() {
	engines["fuzz"] = &fuzzEngine{}
	if spec := os.Getenv("VERIF_FUZZ_SUB"); spec != "" {
		fuzzSubMain(spec)
		os.Exit(0)
	}
}

type fuzzEngine struct{}

func (e *fuzzEngine) Count(prop, tier string, seed int64) int { return sarama.VerifFuzzCount(tier) }

type fuzzSubSpec struct {
	Tier string `json:"tier"`
	Seed int64  `json:"seed"`
	Idx  int    `json:"idx"`
	From int    `json:"from"`
	Out  string `json:"out"`
	Cur  string `json:"cur"`
	Ckpt int    `json:"ckpt"`
	// Budget: allocation-excess findings this incarnation may still make before it stops the case
	Budget int `json:"budget"`
}

const (
	fuzzCurMagic = 0x465a4331
	fuzzCurMax   = 1 << 20
	fuzzCurHdr   = 32
	// address space of a sub-process. The Go runtime reserves about 600 MiB of it for
	// itself, so a single allocation of more than ~800 MiB kills the sub-process at once
	// (cheap) instead of being zeroed page by page (slow, and 16 of them run side by side).
	fuzzMemLimit = 2048 << 20
	// a death on a request of at least this size would also happen under the 4 GiB cap of
	// the worker itself (props.go MemMB): fatal:oom; smaller requests are reported as
	// alloc-excess, the kind they get when they are survived and measured
	fuzzOOMBlock = 3 << 30
	fuzzSpinCPU  = 10.0 // seconds of CPU inside one decode call = hang
	fuzzBlockedS = 45.0 // seconds without progress and without CPU = hang (blocked)
	// a case that has killed this many sub-processes (or hung this often) is violated many
	// times over; its remaining inputs are not evaluated (each death costs 20-100 ms, each
	// hang 10 s of CPU)
	fuzzMaxHangs = 2
)

// ---------------------------------------------------------------- sub-process

func fuzzSubMain(specJSON string) {
	var spec fuzzSubSpec
	if err := json.Unmarshal([]byte(specJSON), &spec); err != nil {
		fmt.Fprintln(os.Stderr, "fuzz sub: bad spec:", err)
		os.Exit(2)
	}
	sarama.Logger = log.New(ioutil.Discard, "", 0)
	debug.SetTraceback("all")
	debug.SetMaxStack(64 << 20)
	// collect early: garbage of earlier inputs must not fill the address space
	debug.SetGCPercent(50)
	debug.SetMemoryLimit(256 << 20)
	cur, err := os.OpenFile(spec.Cur, os.O_CREATE|os.O_RDWR|os.O_TRUNC, 0o644)
	if err != nil {
		fmt.Fprintln(os.Stderr, "fuzz sub:", err)
		os.Exit(2)
	}
	out, err := os.OpenFile(spec.Out, os.O_CREATE|os.O_WRONLY|os.O_APPEND, 0o644)
	if err != nil {
		fmt.Fprintln(os.Stderr, "fuzz sub:", err)
		os.Exit(2)
	}
	wbuf := make([]byte, fuzzCurHdr, 64<<10)
	var ticks uint64
	var tbuf [8]byte
	hooks := sarama.VerifFuzzHooks{
		Tick: func() {
			ticks++
			binary.LittleEndian.PutUint64(tbuf[:], ticks)
			cur.WriteAt(tbuf[:], 24)
		},
		CheckpointEvery: spec.Ckpt,
		ExpensiveBudget: spec.Budget,
		Before: func(seq, evals int, in []byte) {
			n := len(in)
			if n > fuzzCurMax {
				n = fuzzCurMax
			}
			wbuf = wbuf[:fuzzCurHdr]
			binary.LittleEndian.PutUint64(wbuf, uint64(seq))
			binary.LittleEndian.PutUint32(wbuf[8:], uint32(len(in)))
			binary.LittleEndian.PutUint32(wbuf[12:], fuzzCurMagic)
			binary.LittleEndian.PutUint64(wbuf[16:], uint64(evals))
			ticks++
			binary.LittleEndian.PutUint64(wbuf[24:], ticks)
			wbuf = append(wbuf, in[:n]...)
			cur.WriteAt(wbuf, 0)
		},
		Checkpoint: func(res *sarama.VerifFuzzResult) {
			b, _ := json.Marshal(res)
			out.Write(append(b, '\n'))
		},
	}
	res := sarama.VerifFuzzRun(spec.Tier, spec.Seed, spec.Idx, spec.From, hooks)
	b, _ := json.Marshal(res)
	out.Write(append(b, '\n'))
	out.Close()
}

// ---------------------------------------------------------------- worker side

type fuzzMerged struct {
	evals  int
	seq    int
	paths  map[string]bool
	obs    map[string]int64
	viols  map[string]*sarama.VerifFuzzViol
	sample map[string]interface{}
	seeds  int
}

func (m *fuzzMerged) add(r *sarama.VerifFuzzResult) {
	m.evals += r.Evals
	if r.Seq > m.seq {
		m.seq = r.Seq
	}
	for _, p := range r.Paths {
		m.paths[p] = true
	}
	for k, v := range r.Obs {
		if k == "seeds" || strings.HasPrefix(k, "seeds_") {
			if v > m.obs[k] {
				m.obs[k] = v
			}
			continue
		}
		m.obs[k] += v
	}
	for i := range r.Viols {
		v := r.Viols[i]
		m.addViol(v)
	}
	if m.sample == nil && r.Sample != nil {
		m.sample = r.Sample
	}
	if r.SeedsValid > m.seeds {
		m.seeds = r.SeedsValid
	}
}

func (m *fuzzMerged) addViol(v sarama.VerifFuzzViol) {
	k := v.Kind + "|" + v.Attr
	old := m.viols[k]
	if old == nil {
		vv := v
		m.viols[k] = &vv
		return
	}
	old.Count += v.Count
	if v.Size < old.Size {
		old.Size, old.Msg = v.Size, v.Msg
	}
}

func (e *fuzzEngine) Run(prop, tier string, seed int64, idx int) proto.Rec {
	name := sarama.VerifFuzzName(tier, idx)
	rec := proto.Rec{ID: fmt.Sprintf("%s/%s/%d/%d:%s", prop, tier, seed, idx, name)}
	m := &fuzzMerged{paths: map[string]bool{}, obs: map[string]int64{}, viols: map[string]*sarama.VerifFuzzViol{}}
	base := filepath.Join(runDir, fmt.Sprintf("fz-%s-%d-%d", tier, idx, os.Getpid()))
	from := 0
	why := ""
	for attempt := 0; ; attempt++ {
		maxExpensive := int64(80)
		if tier == "thorough" {
			maxExpensive = 300
		}
		expensive := m.obs["sub_deaths"] + m.obs["alloc_excess"]
		if expensive >= maxExpensive || m.obs["hangs"] >= fuzzMaxHangs || m.obs["stopped_early"] > 0 {
			why = fmt.Sprintf("stopped after %d sub-process deaths, %d hangs and %d measured allocation excesses: the inputs behind #%d were not evaluated", m.obs["sub_deaths"], m.obs["hangs"], m.obs["alloc_excess"], from)
			break
		}
		spec := fuzzSubSpec{Tier: tier, Seed: seed, Idx: idx, From: from, Out: base + ".out", Cur: base + ".cur", Ckpt: 4000, Budget: int(maxExpensive - expensive)}
		if attempt > 0 {
			spec.Ckpt = 250 // deaths are frequent in this case: lose less of what each incarnation observed
		}
		os.Remove(spec.Out)
		os.Remove(spec.Cur)
		end := fuzzRunSub(spec, base+".err")
		last := fuzzLastResult(spec.Out)
		if last != nil {
			m.add(last)
		}
		if end.done && last != nil && last.Done {
			break
		}
		// the sub-process died or was stopped: the witness is the input it announced last
		seq, input, ilen, evalsAtDeath := fuzzReadCur(spec.Cur)
		m.obs["sub_deaths"]++
		crash := end.stderr
		if seq <= from {
			// it died before evaluating anything new: not attributable to an input
			kind, attr := fuzzClassifyCrash(crash, end.hang)
			why = fmt.Sprintf("sub-process died outside a decode call (seq %d, from %d, exit %d): %s|%s: %s", seq, from, end.code, kind, attr, fuzzFirstN(crash, 12))
			break
		}
		kind, attr := fuzzClassifyCrash(crash, end.hang)
		if end.hang {
			m.obs["hangs"]++
		}
		if kind == "fatal:oom" {
			if mm := fuzzReBlock.FindStringSubmatch(crash); mm != nil {
				if n, err := strconv.ParseUint(mm[1], 10, 64); err == nil && n < fuzzOOMBlock {
					kind = "alloc-excess"
					end.what = fmt.Sprintf("asked for a block of %d bytes (more than the sub-process may map: it died)", n)
				}
			}
		}
		// inputs evaluated since the last checkpoint of this incarnation, the fatal one included
		if last == nil {
			m.evals += evalsAtDeath
		} else if evalsAtDeath > last.Evals {
			m.evals += evalsAtDeath - last.Evals
		}
		if strings.HasPrefix(attr, "harness") || strings.HasPrefix(attr, "?") {
			// the harness itself (reference decompression, seed construction) died on this input:
			// nothing is claimed about sarama; the input is skipped and the case marked
			m.obs["harness_deaths"]++
			if why == "" {
				why = fmt.Sprintf("the harness died on input #%d (%s|%s): %s", seq, kind, attr, fuzzFirstN(fuzzTraceExcerpt(crash), 8))
			}
			from = seq
			continue
		}
		msg := fmt.Sprintf("%s: input #%d (%d bytes) %s; input=%s; %s", name, seq, ilen, end.what, fuzzHex(input, 200), fuzzFirstN(fuzzTraceExcerpt(crash), 30))
		m.addViol(sarama.VerifFuzzViol{Kind: kind, Attr: attr, Msg: msg, Count: 1, Size: ilen})
		if verbose {
			fmt.Fprintf(os.Stderr, "  sub died at input #%d: %s|%s\n", seq, kind, attr)
		}
		from = seq
	}
	os.Remove(base + ".out")
	os.Remove(base + ".cur")
	os.Remove(base + ".err")

	rec.Evals = m.evals
	for p := range m.paths {
		rec.Paths = append(rec.Paths, p)
	}
	sort.Strings(rec.Paths)
	rec.Obs = m.obs
	rec.Obs["inputs"] = int64(m.evals)
	rec.Sample = m.sample
	if rec.Sample == nil {
		rec.Sample = map[string]interface{}{"target": name}
	}
	rec.NonTrivial = m.seeds > 0 && len(rec.Paths) >= 2
	if len(rec.Paths) > 0 {
		rec.Path = rec.Paths[0]
	}
	keys := make([]string, 0, len(m.viols))
	for k := range m.viols {
		keys = append(keys, k)
	}
	sort.Strings(keys)
	for _, k := range keys {
		v := m.viols[k]
		msg := v.Msg
		if v.Count > 1 {
			msg = fmt.Sprintf("[%d inputs of this case] %s", v.Count, msg)
		}
		rec.Viols = append(rec.Viols, proto.Viol{Kind: v.Kind, Attr: v.Attr, Msg: msg})
	}
	if why != "" && len(rec.Viols) == 0 {
		rec.Verdict = "inconclusive"
		rec.Why = why
	} else if why != "" {
		rec.Obs["incomplete"] = 1
		rec.Sample["incomplete"] = why
	}
	if m.seeds == 0 && len(rec.Viols) == 0 && why == "" {
		rec.Verdict = "inconclusive"
		rec.Why = "no valid encoding of the target could be built (nothing was mutated)"
	}
	if verbose {
		fmt.Printf("%-52s inputs=%d paths=%d viols=%d deaths=%d\n", name, rec.Evals, len(rec.Paths), len(rec.Viols), m.obs["sub_deaths"])
		for _, v := range rec.Viols {
			fmt.Printf("    VIOL %s | %s | %s\n", v.Kind, v.Attr, fuzzFirstN(v.Msg, 3))
		}
	}
	return rec
}

type fuzzSubEnd struct {
	done   bool
	hang   bool
	code   int
	what   string
	stderr string
}

func fuzzRunSub(spec fuzzSubSpec, errPath string) fuzzSubEnd {
	sj, _ := json.Marshal(spec)
	ef, err := os.Create(errPath)
	if err != nil {
		return fuzzSubEnd{what: err.Error()}
	}
	// the address-space limit has to be in place before the Go runtime of the sub-process starts
	cmd := exec.Command("/bin/sh", "-c", fmt.Sprintf("ulimit -v %d 2>/dev/null; exec \"$0\"", fuzzMemLimit>>10), os.Args[0])
	cmd.Env = append(os.Environ(), "VERIF_FUZZ_SUB="+string(sj), "GOMAXPROCS=1", "GOTRACEBACK=all")
	cmd.Stdout = ef
	cmd.Stderr = ef
	// a sub-process spinning inside a decode call must not outlive this worker
	cmd.SysProcAttr = &syscall.SysProcAttr{Pdeathsig: syscall.SIGKILL}
	if err := cmd.Start(); err != nil {
		ef.Close()
		return fuzzSubEnd{what: "cannot start sub-process: " + err.Error()}
	}
	exited := make(chan error, 1)
	go func() { exited <- cmd.Wait() }()

	end := fuzzSubEnd{}
	lastSeq := uint64(0)
	tChange := time.Now()
	cpuChange := fuzzCPU(cmd.Process.Pid)
	tick := time.NewTicker(100 * time.Millisecond)
	defer tick.Stop()
	var werr error
loop:
	for {
		select {
		case werr = <-exited:
			break loop
		case <-tick.C:
			seq := fuzzPeekSeq(spec.Cur)
			cpu := fuzzCPU(cmd.Process.Pid)
			if seq != lastSeq {
				lastSeq, tChange, cpuChange = seq, time.Now(), cpu
				continue
			}
			spent := cpu - cpuChange
			idle := time.Since(tChange).Seconds()
			switch {
			case spent >= fuzzSpinCPU:
				end.hang = true
				end.what = fmt.Sprintf("did not return: %.1f s of CPU consumed inside one call (stopped with SIGQUIT)", spent)
			case idle >= fuzzBlockedS && spent < 0.2:
				end.hang = true
				end.what = fmt.Sprintf("did not return: %.0f s without progress and without consuming CPU (blocked; stopped with SIGQUIT)", idle)
			}
			if end.hang {
				cmd.Process.Signal(syscall.SIGQUIT)
				select {
				case werr = <-exited:
				case <-time.After(10 * time.Second):
					cmd.Process.Kill()
					werr = <-exited
				}
				break loop
			}
		}
	}
	ef.Close()
	b, _ := ioutil.ReadFile(errPath)
	if len(b) > 1<<20 {
		b = append(append([]byte{}, b[:768<<10]...), b[len(b)-(128<<10):]...)
	}
	end.stderr = string(b)
	if werr == nil && !end.hang {
		end.done = true
		return end
	}
	if ee, ok := werr.(*exec.ExitError); ok {
		end.code = ee.ExitCode()
	}
	if end.what == "" {
		end.what = "killed the process"
	}
	return end
}

func fuzzCPU(pid int) float64 {
	b, err := ioutil.ReadFile(fmt.Sprintf("/proc/%d/stat", pid))
	if err != nil {
		return 0
	}
	s := string(b)
	i := strings.LastIndex(s, ")")
	if i < 0 {
		return 0
	}
	f := strings.Fields(s[i+1:])
	if len(f) < 13 {
		return 0
	}
	ut, _ := strconv.ParseFloat(f[11], 64)
	stt, _ := strconv.ParseFloat(f[12], 64)
	return (ut + stt) / 100
}

func fuzzPeekSeq(path string) uint64 {
	f, err := os.Open(path)
	if err != nil {
		return 0
	}
	defer f.Close()
	// progress = the tick counter (it moves with every input and between the runs of one input)
	var h [fuzzCurHdr]byte
	if n, _ := f.ReadAt(h[:], 0); n < fuzzCurHdr {
		return 0
	}
	return binary.LittleEndian.Uint64(h[24:])
}

func fuzzReadCur(path string) (seq int, input []byte, ilen, evals int) {
	b, err := ioutil.ReadFile(path)
	if err != nil || len(b) < fuzzCurHdr || binary.LittleEndian.Uint32(b[12:]) != fuzzCurMagic {
		return 0, nil, 0, 0
	}
	seq = int(binary.LittleEndian.Uint64(b))
	ilen = int(binary.LittleEndian.Uint32(b[8:]))
	evals = int(binary.LittleEndian.Uint64(b[16:]))
	n := ilen
	if n > len(b)-fuzzCurHdr {
		n = len(b) - fuzzCurHdr
	}
	return seq, b[fuzzCurHdr : fuzzCurHdr+n], ilen, evals
}

func fuzzLastResult(path string) *sarama.VerifFuzzResult {
	f, err := os.Open(path)
	if err != nil {
		return nil
	}
	defer f.Close()
	var last *sarama.VerifFuzzResult
	sc := bufio.NewScanner(f)
	sc.Buffer(make([]byte, 1<<20), 256<<20)
	for sc.Scan() {
		var r sarama.VerifFuzzResult
		if json.Unmarshal(sc.Bytes(), &r) == nil {
			rr := r
			last = &rr
		}
	}
	return last
}

func fuzzHex(b []byte, max int) string {
	if len(b) > max {
		return hex.EncodeToString(b[:max]) + fmt.Sprintf("…(+%d bytes)", len(b)-max)
	}
	return hex.EncodeToString(b)
}

func fuzzFirstN(s string, n int) string {
	l := strings.Split(s, "\n")
	if len(l) > n {
		l = l[:n]
	}
	return strings.Join(l, "\n")
}

// ---------------------------------------------------------------- crash output -> (kind, attribution)

type fuzzFrame struct {
	fn, file string
}

var fuzzReBlock = regexp.MustCompile(`cannot allocate (\d+)-byte block`)

var fuzzReFile = regexp.MustCompile(`^\t(/\S+\.go):\d+`)

// fuzzGoroutines splits Go crash output into goroutine blocks of frames.
func fuzzGoroutines(out string) (blocks [][]fuzzFrame, heads []string) {
	lines := strings.Split(out, "\n")
	var cur []fuzzFrame
	inG := false
	flush := func() {
		if inG {
			blocks = append(blocks, cur)
		}
		cur = nil
	}
	for i := 0; i < len(lines); i++ {
		l := lines[i]
		if strings.HasPrefix(l, "goroutine ") && strings.HasSuffix(strings.TrimSpace(l), ":") {
			flush()
			inG = true
			heads = append(heads, l)
			continue
		}
		if !inG {
			continue
		}
		if l == "" {
			flush()
			inG = false
			continue
		}
		if strings.HasPrefix(l, "\t") || strings.HasPrefix(l, "created by ") || strings.HasPrefix(l, "...") {
			continue
		}
		fn := l
		if j := strings.LastIndex(fn, "("); j > 0 {
			fn = fn[:j]
		}
		file := ""
		if i+1 < len(lines) {
			if m := fuzzReFile.FindStringSubmatch(lines[i+1]); m != nil {
				file = m[1]
			}
		}
		cur = append(cur, fuzzFrame{fn: fn, file: file})
	}
	flush()
	return
}

func fuzzIsHarnessFrame(f fuzzFrame) bool {
	return strings.Contains(f.file, "zz_verif_") || strings.Contains(f.fn, ".VerifFuzz") || strings.HasPrefix(f.fn, "main.")
}

// fuzzShortFn keeps the package of a dependency function (as fzShortFn in the overlay).
func fuzzShortFn(fn string) string {
	if i := strings.LastIndex(fn, "/"); i >= 0 {
		fn = fn[i+1:]
	}
	if i := strings.Index(fn, "."); i > 0 {
		fn = fn[:i]
	}
	return fn
}

// fuzzSite: innermost sarama function that is not harness code, followed by
// ">dep.Func" when the innermost non-runtime frame belongs to a dependency.
func fuzzSite(frames []fuzzFrame) string {
	dep := ""
	for _, f := range frames {
		switch {
		case strings.HasPrefix(f.fn, "runtime.") || strings.HasPrefix(f.fn, "runtime/") || strings.HasPrefix(f.fn, "panic("):
		case strings.HasPrefix(f.fn, "github.com/Shopify/sarama."):
			if fuzzIsHarnessFrame(f) {
				if dep != "" {
					return "harness>" + dep
				}
				return "harness:" + strings.TrimPrefix(f.fn, "github.com/Shopify/sarama.")
			}
			s := strings.TrimPrefix(f.fn, "github.com/Shopify/sarama.")
			if i := strings.Index(s, ".func"); i > 0 {
				s = s[:i]
			}
			if dep != "" {
				return s + ">" + dep
			}
			return s
		case strings.HasPrefix(f.fn, "main."):
			return "harness:" + f.fn
		default:
			if dep == "" {
				dep = fuzzShortFn(f.fn)
			}
		}
	}
	if dep != "" {
		return "?>" + dep
	}
	return ""
}

func fuzzClassifyCrash(out string, hang bool) (kind, attr string) {
	kind = "crash:unknown"
	for _, l := range strings.Split(out, "\n") {
		switch {
		case strings.HasPrefix(l, "fatal error: runtime: out of memory"), strings.Contains(l, "cannot allocate memory"), strings.HasPrefix(l, "fatal error: out of memory"), strings.HasPrefix(l, "runtime: out of memory"):
			kind = "fatal:oom"
		case strings.HasPrefix(l, "fatal error: stack overflow"), strings.Contains(l, "goroutine stack exceeds"):
			kind = "fatal:stack"
		case strings.HasPrefix(l, "fatal error: checkptr"):
			kind = "fatal:checkptr"
		case strings.HasPrefix(l, "fatal error: all goroutines are asleep"):
			kind = "hang"
		case strings.HasPrefix(l, "fatal error:"):
			kind = "fatal:" + panicClass(strings.TrimSpace(strings.TrimPrefix(l, "fatal error:")))
		case strings.HasPrefix(l, "panic:"):
			kind = "panic:" + panicClass(strings.TrimPrefix(l, "panic: "))
		default:
			continue
		}
		break
	}
	if hang {
		kind = "hang"
	}
	blocks, _ := fuzzGoroutines(out)
	pick := -1
	if hang {
		// the goroutine that runs the case
		for i, b := range blocks {
			for _, f := range b {
				if strings.Contains(f.fn, "VerifFuzzRun") {
					pick = i
				}
			}
			if pick >= 0 {
				break
			}
		}
	}
	if pick < 0 {
		for i, b := range blocks {
			for _, f := range b {
				if strings.HasPrefix(f.fn, "github.com/Shopify/sarama.") {
					pick = i
					break
				}
			}
			if pick >= 0 {
				break
			}
		}
	}
	if pick < 0 {
		return kind, ""
	}
	frames := blocks[pick]
	if hang {
		// where inside the loop the goroutine was stopped is chance: name the outermost sarama function
		for i := len(frames) - 1; i >= 0; i-- {
			f := frames[i]
			if strings.HasPrefix(f.fn, "github.com/Shopify/sarama.") && !fuzzIsHarnessFrame(f) {
				fn := strings.TrimPrefix(f.fn, "github.com/Shopify/sarama.")
				if fn == "versionedDecode" || fn == "decode" {
					continue // the generic entry points: the body's own decode method is below them
				}
				return kind, fn
			}
		}
	}
	if kind == "fatal:stack" {
		// the overflow can hit any function of the recursion: name the cycle by
		// its alphabetically first sarama function among the innermost frames
		var fns []string
		for i, f := range frames {
			if i >= 16 {
				break
			}
			if strings.HasPrefix(f.fn, "github.com/Shopify/sarama.") && !fuzzIsHarnessFrame(f) {
				fns = append(fns, strings.TrimPrefix(f.fn, "github.com/Shopify/sarama."))
			}
		}
		if len(fns) > 0 {
			sort.Strings(fns)
			return kind, fns[0]
		}
	}
	return kind, fuzzSite(frames)
}

// fuzzTraceExcerpt keeps the first lines (the error) and the first goroutine
// with a sarama frame.
func fuzzTraceExcerpt(out string) string {
	lines := strings.Split(out, "\n")
	var keep []string
	for i, l := range lines {
		if i < 3 {
			keep = append(keep, l)
		}
	}
	start := -1
	for i, l := range lines {
		if strings.HasPrefix(l, "goroutine ") {
			start = i
		}
		if start >= 0 && strings.Contains(l, "github.com/Shopify/sarama.") {
			break
		}
	}
	if start >= 0 {
		for i := start; i < len(lines) && i < start+28; i++ {
			if lines[i] == "" {
				break
			}
			keep = append(keep, lines[i])
		}
	}
	return strings.Join(keep, "\n")
}
