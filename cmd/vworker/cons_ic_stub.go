package main

import "verifharness/internal/proto"

func consInterceptorCases(tier string) int { return 0 }

func runConsInterceptorCase(prop, tier string, seed int64, k, idx int) proto.Rec { return proto.Rec{} }
