package main

// Hook routing, event log, steering (the "director" of DESIGN.md §5).

import (
	"fmt"
	"runtime"
	"strings"
	"sync"
	"sync/atomic"
	"time"

	"github.com/Shopify/sarama"
)

// hookEv is one hook invocation, reduced to plain data while the hook's
// arguments are still valid (messages are cleared right after ap.outcome).
type hookEv struct {
	Seq    int64
	Point  string
	Topic  string
	Part   int32
	Level  int // retry level / high watermark
	Broker int32
	Msg    *sarama.ProducerMessage
	MI     sarama.VerifMsgInfo
	Err    string
	HasErr bool
	// produce sets
	SetPID   int64
	SetEpoch int16
	Parts    []sarama.VerifSetPart
	Ptrs     []*sarama.ProducerMessage
	Offset   int64
	Blocks   []sarama.VSimCommitBlock
	HasReq   bool
	Group    string
	Member   string
	Gen      int32
	Arg      interface{}
	Corr     int32
	MsgPart  int32 // ProducerMessage.Partition / Offset at the time of the event
	MsgOff   int64
}

type steerRule struct {
	Name    string
	Point   string
	Match   func(ev *hookEv) bool
	Nth     int // fire on the n-th match (1-based); 0 = every match
	Until   func() bool
	OnPark  func(ev *hookEv) // called once when the goroutine parks (may inject input)
	MaxPark time.Duration

	matched   int32
	Fired     int32
	Satisfied int32
}

type hookSink struct {
	mu       sync.Mutex
	events   []hookEv
	progress int64
	rules    []*steerRule
	extra    func() int64 // other progress sources (simulated cluster, application)
	onEvent  func(ev *hookEv)
	anyEvent func(ev *hookEv) // called outside the lock for every event except cl.applied; may park
	dead     int32
	counts   map[string]int
}

var curSink atomic.Value // *hookSink
var hookInstalled sync.Once

func installHooks() {
	hookInstalled.Do(func() {
		sarama.VerifHook = func(point string, args ...interface{}) {
			s, _ := curSink.Load().(*hookSink)
			if s == nil || atomic.LoadInt32(&s.dead) != 0 {
				return
			}
			s.handle(point, args)
		}
	})
}

func newSink() *hookSink {
	installHooks()
	s := &hookSink{counts: map[string]int{}}
	curSink.Store(s)
	return s
}

func (s *hookSink) addRule(r *steerRule) {
	s.mu.Lock()
	s.rules = append(append([]*steerRule(nil), s.rules...), r)
	s.mu.Unlock()
}

func (s *hookSink) retire() { atomic.StoreInt32(&s.dead, 1) }

func (s *hookSink) total() int64 {
	t := atomic.LoadInt64(&s.progress)
	if s.extra != nil {
		t += s.extra()
	}
	return t
}

func (s *hookSink) snapshot() []hookEv {
	s.mu.Lock()
	defer s.mu.Unlock()
	return append([]hookEv(nil), s.events...)
}

func (s *hookSink) count(point string) int {
	s.mu.Lock()
	defer s.mu.Unlock()
	return s.counts[point]
}

func (s *hookSink) handle(point string, args []interface{}) {
	ev := hookEv{Point: point, Part: -1, Broker: -1}
	switch point {
	case "ap.dispatch":
		ev.Msg = args[0].(*sarama.ProducerMessage)
	case "pp.recv":
		ev.Topic, ev.Part, ev.Msg = args[0].(string), args[1].(int32), args[2].(*sarama.ProducerMessage)
	case "pp.newhwm", "pp.flush":
		ev.Topic, ev.Part, ev.Level = args[0].(string), args[1].(int32), args[2].(int)
	case "bp.msg":
		ev.Broker, ev.Msg = args[0].(int32), args[1].(*sarama.ProducerMessage)
	case "bp.added":
		ev.Broker, ev.Msg = args[0].(int32), args[1].(*sarama.ProducerMessage)
		ev.SetPID, ev.SetEpoch, _ = sarama.VerifSetInfo(args[2])
	case "bp.bridge":
		ev.Broker = args[0].(int32)
		ev.SetPID, ev.SetEpoch, ev.Parts = sarama.VerifSetInfo(args[1])
	case "bp.response":
		ev.Broker = args[0].(int32)
		ev.SetPID, ev.SetEpoch, ev.Parts = sarama.VerifSetInfo(args[1])
		if e, ok := args[2].(error); ok && e != nil {
			ev.Err, ev.HasErr = e.Error(), true
		}
	case "ap.retryBatch":
		ev.Topic, ev.Part = args[0].(string), args[1].(int32)
		ev.Ptrs = sarama.VerifPSetMsgs(args[2])
	case "ap.outcome":
		ev.Msg = args[0].(*sarama.ProducerMessage)
		if e, ok := args[1].(error); ok && e != nil {
			ev.Err, ev.HasErr = e.Error(), true
		}
	case "pc.feed", "pc.expired":
		ev.Topic, ev.Part, ev.Offset = args[0].(string), args[1].(int32), args[2].(int64)
	case "pc.redispatch":
		ev.Topic, ev.Part = args[0].(string), args[1].(int32)
	case "bc.fetched":
		ev.Broker = args[0].(int32)
	case "om.flush":
		ev.Group = args[0].(string)
	case "om.built", "om.resp":
		ev.Group = args[0].(string)
		ev.Blocks, ev.HasReq = sarama.VerifCommitBlocks(args[1])
	case "cg.joined", "cg.synced", "cg.release":
		ev.Group, ev.Member, ev.Gen = args[0].(string), args[1].(string), args[2].(int32)
	case "cl.applied":
		ev.Arg = args[1]
	case "br.written":
		ev.Broker = sarama.VerifBrokerID(args[0])
		ev.Corr = args[1].(int32)
	}
	if ev.Msg != nil {
		ev.MI = sarama.VerifMsg(ev.Msg)
		ev.MsgPart, ev.MsgOff = ev.Msg.Partition, ev.Msg.Offset
		if ev.Topic == "" {
			ev.Topic, ev.Part = ev.Msg.Topic, ev.Msg.Partition
		}
		if point == "pp.recv" || point == "bp.msg" || point == "ap.dispatch" {
			ev.Level = ev.MI.Retries
		}
	}
	s.mu.Lock()
	ev.Seq = sarama.VerifNextSeq()
	s.events = append(s.events, ev)
	s.counts[point]++
	if s.onEvent != nil {
		s.onEvent(&ev)
	}
	rules := s.rules
	s.mu.Unlock()
	atomic.AddInt64(&s.progress, 1)
	if point == "cl.applied" {
		return // inside the client's write lock: record only, never park
	}
	if s.anyEvent != nil {
		s.anyEvent(&ev)
	}
	for _, r := range rules {
		if r.Point != point || (r.Match != nil && !r.Match(&ev)) {
			continue
		}
		n := atomic.AddInt32(&r.matched, 1)
		if r.Nth != 0 && int(n) != r.Nth {
			continue
		}
		s.park(r, &ev)
	}
}

// park holds the calling goroutine until the rule's condition holds. A plan
// that cannot be satisfied degrades to an unsteered run: the goroutine is
// released when nothing else has moved for 150 ms (or after MaxPark).
func (s *hookSink) park(r *steerRule, ev *hookEv) {
	atomic.AddInt32(&r.Fired, 1)
	if r.OnPark != nil {
		r.OnPark(ev)
	}
	maxPark := r.MaxPark
	if maxPark == 0 {
		maxPark = 3 * time.Second
	}
	start := time.Now()
	last := s.total()
	lastMove := time.Now()
	for {
		if r.Until == nil || r.Until() {
			if r.Until != nil {
				atomic.AddInt32(&r.Satisfied, 1)
			}
			return
		}
		if atomic.LoadInt32(&s.dead) != 0 {
			return
		}
		time.Sleep(300 * time.Microsecond)
		if t := s.total(); t != last {
			last, lastMove = t, time.Now()
		} else if time.Since(lastMove) > 150*time.Millisecond {
			return
		}
		if time.Since(start) > maxPark {
			return
		}
	}
}

// waitQuiescent implements §1's rule for "completes without further input":
// it waits for done; the wait is declared stuck only after `bound` has passed
// AND the progress counter stood still over two further 1 s windows. While the
// counter moves the wait continues up to `hard`, after which the case is
// inconclusive.
func waitQuiescent(done <-chan struct{}, s *hookSink, bound, hard time.Duration) (ok bool, stuck bool) {
	start := time.Now()
	t := time.NewTimer(bound)
	defer t.Stop()
	select {
	case <-done:
		return true, false
	case <-t.C:
	}
	still := 0
	last := s.total()
	for time.Since(start) < hard {
		select {
		case <-done:
			return true, false
		case <-time.After(time.Second):
		}
		if cur := s.total(); cur == last {
			still++
			if still >= 2 {
				return false, true
			}
		} else {
			last, still = cur, 0
		}
	}
	return false, false
}

// parkedSaramaGoroutines summarises the goroutine dump: which sarama functions
// are blocked (used as attribution for stuck verdicts).
func parkedSaramaGoroutines() []string {
	buf := make([]byte, 4<<20)
	n := runtime.Stack(buf, true)
	seen := map[string]int{}
	for _, g := range strings.Split(string(buf[:n]), "\n\n") {
		lines := strings.Split(g, "\n")
		if len(lines) < 2 {
			continue
		}
		state := ""
		if i := strings.Index(lines[0], "["); i >= 0 {
			state = strings.TrimSuffix(lines[0][i+1:], "]:")
			if j := strings.Index(state, ","); j >= 0 {
				state = state[:j]
			}
		}
		for _, l := range lines[1:] {
			if strings.HasPrefix(l, "github.com/Shopify/sarama.") && !strings.Contains(l, "Verif") && !strings.Contains(l, "VSim") && !strings.Contains(l, "withRecover") && !strings.Contains(l, "verifHook") {
				fn := strings.TrimPrefix(l, "github.com/Shopify/sarama.")
				if k := strings.Index(fn, "("); k > 0 {
					// keep receiver type and method, drop arguments
					if strings.HasPrefix(fn, "(") {
						if e := strings.Index(fn, ")"); e > 0 {
							rest := fn[e+1:]
							if a := strings.Index(rest, "("); a >= 0 {
								rest = rest[:a]
							}
							fn = fn[:e+1] + rest
						}
					} else {
						fn = fn[:k]
					}
				}
				seen[fmt.Sprintf("%s[%s]", fn, state)]++
				break
			}
		}
	}
	var out []string
	for k, v := range seen {
		out = append(out, fmt.Sprintf("%s x%d", k, v))
	}
	sortStrings(out)
	return out
}
