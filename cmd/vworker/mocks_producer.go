// C20, producer mocks (mocks.AsyncProducer, mocks.SyncProducer): workload,
// reference model of the script, oracles.
package main

import (
	"errors"
	"fmt"
	"math/rand"
	"runtime"
	"sort"
	"strings"
	"sync"
	"sync/atomic"
	"time"

	"github.com/Shopify/sarama"
	"github.com/Shopify/sarama/mocks"
	"github.com/anishathalye/porcupine"
)

// ---------------------------------------------------------------- script vocabulary

type mkExpKind int

const (
	mkS   mkExpKind = iota // Expect…AndSucceed
	mkF                    // Expect…AndFail(err)
	mkVSp                  // value checker passes, succeed
	mkVSf                  // value checker FAILS on a success expectation
	mkVFp                  // value checker passes, fail with the scripted error
	mkVFf                  // value checker FAILS on a fail expectation
	mkMSp                  // message checker variants of the four above
	mkMSf
	mkMFp
	mkMFf
	mkNumKinds
)

var mkKindNames = [...]string{"S", "F", "VS+", "VS-", "VF+", "VF-", "MS+", "MS-", "MF+", "MF-"}

func (k mkExpKind) String() string { return mkKindNames[k] }
func (k mkExpKind) success() bool {
	return k == mkS || k == mkVSp || k == mkVSf || k == mkMSp || k == mkMSf
}
func (k mkExpKind) valueChecker() bool   { return k >= mkVSp && k <= mkVFf }
func (k mkExpKind) messageChecker() bool { return k >= mkMSp && k <= mkMFf }
func (k mkExpKind) checkerFails() bool {
	return k == mkVSf || k == mkVFf || k == mkMSf || k == mkMFf
}

// want is the outcome class the statement gives the message that meets this
// expectation. A failing checker is a deviation whose documented outcome is
// the checker's error ("If an error is returned it will be made available on
// the Errors channel" / "It will cascade the error of the function").
func (k mkExpKind) want() string {
	switch {
	case k.checkerFails():
		return "checker-error"
	case k.success():
		return "success"
	}
	return "scripted-error"
}

// mkErr is an error value unique to one expectation, so that an error outcome
// names the expectation it came from.
type mkErr struct {
	class string // scripted | checker
	exp   int
}

func (e *mkErr) Error() string { return fmt.Sprintf("%s-error-of-expectation-%d", e.class, e.exp) }

type mkExp struct {
	id        int
	kind      mkExpKind
	err, cerr *mkErr
	phase     int
	call, ret int64 // logical stamps around the Expect… call
}

type mkOutcome struct {
	stamp     int64
	success   bool
	offset    int64
	err       error
	partition int32
}

type mkMsg struct {
	id       int
	topic    string
	hasKey   bool
	key      []byte
	preset   int32 // Partition field as submitted
	sender   int
	phase    int
	nilValue bool
	badKey   bool // the key cannot be encoded: the partitioner fails for this message
	msg      *sarama.ProducerMessage

	// observed
	done      chan struct{} // async: closed with the first outcome
	outcomes  []mkOutcome   // async
	partAfter int32         // sync: msg.Partition after the call
	offAfter  int64         // sync: msg.Offset after the call
}

const mkOffsetSentinel = -7
const mkPartitionSentinel = -5 // preset of messages a non-manual partitioner must overwrite

type mkOp struct {
	id     int
	sender int
	phase  int
	batch  bool // SendMessages
	msgs   []*mkMsg
	wait   bool // async: wait for the outcome before the next send

	// observed
	submitted bool
	call, ret int64
	rp        int32
	ro        int64
	rerr      error
	out       *mkOut
}

type mkPhase struct {
	exps []*mkExp
	ops  [][]*mkOp // per sender
}

type mkCheckCall struct {
	exp    int
	msg    int    // message id (message checker) or -1
	part   int32  // partition seen by a message checker
	val    string // value seen by a value checker
	failed bool
}

type mkProdSpec struct {
	mock        string // async | sync
	partitioner string // hash | refhash | manual | roundrobin | random
	topics      []string
	defParts    int32 // 0: keep the mock's default (32)
	overrides   map[string]int32
	nilConfig   bool // sync: NewSyncProducer(t, nil) (hash partitioner)
	chanBuf     int
	closeStyle  string // close | asyncclose
	nsenders    int
	batches     bool
	tag         string
	phases      []*mkPhase
	exps        []*mkExp
	msgs        []*mkMsg
	ops         []*mkOp

	mu       sync.Mutex
	checks   []mkCheckCall
	aborted  int32
	panicked bool
	endStamp int64
	notes    []string
}

func (s *mkProdSpec) mockKind() string { return s.mock }

func (s *mkProdSpec) parts(topic string) int32 {
	if n, ok := s.overrides[topic]; ok {
		return n
	}
	if s.defParts == 0 {
		return 32 // documented default of NewTopicConfig
	}
	return s.defParts
}

func (s *mkProdSpec) kindSet() map[string]bool {
	m := map[string]bool{}
	for _, e := range s.exps {
		m[e.kind.String()] = true
	}
	return m
}

// deviations planned by the case (static; used for the shape signature).
func (s *mkProdSpec) devSet() map[string]bool {
	d := map[string]bool{}
	queue := 0
	for _, ph := range s.phases {
		queue += len(ph.exps)
		n := 0
		for _, ops := range ph.ops {
			for _, op := range ops {
				n += len(op.msgs)
			}
		}
		if n > queue {
			d["over"] = true
			queue = 0
		} else {
			queue -= n
		}
	}
	if queue > 0 {
		d["leftover"] = true
	}
	for _, e := range s.exps {
		if e.kind.checkerFails() {
			d["failing-checker"] = true
		}
	}
	return d
}

func (s *mkProdSpec) id() string {
	t := ""
	if s.tag != "" {
		t = "-" + s.tag
	}
	return fmt.Sprintf("%s-L%d-n%d-%s-s%d-ph%d%s", s.mock, len(s.exps), len(s.msgs), s.partitioner, s.nsenders, len(s.phases), t)
}

func (s *mkProdSpec) shape() (string, bool) {
	kinds, devs := s.kindSet(), s.devSet()
	b := "single"
	if s.batches {
		b = "batches"
	}
	path := fmt.Sprintf("%s|kinds=%s|dev=%s|senders=%d|%s|phases=%d|%s|L=%s", s.mock,
		strings.Join(mkSortedKeys(kinds), ","), strings.Join(mkSortedKeys(devs), ","), s.nsenders, s.partitioner, len(s.phases), b, mkLenClass(len(s.exps)))
	// non-triviality rule of C20: >= 2 expectation kinds or a deviation present
	return path, len(kinds) >= 2 || len(devs) > 0
}

// ---------------------------------------------------------------- generation

func (s *mkProdSpec) newMsg(rng *rand.Rand, topic string, sender, phase int) *mkMsg {
	m := &mkMsg{id: len(s.msgs), topic: topic, sender: sender, phase: phase, preset: mkPartitionSentinel, done: make(chan struct{})}
	switch x := rng.Intn(100); {
	case x < 10: // no key: the hash partitioners fall back to a random choice
	case x < 15:
		m.hasKey, m.key = true, []byte{}
	default:
		m.hasKey = true
		m.key = make([]byte, 1+rng.Intn(12))
		rng.Read(m.key)
	}
	if s.partitioner == "manual" {
		m.preset = rng.Int31n(s.parts(topic))
	}
	m.msg = &sarama.ProducerMessage{Topic: topic, Value: sarama.StringEncoder(fmt.Sprintf("m%d", m.id)), Metadata: m.id, Partition: m.preset, Offset: mkOffsetSentinel}
	if m.hasKey {
		m.msg.Key = sarama.ByteEncoder(m.key)
	}
	s.msgs = append(s.msgs, m)
	return m
}

func (s *mkProdSpec) newExp(k mkExpKind, phase int) *mkExp {
	e := &mkExp{id: len(s.exps), kind: k, phase: phase}
	e.err = &mkErr{class: "scripted", exp: e.id}
	e.cerr = &mkErr{class: "checker", exp: e.id}
	s.exps = append(s.exps, e)
	return e
}

func (s *mkProdSpec) newOp(sender, phase int, batch bool, msgs []*mkMsg) *mkOp {
	op := &mkOp{id: len(s.ops), sender: sender, phase: phase, batch: batch, msgs: msgs}
	s.ops = append(s.ops, op)
	return op
}

// mkFixedProducer builds a core case: one phase, one topic "t0" with nparts
// partitions; with batch all messages go through one SendMessages call.
func mkFixedProducer(rng *rand.Rand, mock, partitioner string, kinds []mkExpKind, nsub int, nparts int32, nsenders int, batch bool) *mkProdSpec {
	s := &mkProdSpec{mock: mock, partitioner: partitioner, topics: []string{"t0"}, defParts: nparts, overrides: map[string]int32{},
		chanBuf: 256, closeStyle: "close", nsenders: nsenders, batches: batch, tag: "core"}
	ph := &mkPhase{ops: make([][]*mkOp, nsenders)}
	for _, k := range kinds {
		ph.exps = append(ph.exps, s.newExp(k, 0))
	}
	if batch {
		var ms []*mkMsg
		for i := 0; i < nsub; i++ {
			ms = append(ms, s.newMsg(rng, "t0", 0, 0))
		}
		ph.ops[0] = append(ph.ops[0], s.newOp(0, 0, true, ms))
	} else {
		for i := 0; i < nsub; i++ {
			snd := i % nsenders
			ph.ops[snd] = append(ph.ops[snd], s.newOp(snd, 0, false, []*mkMsg{s.newMsg(rng, "t0", snd, 0)}))
		}
	}
	s.phases = []*mkPhase{ph}
	return s
}

func mkGenProducer(rng *rand.Rand, mock string) *mkProdSpec {
	s := &mkProdSpec{mock: mock, overrides: map[string]int32{}, closeStyle: "close"}
	switch x := rng.Intn(100); {
	case x < 30:
		s.partitioner = "hash"
	case x < 50:
		s.partitioner = "manual"
	case x < 70:
		s.partitioner = "roundrobin"
	case x < 85:
		s.partitioner = "random"
	default:
		s.partitioner = "refhash"
	}
	for i, n := 0, 1+rng.Intn(3); i < n; i++ {
		s.topics = append(s.topics, fmt.Sprintf("t%d", i))
	}
	if rng.Intn(4) != 0 {
		s.defParts = 1 + rng.Int31n(12)
	}
	for _, t := range s.topics {
		if rng.Intn(100) < 40 {
			s.overrides[t] = 1 + rng.Int31n(12)
			if rng.Intn(10) == 0 {
				s.overrides[t] = 1000
			}
		}
	}
	s.chanBuf = []int{0, 1, 16, 256}[rng.Intn(4)]
	if mock == "async" && rng.Intn(4) == 0 {
		s.closeStyle = "asyncclose"
	}
	if mock == "sync" && s.partitioner == "hash" && rng.Intn(5) == 0 {
		s.nilConfig = true
	}
	s.nsenders = 1
	if rng.Intn(2) == 0 {
		s.nsenders = 2 + rng.Intn(3)
	}
	s.batches = mock == "sync" && rng.Intn(100) < 40

	// script length 0..200
	var L int
	switch x := rng.Intn(100); {
	case x < 5:
		L = 0
	case x < 15:
		L = 1
	case x < 55:
		L = 2 + rng.Intn(7)
	case x < 85:
		L = 9 + rng.Intn(42)
	default:
		L = 51 + rng.Intn(150)
	}
	// mix of expectation kinds
	var pool []mkExpKind
	switch x := rng.Intn(100); {
	case x < 10:
		pool = []mkExpKind{mkS}
	case x < 30:
		pool = []mkExpKind{mkS, mkS, mkF}
	case x < 65:
		pool = []mkExpKind{mkS, mkS, mkF, mkVSp, mkVFp, mkMSp, mkMFp}
	default:
		pool = []mkExpKind{mkS, mkS, mkS, mkF, mkF, mkVSp, mkVSp, mkVFp, mkMSp, mkMSp, mkMFp, mkVSf, mkVFf, mkMSf, mkMFf}
	}
	nph := 1
	if rng.Intn(4) == 0 {
		nph = 2 + rng.Intn(2)
	}
	// cut L into nph phases
	cuts := []int{0}
	for i := 1; i < nph; i++ {
		cuts = append(cuts, rng.Intn(L+1))
	}
	cuts = append(cuts, L)
	sort.Ints(cuts)
	over := false
	queue := 0
	type plan struct{ n int }
	var plans []plan
	for p := 0; p < nph; p++ {
		lp := cuts[p+1] - cuts[p]
		d := 0
		if rng.Intn(100) < 60 {
			d = rng.Intn(7) - 3 // submitted = script length + {-3..+3}
		}
		n := lp + d
		if n < 0 {
			n = 0
		}
		queue += lp
		if n > queue {
			over = true
			queue = 0
		} else {
			queue -= n
		}
		plans = append(plans, plan{n})
	}
	waitOK := mock == "async" && !over // every message is certain to get an outcome
	waits := make([]bool, s.nsenders)
	for i := range waits {
		waits[i] = waitOK && rng.Intn(100) < 30
	}
	for p := 0; p < nph; p++ {
		ph := &mkPhase{ops: make([][]*mkOp, s.nsenders)}
		for i := cuts[p]; i < cuts[p+1]; i++ {
			ph.exps = append(ph.exps, s.newExp(pool[rng.Intn(len(pool))], p))
		}
		// messages of the phase, dealt to the senders
		per := make([][]*mkMsg, s.nsenders)
		for i := 0; i < plans[p].n; i++ {
			snd := rng.Intn(s.nsenders)
			per[snd] = append(per[snd], s.newMsg(rng, s.topics[rng.Intn(len(s.topics))], snd, p))
		}
		for snd, ms := range per {
			for i := 0; i < len(ms); {
				if s.batches && rng.Intn(100) < 30 {
					if rng.Intn(100) < 5 {
						ph.ops[snd] = append(ph.ops[snd], s.newOp(snd, p, true, nil)) // empty batch
					}
					k := 2 + rng.Intn(5)
					if i+k > len(ms) {
						k = len(ms) - i
					}
					ph.ops[snd] = append(ph.ops[snd], s.newOp(snd, p, true, ms[i:i+k]))
					i += k
					continue
				}
				op := s.newOp(snd, p, false, ms[i:i+1])
				op.wait = waits[snd]
				ph.ops[snd] = append(ph.ops[snd], op)
				i++
			}
		}
		s.phases = append(s.phases, ph)
	}
	return s
}

// ---------------------------------------------------------------- workload

func (s *mkProdSpec) constructor() sarama.PartitionerConstructor {
	switch s.partitioner {
	case "manual":
		return sarama.NewManualPartitioner
	case "roundrobin":
		return sarama.NewRoundRobinPartitioner
	case "random":
		return sarama.NewRandomPartitioner
	case "refhash":
		return sarama.NewReferenceHashPartitioner
	}
	return sarama.NewHashPartitioner
}

type mkTopicConfig interface {
	SetDefaultPartitions(n int32)
	SetPartitions(partitions map[string]int32)
}

func (s *mkProdSpec) configureTopics(tc mkTopicConfig) {
	if s.defParts != 0 {
		tc.SetDefaultPartitions(s.defParts)
	}
	if len(s.overrides) > 0 {
		// every other specification with several overrides declares them one call per topic
		var names []string
		for k := range s.overrides {
			names = append(names, k)
		}
		sort.Strings(names)
		if len(names) > 1 && (int(s.overrides[names[0]])+len(s.topics))%2 == 0 {
			for _, k := range names {
				tc.SetPartitions(map[string]int32{k: s.overrides[k]})
			}
			return
		}
		cp := map[string]int32{}
		for k, v := range s.overrides {
			cp[k] = v
		}
		tc.SetPartitions(cp)
	}
}

func (s *mkProdSpec) valueChecker(e *mkExp) mocks.ValueChecker {
	return func(val []byte) error {
		c := mkCheckCall{exp: e.id, msg: -1, val: string(val), failed: e.kind.checkerFails()}
		s.mu.Lock()
		s.checks = append(s.checks, c)
		s.mu.Unlock()
		if c.failed {
			return e.cerr
		}
		return nil
	}
}

func (s *mkProdSpec) messageChecker(e *mkExp) mocks.MessageChecker {
	return func(m *sarama.ProducerMessage) error {
		c := mkCheckCall{exp: e.id, msg: -1, failed: e.kind.checkerFails()}
		if m != nil {
			if id, ok := m.Metadata.(int); ok {
				c.msg = id
			}
			c.part = m.Partition
		}
		s.mu.Lock()
		s.checks = append(s.checks, c)
		s.mu.Unlock()
		if c.failed {
			return e.cerr
		}
		return nil
	}
}

func (s *mkProdSpec) isAborted() bool { return atomic.LoadInt32(&s.aborted) != 0 }
func (s *mkProdSpec) abort(why string) {
	if atomic.CompareAndSwapInt32(&s.aborted, 0, 1) {
		s.mu.Lock()
		s.notes = append(s.notes, why)
		s.mu.Unlock()
	}
}

func (s *mkProdSpec) run(r *mkRun) {
	if s.mock == "async" {
		s.runAsync(r)
	} else {
		s.runSync(r)
	}
}

func (s *mkProdSpec) runAsync(r *mkRun) {
	cfg := mocks.NewTestConfig()
	cfg.Producer.Return.Successes = true
	cfg.Producer.Return.Errors = true
	cfg.ChannelBufferSize = s.chanBuf
	cfg.Producer.Partitioner = s.constructor()
	mp := mocks.NewAsyncProducer(r, cfg)
	s.configureTopics(mp)

	record := func(pm *sarama.ProducerMessage, o mkOutcome) {
		var m *mkMsg
		if pm != nil {
			if id, ok := pm.Metadata.(int); ok && id >= 0 && id < len(s.msgs) && s.msgs[id].msg == pm {
				m = s.msgs[id]
			}
		}
		if m == nil {
			r.viol("wrong-outcome", "async:outcome-for-a-message-never-submitted", fmt.Sprintf("%+v", pm))
			return
		}
		s.mu.Lock()
		m.outcomes = append(m.outcomes, o)
		first := len(m.outcomes) == 1
		s.mu.Unlock()
		if first {
			close(m.done)
		}
	}
	var collectors sync.WaitGroup
	collectors.Add(2)
	go func() {
		defer collectors.Done()
		for pm := range mp.Successes() {
			record(pm, mkOutcome{stamp: r.tick(), success: true, offset: pm.Offset, partition: pm.Partition})
			r.count("outcomes_success", 1)
		}
	}()
	go func() {
		defer collectors.Done()
		for pe := range mp.Errors() {
			if pe == nil {
				r.viol("wrong-outcome", "async:nil-on-errors-channel", "")
				continue
			}
			o := mkOutcome{stamp: r.tick(), err: pe.Err}
			if pe.Msg != nil {
				o.partition = pe.Msg.Partition
			}
			record(pe.Msg, o)
			r.count("outcomes_error", 1)
		}
	}()

	for _, ph := range s.phases {
		for _, e := range ph.exps {
			e.call = r.tick()
			switch e.kind {
			case mkS:
				mp.ExpectInputAndSucceed()
			case mkF:
				mp.ExpectInputAndFail(e.err)
			case mkVSp, mkVSf:
				mp.ExpectInputWithCheckerFunctionAndSucceed(s.valueChecker(e))
			case mkVFp, mkVFf:
				mp.ExpectInputWithCheckerFunctionAndFail(s.valueChecker(e), e.err)
			case mkMSp, mkMSf:
				mp.ExpectInputWithMessageCheckerFunctionAndSucceed(s.messageChecker(e))
			case mkMFp, mkMFf:
				mp.ExpectInputWithMessageCheckerFunctionAndFail(s.messageChecker(e), e.err)
			}
			e.ret = r.tick()
		}
		var senders sync.WaitGroup
		for _, ops := range ph.ops {
			ops := ops
			senders.Add(1)
			go func() {
				defer senders.Done()
				for _, op := range ops {
					if s.isAborted() {
						return
					}
					m := op.msgs[0]
					op.call = r.tick()
					mp.Input() <- m.msg
					op.ret = r.tick() // enqueued; the outcome stamp replaces it later
					op.submitted = true
					if op.wait {
						select {
						case <-m.done:
						case <-time.After(mkStepWatchdog):
							// Not a verdict: the rest of the workload is cut short and
							// Close below decides (closed channels, no outcome).
							s.abort(fmt.Sprintf("sender %d gave up waiting for the outcome of message %d", op.sender, m.id))
							return
						}
					}
				}
			}()
		}
		senders.Wait()
		// Let the mock take everything that was enqueued before the next phase
		// scripts more expectations. What is still in flight at that moment is
		// legitimately concurrent with the Expect calls (porcupine decides).
		in := mp.Input()
		for len(in) > 0 && !s.isAborted() {
			runtime.Gosched()
		}
	}
	if s.closeStyle == "asyncclose" {
		mp.AsyncClose()
	} else if err := mp.Close(); err != nil {
		s.notes = append(s.notes, "Close returned "+err.Error())
	}
	collectors.Wait() // both channels closed: every outcome that will ever exist is recorded
	s.endStamp = r.tick()
}

func (s *mkProdSpec) runSync(r *mkRun) {
	var cfg *sarama.Config
	if !s.nilConfig {
		cfg = mocks.NewTestConfig()
		cfg.Producer.Return.Successes = true
		cfg.Producer.Partitioner = s.constructor()
	}
	sp := mocks.NewSyncProducer(r, cfg)
	s.configureTopics(sp)
	for _, ph := range s.phases {
		for _, e := range ph.exps {
			e.call = r.tick()
			switch e.kind {
			case mkS:
				sp.ExpectSendMessageAndSucceed()
			case mkF:
				sp.ExpectSendMessageAndFail(e.err)
			case mkVSp, mkVSf:
				sp.ExpectSendMessageWithCheckerFunctionAndSucceed(s.valueChecker(e))
			case mkVFp, mkVFf:
				sp.ExpectSendMessageWithCheckerFunctionAndFail(s.valueChecker(e), e.err)
			case mkMSp, mkMSf:
				sp.ExpectSendMessageWithMessageCheckerFunctionAndSucceed(s.messageChecker(e))
			case mkMFp, mkMFf:
				sp.ExpectSendMessageWithMessageCheckerFunctionAndFail(s.messageChecker(e), e.err)
			}
			e.ret = r.tick()
		}
		var senders sync.WaitGroup
		for _, ops := range ph.ops {
			ops := ops
			senders.Add(1)
			go func() {
				defer senders.Done()
				defer func() {
					if p := recover(); p != nil {
						kind, attr := classifyPanic(p)
						// The compiler names the closure after whichever Expect…
						// function it was inlined into; keep the stable part.
						if i := strings.Index(attr, "messageValueChecker"); i >= 0 {
							attr = "messageValueChecker"
						}
						s.mu.Lock()
						s.panicked = true
						s.mu.Unlock()
						r.viol(kind, "sync:"+attr, "SendMessage/SendMessages panicked: "+fmt.Sprint(p))
						s.abort("panic")
					}
				}()
				for _, op := range ops {
					if s.isAborted() {
						return
					}
					if op.batch {
						pms := make([]*sarama.ProducerMessage, len(op.msgs))
						for i, m := range op.msgs {
							pms[i] = m.msg
						}
						op.call = r.tick()
						op.rerr = sp.SendMessages(pms)
						op.ret = r.tick()
					} else {
						op.call = r.tick()
						op.rp, op.ro, op.rerr = sp.SendMessage(op.msgs[0].msg)
						op.ret = r.tick()
					}
					for _, m := range op.msgs {
						m.partAfter, m.offAfter = m.msg.Partition, m.msg.Offset
					}
					op.submitted = true
				}
			}()
		}
		senders.Wait()
	}
	if err := sp.Close(); err != nil {
		s.notes = append(s.notes, "Close returned "+err.Error())
	}
	s.endStamp = r.tick()
}

// ---------------------------------------------------------------- reference model

const (
	mkOutSuccess = iota
	mkOutScripted
	mkOutChecker
	mkOutUnknownErr // an error that no expectation scripted (e.g. "no more expectations")
	mkOutNone       // async: no event at all
	mkOutPartErr    // the error the partitioner returned for this message (its key cannot be encoded)
)

var mkOutNames = [...]string{"success", "scripted-error", "checker-error", "unscripted-error", "none", "partitioner-error"}

// mkBadKey is a key the hash partitioners cannot encode: the partitioner returns errMkBadKey for the message.
type mkBadKey struct{}

var errMkBadKey = errors.New("key of this message cannot be encoded")

func (mkBadKey) Encode() ([]byte, error) { return nil, errMkBadKey }
func (mkBadKey) Length() int             { return 3 }

// mkOut is what the submitter observed for one send operation.
type mkOut struct {
	class   int
	exps    []int   // expectations named by the error value(s)
	offsets []int64 // success offsets (batch: per message; failed batch: the prefix that got one)
}

type mkIn struct {
	expect bool
	exp    int // expect: index appended
	n      int // send: number of messages
	batch  bool
	op     *mkOp
}

// mkState of the sequential model: a FIFO of expectations [head, tail) over
// the global expectation list, and the last success offset handed out.
type mkState struct {
	head, tail int
	last       int64
	have       bool
}

type mkWhy struct{ want, got string }

func (s *mkProdSpec) classifyErr(err error) (int, []int) {
	if err == errMkBadKey {
		return mkOutPartErr, nil
	}
	switch e := err.(type) {
	case *mkErr:
		if e.class == "checker" {
			return mkOutChecker, []int{e.exp}
		}
		return mkOutScripted, []int{e.exp}
	case sarama.ProducerErrors: // a batch may legitimately list several failures
		cls, ids := mkOutUnknownErr, []int(nil)
		for _, pe := range e {
			if pe == nil {
				continue
			}
			if c, i := s.classifyErr(pe.Err); c != mkOutUnknownErr {
				if cls == mkOutUnknownErr {
					cls = c
				}
				ids = append(ids, i...)
			}
		}
		return cls, ids
	}
	return mkOutUnknownErr, nil
}

func (s *mkProdSpec) observe(op *mkOp) *mkOut {
	if s.mock == "async" {
		m := op.msgs[0]
		if len(m.outcomes) == 0 {
			return &mkOut{class: mkOutNone}
		}
		// With several outcomes (itself a violation, judged separately) the
		// model is given the checker's error if there is one, else the first.
		pick := m.outcomes[0]
		for _, o := range m.outcomes {
			if c, _ := s.classifyErr(o.err); !o.success && c == mkOutChecker {
				pick = o
				break
			}
		}
		if pick.success {
			return &mkOut{class: mkOutSuccess, offsets: []int64{pick.offset}}
		}
		c, ids := s.classifyErr(pick.err)
		return &mkOut{class: c, exps: ids}
	}
	if !op.batch {
		if op.rerr == nil {
			return &mkOut{class: mkOutSuccess, offsets: []int64{op.ro}}
		}
		c, ids := s.classifyErr(op.rerr)
		return &mkOut{class: c, exps: ids}
	}
	out := &mkOut{}
	if op.rerr == nil {
		out.class = mkOutSuccess
		for _, m := range op.msgs {
			out.offsets = append(out.offsets, m.offAfter)
		}
		return out
	}
	out.class, out.exps = s.classifyErr(op.rerr)
	for _, m := range op.msgs { // messages of a failed batch that visibly got an offset
		if m.offAfter == mkOffsetSentinel {
			break
		}
		out.offsets = append(out.offsets, m.offAfter)
	}
	return out
}

// step is the sequential specification (pure): queue of expectations.
//
// Judgement calls (where the statement leaves room, the reading that demands less):
//   - an input that meets an empty queue ("input without expectation") owes no
//     outcome; it must not be handed a success or another expectation's error;
//   - a SendMessages batch larger than the queue is rejected as a whole and
//     consumes nothing (doc comment of SendMessages);
//   - a batch is one call with one return value, and messages are taken in
//     order: nil iff every expectation of its window is a clean success, else
//     the error of the FIRST failing expectation of the window (a
//     sarama.ProducerErrors listing several failures of the window is accepted
//     if it names the first one). The messages before that first failure met
//     success expectations, so exactly they carry success offsets. What
//     happens to the messages after the first failure is not judged. (These
//     two demands also make a concurrent history unambiguous.)
//   - success offsets must increase here; "by one" is judged over the whole
//     case (checkOffsets), so that the base offset is not prescribed.
func (s *mkProdSpec) step(st mkState, in *mkIn, out *mkOut) (bool, mkState, mkWhy) {
	ns := st
	if in.expect {
		if st.tail != in.exp {
			return false, st, mkWhy{"expectations appended in call order", "out of order"}
		}
		ns.tail++
		return true, ns, mkWhy{}
	}
	if in.n == 0 {
		return true, ns, mkWhy{}
	}
	got := mkOutNames[out.class]
	if st.tail-st.head < in.n {
		if out.class == mkOutNone || out.class == mkOutUnknownErr {
			return true, ns, mkWhy{}
		}
		return false, st, mkWhy{"no-expectation", got}
	}
	window := s.exps[st.head : st.head+in.n]
	ns.head += in.n
	incr := func(offs []int64) bool {
		for _, o := range offs {
			if ns.have && o <= ns.last {
				return false
			}
			ns.last, ns.have = o, true
		}
		return true
	}
	if !in.batch && in.op != nil && len(in.op.msgs) == 1 && in.op.msgs[0].badKey {
		// the message takes its expectation with it and gets the partitioner's error
		if out.class != mkOutPartErr {
			return false, st, mkWhy{"partitioner-error", got}
		}
		return true, ns, mkWhy{}
	}
	if !in.batch {
		e := window[0]
		want := e.kind.want()
		switch want {
		case "success":
			if out.class != mkOutSuccess {
				return false, st, mkWhy{want, got}
			}
			if !incr(out.offsets) {
				return false, st, mkWhy{"increasing-offset", "offset-not-increasing"}
			}
		case "scripted-error", "checker-error":
			cls := mkOutScripted
			if want == "checker-error" {
				cls = mkOutChecker
			}
			if out.class != cls {
				return false, st, mkWhy{want, got}
			}
			if len(out.exps) != 1 || out.exps[0] != e.id {
				return false, st, mkWhy{want, got + "-of-another-expectation"}
			}
		}
		return true, ns, mkWhy{}
	}
	failing := map[int]bool{}
	first := -1 // position of the first expectation of the window that does not succeed
	for i, e := range window {
		if e.kind.want() != "success" {
			failing[e.id] = true
			if first < 0 {
				first = i
			}
		}
	}
	if first < 0 {
		if out.class != mkOutSuccess {
			return false, st, mkWhy{"batch-success", got}
		}
		if len(out.offsets) != in.n || !incr(out.offsets) {
			return false, st, mkWhy{"increasing-offset", "offset-not-increasing"}
		}
		return true, ns, mkWhy{}
	}
	if out.class != mkOutScripted && out.class != mkOutChecker {
		return false, st, mkWhy{"batch-error", got}
	}
	named := false
	for _, id := range out.exps {
		if !failing[id] {
			return false, st, mkWhy{"batch-error", got + "-of-another-expectation"}
		}
		named = named || id == window[first].id
	}
	if !named {
		return false, st, mkWhy{"batch-error-of-first-failing-expectation", got + "-of-a-later-expectation"}
	}
	if len(out.offsets) != first {
		return false, st, mkWhy{"batch-error-after-a-success-prefix", "success-prefix-of-other-length"}
	}
	if !incr(out.offsets) {
		return false, st, mkWhy{"increasing-offset", "offset-not-increasing"}
	}
	return true, ns, mkWhy{}
}

type mkItem struct {
	in        *mkIn
	out       *mkOut
	call, ret int64
	client    int
}

// history returns the recorded operations; ordered reports whether the list
// is already the one possible order (one sender, nothing in flight across
// Expect calls).
func (s *mkProdSpec) history() (items []*mkItem, ordered bool) {
	ordered = s.nsenders == 1 && (s.mock == "sync" || len(s.phases) == 1)
	for _, ph := range s.phases {
		for _, e := range ph.exps {
			items = append(items, &mkItem{in: &mkIn{expect: true, exp: e.id}, call: e.call, ret: e.ret, client: s.nsenders})
		}
		for _, ops := range ph.ops {
			for _, op := range ops {
				if op.submitted {
					items = append(items, &mkItem{in: &mkIn{n: len(op.msgs), batch: op.batch, op: op}, out: op.out, call: op.call, ret: op.ret, client: op.sender})
				}
			}
		}
	}
	if s.mock == "async" {
		// An asynchronous send takes effect between its enqueueing and its
		// outcome (or the end, if it never got one) …
		for _, it := range items {
			if it.in.expect {
				continue
			}
			m := it.in.op.msgs[0]
			it.ret = s.endStamp
			if len(m.outcomes) > 0 {
				it.ret = m.outcomes[0].stamp
			}
		}
		// … and, the input channel being FIFO, before the same sender's next
		// send: "the i-th submitted message" per sender.
		last := map[int]*mkItem{}
		for _, it := range items {
			if it.in.expect {
				continue
			}
			if p := last[it.client]; p != nil && p.ret >= it.call {
				p.ret = it.call - 1
			}
			last[it.client] = it
		}
	}
	return items, ordered
}

func (s *mkProdSpec) linearize(r *mkRun, items []*mkItem) ([]*mkItem, bool) {
	model := porcupine.Model{
		Init: func() interface{} { return mkState{} },
		Step: func(st, in, out interface{}) (bool, interface{}) {
			it := in.(*mkItem)
			ok, ns, _ := s.step(st.(mkState), it.in, it.out)
			return ok, ns
		},
		Equal: func(a, b interface{}) bool { return a.(mkState) == b.(mkState) },
	}
	ops := make([]porcupine.Operation, len(items))
	for i, it := range items {
		ops[i] = porcupine.Operation{ClientId: it.client, Input: it, Call: it.call, Output: it.out, Return: it.ret}
	}
	res, info := porcupine.CheckOperationsVerbose(model, ops, 60*time.Second)
	switch res {
	case porcupine.Ok:
		r.count("porcupine_ok", 1)
		for _, part := range info.PartialLinearizationsOperations() {
			for _, lin := range part {
				if len(lin) == len(items) {
					order := make([]*mkItem, len(lin))
					for i, o := range lin {
						order[i] = o.Input.(*mkItem)
					}
					return order, true
				}
			}
		}
		return nil, true
	case porcupine.Illegal:
		r.count("porcupine_illegal", 1)
		longest := 0
		for _, part := range info.PartialLinearizations() {
			for _, lin := range part {
				if len(lin) > longest {
					longest = len(lin)
				}
			}
		}
		r.viol("not-linearizable", s.mock, fmt.Sprintf("no order of the %d recorded operations (%d senders, %d phases) that respects real time and per-sender order is a run of the queue-of-expectations model; longest legal prefix %d", len(items), s.nsenders, len(s.phases), longest))
	default:
		r.count("porcupine_unknown", 1)
	}
	return nil, false
}

// refPartition: the partition the configured partitioner must choose, or only
// its range when the choice is random by definition.
func (s *mkProdSpec) refPartition(m *mkMsg) (exact bool, p, n int32) {
	n = s.parts(m.topic)
	switch s.partitioner {
	case "manual":
		return true, m.preset, n
	case "hash":
		if m.hasKey {
			p = int32(mkFNV1a(m.key)) % n
			if p < 0 {
				p = -p
			}
			return true, p, n
		}
	case "refhash":
		if m.hasKey {
			return true, (int32(mkFNV1a(m.key)) & 0x7fffffff) % n, n
		}
	}
	return false, 0, n
}

func (s *mkProdSpec) checkPartition(r *mkRun, m *mkMsg, got int32, where string) {
	exact, p, n := s.refPartition(m)
	if exact {
		r.count("partition_checked_exact", 1)
		if got != p {
			r.viol("wrong-partition", s.mock+":"+where, fmt.Sprintf("message %d (topic %s, key %x, preset %d) partitioner %s over %d partitions: reference %d, observed %d", m.id, m.topic, m.key, m.preset, s.partitioner, n, p, got))
		}
		return
	}
	r.count("partition_checked_range", 1)
	if got < 0 || got >= n {
		r.viol("wrong-partition", s.mock+":"+where, fmt.Sprintf("message %d (topic %s) partitioner %s over %d partitions: observed %d is out of range", m.id, m.topic, s.partitioner, n, got))
	}
}

// observedPartition: the Partition field the mock left on the message.
func (s *mkProdSpec) observedPartition(m *mkMsg) int32 {
	if s.mock == "async" {
		return m.outcomes[0].partition
	}
	return m.partAfter
}

// walk runs the model over one order of the history and, along it, the
// round-robin reference (the only partitioner whose choice depends on order).
func (s *mkProdSpec) walk(r *mkRun, order []*mkItem, report bool) {
	st := mkState{}
	type rr struct {
		prev    int32
		known   bool
		tainted bool
	}
	rrs := map[string]*rr{}
	get := func(t string) *rr {
		if rrs[t] == nil {
			rrs[t] = &rr{}
		}
		return rrs[t]
	}
	for _, it := range order {
		ok, ns, why := s.step(st, it.in, it.out)
		if !ok {
			if report {
				op := it.in.op
				detail := fmt.Sprintf("operation %d (sender %d, phase %d, %d message(s), first message %d) met queue [%d,%d): expected %s, observed %s", op.id, op.sender, op.phase, len(op.msgs), mkFirstID(op), st.head, st.tail, why.want, why.got)
				switch {
				case why.got == "none":
					kind := "?"
					if st.head < st.tail {
						kind = mkExpClass(s.exps[st.head].kind)
					}
					r.viol("missing-outcome", s.mock+":"+kind, detail)
				case why.got == "offset-not-increasing":
					r.viol("offsets", s.mock+":not-increasing", detail)
				default:
					r.viol("wrong-outcome", s.mock+":expected-"+why.want+":got-"+why.got, detail)
				}
			}
			return
		}
		if !it.in.expect && it.in.n > 0 && s.partitioner == "roundrobin" {
			op := it.in.op
			accepted := st.tail-st.head >= it.in.n
			judged := accepted && (!op.batch || it.out.class == mkOutSuccess)
			for _, m := range op.msgs {
				q := get(m.topic)
				if !judged {
					// Rejected input, or the rest of a failed batch: whether the
					// partitioner was consulted is not demanded either way.
					q.known, q.tainted = false, true
					continue
				}
				n := s.parts(m.topic)
				got := s.observedPartition(m)
				switch {
				case q.known:
					r.count("roundrobin_checked", 1)
					if got != (q.prev+1)%n {
						r.viol("wrong-partition", s.mock+":roundrobin-sequence", fmt.Sprintf("topic %s over %d partitions: message %d got partition %d after %d", m.topic, n, m.id, got, q.prev))
					}
				case !q.tainted:
					r.count("roundrobin_checked", 1)
					if got != 0 {
						r.viol("wrong-partition", s.mock+":roundrobin-sequence", fmt.Sprintf("topic %s over %d partitions: first message %d got partition %d", m.topic, n, m.id, got))
					}
				}
				q.prev, q.known = got, got >= 0 && got < n
			}
		}
		st = ns
	}
	r.count("model_walks", 1)
}

func mkFirstID(op *mkOp) int {
	if len(op.msgs) == 0 {
		return -1
	}
	return op.msgs[0].id
}

// mkExpClass groups the ten expectation kinds into what matters for attribution.
func mkExpClass(k mkExpKind) string {
	switch {
	case k.checkerFails() && k.success():
		return "failing-checker-on-success-expectation"
	case k.checkerFails():
		return "failing-checker-on-fail-expectation"
	case k.success():
		return "success-expectation"
	}
	return "fail-expectation"
}

// ---------------------------------------------------------------- oracles

func (s *mkProdSpec) judge(r *mkRun) {
	r.count("expectations", int64(len(s.exps)))
	r.count("checker_calls", int64(len(s.checks)))
	if s.panicked {
		return // recorded as a panic violation; nothing else is meaningful
	}
	submitted := 0
	for _, op := range s.ops {
		if op.submitted {
			op.out = s.observe(op)
			submitted += len(op.msgs)
		}
	}
	r.count("messages_submitted", int64(submitted))

	// (1) every message gets exactly one outcome — the "more than one" half.
	// (A sync call returns once by construction.) "None" is judged by the model.
	if s.mock == "async" {
		for _, m := range s.msgs {
			if len(m.outcomes) < 2 {
				continue
			}
			attr, desc := "no-failing-checker", []string{}
			for _, o := range m.outcomes {
				if o.success {
					desc = append(desc, fmt.Sprintf("success@%d", o.offset))
					continue
				}
				desc = append(desc, "error:"+o.err.Error())
				if c, ids := s.classifyErr(o.err); c == mkOutChecker && len(ids) == 1 {
					attr = mkExpClass(s.exps[ids[0]].kind)
				}
			}
			r.viol("double-outcome", "async:"+attr, fmt.Sprintf("message %d received %d outcomes: %s", m.id, len(m.outcomes), strings.Join(desc, ", ")))
		}
	}

	// (2) the i-th submitted message gets the i-th expectation's outcome.
	items, ordered := s.history()
	if ordered {
		s.walk(r, items, true)
	} else if order, ok := s.linearize(r, items); ok && order != nil {
		s.walk(r, order, false) // legal by construction; runs the round-robin reference along it
	}

	s.checkOffsets(r)

	// (3) partition = the configured partitioner over the configured counts,
	// for every message that was accepted and visibly processed.
	rejected, accepted, partErrs := 0, 0, 0
	for _, op := range s.ops {
		if !op.submitted || len(op.msgs) == 0 {
			continue
		}
		if op.out.class == mkOutNone || op.out.class == mkOutUnknownErr {
			rejected++
			continue
		}
		accepted += len(op.msgs)
		if !op.batch && op.msgs[0].badKey {
			partErrs++
			continue
		}
		switch {
		case s.mock == "async":
			m := op.msgs[0]
			for _, o := range m.outcomes {
				where := "error-event"
				if o.success {
					where = "success-event"
				}
				s.checkPartition(r, m, o.partition, where)
			}
		case !op.batch:
			m := op.msgs[0]
			s.checkPartition(r, m, m.partAfter, "msg.Partition")
			if op.rerr == nil {
				s.checkPartition(r, m, op.rp, "SendMessage-return")
				// One choice is made per message: where the reference is only a
				// range (random, round-robin, keyless hash) the returned partition
				// must still be the one left on the message (which the range and
				// round-robin checks judge).
				if exact, _, _ := s.refPartition(m); !exact && op.rp != m.partAfter {
					r.viol("wrong-partition", s.mock+":SendMessage-return", fmt.Sprintf("message %d (topic %s) partitioner %s: SendMessage returned partition %d but left msg.Partition = %d", m.id, m.topic, s.partitioner, op.rp, m.partAfter))
				}
			}
		case op.rerr == nil:
			for _, m := range op.msgs {
				s.checkPartition(r, m, m.partAfter, "batch-msg.Partition")
			}
		}
	}

	// (4) checkers: one message per expectation, and they see what was submitted.
	seen := map[int]int{}
	failing := 0
	hasNilValue := false
	for _, m := range s.msgs {
		hasNilValue = hasNilValue || m.nilValue
	}
	for _, c := range s.checks {
		seen[c.exp]++
		if seen[c.exp] == 2 {
			r.viol("expectation-reused", s.mock, fmt.Sprintf("the checker of expectation %d (%s) was run more than once", c.exp, s.exps[c.exp].kind))
		}
		if c.failed {
			failing++
		}
		if s.exps[c.exp].kind.messageChecker() {
			if c.msg < 0 || c.msg >= len(s.msgs) {
				r.viol("wrong-outcome", s.mock+":checker-saw-a-message-never-submitted", fmt.Sprintf("expectation %d", c.exp))
			} else {
				s.checkPartition(r, s.msgs[c.msg], c.part, "seen-by-message-checker")
			}
		} else {
			var id int
			if c.val == "" && hasNilValue {
				// a message without a value has no bytes to show
			} else if n, _ := fmt.Sscanf(c.val, "m%d", &id); n != 1 || id < 0 || id >= len(s.msgs) || fmt.Sprintf("m%d", id) != c.val {
				r.viol("wrong-outcome", s.mock+":checker-saw-a-value-never-submitted", fmt.Sprintf("expectation %d saw %q", c.exp, c.val))
			}
		}
	}

	// (5) reporter calls = the deviations, one each, nothing else.
	want := map[string]int{}
	if rejected > 0 {
		want["input-without-expectation"] = rejected
	}
	if failing > 0 {
		want["failing-checker"] = failing
	}
	if partErrs > 0 {
		// not among the deviations the statement lists; the mock reports it, which is accepted
		want["partitioner-error"] = partErrs
	}
	if len(s.exps)-accepted > 0 {
		want["leftover-at-close"] = 1
	}
	r.judgeReports(s.mock, want)
	r.count("deviations_expected", int64(rejected+failing+want["leftover-at-close"]))
	if s.isAborted() {
		r.count("workload_cut_short", 1)
	}
}

// checkOffsets: all success offsets of the case, sorted, are consecutive.
func (s *mkProdSpec) checkOffsets(r *mkRun) {
	var offs []int64
	for _, op := range s.ops {
		if !op.submitted {
			continue
		}
		if s.mock == "async" {
			for _, o := range op.msgs[0].outcomes {
				if o.success {
					offs = append(offs, o.offset)
				}
			}
		} else {
			offs = append(offs, op.out.offsets...)
		}
	}
	if len(offs) == 0 {
		return
	}
	sort.Slice(offs, func(i, j int) bool { return offs[i] < offs[j] })
	r.count("success_offsets", int64(len(offs)))
	if offs[0] == 1 {
		r.count("cases_first_offset_1", 1) // observed, not judged: the statement does not fix the base
	} else {
		r.count("cases_first_offset_other", 1)
	}
	for i := 1; i < len(offs); i++ {
		switch d := offs[i] - offs[i-1]; {
		case d == 0:
			r.viol("offsets", s.mock+":duplicate", fmt.Sprintf("offset %d handed out twice (sorted success offsets %v)", offs[i], mkClip(offs)))
			return
		case d != 1:
			r.viol("offsets", s.mock+":gap", fmt.Sprintf("success offsets jump from %d to %d (sorted success offsets %v)", offs[i-1], offs[i], mkClip(offs)))
			return
		}
	}
}

func mkClip(o []int64) []int64 {
	if len(o) > 24 {
		return o[:24]
	}
	return o
}

// ---------------------------------------------------------------- sample

func (s *mkProdSpec) describe(r *mkRun) map[string]interface{} {
	script := []string{}
	for i, e := range s.exps {
		if i == 40 {
			break
		}
		script = append(script, fmt.Sprintf("%d:%s/ph%d", e.id, e.kind, e.phase))
	}
	var sub, outs []string
	for _, op := range s.ops {
		if len(sub) >= 40 {
			break
		}
		ids := []string{}
		for _, m := range op.msgs {
			ids = append(ids, fmt.Sprintf("m%d(%s,key=%x,preset=%d)", m.id, m.topic, m.key, m.preset))
		}
		call := "send"
		if op.batch {
			call = "SendMessages"
		}
		sub = append(sub, fmt.Sprintf("op%d ph%d sender%d %s [%s]", op.id, op.phase, op.sender, call, strings.Join(ids, " ")))
		if !op.submitted {
			outs = append(outs, fmt.Sprintf("op%d not submitted", op.id))
			continue
		}
		if s.mock == "async" {
			m := op.msgs[0]
			d := []string{}
			for _, o := range m.outcomes {
				if o.success {
					d = append(d, fmt.Sprintf("success(partition=%d,offset=%d)", o.partition, o.offset))
				} else {
					d = append(d, fmt.Sprintf("error(%v,partition=%d)", o.err, o.partition))
				}
			}
			outs = append(outs, fmt.Sprintf("op%d m%d: %s", op.id, m.id, strings.Join(d, " + ")))
		} else if op.batch {
			d := []string{}
			for _, m := range op.msgs {
				d = append(d, fmt.Sprintf("m%d(partition=%d,offset=%d)", m.id, m.partAfter, m.offAfter))
			}
			outs = append(outs, fmt.Sprintf("op%d: err=%v %s", op.id, op.rerr, strings.Join(d, " ")))
		} else {
			m := op.msgs[0]
			outs = append(outs, fmt.Sprintf("op%d m%d: returned (partition=%d, offset=%d, err=%v) msg.Partition=%d", op.id, m.id, op.rp, op.ro, op.rerr, m.partAfter))
		}
	}
	return map[string]interface{}{
		"mock": s.mock, "partitioner": s.partitioner, "default_partitions": s.parts("\x00none"), "partition_overrides": s.overrides,
		"senders": s.nsenders, "phases": len(s.phases), "channel_buffer": s.chanBuf, "close": s.closeStyle, "nil_config": s.nilConfig,
		"script_len": len(s.exps), "script": script, "messages": len(s.msgs), "submitted": sub, "outcomes": outs,
		"reporter": r.reportSample(), "notes": s.notes,
	}
}
