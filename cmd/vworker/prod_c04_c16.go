package main

import (
	"fmt"
	"math/rand"
	"time"

	"github.com/Shopify/sarama"

	"verifharness/internal/proto"
)

func randBytes(rng *rand.Rand, n int) []byte {
	b := make([]byte, n)
	for i := range b {
		b[i] = byte('A' + rng.Intn(50))
	}
	return b
}

// c04Scenario: payload x version x codec x batching x acks, light faults.
func c04Scenario(rng *rand.Rand) *prodScenario {
	sc := &prodScenario{Topics: []string{"t"}, Partitioner: "manual", CloseMode: "close", ChannelBuf: -1, Acks: sarama.WaitForLocal}
	sc.Brokers = 1 + rng.Intn(2)
	sc.Parts = 1 + rng.Intn(4)
	sc.BaseOffset = int64(1+rng.Intn(3)) * 500
	sc.Version = []sarama.KafkaVersion{sarama.V0_8_2_0, sarama.V0_9_0_0, sarama.V0_10_0_0, sarama.V0_11_0_0, sarama.V1_0_0_0, sarama.V2_1_0_0, sarama.V2_8_0_0}[rng.Intn(7)]
	codecs := []sarama.CompressionCodec{sarama.CompressionNone, sarama.CompressionGZIP, sarama.CompressionSnappy}
	if sc.Version.IsAtLeast(sarama.V0_10_0_0) {
		codecs = append(codecs, sarama.CompressionLZ4)
	}
	if sc.Version.IsAtLeast(sarama.V2_1_0_0) {
		codecs = append(codecs, sarama.CompressionZSTD, sarama.CompressionZSTD)
	}
	sc.Codec = codecs[rng.Intn(len(codecs))]
	if sc.Codec == sarama.CompressionGZIP && rng.Intn(2) == 0 {
		sc.CodecLevel = 1 + rng.Intn(9)
	}
	switch rng.Intn(4) {
	case 0:
		sc.Acks = sarama.WaitForAll
	case 1:
		sc.Acks = sarama.NoResponse
	}
	sc.RetryMax = 1 + rng.Intn(3)
	switch rng.Intn(4) {
	case 0:
		sc.FlushMessages = 2 + rng.Intn(6)
		sc.FlushFreq = 3 * time.Millisecond
	case 1:
		sc.FlushFreq = time.Duration(1+rng.Intn(3)) * time.Millisecond
	case 2:
		sc.FlushMaxMessages = 1 + rng.Intn(5)
	}
	if rng.Intn(3) == 0 && sc.Version.IsAtLeast(sarama.V0_11_0_0) && sc.Acks != sarama.NoResponse {
		sc.Idempotent = true
		sc.Acks = sarama.WaitForAll
	}
	if rng.Intn(4) == 0 {
		sc.Partitioner = []string{"hash", "refhash"}[rng.Intn(2)]
	}
	nmsg := 2 + rng.Intn(40)
	sc.Submitters = 1 + rng.Intn(2)
	// timestamps: 0 = a third of the messages carry unrelated whole-millisecond
	// times; 1 = every message carries a time within +-40 ms of one base, with
	// sub-millisecond parts and in no particular order (records older and
	// younger than the first record of their batch)
	tsMode := rng.Intn(2)
	tsBase := time.Unix(1500000000+int64(rng.Intn(1000000)), int64(rng.Intn(1e9)))
	perPart := map[int32]int{}
	for i := 0; i < nmsg; i++ {
		ms := &msgSpec{ID: i, Topic: "t", Part: int32(rng.Intn(sc.Parts))}
		sizes := []int{0, 1, 7, 100, 1000, 8 << 10}
		if rng.Intn(40) == 0 {
			sizes = []int{64 << 10}
		}
		pad := sizes[rng.Intn(len(sizes))]
		if rng.Intn(4) == 0 { // identity carried by the key, value nil or empty
			ms.Key = append([]byte(fmt.Sprintf("%d:", i)), randBytes(rng, pad%200)...)
			if rng.Intn(2) == 0 {
				ms.ValNil = true
			} else {
				ms.Value = []byte{}
			}
		} else {
			ms.Value = append([]byte(fmt.Sprintf("%d:", i)), randBytes(rng, pad)...)
			switch rng.Intn(4) {
			case 0:
				ms.KeyNil = true
			case 1:
				ms.Key = []byte{}
			case 2:
				ms.Key = randBytes(rng, 1+rng.Intn(20))
			default:
				ms.Key = randBytes(rng, sizes[rng.Intn(len(sizes))]%2000)
			}
		}
		if sc.Partitioner != "manual" {
			// hash partitioners: expected partition is computed by the reference; keyless messages go to the fallback
			if ms.KeyNil {
				ms.Key, ms.KeyNil = randBytes(rng, 5), false
			}
			ms.Part = -1
		}
		if sc.Version.IsAtLeast(sarama.V0_11_0_0) && rng.Intn(3) == 0 {
			nh := rng.Intn(6)
			for h := 0; h < nh; h++ {
				hd := sarama.RecordHeader{Key: randBytes(rng, rng.Intn(8)), Value: randBytes(rng, rng.Intn(30))}
				if rng.Intn(6) == 0 {
					hd.Value = []byte{}
				}
				if rng.Intn(8) == 0 {
					hd.Key = []byte{}
				}
				ms.Headers = append(ms.Headers, hd)
			}
		}
		if sc.Version.IsAtLeast(sarama.V0_11_0_0) && sc.Partitioner == "manual" && rng.Intn(12) == 0 {
			// neither key nor value: a legal (if unusual) record; its identity travels in a header
			ms.Key, ms.KeyNil, ms.Value, ms.ValNil = nil, true, nil, true
			ms.Headers = []sarama.RecordHeader{{Key: []byte("vid"), Value: []byte(fmt.Sprintf("%d:", i))}}
			if rng.Intn(2) == 0 {
				ms.Headers, ms.Bare = nil, true // not even a header: judged by its position in the log
			}
		}
		if tsMode == 1 {
			ms.Ts = tsBase.Add(time.Duration(rng.Int63n(80e6) - 40e6))
		} else if rng.Intn(3) == 0 {
			ms.Ts = time.Unix(1500000000+int64(rng.Intn(1000000)), int64(rng.Intn(1000))*1e6)
		}
		ms.N = perPart[ms.Part]
		perPart[ms.Part]++
		ms.Sub = int(ms.Part+1) % sc.Submitters
		if ms.Part < 0 {
			ms.Sub = 0
		}
		if rng.Intn(6) == 0 {
			ms.PauseUs = rng.Intn(1500)
		}
		sc.Msgs = append(sc.Msgs, ms)
	}
	if sc.Partitioner != "manual" {
		sc.Submitters = 1
	}
	// light faults so that retried, re-batched and de-duplicated batches are covered
	if rng.Intn(2) == 0 && sc.Acks != sarama.NoResponse {
		weights := []int{50, 10, 10, 0, 0, 5, 8, 0, 5, 3, 0}
		sc.Faults = randomFaultWord(rng, 2+rng.Intn(8), weights)
		for _, f := range sc.Faults {
			sc.FaultCodes = append(sc.FaultCodes, pickCode(f, rng))
		}
	}
	if !sc.Version.IsAtLeast(sarama.V0_11_0_0) && len(sc.Msgs) > 0 && rng.Intn(5) == 0 {
		// record headers under a version that cannot carry them: the producer has to refuse the message
		for k := 0; k < 1+rng.Intn(2); k++ {
			ms := sc.Msgs[rng.Intn(len(sc.Msgs))]
			ms.Headers = []sarama.RecordHeader{{Key: []byte("h"), Value: randBytes(rng, 1+rng.Intn(8))}}
		}
	}
	if len(sc.Faults) > 0 || sc.Idempotent || sc.Acks == sarama.NoResponse {
		// records without any identifier are only judged in fault-free runs (no resends, no duplicates)
		for _, ms := range sc.Msgs {
			if ms.Bare {
				ms.Bare = false
				ms.Headers = []sarama.RecordHeader{{Key: []byte("vid"), Value: []byte(fmt.Sprintf("%d:", ms.ID))}}
			}
		}
	}
	if rng.Intn(3) == 0 {
		sc.Steer = []steerSpec{{Kind: "response-added", Nth: 1 + rng.Intn(2), K: 2 + rng.Intn(4)}}
	}
	return sc
}

// c16Scenario: sizes straddling the limits, every flush trigger combination.
// c16DelayedRetry: only Flush.Frequency is configured, the cluster answers more slowly than the
// frequency, one of the first requests is refused with a retriable code, and messages for the same and
// for other partitions keep arriving meanwhile. Then the input stops: everything must still be flushed.
// c16RefusalThenBurst: a long Flush.Frequency and a low Producer.MaxMessageBytes. The first request
// (partition 0 only) is refused with a retriable code while the next buffer already holds messages of
// partitions 0 and 1; partition 0 is dropped from that buffer, partition 1 keeps it alive until its
// timer fires, and meanwhile the retried and many new messages for partition 0 arrive in it: the batch
// limit has to hold in the buffer that outlives a partial refusal, too.
func c16RefusalThenBurst(rng *rand.Rand) *prodScenario {
	sc := &prodScenario{Topics: []string{"t"}, Partitioner: "manual", CloseMode: "close", ChannelBuf: -1, Acks: sarama.WaitForLocal, RetryMax: 3, Brokers: 1}
	sc.Parts = 2
	sc.Version = []sarama.KafkaVersion{sarama.V0_10_0_0, sarama.V0_11_0_0, sarama.V2_1_0_0}[rng.Intn(3)]
	sc.MaxMessageBytes = 1000
	sc.MaxRequestSize = 256 << 10
	sc.FlushFreq = 250 * time.Millisecond
	sc.ProduceDelayMs = 30
	sc.ReadTimeout = 500 * time.Millisecond // no transport time-outs: every request is answered once
	sc.Faults = []int{fRetryNoAppend}
	sc.FaultCodes = []sarama.KError{pickCode(fRetryNoAppend, rng)}
	burst := 14 + rng.Intn(12)
	parts := []int32{0, 0, 0, 1, 0} // the last look at the second buffer before the refusal is for partition 0
	pauses := []int{0, 0, 260000, 1000, 1000}
	for i := 0; i < burst; i++ {
		parts = append(parts, 0)
		if i == 0 {
			pauses = append(pauses, 45000)
		} else {
			pauses = append(pauses, 500+rng.Intn(1000))
		}
	}
	for i := range parts {
		ms := &msgSpec{ID: i, Topic: "t", Part: parts[i], KeyNil: true, PauseUs: pauses[i]}
		ms.Value = append([]byte(fmt.Sprintf("%d:", i)), randBytes(rng, 80+rng.Intn(40))...)
		sc.Msgs = append(sc.Msgs, ms)
	}
	sc.Submitters = 1
	sc.StopInputEarly = true
	sc.ExpectAtCluster = len(sc.Msgs)
	return sc
}

func c16DelayedRetry(rng *rand.Rand) *prodScenario {
	if rng.Intn(3) == 0 {
		return c16RefusalThenBurst(rng)
	}
	sc := &prodScenario{Topics: []string{"t"}, Partitioner: "manual", CloseMode: "close", ChannelBuf: -1, Acks: sarama.WaitForLocal, RetryMax: 3, Brokers: 1}
	sc.Parts = 2 + rng.Intn(2)
	sc.Version = []sarama.KafkaVersion{sarama.V0_10_0_0, sarama.V0_11_0_0, sarama.V2_1_0_0}[rng.Intn(3)]
	sc.MaxMessageBytes = 20000
	sc.MaxRequestSize = 256 << 10
	sc.FlushFreq = time.Duration([]int{3, 6, 10}[rng.Intn(3)]) * time.Millisecond
	sc.ProduceDelayMs = []int{15, 25, 40}[rng.Intn(3)]
	sc.Faults = make([]int, rng.Intn(3))
	sc.Faults = append(sc.Faults, fRetryNoAppend)
	if rng.Intn(2) == 0 {
		sc.Faults = append(sc.Faults, fOk, fRetryNoAppend)
	}
	for _, f := range sc.Faults {
		sc.FaultCodes = append(sc.FaultCodes, pickCode(f, rng))
	}
	nmsg := 4 + rng.Intn(8)
	for i := 0; i < nmsg; i++ {
		ms := &msgSpec{ID: i, Topic: "t", Part: int32(rng.Intn(sc.Parts)), KeyNil: true, PauseUs: 1000 * (1 + rng.Intn(12))}
		if i < 3 && rng.Intn(2) == 0 {
			ms.Part = 0
		}
		ms.Value = append([]byte(fmt.Sprintf("%d:", i)), randBytes(rng, 5+rng.Intn(40))...)
		sc.Msgs = append(sc.Msgs, ms)
	}
	sc.Submitters = 1
	sc.StopInputEarly = true
	sc.ExpectAtCluster = nmsg
	return sc
}

func c16Scenario(rng *rand.Rand) *prodScenario {
	if rng.Intn(5) == 0 {
		return c16DelayedRetry(rng)
	}
	sc := &prodScenario{Topics: []string{"t"}, Partitioner: "manual", CloseMode: "close", ChannelBuf: -1, Acks: sarama.WaitForLocal, RetryMax: 2}
	sc.Brokers = 1
	sc.Parts = 1 + rng.Intn(4)
	sc.Version = []sarama.KafkaVersion{sarama.V0_8_2_0, sarama.V0_10_0_0, sarama.V0_11_0_0, sarama.V2_1_0_0}[rng.Intn(4)]
	sc.MaxMessageBytes = []int{64, 1000, 20000}[rng.Intn(3)]
	sc.MaxRequestSize = int32(64<<10) << uint(rng.Intn(3)) // 64, 128, 256 KiB
	small := func(vals ...int) int { return vals[rng.Intn(len(vals))] }
	sc.FlushMessages = small(0, 0, 3, 50)
	sc.FlushBytes = small(0, 0, 200, 20000)
	sc.FlushMaxMessages = small(0, 0, 2, 7)
	sc.FlushFreq = time.Duration(small(0, 0, 2, 15)) * time.Millisecond
	if sc.FlushMaxMessages > 0 && sc.FlushMessages > sc.FlushMaxMessages {
		sc.FlushMessages = sc.FlushMaxMessages // config validation requires MaxMessages >= Messages
	}
	if rng.Intn(4) == 0 {
		sc.Codec = sarama.CompressionGZIP
	}
	overhead := 26
	if sc.Version.IsAtLeast(sarama.V0_11_0_0) {
		overhead = 36
	}
	sc.StopInputEarly = rng.Intn(2) == 0
	nmsg := 3 + rng.Intn(40)
	if sc.StopInputEarly {
		// satisfy exactly one trigger (or none configured) and then stop
		nmsg = 1 + rng.Intn(6)
		if sc.MaxMessageBytes < 1000 {
			sc.MaxMessageBytes = 1000
		}
	}
	limit := sc.MaxMessageBytes
	// record headers (0.11+): they take part in the size accounting
	withHeaders := sc.Version.IsAtLeast(sarama.V0_11_0_0) && rng.Intn(5) < 2
	for i := 0; i < nmsg; i++ {
		ms := &msgSpec{ID: i, Topic: "t", Part: int32(rng.Intn(sc.Parts)), KeyNil: true}
		idp := []byte(fmt.Sprintf("%d:", i))
		var total int // key+value size
		switch rng.Intn(6) {
		case 0: // straddle the message limit
			total = limit - overhead + rng.Intn(5) - 2
		case 1: // straddle key+value = limit
			total = limit + rng.Intn(5) - 2
		case 2:
			total = 1 << uint(rng.Intn(12))
		case 3: // large, so that requests approach MaxRequestSize
			total = 4000 + rng.Intn(9000)
		default:
			total = 5 + rng.Intn(60)
		}
		if sc.StopInputEarly {
			total = 5 + rng.Intn(40)
		}
		if total > 300000 {
			total = limit - overhead - rng.Intn(3) // do not build 1 MB payloads too often
			if rng.Intn(10) != 0 {
				total = 5000
			}
		}
		if total < len(idp) {
			total = len(idp)
		}
		ms.Value = append(idp, randBytes(rng, total-len(idp))...)
		ms.Sub = 0
		if withHeaders {
			for h := 0; h < 1+rng.Intn(3); h++ {
				ms.Headers = append(ms.Headers, sarama.RecordHeader{Key: randBytes(rng, 1+rng.Intn(6)), Value: randBytes(rng, rng.Intn(12))})
			}
		}
		sc.Msgs = append(sc.Msgs, ms)
	}
	if !sc.StopInputEarly && sc.Codec == sarama.CompressionNone && rng.Intn(8) == 0 {
		// Producer.MaxMessageBytes above the (lowered) MaxRequestSize, and one message whose request is larger
		// than MaxRequestSize: it may fail, it must not be put on the wire
		sc.MaxMessageBytes = 1 << 20
		ms := sc.Msgs[rng.Intn(len(sc.Msgs))]
		ms.Value = append([]byte(fmt.Sprintf("%d:", ms.ID)), randBytes(rng, int(sc.MaxRequestSize)+rng.Intn(40000))...)
	}
	sc.Submitters = 1
	bigLast := false
	if sc.StopInputEarly && sc.FlushBytes == 200 && sc.Codec == sarama.CompressionNone && rng.Intn(3) != 0 {
		// the last message alone passes the byte trigger: whatever is buffered when it arrives goes out with it
		// (all on one partition: messages of other partitions may reach the broker worker after it)
		ms := sc.Msgs[len(sc.Msgs)-1]
		ms.Value = append([]byte(fmt.Sprintf("%d:", ms.ID)), randBytes(rng, 240+rng.Intn(100))...)
		for _, o := range sc.Msgs {
			o.Part = ms.Part
		}
		bigLast = true
	}
	if sc.StopInputEarly {
		// which records must reach the cluster once the input stops:
		//  - no trigger configured, or a frequency configured: all of them;
		//  - count trigger without frequency: whenever the buffer reaches the count it is flushed whole, so
		//    fewer than Flush.Messages records may stay behind;
		//  - only a byte trigger: nothing is demanded (not known to have fired).
		//  - a byte trigger that the last message passes on its own: all of them;
		switch {
		case sc.FlushFreq > 0 || (sc.FlushMessages == 0 && sc.FlushBytes == 0) || bigLast:
			sc.ExpectAtCluster = nmsg
		case sc.FlushMessages > 0:
			sc.ExpectAtCluster = nmsg - (sc.FlushMessages - 1)
		}
	}
	if sc.FlushFreq == 0 && (sc.FlushMessages > 0 || sc.FlushBytes > 0) {
		// records may stay buffered under a trigger that has not fired; Close then blocks (a C01/C12 finding)
		sc.SkipClose = true
	}
	if !sc.StopInputEarly && rng.Intn(2) == 0 {
		sc.Steer = []steerSpec{{Kind: "response-added", Nth: 1 + rng.Intn(2), K: 3 + rng.Intn(10)}}
	}
	return sc
}

func oracleC16(res *prodResult, vs *violSet, rec *proto.Rec) bool {
	sc := res.sc
	vtag := versionClass(sc.Version)
	nontrivial := false
	overhead := 26
	if sc.Version.IsAtLeast(sarama.V0_11_0_0) {
		overhead = 36
	}
	specByID := map[int]*msgSpec{}
	for _, ms := range sc.Msgs {
		specByID[ms.ID] = ms
	}
	perReq := map[int64]int{}
	onWire := map[int]bool{}
	for _, p := range res.produced {
		perReq[p.ReqSeq] += p.NRecs
		kv := 0
		n := 0
		for _, b := range p.Batches {
			for _, r := range b.Recs {
				kv += len(r.Key) + len(r.Value)
				n++
				if id, ok := msgIDFromRecord(r); ok {
					onWire[id] = true
					if ms := specByID[id]; ms != nil && len(ms.Key)+len(ms.Value) > sc.MaxMessageBytes {
						vs.add("oversize-sent", vtag, fmt.Sprintf("message id=%d with key+value=%d bytes > MaxMessageBytes=%d was sent", id, len(ms.Key)+len(ms.Value), sc.MaxMessageBytes))
					}
				}
			}
		}
		if n > 1 && kv > sc.MaxMessageBytes {
			vs.add("batch-bytes", vtag, fmt.Sprintf("partition batch of %d messages carries %d key+value bytes > MaxMessageBytes=%d", n, kv, sc.MaxMessageBytes))
		}
		if kv*10 >= sc.MaxMessageBytes*9 && n > 1 {
			nontrivial = true
		}
		if int32(p.WireBytes) > sc.MaxRequestSize {
			vs.add("request-bytes", vtag, fmt.Sprintf("produce request of %d bytes on the wire > MaxRequestSize=%d", p.WireBytes, sc.MaxRequestSize))
		}
		if int64(p.WireBytes)*10 >= int64(sc.MaxRequestSize)*8 {
			nontrivial = true
		}
	}
	for _, n := range perReq {
		if sc.FlushMaxMessages > 0 {
			if n > sc.FlushMaxMessages {
				vs.add("too-many-messages", vtag, fmt.Sprintf("a produce request carried %d messages > Flush.MaxMessages=%d", n, sc.FlushMaxMessages))
			}
			if n == sc.FlushMaxMessages {
				nontrivial = true
			}
		}
	}
	for _, o := range res.outcomes {
		sr := res.byPtr[o.Ptr]
		if sr == nil {
			continue
		}
		kv := len(sr.Spec.Key) + len(sr.Spec.Value)
		tooLarge := o.Err == sarama.ErrMessageSizeTooLarge
		if kv > sc.MaxMessageBytes {
			nontrivial = true
			if !tooLarge {
				vs.add("oversize-not-rejected", vtag, fmt.Sprintf("message id=%d with key+value=%d > MaxMessageBytes=%d ended with success=%v err=%v instead of ErrMessageSizeTooLarge", o.ID, kv, sc.MaxMessageBytes, o.Success, o.Err))
			}
		} else if kv+overhead+headerBytes(sr.Spec) <= sc.MaxMessageBytes && tooLarge {
			vs.add("spurious-reject", vtag, fmt.Sprintf("message id=%d with byte size %d <= MaxMessageBytes=%d was rejected as too large", o.ID, kv+overhead+headerBytes(sr.Spec), sc.MaxMessageBytes))
		} else if tooLarge {
			nontrivial = true
		}
	}
	if sc.StopInputEarly {
		rec.Obs["flush_clause_cases"]++
		if sc.ExpectAtCluster > 0 {
			trig := "none-configured"
			switch {
			case sc.FlushFreq > 0:
				trig = "frequency"
			case sc.FlushMessages > 0 && sc.ExpectAtCluster < len(sc.Msgs):
				trig = "messages"
			case sc.FlushBytes > 0:
				trig = "bytes"
			}
			rec.Obs["flush_clause_judged"]++
			nontrivial = true
			// a message that ended with an error has left the buffer too (on a loaded machine a slow answer can
			// outlast the read timeout and use up the retry budget)
			failed := 0
			for _, o := range res.outcomes {
				if !o.Success {
					failed++
				}
			}
			switch {
			case res.requestSeen == -1 && recordsAtCluster(res)+failed >= sc.ExpectAtCluster:
				rec.Obs["flush_clause_met_counting_failed_messages"]++
			case res.requestSeen == -1:
				vs.add("flush-stuck", trig, fmt.Sprintf("only %d of the %d records that had to be flushed reached the cluster although trigger %q had fired and the input stopped (flush: msgs=%d bytes=%d freq=%v, %d submitted)", recordsAtCluster(res), sc.ExpectAtCluster, trig, sc.FlushMessages, sc.FlushBytes, sc.FlushFreq, len(sc.Msgs)))
			case res.requestSeen == 0:
				if rec.Verdict == "" {
					rec.Verdict, rec.Why = "inconclusive", "flush wait still progressing"
				}
			}
		}
	}
	if res.stuck && !sc.StopInputEarly && !sc.SkipClose {
		rec.Verdict, rec.Why = "inconclusive", "run did not complete (judged by C01/C12)"
	}
	return nontrivial
}

// headerBytes: what record headers add to a message's size estimate (key, value and two maximal varints each).
func headerBytes(ms *msgSpec) int {
	n := 0
	for _, h := range ms.Headers {
		n += len(h.Key) + len(h.Value) + 2*5
	}
	return n
}

func recordsAtCluster(res *prodResult) int {
	n := 0
	for _, p := range res.produced {
		if len(res.sc.Faults) == 0 || p.Appended {
			n += p.NRecs
		}
	}
	return n
}
