package main

// Literal group states that once made a strategy misbehave; every tier plans
// them (several times: sticky iterates over Go maps, so one input has several
// executions) and judges the result like any other input.

type directedGroup struct {
	name    string
	strat   string
	topics  map[string]int
	members []directedMember
}

type directedMember struct {
	id, userDataHex string
	topics          []string
}

var directedGroups = []directedGroup{
	{
		// sticky performReassignments handed t3/3 back and forth between two members forever
		name: "sticky-oscillation-after-join", strat: "sticky",
		topics: map[string]int{"t0": 1, "t1": 24, "t2": 20, "t3": 9, "t4": 17},
		members: []directedMember{
			{id: "j1-s", userDataHex: "", topics: []string{"t0", "t2", "t3", "t4"}},
			{id: "lq-9", userDataHex: "000000010002743400000006000000000000000100000002000000030000000d0000000900000002", topics: []string{"t4"}},
			{id: "m1", userDataHex: "00000001000274310000000c000000150000000800000016000000090000000b0000000f0000001200000011000000030000000d000000130000000700000002", topics: []string{"t1"}},
			{id: "m6", userDataHex: "00000001000274310000000c00000004000000170000000a00000001000000060000000000000005000000140000000c000000020000000e0000001000000002", topics: []string{"t2", "t1"}},
			{id: "qt-4", userDataHex: "00000001000274340000000600000005000000080000000b000000060000000c0000001000000002", topics: []string{"t4"}},
			{id: "rj-8", userDataHex: "000000010002743300000005000000050000000000000004000000030000000100000002", topics: []string{"t3"}},
			{id: "sarama-02d2f4cb-7", userDataHex: "00000001000274320000000a0000000e0000000200000013000000100000000c0000000b0000000800000007000000010000001200000002", topics: []string{"t2"}},
			{id: "sarama-8ffeb9cb-3", userDataHex: "0000000100027433000000040000000600000002000000070000000800000002", topics: []string{"t3"}},
			{id: "sarama-920f1d6c-10", userDataHex: "000000010002743400000005000000040000000f0000000e0000000a0000000700000002", topics: []string{"t4", "t0"}},
			{id: "sarama-d82683b3-5", userDataHex: "0000000100027430000000010000000000000002", topics: []string{"t0"}},
			{id: "ub-2", userDataHex: "00000001000274320000000a00000006000000050000000d0000000a00000009000000030000000f00000004000000000000001100000002", topics: []string{"t2"}},
		},
	},
}
