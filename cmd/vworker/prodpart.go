package main

// Producer part of C17: the producer must honour the partitioner's choice,
// offer keyed messages of consistency-requiring partitioners all partitions and
// other messages only writable ones, and fail a message — sending nothing —
// when the choice is out of range, the partitioner errs, or no partition is
// available.

import (
	"fmt"
	"math/rand"
	"sort"
	"strings"

	"github.com/Shopify/sarama"

	"verifharness/internal/proto"
)

func partProducerCases(tier string) int {
	if tier == "thorough" {
		return 3000
	}
	return 200
}

func c17Scenario(rng *rand.Rand) *prodScenario {
	sc := &prodScenario{Topics: []string{"t"}, CloseMode: "asyncclose", ChannelBuf: -1, Acks: sarama.WaitForLocal, RetryMax: 1, Submitters: 1, Version: sarama.V0_11_0_0}
	sc.Brokers = 1 + rng.Intn(3)
	sc.Parts = 1 + rng.Intn(6)
	sc.Partitioner = []string{"hash", "refhash", "manual", "roundrobin", "random", "customhash", "custompart"}[rng.Intn(7)]
	if rng.Intn(5) < 2 || sc.Partitioner == "customhash" || sc.Partitioner == "custompart" {
		// two topics: two partitioner instances from one constructor, driven by two goroutines of the producer
		sc.Topics = []string{"t", "u"}
	}
	sc.Leaderless = map[string]bool{}
	for _, t := range sc.Topics {
		switch rng.Intn(4) {
		case 0: // every partition has a leader
		case 1: // all leaderless
			for p := 0; p < sc.Parts; p++ {
				sc.Leaderless[fmt.Sprintf("%s/%d", t, p)] = true
			}
		default:
			for p := 0; p < sc.Parts; p++ {
				if rng.Intn(3) == 0 {
					sc.Leaderless[fmt.Sprintf("%s/%d", t, p)] = true
				}
			}
		}
	}
	if rng.Intn(5) == 0 {
		sc.BadPartitioner = []string{"out-of-range-high", "out-of-range-neg", "error"}[rng.Intn(3)]
	}
	n := 3 + rng.Intn(25)
	if len(sc.Topics) > 1 {
		n += 20
	}
	for i := 0; i < n; i++ {
		ms := &msgSpec{ID: i, Topic: sc.Topics[rng.Intn(len(sc.Topics))], Part: -1, N: i, Value: valueFor(i, rng.Intn(6), rng), KeyNil: true}
		if rng.Intn(3) != 0 {
			ms.Key, ms.KeyNil = randBytes(rng, 1+rng.Intn(8)), false
		}
		if sc.Partitioner == "manual" {
			ms.Part = int32(rng.Intn(sc.Parts))
			if rng.Intn(8) == 0 {
				ms.Part = int32(sc.Parts + rng.Intn(2)) // out of range: must be rejected
			}
		}
		sc.Msgs = append(sc.Msgs, ms)
	}
	return sc
}

func runPartProducerCase(prop, tier string, seed int64, k, idx int) proto.Rec {
	rng := rand.New(rand.NewSource(proto.SubSeed(seed, idx, "c17prod")))
	sc := c17Scenario(rng)
	res := runProd(sc, rng)
	rec := proto.Rec{ID: fmt.Sprintf("%s/%s/%d/%d:producer", prop, tier, seed, idx), Obs: map[string]int64{}}
	if res.newErr != nil {
		// a cluster without any leader still lets the producer be created; anything else is a setup problem
		rec.Verdict, rec.Why = "inconclusive", "producer not created: "+res.newErr.Error()
		return rec
	}
	var vs violSet
	oracleC17prod(res, &vs, &rec)
	rec.Viols = vs.list
	rec.Sample = sampleOf(res)
	rec.Sample["leaderless"] = sc.Leaderless
	rec.Sample["bad_partitioner"] = sc.BadPartitioner
	if res.stuck && len(vs.list) == 0 {
		rec.Verdict, rec.Why = "inconclusive", "run did not complete (judged by C01/C12)"
	}
	return rec
}

func oracleC17prod(res *prodResult, vs *violSet, rec *proto.Rec) {
	sc := res.sc
	allOf, writableOf := map[string][]int32{}, map[string][]int32{}
	for _, t := range sc.Topics {
		for p := 0; p < sc.Parts; p++ {
			allOf[t] = append(allOf[t], int32(p))
			if !sc.Leaderless[fmt.Sprintf("%s/%d", t, p)] {
				writableOf[t] = append(writableOf[t], int32(p))
			}
		}
	}
	sameKey := map[string]int32{} // topic|key|offered -> index chosen before (hash partitioners)
	calls := map[*sarama.ProducerMessage][]partCall{}
	for _, c := range res.partCalls {
		calls[c.Ptr] = append(calls[c.Ptr], c)
	}
	outcome := map[*sarama.ProducerMessage]*outRec{}
	for _, o := range res.outcomes {
		outcome[o.Ptr] = o
	}
	onWire := map[int][]string{}
	for _, p := range res.produced {
		for _, b := range p.Batches {
			for _, r := range b.Recs {
				if id, ok := msgIDFromRecord(r); ok {
					onWire[id] = append(onWire[id], fmt.Sprintf("%s/%d", p.Topic, p.Partition))
				}
			}
		}
	}
	classes := map[string]bool{}
	for _, sr := range res.submitted {
		o := outcome[sr.Ptr]
		cs := calls[sr.Ptr]
		rec.Obs["partitioner_calls"] += int64(len(cs))
		if o == nil {
			continue // judged by C01
		}
		keyed := !sr.Spec.KeyNil
		topic := sr.Spec.Topic
		all, writable := allOf[topic], writableOf[topic]
		consistent := false
		switch sc.Partitioner {
		case "manual":
			consistent = true
		case "hash", "refhash", "customhash", "custompart":
			consistent = keyed
		}
		want := writable
		if consistent {
			want = all
		}
		attr := fmt.Sprintf("%s,keyed=%v", sc.Partitioner, keyed)
		if len(cs) == 0 {
			// the partitioner is not consulted when no partition can be offered
			classes["no-candidate"] = true
			if len(want) != 0 {
				vs.add("partitioner-not-consulted", attr, fmt.Sprintf("message id=%d: %d partitions could be offered but the partitioner was never called", sr.Spec.ID, len(want)))
			}
			if o.Success || len(onWire[sr.Spec.ID]) > 0 {
				vs.add("sent-despite-error", attr+",no-partition", fmt.Sprintf("message id=%d: no partition was available yet success=%v, on the wire at %v", sr.Spec.ID, o.Success, onWire[sr.Spec.ID]))
			}
			continue
		}
		if len(cs) > 1 {
			vs.add("partitioned-twice", attr, fmt.Sprintf("message id=%d was partitioned %d times", sr.Spec.ID, len(cs)))
		}
		c := cs[0]
		if int(c.N) != len(want) {
			vs.add("wrong-candidate-set", attr, fmt.Sprintf("message id=%d (%s, keyed=%v): the partitioner was offered %d partitions, expected %d (all=%v writable=%v)", sr.Spec.ID, sc.Partitioner, keyed, c.N, len(want), all, writable))
			continue
		}
		if c.Err || c.Ret < 0 || c.Ret >= c.N {
			classes["bad-choice"] = true
			if o.Success || len(onWire[sr.Spec.ID]) > 0 {
				what := "out-of-range"
				if c.Err {
					what = "partitioner-error"
				}
				vs.add("sent-despite-error", attr+","+what, fmt.Sprintf("message id=%d: partitioner returned %d (err=%v) for %d partitions, yet success=%v and the message is on the wire at %v", sr.Spec.ID, c.Ret, c.Err, c.N, o.Success, onWire[sr.Spec.ID]))
			}
			continue
		}
		chosen := want[c.Ret]
		if consistent && sc.Partitioner != "manual" {
			// equal keys, equal partitions (per topic and number of partitions offered)
			k := fmt.Sprintf("%s|%x|%d", topic, sr.Spec.Key, c.N)
			if prev, ok := sameKey[k]; ok && prev != c.Ret {
				vs.add("equal-keys-diverge", attr, fmt.Sprintf("message id=%d: key %x of topic %s went to index %d before and to %d now (%d partitions offered both times)", sr.Spec.ID, sr.Spec.Key, topic, prev, c.Ret, c.N))
			}
			sameKey[k] = c.Ret
		}
		leaderless := sc.Leaderless[fmt.Sprintf("%s/%d", topic, chosen)]
		classes[fmt.Sprintf("consistent=%v,leaderless=%v", consistent, leaderless)] = true
		for _, w := range onWire[sr.Spec.ID] {
			if w != fmt.Sprintf("%s/%d", topic, chosen) {
				vs.add("choice-not-honoured", attr+",wire", fmt.Sprintf("message id=%d: the partitioner chose index %d = partition %d, but the message was sent to %s", sr.Spec.ID, c.Ret, chosen, w))
			}
		}
		if o.Success {
			if o.Partition != chosen {
				vs.add("choice-not-honoured", attr+",outcome", fmt.Sprintf("message id=%d: the partitioner chose index %d = partition %d, the success reports partition %d", sr.Spec.ID, c.Ret, chosen, o.Partition))
			}
			if len(onWire[sr.Spec.ID]) == 0 {
				vs.add("choice-not-honoured", attr+",not-sent", fmt.Sprintf("message id=%d reported successful but never reached the cluster", sr.Spec.ID))
			}
		} else if !leaderless && !res.stuck {
			vs.add("false-error", attr, fmt.Sprintf("message id=%d: partition %d was chosen and has a leader, no fault was injected, yet the outcome is error %v", sr.Spec.ID, chosen, o.Err))
		}
	}
	var cl []string
	for k := range classes {
		cl = append(cl, k)
	}
	sort.Strings(cl)
	rec.NonTrivial = len(res.partCalls) > 0 || len(classes) > 0
	rec.Path = fmt.Sprintf("producer|%s|topics=%d|bad=%s|parts=%d|leaderless=%d|%s", sc.Partitioner, len(sc.Topics), sc.BadPartitioner, sc.Parts, len(sc.Leaderless), strings.Join(cl, ";"))
}
