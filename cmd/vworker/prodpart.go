package main

import "verifharness/internal/proto"

// producer scenarios of C17 (filled in once the simulated cluster exists)
func partProducerCases(tier string) int { return 0 }

func runPartProducerCase(prop, tier string, seed int64, k, idx int) proto.Rec { return proto.Rec{} }
