package main

// Oracles of the producer engine. Each is a predicate over the recorded events
// of one scenario run; none looks at wall-clock time.

import (
	"bytes"
	"fmt"
	"os"
	"sort"
	"strings"
	"sync/atomic"

	"github.com/Shopify/sarama"

	"verifharness/internal/proto"
)

type violSet struct {
	list []proto.Viol
	seen map[string]bool
}

func (v *violSet) add(kind, attr, msg string) {
	if v.seen == nil {
		v.seen = map[string]bool{}
	}
	k := kind + "|" + attr
	if v.seen[k] {
		return
	}
	v.seen[k] = true
	v.list = append(v.list, proto.Viol{Kind: kind, Attr: attr, Msg: msg})
}

func judgeProd(prop string, res *prodResult) proto.Rec {
	rec := proto.Rec{Obs: map[string]int64{}}
	sc := res.sc
	var vs violSet
	if res.newErr != nil {
		// the producer could not be created: with a healthy cluster that is a failure of the case setup, not a verdict
		rec.Verdict = "inconclusive"
		rec.Why = "producer not created: " + res.newErr.Error()
		return rec
	}
	rec.Obs["submitted"] = int64(len(res.submitted))
	rec.Obs["outcomes"] = int64(len(res.outcomes))
	rec.Obs["hook_events"] = int64(len(res.hooks))
	rec.Obs["partition_batches_at_cluster"] = int64(len(res.produced))
	rec.Obs["faults_consumed"] = int64(res.faultsUsed)
	for _, r := range res.rules {
		rec.Obs["plans_fired"] += int64(atomic.LoadInt32(&r.Fired))
		rec.Obs["plans_satisfied"] += int64(atomic.LoadInt32(&r.Satisfied))
	}
	for _, ev := range res.hooks {
		rec.Obs["hook:"+ev.Point]++
	}

	// derived facts shared by the oracles
	nonOk := 0
	for i := 0; i < res.faultsUsed && i < len(sc.Faults); i++ {
		if sc.Faults[i] != fOk {
			nonOk++
		}
	}
	retried := false
	anyErr := false
	for _, ev := range res.hooks {
		if (ev.Point == "pp.recv" && ev.Level > 0 && ev.MI.Flags == 0) || ev.Point == "ap.retryBatch" {
			retried = true
		}
	}
	for _, o := range res.outcomes {
		if !o.Success {
			anyErr = true
		}
	}

	if res.inconcl != "" {
		rec.Verdict = "inconclusive"
		rec.Why = res.inconcl
	}

	switch prop {
	case "C01":
		oracleC01(res, &vs)
		rec.NonTrivial = nonOk > 0 && (retried || anyErr)
	case "C02":
		nt := oracleC02(res, &vs)
		rec.NonTrivial = nt
	case "C04":
		rec.NonTrivial = oracleC04(res, &vs)
	case "C05":
		rec.NonTrivial = oracleC05(res, &vs)
	case "C16":
		rec.NonTrivial = oracleC16(res, &vs, &rec)
	case "C18":
		rec.NonTrivial = oracleC18(res, &vs)
	}
	if res.stuck && prop != "C01" && prop != "C16" {
		// only C01 (and C12) judge completion; for the other properties a stuck run
		// leaves their own clauses undecided
		if len(vs.list) == 0 {
			rec.Verdict = "inconclusive"
			rec.Why = "run did not complete (judged by C01/C12): " + strings.Join(res.stuckWho, "; ")
		}
	}
	rec.Viols = vs.list
	rec.Path = pathSignature(res)
	if prop == "C04" || prop == "C16" {
		rec.Path = shapeSignature(prop, res)
	}
	rec.Sample = sampleOf(res)
	return rec
}

func sampleOf(res *prodResult) map[string]interface{} {
	s := res.sc.describe()
	var evs []string
	for i, ev := range res.hooks {
		if i >= 40 {
			break
		}
		evs = append(evs, fmt.Sprintf("%d %s %s/%d lvl=%d flags=%d err=%s", ev.Seq, ev.Point, ev.Topic, ev.Part, ev.Level, ev.MI.Flags, ev.Err))
	}
	s["first_hook_events"] = evs
	var srv []string
	for i, p := range res.produced {
		if i >= 40 {
			break
		}
		ids := []int{}
		pid, ep, seq := int64(-1), int16(-1), int32(-1)
		for _, b := range p.Batches {
			pid, ep, seq = b.PID, b.Epoch, b.BaseSeq
			for _, r := range b.Recs {
				id, _ := msgIDFromRecord(r)
				ids = append(ids, id)
			}
		}
		srv = append(srv, fmt.Sprintf("%d b%d %s/%d v%d action=%d code=%d appended=%v dup=%v base=%d pid=%d ep=%d seq=%d ids=%v", p.Seq, p.Broker, p.Topic, p.Partition, p.Version, p.Action, p.Code, p.Appended, p.Duplicate, p.Base, pid, ep, seq, ids))
	}
	s["cluster_batches"] = srv
	var outs []string
	for i, o := range res.outcomes {
		if i >= 40 {
			break
		}
		e := ""
		if o.Err != nil {
			e = o.Err.Error()
		}
		outs = append(outs, fmt.Sprintf("%d id=%d ok=%v p=%d off=%d via=%s err=%s", o.Seq, o.ID, o.Success, o.Partition, o.Offset, o.Via, e))
	}
	s["outcomes"] = outs
	s["close_returned"] = res.closeDone
	if res.stuck {
		s["stuck_goroutines"] = res.stuckWho
	}
	s["wall_ms"] = res.wall.Milliseconds()
	return s
}

// hookFacts about one message pointer.
type ptrFacts struct {
	lastPoint    string
	outcomes     int
	isMarker     bool
	flags        int
	exhausted    bool
	stampEpoch   int16
	hasSeq       bool
	otherEpoch   bool // was put into a set labelled with another epoch than stamped
	inRetryBatch bool
	outcomeErrs  int // ap.outcome events with an error
	outcomeOKs   int // ap.outcome events without
}

func factsByPtr(res *prodResult) map[*sarama.ProducerMessage]*ptrFacts {
	m := map[*sarama.ProducerMessage]*ptrFacts{}
	get := func(p *sarama.ProducerMessage) *ptrFacts {
		f := m[p]
		if f == nil {
			f = &ptrFacts{}
			m[p] = f
		}
		return f
	}
	for _, ev := range res.hooks {
		if ev.Msg != nil {
			f := get(ev.Msg)
			f.lastPoint = ev.Point
			if ev.MI.Flags != 0 {
				f.isMarker = true
				f.flags = ev.MI.Flags
			}
			if ev.MI.HasSeq {
				f.hasSeq = true
				f.stampEpoch = ev.MI.Epoch
			}
			if ev.Point == "ap.outcome" {
				f.outcomes++
				if ev.HasErr {
					f.outcomeErrs++
				} else {
					f.outcomeOKs++
				}
			}
			if ev.Point == "bp.added" && ev.MI.HasSeq && ev.SetEpoch != ev.MI.Epoch {
				f.otherEpoch = true
			}
		}
		if ev.Point == "ap.retryBatch" {
			for _, p := range ev.Ptrs {
				get(p).inRetryBatch = true
				get(p).lastPoint = ev.Point
			}
		}
	}
	return m
}

// ---------------------------------------------------------------- C01

func oracleC01(res *prodResult, vs *violSet) {
	sc := res.sc
	facts := factsByPtr(res)
	count := map[*sarama.ProducerMessage][]*outRec{}
	for _, o := range res.outcomes {
		if o.Via == "sync-foreign" {
			vs.add("sync-mismatch", "foreign-error-in-SendMessages", fmt.Sprintf("SendMessages returned a ProducerError for a message (id=%d) that was not part of the call", o.ID))
			continue
		}
		sr := res.byPtr[o.Ptr]
		if sr == nil || !o.MetaOK {
			f := facts[o.Ptr]
			attr := "unknown-pointer"
			if f != nil && f.isMarker {
				attr = fmt.Sprintf("marker-flags=%d", f.flags)
			}
			kind := "alien-outcome"
			vs.add(kind, attr+fmt.Sprintf(",success=%v", o.Success), fmt.Sprintf("an event (success=%v err=%v) was emitted for a message the application did not submit (topic=%s partition=%d value=%v)", o.Success, o.Err, o.Ptr.Topic, o.Ptr.Partition, o.Ptr.Value))
			continue
		}
		count[o.Ptr] = append(count[o.Ptr], o)
	}
	if res.stuck {
		attr := "idem=" + fmt.Sprint(sc.Idempotent)
		who := strings.Join(res.stuckWho, "; ")
		// attribution by mechanism: which hook saw the unfinished messages last
		last := map[string]int{}
		for _, sr := range res.submitted {
			if len(count[sr.Ptr]) == 0 {
				f := facts[sr.Ptr]
				if f != nil && f.outcomes > 0 {
					continue // an outcome was produced; Close's own drain took it
				}
				if f != nil {
					last[f.lastPoint]++
				} else {
					last["never-dispatched"]++
				}
			}
		}
		var ls []string
		for k := range last {
			ls = append(ls, k)
		}
		sort.Strings(ls)
		if len(ls) == 1 && ls[0] == "bp.added" && sc.FlushFreq == 0 && (sc.FlushMessages > 0 || sc.FlushBytes > 0) {
			vs.add("close-stuck", "buffered-under-unfired-trigger(no-Flush.Frequency)", fmt.Sprintf("Close/AsyncClose did not complete: %d messages sit in a broker producer's buffer under Flush.Messages=%d / Flush.Bytes=%d which has not fired, no Flush.Frequency is set, and shutdown does not flush them; parked: %s", last["bp.added"], sc.FlushMessages, sc.FlushBytes, who))
			return
		}
		vs.add("close-stuck", attr+",last="+strings.Join(ls, "+"), fmt.Sprintf("Close/AsyncClose did not complete and nothing moved any more; messages without outcome were last seen at %v; parked: %s", last, who))
		return
	}
	if !res.closeDone {
		return // inconclusive, set by the caller
	}
	for _, sr := range res.submitted {
		os := count[sr.Ptr]
		switch {
		case len(os) == 0:
			f := facts[sr.Ptr]
			lp := "never-dispatched"
			if f != nil {
				lp = f.lastPoint
			}
			if sc.CloseMode == "close" && !sc.Sync && f != nil && f.outcomeOKs == 1 && f.outcomeErrs == 0 {
				// Close() drains and discards the successes still pending when it is
				// called (documented); the success was produced exactly once.
				continue
			}
			vs.add("missing-outcome", fmt.Sprintf("idem=%v,last=%s", sc.Idempotent, lp), fmt.Sprintf("message id=%d was accepted on Input() but both channels were closed without an event for it (last seen at hook %s)", sr.Spec.ID, lp))
		case len(os) > 1:
			var k []string
			for _, o := range os {
				if o.Success {
					k = append(k, "success")
				} else {
					k = append(k, "error")
				}
			}
			sort.Strings(k)
			vs.add("double-outcome", strings.Join(k, "+"), fmt.Sprintf("message id=%d got %d terminal events: %v", sr.Spec.ID, len(os), k))
		}
		if mm, ok := sr.Ptr.Metadata.(*msgMeta); !ok || mm.ID != sr.Spec.ID {
			vs.add("metadata-altered", "", fmt.Sprintf("message id=%d came back with Metadata %v", sr.Spec.ID, sr.Ptr.Metadata))
		}
	}
	// messages whose send on Input() never completed cannot exist here (submitters finished)
	if sc.Sync {
		// the returned triple must be the outcome the async layer produced for that pointer
		type ao struct {
			n      int
			hasErr bool
			part   int32
			off    int64
		}
		byPtr := map[*sarama.ProducerMessage]*ao{}
		for _, ev := range res.hooks {
			if ev.Point == "ap.outcome" && ev.Msg != nil {
				a := byPtr[ev.Msg]
				if a == nil {
					a = &ao{}
					byPtr[ev.Msg] = a
				}
				a.n++
				a.hasErr, a.part, a.off = ev.HasErr, ev.MsgPart, ev.MsgOff
			}
		}
		for _, o := range res.outcomes {
			if o.Via != "sync" {
				continue
			}
			a := byPtr[o.Ptr]
			if a == nil {
				vs.add("sync-mismatch", "returned-without-outcome", fmt.Sprintf("SendMessage(s) returned for id=%d although the producer produced no outcome for it", o.ID))
				continue
			}
			if a.hasErr != (o.Err != nil) {
				vs.add("sync-mismatch", "error-flag", fmt.Sprintf("id=%d: producer outcome error=%v but sync return err=%v", o.ID, a.hasErr, o.Err))
			} else if o.Err == nil && sc.Acks != sarama.NoResponse && (a.part != o.Partition || a.off != o.Offset) {
				vs.add("sync-mismatch", "partition-offset", fmt.Sprintf("id=%d: producer outcome (%d,%d) but sync return (%d,%d)", o.ID, a.part, a.off, o.Partition, o.Offset))
			}
		}
	}
}

func recordAt(res *prodResult, sr *subRec, part int32, off int64) bool {
	if sr == nil {
		return false
	}
	lg := res.logs[sr.Spec.Topic]
	if int(part) < 0 || int(part) >= len(lg) {
		return false
	}
	i := off - res.sc.BaseOffset
	if i < 0 || int(i) >= len(lg[part]) {
		return false
	}
	if sr.Spec.Bare {
		r := lg[part][i]
		return r.Key == nil && r.Value == nil && len(r.Headers) == 0
	}
	id, ok := msgIDFromRecord(lg[part][i])
	return ok && id == sr.Spec.ID
}

// ---------------------------------------------------------------- C02

func oracleC02(res *prodResult, vs *violSet) bool {
	sc := res.sc
	specByID := map[int]*msgSpec{}
	for _, ms := range sc.Msgs {
		specByID[ms.ID] = ms
	}
	facts := factsByPtr(res)
	maxRetry := map[int]int{}
	for _, ev := range res.hooks {
		if ev.Point == "pp.recv" && ev.Msg != nil && ev.MI.Flags == 0 {
			if sr := res.byPtr[ev.Msg]; sr != nil && ev.Level > maxRetry[sr.Spec.ID] {
				maxRetry[sr.Spec.ID] = ev.Level
			}
		}
	}
	_ = facts
	for _, t := range sc.Topics {
		for p, lg := range res.logs[t] {
			firstPos := map[int]int{}
			for pos, r := range lg {
				id, ok := msgIDFromRecord(r)
				if !ok {
					continue
				}
				if _, seen := firstPos[id]; !seen {
					firstPos[id] = pos
				}
			}
			// order ids of this partition by submission index
			var ids []int
			for id := range firstPos {
				if ms := specByID[id]; ms != nil && ms.Topic == t && int(ms.Part) == p {
					ids = append(ids, id)
				}
			}
			sort.Slice(ids, func(a, b int) bool { return specByID[ids[a]].N < specByID[ids[b]].N })
			for i := 1; i < len(ids); i++ {
				a, b := ids[i-1], ids[i]
				if firstPos[b] < firstPos[a] {
					attr := fmt.Sprintf("with-retries,idem=%v", sc.Idempotent)
					if sc.RetryMax == 0 {
						attr = "abandoned-worker(retry.max=0)"
					}
					vs.add("first-copy-reorder", attr, fmt.Sprintf("partition %s/%d: message id=%d (submission #%d, retry level %d) first appears at log position %d, before its predecessor id=%d (submission #%d, retry level %d) at %d", t, p, b, specByID[b].N, maxRetry[b], firstPos[b], a, specByID[a].N, maxRetry[a], firstPos[a]))
					break
				}
			}
		}
	}
	// success offsets
	type so struct {
		n   int
		off int64
		id  int
	}
	perPart := map[string][]so{}
	if sc.Acks != sarama.NoResponse {
		for _, o := range res.outcomes {
			if !o.Success || !o.MetaOK {
				continue
			}
			ms := specByID[o.ID]
			if ms == nil {
				continue
			}
			k := fmt.Sprintf("%s/%d", ms.Topic, ms.Part)
			perPart[k] = append(perPart[k], so{ms.N, o.Offset, o.ID})
		}
	}
	for k, l := range perPart {
		sort.Slice(l, func(a, b int) bool { return l[a].n < l[b].n })
		for i := 1; i < len(l); i++ {
			if l[i].off <= l[i-1].off {
				attr := fmt.Sprintf("with-retries,idem=%v", sc.Idempotent)
				if sc.RetryMax == 0 {
					attr = "abandoned-worker(retry.max=0)"
				}
				vs.add("success-offset-reorder", attr, fmt.Sprintf("partition %s: successes id=%d (#%d) at offset %d and id=%d (#%d) at offset %d", k, l[i-1].id, l[i-1].n, l[i-1].off, l[i].id, l[i].n, l[i].off))
				break
			}
		}
	}
	// non-trivial: some message reached retry level >= 1 while a later message of the same partition had been submitted before the retry was re-sent
	subSeq := map[int]int64{}
	for _, sr := range res.submitted {
		subSeq[sr.Spec.ID] = sr.Seq
	}
	for _, ev := range res.hooks {
		if ev.Point == "pp.recv" && ev.Msg != nil && ev.MI.Flags == 0 && ev.Level >= 1 {
			sr := res.byPtr[ev.Msg]
			if sr == nil {
				continue
			}
			for _, other := range res.submitted {
				if other.Spec.Topic == sr.Spec.Topic && other.Spec.Part == sr.Spec.Part && other.Spec.N > sr.Spec.N && other.Seq < ev.Seq {
					return true
				}
			}
		}
	}
	return false
}

// ---------------------------------------------------------------- C05

// c05Context describes, from observed facts only, what had happened before a
// given point of the history: "conn" = a connection-level fault or an
// incomplete answer had been consumed (the client then retries messages one by
// one and may re-batch them), "bump" = a sequenced message had ended in error
// (which bumps the epoch and zeroes every partition's sequence). "clean" =
// neither: only retriable error codes so far and no message failed.
type c05Context struct {
	connAt []int64
	bumpAt []int64
	mode   string // "sequential/" when no fresh input can arrive inside a retry window
}

func newC05Context(res *prodResult) *c05Context {
	c := &c05Context{mode: "concurrent/"}
	if res.sc.Sequential > 0 {
		c.mode = "sequential/"
	}
	for _, p := range res.produced {
		switch p.Action {
		case sarama.VPDropBefore, sarama.VPDropAfter, sarama.VPSilentBefore, sarama.VPSilentAfter, sarama.VPOmitBlock, sarama.VPOmitNoAppend:
			c.connAt = append(c.connAt, p.Seq)
		}
	}
	// a batch that arrives under a later epoch than the producer's first one proves that the epoch was
	// bumped before it was sent (the ap.outcome hook of the failing message fires after the bump: on a loaded
	// machine another goroutine can stamp and send a message in between)
	first := map[int64]int16{}
	for _, p := range res.produced {
		for _, b := range p.Batches {
			if b.PID < 0 {
				continue
			}
			if e, ok := first[b.PID]; !ok || b.Epoch < e {
				first[b.PID] = b.Epoch
			}
		}
	}
	for _, p := range res.produced {
		for _, b := range p.Batches {
			if b.PID >= 0 && b.Epoch > first[b.PID] {
				c.bumpAt = append(c.bumpAt, p.Seq-1)
			}
		}
	}
	for _, ev := range res.hooks {
		if ev.Point == "ap.outcome" && ev.HasErr && ev.MI.HasSeq {
			c.bumpAt = append(c.bumpAt, ev.Seq)
		}
		if ev.Point == "bp.response" && ev.HasErr {
			c.connAt = append(c.connAt, ev.Seq)
		}
	}
	return c
}

func (c *c05Context) at(seq int64) string {
	var parts []string
	for _, t := range c.bumpAt {
		if t < seq {
			parts = append(parts, "bump")
			break
		}
	}
	for _, t := range c.connAt {
		if t < seq {
			parts = append(parts, "conn")
			break
		}
	}
	if len(parts) == 0 {
		if os.Getenv("VERIF_DEBUG") != "" {
			fmt.Fprintf(os.Stderr, "ctx.at(%d): bumpAt=%v connAt=%v\n", seq, c.bumpAt, c.connAt)
		}
		return "clean"
	}
	return "after-fault(" + strings.Join(parts, "+") + ")"
}

// addC05 files a violation. In the clean context (only retriable error codes
// so far, no message failed) the signature keeps the kind; after a connection
// fault or a failed message every kind is a manifestation of the same root
// mechanism, so the signature is the mechanism alone.
func addC05(vs *violSet, kind, mech, ctx, msg string) {
	if ctx == "clean" {
		vs.add(kind, mech+",clean", msg)
		return
	}
	vs.add("broken-after-fault", mech, kind+" ["+ctx+"]: "+msg)
}

func oracleC05(res *prodResult, vs *violSet) bool {
	sc := res.sc
	facts := factsByPtr(res)
	ptrByID := map[int]*sarama.ProducerMessage{}
	for _, sr := range res.submitted {
		ptrByID[sr.Spec.ID] = sr.Ptr
	}
	ctx := newC05Context(res)
	individually := map[int]bool{} // sequenced messages that were retried one by one (may be re-batched)
	for _, ev := range res.hooks {
		if ev.Point == "pp.recv" && ev.Msg != nil && ev.MI.Flags == 0 && ev.Level > 0 && ev.MI.HasSeq {
			if sr := res.byPtr[ev.Msg]; sr != nil {
				individually[sr.Spec.ID] = true
			}
		}
	}
	unstamped := map[int]bool{}
	for _, ev := range res.hooks {
		if ev.Point == "bp.added" && ev.Msg != nil && ev.MI.Flags == 0 && !ev.MI.HasSeq {
			if sr := res.byPtr[ev.Msg]; sr != nil {
				unstamped[sr.Spec.ID] = true
			}
		}
	}
	mechIDs := func(ids []int) string {
		for _, id := range ids {
			if unstamped[id] {
				return "sent-without-sequence"
			}
		}
		for _, id := range ids {
			if f := facts[ptrByID[id]]; f != nil && f.otherEpoch {
				return "resend-under-other-epoch"
			}
		}
		for _, id := range ids {
			if individually[id] {
				return "rebatched-individual-retry"
			}
		}
		return "other"
	}
	// when was each record appended (cluster event order)
	type app struct {
		seq int64
		tp  string
	}
	appended := map[int][]app{}
	for _, p := range res.produced {
		if !p.Appended {
			continue
		}
		for _, b := range p.Batches {
			for _, r := range b.Recs {
				if id, ok := msgIDFromRecord(r); ok {
					appended[id] = append(appended[id], app{p.Seq, fmt.Sprintf("%s/%d", p.Topic, p.Partition)})
				}
			}
		}
	}
	// (1) no id twice in a partition log
	where := map[int][]string{}
	for _, t := range sc.Topics {
		for p, lg := range res.logs[t] {
			seen := map[int]int{}
			for _, r := range lg {
				if id, ok := msgIDFromRecord(r); ok {
					seen[id]++
					where[id] = append(where[id], fmt.Sprintf("%s/%d@%d", t, p, r.Offset))
				}
			}
			for id, n := range seen {
				if n > 1 {
					at := int64(1 << 62)
					if a := appended[id]; len(a) >= 2 {
						at = a[1].seq
					}
					addC05(vs, "dup-append", mechIDs([]int{id}), ctx.at(at), fmt.Sprintf("message id=%d was appended %d times to %s/%d (%v)", id, n, t, p, where[id]))
				}
			}
		}
	}
	// (2) every success is in the log exactly once
	for _, o := range res.outcomes {
		if !o.Success || !o.MetaOK || res.byPtr[o.Ptr] == nil {
			continue
		}
		if len(where[o.ID]) == 0 {
			addC05(vs, "success-not-in-log", mechIDs([]int{o.ID}), ctx.at(o.Seq), fmt.Sprintf("message id=%d was reported successful (partition %d offset %d) but is not in the log", o.ID, o.Partition, o.Offset))
		}
	}
	// (3) wire discipline per (partition, pid, epoch)
	type bkey struct {
		tp    string
		pid   int64
		epoch int16
	}
	type seen struct {
		first, last int32
		ids         string
	}
	hist := map[bkey][]seen{}
	resent := false
	for _, p := range res.produced {
		for _, b := range p.Batches {
			if b.Magic != 2 || b.PID < 0 || len(b.Recs) == 0 {
				continue
			}
			var ids []string
			var idn []int
			for _, r := range b.Recs {
				id, _ := msgIDFromRecord(r)
				ids = append(ids, fmt.Sprint(id))
				idn = append(idn, id)
			}
			cur := seen{b.BaseSeq, b.BaseSeq + int32(len(b.Recs)) - 1, strings.Join(ids, ",")}
			k := bkey{fmt.Sprintf("%s/%d", p.Topic, p.Partition), b.PID, b.Epoch}
			h := hist[k]
			dup := false
			for _, old := range h {
				if old.first == cur.first {
					dup = true
					if old != cur {
						addC05(vs, "resend-mutated", mechIDs(idn), ctx.at(p.Seq), fmt.Sprintf("%s pid=%d epoch=%d: a batch starting at sequence %d was first sent as [%d..%d ids %s] and later as [%d..%d ids %s]", k.tp, k.pid, k.epoch, cur.first, old.first, old.last, old.ids, cur.first, cur.last, cur.ids))
					}
					break
				}
			}
			if dup {
				resent = true
				continue
			}
			want := int32(0)
			if len(h) > 0 {
				want = h[len(h)-1].last + 1
			}
			if cur.first != want {
				kind := "seq-gap"
				if cur.first < want {
					kind = "seq-overlap"
				}
				addC05(vs, kind, mechIDs(idn), ctx.at(p.Seq), fmt.Sprintf("%s pid=%d epoch=%d: batch [%d..%d ids %s] does not continue the previous distinct batch (expected first sequence %d)", k.tp, k.pid, k.epoch, cur.first, cur.last, cur.ids, want))
			}
			hist[k] = append(h, cur)
		}
	}
	return resent || len(ctx.bumpAt) > 0
}

// ---------------------------------------------------------------- C04

func refPartitionFor(res *prodResult, sr *subRec) (int32, bool) {
	switch res.sc.Partitioner {
	case "manual":
		return sr.Spec.Part, true
	case "hash", "refhash":
		if sr.Spec.KeyNil {
			return -1, false
		}
		n := int32(res.sc.Parts)
		if res.sc.Partitioner == "hash" {
			return saramaRule(refFNV1a(sr.Spec.Key), n), true
		}
		return kafkaRule(refFNV1a(sr.Spec.Key), n), true
	}
	return -1, false
}

func headersEqual(a []sarama.RecordHeader, b []sarama.VHeader) bool {
	if len(a) != len(b) {
		return false
	}
	for i := range a {
		if !bytes.Equal(a[i].Key, b[i].Key) || !bytes.Equal(a[i].Value, b[i].Value) {
			return false
		}
	}
	return true
}

func oracleC04(res *prodResult, vs *violSet) bool {
	sc := res.sc
	specByID := map[int]*msgSpec{}
	for _, ms := range sc.Msgs {
		specByID[ms.ID] = ms
	}
	vtag := fmt.Sprintf("%s,%s", versionClass(sc.Version), sc.Codec.String())
	nontrivial := false
	// every produce request parses under the reference reader
	for _, p := range res.produced {
		if p.ParseErr != "" {
			vs.add("wire-format", vtag+",parse", fmt.Sprintf("produce v%d for %s/%d does not parse under the reference reader: %s", p.Version, p.Topic, p.Partition, p.ParseErr))
		}
		for _, n := range p.Notes {
			rule := n
			if i := strings.Index(rule, ":"); i > 0 {
				rule = rule[:i]
			}
			vs.add("wire-format", vtag+","+noteClass(n), fmt.Sprintf("produce v%d for %s/%d: %s", p.Version, p.Topic, p.Partition, n))
		}
		for _, b := range p.Batches {
			if b.Magic == 2 && int(b.LastOffsetDelta) != len(b.Recs)-1 {
				vs.add("wire-format", vtag+",last-offset-delta", fmt.Sprintf("record batch with %d records has LastOffsetDelta=%d", len(b.Recs), b.LastOffsetDelta))
			}
			wantMagic := int8(0)
			if sc.Version.IsAtLeast(sarama.V0_10_0_0) {
				wantMagic = 1
			}
			if sc.Version.IsAtLeast(sarama.V0_11_0_0) {
				wantMagic = 2
			}
			if b.Magic != wantMagic {
				vs.add("wire-format", vtag+",magic", fmt.Sprintf("version %s sent magic %d (expected %d)", sc.Version, b.Magic, wantMagic))
			}
			if b.Codec != int8(sc.Codec) {
				vs.add("wire-format", vtag+",codec", fmt.Sprintf("configured codec %s but batch carries codec %d", sc.Codec, b.Codec))
			}
			if p.Appended && len(b.Recs) >= 2 && p.Base != sc.BaseOffset || p.Appended && b.Codec != 0 {
				nontrivial = true
			}
		}
	}
	// every record in any log maps to a submitted message, content equal
	bareLeft := map[string]int{} // partitions that may hold records without key, value and headers
	for _, ms := range sc.Msgs {
		if ms.Bare {
			bareLeft[fmt.Sprintf("%s/%d", ms.Topic, ms.Part)]++
		}
	}
	for _, t := range sc.Topics {
		for p, lg := range res.logs[t] {
			for _, r := range lg {
				if k := fmt.Sprintf("%s/%d", t, p); r.Key == nil && r.Value == nil && len(r.Headers) == 0 && bareLeft[k] > 0 {
					continue // (possibly a resent copy: a held response can outlast the read timeout)
				}
				id, ok := msgIDFromRecord(r)
				ms := specByID[id]
				if !ok || ms == nil {
					vs.add("alien-record", vtag, fmt.Sprintf("%s/%d offset %d holds a record the application did not submit (key=%q value=%q)", t, p, r.Offset, r.Key, r.Value))
					continue
				}
				checkContent(res, vs, vtag, ms, r, t, p)
			}
		}
	}
	// every success points at its record
	retriedOK := false
	for _, o := range res.outcomes {
		if !o.Success || !o.MetaOK {
			continue
		}
		sr := res.byPtr[o.Ptr]
		if sr == nil {
			continue
		}
		if want, ok := refPartitionFor(res, sr); ok && want != o.Partition {
			vs.add("wrong-partition", vtag+","+sc.Partitioner, fmt.Sprintf("message id=%d: partitioner %s chose %d but success reports partition %d", o.ID, sc.Partitioner, want, o.Partition))
		}
		if sc.Acks == sarama.NoResponse {
			continue // Offset is documented as undefined
		}
		if !recordAt(res, sr, o.Partition, o.Offset) {
			retr := false
			for _, ev := range res.hooks {
				if ev.Msg == o.Ptr && ev.Level > 0 {
					retr = true
				}
			}
			attr := fmt.Sprintf("%s,retried=%v", vtag, retr)
			if sc.Idempotent {
				if c := newC05Context(res).at(o.Seq); c != "clean" {
					attr = "idempotent-after-fault"
				} else {
					attr += ",idempotent-clean"
				}
			}
			vs.add("offset-content-mismatch", attr, fmt.Sprintf("message id=%d reported successful at %s/%d offset %d, but that position does not hold it (log base %d)", o.ID, sr.Spec.Topic, o.Partition, o.Offset, sc.BaseOffset))
		}
		for _, ev := range res.hooks {
			if ev.Msg == o.Ptr && ev.Level > 0 {
				retriedOK = true
			}
		}
	}
	return nontrivial || retriedOK
}

func noteClass(n string) string {
	switch {
	case strings.Contains(n, "relative"):
		return "inner-offsets-not-relative"
	case strings.Contains(n, "offsetDelta-seq"), strings.Contains(n, "offset delta"):
		return "offset-delta"
	case strings.Contains(n, "minimal"):
		return "varint-not-minimal"
	case strings.Contains(n, "attributes"):
		return "attributes"
	case strings.Contains(n, "nested"):
		return "nested-wrapper"
	case strings.Contains(n, "magic"):
		return "inner-magic"
	case strings.Contains(n, "header key"):
		return "null-header-key"
	}
	return "other"
}

func checkContent(res *prodResult, vs *violSet, vtag string, ms *msgSpec, r sarama.VRec, t string, p int) {
	sc := res.sc
	wantKey, wantVal := ms.Key, ms.Value
	if ms.KeyNil {
		wantKey = nil
	}
	if ms.ValNil {
		wantVal = nil
	}
	// interceptors of C18 append suffixes; C04 scenarios have none
	if !bytes.Equal(wantKey, r.Key) {
		vs.add("content-mismatch", vtag+",key", fmt.Sprintf("%s/%d offset %d: key %q (nil=%v) stored for message id=%d whose key is %q (nil=%v)", t, p, r.Offset, r.Key, r.Key == nil, ms.ID, wantKey, wantKey == nil))
	} else if (wantKey == nil) != (r.Key == nil) {
		// an empty key and no key are different things on the wire (length 0 / -1)
		vs.add("content-mismatch", vtag+",key-null-vs-empty", fmt.Sprintf("%s/%d offset %d: key stored as nil=%v for message id=%d whose key is nil=%v", t, p, r.Offset, r.Key == nil, ms.ID, wantKey == nil))
	}
	if !bytes.Equal(wantVal, r.Value) {
		vs.add("content-mismatch", vtag+",value", fmt.Sprintf("%s/%d offset %d: value %q stored for message id=%d whose value is %q", t, p, r.Offset, r.Value, ms.ID, wantVal))
	} else if (wantVal == nil) != (r.Value == nil) {
		// an empty value is a record, a null value is a tombstone
		vs.add("content-mismatch", vtag+",value-null-vs-empty", fmt.Sprintf("%s/%d offset %d: value stored as nil=%v for message id=%d whose value is nil=%v", t, p, r.Offset, r.Value == nil, ms.ID, wantVal == nil))
	}
	if !sc.Version.IsAtLeast(sarama.V0_11_0_0) && len(ms.Headers) > 0 {
		// the wire format of this version has no place for headers: the message must have been refused
		vs.add("content-mismatch", vtag+",headers-dropped", fmt.Sprintf("%s/%d offset %d: message id=%d was written without its %d header(s) (version %s cannot carry them; the producer has to refuse the message)", t, p, r.Offset, ms.ID, len(ms.Headers), sc.Version))
	}
	if sc.Version.IsAtLeast(sarama.V0_11_0_0) && !headersEqual(ms.Headers, r.Headers) {
		vs.add("content-mismatch", vtag+",headers", fmt.Sprintf("%s/%d offset %d: headers %v stored for message id=%d whose headers are %v", t, p, r.Offset, r.Headers, ms.ID, ms.Headers))
	}
	if !ms.Ts.IsZero() && sc.Version.IsAtLeast(sarama.V0_10_0_0) {
		want := ms.Ts.UnixNano() / 1e6
		if r.TsMs != want {
			vs.add("content-mismatch", vtag+",timestamp", fmt.Sprintf("%s/%d offset %d: timestamp %d ms stored for message id=%d whose timestamp is %d ms", t, p, r.Offset, r.TsMs, ms.ID, want))
		}
	}
}

func versionClass(v sarama.KafkaVersion) string {
	switch {
	case !v.IsAtLeast(sarama.V0_10_0_0):
		return "magic0"
	case !v.IsAtLeast(sarama.V0_11_0_0):
		return "magic1"
	}
	return "magic2"
}

func shapeSignature(prop string, res *prodResult) string {
	sc := res.sc
	maxBatch, multi, retried := 0, false, false
	for _, p := range res.produced {
		if p.NRecs > maxBatch {
			maxBatch = p.NRecs
		}
		if p.NParts > 1 {
			multi = true
		}
	}
	for _, ev := range res.hooks {
		if ev.Point == "pp.recv" && ev.Level > 0 && ev.MI.Flags == 0 {
			retried = true
		}
	}
	b := "1"
	switch {
	case maxBatch >= 8:
		b = "8+"
	case maxBatch >= 2:
		b = "2+"
	}
	s := fmt.Sprintf("%s|%s|lvl%d|acks%d|batch%s|multi=%v|retried=%v|idem=%v", sc.Version, sc.Codec, sc.CodecLevel, sc.Acks, b, multi, retried, sc.Idempotent)
	if prop == "C16" {
		s += fmt.Sprintf("|fm=%d,fb=%d,fmax=%d,ff=%v,mmb=%d,mrs=%d,stop=%v", b2i(sc.FlushMessages > 0), b2i(sc.FlushBytes > 0), sc.FlushMaxMessages, sc.FlushFreq > 0, sc.MaxMessageBytes, sc.MaxRequestSize, sc.StopInputEarly)
	}
	return s
}

func b2i(b bool) int {
	if b {
		return 1
	}
	return 0
}

// ---------------------------------------------------------------- C18 (producer part)

func oracleC18(res *prodResult, vs *violSet) bool {
	sc := res.sc
	n := len(sc.Interceptors)
	calls := map[*sarama.ProducerMessage][]icCall{}
	for _, c := range res.icCalls {
		calls[c.Ptr] = append(calls[c.Ptr], c)
	}
	facts := factsByPtr(res)
	passes := map[*sarama.ProducerMessage]int{}
	for _, ev := range res.hooks {
		if ev.Point == "ap.dispatch" && ev.Msg != nil {
			passes[ev.Msg]++
		}
	}
	multiPass := false
	for ptr, cs := range calls {
		if res.byPtr[ptr] == nil {
			f := facts[ptr]
			attr := "unknown-pointer"
			if f != nil && f.isMarker {
				attr = fmt.Sprintf("marker-flags=%d", f.flags)
			}
			vs.add("alien", attr, fmt.Sprintf("interceptors were invoked %d times for a message the application did not submit (%s)", len(cs), attr))
		}
	}
	for _, sr := range res.submitted {
		cs := calls[sr.Ptr]
		if passes[sr.Ptr] > 1 {
			multiPass = true
		}
		per := make([]int, n)
		for _, c := range cs {
			if c.Idx >= 0 && c.Idx < n {
				per[c.Idx]++
			}
		}
		for i, k := range per {
			if k != 1 && passes[sr.Ptr] > 0 {
				pass := "first-pass-only"
				if passes[sr.Ptr] > 1 {
					pass = "after-retry"
				}
				vs.add("not-once", fmt.Sprintf("%s,%s", countClass(k), pass), fmt.Sprintf("interceptor #%d (%s) was invoked %d times for message id=%d which passed the dispatcher %d times", i, sc.Interceptors[i].Kind, k, sr.Spec.ID, passes[sr.Ptr]))
				break
			}
		}
		// order within the first application
		if len(cs) >= n && n > 1 {
			for i := 0; i < n; i++ {
				if cs[i].Idx != i {
					vs.add("order", "", fmt.Sprintf("message id=%d: interceptors ran in order %v", sr.Spec.ID, idxs(cs)))
					break
				}
			}
		}
		// a panicking interceptor must not stop the rest of the chain
		for i, ic := range sc.Interceptors {
			if ic.Kind == "panic" && per[i] >= 1 {
				for j := i + 1; j < n; j++ {
					if per[j] == 0 {
						vs.add("chain-broken-by-panic", "", fmt.Sprintf("message id=%d: interceptor #%d panicked and interceptor #%d was never invoked", sr.Spec.ID, i, j))
					}
				}
			}
		}
	}
	// records at the cluster carry exactly one mutation per mutating interceptor
	for _, t := range sc.Topics {
		for _, lg := range res.logs[t] {
			for _, r := range lg {
				for i, ic := range sc.Interceptors {
					if ic.Kind != "mutate" {
						continue
					}
					if r.Value == nil {
						continue // a tombstone has no value to mutate
					}
					if k := bytes.Count(r.Value, []byte(fmt.Sprintf("~i%d", i))); k != 1 {
						id, _ := msgIDFromRecord(r)
						vs.add("not-once", fmt.Sprintf("%s,on-wire", countClass(k)), fmt.Sprintf("record of message id=%d carries %d applications of mutating interceptor #%d: %q", id, k, i, r.Value))
					}
				}
			}
		}
	}
	// the pipeline must survive (C01's conservation) — judged here only for panicking chains
	hasPanic := false
	for _, ic := range sc.Interceptors {
		if ic.Kind == "panic" {
			hasPanic = true
		}
	}
	if hasPanic && res.stuck {
		vs.add("pipeline-broken-by-panic", "stuck", "with a panicking interceptor in the chain the producer stopped moving: "+strings.Join(res.stuckWho, "; "))
	}
	if hasPanic && res.closeDone {
		var tmp violSet
		oracleC01(res, &tmp)
		for _, v := range tmp.list {
			vs.add("pipeline-broken-by-panic", v.Kind, "with a panicking interceptor in the chain: "+v.Msg)
		}
	}
	return multiPass
}

func countClass(k int) string {
	switch {
	case k == 0:
		return "zero"
	case k == 2:
		return "twice"
	case k > 2:
		return "many"
	}
	return "once"
}

func idxs(cs []icCall) []int {
	var o []int
	for _, c := range cs {
		o = append(o, c.Idx)
	}
	return o
}
