package main

// Case lists of the producer engine: an enumerated fault-word core that does
// not depend on the seed, plus a fixed number of seeded random scenarios.

import (
	"fmt"
	"math/rand"
	"time"

	"github.com/Shopify/sarama"

	"verifharness/internal/proto"
)

func init() { engines["prod"] = &prodEngine{} }

type prodEngine struct{}

// the 10-letter alphabet of the enumerated core
var coreAlphabet = []int{fOk, fRetryNoAppend, fRetryAfterAppend, fFatal, fOmitBlock, fDropBefore, fDropAfter, fSilent, fLeaderMove, fNoLeader}

type coreCase struct {
	word  []int
	retry int
	idem  bool
}

func coreWords(maxLen int) [][]int {
	words := [][]int{{}}
	cur := [][]int{{}}
	for l := 1; l <= maxLen; l++ {
		var next [][]int
		for _, w := range cur {
			for _, a := range coreAlphabet {
				nw := append(append([]int{}, w...), a)
				next = append(next, nw)
			}
		}
		words = append(words, next...)
		cur = next
	}
	return words
}

func coreCases(prop, tier string) []coreCase {
	maxLen := 2
	if tier == "thorough" {
		maxLen = 3
	}
	var out []coreCase
	switch prop {
	case "C01", "C02", "C18":
		for _, w := range coreWords(maxLen) {
			for _, r := range []int{0, 1, 2} {
				out = append(out, coreCase{w, r, false})
			}
			if prop != "C02" {
				for _, r := range []int{1, 2} {
					out = append(out, coreCase{w, r, true})
				}
			}
		}
	case "C05":
		for _, w := range coreWords(maxLen) {
			for _, r := range []int{1, 2} {
				out = append(out, coreCase{w, r, true})
			}
		}
	}
	return out
}

// directedScenarios: multi-step histories that random words rarely build —
// a retry cycle during which fresh messages are parked at level 0, a leaderless
// window that makes the leader lookup fail when the retried message and the
// chaser come back, recovery, and a second retry cycle on the same partition.
type directedCase struct {
	// deep != nil: the "deep retry" family instead of the leaderless-window family
	deep        *deepCase
	noLeaderFor int
	steerK      int
	second      int // position of the second retriable fault in the word
	retry       int
	idem        bool
	flush       int
}

// deepCase: the same partition is refused several times in a row while further
// messages keep arriving, so that retry level 2 and beyond is reached with
// messages of lower levels (already numbered, when idempotent) still on their
// way back; responses can be held until k more messages were buffered.
type deepCase struct {
	word    []int
	holdK   [2]int // response-added steering for the first and second response (0 = none)
	flush   int
	pauseUs int
	// parts > 1: the messages go round the partitions of one broker and the cluster answers slowly, so that
	// one request carries batches of several partitions and the word refuses several of them in one response
	parts   int
	delayMs int
	// noLeaderFor > 0: the word contains a leaderless window (fNoLeader) of that many metadata requests
	noLeaderFor int
	// twoTopics: topics "t" and "t1" with 11 partitions each; the messages go to t/10, t1/0, t/1 and t1/10
	// (partition bookkeeping keyed by topic and partition must keep them apart)
	twoTopics bool
	// hashKeyless: the default hash partitioner and messages without a key (each goes to a partition drawn
	// when it first passes the dispatcher, and has to stay there when it is retried)
	hashKeyless bool
	// metaFailAfter: that many metadata requests following the first refused batch die with their connection
	// (one broker: the refresh the producer makes at that moment fails)
	metaFailAfter int
}

func deepCases(prop, tier string) []directedCase {
	var out []directedCase
	R, O := fRetryNoAppend, fOk
	words := [][]int{{R, R}, {O, R, R}, {R, R, R}, {R, O, R, R}}
	holds := [][2]int{{0, 0}, {1, 1}, {2, 1}, {1, 2}}
	for _, w := range words {
		for _, h := range holds {
			for _, fl := range []int{0, 2} {
				for _, pause := range []int{300, 2500} {
					if tier != "thorough" && pause == 2500 && h != [2]int{0, 0} {
						continue
					}
					out = append(out, directedCase{deep: &deepCase{word: w, holdK: h, flush: fl, pauseUs: pause}, retry: 4, idem: prop == "C05"})
				}
			}
		}
	}
	// refusals separated by an accepted request, input arriving at several paces
	for _, w := range [][]int{{R, O, R, R}, {R, O, R, R, R}, {R, R, O, R, R}, {O, R, O, R, R}, {R, O, R, O, R, R}} {
		for _, fl := range []int{0, 2, 3} {
			for _, pause := range []int{100, 300, 1000} {
				out = append(out, directedCase{deep: &deepCase{word: w, flush: fl, pauseUs: pause}, retry: 5, idem: prop == "C05"})
			}
		}
	}
	// a refusal followed by a refusal that leaves the partition leaderless: retry level 2 opens while no
	// leader can be found, for the retried message and for the flush of what was parked meanwhile
	N := fNoLeader
	for _, w := range [][]int{{R, N}, {O, R, N}, {R, N, O, R}, {R, R, N}} {
		for _, nl := range []int{6, 12, 20} {
			for _, pause := range []int{300, 2500} {
				for _, fl := range []int{0, 2} {
					out = append(out, directedCase{deep: &deepCase{word: w, flush: fl, pauseUs: pause, noLeaderFor: nl}, retry: 4, idem: prop == "C05"})
				}
			}
		}
	}
	// two topics whose names and partition numbers concatenate to the same string
	if prop == "C05" || prop == "C01" {
		for _, w := range [][]int{{}, {O, O, R}} {
			for _, fl := range []int{0, 2} {
				out = append(out, directedCase{deep: &deepCase{word: w, flush: fl, pauseUs: 300, twoTopics: true}, retry: 4, idem: true})
			}
		}
	}
	// key-less messages under the default hash partitioner, answers slow, the first request(s) refused
	if prop == "C05" {
		for _, w := range [][]int{{R}, {O, R}, {R, R}} {
			for _, delay := range []int{2, 5} {
				for _, parts := range []int{2, 4} {
					out = append(out, directedCase{deep: &deepCase{word: w, pauseUs: 200, parts: parts, delayMs: delay, hashKeyless: true}, retry: 4, idem: true})
				}
			}
		}
	}
	// the metadata refresh that follows a refusal fails
	for _, w := range [][]int{{R}, {O, R}, {R, O, R}} {
		for _, mf := range []int{4, 8} {
			for _, idem := range []bool{false, true} {
				if (prop == "C05" && !idem) || (prop == "C18" && idem) {
					continue
				}
				out = append(out, directedCase{deep: &deepCase{word: w, pauseUs: 300, metaFailAfter: mf}, retry: 4, idem: idem})
			}
		}
	}
	// several partitions of one broker refused in one response
	for _, w := range [][]int{{O, R, R}, {O, R, R, R}, {R, R}, {O, R, O, R, R}, {O, R, R, O, R, R, R}} {
		for _, parts := range []int{2, 3} {
			for _, delay := range []int{2, 5} {
				for _, idem := range []bool{false, true} {
					if (prop == "C05" && !idem) || (prop == "C18" && idem) {
						continue
					}
					out = append(out, directedCase{deep: &deepCase{word: w, pauseUs: 150, parts: parts, delayMs: delay}, retry: 4, idem: idem})
				}
			}
		}
	}
	return out
}

func directedCases(prop, tier string) []directedCase {
	var out []directedCase
	switch prop {
	case "C01", "C02", "C05", "C18":
	default:
		return nil
	}
	out = append(out, deepCases(prop, tier)...)
	// one failing leader lookup costs 2 x (Metadata.Retry.Max+1) = 8 metadata requests (RefreshMetadata, then
	// Leader's own refresh); the third consecutive failure opens the partition's circuit breaker for 10 s
	durs := []int{9, 17, 20, 23}
	if tier == "thorough" {
		durs = []int{4, 8, 9, 12, 16, 17, 18, 19, 20, 21, 22, 23, 24, 26}
	}
	for _, d := range durs {
		for _, k := range []int{0, 2, 3} {
			for _, second := range []int{3, 5} {
				for _, retry := range []int{1, 2} {
					for _, flush := range []int{0, 2} {
						idem := prop == "C05"
						out = append(out, directedCase{nil, d, k, second, retry, idem, flush})
						if prop == "C01" && retry == 2 && flush == 0 {
							out = append(out, directedCase{nil, d, k, second, retry, true, flush})
						}
					}
				}
			}
		}
	}
	return out
}

func directedScenario(prop string, c directedCase, rng *rand.Rand) *prodScenario {
	sc := &prodScenario{Brokers: 2, Parts: 1, Topics: []string{"t"}, BaseOffset: 50, Version: sarama.V0_11_0_0, RetryMax: c.retry, Idempotent: c.idem,
		Acks: sarama.WaitForLocal, Partitioner: "manual", Submitters: 1, CloseMode: "asyncclose", ChannelBuf: -1, NoLeaderFor: c.noLeaderFor}
	if c.idem {
		sc.Acks = sarama.WaitForAll
	}
	if c.deep != nil {
		sc.NoLeaderFor = c.deep.noLeaderFor
		if c.deep.flush > 0 {
			sc.FlushMessages, sc.FlushFreq = c.deep.flush, 2*time.Millisecond
		}
		sc.Faults = append([]int(nil), c.deep.word...)
		for _, f := range sc.Faults {
			sc.FaultCodes = append(sc.FaultCodes, pickCode(f, rng))
		}
		for i, k := range c.deep.holdK {
			if k > 0 {
				sc.Steer = append(sc.Steer, steerSpec{Kind: "response-added", Nth: i + 1, K: k})
			}
		}
		if c.deep.parts > 1 {
			sc.Brokers, sc.Parts, sc.ProduceDelayMs = 1, c.deep.parts, c.deep.delayMs
		}
		if c.deep.hashKeyless {
			sc.Partitioner = "hash"
		}
		if c.deep.metaFailAfter > 0 {
			sc.Brokers, sc.MetaFailAfterRefusal = 1, c.deep.metaFailAfter
		}
		if c.deep.twoTopics {
			sc.Topics, sc.Parts = []string{"t", "t1"}, 11
			where := []struct {
				t string
				p int32
			}{{"t", 10}, {"t1", 0}, {"t", 1}, {"t1", 10}}
			for i := 0; i < 12; i++ {
				w := where[i%4]
				sc.Msgs = append(sc.Msgs, &msgSpec{ID: i, Topic: w.t, Part: w.p, N: i / 4, Value: valueFor(i, 3, rng), KeyNil: true, PauseUs: c.deep.pauseUs})
			}
			return sc
		}
		for i := 0; i < 12; i++ {
			ms := &msgSpec{ID: i, Topic: "t", Part: 0, N: i, Value: valueFor(i, 3, rng), KeyNil: true, PauseUs: c.deep.pauseUs}
			if c.deep.parts > 1 {
				ms.Part, ms.N = int32(i%c.deep.parts), i/c.deep.parts
			}
			if c.deep.hashKeyless {
				ms.Part, ms.N = -1, i
			}
			sc.Msgs = append(sc.Msgs, ms)
		}
		if prop == "C18" {
			sc.Interceptors = []icSpec{{"count"}, {"mutate"}}
		}
		return sc
	}
	if c.flush > 0 {
		sc.FlushMessages, sc.FlushFreq = c.flush, 2*time.Millisecond
	}
	word := []int{fNoLeader}
	for len(word) < c.second {
		word = append(word, fOk)
	}
	word = append(word, fRetryNoAppend, fOk, fOk, fRetryNoAppend)
	sc.Faults = word
	for _, f := range word {
		sc.FaultCodes = append(sc.FaultCodes, pickCode(f, rng))
	}
	if c.steerK > 0 {
		sc.Steer = []steerSpec{{Kind: "newhwm-fresh", Nth: 1, K: c.steerK}, {Kind: "newhwm-fresh", Nth: 2, K: 1}}
	}
	for i := 0; i < 14; i++ {
		sc.Msgs = append(sc.Msgs, &msgSpec{ID: i, Topic: "t", Part: 0, N: i, Value: valueFor(i, 3, rng), KeyNil: true, PauseUs: 2500})
	}
	if prop == "C18" {
		sc.Interceptors = []icSpec{{"count"}, {"mutate"}}
	}
	return sc
}

func randomCount(prop, tier string) int {
	q := map[string]int{"C01": 300, "C02": 400, "C04": 500, "C05": 300, "C16": 300, "C18": 300}
	t := map[string]int{"C01": 6000, "C02": 6000, "C04": 6000, "C05": 6000, "C16": 5000, "C18": 4000}
	if tier == "thorough" {
		return t[prop]
	}
	return q[prop]
}

func (e *prodEngine) Count(prop, tier string, seed int64) int {
	n := len(coreCases(prop, tier)) + len(directedCases(prop, tier)) + randomCount(prop, tier)
	if prop == "C18" {
		n += consInterceptorCases(tier) + reuseInterceptCases(tier)
	}
	n += reuseCases(prop, tier)
	return n
}

func pickCode(f int, rng *rand.Rand) sarama.KError {
	switch f {
	case fRetryNoAppend:
		return retriableNoAppend[rng.Intn(len(retriableNoAppend))]
	case fRetryAfterAppend:
		return retriableAfterAppend[rng.Intn(len(retriableAfterAppend))]
	case fFatal:
		return fatalCodes[rng.Intn(len(fatalCodes))]
	}
	return sarama.ErrNoError
}

func valueFor(id int, pad int, rng *rand.Rand) []byte {
	b := []byte(fmt.Sprintf("%d:", id))
	for i := 0; i < pad; i++ {
		b = append(b, byte('a'+rng.Intn(26)))
	}
	return b
}

// coreScenario: 2 brokers, 1 topic, 1 partition, 4 messages, one submitter.
func coreScenario(prop string, c coreCase, rng *rand.Rand) *prodScenario {
	sc := &prodScenario{Brokers: 2, Parts: 1, Topics: []string{"t"}, BaseOffset: 100, Version: sarama.V0_11_0_0, RetryMax: c.retry, Idempotent: c.idem,
		Acks: sarama.WaitForLocal, Partitioner: "manual", Submitters: 1, Faults: c.word, CloseMode: "close", ChannelBuf: -1}
	if c.idem {
		sc.Acks = sarama.WaitForAll
	}
	if (len(c.word)+c.retry)%2 == 0 {
		sc.CloseMode = "asyncclose"
	}
	// the core alternates between "each message its own request" and small batches
	if len(c.word)%2 == 1 {
		sc.FlushMessages = 2
		sc.FlushFreq = 2 * time.Millisecond
	}
	for _, f := range c.word {
		sc.FaultCodes = append(sc.FaultCodes, pickCode(f, rng))
	}
	for i := 0; i < 4; i++ {
		sc.Msgs = append(sc.Msgs, &msgSpec{ID: i, Topic: "t", Part: 0, N: i, Value: valueFor(i, 3, rng), KeyNil: true, PauseUs: 300 * (i % 2)})
	}
	if prop == "C18" {
		sc.Interceptors = []icSpec{{"count"}, {"mutate"}}
	}
	return sc
}

var prodVersions = []sarama.KafkaVersion{sarama.V0_8_2_0, sarama.V0_9_0_0, sarama.V0_10_0_0, sarama.V0_10_2_0, sarama.V0_11_0_0, sarama.V1_0_0_0, sarama.V2_1_0_0, sarama.V2_8_0_0}

func randomFaultWord(rng *rand.Rand, n int, weights []int) []int {
	total := 0
	for _, w := range weights {
		total += w
	}
	var out []int
	for i := 0; i < n; i++ {
		x := rng.Intn(total)
		for f, w := range weights {
			if x < w {
				out = append(out, f)
				break
			}
			x -= w
		}
	}
	return out
}

// randomScenario builds a seeded scenario with the weights of one property.
func randomScenario(prop string, rng *rand.Rand) *prodScenario {
	sc := &prodScenario{Topics: []string{"t"}, Partitioner: "manual", CloseMode: "close", ChannelBuf: -1, Acks: sarama.WaitForLocal}
	sc.Brokers = 1 + rng.Intn(3)
	sc.Parts = 1 + rng.Intn(4)
	if rng.Intn(4) == 0 {
		sc.Topics = []string{"t", "u"}
	}
	sc.BaseOffset = int64(rng.Intn(3)) * 1000
	sc.Version = []sarama.KafkaVersion{sarama.V0_8_2_0, sarama.V0_10_2_0, sarama.V0_11_0_0, sarama.V2_1_0_0}[rng.Intn(4)]
	sc.RetryMax = rng.Intn(4)
	switch rng.Intn(3) {
	case 0:
		sc.Acks = sarama.WaitForAll
	case 1:
		sc.Acks = sarama.WaitForLocal
	default:
		if prop == "C01" || prop == "C04" {
			if rng.Intn(3) == 0 {
				sc.Acks = sarama.NoResponse
			}
		}
	}
	switch rng.Intn(5) {
	case 1:
		sc.FlushMessages = 1 + rng.Intn(5)
		sc.FlushFreq = time.Duration(1+rng.Intn(5)) * time.Millisecond
	case 2:
		sc.FlushFreq = time.Duration(1+rng.Intn(4)) * time.Millisecond
	case 3:
		sc.FlushBytes = 50 + rng.Intn(300)
		sc.FlushFreq = 3 * time.Millisecond
	case 4:
		sc.FlushMaxMessages = 1 + rng.Intn(4)
		if rng.Intn(2) == 0 {
			sc.FlushFreq = 2 * time.Millisecond
		}
	}
	if rng.Intn(2) == 0 {
		sc.CloseMode = "asyncclose"
	}
	if prop == "C01" && rng.Intn(60) == 0 {
		// count / byte trigger without a frequency: records can stay buffered when the input ends
		sc.FlushFreq = 0
		sc.FlushMessages, sc.FlushBytes, sc.FlushMaxMessages = 3+rng.Intn(5), 0, 0
		if rng.Intn(2) == 0 {
			sc.FlushMessages, sc.FlushBytes = 0, 5000
		}
	}
	if rng.Intn(6) == 0 {
		sc.ChannelBuf = rng.Intn(2)
	}
	idemOK := sc.Version.IsAtLeast(sarama.V0_11_0_0)
	// weights per fault letter: ok, retryNoAppend, retryAfterAppend, fatal, omit, dropBefore, dropAfter, silent, leaderMove, noLeader, leaderMoveLag
	weights := []int{40, 12, 8, 5, 3, 6, 6, 2, 8, 6, 0}
	nmsg := 3 + rng.Intn(60)
	switch prop {
	case "C02":
		sc.Parts = 2 + rng.Intn(3)
		sc.Brokers = 1 + rng.Intn(2)
		if rng.Intn(3) == 0 {
			sc.RetryMax = 0
		}
		weights = []int{40, 15, 8, 3, 2, 6, 6, 1, 12, 6, 0}
	case "C05":
		sc.Idempotent = true
		weights = []int{40, 10, 14, 5, 2, 5, 10, 3, 8, 4, 0}
	case "C01", "C18":
		sc.Idempotent = idemOK && rng.Intn(3) == 0
	}
	if prop == "C05" && rng.Intn(2) == 0 {
		sc.Sequential = 1 + rng.Intn(4)
	}
	if sc.Idempotent {
		if !idemOK {
			sc.Version = sarama.V0_11_0_0
		}
		sc.Acks = sarama.WaitForAll
		if sc.RetryMax == 0 {
			sc.RetryMax = 1 + rng.Intn(3)
		}
	}
	density := []float64{0, 0.1, 0.3, 0.6}[rng.Intn(4)]
	if prop == "C05" || prop == "C02" {
		density = []float64{0.1, 0.3, 0.5}[rng.Intn(3)]
	}
	nf := int(float64(nmsg) * density * 2)
	word := randomFaultWord(rng, nf, weights)
	for i := range word {
		if rng.Float64() > density*1.5 && density < 0.5 {
			word[i] = fOk
		}
	}
	sc.Faults = word
	for _, f := range word {
		sc.FaultCodes = append(sc.FaultCodes, pickCode(f, rng))
	}
	if rng.Intn(8) == 0 {
		sc.MetaFail = 1 + rng.Intn(2)
	}
	// messages: one submitter per partition (per-partition order is then well defined)
	sc.Submitters = 1 + rng.Intn(3)
	perPart := map[string]int{}
	for i := 0; i < nmsg; i++ {
		topic := sc.Topics[rng.Intn(len(sc.Topics))]
		part := int32(rng.Intn(sc.Parts))
		key := fmt.Sprintf("%s/%d", topic, part)
		ms := &msgSpec{ID: i, Topic: topic, Part: part, N: perPart[key], Value: valueFor(i, rng.Intn(12), rng), KeyNil: true}
		perPart[key]++
		ms.Sub = (int(part) + len(topic)) % sc.Submitters
		if rng.Intn(4) == 0 {
			ms.PauseUs = rng.Intn(2500)
		}
		if rng.Intn(5) == 0 {
			ms.Key, ms.KeyNil = []byte(fmt.Sprintf("k%d", rng.Intn(5))), false
		}
		sc.Msgs = append(sc.Msgs, ms)
	}
	if sc.Sequential > 0 {
		sc.Submitters = 1
		for _, ms := range sc.Msgs {
			ms.Sub = 0
		}
		sc.Steer = nil
		if rng.Intn(2) == 0 {
			sc.FlushMessages, sc.FlushFreq, sc.FlushBytes, sc.FlushMaxMessages = sc.Sequential, 3*time.Millisecond, 0, 0
		}
	}
	// steering plans, PCT style: few change points
	if rng.Intn(2) == 0 && sc.Sequential == 0 {
		kinds := []string{"newhwm-fresh", "response-added", "flush-fresh", "bridge-overtake"}
		n := 1 + rng.Intn(2)
		for i := 0; i < n; i++ {
			sc.Steer = append(sc.Steer, steerSpec{Kind: kinds[rng.Intn(len(kinds))], Nth: 1 + rng.Intn(3), K: 1 + rng.Intn(3)})
		}
	}
	if prop == "C01" && !sc.Idempotent && sc.Version.IsAtLeast(sarama.V0_10_0_0) && len(sc.Msgs) > 2 && rng.Intn(6) == 0 {
		// one or two messages whose request cannot be encoded (a timestamp before 1970): the request
		// they travel in fails as a whole, what is buffered behind it must not be affected
		for k := 0; k < 1+rng.Intn(2); k++ {
			sc.Msgs[rng.Intn(len(sc.Msgs)-1)].Ts = time.Unix(-1000, 0)
		}
	}
	if prop == "C01" && rng.Intn(5) == 0 {
		sc.Sync = true
		sc.SyncBatch = rng.Intn(4)
		sc.Steer = nil
	}
	if prop == "C18" && rng.Intn(5) == 0 {
		// the chain behind a SyncProducer; in half of these one partition that gets messages has no leader
		sc.Sync = true
		sc.SyncBatch = rng.Intn(2) * (1 + rng.Intn(3))
		sc.Steer = nil
		if rng.Intn(2) == 0 && len(sc.Msgs) > 0 {
			ms := sc.Msgs[rng.Intn(len(sc.Msgs))]
			sc.Leaderless = map[string]bool{fmt.Sprintf("%s/%d", ms.Topic, ms.Part): true}
		}
	}
	if prop == "C18" {
		n := 1 + rng.Intn(4)
		kinds := []string{"count", "mutate", "mutate", "panic"}
		for i := 0; i < n; i++ {
			sc.Interceptors = append(sc.Interceptors, icSpec{kinds[rng.Intn(len(kinds))]})
		}
		// mutating interceptors need byte values; all our values are ByteEncoder
		// tombstones: messages without a value (the id travels in the key)
		if rng.Intn(4) == 0 && len(sc.Msgs) > 0 {
			for k := 0; k < 1+rng.Intn(3); k++ {
				ms := sc.Msgs[rng.Intn(len(sc.Msgs))]
				ms.Key, ms.KeyNil = []byte(fmt.Sprintf("%d:tomb", ms.ID)), false
				ms.Value, ms.ValNil = nil, true
			}
		}
		// messages with neither key nor value (0.11+: the id travels in a header)
		if sc.Version.IsAtLeast(sarama.V0_11_0_0) && rng.Intn(5) == 0 && len(sc.Msgs) > 0 {
			for k := 0; k < 1+rng.Intn(2); k++ {
				ms := sc.Msgs[rng.Intn(len(sc.Msgs))]
				ms.Key, ms.KeyNil, ms.Value, ms.ValNil = nil, true, nil, true
				ms.Headers = []sarama.RecordHeader{{Key: []byte("vid"), Value: []byte(fmt.Sprintf("%d:", ms.ID))}}
			}
		}
		// a third of the scenarios submit messages the producer must refuse (larger than
		// MaxMessageBytes): they too are submitted messages and pass the chain once
		if rng.Intn(3) == 0 && len(sc.Msgs) > 0 && sc.MaxMessageBytes == 0 {
			sc.MaxMessageBytes = 150
			for k := 0; k < 1+rng.Intn(2); k++ {
				ms := sc.Msgs[rng.Intn(len(sc.Msgs))]
				ms.Value = valueFor(ms.ID, 300, rng)
			}
		}
	}
	return sc
}

func (e *prodEngine) Run(prop, tier string, seed int64, idx int) proto.Rec {
	core := coreCases(prop, tier)
	var sc *prodScenario
	var id string
	if idx < len(core) {
		rng := rand.New(rand.NewSource(proto.SubSeed(0, idx, "prodcore"+prop)))
		sc = coreScenario(prop, core[idx], rng)
		id = fmt.Sprintf("%s/%s/core/%d", prop, tier, idx)
	} else if dc := directedCases(prop, tier); idx-len(core) < len(dc) {
		rng := rand.New(rand.NewSource(proto.SubSeed(0, idx, "proddirected"+prop)))
		sc = directedScenario(prop, dc[idx-len(core)], rng)
		id = fmt.Sprintf("%s/%s/directed/%d", prop, tier, idx-len(core))
	} else {
		k := idx - len(core) - len(directedCases(prop, tier))
		if prop == "C18" && k >= randomCount(prop, tier)+consInterceptorCases(tier) {
			return runReuseInterceptCase(prop, tier, seed, k-randomCount(prop, tier)-consInterceptorCases(tier), idx)
		}
		if prop == "C18" && k >= randomCount(prop, tier) {
			return runConsInterceptorCase(prop, tier, seed, k-randomCount(prop, tier), idx)
		}
		if reuseCases(prop, tier) > 0 && k >= randomCount(prop, tier) {
			return runReuseCase(prop, tier, seed, k-randomCount(prop, tier), idx)
		}
		rng := rand.New(rand.NewSource(proto.SubSeed(seed, idx, "prod"+prop)))
		switch prop {
		case "C04":
			sc = c04Scenario(rng)
		case "C16":
			sc = c16Scenario(rng)
		default:
			sc = randomScenario(prop, rng)
		}
		id = fmt.Sprintf("%s/%s/%d/%d", prop, tier, seed, idx)
	}
	rng := rand.New(rand.NewSource(proto.SubSeed(seed, idx, "prodrun")))
	res := runProd(sc, rng)
	rec := judgeProd(prop, res)
	rec.ID = id
	return rec
}
