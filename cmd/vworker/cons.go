package main

// Engine "cons": C03 (exactly-once in-order unaltered delivery), C11
// (read-committed filtering) and the consumer part of C18. The real
// PartitionConsumer reads from the simulated cluster, whose fetch answers are
// written by the independent reference writer in the framing chosen by the case.

import (
	"bytes"
	"fmt"
	"math/rand"
	"os"
	"sort"
	"strings"
	"sync"
	"sync/atomic"
	"time"

	"github.com/Shopify/sarama"

	"verifharness/internal/proto"
)

func init() { engines["cons"] = &consEngine{} }

type consEngine struct{}

// fetch-fault alphabet
const (
	ffOk         = iota
	ffRedispatch // NOT_LEADER, LEADER_NOT_AVAILABLE, UNKNOWN_TOPIC_OR_PARTITION, REPLICA_NOT_AVAILABLE
	ffOtherCode  // reported to the application, then redispatch
	ffOmitBlock  // incomplete response
	ffSilent     // no answer until the read timeout
	ffDrop       // connection closed
	ffThrottled  // throttled, empty
	ffEmpty      // valid block, no records
	ffPartial    // record set cut inside a batch
	ffLeaderMove // leadership moves to another broker
	ffOutOfRange // OFFSET_OUT_OF_RANGE: the consumer must stop
	ffNoLeader   // NOT_LEADER for one partition of the request, which then has no leader for some metadata answers (its re-dispatch fails a few times; partitions sharing the broker go on)
	nFetchFaults
)

var ffNames = []string{"ok", "redispatch-code", "other-code", "omit-block", "silent", "drop", "throttled-empty", "empty", "partial", "leader-move", "out-of-range", "no-leader"}

var redispatchCodes = []sarama.KError{sarama.ErrNotLeaderForPartition, sarama.ErrLeaderNotAvailable, sarama.ErrUnknownTopicOrPartition, sarama.ErrReplicaNotAvailable}
var otherFetchCodes = []sarama.KError{sarama.ErrRequestTimedOut, sarama.ErrBrokerNotAvailable, sarama.ErrKafkaStorageError, sarama.ErrUnknown}

type consScenario struct {
	Brokers        int
	Parts          int
	Base           int64
	Logs           [][]sarama.VRec // per partition, offsets filled at load time
	Later          [][]sarama.VRec // appended after the subscription (start = newest)
	Aborted        [][]sarama.VSimAborted
	LSO            []int64   // -1 = high watermark
	Holes          [][]int64 // per partition: offsets a log cleaner removed (never the last record of the initial log)
	Version        sarama.KafkaVersion
	Magic          int8
	Codec          int8
	BatchSizes     []int
	AlignTo        int
	MaxBatches     int
	LogAppend      bool
	StartKind      []string // oldest | newest | literal
	StartOff       []int64
	Faults         []int
	FaultCodes     []sarama.KError
	CutFrac        []float64
	Pace           string // prompt | slow | bursty
	SlowEvery      int
	ChanBuf        int
	FetchDefault   int32
	FetchMax       int32 // Consumer.Fetch.Max (0 = unlimited): the fetch size grows by doubling and is clamped to it
	HonourMax      bool
	Committed      bool // ReadCommitted
	ShuffleAborted bool
	AbortedBeyond  int64 // the aborted index reaches this far behind the records served
	Interceptors   []string // count | mutate | panic
	Transactional  bool
}

func (sc *consScenario) describe() map[string]interface{} {
	var fw []string
	for _, f := range sc.Faults {
		fw = append(fw, ffNames[f])
	}
	var sizes []int
	for _, l := range sc.Logs {
		sizes = append(sizes, len(l))
	}
	return map[string]interface{}{"brokers": sc.Brokers, "partitions": sc.Parts, "base": sc.Base, "log_sizes": sizes, "version": sc.Version.String(),
		"served_magic": sc.Magic, "codec": sc.Codec, "batch_sizes": sc.BatchSizes, "align_to": sc.AlignTo, "start_kind": sc.StartKind, "start_offset": sc.StartOff,
		"fault_word": fw, "pace": sc.Pace, "slow_every": sc.SlowEvery, "channel_buffer": sc.ChanBuf, "fetch_default": sc.FetchDefault, "honour_max_bytes": sc.HonourMax,
		"read_committed": sc.Committed, "transactional_log": sc.Transactional, "interceptors": sc.Interceptors, "lso": sc.LSO}
}

type gotMsg struct {
	Seq  int64
	Part int32
	M    *sarama.ConsumerMessage
}

type consResult struct {
	sc          *consScenario
	newErr      error
	got         [][]gotMsg
	errs        [][]string
	closedEarly []bool
	resolved    []int64 // start offset as resolved by the cluster
	fetched     []sarama.VSimFetched
	hooks       []hookEv
	stuck       bool
	stuckWho    []string
	inconcl     string
	closeOK     bool
	icCalls     map[string][]int // "part/offset" -> interceptor indices in call order
	expected    [][]sarama.VRec
	faultsUsed  int
	limit       []int64
	stalled     []bool
}

type consInterceptor struct {
	idx  int
	kind string
	mu   *sync.Mutex
	res  *consResult
}

func (ic *consInterceptor) OnConsume(m *sarama.ConsumerMessage) {
	ic.mu.Lock()
	k := fmt.Sprintf("%d/%d", m.Partition, m.Offset)
	ic.res.icCalls[k] = append(ic.res.icCalls[k], ic.idx)
	ic.mu.Unlock()
	switch ic.kind {
	case "mutate":
		m.Value = append(append([]byte{}, m.Value...), []byte(fmt.Sprintf("~c%d", ic.idx))...)
	case "panic":
		panic("scripted consumer interceptor panic")
	}
}

// visible computes the application-visible records with offset >= from.
func visible(sc *consScenario, p int, log []sarama.VRec, from int64) []sarama.VRec {
	limit := sc.Base + int64(len(log))
	if sc.Committed && sc.LSO[p] >= 0 && sc.LSO[p] < limit {
		limit = sc.LSO[p]
	}
	aborted := map[int64]bool{}
	if sc.Committed {
		for _, a := range sc.Aborted[p] {
			for _, r := range log {
				if r.PID == a.PID && r.Transactional && !r.Control && r.Offset >= a.FirstOffset && r.Offset <= a.LastOffset {
					aborted[r.Offset] = true
				}
			}
		}
	}
	holes := map[int64]bool{}
	if p < len(sc.Holes) {
		for _, o := range sc.Holes[p] {
			holes[o] = true
		}
	}
	var out []sarama.VRec
	for _, r := range log {
		if r.Offset < from || r.Offset >= limit || r.Control || aborted[r.Offset] || holes[r.Offset] {
			continue
		}
		out = append(out, r)
	}
	return out
}

func runCons(sc *consScenario, rng *rand.Rand) *consResult {
	res := &consResult{sc: sc, icCalls: map[string][]int{}}
	var mu sync.Mutex
	t0 := time.Now()
	dbg := func(what string) {
		if verbose {
			fmt.Fprintf(os.Stderr, "  [%6.1fms] %s\n", float64(time.Since(t0).Microseconds())/1000, what)
		}
	}
	sim := sarama.VNewSim(simSocketDir(), sc.Brokers)
	defer func() { dbg("sim closing"); sim.Close(); dbg("sim closed") }()
	sim.CreateTopic("t", sc.Parts, sc.Base)
	full := make([][]sarama.VRec, sc.Parts)
	for p := 0; p < sc.Parts; p++ {
		sim.Append("t", int32(p), sc.Logs[p])
		if p < len(sc.Holes) && len(sc.Holes[p]) > 0 {
			sim.SetHoles("t", int32(p), sc.Holes[p])
		}
		lg, _ := sim.Log("t", int32(p))
		full[p] = lg
		if sc.Transactional {
			sim.SetTxnIndex("t", int32(p), sc.Aborted[p], sc.LSO[p])
		}
	}
	sink := newSink()
	defer sink.retire()
	var appProgress int64
	sink.extra = func() int64 { return sim.Progress() + atomic.LoadInt64(&appProgress) }

	// leaderless windows opened by ffNoLeader, closed after a number of metadata answers
	type pendingLeader struct {
		topic  string
		part   int32
		leader int32
		after  int32
	}
	var plMu sync.Mutex
	var pendingLeaders []pendingLeader
	var metaN int32
	sim.OnMetadata = func(ctx *sarama.VSimReqCtx) sarama.VSimConnAction {
		n := atomic.AddInt32(&metaN, 1)
		plMu.Lock()
		keep := pendingLeaders[:0]
		for _, pl := range pendingLeaders {
			if n > pl.after {
				sim.SetLeader(pl.topic, pl.part, pl.leader)
			} else {
				keep = append(keep, pl)
			}
		}
		pendingLeaders = keep
		plMu.Unlock()
		return sarama.VSimConnAction{}
	}
	var fi int32
	sim.OnFetch = func(ctx *sarama.VSimFetchCtx) sarama.VSimFetchAction {
		act := sarama.VSimFetchAction{Magic: sc.Magic, Codec: sc.Codec, BatchSizes: sc.BatchSizes, AlignTo: sc.AlignTo, MaxBatches: sc.MaxBatches, PartIdx: -1, HonourMax: sc.HonourMax, LogAppend: sc.LogAppend}
		act.AbortedBeyond = sc.AbortedBeyond
		if sc.ShuffleAborted {
			act.ShuffleAborted = 7919
		}
		i := int(atomic.AddInt32(&fi, 1)) - 1
		if i >= len(sc.Faults) {
			return act
		}
		code := sarama.ErrNoError
		if i < len(sc.FaultCodes) {
			code = sc.FaultCodes[i]
		}
		switch sc.Faults[i] {
		case ffRedispatch, ffOtherCode:
			act.Kind, act.Code = sarama.VFErr, code
		case ffOutOfRange:
			act.Kind, act.Code = sarama.VFErr, sarama.ErrOffsetOutOfRange
		case ffOmitBlock:
			act.Kind = sarama.VFOmitBlock
		case ffSilent:
			act.Kind = sarama.VFSilent
		case ffDrop:
			act.Kind = sarama.VFDrop
		case ffThrottled:
			act.Kind = sarama.VFThrottledEmpty
		case ffEmpty:
			act.Kind = sarama.VFEmpty
		case ffPartial:
			// cut somewhere inside the record set: emulate by a small byte budget
			frac := 0.5
			if i < len(sc.CutFrac) {
				frac = sc.CutFrac[i]
			}
			act.CutAt = 20 + int(frac*200)
		case ffNoLeader:
			if len(ctx.Parts) > 0 {
				p := ctx.Parts[0]
				plMu.Lock()
				// one failing leader lookup costs Metadata.Retry.Max+1 = 4 metadata requests
				pendingLeaders = append(pendingLeaders, pendingLeader{p.Topic, p.Partition, ctx.Broker, atomic.LoadInt32(&metaN) + int32(5+i%7)})
				plMu.Unlock()
				sim.SetLeader(p.Topic, p.Partition, -1)
				act.Kind, act.Code, act.PartIdx = sarama.VFErr, sarama.ErrNotLeaderForPartition, 0
			}
		case ffLeaderMove:
			if sc.Brokers > 1 && len(ctx.Parts) > 0 {
				p := ctx.Parts[0]
				sim.SetLeader(p.Topic, p.Partition, ctx.Broker%int32(sc.Brokers)+1)
			}
		}
		return act
	}

	conf := sarama.NewConfig()
	conf.ClientID = "vcons"
	conf.Version = sc.Version
	sim.ConfigureNet(conf)
	conf.Consumer.Return.Errors = true
	conf.Consumer.Retry.Backoff = time.Millisecond
	conf.Metadata.Retry.Backoff = time.Millisecond
	conf.Metadata.Retry.Max = 3
	conf.Metadata.RefreshFrequency = 0
	conf.Consumer.MaxProcessingTime = 5 * time.Millisecond
	conf.Consumer.MaxWaitTime = 5 * time.Millisecond
	conf.Net.ReadTimeout = 120 * time.Millisecond
	conf.ChannelBufferSize = sc.ChanBuf
	if sc.FetchDefault > 0 {
		conf.Consumer.Fetch.Default = sc.FetchDefault
		conf.Consumer.Fetch.Max = sc.FetchMax
	}
	if sc.Committed {
		conf.Consumer.IsolationLevel = sarama.ReadCommitted
	}
	for i, k := range sc.Interceptors {
		conf.Consumer.Interceptors = append(conf.Consumer.Interceptors, &consInterceptor{idx: i, kind: k, mu: &mu, res: res})
	}
	if err := conf.Validate(); err != nil {
		res.newErr = err
		return res
	}
	cons, err := sarama.NewConsumer(sim.Addrs(), conf)
	if err != nil {
		res.newErr = err
		return res
	}
	dbg("consumer created")
	res.got = make([][]gotMsg, sc.Parts)
	res.errs = make([][]string, sc.Parts)
	res.closedEarly = make([]bool, sc.Parts)
	res.resolved = make([]int64, sc.Parts)
	res.expected = make([][]sarama.VRec, sc.Parts)
	res.limit = make([]int64, sc.Parts)
	res.stalled = make([]bool, sc.Parts)
	pcs := make([]sarama.PartitionConsumer, sc.Parts)
	var delivered int64
	var wg sync.WaitGroup
	outOfRange := false
	for _, f := range sc.Faults {
		if f == ffOutOfRange {
			outOfRange = true
		}
	}
	for p := 0; p < sc.Parts; p++ {
		start := sc.StartOff[p]
		switch sc.StartKind[p] {
		case "oldest":
			start = sarama.OffsetOldest
			res.resolved[p] = sc.Base
		case "newest":
			start = sarama.OffsetNewest
			res.resolved[p] = sc.Base + int64(len(sc.Logs[p]))
		default:
			res.resolved[p] = start
		}
		pc, err := cons.ConsumePartition("t", int32(p), start)
		if err != nil {
			res.newErr = fmt.Errorf("ConsumePartition(%d, %d): %v", p, start, err)
			cons.Close()
			return res
		}
		pcs[p] = pc
	}
	dbg("subscribed")
	// data appended after the subscription
	for p := 0; p < sc.Parts; p++ {
		if len(sc.Later[p]) > 0 {
			sim.Append("t", int32(p), sc.Later[p])
			lg, _ := sim.Log("t", int32(p))
			full[p] = lg
		}
		res.expected[p] = visible(sc, p, full[p], res.resolved[p])
		res.limit[p] = sc.Base + int64(len(full[p]))
		if sc.Committed && sc.LSO[p] >= 0 && sc.LSO[p] < res.limit[p] {
			res.limit[p] = sc.LSO[p]
		}
	}
	readersDone := make(chan struct{})
	stop := make(chan struct{})
	for p := 0; p < sc.Parts; p++ {
		wg.Add(2)
		prng := rand.New(rand.NewSource(rng.Int63()))
		go func(p int, pc sarama.PartitionConsumer) {
			defer wg.Done()
			n := 0
			for {
				select {
				case m, ok := <-pc.Messages():
					if !ok {
						mu.Lock()
						res.closedEarly[p] = true
						mu.Unlock()
						return
					}
					mu.Lock()
					res.got[p] = append(res.got[p], gotMsg{Seq: sarama.VerifNextSeq(), Part: int32(p), M: m})
					mu.Unlock()
					atomic.AddInt64(&delivered, 1)
					atomic.AddInt64(&appProgress, 1)
					n++
					switch sc.Pace {
					case "slow":
						if sc.SlowEvery > 0 && n%sc.SlowEvery == 0 {
							time.Sleep(13 * time.Millisecond) // > 2 x MaxProcessingTime
						}
					case "bursty":
						if n%7 == 0 {
							time.Sleep(time.Duration(prng.Intn(9)) * time.Millisecond)
						}
					}
				case <-stop:
					return
				}
			}
		}(p, pcs[p])
		go func(p int, pc sarama.PartitionConsumer) {
			defer wg.Done()
			for {
				select {
				case e, ok := <-pc.Errors():
					if !ok {
						return
					}
					mu.Lock()
					res.errs[p] = append(res.errs[p], e.Err.Error())
					mu.Unlock()
					atomic.AddInt64(&appProgress, 1)
				case <-stop:
					return
				}
			}
		}(p, pcs[p])
	}
	go func() { wg.Wait(); close(readersDone) }()

	// wait until everything expected was delivered (or every channel was closed)
	allDone := make(chan struct{})
	lastGot := make([]int, sc.Parts)
	okAtLast := make([]int64, sc.Parts)
	for p := range okAtLast {
		lastGot[p], okAtLast[p] = -1, -1
	}
	go func() {
		for {
			if atomic.LoadInt32(&sink.dead) != 0 {
				close(allDone)
				return
			}
			mu.Lock()
			fin := 0
			for p := range res.got {
				if res.closedEarly[p] || len(res.got[p]) >= len(res.expected[p]) {
					fin++
					continue
				}
				// bounded progress in logical steps: with the fault word exhausted, 300
				// error-free fetch answers for the partition without a single new delivery
				if n := len(res.got[p]); n != lastGot[p] {
					lastGot[p], okAtLast[p] = n, -1
				} else if int(atomic.LoadInt32(&fi)) >= len(sc.Faults) {
					ok := sim.OKFetches("t", int32(p))
					if okAtLast[p] < 0 {
						okAtLast[p] = ok
					} else if ok-okAtLast[p] >= 300 {
						res.stalled[p] = true
						fin++
					}
				}
			}
			mu.Unlock()
			if fin == sc.Parts {
				close(allDone)
				return
			}
			time.Sleep(300 * time.Microsecond)
		}
	}()
	ok, stuck := waitQuiescent(allDone, sink, 10*time.Second, 60*time.Second)
	dbg("delivery done")
	if !ok {
		if stuck {
			res.stuck = true
			res.stuckWho = parkedSaramaGoroutines()
		} else {
			res.inconcl = "delivery still progressing after 60 s"
		}
	}
	// grace: nothing more may arrive, and the consumer should move past trailing invisible records
	if ok {
		last, lastMove, start := atomic.LoadInt64(&delivered), time.Now(), time.Now()
		for time.Since(lastMove) < 40*time.Millisecond && time.Since(start) < 2*time.Second {
			time.Sleep(2 * time.Millisecond)
			if d := atomic.LoadInt64(&delivered); d != last {
				last, lastMove = d, time.Now()
			}
		}
	}
	_ = outOfRange
	dbg("grace done")
	// close: partition consumers first, then the consumer
	closeDone := make(chan struct{})
	go func() {
		defer close(closeDone)
		for _, pc := range pcs {
			pc.AsyncClose()
		}
		<-readersDone
		cons.Close()
	}()
	okc, stuckc := waitQuiescent(closeDone, sink, 10*time.Second, 40*time.Second)
	res.closeOK = okc
	dbg("closed")
	if !okc {
		close(stop)
		if stuckc && !res.stuck {
			res.stuck = true
			res.stuckWho = append([]string{"close"}, parkedSaramaGoroutines()...)
		}
	}
	sink.retire()
	res.hooks = sink.snapshot()
	res.fetched = sim.Fetched()
	res.faultsUsed = int(atomic.LoadInt32(&fi))
	if res.faultsUsed > len(sc.Faults) {
		res.faultsUsed = len(sc.Faults)
	}
	mu.Lock()
	out := *res
	out.got = make([][]gotMsg, sc.Parts)
	for p := range res.got {
		out.got[p] = append([]gotMsg(nil), res.got[p]...)
	}
	mu.Unlock()
	return &out
}

// expectedFields: how a stored record looks to the application when it was served with `magic`.
func expectTs(sc *consScenario, r sarama.VRec, batchMax int64) (int64, bool) {
	switch sc.Magic {
	case 0:
		if r.Transactional || r.PID >= 0 {
			return r.TsMs, true // served as magic 2 regardless
		}
		return 0, false // no timestamp: zero time
	default:
		if sc.LogAppend {
			return batchMax, true
		}
		return r.TsMs, true
	}
}

func judgeCons(prop string, res *consResult) proto.Rec {
	rec := proto.Rec{Obs: map[string]int64{}}
	sc := res.sc
	var vs violSet
	if res.newErr != nil {
		rec.Verdict, rec.Why = "inconclusive", "consumer not created: "+res.newErr.Error()
		return rec
	}
	format := fmt.Sprintf("magic%d,codec%d,%s", sc.Magic, sc.Codec, fetchVersionClass(sc.Version))
	slowTaken := false
	for _, ev := range res.hooks {
		rec.Obs["hook:"+ev.Point]++
		if ev.Point == "pc.expired" {
			slowTaken = true
		}
	}
	rec.Obs["fetch_blocks"] = int64(len(res.fetched))
	rec.Obs["faults_consumed"] = int64(res.faultsUsed)
	faultClasses := map[string]bool{}
	for i := 0; i < res.faultsUsed; i++ {
		if sc.Faults[i] != ffOk {
			faultClasses[ffNames[sc.Faults[i]]] = true
		}
	}
	beforeStart, partial := false, false
	for _, f := range res.fetched {
		if f.FirstServed >= 0 && f.FirstServed < f.Offset {
			beforeStart = true
		}
		if f.Partial {
			partial = true
		}
	}
	stopped := false
	for i := 0; i < res.faultsUsed; i++ {
		if sc.Faults[i] == ffOutOfRange {
			stopped = true
		}
	}
	attr := func(extra string) string {
		a := format
		if slowTaken {
			a += ",slow-path"
		}
		if extra != "" {
			a += "," + extra
		}
		return a
	}
	for p := 0; p < sc.Parts; p++ {
		exp := res.expected[p]
		got := res.got[p]
		rec.Obs["delivered"] += int64(len(got))
		rec.Obs["expected"] += int64(len(exp))
		if p < len(sc.Holes) {
			rec.Obs["records_removed_by_compaction"] += int64(len(sc.Holes[p]))
		}
		// batch max timestamps for LogAppendTime expectations are not modelled: LogAppend cases compare against the served batch (skip ts)
		for i, g := range got {
			if i >= len(exp) {
				kind := "extra"
				if i > 0 && g.M.Offset <= got[i-1].M.Offset {
					kind = "duplicate"
				}
				vs.add(kind, attr(""), fmt.Sprintf("partition %d: message #%d with offset %d was delivered after the %d expected records (previous offset %d)", p, i, g.M.Offset, len(exp), prevOff(got, i)))
				break
			}
			e := exp[i]
			if g.M.Offset != e.Offset {
				kind := "gap"
				switch {
				case i > 0 && g.M.Offset == got[i-1].M.Offset:
					kind = "duplicate"
				case i > 0 && g.M.Offset < got[i-1].M.Offset:
					kind = "reorder"
				case g.M.Offset < res.resolved[p]:
					kind = "below-start"
				case g.M.Offset < e.Offset:
					kind = classifyUnexpected(sc, p, g.M.Offset, res)
				}
				if kind == "gap" && sc.Transactional {
					kind = "committed-missing"
				}
				vs.add(kind, attr(""), fmt.Sprintf("partition %d: delivered message #%d has offset %d, expected offset %d (start %d, previous delivered %d)", p, i, g.M.Offset, e.Offset, res.resolved[p], prevOff(got, i)))
				break
			}
			wantVal := e.Value
			for ii, k := range sc.Interceptors {
				if k == "mutate" {
					wantVal = append(append([]byte{}, wantVal...), []byte(fmt.Sprintf("~c%d", ii))...)
				}
			}
			if prop != "C18" && !bytes.Equal(g.M.Value, wantVal) {
				vs.add("altered", attr("value"), fmt.Sprintf("partition %d offset %d: value %q, log has %q", p, e.Offset, trunc(g.M.Value), trunc(e.Value)))
			}
			if !bytes.Equal(g.M.Key, e.Key) {
				vs.add("altered", attr("key"), fmt.Sprintf("partition %d offset %d: key %q, log has %q", p, e.Offset, trunc(g.M.Key), trunc(e.Key)))
			}
			servedMagic2 := sc.Magic == 2 || e.Transactional || e.PID >= 0
			if servedMagic2 {
				if len(g.M.Headers) != len(e.Headers) {
					vs.add("altered", attr("headers"), fmt.Sprintf("partition %d offset %d: %d headers, log has %d", p, e.Offset, len(g.M.Headers), len(e.Headers)))
				} else {
					for h := range e.Headers {
						if !bytes.Equal(g.M.Headers[h].Key, e.Headers[h].Key) || !bytes.Equal(g.M.Headers[h].Value, e.Headers[h].Value) {
							vs.add("altered", attr("headers"), fmt.Sprintf("partition %d offset %d: header %d differs", p, e.Offset, h))
						}
					}
				}
			}
			if !sc.LogAppend {
				if want, has := expectTs(sc, e, 0); has {
					if gotMs := g.M.Timestamp.UnixNano() / 1e6; gotMs != want {
						vs.add("altered", attr("timestamp"), fmt.Sprintf("partition %d offset %d: timestamp %d ms, log has %d ms", p, e.Offset, gotMs, want))
					}
				} else if !g.M.Timestamp.IsZero() {
					vs.add("altered", attr("timestamp"), fmt.Sprintf("partition %d offset %d: served as magic 0 (no timestamp) but delivered timestamp %v", p, e.Offset, g.M.Timestamp))
				}
			}
			if g.M.Topic != "t" || g.M.Partition != int32(p) {
				vs.add("altered", attr("topic-partition"), fmt.Sprintf("message of t/%d delivered as %s/%d", p, g.M.Topic, g.M.Partition))
			}
		}
		// bounded progress: after the fault word is exhausted delivery must reach the log end
		if len(got) < len(exp) && len(vs.list) == 0 {
			switch {
			case stopped || res.closedEarly[p] && stopped:
				// OFFSET_OUT_OF_RANGE stops the consumer by design; only the prefix is demanded
			case res.stuck || res.stalled[p]:
				lastF := "none"
				for _, f := range res.fetched {
					if int(f.Partition) == p {
						lastF = fmt.Sprintf("offset=%d,action=%d,code=%d", f.Offset, f.Action, f.Code)
					}
				}
				var fc []string
				for k := range faultClasses {
					fc = append(fc, k)
				}
				sort.Strings(fc)
				how := "nothing moved any more"
				if res.stalled[p] {
					how = "300 further error-free fetch answers brought no delivery"
				}
				vs.add("stalled", attr("after="+strings.Join(fc, "+")), fmt.Sprintf("partition %d: %d of %d expected records delivered, then "+how+" although the fault word was exhausted (%d of %d faults consumed); last fetch %s; parked: %s", p, len(got), len(exp), res.faultsUsed, len(sc.Faults), lastF, strings.Join(res.stuckWho, "; ")))
			case res.closedEarly[p]:
				vs.add("closed-early", attr(""), fmt.Sprintf("partition %d: Messages() was closed after %d of %d expected records without an out-of-range answer", p, len(got), len(exp)))
			default:
				if rec.Verdict == "" {
					rec.Verdict, rec.Why = "inconclusive", "delivery incomplete but still progressing"
				}
			}
		}
		// error events must be of the classes the fault word injected
		for _, e := range res.errs[p] {
			rec.Obs["error_events"]++
			if len(faultClasses) == 0 {
				if strings.Contains(e, "i/o timeout") {
					// the simulated broker answered later than Net.ReadTimeout: machine load, not a verdict
					if rec.Verdict == "" {
						rec.Verdict, rec.Why = "inconclusive", "read timeout without an injected silence (load)"
					}
					continue
				}
				vs.add("spurious-error", attr(""), fmt.Sprintf("partition %d: error event %q although no fault was injected", p, e))
			}
		}
	}
	if prop == "C11" {
		oracleC11(res, &vs, attr)
	}
	if prop == "C18" {
		oracleC18cons(res, &vs, slowTaken)
	}
	nfetch := 0
	for _, f := range res.fetched {
		if f.Action == sarama.VFOk {
			nfetch++
		}
	}
	switch prop {
	case "C03":
		rec.NonTrivial = nfetch >= 2 && (len(faultClasses) > 0 || beforeStart || partial || slowTaken)
	case "C11":
		rec.NonTrivial = c11NonTrivial(res)
	case "C18":
		rec.NonTrivial = slowTaken || len(sc.Interceptors) > 1
	}
	var fc []string
	for k := range faultClasses {
		fc = append(fc, k)
	}
	sort.Strings(fc)
	rec.Path = fmt.Sprintf("%s|start=%s|faults=%s|before=%v|partial=%v|slow=%v|buf=%d|parts=%d|rc=%v|txn=%v|ic=%d", format, strings.Join(sc.StartKind, ","), strings.Join(fc, "+"), beforeStart, partial, slowTaken, sc.ChanBuf, sc.Parts, sc.Committed, sc.Transactional, len(sc.Interceptors))
	if res.inconcl != "" && rec.Verdict == "" {
		rec.Verdict, rec.Why = "inconclusive", res.inconcl
	}
	rec.Viols = vs.list
	s := sc.describe()
	var fl []string
	for i, f := range res.fetched {
		if i >= 40 {
			break
		}
		fl = append(fl, fmt.Sprintf("%d b%d p%d v%d off=%d action=%d code=%d served=[%d..%d] batches=%d partial=%v bytes=%d hwm=%d lso=%d aborted=%v", f.Seq, f.Broker, f.Partition, f.Version, f.Offset, f.Action, f.Code, f.FirstServed, f.LastServed, f.Batches, f.Partial, f.SetBytes, f.HWM, f.LSO, f.Aborted))
	}
	s["fetches"] = fl
	var dl []string
	for p := range res.got {
		var offs []int64
		for i, g := range res.got[p] {
			if i >= 40 {
				break
			}
			offs = append(offs, g.M.Offset)
		}
		dl = append(dl, fmt.Sprintf("p%d delivered=%v expected=%d errors=%v", p, offs, len(res.expected[p]), res.errs[p]))
	}
	s["delivered"] = dl
	s["resolved_start"] = res.resolved
	rec.Sample = s
	return rec
}

func prevOff(got []gotMsg, i int) int64 {
	if i == 0 {
		return -1
	}
	return got[i-1].M.Offset
}

func trunc(b []byte) []byte {
	if len(b) > 40 {
		return b[:40]
	}
	return b
}

func fetchVersionClass(v sarama.KafkaVersion) string {
	switch {
	case v.IsAtLeast(sarama.V2_3_0_0):
		return "fetch11"
	case v.IsAtLeast(sarama.V2_1_0_0):
		return "fetch10"
	case v.IsAtLeast(sarama.V1_1_0_0):
		return "fetch7"
	case v.IsAtLeast(sarama.V0_11_0_0):
		return "fetch4"
	case v.IsAtLeast(sarama.V0_10_1_0):
		return "fetch3"
	case v.IsAtLeast(sarama.V0_10_0_0):
		return "fetch2"
	case v.IsAtLeast(sarama.V0_9_0_0):
		return "fetch1"
	}
	return "fetch0"
}

// classifyUnexpected names a delivered offset that is not the expected one:
// control record, record of an aborted transaction, or beyond the stable offset.
func classifyUnexpected(sc *consScenario, p int, off int64, res *consResult) string {
	i := off - sc.Base
	all := append(append([]sarama.VRec{}, sc.Logs[p]...), sc.Later[p]...)
	if i >= 0 && int(i) < len(all) {
		r := all[i]
		switch {
		case r.Control:
			return "control-delivered"
		case r.Transactional:
			return "aborted-delivered"
		}
	}
	return "unexpected-offset"
}

// ---------------------------------------------------------------- generators

var quickFetchVersions = []sarama.KafkaVersion{sarama.V0_8_2_0, sarama.V0_9_0_0, sarama.V0_10_0_0, sarama.V0_10_1_0, sarama.V0_11_0_0, sarama.V1_1_0_0, sarama.V2_1_0_0, sarama.V2_8_0_0}

func genPlainLog(rng *rand.Rand, n int, id0 int) []sarama.VRec {
	var out []sarama.VRec
	for i := 0; i < n; i++ {
		r := sarama.VRec{PID: -1, Epoch: -1, Seq: -1, TsMs: 1500000000000 + int64(id0+i)*7}
		switch rng.Intn(8) {
		case 0:
			r.Key = nil
		case 1:
			r.Key = []byte{}
		default:
			r.Key = []byte(fmt.Sprintf("k%d", id0+i))
		}
		switch rng.Intn(10) {
		case 0:
			r.Value = nil
		case 1:
			r.Value = []byte{}
		case 2:
			r.Value = randBytes(rng, 300+rng.Intn(1500))
		default:
			r.Value = []byte(fmt.Sprintf("v%d-%s", id0+i, randBytes(rng, rng.Intn(20))))
		}
		if rng.Intn(4) == 0 {
			nh := 1 + rng.Intn(3)
			for h := 0; h < nh; h++ {
				r.Headers = append(r.Headers, sarama.VHeader{Key: randBytes(rng, 1+rng.Intn(5)), Value: randBytes(rng, rng.Intn(9))})
			}
		}
		out = append(out, r)
	}
	return out
}

func consScenarioFor(prop, tier string, rng *rand.Rand) *consScenario {
	sc := &consScenario{Brokers: 1 + rng.Intn(2), Parts: 1, Base: int64(rng.Intn(3)) * 1000}
	if rng.Intn(4) == 0 {
		sc.Parts = 2 + rng.Intn(2)
	}
	versions := quickFetchVersions
	if tier == "thorough" {
		versions = sarama.SupportedVersions
	}
	sc.Version = versions[rng.Intn(len(versions))]
	if prop == "C11" {
		v := []sarama.KafkaVersion{sarama.V0_11_0_0, sarama.V1_0_0_0, sarama.V1_1_0_0, sarama.V2_0_0_0, sarama.V2_1_0_0, sarama.V2_3_0_0, sarama.V2_8_0_0}
		sc.Version = v[rng.Intn(len(v))]
	}
	// the format a broker of that version can serve
	switch {
	case sc.Version.IsAtLeast(sarama.V0_11_0_0):
		sc.Magic = int8(rng.Intn(3))
		if rng.Intn(2) == 0 {
			sc.Magic = 2
		}
	case sc.Version.IsAtLeast(sarama.V0_10_0_0):
		sc.Magic = int8(rng.Intn(2))
	default:
		sc.Magic = 0
	}
	if prop == "C11" {
		sc.Magic = 2
	}
	codecs := []int8{0, 0, 1, 2}
	if sc.Magic >= 1 {
		codecs = append(codecs, 3)
	}
	if sc.Magic == 2 && sc.Version.IsAtLeast(sarama.V2_1_0_0) {
		codecs = append(codecs, 4)
	}
	sc.Codec = codecs[rng.Intn(len(codecs))]
	switch rng.Intn(3) {
	case 0:
		sc.AlignTo = 1 + rng.Intn(8)
	case 1:
		sc.BatchSizes = []int{1 + rng.Intn(50)}
	default:
		for i := 0; i < 1+rng.Intn(4); i++ {
			sc.BatchSizes = append(sc.BatchSizes, 1+rng.Intn(12))
		}
	}
	sc.MaxBatches = 1 + rng.Intn(4)
	sc.LogAppend = sc.Magic >= 1 && rng.Intn(8) == 0
	sc.ChanBuf = []int{0, 1, 256}[rng.Intn(3)]
	sc.Pace = []string{"prompt", "prompt", "slow", "bursty"}[rng.Intn(4)]
	sc.SlowEvery = 2 + rng.Intn(9)
	if rng.Intn(3) == 0 {
		sc.FetchDefault = int32(64 << uint(rng.Intn(7))) // 64 B … 4 KiB
		sc.HonourMax = true
	}
	compacted := rng.Intn(4) == 0
	for p := 0; p < sc.Parts; p++ {
		n := rng.Intn(120)
		if rng.Intn(10) == 0 {
			n = rng.Intn(400)
		}
		var lg []sarama.VRec
		var ab []sarama.VSimAborted
		lso := int64(-1)
		if prop == "C11" {
			lg, ab, lso = genTxnLog(rng, sc.Base, n)
		} else {
			lg = genPlainLog(rng, n, p*1000)
		}
		for i := range lg {
			lg[i].Offset = sc.Base + int64(i)
		}
		// a compacted partition: a third of the records (never the last one) are gone
		var holes []int64
		if prop != "C11" && compacted {
			for i := 0; i+1 < len(lg); i++ {
				if rng.Intn(3) == 0 {
					holes = append(holes, lg[i].Offset)
				}
			}
		}
		sc.Holes = append(sc.Holes, holes)
		sc.Logs = append(sc.Logs, lg)
		sc.Aborted = append(sc.Aborted, ab)
		sc.LSO = append(sc.LSO, lso)
		var later []sarama.VRec
		kind := []string{"oldest", "literal", "literal", "newest"}[rng.Intn(4)]
		off := int64(0)
		switch kind {
		case "literal":
			off = sc.Base + int64(rng.Intn(len(lg)+1))
		case "newest":
			if prop != "C11" {
				later = genPlainLog(rng, 1+rng.Intn(30), p*1000+500)
			} else {
				kind = "oldest"
			}
		}
		if len(lg) == 0 && kind == "literal" {
			off = sc.Base
		}
		sc.StartKind = append(sc.StartKind, kind)
		sc.StartOff = append(sc.StartOff, off)
		sc.Later = append(sc.Later, later)
	}
	if prop == "C11" {
		sc.Transactional = true
		sc.Committed = rng.Intn(4) != 0
		sc.ShuffleAborted = rng.Intn(2) == 0
		sc.AbortedBeyond = []int64{0, 0, 3, 10, 1000}[rng.Intn(5)]
	}
	// fault word
	density := []float64{0, 0.1, 0.3}[rng.Intn(3)]
	nf := 0
	if density > 0 {
		nf = 2 + rng.Intn(25)
	}
	weights := []int{0, 14, 8, 5, 2, 7, 5, 6, 10, 8, 1, 6}
	for i := 0; i < nf; i++ {
		f := ffOk
		if rng.Float64() < density*2 {
			x := rng.Intn(72)
			for k, w := range weights {
				if x < w {
					f = k
					break
				}
				x -= w
			}
		}
		if f == ffLeaderMove && sc.Brokers < 2 {
			f = ffRedispatch
		}
		sc.Faults = append(sc.Faults, f)
		code := sarama.ErrNoError
		switch f {
		case ffRedispatch:
			code = redispatchCodes[rng.Intn(len(redispatchCodes))]
		case ffOtherCode:
			code = otherFetchCodes[rng.Intn(len(otherFetchCodes))]
		}
		sc.FaultCodes = append(sc.FaultCodes, code)
		sc.CutFrac = append(sc.CutFrac, rng.Float64())
	}
	if prop == "C18" {
		n := 1 + rng.Intn(3)
		kinds := []string{"count", "mutate", "mutate", "panic"}
		for i := 0; i < n; i++ {
			sc.Interceptors = append(sc.Interceptors, kinds[rng.Intn(len(kinds))])
		}
		if rng.Intn(3) != 0 {
			sc.Pace = "slow"
			sc.SlowEvery = 1 + rng.Intn(4)
		}
	}
	return sc
}

func consCount(prop, tier string) int {
	q := map[string]int{"C03": 400, "C11": 300}
	t := map[string]int{"C03": 8000, "C11": 6000}
	if tier == "thorough" {
		return t[prop]
	}
	return q[prop]
}

func (e *consEngine) Count(prop, tier string, seed int64) int {
	return consCount(prop, tier) + consCoreCount(prop, tier)
}

func (e *consEngine) Run(prop, tier string, seed int64, idx int) proto.Rec {
	var sc *consScenario
	id := fmt.Sprintf("%s/%s/%d/%d", prop, tier, seed, idx)
	if idx < consCoreCount(prop, tier) {
		sc = consCoreScenario(prop, tier, idx)
		id = fmt.Sprintf("%s/%s/core/%d", prop, tier, idx)
	} else {
		rng := rand.New(rand.NewSource(proto.SubSeed(seed, idx, "cons"+prop)))
		sc = consScenarioFor(prop, tier, rng)
	}
	rng := rand.New(rand.NewSource(proto.SubSeed(seed, idx, "consrun")))
	res := runCons(sc, rng)
	rec := judgeCons(prop, res)
	rec.ID = id
	return rec
}

// ---------------------------------------------------------------- C18 consumer part

func consInterceptorCases(tier string) int {
	if tier == "thorough" {
		return 3000
	}
	return 200
}

func runConsInterceptorCase(prop, tier string, seed int64, k, idx int) proto.Rec {
	rng := rand.New(rand.NewSource(proto.SubSeed(seed, idx, "consC18")))
	sc := consScenarioFor("C18", tier, rng)
	res := runCons(sc, rand.New(rand.NewSource(proto.SubSeed(seed, idx, "consrun"))))
	rec := judgeCons("C18", res)
	rec.ID = fmt.Sprintf("C18/%s/%d/%d:consumer", tier, seed, idx)
	return rec
}

func oracleC18cons(res *consResult, vs *violSet, slowTaken bool) {
	sc := res.sc
	n := len(sc.Interceptors)
	slow := "prompt-path"
	if slowTaken {
		slow = "slow-path"
	}
	for p := range res.got {
		for _, g := range res.got[p] {
			k := fmt.Sprintf("%d/%d", g.M.Partition, g.M.Offset)
			calls := res.icCalls[k]
			per := make([]int, n)
			for _, c := range calls {
				per[c]++
			}
			for i, c := range per {
				if c != 1 {
					vs.add("consumer-not-once", fmt.Sprintf("%s,%s", countClass(c), slow), fmt.Sprintf("partition %d offset %d: interceptor #%d (%s) was invoked %d times before delivery", p, g.M.Offset, i, sc.Interceptors[i], c))
					break
				}
			}
			if len(calls) >= n && n > 1 {
				for i := 0; i < n; i++ {
					if calls[i] != i {
						vs.add("order", "consumer", fmt.Sprintf("partition %d offset %d: interceptors ran in order %v", p, g.M.Offset, calls))
						break
					}
				}
			}
			for i, kind := range sc.Interceptors {
				if kind == "mutate" {
					if c := bytes.Count(g.M.Value, []byte(fmt.Sprintf("~c%d", i))); c != 1 {
						vs.add("consumer-not-once", fmt.Sprintf("%s,%s,on-delivery", countClass(c), slow), fmt.Sprintf("partition %d offset %d: delivered value carries %d applications of mutating interceptor #%d", p, g.M.Offset, c, i))
					}
				}
				if kind == "panic" {
					for j := i + 1; j < n; j++ {
						if per[j] == 0 {
							vs.add("chain-broken-by-panic", "consumer", fmt.Sprintf("partition %d offset %d: interceptor #%d panicked and #%d never ran", p, g.M.Offset, i, j))
						}
					}
				}
			}
		}
	}
}
