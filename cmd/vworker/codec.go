package main

// Engine "codec": C09 (wire round-trip). The oracle, the filler and the
// reference reader live inside package sarama (overlay/sarama/codec*.go); this
// file maps one subject (protocol body or record format, all its versions) to
// one case and turns the result into a journal record.

import (
	"fmt"
	"os"
	"runtime/pprof"
	"sort"
	"strings"

	"github.com/Shopify/sarama"

	"verifharness/internal/proto"
)

func init() { engines["codec"] = &codecEngine{} }

type codecEngine struct{}

func (e *codecEngine) Count(prop, tier string, seed int64) int {
	return len(sarama.VerifCodecBodies())
}

func codecValuesPerPair(tier string) int {
	if tier == "thorough" {
		return 2000
	}
	return 40
}

func (e *codecEngine) Run(prop, tier string, seed int64, idx int) proto.Rec {
	names := sarama.VerifCodecBodies()
	rec := proto.Rec{ID: fmt.Sprintf("%s/%s/%d/%d:%s", prop, tier, seed, idx, names[idx])}
	if pf := os.Getenv("VERIF_CODEC_PROF"); pf != "" {
		if f, err := os.Create(pf); err == nil {
			pprof.StartCPUProfile(f)
			defer pprof.StopCPUProfile()
		}
	}
	res := sarama.VerifCodecRun(proto.SubSeed(seed, idx, "codec"), idx, codecValuesPerPair(tier))
	rec.Evals = res.Evals
	rec.Paths = res.Paths
	rec.NonTrivial = len(res.Paths) > 0
	if len(res.Paths) > 0 {
		rec.Path = res.Paths[0]
	}
	rec.Obs = res.Obs
	for _, v := range res.Viols {
		msg := v.Msg
		if v.Count > 1 {
			msg = fmt.Sprintf("[%d values of this case] %s", v.Count, msg)
		}
		rec.Viols = append(rec.Viols, proto.Viol{Kind: v.Kind, Attr: v.Attr, Msg: msg})
	}
	rec.Sample = res.Sample
	if rec.Sample == nil {
		rec.Sample = map[string]interface{}{"body": res.Body}
	}
	pairs := []string{}
	for _, p := range res.Pairs {
		pairs = append(pairs, fmt.Sprintf("v%d:%d/%d", p.Version, p.EncodeOK, p.Values))
	}
	rec.Sample["encoded_per_version"] = strings.Join(pairs, " ")
	if len(res.EncErrs) > 0 {
		keys := make([]string, 0, len(res.EncErrs))
		for k := range res.EncErrs {
			keys = append(keys, k)
		}
		sort.Strings(keys)
		if len(keys) > 12 {
			keys = keys[:12]
		}
		ee := map[string]interface{}{}
		for _, k := range keys {
			ee[k] = res.EncErrs[k]
		}
		rec.Sample["encode_errors"] = ee
	}
	if len(res.ZeroEnc) > 0 {
		// no value of these (body, version) pairs could be encoded: the domain table
		// needs fixing; nothing was judged for them
		for _, z := range res.ZeroEnc {
			rec.Obs["zero_encode:"+z] = 1
		}
		if len(rec.Viols) == 0 {
			rec.Verdict = "inconclusive"
			rec.Why = "no generated value could be encoded for " + strings.Join(res.ZeroEnc, ", ")
		}
	}
	if verbose {
		fmt.Printf("%-40s evals=%d paths=%d viols=%d %s\n", names[idx], res.Evals, len(res.Paths), len(res.Viols), strings.Join(pairs, " "))
		for k, n := range res.EncErrs {
			fmt.Printf("    encode error x%d: %s\n", n, k)
		}
		for _, v := range res.Viols {
			fmt.Printf("    VIOL %s | %s | x%d | %s\n", v.Kind, v.Attr, v.Count, v.Msg)
		}
	}
	return rec
}
