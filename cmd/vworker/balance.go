package main

// Engine "balance": C08 (validity of every plan) and C13 (balance / stickiness).
// Direct calls of BalanceStrategy.Plan on enumerated and generated groups; the
// oracles are written against the property statements, not the algorithms.

import (
	"encoding/binary"
	"encoding/hex"
	"fmt"
	"math/rand"
	"sort"
	"strings"
	"sync"
	"sync/atomic"
	"time"

	"github.com/Shopify/sarama"

	"verifharness/internal/proto"
)

func init() { engines["balance"] = &balanceEngine{} }

type balanceEngine struct{}

type balCase struct {
	kind   string // exh | prior | random | chain
	strat  string
	m, t   int
	maxP   int
	naming int
	n      int // number of random inputs / chains
	subIdx int
}

func balCases(tier string) []balCase {
	var cs []balCase
	strats := []string{"range", "roundrobin", "sticky"}
	maxM, maxT, maxP := 3, 2, 3
	if tier == "thorough" {
		maxM, maxT, maxP = 4, 3, 4
	}
	for _, s := range strats {
		for naming := 0; naming < 3; naming++ {
			for m := 1; m <= maxM; m++ {
				for t := 1; t <= maxT; t++ {
					cs = append(cs, balCase{kind: "exh", strat: s, m: m, t: t, maxP: maxP, naming: naming})
				}
			}
		}
	}
	// quick also covers one larger exhaustive block per strategy
	if tier == "quick" {
		for _, s := range strats {
			cs = append(cs, balCase{kind: "exh", strat: s, m: 4, t: 2, maxP: 3, naming: 0})
		}
	}
	// sticky with every prior user-data over small bounds
	pm, pt := 2, 2
	if tier == "thorough" {
		pm = 3
	}
	for m := 1; m <= pm; m++ {
		for t := 1; t <= pt; t++ {
			nsub := ipow((1<<uint(t))-1, m)
			for si := 0; si < nsub; si++ {
				cs = append(cs, balCase{kind: "prior", strat: "sticky", m: m, t: t, maxP: 2, subIdx: si})
			}
		}
	}
	nr, nc := 20, 20 // x100 inputs, x10 chains
	if tier == "thorough" {
		nr, nc = 1000, 500
	}
	for i := 0; i < nr; i++ {
		cs = append(cs, balCase{kind: "random", n: 100})
	}
	for i := 0; i < nc; i++ {
		cs = append(cs, balCase{kind: "chain", n: 10})
	}
	for i := range directedGroups {
		cs = append(cs, balCase{kind: "directed", strat: directedGroups[i].strat, subIdx: i, n: 40})
	}
	// one topic, identical subscriptions, every member count x partition count of a grid (boundary arithmetic)
	for _, st := range strats {
		cs = append(cs, balCase{kind: "sweep", strat: st})
	}
	// subscription lists as sequences (a topic may be named twice), 2 members x 2 topics, lists of length 1-3
	for _, st := range strats {
		cs = append(cs, balCase{kind: "duplists", strat: st})
	}
	// sticky, generation conflicts: a member that missed a rebalance still claims (with an older
	// generation) partitions another member owns now, under every subscription pattern of 3 members x 2 topics
	cs = append(cs, balCase{kind: "conflict", strat: "sticky", m: 3, t: 2})
	// sticky, one step from a settled plan: 3 members x 3 topics, every mixed
	// subscription pattern, then every single change (one member's subscription,
	// a fourth member joining with any subscription, any member leaving).
	// thorough enumerates all partition-count vectors up to 6; quick draws some.
	// sticky, growth and joins in one step: two members sharing one topic, then topics grow and 2-4 members
	// with other subscriptions join (partitions travel over several hops inside one plan)
	for v := 0; v < 8; v++ {
		cs = append(cs, balCase{kind: "growjoin", strat: "sticky", subIdx: v})
	}
	// sticky, a movement that is undone inside one plan (a partition goes A->B and back, or the loads turn
	// around after a partition has moved): two settled groups, then growth plus joiners, each planned 25 times
	for v := 0; v < 4; v++ {
		cs = append(cs, balCase{kind: "undo", strat: "sticky", subIdx: v, n: 25})
	}
	if tier == "thorough" {
		for v := 0; v < 216; v++ {
			cs = append(cs, balCase{kind: "step", strat: "sticky", m: 3, t: 3, maxP: 6, n: 1, subIdx: v})
		}
	} else {
		for i := 0; i < 32; i++ {
			cs = append(cs, balCase{kind: "step", strat: "sticky", m: 3, t: 3, maxP: 6, n: 1, subIdx: -1})
		}
	}
	return cs
}

func ipow(a, b int) int {
	r := 1
	for i := 0; i < b; i++ {
		r *= a
	}
	return r
}

func (e *balanceEngine) Count(prop, tier string, seed int64) int { return len(balCases(tier)) }

func strategyByName(n string) sarama.BalanceStrategy {
	switch n {
	case "range":
		return sarama.BalanceStrategyRange
	case "roundrobin":
		return sarama.BalanceStrategyRoundRobin
	}
	return sarama.BalanceStrategySticky
}

type tpart struct {
	t string
	p int32
}

type balInput struct {
	strat   string
	members map[string]sarama.ConsumerGroupMemberMetadata
	topics  map[string][]int32
	prior   string // class of prior state for the shape signature
	cycled  bool   // the Plan call on this input was cut by the sticky assignor's repetition guard (hook bal.cycle)
}

func (in *balInput) describe() map[string]interface{} {
	ms := map[string]interface{}{}
	for id, md := range in.members {
		ms[id] = map[string]interface{}{"topics": md.Topics, "userdata_hex": fmt.Sprintf("%x", md.UserData)}
	}
	return map[string]interface{}{"strategy": in.strat, "members": ms, "topics": in.topics, "prior": in.prior}
}

func (in *balInput) shape() string {
	// (strategy, members, topics, partitions multiset, subscription pattern multiset, prior class)
	var subs []string
	for _, md := range in.members {
		ts := append([]string(nil), md.Topics...)
		sort.Strings(ts)
		subs = append(subs, strings.Join(ts, "+"))
	}
	sort.Strings(subs)
	var ps []string
	for t, p := range in.topics {
		ps = append(ps, fmt.Sprintf("%s:%d", t, len(p)))
	}
	sort.Strings(ps)
	s := fmt.Sprintf("%s|m%d|%s|%s|%s", in.strat, len(in.members), strings.Join(ps, ","), strings.Join(subs, ","), in.prior)
	if len(s) > 160 {
		s = fmt.Sprintf("%s|m%d|t%d|h%s|%s", in.strat, len(in.members), len(in.topics), proto.Hash(s), in.prior)
	}
	return s
}

type balRun struct {
	slow   bool // a Plan on a very large group was still running when the watchdog fired (not a verdict)
	hung   bool
	prop   string
	viols  []proto.Viol
	seen   map[string]bool
	paths  map[string]bool
	evals  int
	sample map[string]interface{}
	obs    map[string]int64
}

func (r *balRun) addViol(kind, attr, msg string, in *balInput, plan sarama.BalanceStrategyPlan) {
	sig := kind + "|" + attr
	if r.seen[sig] {
		return
	}
	r.seen[sig] = true
	r.viols = append(r.viols, proto.Viol{Kind: kind, Attr: attr, Msg: msg})
	if r.sample == nil || r.sample["violating_input"] == nil {
		r.sample = map[string]interface{}{"violating_input": in.describe(), "plan": plan, "what": msg}
	}
}

// planWithWatchdog calls Plan; a call that does not return within the bound
// while the process is otherwise idle is a hang (CPU-bound loops cannot be
// interrupted, so the worker journals the finding and asks to be restarted).
func planWithWatchdog(strat sarama.BalanceStrategy, members map[string]sarama.ConsumerGroupMemberMetadata, topics map[string][]int32) (plan sarama.BalanceStrategyPlan, err error, hung bool, pan interface{}) {
	type res struct {
		p   sarama.BalanceStrategyPlan
		e   error
		pan interface{}
		stk string
	}
	ch := make(chan res, 1)
	go func() {
		defer func() {
			if r := recover(); r != nil {
				k, a := classifyPanic(r)
				ch <- res{pan: r, stk: k + "|" + a}
			}
		}()
		p, e := strat.Plan(members, topics)
		ch <- res{p: p, e: e}
	}()
	select {
	case r := <-ch:
		if r.pan != nil {
			return nil, nil, false, r.stk
		}
		return r.p, r.e, false, nil
	case <-time.After(20 * time.Second):
		return nil, nil, true, nil
	}
}

var errHang = fmt.Errorf("hang")

// balDupTopics: random groups may name a topic twice in one member's subscription list (C08 only).
var balDupTopics bool

// balCycles counts bal.cycle hook events (sticky reassignment loop cut by its
// repetition guard); the balance engine plans one input at a time.
var balCycles int64
var balHookOnce sync.Once

func installBalHook() {
	balHookOnce.Do(func() {
		sarama.VerifHook = func(point string, args ...interface{}) {
			if point == "bal.cycle" {
				atomic.AddInt64(&balCycles, 1)
			}
		}
	})
}

// cycAttr marks a signature when one of the plans it judges came out of a cut loop.
func cycAttr(attr string, ins ...*balInput) string {
	for _, in := range ins {
		if in != nil && in.cycled {
			return attr + ",after-cycle-guard"
		}
	}
	return attr
}

func (r *balRun) plan(in *balInput) (sarama.BalanceStrategyPlan, bool) {
	r.evals++
	strat := strategyByName(in.strat)
	// deep-copy the inputs: a strategy must not depend on aliasing, and the oracles need the originals
	members := map[string]sarama.ConsumerGroupMemberMetadata{}
	for k, v := range in.members {
		members[k] = sarama.ConsumerGroupMemberMetadata{Version: v.Version, Topics: append([]string(nil), v.Topics...), UserData: append([]byte(nil), v.UserData...)}
	}
	topics := map[string][]int32{}
	for k, v := range in.topics {
		topics[k] = append([]int32(nil), v...)
	}
	installBalHook()
	before := atomic.LoadInt64(&balCycles)
	plan, err, hung, pan := planWithWatchdog(strat, members, topics)
	if !hung && atomic.LoadInt64(&balCycles) != before {
		in.cycled = true
		r.obs["plans_cut_by_cycle_guard"]++
	}
	if hung {
		size := 0
		for _, ps := range in.topics {
			size += len(ps)
		}
		size *= len(in.members)
		if size <= 5000 {
			// 20 s is four orders of magnitude above what any plan of this size needs
			r.addViol("plan-hang", in.strat, fmt.Sprintf("Plan did not return within 20 s on a group of %d members and %d member-partition pairs", len(in.members), size), in, nil)
		} else {
			r.slow = true
		}
		r.hung = true
		return nil, false
	}
	if pan != nil {
		parts := strings.SplitN(fmt.Sprint(pan), "|", 2)
		r.addViol(parts[0], parts[1], "Plan panicked", in, nil)
		return nil, false
	}
	if err != nil {
		// A strategy may refuse undecodable user data; anything else inside the
		// domain (every topic has a subscriber, members non-empty) is a failure to plan.
		if in.prior == "garbage" {
			r.obs["plan_error_on_garbage_userdata"]++
			return nil, false
		}
		r.addViol("plan-error", in.strat, "Plan returned error: "+err.Error(), in, nil)
		return nil, false
	}
	return plan, true
}

// validate is C08's oracle.
func (r *balRun) validate(in *balInput, plan sarama.BalanceStrategyPlan) {
	owners := map[tpart][]string{}
	exists := map[tpart]bool{}
	for t, ps := range in.topics {
		for _, p := range ps {
			exists[tpart{t, p}] = true
		}
	}
	for m, ts := range plan {
		md, ok := in.members[m]
		if !ok {
			r.addViol("unknown-member", in.strat, fmt.Sprintf("plan names member %q which is not in the group", m), in, plan)
		}
		for t, ps := range ts {
			sub := false
			for _, x := range md.Topics {
				if x == t {
					sub = true
				}
			}
			if ok && !sub && len(ps) > 0 {
				r.addViol("not-subscribed", in.strat, fmt.Sprintf("member %s is assigned %s/%v without subscribing to it", m, t, ps), in, plan)
			}
			for _, p := range ps {
				if !exists[tpart{t, p}] {
					r.addViol("unknown-partition", in.strat, fmt.Sprintf("plan contains nonexistent partition %s/%d", t, p), in, plan)
				}
				owners[tpart{t, p}] = append(owners[tpart{t, p}], m)
			}
		}
	}
	subscribed := map[string]bool{}
	for _, md := range in.members {
		for _, t := range md.Topics {
			subscribed[t] = true
		}
	}
	for tp := range exists {
		if !subscribed[tp.t] {
			continue
		}
		switch n := len(owners[tp]); {
		case n == 0:
			r.addViol("unassigned", in.strat, fmt.Sprintf("partition %s/%d has subscribers but no owner", tp.t, tp.p), in, plan)
		case n > 1:
			r.addViol("double-assigned", in.strat, fmt.Sprintf("partition %s/%d has %d owners %v", tp.t, tp.p, n, owners[tp]), in, plan)
		}
	}
}

func planCount(plan sarama.BalanceStrategyPlan, m string) int {
	n := 0
	for _, ps := range plan[m] {
		n += len(ps)
	}
	return n
}

func identicalSubs(in *balInput) bool {
	var ref []string
	first := true
	for _, md := range in.members {
		ts := append([]string(nil), md.Topics...)
		sort.Strings(ts)
		if first {
			ref, first = ts, false
			continue
		}
		if strings.Join(ts, ",") != strings.Join(ref, ",") {
			return false
		}
	}
	return true
}

// fairness is C13's per-plan oracle.
func (r *balRun) fairness(in *balInput, plan sarama.BalanceStrategyPlan) {
	switch in.strat {
	case "range":
		for t, parts := range in.topics {
			sorted := append([]int32(nil), parts...)
			sort.Slice(sorted, func(i, j int) bool { return sorted[i] < sorted[j] })
			pos := map[int32]int{}
			for i, p := range sorted {
				pos[p] = i
			}
			minSz, maxSz := 1<<30, -1
			nsub := 0
			for m, md := range in.members {
				sub := false
				for _, x := range md.Topics {
					if x == t {
						sub = true
					}
				}
				if !sub {
					continue
				}
				nsub++
				got := append([]int32(nil), plan[m][t]...)
				sort.Slice(got, func(i, j int) bool { return got[i] < got[j] })
				for i := 1; i < len(got); i++ {
					if pos[got[i]] != pos[got[i-1]]+1 {
						r.addViol("range-not-contiguous", "range", fmt.Sprintf("member %s holds %v of topic %s (sorted ids %v): not a contiguous run", m, got, t, sorted), in, plan)
					}
				}
				if len(got) < minSz {
					minSz = len(got)
				}
				if len(got) > maxSz {
					maxSz = len(got)
				}
			}
			if nsub > 0 && maxSz-minSz > 1 {
				r.addViol("range-unfair", "range", fmt.Sprintf("topic %s: range sizes differ by %d", t, maxSz-minSz), in, plan)
			}
		}
	case "roundrobin":
		if identicalSubs(in) {
			minSz, maxSz := 1<<30, -1
			for m := range in.members {
				n := planCount(plan, m)
				if n < minSz {
					minSz = n
				}
				if n > maxSz {
					maxSz = n
				}
			}
			if maxSz-minSz > 1 {
				r.addViol("rr-unfair", "roundrobin", fmt.Sprintf("identical subscriptions but totals differ by %d", maxSz-minSz), in, plan)
			}
		}
	case "sticky":
		// a member holding >= 2 more than another holds nothing the other could take
		for a := range in.members {
			for b, mdb := range in.members {
				if a == b {
					continue
				}
				if planCount(plan, a) >= planCount(plan, b)+2 {
					for _, t := range mdb.Topics {
						if len(plan[a][t]) > 0 {
							r.addViol("sticky-unbalanced", cycAttr("sticky", in), fmt.Sprintf("%s holds %d, %s holds %d, yet %s holds %v of topic %s which %s subscribes to", a, planCount(plan, a), b, planCount(plan, b), a, plan[a][t], t, b), in, plan)
						}
					}
				}
			}
		}
	}
}

func ownersOf(plan sarama.BalanceStrategyPlan) map[tpart]string {
	o := map[tpart]string{}
	for m, ts := range plan {
		for t, ps := range ts {
			for _, p := range ps {
				o[tpart{t, p}] = m
			}
		}
	}
	return o
}

func samePlan(a, b sarama.BalanceStrategyPlan) bool {
	oa, ob := ownersOf(a), ownersOf(b)
	if len(oa) != len(ob) {
		return false
	}
	for k, v := range oa {
		if ob[k] != v {
			return false
		}
	}
	return true
}

// encodeStickyUD writes sticky user data independently of sarama's encoder.
// version 0: no generation; 1: with generation.
func encodeStickyUD(topics map[string][]int32, version int, generation int32) []byte {
	var b []byte
	names := make([]string, 0, len(topics))
	for t := range topics {
		names = append(names, t)
	}
	sort.Strings(names)
	b = binary.BigEndian.AppendUint32(b, uint32(len(names)))
	for _, t := range names {
		b = binary.BigEndian.AppendUint16(b, uint16(len(t)))
		b = append(b, t...)
		b = binary.BigEndian.AppendUint32(b, uint32(len(topics[t])))
		for _, p := range topics[t] {
			b = binary.BigEndian.AppendUint32(b, uint32(p))
		}
	}
	if version >= 1 {
		b = binary.BigEndian.AppendUint32(b, uint32(generation))
	}
	return b
}

func withUserData(in *balInput, plan sarama.BalanceStrategyPlan, gen int32, viaSarama bool) *balInput {
	out := &balInput{strat: in.strat, members: map[string]sarama.ConsumerGroupMemberMetadata{}, topics: map[string][]int32{}, prior: "fed-back"}
	for t, ps := range in.topics {
		out.topics[t] = append([]int32(nil), ps...)
	}
	strat := strategyByName(in.strat)
	for m, md := range in.members {
		nm := sarama.ConsumerGroupMemberMetadata{Version: md.Version, Topics: append([]string(nil), md.Topics...)}
		if in.strat == "sticky" {
			if viaSarama {
				ud, err := strat.AssignmentData(m, plan[m], gen)
				if err == nil {
					nm.UserData = ud
				}
			} else {
				tp := plan[m]
				if tp == nil {
					tp = map[string][]int32{}
				}
				nm.UserData = encodeStickyUD(tp, 1, gen)
			}
		}
		out.members[m] = nm
	}
	return out
}

// stickyFixedPoint: re-planning with unchanged input and the plan as prior state returns the plan.
func (r *balRun) stickyFixedPoint(in *balInput, plan sarama.BalanceStrategyPlan, gen int32, rng *rand.Rand) {
	if in.strat != "sticky" {
		return
	}
	in2 := withUserData(in, plan, gen, rng.Intn(2) == 0)
	p2, ok := r.plan(in2)
	if !ok {
		return
	}
	if !samePlan(plan, p2) {
		r.addViol("sticky-not-fixed-point", cycAttr("sticky", in, in2), fmt.Sprintf("re-planning with unchanged members/subscriptions/partitions and the previous plan as user data changed the plan: %v -> %v", plan, p2), in2, p2)
	}
}

func (r *balRun) check(in *balInput, plan sarama.BalanceStrategyPlan) {
	if r.prop == "C08" {
		r.validate(in, plan)
	} else {
		r.fairness(in, plan)
	}
	nt := false
	if r.prop == "C08" {
		nt = len(in.members) >= 2 || len(in.topics) >= 2
	} else {
		// two members competing for a topic
		cnt := map[string]int{}
		for _, md := range in.members {
			for _, t := range md.Topics {
				cnt[t]++
			}
		}
		for _, c := range cnt {
			if c >= 2 {
				nt = true
			}
		}
	}
	if nt {
		r.paths[in.shape()] = true
	}
	if r.sample == nil {
		r.sample = map[string]interface{}{"input": in.describe(), "plan": plan}
	}
}

func memberName(naming, i int) string {
	switch naming {
	case 0:
		return fmt.Sprintf("m%d", i)
	case 1:
		return fmt.Sprintf("consumer-%c-%d", 'z'-byte(i), i*7)
	}
	return fmt.Sprintf("%d-member-%s", 9-i, strings.Repeat("x", i))
}

func seqParts(n int) []int32 {
	ps := make([]int32, n)
	for i := range ps {
		ps[i] = int32(i)
	}
	return ps
}

func (e *balanceEngine) Run(prop, tier string, seed int64, idx int) proto.Rec {
	cs := balCases(tier)
	c := cs[idx]
	rng := rand.New(rand.NewSource(proto.SubSeed(seed, idx, "balance")))
	r := &balRun{prop: prop, seen: map[string]bool{}, paths: map[string]bool{}, obs: map[string]int64{}}
	balDupTopics = prop == "C08"
	switch c.kind {
	case "exh":
		e.exhaustive(r, c, rng)
	case "prior":
		e.prior(r, c, rng)
	case "random":
		for i := 0; i < c.n; i++ {
			in := randomGroup(rng, "")
			if plan, ok := r.plan(in); ok {
				r.check(in, plan)
				if prop == "C13" {
					r.stickyFixedPoint(in, plan, 1, rng)
				}
			}
		}
	case "chain":
		for i := 0; i < c.n; i++ {
			e.chain(r, rng)
		}
	case "step":
		e.step(r, c, rng)
	case "conflict":
		e.conflict(r)
	case "growjoin":
		e.growJoin(r, c)
	case "undo":
		e.undo(r, c)
	case "duplists":
		if prop != "C08" {
			break // fairness is stated over subscription sets
		}
		var lists [][]string
		names := []string{"a", "bb"}
		for n := 1; n <= 3; n++ {
			for code := 0; code < 1<<uint(n); code++ {
				var l []string
				for i := 0; i < n; i++ {
					l = append(l, names[(code>>uint(i))&1])
				}
				lists = append(lists, l)
			}
		}
		for _, l0 := range lists {
			for _, l1 := range lists {
				for pa := 1; pa <= 3; pa++ {
					for pb := 1; pb <= 3; pb++ {
						in := &balInput{strat: c.strat, members: map[string]sarama.ConsumerGroupMemberMetadata{}, topics: map[string][]int32{}, prior: "dup-lists"}
						in.members["m0"] = sarama.ConsumerGroupMemberMetadata{Topics: append([]string(nil), l0...)}
						in.members["m1"] = sarama.ConsumerGroupMemberMetadata{Topics: append([]string(nil), l1...)}
						in.topics["a"], in.topics["bb"] = seqParts(pa), seqParts(pb)
						restrictToSubscribed(in)
						plan, ok := r.plan(in)
						if !ok {
							continue
						}
						r.check(in, plan)
					}
				}
			}
		}
	case "sweep":
		maxM, maxP := 40, 150
		if c.strat == "sticky" {
			maxM, maxP = 12, 40 // the sticky assignor is cubic
		}
		for m := 1; m <= maxM; m++ {
			for np := 1; np <= maxP; np++ {
				in := &balInput{strat: c.strat, members: map[string]sarama.ConsumerGroupMemberMetadata{}, topics: map[string][]int32{"t": seqParts(np)}, prior: "none"}
				for i := 0; i < m; i++ {
					in.members[fmt.Sprintf("m%02d", i)] = sarama.ConsumerGroupMemberMetadata{Topics: []string{"t"}}
				}
				plan, ok := r.plan(in)
				if !ok {
					break
				}
				r.check(in, plan)
			}
		}
	case "directed":
		g := directedGroups[c.subIdx]
		for i := 0; i < c.n; i++ {
			in := &balInput{strat: g.strat, members: map[string]sarama.ConsumerGroupMemberMetadata{}, topics: map[string][]int32{}, prior: "directed-" + g.name}
			for t, n := range g.topics {
				in.topics[t] = seqParts(n)
			}
			for _, m := range g.members {
				md := sarama.ConsumerGroupMemberMetadata{Topics: append([]string(nil), m.topics...)}
				if m.userDataHex != "" {
					md.UserData, _ = hex.DecodeString(m.userDataHex)
				}
				in.members[m.id] = md
			}
			plan, ok := r.plan(in)
			if !ok {
				break
			}
			r.check(in, plan)
		}
	}
	rec := proto.Rec{ID: fmt.Sprintf("%s/%s/%d/%d:%s-%s-m%d-t%d", prop, tier, seed, idx, c.kind, c.strat, c.m, c.t),
		Evals: r.evals, Viols: r.viols, Obs: r.obs, Sample: r.sample}
	for p := range r.paths {
		rec.Paths = append(rec.Paths, p)
	}
	sort.Strings(rec.Paths)
	rec.NonTrivial = len(rec.Paths) > 0
	if r.hung {
		restartAfterCase = true // a goroutine is still spinning; this process cannot go on
	}
	if r.slow && len(r.viols) == 0 {
		rec.Verdict, rec.Why = "inconclusive", "Plan on a very large group still running after 20 s"
	}
	return rec
}

func (e *balanceEngine) exhaustive(r *balRun, c balCase, rng *rand.Rand) {
	topicNames := []string{"a", "bb", "ccc"}[:c.t]
	nsubPer := (1 << uint(c.t)) - 1
	nsub := ipow(nsubPer, c.m)
	nparts := ipow(c.maxP, c.t)
	for pi := 0; pi < nparts; pi++ {
		topics := map[string][]int32{}
		x := pi
		for _, t := range topicNames {
			topics[t] = seqParts(1 + x%c.maxP)
			x /= c.maxP
		}
		for si := 0; si < nsub; si++ {
			in := &balInput{strat: c.strat, members: map[string]sarama.ConsumerGroupMemberMetadata{}, topics: map[string][]int32{}, prior: "none"}
			y := si
			used := map[string]bool{}
			for i := 0; i < c.m; i++ {
				mask := 1 + y%nsubPer
				y /= nsubPer
				var ts []string
				for k, t := range topicNames {
					if mask&(1<<uint(k)) != 0 {
						ts = append(ts, t)
						used[t] = true
					}
				}
				in.members[memberName(c.naming, i)] = sarama.ConsumerGroupMemberMetadata{Topics: ts}
			}
			for t, ps := range topics {
				if used[t] { // consumerGroup.balance only passes subscribed topics
					in.topics[t] = ps
				}
			}
			plan, ok := r.plan(in)
			if !ok {
				continue
			}
			r.check(in, plan)
			if r.prop == "C13" {
				r.stickyFixedPoint(in, plan, 1, rng)
			}
		}
	}
}

// prior: sticky with every previous-assignment user data over a small universe
// (existing partitions plus one stale partition and one stale topic), with
// generations none(V0), g, g-1, g+1 per member; conflicts arise naturally.
func (e *balanceEngine) prior(r *balRun, c balCase, rng *rand.Rand) {
	topicNames := []string{"a", "bb"}[:c.t]
	nsubPer := (1 << uint(c.t)) - 1
	for pi := 0; pi < ipow(c.maxP, c.t); pi++ {
		topics := map[string][]int32{}
		x := pi
		for _, t := range topicNames {
			topics[t] = seqParts(1 + x%c.maxP)
			x /= c.maxP
		}
		// subscription pattern from subIdx
		subs := make([][]string, c.m)
		used := map[string]bool{}
		y := c.subIdx
		for i := 0; i < c.m; i++ {
			mask := 1 + y%nsubPer
			y /= nsubPer
			for k, t := range topicNames {
				if mask&(1<<uint(k)) != 0 {
					subs[i] = append(subs[i], t)
					used[t] = true
				}
			}
		}
		// universe of prior claims
		var uni []tpart
		for _, t := range topicNames {
			for _, p := range topics[t] {
				uni = append(uni, tpart{t, p})
			}
			uni = append(uni, tpart{t, int32(len(topics[t]))}) // a partition that no longer exists
		}
		uni = append(uni, tpart{"gone", 0}) // a deleted topic
		nClaims := 1 << uint(len(uni))
		gens := []int{-1, 5, 4, 6} // -1 = V0 user data without generation
		total := ipow(nClaims*len(gens), c.m)
		step := 1
		// keep every case under ~60k evaluations: sample the product space with a stride coprime to it when it is larger
		limit := 40000
		if total > limit {
			step = total/limit + 1
			for gcd(step, total) != 1 {
				step++
			}
		}
		for k := 0; k < total; k += step {
			in := &balInput{strat: "sticky", members: map[string]sarama.ConsumerGroupMemberMetadata{}, topics: map[string][]int32{}}
			z := k
			classes := map[string]bool{}
			claimed := map[tpart]int{}
			for i := 0; i < c.m; i++ {
				claims := z % nClaims
				z /= nClaims
				g := gens[z%len(gens)]
				z /= len(gens)
				tp := map[string][]int32{}
				for bi, u := range uni {
					if claims&(1<<uint(bi)) != 0 {
						tp[u.t] = append(tp[u.t], u.p)
						claimed[u]++
						if u.t == "gone" || int(u.p) >= len(topics[u.t]) {
							classes["stale"] = true
						}
					}
				}
				var ud []byte
				if g < 0 {
					ud = encodeStickyUD(tp, 0, 0)
					classes["v0"] = true
				} else {
					ud = encodeStickyUD(tp, 1, int32(g))
					classes[fmt.Sprintf("g%d", g)] = true
				}
				if claims == 0 && g == 5 {
					ud = nil
					classes["nil"] = true
				}
				in.members[memberName(0, i)] = sarama.ConsumerGroupMemberMetadata{Topics: subs[i], UserData: ud}
			}
			for _, n := range claimed {
				if n > 1 {
					classes["conflict"] = true
				}
			}
			var cl []string
			for k := range classes {
				cl = append(cl, k)
			}
			sort.Strings(cl)
			in.prior = strings.Join(cl, "+")
			for t, ps := range topics {
				if used[t] {
					in.topics[t] = ps
				}
			}
			plan, ok := r.plan(in)
			if !ok {
				continue
			}
			r.check(in, plan)
		}
	}
}

func gcd(a, b int) int {
	for b != 0 {
		a, b = b, a%b
	}
	return a
}

func randomGroup(rng *rand.Rand, strat string) *balInput {
	if strat == "" {
		strat = []string{"range", "roundrobin", "sticky"}[rng.Intn(3)]
	}
	big := rng.Intn(4) == 0
	nt, nm, np := 1+rng.Intn(5), 1+rng.Intn(7), 9
	if big {
		// sarama's sticky assignor is cubic in (members x partitions): keep large groups where a Plan still takes milliseconds
		nt, nm, np = 1+rng.Intn(12), 1+rng.Intn(16), 25
	}
	in := &balInput{strat: strat, members: map[string]sarama.ConsumerGroupMemberMetadata{}, topics: map[string][]int32{}, prior: "none"}
	var names []string
	for i := 0; i < nt; i++ {
		n := fmt.Sprintf("t%d", i)
		if rng.Intn(3) == 0 {
			n = fmt.Sprintf("topic.%c%d", 'a'+byte(rng.Intn(26)), i)
		}
		names = append(names, n)
		in.topics[n] = seqParts(1 + rng.Intn(np))
	}
	mode := rng.Intn(4) // 0 identical, 1 overlapping, 2 mostly disjoint, 3 random
	for i := 0; i < nm; i++ {
		var ts []string
		switch mode {
		case 0:
			ts = append(ts, names...)
		case 1:
			for _, t := range names {
				if rng.Intn(3) > 0 {
					ts = append(ts, t)
				}
			}
		case 2:
			ts = append(ts, names[i%len(names)])
			if rng.Intn(4) == 0 {
				ts = append(ts, names[rng.Intn(len(names))])
			}
		default:
			for _, t := range names {
				if rng.Intn(2) == 0 {
					ts = append(ts, t)
				}
			}
		}
		if len(ts) == 0 {
			ts = []string{names[rng.Intn(len(names))]}
		}
		ts = dedup(ts)
		rng.Shuffle(len(ts), func(a, b int) { ts[a], ts[b] = ts[b], ts[a] })
		if rng.Intn(12) == 0 && balDupTopics {
			// a subscription list naming a topic twice (Consume(ctx, []string{"a", "a"}, h) is not rejected anywhere):
			// the plan must still be valid (C08); fairness (C13) is stated over subscription sets
			ts = append(ts, ts[rng.Intn(len(ts))])
		}
		id := fmt.Sprintf("m%d", i)
		switch rng.Intn(3) {
		case 1:
			id = fmt.Sprintf("%c%c-%d", 'a'+byte(rng.Intn(26)), 'a'+byte(rng.Intn(26)), i)
		case 2:
			id = fmt.Sprintf("sarama-%08x-%d", rng.Uint32(), i)
		}
		in.members[id] = sarama.ConsumerGroupMemberMetadata{Topics: ts}
	}
	restrictToSubscribed(in)
	return in
}

func dedup(ts []string) []string {
	seen := map[string]bool{}
	var out []string
	for _, t := range ts {
		if !seen[t] {
			seen[t] = true
			out = append(out, t)
		}
	}
	return out
}

func restrictToSubscribed(in *balInput) {
	sub := map[string]bool{}
	for _, md := range in.members {
		for _, t := range md.Topics {
			sub[t] = true
		}
	}
	for t := range in.topics {
		if !sub[t] {
			delete(in.topics, t)
		}
	}
}

// chain: 3-12 rebalances feeding each plan back as the next round's user data.
func (e *balanceEngine) chain(r *balRun, rng *rand.Rand) {
	strat := "sticky"
	if rng.Intn(5) == 0 {
		strat = []string{"range", "roundrobin"}[rng.Intn(2)]
	}
	identical := rng.Intn(2) == 0
	in := randomGroup(rng, strat)
	allTopics := map[string][]int32{}
	for t, ps := range in.topics {
		allTopics[t] = ps
	}
	if identical {
		names := sortedTopics(in.topics)
		for _, m := range sortedMembers(in) {
			md := in.members[m]
			md.Topics = append([]string(nil), names...)
			in.members[m] = md
		}
	}
	rounds := 3 + rng.Intn(10)
	var prevPlan sarama.BalanceStrategyPlan
	var prevIn *balInput
	change := "init"
	var joined string
	for round := 0; round < rounds; round++ {
		gen := int32(round + 1)
		if len(in.members) == 0 || len(in.topics) == 0 {
			return
		}
		plan, ok := r.plan(in)
		if !ok {
			return
		}
		r.check(in, plan)
		if r.prop == "C13" && strat == "sticky" && prevPlan != nil {
			r.stickiness(prevIn, prevPlan, in, plan, change, joined)
		}
		if r.prop == "C13" && rng.Intn(3) == 0 {
			r.stickyFixedPoint(in, plan, gen, rng)
		}
		// next round: the plan becomes user data, then the group changes
		next := withUserData(in, plan, gen, rng.Intn(4) != 0)
		next.prior = "chain"
		prevPlan, prevIn = plan, in
		joined = ""
		ops := []string{"join", "leave", "none", "subs", "parts+", "parts-", "topic-del", "stale-gen"}
		if identical {
			ops = []string{"join", "leave", "none", "parts+", "join", "leave"}
		}
		change = ops[rng.Intn(len(ops))]
		switch change {
		case "join":
			id := fmt.Sprintf("j%d-%c", round, 'a'+byte(rng.Intn(26)))
			var ts []string
			if identical {
				ts = append([]string(nil), next.members[sortedMembers(next)[0]].Topics...)
			} else {
				for _, t := range sortedTopics(allTopics) {
					if rng.Intn(2) == 0 {
						ts = append(ts, t)
					}
				}
			}
			if len(ts) == 0 {
				change = "none"
				break
			}
			next.members[id] = sarama.ConsumerGroupMemberMetadata{Topics: ts}
			for _, t := range ts {
				if _, ok := next.topics[t]; !ok {
					if ps, ok := allTopics[t]; ok {
						next.topics[t] = ps
					}
				}
			}
			joined = id
		case "leave":
			if len(next.members) <= 1 {
				change = "none"
				break
			}
			ids := sortedMembers(next)
			delete(next.members, ids[rng.Intn(len(ids))])
		case "subs":
			ids := sortedMembers(next)
			id := ids[rng.Intn(len(ids))]
			md := next.members[id]
			var ts []string
			for _, t := range sortedTopics(allTopics) {
				if rng.Intn(2) == 0 {
					ts = append(ts, t)
				}
			}
			if len(ts) == 0 {
				change = "none"
				break
			}
			md.Topics = ts
			next.members[id] = md
			for _, t := range ts {
				if _, ok := next.topics[t]; !ok {
					next.topics[t] = allTopics[t]
				}
			}
		case "parts+":
			if ts := sortedTopics(next.topics); len(ts) > 0 {
				t := ts[rng.Intn(len(ts))]
				ps := next.topics[t]
				np := append(append([]int32(nil), ps...), int32(len(ps)))
				next.topics[t] = np
				allTopics[t] = np
			}
		case "parts-":
			for _, t := range sortedTopics(next.topics) {
				if ps := next.topics[t]; len(ps) > 1 {
					next.topics[t] = ps[:len(ps)-1]
					allTopics[t] = ps[:len(ps)-1]
					break
				}
			}
		case "topic-del":
			if len(next.topics) > 1 {
				for _, t := range sortedTopics(next.topics)[:1] {
					delete(next.topics, t)
					delete(allTopics, t)
					for _, m := range sortedMembers(next) {
						md := next.members[m]
						var ts []string
						for _, x := range md.Topics {
							if x != t {
								ts = append(ts, x)
							}
						}
						md.Topics = ts
						next.members[m] = md
					}
				}
				for _, m := range sortedMembers(next) {
					if len(next.members[m].Topics) == 0 {
						delete(next.members, m)
					}
				}
			} else {
				change = "none"
			}
		case "stale-gen":
			// one member missed the last rebalance: it still carries older user data
			ids := sortedMembers(next)
			id := ids[rng.Intn(len(ids))]
			if old, ok := in.members[id]; ok && strat == "sticky" {
				md := next.members[id]
				md.UserData = old.UserData
				next.members[id] = md
			}
		}
		restrictToSubscribed(next)
		in = next
	}
}

// conflict: m0 (generation 5) claims every partition of the topics it subscribes to; m1 carries user
// data of generation 4 claiming the first partitions of topic a and of topic bb (whether or not it still
// subscribes to them); m2 has no user data or agrees with m0's generation and claims the rest of bb.
func (e *balanceEngine) conflict(r *balRun) {
	topicNames := []string{"a", "bb"}
	subsOf := func(mask int) []string {
		var ts []string
		for k, t := range topicNames {
			if mask&(1<<uint(k)) != 0 {
				ts = append(ts, t)
			}
		}
		return ts
	}
	for na := 2; na <= 6; na++ {
		for nb := 1; nb <= 3; nb++ {
			counts := map[string]int{"a": na, "bb": nb}
			for si := 0; si < 27; si++ {
				masks := []int{1 + si%3, 1 + (si/3)%3, 1 + (si/9)%3}
				for staleClaims := 1; staleClaims <= 2; staleClaims++ {
					for m2ud := 0; m2ud < 2; m2ud++ {
						in := &balInput{strat: "sticky", members: map[string]sarama.ConsumerGroupMemberMetadata{}, topics: map[string][]int32{}, prior: "conflict+stale"}
						used := map[string]bool{}
						for i := 0; i < 3; i++ {
							for _, t := range subsOf(masks[i]) {
								used[t] = true
							}
						}
						for t := range used {
							in.topics[t] = seqParts(counts[t])
						}
						own := map[string][]int32{}
						for _, t := range subsOf(masks[0]) {
							own[t] = seqParts(counts[t])
						}
						stale := map[string][]int32{"a": seqParts(staleClaims)}
						if staleClaims == 2 {
							stale["bb"] = []int32{0}
						}
						in.members["m0"] = sarama.ConsumerGroupMemberMetadata{Topics: subsOf(masks[0]), UserData: encodeStickyUD(own, 1, 5)}
						in.members["m1"] = sarama.ConsumerGroupMemberMetadata{Topics: subsOf(masks[1]), UserData: encodeStickyUD(stale, 1, 4)}
						md := sarama.ConsumerGroupMemberMetadata{Topics: subsOf(masks[2])}
						if m2ud == 1 {
							md.UserData = encodeStickyUD(map[string][]int32{}, 1, 5)
						}
						in.members["m2"] = md
						plan, ok := r.plan(in)
						if !ok {
							return
						}
						r.check(in, plan)
					}
				}
			}
		}
	}
}

// growJoin: m0{a,bb} and m3{a,ccc} settle; then a (and ccc) grow and every set of 2-4 joiners out of the six
// subscription types {a},{bb},{ccc},{a,bb},{bb,ccc},{a,ccc} arrives in the same rebalance.
func (e *balanceEngine) growJoin(r *balRun, c balCase) {
	na1 := 2 + c.subIdx&1
	nb := 4 + 2*((c.subIdx>>1)&1)
	nc1 := 3 + 2*((c.subIdx>>2)&1)
	types := [][]string{{"a"}, {"bb"}, {"ccc"}, {"a", "bb"}, {"bb", "ccc"}, {"a", "ccc"}}
	for _, na2 := range []int{4, 6} {
		for _, cGrow := range []int{0, 1} {
			for mask := 1; mask < 64; mask++ {
				var joiners [][]string
				for k, t := range types {
					if mask&(1<<uint(k)) != 0 {
						joiners = append(joiners, t)
					}
				}
				if len(joiners) < 2 || len(joiners) > 4 {
					continue
				}
				for rep := 0; rep < 2; rep++ {
					in := &balInput{strat: "sticky", members: map[string]sarama.ConsumerGroupMemberMetadata{}, prior: "none",
						topics: map[string][]int32{"a": seqParts(na1), "bb": seqParts(nb), "ccc": seqParts(nc1)}}
					in.members["m0"] = sarama.ConsumerGroupMemberMetadata{Topics: []string{"a", "bb"}}
					in.members["m3"] = sarama.ConsumerGroupMemberMetadata{Topics: []string{"a", "ccc"}}
					plan, ok := r.plan(in)
					if !ok {
						return
					}
					r.check(in, plan)
					next := withUserData(in, plan, 1, rep == 0)
					next.prior = "step-grow+join"
					next.topics = map[string][]int32{"a": seqParts(na2), "bb": seqParts(nb), "ccc": seqParts(nc1 + cGrow)}
					for j, ts := range joiners {
						// names that sort between and after the old members
						next.members[[]string{"m1", "m2", "m4", "m5"}[j]] = sarama.ConsumerGroupMemberMetadata{Topics: ts}
					}
					p2, ok := r.plan(next)
					if !ok {
						return
					}
					r.check(next, p2)
					if r.prop == "C13" {
						r.stickiness(in, plan, next, p2, "grow+join", "")
					}
				}
			}
		}
	}
}

// undo: chains in which the sticky movement tracker has to forget a movement again.
func (e *balanceEngine) undo(r *balRun, c balCase) {
	type gen struct {
		topics  map[string]int
		members map[string][]string
	}
	chains := [][2]gen{
		{{map[string]int{"t": 1, "w": 8, "bb": 6}, map[string][]string{"mA": {"t", "w"}, "mB": {"bb"}}},
			{map[string]int{"t": 2, "w": 8, "bb": 6}, map[string][]string{"mA": {"t", "w"}, "mB": {"bb", "t"}, "mG": {"w"}}}},
		{{map[string]int{"t0": 1, "t2": 5}, map[string][]string{"m1": {"t0", "t2"}}},
			{map[string]int{"t0": 5, "t2": 5}, map[string][]string{"m0": {"t0"}, "m1": {"t0", "t2"}, "m2": {"t2"}, "m3": {"t2"}}}},
		{{map[string]int{"t": 1, "w": 6, "bb": 4}, map[string][]string{"mA": {"t", "w"}, "mB": {"bb"}}},
			{map[string]int{"t": 3, "w": 6, "bb": 4}, map[string][]string{"mA": {"t", "w"}, "mB": {"bb", "t"}, "mG": {"w"}, "mH": {"w", "bb"}}}},
		{{map[string]int{"t0": 2, "t2": 6}, map[string][]string{"m1": {"t0", "t2"}}},
			{map[string]int{"t0": 6, "t2": 6}, map[string][]string{"m0": {"t0"}, "m1": {"t0", "t2"}, "m2": {"t2"}, "m3": {"t2"}, "m4": {"t0"}}}},
	}
	ch := chains[c.subIdx%len(chains)]
	build := func(g gen) *balInput {
		in := &balInput{strat: "sticky", members: map[string]sarama.ConsumerGroupMemberMetadata{}, topics: map[string][]int32{}, prior: "none"}
		for t, n := range g.topics {
			in.topics[t] = seqParts(n)
		}
		for m, ts := range g.members {
			in.members[m] = sarama.ConsumerGroupMemberMetadata{Topics: append([]string(nil), ts...)}
		}
		return in
	}
	for rep := 0; rep < c.n; rep++ {
		in := build(ch[0])
		plan, ok := r.plan(in)
		if !ok {
			return
		}
		r.check(in, plan)
		fed := withUserData(in, plan, 1, rep%2 == 0)
		next := build(ch[1])
		next.prior = "step-grow+join"
		for m, md := range next.members {
			if old, ok := fed.members[m]; ok {
				md.UserData = old.UserData
				next.members[m] = md
			}
		}
		p2, ok := r.plan(next)
		if !ok {
			return
		}
		r.check(next, p2)
		if r.prop == "C13" {
			r.stickiness(in, plan, next, p2, "grow+join", "")
		}
	}
}

// step: every single change applied to every settled plan of a small mixed group.
func (e *balanceEngine) step(r *balRun, c balCase, rng *rand.Rand) {
	topicNames := []string{"a", "bb", "ccc"}
	v := c.subIdx
	if v < 0 {
		v = rng.Intn(ipow(c.maxP, 3))
	}
	counts := map[string]int{}
	for _, t := range topicNames {
		counts[t] = 1 + v%c.maxP
		v /= c.maxP
	}
	subsOf := func(mask int) []string {
		var ts []string
		for k, t := range topicNames {
			if mask&(1<<uint(k)) != 0 {
				ts = append(ts, t)
			}
		}
		return ts
	}
	setTopics := func(in *balInput) {
		in.topics = map[string][]int32{}
		for _, md := range in.members {
			for _, t := range md.Topics {
				in.topics[t] = seqParts(counts[t])
			}
		}
	}
	for si := 0; si < 343; si++ {
		in := &balInput{strat: "sticky", members: map[string]sarama.ConsumerGroupMemberMetadata{}, prior: "none"}
		masks := make([]int, 3)
		y := si
		for i := 0; i < 3; i++ {
			masks[i] = 1 + y%7
			y /= 7
			in.members[memberName(0, i)] = sarama.ConsumerGroupMemberMetadata{Topics: subsOf(masks[i])}
		}
		setTopics(in)
		plan, ok := r.plan(in)
		if !ok {
			return
		}
		r.check(in, plan)
		try := func(change, joined string, mutate func(next *balInput)) bool {
			next := withUserData(in, plan, 1, si%2 == 0)
			next.prior = "step-" + change
			mutate(next)
			setTopics(next)
			p2, ok := r.plan(next)
			if !ok {
				return false
			}
			r.check(next, p2)
			if r.prop == "C13" {
				r.stickiness(in, plan, next, p2, change, joined)
			}
			return true
		}
		for i := 0; i < 3; i++ {
			id := memberName(0, i)
			for mask := 1; mask <= 7; mask++ {
				if mask == masks[i] {
					continue
				}
				mask := mask
				if !try("subs", "", func(next *balInput) {
					md := next.members[id]
					md.Topics = subsOf(mask)
					next.members[id] = md
				}) {
					return
				}
			}
			if !try("leave", "", func(next *balInput) { delete(next.members, id) }) {
				return
			}
		}
		for mask := 1; mask <= 7; mask++ {
			mask := mask
			if !try("join", "m3", func(next *balInput) {
				next.members["m3"] = sarama.ConsumerGroupMemberMetadata{Topics: subsOf(mask)}
			}) {
				return
			}
		}
	}
}

func sortedMembers(in *balInput) []string {
	var ids []string
	for m := range in.members {
		ids = append(ids, m)
	}
	sort.Strings(ids)
	return ids
}

// stickiness judges one re-plan of a chain (sticky, C13).
func (r *balRun) stickiness(prevIn *balInput, prev sarama.BalanceStrategyPlan, in *balInput, plan sarama.BalanceStrategyPlan, change, joined string) {
	po, no := ownersOf(prev), ownersOf(plan)
	// never a pairwise swap within a topic (whatever changed)
	type mv struct{ t, from, to string }
	moves := map[mv][]int32{}
	for tp, o := range po {
		n, ok := no[tp]
		if !ok || n == o {
			continue
		}
		if _, still := in.members[o]; !still {
			continue
		}
		moves[mv{tp.t, o, n}] = append(moves[mv{tp.t, o, n}], tp.p)
	}
	if change != "stale-gen" {
		for k, ps := range moves {
			if qs, ok := moves[mv{k.t, k.to, k.from}]; ok && k.from < k.to {
				r.addViol("sticky-swap", cycAttr("sticky", prevIn, in), fmt.Sprintf("topic %s: partitions %v moved %s->%s while %v moved %s->%s in one re-plan (change=%s)", k.t, ps, k.from, k.to, qs, k.to, k.from, change), in, plan)
			}
		}
	}
	if !identicalSubs(in) || !identicalSubs(prevIn) {
		return
	}
	sameTopics := len(in.topics) == len(prevIn.topics)
	for t, ps := range in.topics {
		if len(prevIn.topics[t]) != len(ps) {
			sameTopics = false
		}
	}
	if !sameTopics {
		return
	}
	switch change {
	case "leave":
		for tp, o := range po {
			if _, still := in.members[o]; still && no[tp] != o {
				r.addViol("sticky-moved-on-leave", cycAttr("sticky", prevIn, in), fmt.Sprintf("identical subscriptions, a member left, yet %s/%d moved from remaining member %s to %s", tp.t, tp.p, o, no[tp]), in, plan)
			}
		}
	case "join":
		for tp, o := range po {
			n := no[tp]
			if _, still := in.members[o]; still && n != o && n != joined {
				r.addViol("sticky-shuffled-on-join", cycAttr("sticky", prevIn, in), fmt.Sprintf("identical subscriptions, %s joined, yet %s/%d moved between old members %s -> %s", joined, tp.t, tp.p, o, n), in, plan)
			}
		}
	case "none":
		if !samePlan(prev, plan) {
			r.addViol("sticky-not-fixed-point", cycAttr("sticky", prevIn, in), "unchanged group re-planned differently inside a chain", in, plan)
		}
	}
}

func sortedTopics(m map[string][]int32) []string {
	var ks []string
	for k := range m {
		ks = append(ks, k)
	}
	sort.Strings(ks)
	return ks
}
