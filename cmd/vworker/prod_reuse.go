package main

// Re-submission of ProducerMessage objects (C05, C01): an application may send again a
// message object it got back on Successes() or Errors(). The generic producer harness
// identifies messages by their pointer and never does that; these cases do, and judge by
// the identifiers carried in the records: every success is in the log exactly once,
// nothing is in the log twice, every submission gets exactly one outcome.

import (
	"fmt"
	"math/rand"
	"sort"
	"sync"
	"sync/atomic"
	"time"

	"github.com/Shopify/sarama"

	"verifharness/internal/proto"
)

func reuseCases(prop, tier string) int {
	if prop == "C16" {
		if tier == "thorough" {
			return 600
		}
		return 60
	}
	if prop != "C05" && prop != "C01" {
		return 0
	}
	if tier == "thorough" {
		return 1500
	}
	return 120
}

func runReuseCase(prop, tier string, seed int64, k, idx int) proto.Rec {
	if prop == "C16" {
		return runReuseSizeCase(prop, tier, seed, k, idx)
	}
	rng := rand.New(rand.NewSource(proto.SubSeed(seed, idx, "reuse"+prop)))
	rec := proto.Rec{ID: fmt.Sprintf("%s/%s/%d/%d:reuse", prop, tier, seed, idx), Obs: map[string]int64{}}
	idem := prop == "C05" || rng.Intn(2) == 0
	refuseAt := 1 + rng.Intn(3) // which produce batch is refused (retriable, nothing appended)
	refusals := 1 + rng.Intn(2) // how many batches in a row
	pauseUs := []int{300, 800, 1500, 3000}[rng.Intn(4)]
	delayMs := 2 + rng.Intn(6) // the cluster answers slowly in the second phase: later submissions pile up behind the request in flight
	flush := []int{0, 2}[rng.Intn(2)]
	fresh1 := 2 + rng.Intn(3)     // messages sent and acknowledged first
	tail := 10 + rng.Intn(10)     // submissions of the second phase
	reuseEvery := 1 + rng.Intn(2) // every n-th submission of the second phase re-uses a returned object
	steer := rng.Intn(3) != 0     // two cases in three hold the partition worker until the first re-used object was sent

	sim := sarama.VNewSim(simSocketDir(), 1)
	defer sim.Close()
	sim.CreateTopic("t", 1, 100)
	var nBatch, refused int32
	sim.OnProduce = func(ctx *sarama.VSimProduceCtx) sarama.VSimProduceAction {
		n := int(atomic.AddInt32(&nBatch, 1))
		if n > fresh1 {
			time.Sleep(time.Duration(delayMs) * time.Millisecond)
		}
		if n > fresh1 && n-fresh1 >= refuseAt && n-fresh1 < refuseAt+refusals {
			atomic.StoreInt32(&refused, 1)
			return sarama.VSimProduceAction{Kind: sarama.VPErrNoAppend, Code: sarama.ErrNotEnoughReplicas}
		}
		return sarama.VSimProduceAction{}
	}
	conf := sarama.NewConfig()
	conf.ClientID = "vreuse"
	conf.Version = sarama.V0_11_0_0
	sim.ConfigureNet(conf)
	conf.Producer.Return.Successes = true
	conf.Producer.Return.Errors = true
	conf.Producer.Retry.Max = 6
	conf.Producer.Retry.Backoff = 5 * time.Millisecond // the window in which fresh input is parked behind the retried messages
	conf.Producer.Partitioner = sarama.NewManualPartitioner
	conf.Metadata.Retry.Backoff = time.Millisecond
	if idem {
		conf.Producer.Idempotent = true
		conf.Producer.RequiredAcks = sarama.WaitForAll
		conf.Net.MaxOpenRequests = 1
	}
	if flush > 0 {
		conf.Producer.Flush.Messages = flush
		conf.Producer.Flush.Frequency = 2 * time.Millisecond
	}
	// steering: the partition worker is held where it enters the retrying state until the application has
	// sent again an object it got back, so that this submission is parked behind the retried messages
	sink := newSink()
	defer sink.retire()
	var hwmParked, reusedSent, submitDone int32
	sink.addRule(&steerRule{Name: "newhwm-reuse", Point: "pp.newhwm", Nth: 1,
		OnPark:  func(ev *hookEv) { atomic.StoreInt32(&hwmParked, 1) },
		Until:   func() bool { return atomic.LoadInt32(&reusedSent) == 1 || atomic.LoadInt32(&submitDone) == 1 },
		MaxPark: 300 * time.Millisecond})
	p, err := sarama.NewAsyncProducer(sim.Addrs(), conf)
	if err != nil {
		rec.Verdict, rec.Why = "inconclusive", "producer not created: "+err.Error()
		return rec
	}
	type outcome struct {
		id  int
		err error
	}
	var mu sync.Mutex
	outcomes := map[int][]outcome{}
	var returned []*sarama.ProducerMessage // objects the application has back in its hands
	var got int64
	done := make(chan struct{})
	go func() {
		defer close(done)
		succ, errs := p.Successes(), p.Errors()
		for succ != nil || errs != nil {
			select {
			case m, ok := <-succ:
				if !ok {
					succ = nil
					continue
				}
				mu.Lock()
				id := m.Metadata.(int)
				outcomes[id] = append(outcomes[id], outcome{id, nil})
				returned = append(returned, m)
				mu.Unlock()
				atomic.AddInt64(&got, 1)
			case e, ok := <-errs:
				if !ok {
					errs = nil
					continue
				}
				mu.Lock()
				id := e.Msg.Metadata.(int)
				outcomes[id] = append(outcomes[id], outcome{id, e.Err})
				returned = append(returned, e.Msg)
				mu.Unlock()
				atomic.AddInt64(&got, 1)
			}
		}
	}()
	nextID := 0
	submit := func(m *sarama.ProducerMessage) {
		id := nextID
		nextID++
		m.Topic, m.Partition = "t", 0
		m.Key = nil
		m.Value = sarama.ByteEncoder([]byte(fmt.Sprintf("%d:%s", id, randBytes(rng, 4))))
		m.Metadata = id
		p.Input() <- m
	}
	waitFor := func(n int64) bool {
		t0 := time.Now()
		for atomic.LoadInt64(&got) < n {
			if time.Since(t0) > 20*time.Second {
				return false
			}
			time.Sleep(200 * time.Microsecond)
		}
		return true
	}
	for i := 0; i < fresh1; i++ {
		submit(&sarama.ProducerMessage{})
		if !waitFor(int64(i + 1)) { // one request each: the refusal lands in the second phase
			break
		}
	}
	reused := 0
	reusedOnce := false
	for i := 0; i < tail; i++ {
		var m *sarama.ProducerMessage
		// objects handed back earlier are sent again once a batch has been refused: that is when the
		// partition is retrying and fresh input is parked behind the retried messages
		if atomic.LoadInt32(&refused) == 1 && !reusedOnce && steer {
			// wait (bounded) for the partition worker to enter the retrying state
			for w := 0; w < 500 && atomic.LoadInt32(&hwmParked) == 0; w++ {
				if w%50 == 49 {
					submit(&sarama.ProducerMessage{}) // something has to follow the refused batch for the worker to notice
				}
				time.Sleep(100 * time.Microsecond)
			}
		}
		if atomic.LoadInt32(&refused) == 1 && (!reusedOnce || i%reuseEvery == 0) {
			// the first submission after the refusal is a re-used object, the most recently returned one
			// (its old sequence number is still among the batches the cluster remembers)
			mu.Lock()
			if n := len(returned); n > 0 {
				m = returned[n-1]
				returned = returned[:n-1]
				reused++
				reusedOnce = true
			}
			mu.Unlock()
		}
		first := m != nil && reused == 1
		if m == nil {
			m = &sarama.ProducerMessage{}
		}
		submit(m)
		if first {
			atomic.StoreInt32(&reusedSent, 1)
		}
		if pauseUs > 0 {
			time.Sleep(time.Duration(pauseUs) * time.Microsecond)
		}
	}
	atomic.StoreInt32(&submitDone, 1)
	total := nextID
	complete := waitFor(int64(total))
	closed := make(chan struct{})
	go func() { p.AsyncClose(); <-done; close(closed) }()
	select {
	case <-closed:
	case <-time.After(20 * time.Second):
		complete = false
	}
	lg, _ := sim.Log("t", 0)
	inLog := map[int]int{}
	for _, r := range lg {
		if id, ok := msgIDFromRecord(r); ok {
			inLog[id]++
		}
	}
	rec.Obs["submissions"], rec.Obs["resubmitted_objects"], rec.Obs["records_in_log"] = int64(total), int64(reused), int64(len(lg))
	rec.Obs["produce_batches"] = int64(atomic.LoadInt32(&nBatch))
	if atomic.LoadInt32(&hwmParked) == 1 && reused > 0 {
		rec.Obs["resubmitted_while_the_partition_was_retrying"]++
	}
	add := func(kind, attr, msg string) {
		for _, v := range rec.Viols {
			if v.Kind == kind && v.Attr == attr {
				return
			}
		}
		rec.Viols = append(rec.Viols, proto.Viol{Kind: kind, Attr: attr, Msg: msg})
	}
	ctx := fmt.Sprintf("reuse,idem=%v", idem)
	if !complete {
		// judged as a hang by C01's generic cases; here only when outcomes are missing although everything was quiet
		rec.Verdict, rec.Why = "inconclusive", "not every submission had its outcome after 20 s"
	}
	// a failed message (possible only through time-outs of a loaded machine: the refusals stay inside the
	// retry budget) bumps the epoch, after which the pinned tree is known to deviate (open C05 findings):
	// the sequence and log oracles are for runs in which every submission succeeded
	anyErr := false
	mu.Lock()
	for _, os := range outcomes {
		for _, o := range os {
			if o.err != nil {
				anyErr = true
			}
		}
	}
	mu.Unlock()
	if anyErr {
		rec.Obs["runs_with_a_failed_message(sequence_and_log_oracles_skipped)"]++
	}
	if idem && !anyErr {
		// within one epoch every batch continues the sequence of the previous distinct batch; a batch
		// that starts below the expected number must be the exact resend of one seen before
		type rng2 struct{ first, n int32 }
		seen := map[int16]map[rng2]bool{}
		next := map[int16]int32{}
		for _, pr := range sim.Produced() {
			for _, b := range pr.Batches {
				if b.PID < 0 {
					continue
				}
				r := rng2{b.BaseSeq, int32(len(b.Recs))}
				if seen[b.Epoch] == nil {
					seen[b.Epoch] = map[rng2]bool{}
				}
				exp, started := next[b.Epoch]
				switch {
				case seen[b.Epoch][r]:
					rec.Obs["resent_batches"]++
				case started && b.BaseSeq != exp, !started && b.BaseSeq != 0:
					add("seq-gap", ctx, fmt.Sprintf("epoch %d: a batch of %d record(s) starts at sequence %d, the previous distinct batch ended at %d (ids %v); %d of %d submissions re-used an object handed back earlier", b.Epoch, len(b.Recs), b.BaseSeq, exp-1, batchIDs(b), reused, total))
				}
				if !seen[b.Epoch][r] && b.BaseSeq+int32(len(b.Recs)) > next[b.Epoch] {
					next[b.Epoch] = b.BaseSeq + int32(len(b.Recs))
				}
				seen[b.Epoch][r] = true
			}
		}
	}
	mu.Lock()
	ids := make([]int, 0, total)
	for id := 0; id < total; id++ {
		ids = append(ids, id)
	}
	sort.Ints(ids)
	for _, id := range ids {
		os := outcomes[id]
		if len(os) > 1 {
			add("double-outcome", ctx, fmt.Sprintf("submission %d got %d outcomes", id, len(os)))
		}
		if len(os) == 0 {
			continue
		}
		if anyErr {
			continue
		}
		if os[0].err == nil && inLog[id] != 1 {
			add("success-not-in-log", ctx, fmt.Sprintf("submission %d was reported successful and is in the log %d time(s); %d of %d submissions re-used an object handed back earlier", id, inLog[id], reused, total))
		}
		if inLog[id] > 1 && idem {
			add("duplicate", ctx, fmt.Sprintf("submission %d is in the log %d times", id, inLog[id]))
		}
	}
	mu.Unlock()
	rec.NonTrivial = reused > 0 && atomic.LoadInt32(&nBatch) > int32(fresh1)
	rec.Path = fmt.Sprintf("reuse|idem=%v|refuse@%d x%d|flush=%d|pause=%d|every=%d", idem, refuseAt, refusals, flush, pauseUs, reuseEvery)
	rec.Sample = map[string]interface{}{"idempotent": idem, "refused_batches_from": refuseAt, "refusals": refusals, "submissions": total, "resubmitted_objects": reused, "log_ids": inLog}
	if len(rec.Viols) > 0 {
		rec.Verdict = "violated"
	}
	return rec
}

func batchIDs(b sarama.VBatch) []int {
	var ids []int
	for _, r := range b.Recs {
		if id, ok := msgIDFromRecord(r); ok {
			ids = append(ids, id)
		}
	}
	return ids
}

// runReuseSizeCase (C16): message objects that have been through the producer once come back to the
// application, are refilled with a payload of a different size and sent again. The limits hold for
// what the object carries now: an oversize second payload is rejected, second payloads that together
// exceed MaxMessageBytes do not share a partition batch, and a small second payload on an object whose
// first payload was rejected as too large is delivered.
func runReuseSizeCase(prop, tier string, seed int64, k, idx int) proto.Rec {
	rng := rand.New(rand.NewSource(proto.SubSeed(seed, idx, "reusesize"+prop)))
	rec := proto.Rec{ID: fmt.Sprintf("%s/%s/%d/%d:reuse", prop, tier, seed, idx), Obs: map[string]int64{}}
	limit := []int{300, 1000, 5000}[rng.Intn(3)]
	version := []sarama.KafkaVersion{sarama.V0_8_2_0, sarama.V0_10_0_0, sarama.V0_11_0_0, sarama.V2_1_0_0}[rng.Intn(4)]
	overhead := 26
	if version.IsAtLeast(sarama.V0_11_0_0) {
		overhead = 36
	}
	nobj := 3 + rng.Intn(6)
	rounds := 2 + rng.Intn(2)
	flushFreq := time.Duration([]int{0, 3, 8}[rng.Intn(3)]) * time.Millisecond
	delayMs := rng.Intn(4)

	sim := sarama.VNewSim(simSocketDir(), 1)
	defer sim.Close()
	sim.CreateTopic("t", 1, 100)
	sim.OnProduce = func(ctx *sarama.VSimProduceCtx) sarama.VSimProduceAction {
		if delayMs > 0 {
			time.Sleep(time.Duration(delayMs) * time.Millisecond) // later submissions pile up and are batched
		}
		return sarama.VSimProduceAction{}
	}
	conf := sarama.NewConfig()
	conf.ClientID = "vreusesize"
	conf.Version = version
	sim.ConfigureNet(conf)
	conf.Producer.Return.Successes = true
	conf.Producer.Return.Errors = true
	conf.Producer.Retry.Max = 2
	conf.Producer.MaxMessageBytes = limit
	conf.Producer.Partitioner = sarama.NewManualPartitioner
	conf.Producer.Flush.Frequency = flushFreq
	conf.Net.MaxOpenRequests = 1
	p, err := sarama.NewAsyncProducer(sim.Addrs(), conf)
	if err != nil {
		rec.Verdict, rec.Why = "inconclusive", "producer not created: "+err.Error()
		return rec
	}
	type sub struct {
		id, kv  int
		life    int // how many payloads the object carried before this one
		outcome int // 0 none, 1 success, 2 error
		err     error
	}
	var subs []*sub
	objs := make([]*sarama.ProducerMessage, nobj)
	lives := make([]int, nobj)
	for i := range objs {
		objs[i] = &sarama.ProducerMessage{}
	}
	sizeFor := func(round int) int {
		switch rng.Intn(6) {
		case 0:
			return limit + 1 + rng.Intn(limit) // oversize
		case 1:
			return limit - overhead - rng.Intn(3) // just fits
		case 2, 3:
			return limit*6/10 + rng.Intn(limit/10) // two of these do not fit into one batch
		default:
			return 8 + rng.Intn(12)
		}
	}
	// the application's reader: outcomes are recorded on the submission the object carried then
	var got int64
	done := make(chan struct{})
	go func() {
		defer close(done)
		succ, errs := p.Successes(), p.Errors()
		for succ != nil || errs != nil {
			select {
			case m, ok := <-succ:
				if !ok {
					succ = nil
					continue
				}
				m.Metadata.(*sub).outcome = 1
				atomic.AddInt64(&got, 1)
			case e, ok := <-errs:
				if !ok {
					errs = nil
					continue
				}
				sb := e.Msg.Metadata.(*sub)
				sb.outcome, sb.err = 2, e.Err
				atomic.AddInt64(&got, 1)
			}
		}
	}()
	complete := true
	for round := 0; round < rounds && complete; round++ {
		for i, m := range objs {
			kv := sizeFor(round)
			if round == 0 && rng.Intn(3) != 0 {
				kv = 8 + rng.Intn(12) // most first payloads are small
			}
			sb := &sub{id: len(subs), kv: kv, life: lives[i]}
			lives[i]++
			subs = append(subs, sb)
			idp := []byte(fmt.Sprintf("%d:", sb.id))
			if kv < len(idp) {
				kv = len(idp)
				sb.kv = kv
			}
			m.Topic, m.Partition, m.Key = "t", 0, nil
			m.Value = sarama.ByteEncoder(append(idp, randBytes(rng, kv-len(idp))...))
			m.Metadata = sb
			p.Input() <- m
		}
		// every object of the round comes back before the next round refills it
		t0 := time.Now()
		for atomic.LoadInt64(&got) < int64(len(subs)) {
			if time.Since(t0) > 20*time.Second {
				complete = false
				break
			}
			time.Sleep(200 * time.Microsecond)
		}
	}
	closed := make(chan struct{})
	go func() { p.AsyncClose(); <-done; close(closed) }()
	select {
	case <-closed:
	case <-time.After(20 * time.Second):
		complete = false
	}
	add := func(kind, attr, msg string) {
		for _, v := range rec.Viols {
			if v.Kind == kind && v.Attr == attr {
				return
			}
		}
		rec.Viols = append(rec.Viols, proto.Viol{Kind: kind, Attr: attr, Msg: msg})
	}
	vtag := versionClass(version) + ",reuse"
	if !complete {
		rec.Verdict, rec.Why = "inconclusive", "not every submission had its outcome after 20 s"
		return rec // the reader may still be running
	}
	nearFull := false
	for _, pr := range sim.Produced() {
		kv, n := 0, 0
		var ids []int
		for _, b := range pr.Batches {
			for _, r := range b.Recs {
				kv += len(r.Key) + len(r.Value)
				n++
				if id, ok := msgIDFromRecord(r); ok && id < len(subs) {
					ids = append(ids, id)
					if subs[id].kv > limit {
						add("oversize-sent", vtag, fmt.Sprintf("submission %d with key+value=%d bytes > MaxMessageBytes=%d was sent (the object carried %d payload(s) before)", id, subs[id].kv, limit, subs[id].life))
					}
				}
			}
		}
		if n > 1 && kv > limit {
			add("batch-bytes", vtag, fmt.Sprintf("partition batch of %d messages (submissions %v) carries %d key+value bytes > MaxMessageBytes=%d", n, ids, kv, limit))
		}
		if n > 1 && kv*10 >= limit*6 {
			nearFull = true
		}
	}
	reusedBig, reusedSmallAfterBig := 0, 0
	for _, sb := range subs {
		if sb.outcome == 0 {
			continue
		}
		tooLarge := sb.err == sarama.ErrMessageSizeTooLarge
		switch {
		case sb.kv > limit:
			if sb.life > 0 {
				reusedBig++
			}
			if !tooLarge {
				add("oversize-not-rejected", vtag, fmt.Sprintf("submission %d with key+value=%d > MaxMessageBytes=%d ended with outcome=%d err=%v instead of ErrMessageSizeTooLarge (the object carried %d payload(s) before)", sb.id, sb.kv, limit, sb.outcome, sb.err, sb.life))
			}
		case sb.kv+overhead <= limit:
			if sb.life > 0 {
				reusedSmallAfterBig++
			}
			if tooLarge {
				add("spurious-reject", vtag, fmt.Sprintf("submission %d with byte size %d <= MaxMessageBytes=%d was rejected as too large (the object carried %d payload(s) before)", sb.id, sb.kv+overhead, limit, sb.life))
			}
		}
	}
	rec.Obs["submissions"], rec.Obs["reused_oversize"], rec.Obs["reused_fitting"] = int64(len(subs)), int64(reusedBig), int64(reusedSmallAfterBig)
	rec.Obs["produce_batches"] = int64(len(sim.Produced()))
	rec.NonTrivial = reusedBig > 0 || (nearFull && reusedSmallAfterBig > 0)
	rec.Path = fmt.Sprintf("reusesize|%s|limit=%d|freq=%v|rounds=%d|big=%v", versionClass(version), limit, flushFreq, rounds, reusedBig > 0)
	rec.Sample = map[string]interface{}{"limit": limit, "objects": nobj, "rounds": rounds, "submissions": len(subs), "reused_oversize": reusedBig}
	if len(rec.Viols) > 0 {
		rec.Verdict = "violated"
	}
	return rec
}
