package main

// Engine "admin" (C19): ClusterAdmin operations against the simulated cluster.
//
// One case = one (operation, Admin.Retry.Max, Kafka version, broker count)
// with many admin calls sharing one simulated cluster; every call has its own
// script of what the brokers do with the requests of that call (controller
// moves before an attempt, an error code in place of success at top level or
// per item, an item missing from the answer, a dropped connection). The
// simulated brokers log every admin request with the role the receiving broker
// had at that moment; the oracles in admin_judge.go compare that history and the
// value ClusterAdmin returned with the property statement.

import (
	"fmt"
	"math/rand"
	"sort"
	"strings"
	"sync"
	"sync/atomic"
	"time"

	"github.com/Shopify/sarama"

	"verifharness/internal/proto"
)

type admEngine struct{}

func init() { engines["admin"] = &admEngine{} }

const (
	admCreateTopic      = "CreateTopic"
	admDeleteTopic      = "DeleteTopic"
	admCreatePartitions = "CreatePartitions"
	admAlter            = "AlterPartitionReassignments"
	admListReassign     = "ListPartitionReassignments"
	admDeleteRecords    = "DeleteRecords"
	admGroupOffsets     = "ListConsumerGroupOffsets"
	admDescribeGroups   = "DescribeConsumerGroups"
	admDeleteGroup      = "DeleteConsumerGroup"
	admLogDirs          = "DescribeLogDirs"
)

var admControllerOps = []string{admCreateTopic, admDeleteTopic, admCreatePartitions, admAlter}
var admLeaderOps = []string{admDeleteRecords, admGroupOffsets, admDescribeGroups, admDeleteGroup, admLogDirs}

// request kind at the simulated broker per operation
var admKind = map[string]string{
	admCreateTopic: "create-topics", admDeleteTopic: "delete-topics", admCreatePartitions: "create-partitions",
	admAlter: "alter-reassignments", admListReassign: "list-reassignments", admDeleteRecords: "delete-records",
	admGroupOffsets: "offset-fetch", admDescribeGroups: "describe-groups", admDeleteGroup: "delete-groups", admLogDirs: "describe-log-dirs",
}

// lowest configured Kafka version with which the operation sends a request
var admMinVersion = map[string]sarama.KafkaVersion{
	admCreateTopic: sarama.V0_10_1_0, admDeleteTopic: sarama.V0_10_1_0, admCreatePartitions: sarama.V1_0_0_0,
	admAlter: sarama.V2_4_0_0, admListReassign: sarama.V2_4_0_0, admDeleteRecords: sarama.V0_11_0_0,
	admGroupOffsets: sarama.V0_10_0_0, admDescribeGroups: sarama.V0_10_0_0, admDeleteGroup: sarama.V1_1_0_0, admLogDirs: sarama.V1_0_0_0,
}

var admVersions = []sarama.KafkaVersion{sarama.V0_10_0_0, sarama.V0_10_1_0, sarama.V0_10_2_0, sarama.V0_11_0_0, sarama.V1_0_0_0,
	sarama.V1_1_0_0, sarama.V2_0_0_0, sarama.V2_4_0_0, sarama.V2_8_0_0}

var admDefaultVersion = sarama.V2_4_0_0

var admTopicCodes = []sarama.KError{sarama.ErrInvalidRequest, sarama.ErrTopicAlreadyExists, sarama.ErrInvalidPartitions,
	sarama.ErrInvalidReplicationFactor, sarama.ErrInvalidReplicaAssignment, sarama.ErrInvalidConfig, sarama.ErrPolicyViolation,
	sarama.ErrUnknownTopicOrPartition, sarama.ErrClusterAuthorizationFailed, sarama.ErrTopicAuthorizationFailed,
	sarama.ErrRequestTimedOut, sarama.ErrInvalidTopic, sarama.ErrTopicDeletionDisabled, sarama.ErrReassignmentInProgress,
	sarama.ErrNoReassignmentInProgress, sarama.ErrUnknown}

var admRecordCodes = []sarama.KError{sarama.ErrOffsetOutOfRange, sarama.ErrNotLeaderForPartition, sarama.ErrUnknownTopicOrPartition,
	sarama.ErrTopicAuthorizationFailed, sarama.ErrRequestTimedOut, sarama.ErrKafkaStorageError, sarama.ErrPolicyViolation, sarama.ErrUnknown}

var admGroupCodes = []sarama.KError{sarama.ErrNotCoordinatorForConsumer, sarama.ErrConsumerCoordinatorNotAvailable, sarama.ErrOffsetsLoadInProgress,
	sarama.ErrGroupAuthorizationFailed, sarama.ErrInvalidGroupId, sarama.ErrGroupIDNotFound, sarama.ErrNonEmptyGroup, sarama.ErrUnknown}

var admDirCodes = []sarama.KError{sarama.ErrKafkaStorageError, sarama.ErrLogDirNotFound, sarama.ErrClusterAuthorizationFailed, sarama.ErrUnknown}

var admCodeNames = map[sarama.KError]string{
	sarama.ErrNoError: "NONE", sarama.ErrUnknown: "UNKNOWN_SERVER_ERROR", sarama.ErrOffsetOutOfRange: "OFFSET_OUT_OF_RANGE",
	sarama.ErrUnknownTopicOrPartition: "UNKNOWN_TOPIC_OR_PARTITION", sarama.ErrNotLeaderForPartition: "NOT_LEADER_FOR_PARTITION",
	sarama.ErrRequestTimedOut: "REQUEST_TIMED_OUT", sarama.ErrOffsetsLoadInProgress: "COORDINATOR_LOAD_IN_PROGRESS",
	sarama.ErrConsumerCoordinatorNotAvailable: "COORDINATOR_NOT_AVAILABLE", sarama.ErrNotCoordinatorForConsumer: "NOT_COORDINATOR",
	sarama.ErrInvalidTopic: "INVALID_TOPIC_EXCEPTION", sarama.ErrInvalidGroupId: "INVALID_GROUP_ID",
	sarama.ErrTopicAuthorizationFailed: "TOPIC_AUTHORIZATION_FAILED", sarama.ErrGroupAuthorizationFailed: "GROUP_AUTHORIZATION_FAILED",
	sarama.ErrClusterAuthorizationFailed: "CLUSTER_AUTHORIZATION_FAILED", sarama.ErrTopicAlreadyExists: "TOPIC_ALREADY_EXISTS",
	sarama.ErrInvalidPartitions: "INVALID_PARTITIONS", sarama.ErrInvalidReplicationFactor: "INVALID_REPLICATION_FACTOR",
	sarama.ErrInvalidReplicaAssignment: "INVALID_REPLICA_ASSIGNMENT", sarama.ErrInvalidConfig: "INVALID_CONFIG",
	sarama.ErrNotController: "NOT_CONTROLLER", sarama.ErrInvalidRequest: "INVALID_REQUEST", sarama.ErrPolicyViolation: "POLICY_VIOLATION",
	sarama.ErrKafkaStorageError: "KAFKA_STORAGE_ERROR", sarama.ErrLogDirNotFound: "LOG_DIR_NOT_FOUND",
	sarama.ErrReassignmentInProgress: "REASSIGNMENT_IN_PROGRESS", sarama.ErrNonEmptyGroup: "NON_EMPTY_GROUP",
	sarama.ErrGroupIDNotFound: "GROUP_ID_NOT_FOUND", sarama.ErrTopicDeletionDisabled: "TOPIC_DELETION_DISABLED",
	sarama.ErrNoReassignmentInProgress: "NO_REASSIGNMENT_IN_PROGRESS",
}

func admCodeName(c sarama.KError) string {
	if n, ok := admCodeNames[c]; ok {
		return n
	}
	return fmt.Sprintf("code%d", int16(c))
}

// what a broker does with one request of a call
const (
	asProceed = iota
	asItemCode
	asTopCode
	asOmit
	asDropBefore
	asDropAfter
	asMoveCoordinator // ListConsumerGroupOffsets: the group moves before the request is handled
)

var admStepNames = []string{"ok", "item", "top", "omit", "dropB", "dropA", "moveco"}

// admStep applies to the i-th request of a controller-bound call.
type admStep struct {
	Move bool // the controller moves to the next broker before the request is handled
	Kind int
	Code sarama.KError
}

// admFault applies to the requests of a leader/coordinator-bound call that arrive at Broker (0 = any).
type admFault struct {
	Kind   int
	Broker int32
	Item   string // "" = every item of the request
	Code   sarama.KError
}

type admCall struct {
	Op            string
	Steps         []admStep
	Organic       bool // the precondition is arranged so that the broker itself refuses (no injection)
	ValidateOnly  bool
	UseAssignment bool
	// leader / coordinator-bound input
	Parts     []int32            // DeleteRecords: partitions (offset = 3 + partition)
	Groups    int                // DescribeConsumerGroups: how many of the case's groups
	TP        map[string][]int32 // ListConsumerGroupOffsets (nil = all)
	BrokerIDs []int32            // DescribeLogDirs
	Fault     admFault
	// Readdress (coordinator-bound operations on a shared admin): before the call the broker that coordinates
	// the call's (first) group gets a new address; the admin's metadata still lists the old one, which is gone
	Readdress bool
}

func (c *admCall) preString() string {
	var b strings.Builder
	for _, s := range c.Steps {
		switch {
		case s.Move:
			b.WriteByte('M')
		case s.Code == sarama.ErrNotController && (s.Kind == asItemCode || s.Kind == asTopCode):
			b.WriteByte('N')
		}
	}
	return b.String()
}

// finalString names what the last scripted step / the fault does.
func (c *admCall) finalString() string {
	k, code := asProceed, sarama.ErrNoError
	if len(c.Steps) > 0 {
		last := c.Steps[len(c.Steps)-1]
		if !last.Move && !(last.Code == sarama.ErrNotController && (last.Kind == asItemCode || last.Kind == asTopCode)) {
			k, code = last.Kind, last.Code
		}
	}
	if c.Fault.Kind != asProceed {
		k, code = c.Fault.Kind, c.Fault.Code
	}
	s := admStepNames[k]
	if k == asItemCode || k == asTopCode {
		s += ":" + admCodeName(code)
	}
	if c.Fault.Kind != asProceed {
		if c.Fault.Item != "" {
			s += "@one"
		} else {
			s += "@all"
		}
	}
	if c.Organic {
		s += "+organic"
	}
	if c.ValidateOnly {
		s += "+validate"
	}
	if c.UseAssignment {
		s += "+assign"
	}
	return s
}

type admCase struct {
	Name     string
	Op       string
	RetryMax int
	Version  sarama.KafkaVersion
	Brokers  int
	Shared   bool // one ClusterAdmin for all the calls of the case
	Conc     int  // > 1: that many calls run concurrently on one ClusterAdmin (controller-bound operations only)
	// PartialMeta: Metadata.Full = false, and the admin is built on a Client the application has used before
	// (it looked up a topic that does not exist): refreshes only cover the topics that client tracks
	PartialMeta bool
	// Elect: after every controller move the next metadata answer reports no controller (the election is
	// still running when the admin refreshes), the one after that the new controller
	Elect bool
	Calls []*admCall
}

// ---------------------------------------------------------------- generators

type admFinal struct {
	steps    []admStep
	organic  bool
	validate bool
	assign   bool
	core     bool // kept in the reduced enumeration for every number of moves
}

func admControllerFinals(op string, drops bool) []admFinal {
	var out []admFinal
	out = append(out, admFinal{core: true})
	for _, c := range admTopicCodes {
		if op == admAlter {
			out = append(out, admFinal{steps: []admStep{{Kind: asTopCode, Code: c}}})
		}
		out = append(out, admFinal{steps: []admStep{{Kind: asItemCode, Code: c}}})
	}
	nc := asItemCode
	if op == admAlter {
		nc = asTopCode
	}
	// NOT_CONTROLLER answered by the controller itself (it stays the controller), then success / an error
	out = append(out, admFinal{steps: []admStep{{Kind: nc, Code: sarama.ErrNotController}, {}}, core: true})
	out = append(out, admFinal{steps: []admStep{{Kind: nc, Code: sarama.ErrNotController}, {Kind: asItemCode, Code: sarama.ErrPolicyViolation}}})
	out = append(out, admFinal{steps: []admStep{{Kind: asOmit}}, core: true})
	if drops {
		out = append(out, admFinal{steps: []admStep{{Kind: asDropBefore}}})
		out = append(out, admFinal{steps: []admStep{{Kind: asDropAfter}}})
	}
	out = append(out, admFinal{organic: true})
	if op == admCreateTopic || op == admCreatePartitions {
		out = append(out, admFinal{validate: true})
		out = append(out, admFinal{assign: true})
	}
	return out
}

// admControllerCalls enumerates moves m = 0 … R+1 before the final answer.
// full: every final for every m; otherwise every final for m <= 1 and a
// rotating fifth of the codes (plus the core finals) beyond.
func admControllerCalls(op string, R int, full, drops bool) []*admCall {
	var out []*admCall
	finals := admControllerFinals(op, drops)
	for m := 0; m <= R+1; m++ {
		for fi, f := range finals {
			if !full && m >= 2 && !f.core && fi%5 != m%5 {
				continue
			}
			var steps []admStep
			for i := 0; i < m; i++ {
				steps = append(steps, admStep{Move: true})
			}
			steps = append(steps, f.steps...)
			out = append(out, &admCall{Op: op, Steps: steps, Organic: f.organic, ValidateOnly: f.validate, UseAssignment: f.assign})
		}
	}
	return out
}

func admListReassignCalls() []*admCall {
	var out []*admCall
	for m := 0; m <= 0; m++ {
		var pre []admStep
		if m == 1 {
			pre = []admStep{{Move: true}}
		}
		out = append(out, &admCall{Op: admListReassign, Steps: append([]admStep(nil), pre...)})
		// ListPartitionReassignments is not among the controller-bound operations the
		// statement enumerates: only its fault-free routing is exercised, error
		// surfacing is not judged (the pinned tree ignores the top-level error code there).
	}
	return out
}

const admRecordParts = 6
const admGroupsPerCase = 5

func admOwnerOfPartition(p int32, B int) int32 { return int32(int(p)%B) + 1 }
func admOwnerOfGroup(k, B int) int32           { return int32(k%B) + 1 }

// admLeaderCalls enumerates inputs x faults for a leader/coordinator-bound operation on B brokers.
func admLeaderCalls(op string, B int, version sarama.KafkaVersion, full bool) []*admCall {
	var out []*admCall
	add := func(c admCall, f admFault) {
		c.Op = op
		c.Fault = f
		cc := c
		out = append(out, &cc)
	}
	rot := 0
	switch op {
	case admDeleteRecords:
		inputs := [][]int32{{0, 1, 2, 3, 4, 5}, {0}, {1, 2}, {0, int32(B % admRecordParts)}}
		for _, in := range inputs {
			base := admCall{Parts: in}
			add(base, admFault{})
			for ci, code := range admRecordCodes {
				for j, p := range in {
					if !full && j != (ci+rot)%len(in) {
						continue
					}
					add(base, admFault{Kind: asItemCode, Code: code, Item: fmt.Sprintf("%d", p), Broker: admOwnerOfPartition(p, B)})
				}
				rot++
			}
			for j, p := range in {
				if !full && j != rot%len(in) {
					continue
				}
				b := admOwnerOfPartition(p, B)
				add(base, admFault{Kind: asItemCode, Code: sarama.ErrKafkaStorageError, Broker: b})
				add(base, admFault{Kind: asDropBefore, Broker: b})
				add(base, admFault{Kind: asDropAfter, Broker: b})
				add(base, admFault{Kind: asOmit, Broker: b})
				add(base, admFault{Kind: asOmit, Broker: b, Item: fmt.Sprintf("%d", p)})
				oc := base
				oc.Organic = true
				add(oc, admFault{Item: fmt.Sprintf("%d", p)})
			}
			rot++
		}
	case admGroupOffsets:
		inputs := []map[string][]int32{{"ot": {0, 1, 2}}, {"ot": {1}}, {"ot": {0, 5}, "ou": {0}}}
		if version.IsAtLeast(sarama.V0_10_2_0) {
			inputs = append(inputs, nil)
		}
		for _, in := range inputs {
			base := admCall{TP: in}
			add(base, admFault{})
			for _, code := range admGroupCodes {
				if in == nil && !version.IsAtLeast(sarama.V0_10_2_0) {
					continue
				}
				add(base, admFault{Kind: asItemCode, Code: code})
			}
			add(base, admFault{Kind: asMoveCoordinator})
			add(base, admFault{Kind: asDropBefore})
			add(base, admFault{Kind: asOmit})
		}
	case admDescribeGroups:
		for _, n := range []int{admGroupsPerCase, 1, 2} {
			base := admCall{Groups: n}
			add(base, admFault{})
			for ci, code := range admGroupCodes {
				for j := 0; j < n; j++ {
					if !full && j != (ci+rot)%n {
						continue
					}
					add(base, admFault{Kind: asItemCode, Code: code, Item: fmt.Sprint(j), Broker: admOwnerOfGroup(j, B)})
				}
			}
			rot++
			for j := 0; j < n; j++ {
				if !full && j != rot%n {
					continue
				}
				b := admOwnerOfGroup(j, B)
				add(base, admFault{Kind: asItemCode, Code: sarama.ErrOffsetsLoadInProgress, Broker: b})
				add(base, admFault{Kind: asDropBefore, Broker: b})
				add(base, admFault{Kind: asOmit, Broker: b, Item: fmt.Sprint(j)})
			}
			oc := base
			oc.Organic = true // the groups do not exist: described as Dead without error
			add(oc, admFault{})
		}
	case admDeleteGroup:
		base := admCall{}
		add(base, admFault{})
		for _, code := range admGroupCodes {
			add(base, admFault{Kind: asItemCode, Code: code})
		}
		add(base, admFault{Kind: asDropBefore})
		add(base, admFault{Kind: asDropAfter})
		add(base, admFault{Kind: asOmit})
		oc := base
		oc.Organic = true // the group does not exist: GROUP_ID_NOT_FOUND
		add(oc, admFault{})
	case admLogDirs:
		all := []int32{}
		for b := 1; b <= B; b++ {
			all = append(all, int32(b))
		}
		inputs := [][]int32{all, {1}, {int32(B)}}
		if B >= 3 {
			inputs = append(inputs, []int32{int32(B), 1})
		}
		for _, in := range inputs {
			base := admCall{BrokerIDs: in}
			add(base, admFault{})
			for ci, code := range admDirCodes {
				for j, b := range in {
					if !full && j != (ci+rot)%len(in) {
						continue
					}
					add(base, admFault{Kind: asItemCode, Code: code, Broker: b})
				}
			}
			rot++
			for j, b := range in {
				if !full && j != rot%len(in) {
					continue
				}
				add(base, admFault{Kind: asDropBefore, Broker: b})
				add(base, admFault{Kind: asOmit, Broker: b})
			}
		}
	}
	return out
}

// admVersionCalls is the small set run for every (operation, Kafka version).
func admVersionCalls(op string, B int, version sarama.KafkaVersion) []*admCall {
	switch op {
	case admCreateTopic, admDeleteTopic, admCreatePartitions, admAlter:
		var out []*admCall
		for m := 0; m <= 1; m++ {
			var pre []admStep
			if m == 1 {
				pre = []admStep{{Move: true}}
			}
			out = append(out, &admCall{Op: op, Steps: append([]admStep(nil), pre...)})
			out = append(out, &admCall{Op: op, Steps: append(append([]admStep(nil), pre...), admStep{Kind: asItemCode, Code: sarama.ErrPolicyViolation})})
		}
		out = append(out, &admCall{Op: op, Organic: true})
		out = append(out, &admCall{Op: op, Steps: []admStep{{Kind: asOmit}}})
		if op == admCreateTopic {
			out = append(out, &admCall{Op: op, ValidateOnly: true})
		}
		return out
	case admListReassign:
		return admListReassignCalls()
	}
	calls := admLeaderCalls(op, B, version, false)
	// every 4th call, always including the first (clean) one
	var out []*admCall
	for i, c := range calls {
		if i%4 == 0 {
			out = append(out, c)
		}
	}
	return out
}

func admCore(tier string) []admCase {
	var out []admCase
	full := tier == "thorough"
	for _, op := range admControllerOps {
		for _, R := range []int{0, 1, 2, 5} {
			out = append(out, admCase{Name: fmt.Sprintf("ctl/%s/R%d", op, R), Op: op, RetryMax: R, Version: admDefaultVersion, Brokers: 3,
				Calls: admControllerCalls(op, R, full, true)})
		}
	}
	// one admin client for the whole case (cached controller / coordinators survive between calls)
	for _, op := range admControllerOps {
		for _, R := range []int{1, 3} {
			out = append(out, admCase{Name: fmt.Sprintf("ctl-shared/%s/R%d", op, R), Op: op, RetryMax: R, Version: admDefaultVersion, Brokers: 4, Shared: true,
				Calls: admControllerCalls(op, R, false, false)})
		}
	}
	// Metadata.Full = false on a client that has looked up a missing topic before: controller refreshes are partial
	for _, op := range admControllerOps {
		for _, shared := range []bool{false, true} {
			out = append(out, admCase{Name: fmt.Sprintf("ctl-partial/%s/R2/shared=%v", op, shared), Op: op, RetryMax: 2, Version: admDefaultVersion, Brokers: 3, Shared: shared, PartialMeta: true,
				Calls: admControllerCalls(op, 2, false, false)})
		}
	}
	// the refresh after NOT_CONTROLLER is answered in the middle of the election (controller -1)
	for _, op := range admControllerOps {
		for _, R := range []int{1, 2} {
			for _, shared := range []bool{false, true} {
				out = append(out, admCase{Name: fmt.Sprintf("ctl-elect/%s/R%d/shared=%v", op, R, shared), Op: op, RetryMax: R, Version: admDefaultVersion, Brokers: 3, Shared: shared, Elect: true,
					Calls: admControllerCalls(op, R, false, false)})
			}
		}
	}
	// several goroutines call one ClusterAdmin while the controller moves under them
	for _, op := range admControllerOps {
		out = append(out, admCase{Name: fmt.Sprintf("ctl-conc/%s/R3", op), Op: op, RetryMax: 3, Version: admDefaultVersion, Brokers: 3, Shared: true, Conc: 4,
			Calls: admControllerCalls(op, 3, false, false)})
	}
	out = append(out, admCase{Name: "ctl/ListPartitionReassignments", Op: admListReassign, RetryMax: 2, Version: admDefaultVersion, Brokers: 3, Calls: admListReassignCalls()})
	for _, op := range admLeaderOps {
		for B := 1; B <= 4; B++ {
			v := admDefaultVersion
			out = append(out, admCase{Name: fmt.Sprintf("own/%s/B%d", op, B), Op: op, RetryMax: 2, Version: v, Brokers: B, Calls: admLeaderCalls(op, B, v, full)})
			if B == 3 {
				out = append(out, admCase{Name: fmt.Sprintf("own-shared/%s/B%d", op, B), Op: op, RetryMax: 2, Version: v, Brokers: B, Shared: true, Calls: admLeaderCallsNoDrops(admLeaderCalls(op, B, v, false))})
			}
			if B >= 2 && (op == admGroupOffsets || op == admDescribeGroups || op == admDeleteGroup) {
				// the coordinator of the next call's group changes its address between calls
				var calls []*admCall
				for i := 0; i < 6; i++ {
					c := admCall{Op: op, Readdress: i%2 == 1}
					if op == admDescribeGroups {
						c.Groups = 1 + i%2
					}
					calls = append(calls, &c)
				}
				out = append(out, admCase{Name: fmt.Sprintf("own-readdress/%s/B%d", op, B), Op: op, RetryMax: 2, Version: v, Brokers: B, Shared: true, Calls: calls})
			}
		}
	}
	// Kafka versions that change the request versions (or make the operation unavailable)
	allOps := append(append([]string{}, admControllerOps...), admListReassign)
	allOps = append(allOps, admLeaderOps...)
	for _, op := range allOps {
		for _, v := range admVersions {
			B := 2
			out = append(out, admCase{Name: fmt.Sprintf("ver/%s/%s", op, v), Op: op, RetryMax: 2, Version: v, Brokers: B, Calls: admVersionCalls(op, B, v)})
		}
	}
	if full {
		// versions x Retry.Max x spreads with the reduced enumeration
		for _, op := range admControllerOps {
			for _, v := range admVersions {
				if !v.IsAtLeast(admMinVersion[op]) {
					continue
				}
				for _, R := range []int{0, 1, 2, 5} {
					for B := 1; B <= 4; B++ {
						out = append(out, admCase{Name: fmt.Sprintf("ctl-x/%s/R%d/%s/B%d", op, R, v, B), Op: op, RetryMax: R, Version: v, Brokers: B, Shared: (B+R)%2 == 0,
							Calls: admControllerCalls(op, R, false, (B+R)%2 != 0)})
					}
				}
			}
		}
		for _, op := range admLeaderOps {
			for _, v := range admVersions {
				if !v.IsAtLeast(admMinVersion[op]) {
					continue
				}
				for B := 1; B <= 4; B++ {
					out = append(out, admCase{Name: fmt.Sprintf("own-x/%s/%s/B%d", op, v, B), Op: op, RetryMax: B % 3, Version: v, Brokers: B, Calls: admLeaderCalls(op, B, v, false)})
				}
			}
		}
	}
	return out
}

func admLeaderCallsNoDrops(in []*admCall) []*admCall {
	var out []*admCall
	for _, c := range in {
		if c.Fault.Kind == asDropBefore || c.Fault.Kind == asDropAfter {
			continue
		}
		out = append(out, c)
	}
	return out
}

func admRandomCount(tier string) int {
	if tier == "thorough" {
		return 640
	}
	return 48
}

// admRandomCase draws an operation, Retry.Max, version, broker count and per
// call an arbitrary script (moves, NOT_CONTROLLER at the controller, codes,
// omissions and drops in any order).
func admRandomCase(seed int64, idx int, tier string) admCase {
	rng := rand.New(rand.NewSource(proto.SubSeed(seed, idx, "admin-random")))
	allOps := append(append([]string{}, admControllerOps...), admLeaderOps...)
	op := allOps[rng.Intn(len(allOps))]
	var vs []sarama.KafkaVersion
	for _, v := range admVersions {
		if v.IsAtLeast(admMinVersion[op]) {
			vs = append(vs, v)
		}
	}
	cs := admCase{Op: op, RetryMax: rng.Intn(7), Version: vs[rng.Intn(len(vs))], Brokers: 1 + rng.Intn(4), Shared: rng.Intn(2) == 0}
	if cs.Shared && rng.Intn(3) == 0 {
		cs.Conc = 2 + rng.Intn(3)
	}
	// not together with concurrent callers: a caller that finds the controller just deregistered by another one
	// refreshes by itself, and with partial metadata that refresh reports the missing topic's error to the
	// operation - a client-side effect of concurrent use, which is counted, not judged (like ErrNotConnected)
	cs.PartialMeta = cs.Conc <= 1 && rng.Intn(6) == 0
	n := 12
	if tier == "thorough" {
		n = 24
	}
	isCtl := false
	for _, o := range admControllerOps {
		if o == op {
			isCtl = true
		}
	}
	if isCtl {
		for i := 0; i < n; i++ {
			c := &admCall{Op: op}
			k := rng.Intn(cs.RetryMax + 3)
			if rng.Intn(3) == 0 {
				k = rng.Intn(2)
			}
			top := op == admAlter
			for j := 0; j < k; j++ {
				switch r := rng.Intn(10); {
				case r < 6:
					c.Steps = append(c.Steps, admStep{Move: true})
				case r < 8:
					kind := asItemCode
					if top {
						kind = asTopCode
					}
					c.Steps = append(c.Steps, admStep{Kind: kind, Code: sarama.ErrNotController})
				default:
					c.Steps = append(c.Steps, admStep{Move: true, Kind: asItemCode, Code: admTopicCodes[rng.Intn(len(admTopicCodes))]})
				}
			}
			switch r := rng.Intn(20); {
			case r < 7:
			case r < 13:
				kind := asItemCode
				if top && rng.Intn(2) == 0 {
					kind = asTopCode
				}
				c.Steps = append(c.Steps, admStep{Kind: kind, Code: admTopicCodes[rng.Intn(len(admTopicCodes))]})
			case r < 15:
				c.Steps = append(c.Steps, admStep{Kind: asOmit})
			case r < 16 && !cs.Shared:
				c.Steps = append(c.Steps, admStep{Kind: asDropBefore})
			case r < 17 && !cs.Shared:
				c.Steps = append(c.Steps, admStep{Kind: asDropAfter})
			case r < 18:
				c.Organic = true
			case r < 19 && (op == admCreateTopic || op == admCreatePartitions):
				c.ValidateOnly = true
			default:
				if op == admCreateTopic || op == admCreatePartitions {
					c.UseAssignment = true
				}
			}
			cs.Calls = append(cs.Calls, c)
		}
	} else {
		calls := admLeaderCalls(op, cs.Brokers, cs.Version, true)
		if cs.Shared {
			calls = admLeaderCallsNoDrops(calls)
		}
		for i := 0; i < n; i++ {
			cs.Calls = append(cs.Calls, calls[rng.Intn(len(calls))])
		}
	}
	cs.Name = fmt.Sprintf("rnd/%s/R%d/%s/B%d/shared=%v/conc=%d/partial=%v", op, cs.RetryMax, cs.Version, cs.Brokers, cs.Shared, cs.Conc, cs.PartialMeta)
	return cs
}

func (e *admEngine) Count(prop, tier string, seed int64) int {
	return len(admCore(tier)) + admRandomCount(tier)
}

func (e *admEngine) Run(prop, tier string, seed int64, idx int) proto.Rec {
	core := admCore(tier)
	var cs admCase
	if idx < len(core) {
		cs = core[idx]
	} else {
		cs = admRandomCase(seed, idx, tier)
	}
	return admRunCase(&cs)
}

// ---------------------------------------------------------------- runner

type admCallRun struct {
	idx   int
	call  *admCall
	kind  string
	seen  int // requests of this call's kind seen so far
	mark  int64
	topic string
	group string
	names []string // DescribeConsumerGroups input
	// coordinator facts recorded when an offset-fetch arrives
	coordAtArrival []int32
	B              int
	assignment     [][]int32
	out            admOutcome
	readdressed    int32 // broker that got a new address just before the call (0 = none)
}

// owns tells whether a request with these items belongs to this call.
func (c *admCallRun) owns(kind string, items []string) bool {
	if kind != c.kind {
		return false
	}
	if c.topic == "" || len(items) == 0 {
		return true
	}
	for _, it := range items {
		if it == c.topic || strings.HasPrefix(it, c.topic+"/") {
			return true
		}
	}
	return false
}

func (r *admRun) findCur(kind string, items []string) *admCallRun {
	for _, c := range r.curs {
		if c.owns(kind, items) {
			return c
		}
	}
	return nil
}

type admOutcome struct {
	err     error
	groups  []*sarama.GroupDescription
	offsets *sarama.OffsetFetchResponse
	dirs    map[int32][]sarama.DescribeLogDirsResponseDirMetadata
	list    map[string]map[int32]*sarama.PartitionReplicaReassignmentsStatus
	stuck   bool
	slow    bool
	parked  []string
}

type admRun struct {
	cs     *admCase
	sim    *sarama.VSim
	sink   *hookSink
	mu     sync.Mutex
	curs   []*admCallRun
	shared sarama.ClusterAdmin
	vs     violSet
	obs    map[string]int64
	paths  map[string]bool
	traces []string
	incon  string
}

func (r *admRun) conf() *sarama.Config {
	conf := sarama.NewConfig()
	conf.ClientID = "vadmin"
	conf.Version = r.cs.Version
	r.sim.ConfigureNet(conf)
	conf.Admin.Retry.Max = r.cs.RetryMax
	conf.Admin.Retry.Backoff = time.Millisecond
	conf.Metadata.Retry.Backoff = time.Millisecond
	conf.Metadata.Retry.Max = 3
	conf.Metadata.RefreshFrequency = 0
	if r.cs.PartialMeta {
		conf.Metadata.Full = false
	}
	conf.Net.DialTimeout = 5 * time.Second
	conf.Net.ReadTimeout = 10 * time.Second
	conf.Net.WriteTimeout = 10 * time.Second
	return conf
}

// newAdmin builds the ClusterAdmin of a case.
func (r *admRun) newAdmin() (sarama.ClusterAdmin, error) {
	if !r.cs.PartialMeta {
		return sarama.NewClusterAdmin(r.sim.Addrs(), r.conf())
	}
	client, err := sarama.NewClient(r.sim.Addrs(), r.conf())
	if err != nil {
		return nil, err
	}
	_, _ = client.Partitions("never-created") // an earlier, unsuccessful lookup by the application
	return sarama.NewClusterAdminFromClient(client)
}

func (r *admRun) nextBroker(cur int32) int32 { return cur%int32(r.cs.Brokers) + 1 }

func (r *admRun) onAdmin(ctx *sarama.VSimAdminCtx) sarama.VSimAdminAction {
	r.mu.Lock()
	defer r.mu.Unlock()
	c := r.findCur(ctx.Kind, ctx.Items)
	act := sarama.VSimAdminAction{}
	if c == nil {
		return act
	}
	i := c.seen
	c.seen++
	call := c.call
	if len(call.Steps) > 0 || isAdmControllerOp(call.Op) {
		if i >= len(call.Steps) {
			return act
		}
		st := call.Steps[i]
		if st.Move && r.cs.Brokers > 1 {
			act.MoveTo = r.nextBroker(ctx.Controller)
			if r.cs.Elect {
				act.Electing = 1
			}
		} else if st.Move {
			// a single broker cannot hand the controller role over: it answers NOT_CONTROLLER itself
			act.Kind, act.Code = sarama.VAError, sarama.ErrNotController
			if ctx.Kind != "alter-reassignments" && ctx.Kind != "list-reassignments" {
				act.Kind, act.ItemCodes = sarama.VAItemErrors, map[string]sarama.KError{}
				for _, it := range ctx.Items {
					act.ItemCodes[it] = sarama.ErrNotController
				}
			}
			return act
		}
		switch st.Kind {
		case asItemCode:
			act.Kind, act.ItemCodes = sarama.VAItemErrors, map[string]sarama.KError{}
			for _, it := range ctx.Items {
				act.ItemCodes[it] = st.Code
			}
		case asTopCode:
			act.Kind, act.Code = sarama.VAError, st.Code
		case asOmit:
			act.Kind = sarama.VAOmit
			if len(ctx.Items) > 1 {
				act.Omit = ctx.Items[len(ctx.Items)-1:]
			}
		case asDropBefore:
			act.Kind = sarama.VADropBefore
		case asDropAfter:
			act.Kind = sarama.VADropAfter
		}
		return act
	}
	f := call.Fault
	if f.Kind == asProceed || (f.Broker != 0 && f.Broker != ctx.Broker) {
		return act
	}
	item := ""
	if f.Item != "" {
		item = c.itemKey(f.Item)
	}
	switch f.Kind {
	case asItemCode:
		act.Kind, act.ItemCodes = sarama.VAItemErrors, map[string]sarama.KError{}
		for _, it := range ctx.Items {
			if item == "" || it == item {
				act.ItemCodes[it] = f.Code
			}
		}
	case asOmit:
		act.Kind = sarama.VAOmit
		if item != "" {
			act.Omit = []string{item}
		}
	case asDropBefore:
		act.Kind = sarama.VADropBefore
	case asDropAfter:
		act.Kind = sarama.VADropAfter
	}
	return act
}

// itemKey maps a fault's item reference to the item name the broker sees.
func (c *admCallRun) itemKey(ref string) string {
	switch c.call.Op {
	case admDeleteRecords:
		return c.topic + "/" + ref
	case admDescribeGroups:
		var j int
		fmt.Sscanf(ref, "%d", &j)
		if j < len(c.names) {
			return c.names[j]
		}
	}
	return ref
}

func (r *admRun) onGroup(ctx *sarama.VSimGroupCtx) sarama.VSimGroupAction {
	r.mu.Lock()
	defer r.mu.Unlock()
	var c *admCallRun
	if len(r.curs) == 1 {
		c = r.curs[0]
	}
	act := sarama.VSimGroupAction{}
	if c == nil || c.call.Op != admGroupOffsets || ctx.Kind != "offset-fetch" || ctx.Group != c.group {
		return act
	}
	c.seen++
	co := r.sim.Coordinator(ctx.Group)
	c.coordAtArrival = append(c.coordAtArrival, co)
	f := c.call.Fault
	switch f.Kind {
	case asItemCode:
		act.Kind, act.Code = sarama.VGError, f.Code
	case asMoveCoordinator:
		act.Kind, act.MoveTo = sarama.VGMoveCoordinator, r.nextBroker(co)
	case asDropBefore:
		act.Kind = sarama.VGDropBefore
	case asOmit:
		act.Kind = sarama.VGOmitBlocks
	}
	return act
}

func isAdmControllerOp(op string) bool {
	for _, o := range admControllerOps {
		if o == op {
			return true
		}
	}
	return op == admListReassign
}

func admRunCase(cs *admCase) proto.Rec {
	rec := proto.Rec{Obs: map[string]int64{}}
	r := &admRun{cs: cs, obs: rec.Obs, paths: map[string]bool{}}
	r.sim = sarama.VNewSim(simSocketDir(), cs.Brokers)
	defer r.sim.Close()
	r.sink = newSink()
	defer r.sink.retire()
	r.sink.extra = func() int64 { return r.sim.Progress() }
	r.sim.OnAdmin = r.onAdmin
	r.sim.OnGroup = r.onGroup

	if cs.Shared {
		a, err := r.newAdmin()
		if err != nil {
			rec.Verdict, rec.Why = "inconclusive", "admin client not created: "+err.Error()
			return rec
		}
		r.shared = a
		defer a.Close()
	}
	var traces []map[string]interface{}
	width := 1
	if cs.Conc > 1 && cs.Shared && isAdmControllerOp(cs.Op) {
		width = cs.Conc
	}
	for i := 0; i < len(cs.Calls); i += width {
		var batch []*admCallRun
		for k := i; k < i+width && k < len(cs.Calls); k++ {
			batch = append(batch, &admCallRun{idx: k, call: cs.Calls[k], kind: admKind[cs.Calls[k].Op], B: cs.Brokers})
		}
		ts, stop := r.doBatch(batch)
		traces = append(traces, ts...)
		if stop {
			break
		}
	}
	// the sample: the first call, the first one with a controller move / NOT_CONTROLLER, the first with an error code,
	// the last one, and up to three violating ones
	var samples []map[string]interface{}
	picked := map[int]bool{}
	pick := func(f func(t map[string]interface{}) bool, max int) {
		for i, t := range traces {
			if max == 0 {
				return
			}
			if !picked[i] && f(t) {
				picked[i] = true
				samples = append(samples, t)
				max--
			}
		}
	}
	str := func(t map[string]interface{}, k string) string { v, _ := t[k].(string); return v }
	pick(func(t map[string]interface{}) bool { return strings.HasPrefix(str(t, "verdict"), "VIOL") }, 3)
	pick(func(t map[string]interface{}) bool { return true }, 1)
	pick(func(t map[string]interface{}) bool { return str(t, "pre") != "" }, 1)
	pick(func(t map[string]interface{}) bool { return strings.Contains(str(t, "final"), ":") }, 1)
	if len(traces) > 0 && !picked[len(traces)-1] {
		samples = append(samples, traces[len(traces)-1])
	}
	rec.Evals = int(r.obs["calls"])
	for p := range r.paths {
		rec.Paths = append(rec.Paths, p)
	}
	sort.Strings(rec.Paths)
	rec.NonTrivial = len(rec.Paths) > 0
	if len(rec.Paths) > 0 {
		rec.Path = rec.Paths[0]
	}
	rec.Viols = r.vs.list
	rec.Sample = map[string]interface{}{"case": cs.Name, "op": cs.Op, "retry_max": cs.RetryMax, "version": cs.Version.String(), "brokers": cs.Brokers,
		"shared_admin": cs.Shared, "concurrent_callers": cs.Conc, "calls": len(cs.Calls), "sample_calls": samples}
	if r.obs["broker_requests"] == 0 && len(rec.Viols) == 0 && r.obs["below_min_version"] == 0 {
		rec.Viols = append(rec.Viols, proto.Viol{Kind: "no-observation", Attr: cs.Op, Msg: "no admin request reached the simulated cluster in this case"})
	}
	if len(rec.Viols) == 0 && r.incon != "" {
		rec.Verdict, rec.Why = "inconclusive", r.incon
	}
	return rec
}

// prepare arranges the precondition of one call.
func (r *admRun) prepare(cr *admCallRun) {
	call := cr.call
	cs := r.cs
	B := cs.Brokers
	sim := r.sim
	id := fmt.Sprintf("%d", cr.idx)
	r.obs["calls"]++

	// ---- precondition
	var assignment [][]int32
	switch call.Op {
	case admCreateTopic:
		cr.topic = "ct" + id
		if call.Organic {
			sim.CreateTopic(cr.topic, 1, 0)
		}
	case admDeleteTopic:
		cr.topic = "dt" + id
		if !call.Organic {
			sim.CreateTopic(cr.topic, 2, 0)
		}
	case admCreatePartitions:
		cr.topic = "cp" + id
		sim.CreateTopic(cr.topic, 2, 0)
		if call.UseAssignment {
			assignment = [][]int32{{int32(B)}, {1}}
		}
	case admAlter, admListReassign:
		cr.topic = "ar" + id
		if !call.Organic {
			sim.CreateTopic(cr.topic, 2, 0)
		}
		if B >= 2 {
			assignment = [][]int32{{2, 1}, {1, 2}}
		} else {
			assignment = [][]int32{{1}, {1}}
		}
		if call.Op == admListReassign {
			sim.SetReassignment(cr.topic, 0, assignment[0])
			sim.SetReassignment(cr.topic, 1, assignment[1])
		}
	case admDeleteRecords:
		cr.topic = "dr" + id
		sim.CreateTopic(cr.topic, admRecordParts, 0)
		for p := 0; p < admRecordParts; p++ {
			recs := make([]sarama.VRec, 10)
			sim.Append(cr.topic, int32(p), recs)
		}
	case admGroupOffsets:
		cr.group = "og" + id
		sim.SetCoordinator(cr.group, admOwnerOfGroup(cr.idx, B))
		for p := 0; p < 3; p++ {
			sim.SetStoredOffset(cr.group, "ot", int32(p), int64(100+10*cr.idx+p), fmt.Sprintf("m%d", p))
		}
		sim.SetStoredOffset(cr.group, "ou", 0, int64(7000+cr.idx), "")
	case admDescribeGroups:
		for k := 0; k < call.Groups; k++ {
			name := fmt.Sprintf("dg%s-%d", id, k)
			cr.names = append(cr.names, name)
			if call.Organic {
				sim.SetCoordinator(name, admOwnerOfGroup(k, B))
			} else {
				sim.CreateGroup(name, admOwnerOfGroup(k, B), "consumer")
			}
		}
	case admDeleteGroup:
		cr.group = "xg" + id
		if call.Organic {
			sim.SetCoordinator(cr.group, admOwnerOfGroup(cr.idx, B))
		} else {
			sim.CreateGroup(cr.group, admOwnerOfGroup(cr.idx, B), "consumer")
			sim.SetStoredOffset(cr.group, "ot", 0, 5, "")
		}
	}

	if call.Readdress && r.cs.Shared {
		owner := int32(-1)
		switch call.Op {
		case admGroupOffsets, admDeleteGroup:
			owner = admOwnerOfGroup(cr.idx, B)
		case admDescribeGroups:
			owner = admOwnerOfGroup(0, B)
		}
		if owner > 0 {
			sim.Readdress(owner)
			cr.readdressed = owner
			r.obs["calls_after_coordinator_readdressed"]++
		}
	}
	cr.assignment = assignment
}

// exec performs the call through the ClusterAdmin API.
func (r *admRun) exec(cr *admCallRun, admin sarama.ClusterAdmin) {
	call := cr.call
	B := r.cs.Brokers
	assignment := cr.assignment
	out := &cr.out
	{
		switch call.Op {
		case admCreateTopic:
			d := &sarama.TopicDetail{NumPartitions: 3, ReplicationFactor: 1}
			if call.UseAssignment {
				d = &sarama.TopicDetail{NumPartitions: -1, ReplicationFactor: -1, ReplicaAssignment: map[int32][]int32{0: {1}, 1: {int32(B)}}}
			}
			out.err = admin.CreateTopic(cr.topic, d, call.ValidateOnly)
		case admDeleteTopic:
			out.err = admin.DeleteTopic(cr.topic)
		case admCreatePartitions:
			count := int32(4)
			if call.Organic {
				count = 2
			}
			out.err = admin.CreatePartitions(cr.topic, count, assignment, call.ValidateOnly)
		case admAlter:
			out.err = admin.AlterPartitionReassignments(cr.topic, assignment)
		case admListReassign:
			out.list, out.err = admin.ListPartitionReassignments(cr.topic, []int32{0, 1})
		case admDeleteRecords:
			offs := map[int32]int64{}
			for _, p := range call.Parts {
				offs[p] = 3 + int64(p)
				if call.Organic && fmt.Sprint(p) == call.Fault.Item {
					offs[p] = 999 // beyond the high watermark
				}
			}
			out.err = admin.DeleteRecords(cr.topic, offs)
		case admGroupOffsets:
			out.offsets, out.err = admin.ListConsumerGroupOffsets(cr.group, call.TP)
		case admDescribeGroups:
			out.groups, out.err = admin.DescribeConsumerGroups(cr.names)
		case admDeleteGroup:
			out.err = admin.DeleteConsumerGroup(cr.group)
		case admLogDirs:
			out.dirs, out.err = admin.DescribeLogDirs(call.BrokerIDs)
		}
	}
}

// doBatch runs one call (or several concurrent ones on the shared admin) and judges them.
func (r *admRun) doBatch(batch []*admCallRun) ([]map[string]interface{}, bool) {
	for _, cr := range batch {
		r.prepare(cr)
	}
	admin := r.shared
	if admin == nil {
		a, err := r.newAdmin()
		if err != nil {
			r.incon = "admin client not created: " + err.Error()
			return []map[string]interface{}{{"call": batch[0].idx, "verdict": "inconclusive: " + r.incon}}, true
		}
		admin = a
	}
	mark := sarama.VerifNextSeq()
	for _, cr := range batch {
		cr.mark = mark
	}
	r.mu.Lock()
	r.curs = batch
	r.mu.Unlock()

	done := make(chan struct{})
	var wg sync.WaitGroup
	finished := make([]int32, len(batch))
	for i, cr := range batch {
		wg.Add(1)
		go func(i int, cr *admCallRun) {
			defer wg.Done()
			r.exec(cr, admin)
			atomic.StoreInt32(&finished[i], 1)
		}(i, cr)
	}
	go func() { wg.Wait(); close(done) }()
	ok, stuck := waitQuiescent(done, r.sink, 10*time.Second, 60*time.Second)
	r.mu.Lock()
	r.curs = nil
	r.mu.Unlock()
	var traces []map[string]interface{}
	var parked []string
	if !ok {
		parked = parkedSaramaGoroutines()
	}
	for i, cr := range batch {
		out := &cr.out
		if !ok && atomic.LoadInt32(&finished[i]) == 0 {
			out = &admOutcome{stuck: stuck, slow: !stuck, parked: parked} // the goroutine may still write cr.out
		}
		traces = append(traces, r.judge(cr, out, cr.assignment, len(batch) > 1))
	}
	if !ok {
		restartAfterCase = true
		return traces, true
	}
	if r.shared == nil {
		admin.Close()
	}
	return traces, false
}
