package main

// Producer scenario runner shared by C01, C02, C04, C05, C16, C17 (producer
// part) and C18 (producer part). It runs the real AsyncProducer / SyncProducer
// against the simulated cluster and returns everything the monitors observed.

import (
	"bytes"
	"fmt"
	"hash/fnv"
	"math/rand"
	"os"
	"path/filepath"
	"sort"
	"strconv"
	"strings"
	"sync"
	"sync/atomic"
	"time"

	"github.com/Shopify/sarama"
)

func sortStrings(s []string) { sort.Strings(s) }

// produce-fault alphabet (consumed per partition batch that reaches its leader)
const (
	fOk = iota
	fRetryNoAppend
	fRetryAfterAppend
	fFatal
	fOmitBlock
	fDropBefore
	fDropAfter
	fSilent
	fLeaderMove    // leader moves to another broker, metadata follows; the batch is answered NOT_LEADER
	fNoLeader      // the partition loses its leader for the next few metadata answers (NOT_LEADER now, LEADER_NOT_AVAILABLE in metadata), then gets one again
	fLeaderMoveLag // as above, but the old leader keeps answering NOT_LEADER for a while before metadata follows (modelled by the same move: the client refreshes on its own)
	nFaultLetters
)

var faultNames = []string{"ok", "retry-noappend", "retry-after-append", "fatal", "omit-block", "drop-before", "drop-after", "silent", "leader-move", "no-leader", "leader-move-lag"}

var retriableNoAppend = []sarama.KError{sarama.ErrNotLeaderForPartition, sarama.ErrLeaderNotAvailable, sarama.ErrUnknownTopicOrPartition, sarama.ErrNotEnoughReplicas, sarama.ErrInvalidMessage}
var retriableAfterAppend = []sarama.KError{sarama.ErrRequestTimedOut, sarama.ErrNotEnoughReplicasAfterAppend}
var fatalCodes = []sarama.KError{sarama.ErrMessageSizeTooLarge, sarama.ErrInvalidTopic, sarama.ErrTopicAuthorizationFailed, sarama.ErrUnsupportedForMessageFormat, sarama.ErrInvalidRequiredAcks}

type msgSpec struct {
	ID      int
	Topic   string
	Part    int32 // intended partition (manual partitioner) / -1
	N       int   // per (topic, partition-or-submitter) submission index
	Key     []byte
	Value   []byte
	KeyNil  bool
	ValNil  bool
	Headers []sarama.RecordHeader
	Ts      time.Time
	Bare    bool // neither key, value nor headers: the record carries no identifier (C04 only; judged by position)
	PauseUs int
	Sub     int // submitting goroutine
}

type icSpec struct {
	Kind string // count | mutate | panic
}

type steerSpec struct {
	Kind string // newhwm-fresh | response-added | flush-fresh | bridge-overtake
	Nth  int
	K    int
}

type prodScenario struct {
	Brokers, Parts       int
	Topics               []string
	BaseOffset           int64
	Version              sarama.KafkaVersion
	RetryMax             int
	Idempotent           bool
	Acks                 sarama.RequiredAcks
	FlushMessages        int
	FlushBytes           int
	FlushMaxMessages     int
	FlushFreq            time.Duration
	Codec                sarama.CompressionCodec
	CodecLevel           int
	MaxMessageBytes      int
	MaxRequestSize       int32
	Partitioner          string
	Msgs                 []*msgSpec
	Submitters           int
	Faults               []int
	FaultCodes           []sarama.KError
	NoLeaderFor          int // fNoLeader: metadata requests the partition stays leaderless for (0 = 4 + i%5)
	MetaFail             int
	MetaFailAfterRefusal int             // this many metadata requests after the first refused produce batch die with their connection
	Leaderless           map[string]bool // "topic/part" without leader at start
	Steer                []steerSpec
	Interceptors         []icSpec
	Sync                 bool
	SyncBatch            int
	CloseMode            string // close | asyncclose
	ReadTimeout          time.Duration
	ChannelBuf           int
	Sequential           int  // > 0: submit in groups of this size and wait for the group's outcomes before the next (no fresh input inside retry windows)
	SkipClose            bool // do not close the producer (settings under which Close is known to block: judged by C01/C12, not here)
	ExpectAtCluster      int  // StopInputEarly: number of records that must reach the cluster without further input
	ProduceDelayMs       int  // the cluster takes this long to answer a produce request (batches accumulate, flush timers expire meanwhile)
	StopInputEarly       bool // C16 flush clause: do not close, wait for the request to appear
	BadPartitioner       string
}

func (sc *prodScenario) describe() map[string]interface{} {
	var fw []string
	for _, f := range sc.Faults {
		fw = append(fw, faultNames[f])
	}
	return map[string]interface{}{
		"brokers": sc.Brokers, "topics": sc.Topics, "partitions": sc.Parts, "base_offset": sc.BaseOffset, "version": sc.Version.String(),
		"retry_max": sc.RetryMax, "idempotent": sc.Idempotent, "acks": int(sc.Acks), "flush": fmt.Sprintf("msgs=%d bytes=%d max=%d freq=%v", sc.FlushMessages, sc.FlushBytes, sc.FlushMaxMessages, sc.FlushFreq),
		"codec": sc.Codec.String(), "max_message_bytes": sc.MaxMessageBytes, "max_request_size": sc.MaxRequestSize, "partitioner": sc.Partitioner,
		"messages": len(sc.Msgs), "submitters": sc.Submitters, "fault_word": fw, "meta_fail": sc.MetaFail, "steer": sc.Steer,
		"no_leader_for": sc.NoLeaderFor, "interceptors": sc.Interceptors, "sync": sc.Sync, "close": sc.CloseMode, "sequential_group": sc.Sequential,
	}
}

type subRec struct {
	Spec *msgSpec
	Ptr  *sarama.ProducerMessage
	Seq  int64 // stamp when the send on Input() completed
	Meta *msgMeta
}

type msgMeta struct{ ID int }

type outRec struct {
	Seq       int64
	Ptr       *sarama.ProducerMessage
	Success   bool
	Err       error
	Partition int32
	Offset    int64
	MetaOK    bool
	ID        int
	Via       string // chan | sync | close
	Ts        time.Time
}

type icCall struct {
	Seq int64
	Idx int
	Ptr *sarama.ProducerMessage
}

type prodResult struct {
	sc          *prodScenario
	newErr      error
	submitted   []*subRec
	byPtr       map[*sarama.ProducerMessage]*subRec
	outcomes    []*outRec
	hooks       []hookEv
	produced    []sarama.VSimProduced
	logs        map[string][][]sarama.VRec
	closeDone   bool
	stuck       bool
	stuckWho    []string
	inconcl     string
	closeErrs   int
	icCalls     []icCall
	partCalls   []partCall
	rules       []*steerRule
	syncRets    []*outRec
	wall        time.Duration
	faultsUsed  int
	events      []sarama.VSimEvent
	requestSeen int64 // C16 flush clause
}

type partCall struct {
	Seq   int64
	Ptr   *sarama.ProducerMessage
	N     int32
	Ret   int32
	Err   bool
	Keyed bool
}

var simDirOnce sync.Once
var simDir string

func simSocketDir() string {
	simDirOnce.Do(func() {
		simDir = filepath.Join(os.TempDir(), fmt.Sprintf("vsim-%d", os.Getpid()))
		os.MkdirAll(simDir, 0o755)
	})
	return simDir
}

func cleanupSimDir() {
	if simDir != "" {
		os.RemoveAll(simDir)
	}
}

// recordingPartitioner wraps a built-in partitioner and records every call.
type recordingPartitioner struct {
	inner sarama.Partitioner
	res   *prodResult
	mu    *sync.Mutex
	bad   string
}

func (p *recordingPartitioner) Partition(m *sarama.ProducerMessage, n int32) (int32, error) {
	var ret int32
	var err error
	switch p.bad {
	case "out-of-range-high":
		ret = n
	case "out-of-range-neg":
		ret = -1
	case "error":
		ret, err = 0, fmt.Errorf("scripted partitioner error")
	default:
		ret, err = p.inner.Partition(m, n)
	}
	p.mu.Lock()
	p.res.partCalls = append(p.res.partCalls, partCall{Seq: sarama.VerifNextSeq(), Ptr: m, N: n, Ret: ret, Err: err != nil, Keyed: m.Key != nil})
	p.mu.Unlock()
	return ret, err
}

func (p *recordingPartitioner) RequiresConsistency() bool { return p.inner.RequiresConsistency() }

type recordingDynPartitioner struct{ recordingPartitioner }

func (p *recordingDynPartitioner) MessageRequiresConsistency(m *sarama.ProducerMessage) bool {
	return p.inner.(sarama.DynamicConsistencyPartitioner).MessageRequiresConsistency(m)
}

type prodInterceptor struct {
	idx  int
	kind string
	res  *prodResult
	mu   *sync.Mutex
}

func (ic *prodInterceptor) OnSend(m *sarama.ProducerMessage) {
	ic.mu.Lock()
	ic.res.icCalls = append(ic.res.icCalls, icCall{Seq: sarama.VerifNextSeq(), Idx: ic.idx, Ptr: m})
	ic.mu.Unlock()
	switch ic.kind {
	case "mutate":
		// a second application is visible on the wire
		if v, ok := m.Value.(sarama.ByteEncoder); ok {
			m.Value = sarama.ByteEncoder(append(append([]byte{}, v...), []byte(fmt.Sprintf("~i%d", ic.idx))...))
		}
	case "panic":
		panic(fmt.Sprintf("scripted interceptor panic %d", ic.idx))
	}
}

func encOrNil(b []byte, isNil bool) sarama.Encoder {
	if isNil {
		return nil
	}
	return sarama.ByteEncoder(b)
}

// runProd executes one scenario.
func runProd(sc *prodScenario, rng *rand.Rand) *prodResult {
	t0 := time.Now()
	res := &prodResult{sc: sc, byPtr: map[*sarama.ProducerMessage]*subRec{}, logs: map[string][][]sarama.VRec{}}
	var mu sync.Mutex
	sim := sarama.VNewSim(simSocketDir(), sc.Brokers)
	defer sim.Close()
	for _, t := range sc.Topics {
		sim.CreateTopic(t, sc.Parts, sc.BaseOffset)
	}
	for k := range sc.Leaderless {
		parts := strings.Split(k, "/")
		p, _ := strconv.Atoi(parts[1])
		sim.SetLeader(parts[0], int32(p), -1)
	}
	sink := newSink()
	defer sink.retire()
	var appProgress int64
	sink.extra = func() int64 { return sim.Progress() + atomic.LoadInt64(&appProgress) }

	// fault word
	var fi int32
	var metaN int32
	type pendingLeader struct {
		topic  string
		part   int32
		leader int32
		after  int32 // restore once this many metadata requests have been served
	}
	var plMu sync.Mutex
	var pendingLeaders []pendingLeader
	var refusedOnce, metaFailLeft int32
	sim.OnMetadata = func(ctx *sarama.VSimReqCtx) sarama.VSimConnAction {
		plMu.Lock()
		n := atomic.LoadInt32(&metaN) + 1
		keep := pendingLeaders[:0]
		for _, pl := range pendingLeaders {
			if n > pl.after {
				sim.SetLeader(pl.topic, pl.part, pl.leader)
			} else {
				keep = append(keep, pl)
			}
		}
		pendingLeaders = keep
		plMu.Unlock()
		if int(atomic.AddInt32(&metaN, 1)) > 1 && int(atomic.LoadInt32(&metaN)) <= 1+sc.MetaFail {
			return sarama.VSimConnAction{Kind: sarama.VConnDropBefore}
		}
		if atomic.LoadInt32(&refusedOnce) == 1 && atomic.AddInt32(&metaFailLeft, -1) >= 0 {
			return sarama.VSimConnAction{Kind: sarama.VConnDropBefore}
		}
		return sarama.VSimConnAction{}
	}
	sim.OnProduce = func(ctx *sarama.VSimProduceCtx) sarama.VSimProduceAction {
		if sc.ProduceDelayMs > 0 {
			time.Sleep(time.Duration(sc.ProduceDelayMs) * time.Millisecond)
		}
		i := int(atomic.AddInt32(&fi, 1)) - 1
		if i >= len(sc.Faults) {
			return sarama.VSimProduceAction{}
		}
		code := sarama.ErrNoError
		if i < len(sc.FaultCodes) {
			code = sc.FaultCodes[i]
		}
		switch sc.Faults[i] {
		case fRetryNoAppend:
			if sc.MetaFailAfterRefusal > 0 && atomic.CompareAndSwapInt32(&refusedOnce, 0, 1) {
				atomic.StoreInt32(&metaFailLeft, int32(sc.MetaFailAfterRefusal))
			}
			return sarama.VSimProduceAction{Kind: sarama.VPErrNoAppend, Code: code}
		case fRetryAfterAppend:
			return sarama.VSimProduceAction{Kind: sarama.VPErrAfterAppend, Code: code}
		case fFatal:
			return sarama.VSimProduceAction{Kind: sarama.VPErrNoAppend, Code: code}
		case fOmitBlock:
			return sarama.VSimProduceAction{Kind: sarama.VPOmitNoAppend}
		case fDropBefore:
			return sarama.VSimProduceAction{Kind: sarama.VPDropBefore}
		case fDropAfter:
			return sarama.VSimProduceAction{Kind: sarama.VPDropAfter}
		case fSilent:
			return sarama.VSimProduceAction{Kind: sarama.VPSilentAfter}
		case fNoLeader:
			plMu.Lock()
			dur := int32(4 + i%5)
			if sc.NoLeaderFor > 0 {
				dur = int32(sc.NoLeaderFor)
			}
			pendingLeaders = append(pendingLeaders, pendingLeader{ctx.Topic, ctx.Partition, ctx.Broker, atomic.LoadInt32(&metaN) + dur}) // one failing leader lookup costs Metadata.Retry.Max+1 = 4 metadata requests
			plMu.Unlock()
			sim.SetLeader(ctx.Topic, ctx.Partition, -1)
			return sarama.VSimProduceAction{Kind: sarama.VPErrNoAppend, Code: sarama.ErrNotLeaderForPartition}
		case fLeaderMove, fLeaderMoveLag:
			if sc.Brokers > 1 {
				next := ctx.Broker%int32(sc.Brokers) + 1
				sim.SetLeader(ctx.Topic, ctx.Partition, next)
			}
			return sarama.VSimProduceAction{Kind: sarama.VPErrNoAppend, Code: sarama.ErrNotLeaderForPartition}
		}
		return sarama.VSimProduceAction{}
	}

	conf := sarama.NewConfig()
	conf.ClientID = "vprod"
	conf.Version = sc.Version
	sim.ConfigureNet(conf)
	conf.Producer.Return.Successes = true
	conf.Producer.Return.Errors = true
	conf.Producer.Retry.Max = sc.RetryMax
	conf.Producer.Retry.Backoff = time.Millisecond
	conf.Metadata.Retry.Backoff = time.Millisecond
	conf.Metadata.Retry.Max = 3
	conf.Metadata.RefreshFrequency = 0
	conf.Net.ReadTimeout = sc.ReadTimeout
	if conf.Net.ReadTimeout == 0 {
		conf.Net.ReadTimeout = 40 * time.Millisecond
	}
	conf.Net.DialTimeout = time.Second
	conf.Producer.RequiredAcks = sc.Acks
	conf.Producer.Flush.Messages = sc.FlushMessages
	conf.Producer.Flush.Bytes = sc.FlushBytes
	conf.Producer.Flush.MaxMessages = sc.FlushMaxMessages
	conf.Producer.Flush.Frequency = sc.FlushFreq
	conf.Producer.Compression = sc.Codec
	if sc.CodecLevel != 0 {
		conf.Producer.CompressionLevel = sc.CodecLevel
	}
	if sc.MaxMessageBytes > 0 {
		conf.Producer.MaxMessageBytes = sc.MaxMessageBytes
	}
	if sc.ChannelBuf >= 0 {
		conf.ChannelBufferSize = sc.ChannelBuf
	}
	if sc.Idempotent {
		conf.Producer.Idempotent = true
		conf.Producer.RequiredAcks = sarama.WaitForAll
		conf.Net.MaxOpenRequests = 1
	}
	if sc.MaxRequestSize > 0 {
		// package-level setting: this process runs no further case afterwards
		// (restoring it would race with whatever this producer left running)
		sarama.MaxRequestSize = sc.MaxRequestSize
		restartAfterCase = true
	}
	// one constructor value for the whole producer, as an application has it
	customHashCtor := sarama.NewCustomHashPartitioner(fnv.New32a)
	customPartCtor := sarama.NewCustomPartitioner(sarama.WithCustomHashFunction(fnv.New32a))
	mkPart := func(topic string) sarama.Partitioner {
		var inner sarama.Partitioner
		switch sc.Partitioner {
		case "customhash":
			inner = customHashCtor(topic)
		case "custompart":
			inner = customPartCtor(topic)
		case "hash":
			inner = sarama.NewHashPartitioner(topic)
		case "refhash":
			inner = sarama.NewReferenceHashPartitioner(topic)
		case "roundrobin":
			inner = sarama.NewRoundRobinPartitioner(topic)
		case "random":
			inner = sarama.NewRandomPartitioner(topic)
		default:
			inner = sarama.NewManualPartitioner(topic)
		}
		rp := recordingPartitioner{inner: inner, res: res, mu: &mu, bad: sc.BadPartitioner}
		if _, ok := inner.(sarama.DynamicConsistencyPartitioner); ok {
			return &recordingDynPartitioner{rp}
		}
		return &rp
	}
	conf.Producer.Partitioner = mkPart
	for i, ic := range sc.Interceptors {
		conf.Producer.Interceptors = append(conf.Producer.Interceptors, &prodInterceptor{idx: i, kind: ic.Kind, res: res, mu: &mu})
	}
	if err := conf.Validate(); err != nil {
		res.newErr = fmt.Errorf("config: %v", err)
		return res
	}

	// steering rules
	submittedPer := map[string]*int64{}
	addedPer := map[string]*int64{}
	for _, t := range sc.Topics {
		for p := 0; p < sc.Parts; p++ {
			submittedPer[fmt.Sprintf("%s/%d", t, p)] = new(int64)
			addedPer[fmt.Sprintf("%s/%d", t, p)] = new(int64)
		}
	}
	var totalAdded int64
	sink.onEvent = func(ev *hookEv) {
		if ev.Point == "bp.added" && ev.MI.Flags == 0 {
			atomic.AddInt64(&totalAdded, 1)
			if c := addedPer[fmt.Sprintf("%s/%d", ev.Topic, ev.Part)]; c != nil {
				atomic.AddInt64(c, 1)
			}
		}
	}
	for _, st := range sc.Steer {
		st := st
		var r *steerRule
		switch st.Kind {
		case "newhwm-fresh": // park the partition worker before its chaser until fresh input for the partition was submitted
			var target int64
			var key string
			r = &steerRule{Name: st.Kind, Point: "pp.newhwm", Nth: st.Nth,
				OnPark: func(ev *hookEv) {
					key = fmt.Sprintf("%s/%d", ev.Topic, ev.Part)
					target = atomic.LoadInt64(submittedPer[key]) + int64(st.K)
				},
				Until: func() bool { return atomic.LoadInt64(submittedPer[key]) >= target }}
		case "flush-fresh":
			var target int64
			var key string
			r = &steerRule{Name: st.Kind, Point: "pp.flush", Nth: st.Nth,
				OnPark: func(ev *hookEv) {
					key = fmt.Sprintf("%s/%d", ev.Topic, ev.Part)
					target = atomic.LoadInt64(submittedPer[key]) + int64(st.K)
				},
				Until: func() bool { return atomic.LoadInt64(submittedPer[key]) >= target }}
		case "response-added": // hold a response until k more messages were buffered by broker workers
			var target int64
			r = &steerRule{Name: st.Kind, Point: "bp.response", Nth: st.Nth,
				OnPark: func(ev *hookEv) { target = atomic.LoadInt64(&totalAdded) + int64(st.K) },
				Until:  func() bool { return atomic.LoadInt64(&totalAdded) >= target }}
		case "bridge-overtake": // hold a set in the bridge until a later message of one of its partitions was buffered elsewhere
			var target int64
			var key string
			r = &steerRule{Name: st.Kind, Point: "bp.bridge", Nth: st.Nth,
				Match: func(ev *hookEv) bool { return len(ev.Parts) > 0 },
				OnPark: func(ev *hookEv) {
					p := ev.Parts[0]
					for _, q := range ev.Parts {
						if q.Topic < p.Topic || (q.Topic == p.Topic && q.Partition < p.Partition) {
							p = q
						}
					}
					key = fmt.Sprintf("%s/%d", p.Topic, p.Partition)
					target = atomic.LoadInt64(addedPer[key]) + int64(st.K)
				},
				Until: func() bool { return atomic.LoadInt64(addedPer[key]) >= target }}
		}
		if r != nil {
			sink.addRule(r)
			res.rules = append(res.rules, r)
		}
	}

	var ap sarama.AsyncProducer
	var sp sarama.SyncProducer
	var err error
	if sc.Sync {
		sp, err = sarama.NewSyncProducer(sim.Addrs(), conf)
	} else {
		ap, err = sarama.NewAsyncProducer(sim.Addrs(), conf)
	}
	if err != nil {
		res.newErr = err
		return res
	}

	record := func(o *outRec) {
		o.Seq = sarama.VerifNextSeq()
		if mm, ok := o.Ptr.Metadata.(*msgMeta); ok && mm != nil {
			o.MetaOK, o.ID = true, mm.ID
		}
		mu.Lock()
		res.outcomes = append(res.outcomes, o)
		mu.Unlock()
		atomic.AddInt64(&appProgress, 1)
	}
	collectDone := make(chan struct{})
	if ap != nil {
		go func() {
			defer close(collectDone)
			sc2, ec := ap.Successes(), ap.Errors()
			for sc2 != nil || ec != nil {
				select {
				case m, ok := <-sc2:
					if !ok {
						sc2 = nil
						continue
					}
					record(&outRec{Ptr: m, Success: true, Partition: m.Partition, Offset: m.Offset, Via: "chan", Ts: m.Timestamp})
				case e, ok := <-ec:
					if !ok {
						ec = nil
						continue
					}
					record(&outRec{Ptr: e.Msg, Err: e.Err, Partition: e.Msg.Partition, Offset: e.Msg.Offset, Via: "chan"})
				}
			}
		}()
	} else {
		close(collectDone)
	}

	mkMsg := func(ms *msgSpec) *sarama.ProducerMessage {
		m := &sarama.ProducerMessage{Topic: ms.Topic, Key: encOrNil(ms.Key, ms.KeyNil), Value: encOrNil(ms.Value, ms.ValNil), Metadata: &msgMeta{ms.ID}, Timestamp: ms.Ts}
		if ms.Part >= 0 {
			m.Partition = ms.Part
		}
		if len(ms.Headers) > 0 {
			m.Headers = append([]sarama.RecordHeader(nil), ms.Headers...)
		}
		return m
	}
	noteSubmit := func(ms *msgSpec, m *sarama.ProducerMessage) {
		sr := &subRec{Spec: ms, Ptr: m, Seq: sarama.VerifNextSeq()}
		mu.Lock()
		res.submitted = append(res.submitted, sr)
		res.byPtr[m] = sr
		mu.Unlock()
		if ms.Part >= 0 {
			if c := submittedPer[fmt.Sprintf("%s/%d", ms.Topic, ms.Part)]; c != nil {
				atomic.AddInt64(c, 1)
			}
		}
		atomic.AddInt64(&appProgress, 1)
	}

	var wg sync.WaitGroup
	nsub := sc.Submitters
	if nsub < 1 {
		nsub = 1
	}
	for g := 0; g < nsub; g++ {
		var mine []*msgSpec
		for _, ms := range sc.Msgs {
			if ms.Sub == g {
				mine = append(mine, ms)
			}
		}
		wg.Add(1)
		go func(g int, mine []*msgSpec) {
			defer wg.Done()
			if ap != nil {
				for i, ms := range mine {
					if sc.Sequential > 0 && i > 0 && i%sc.Sequential == 0 {
						// wait until every message submitted so far by this goroutine has its outcome
						want := map[int]bool{}
						for _, prev := range mine[:i] {
							want[prev.ID] = true
						}
						allDone := make(chan struct{})
						go func() {
							for {
								mu.Lock()
								n := 0
								for _, o := range res.outcomes {
									if o.MetaOK && want[o.ID] {
										n++
									}
								}
								mu.Unlock()
								if n >= len(want) || atomic.LoadInt32(&sink.dead) != 0 {
									close(allDone)
									return
								}
								time.Sleep(200 * time.Microsecond)
							}
						}()
						if ok, _ := waitQuiescent(allDone, sink, 10*time.Second, 30*time.Second); !ok {
							return
						}
					}
					if ms.PauseUs > 0 {
						time.Sleep(time.Duration(ms.PauseUs) * time.Microsecond)
					}
					m := mkMsg(ms)
					// register before sending: outcomes may arrive before the send returns
					mu.Lock()
					res.byPtr[m] = &subRec{Spec: ms, Ptr: m}
					mu.Unlock()
					ap.Input() <- m
					noteSubmit(ms, m)
				}
				return
			}
			// sync producer: SendMessage / SendMessages
			i := 0
			for i < len(mine) {
				n := 1
				if sc.SyncBatch > 1 {
					n = 1 + (mine[i].ID % sc.SyncBatch)
				}
				if i+n > len(mine) {
					n = len(mine) - i
				}
				batch := mine[i : i+n]
				i += n
				var ms []*sarama.ProducerMessage
				for _, spec := range batch {
					if spec.PauseUs > 0 {
						time.Sleep(time.Duration(spec.PauseUs) * time.Microsecond)
					}
					m := mkMsg(spec)
					ms = append(ms, m)
					noteSubmit(spec, m)
				}
				if len(ms) == 1 {
					part, off, err := sp.SendMessage(ms[0])
					record(&outRec{Ptr: ms[0], Success: err == nil, Err: err, Partition: part, Offset: off, Via: "sync", Ts: ms[0].Timestamp})
				} else {
					err := sp.SendMessages(ms)
					failed := map[*sarama.ProducerMessage]error{}
					if err != nil {
						if pes, ok := err.(sarama.ProducerErrors); ok {
							for _, pe := range pes {
								failed[pe.Msg] = pe.Err
							}
						} else {
							for _, m := range ms {
								failed[m] = err
							}
						}
					}
					for m, e := range failed {
						if !containsMsg(ms, m) {
							record(&outRec{Ptr: m, Err: e, Via: "sync-foreign"})
						}
					}
					for _, m := range ms {
						e := failed[m]
						record(&outRec{Ptr: m, Success: e == nil, Err: e, Partition: m.Partition, Offset: m.Offset, Via: "sync", Ts: m.Timestamp})
					}
				}
			}
		}(g, mine)
	}
	subDone := make(chan struct{})
	go func() { wg.Wait(); close(subDone) }()
	okSub, stuckSub := waitQuiescent(subDone, sink, 10*time.Second, 60*time.Second)
	if !okSub {
		if stuckSub {
			res.stuck = true
			res.stuckWho = append([]string{"submit-blocked"}, parkedSaramaGoroutines()...)
		} else {
			res.inconcl = "submitters still progressing after 60 s"
		}
	}

	if sc.StopInputEarly && okSub && sc.ExpectAtCluster > 0 {
		// C16 flush clause: the buffered input must reach the cluster without further input
		reqDone := make(chan struct{})
		go func() {
			for {
				n := 0
				for _, p := range sim.Produced() {
					if len(sc.Faults) == 0 || p.Appended {
						n += p.NRecs
					}
				}
				if n >= sc.ExpectAtCluster {
					close(reqDone)
					return
				}
				if atomic.LoadInt32(&sink.dead) != 0 {
					return
				}
				time.Sleep(time.Millisecond)
			}
		}()
		ok, stuck := waitQuiescent(reqDone, sink, 10*time.Second, 30*time.Second)
		if ok {
			res.requestSeen = 1
		} else if stuck {
			res.requestSeen = -1
		}
	}

	if sc.SkipClose {
		// let the pipeline drain, then abandon the producer
		last, lastMove, start := sink.total(), time.Now(), time.Now()
		for time.Since(lastMove) < 150*time.Millisecond && time.Since(start) < 5*time.Second {
			time.Sleep(2 * time.Millisecond)
			if t := sink.total(); t != last {
				last, lastMove = t, time.Now()
			}
		}
		okSub = false
		res.closeDone = false
	}
	// close
	closeDone := make(chan struct{})
	go func() {
		defer close(closeDone)
		if sc.SkipClose {
			return
		}
		if sp != nil {
			sp.Close()
			return
		}
		if sc.CloseMode == "asyncclose" {
			ap.AsyncClose()
			<-collectDone
			return
		}
		err := ap.Close()
		if pes, ok := err.(sarama.ProducerErrors); ok {
			for _, pe := range pes {
				record(&outRec{Ptr: pe.Msg, Err: pe.Err, Partition: pe.Msg.Partition, Via: "close"})
			}
			mu.Lock()
			res.closeErrs = len(pes)
			mu.Unlock()
		}
		<-collectDone
	}()
	if okSub {
		ok, stuck := waitQuiescent(closeDone, sink, 10*time.Second, 60*time.Second)
		res.closeDone = ok
		if !ok {
			if stuck {
				res.stuck = true
				res.stuckWho = parkedSaramaGoroutines()
			} else {
				res.inconcl = "close still progressing after 60 s"
			}
		}
	}
	if sc.SkipClose || !res.closeDone {
		// the producer is still alive: later cases get a fresh process
		restartAfterCase = true
	}
	sink.retire()
	mu.Lock()
	res.hooks = sink.snapshot()
	mu.Unlock()
	res.produced = sim.Produced()
	res.events = sim.Events()
	for _, t := range sc.Topics {
		for p := 0; p < sc.Parts; p++ {
			lg, _ := sim.Log(t, int32(p))
			res.logs[t] = append(res.logs[t], lg)
		}
	}
	res.faultsUsed = int(atomic.LoadInt32(&fi))
	if res.faultsUsed > len(sc.Faults) {
		res.faultsUsed = len(sc.Faults)
	}
	res.wall = time.Since(t0)
	// hand out a private copy: goroutines of an abandoned producer may still append
	mu.Lock()
	out := *res
	out.outcomes = append([]*outRec(nil), res.outcomes...)
	out.submitted = append([]*subRec(nil), res.submitted...)
	out.icCalls = append([]icCall(nil), res.icCalls...)
	out.partCalls = append([]partCall(nil), res.partCalls...)
	out.byPtr = make(map[*sarama.ProducerMessage]*subRec, len(res.byPtr))
	for k, v := range res.byPtr {
		out.byPtr[k] = v
	}
	mu.Unlock()
	return &out
}

func containsMsg(ms []*sarama.ProducerMessage, m *sarama.ProducerMessage) bool {
	for _, x := range ms {
		if x == m {
			return true
		}
	}
	return false
}

// msgIDFromRecord extracts the message id a record carries ("<id>:" prefix of
// the value, or of the key when the value is nil/empty).
func msgIDFromRecord(r sarama.VRec) (int, bool) {
	cands := [][]byte{r.Value, r.Key}
	for _, h := range r.Headers {
		// messages without key and value carry their id in a header named "vid"
		if string(h.Key) == "vid" {
			cands = append(cands, h.Value)
		}
	}
	for _, b := range cands {
		if i := bytes.IndexByte(b, ':'); i > 0 && i <= 9 {
			if id, err := strconv.Atoi(string(b[:i])); err == nil {
				return id, true
			}
		}
	}
	return -1, false
}

// pathSignature: multiset of (hook point, retry level / error class) observed
// and the order of first occurrence of each.
func pathSignature(res *prodResult) string {
	counts := map[string]int{}
	var first []string
	add := func(k string) {
		if counts[k] == 0 {
			first = append(first, k)
		}
		counts[k]++
	}
	for _, ev := range res.hooks {
		switch ev.Point {
		case "pp.newhwm":
			add(fmt.Sprintf("hwm%d", ev.Level))
		case "pp.flush":
			add(fmt.Sprintf("flush%d", ev.Level))
		case "pp.recv":
			if ev.MI.IsFin {
				add(fmt.Sprintf("fin%d", ev.Level))
			} else if ev.Level > 0 {
				add(fmt.Sprintf("recv-r%d", ev.Level))
			}
		case "ap.retryBatch":
			add("retryBatch")
		case "bp.response":
			if ev.HasErr {
				add("resp-err")
			}
		case "ap.outcome":
			if ev.HasErr {
				add("out-err:" + errClass(ev.Err))
			}
		}
	}
	for _, p := range res.produced {
		if p.Action != sarama.VPOk || p.Code != 0 {
			add(fmt.Sprintf("srv:%d/%d", p.Action, p.Code))
		}
		if p.Duplicate {
			add("srv:dup")
		}
	}
	var parts []string
	for _, k := range first {
		c := counts[k]
		b := "1"
		switch {
		case c >= 8:
			b = "8+"
		case c >= 3:
			b = "3+"
		case c == 2:
			b = "2"
		}
		parts = append(parts, k+"x"+b)
	}
	s := strings.Join(parts, ",")
	if len(s) > 200 {
		s = s[:200]
	}
	return fmt.Sprintf("idem=%v,r=%d|%s", res.sc.Idempotent, res.sc.RetryMax, s)
}

func errClass(s string) string {
	s = strings.ToLower(s)
	switch {
	case strings.Contains(s, "eof"), strings.Contains(s, "broken pipe"), strings.Contains(s, "reset"), strings.Contains(s, "closed"):
		return "conn"
	case strings.Contains(s, "timeout"), strings.Contains(s, "i/o"):
		return "timeout"
	case strings.Contains(s, "shutting down"):
		return "shutdown"
	}
	if len(s) > 24 {
		s = s[:24]
	}
	return strings.ReplaceAll(s, " ", "-")
}
