// Engine "mocks": property C20 — the mocks of github.com/Shopify/sarama/mocks
// replay scripted expectations faithfully and report deviations.
//
// The engine drives the three mocks through their public API only, records
//   - every Errorf call made on the ErrorReporter handed to the mock,
//   - every outcome (channel event / return value) with message identity,
//     partition and offset, stamped by a logical clock,
//   - for the consumer mock the yielded sequences, offsets and high-water marks,
//
// and judges the recording against a reference model written from the
// property statement (mocks_producer.go, mocks_consumer.go). Wall-clock time is
// used only by watchdogs that detect a case which does not finish.
package main

import (
	"fmt"
	"math/rand"
	"regexp"
	"runtime"
	"sort"
	"strings"
	"sync"
	"sync/atomic"
	"time"

	"verifharness/internal/proto"
)

func init() { engines["mocks"] = &mocksEngine{} }

type mocksEngine struct{}

// Count is a function of the tier only.
func (e *mocksEngine) Count(prop, tier string, seed int64) int {
	if tier == "thorough" {
		return 20000
	}
	return 500
}

// mkCase is one scenario: it runs the mock and judges what was recorded.
type mkCase interface {
	id() string
	run(r *mkRun)   // workload; may block when the mock is stuck
	judge(r *mkRun) // oracles over the recording
	shape() (path string, nontrivial bool)
	describe(r *mkRun) map[string]interface{}
	mockKind() string
}

func (e *mocksEngine) Run(prop, tier string, seed int64, idx int) proto.Rec {
	rng := rand.New(rand.NewSource(proto.SubSeed(seed, idx, "mocks")))
	var c mkCase
	core := mkCoreCases()
	if idx < len(core) {
		c = core[idx](rng)
	} else {
		switch x := rng.Intn(100); {
		case x < 6:
			c = mkGenQuiet(rng)
		case x < 40:
			c = mkGenProducer(rng, "async")
		case x < 75:
			c = mkGenProducer(rng, "sync")
		default:
			c = mkGenConsumer(rng)
		}
	}
	r := &mkRun{seen: map[string]bool{}, obs: map[string]int64{}}
	rec := proto.Rec{ID: fmt.Sprintf("%s/%s/%d/%d:%s", prop, tier, seed, idx, c.id())}

	// The workload runs on its own goroutine under a watchdog. The watchdog
	// never decides a property clause: when it fires, the case is
	// "inconclusive" unless two goroutine dumps taken apart show a goroutine
	// parked inside the mock with the logical clock standing still ("stuck").
	done := make(chan struct{})
	go func() {
		defer close(done)
		defer func() {
			if p := recover(); p != nil {
				kind, attr := classifyPanic(p)
				r.viol(kind, c.mockKind()+":"+attr, fmt.Sprint(p))
			}
		}()
		c.run(r)
	}()
	finished := false
	select {
	case <-done:
		finished = true
		c.judge(r)
	case <-time.After(mkCaseWatchdog):
		stuck, attr, dump := mkStuckAnalysis(r)
		if stuck {
			r.viol("stuck", c.mockKind()+":"+attr, "no progress of the logical clock between two goroutine dumps; a goroutine is parked inside the mock\n"+dump)
		} else {
			rec.Verdict = "inconclusive"
			rec.Why = "case watchdog fired (" + mkCaseWatchdog.String() + ") without evidence of a goroutine parked inside the mock: " + attr
		}
		restartAfterCase = true // goroutines of this case are still alive
	}

	r.mu.Lock()
	r.dead = true
	rec.Viols = r.viols
	rec.Obs = r.obs
	r.mu.Unlock()
	rec.Path, rec.NonTrivial = c.shape()
	if finished {
		rec.Sample = c.describe(r)
	} else {
		// the workload goroutine still owns the case's observations
		rec.Sample = map[string]interface{}{"case": c.id(), "reporter": r.reportSample()}
	}
	if len(rec.Viols) > 0 {
		rec.Verdict = "violated"
	}
	return rec
}

const mkCaseWatchdog = 20 * time.Second
const mkStepWatchdog = 15 * time.Second // a single wait inside the workload

// ---------------------------------------------------------------- recording

type mkReport struct {
	Stamp int64  `json:"stamp"`
	Class string `json:"class"`
	Text  string `json:"text"`
}

// mkRun is the per-case recorder; it is also the ErrorReporter given to the mock.
type mkRun struct {
	mu      sync.Mutex
	dead    bool // the case was abandoned by the watchdog: ignore late writes
	viols   []proto.Viol
	seen    map[string]bool
	obs     map[string]int64
	reports []mkReport
	clock   int64
}

// tick advances the logical clock. Steps of 2 leave room for "just before the
// next call" when per-sender FIFO order is encoded for porcupine.
func (r *mkRun) tick() int64 { return atomic.AddInt64(&r.clock, 2) }

func (r *mkRun) viol(kind, attr, msg string) {
	r.mu.Lock()
	defer r.mu.Unlock()
	if r.dead && kind != "stuck" {
		return
	}
	sig := kind + "|" + attr
	if r.seen[sig] {
		return
	}
	r.seen[sig] = true
	if len(msg) > 6000 {
		msg = msg[:6000] + "…"
	}
	r.viols = append(r.viols, proto.Viol{Kind: kind, Attr: attr, Msg: msg})
}

func (r *mkRun) count(k string, d int64) {
	r.mu.Lock()
	if !r.dead {
		r.obs[k] += d
	}
	r.mu.Unlock()
}

// Errorf implements mocks.ErrorReporter.
func (r *mkRun) Errorf(format string, args ...interface{}) {
	st := r.tick()
	text := fmt.Sprintf(format, args...)
	if len(text) > 160 {
		text = text[:160]
	}
	r.mu.Lock()
	if !r.dead {
		r.reports = append(r.reports, mkReport{Stamp: st, Class: mkClassifyReport(format), Text: text})
		r.obs["reporter_calls"]++
	}
	r.mu.Unlock()
}

// mkClassifyReport maps a report to the deviation it speaks about. The match
// is on loose key words of the format string, not on the exact wording.
func mkClassifyReport(format string) string {
	f := strings.ToLower(format)
	switch {
	case strings.Contains(f, "no more expectation"), strings.Contains(f, "insufficient expectation"):
		return "input-without-expectation"
	case strings.Contains(f, "exhaust"):
		return "leftover-at-close"
	case strings.Contains(f, "check function"):
		return "failing-checker"
	case strings.Contains(f, "partitioner returned"):
		return "partitioner-error"
	case strings.Contains(f, "no expectations set for"):
		return "unexpected-partition"
	case strings.Contains(f, "unexpected offset"):
		return "unexpected-offset"
	case strings.Contains(f, "no partition consumer was started"):
		return "leftover-at-close" // a registered partition nobody consumed
	case strings.Contains(f, "errors channel") && strings.Contains(f, "drained"):
		return "errors-not-drained"
	case strings.Contains(f, "messages channel") && strings.Contains(f, "drained"):
		return "messages-not-drained"
	}
	return "other"
}

func (r *mkRun) reportCounts() map[string]int {
	r.mu.Lock()
	defer r.mu.Unlock()
	m := map[string]int{}
	for _, rp := range r.reports {
		m[rp.Class]++
	}
	return m
}

func (r *mkRun) reportSample() []mkReport {
	r.mu.Lock()
	defer r.mu.Unlock()
	n := len(r.reports)
	if n > 40 {
		n = 40
	}
	return append([]mkReport(nil), r.reports[:n]...)
}

// judgeReports compares the reporter calls with the deviations of the case:
// one call per deviation, nothing else.
func (r *mkRun) judgeReports(mock string, want map[string]int) {
	got := r.reportCounts()
	classes := map[string]bool{}
	for k := range got {
		classes[k] = true
	}
	for k := range want {
		classes[k] = true
	}
	keys := make([]string, 0, len(classes))
	for k := range classes {
		keys = append(keys, k)
	}
	sort.Strings(keys)
	for _, k := range keys {
		switch {
		case got[k] < want[k]:
			r.viol("reporter-missing", mock+":"+k, fmt.Sprintf("deviation %q happened %d time(s) but the reporter was called %d time(s) for it", k, want[k], got[k]))
		case got[k] > want[k]:
			r.viol("reporter-extra", mock+":"+k, fmt.Sprintf("the reporter was called %d time(s) for %q but the case contains %d such deviation(s)", got[k], k, want[k]))
		}
	}
}

// ---------------------------------------------------------------- stuck analysis

var mkReGoroutine = regexp.MustCompile(`^goroutine (\d+) \[([^\],]+)`)

type mkParked struct {
	state string
	fn    string
}

// mkParkedInMock lists goroutines whose innermost non-runtime frame is a
// function of the mocks package (so they wait on something the mock owns), by
// goroutine id. The async mock's handler waiting for input is idle, not stuck.
func mkParkedInMock() (map[string]mkParked, string) {
	buf := make([]byte, 1<<20)
	buf = buf[:runtime.Stack(buf, true)]
	out := map[string]mkParked{}
	var keep []string
	for _, blk := range strings.Split(string(buf), "\n\n") {
		lines := strings.Split(blk, "\n")
		m := mkReGoroutine.FindStringSubmatch(lines[0])
		if m == nil || m[2] == "running" || m[2] == "runnable" {
			continue
		}
		for _, l := range lines[1:] {
			if strings.HasPrefix(l, "\t") || strings.HasPrefix(l, "created by") {
				continue
			}
			fn := l
			if i := strings.LastIndex(fn, "("); i > 0 {
				fn = fn[:i]
			}
			if strings.HasPrefix(fn, "runtime.") || strings.HasPrefix(fn, "sync.") || strings.HasPrefix(fn, "internal/") || strings.HasPrefix(fn, "sync/atomic.") {
				continue
			}
			if strings.HasPrefix(fn, "github.com/Shopify/sarama/mocks.") {
				if strings.Contains(fn, "NewAsyncProducer.func1") && m[2] == "chan receive" {
					break // handler idle on its input channel
				}
				out[m[1]] = mkParked{state: m[2], fn: trimFn(fn)}
				if len(keep) < 6 {
					keep = append(keep, blk)
				}
			}
			break
		}
	}
	return out, strings.Join(keep, "\n\n")
}

// mkStuckAnalysis decides between "stuck inside the mock" and "do not know".
func mkStuckAnalysis(r *mkRun) (bool, string, string) {
	c1 := atomic.LoadInt64(&r.clock)
	p1, _ := mkParkedInMock()
	time.Sleep(time.Second)
	c2 := atomic.LoadInt64(&r.clock)
	p2, dump := mkParkedInMock()
	if c1 != c2 {
		return false, "the logical clock still advances", ""
	}
	var attrs []string
	for id, a := range p1 {
		if b, ok := p2[id]; ok && a == b {
			attrs = append(attrs, a.fn+"["+a.state+"]")
		}
	}
	if len(attrs) == 0 {
		return false, "no goroutine parked inside the mocks package", ""
	}
	// One attribution per mechanism: a goroutine the mock started itself (a
	// closure of the mocks package) names the place that holds things up; the
	// API calls parked behind it are consequences. Without one, the API calls
	// themselves, with the family of Expect… functions folded into one name.
	var own, api []string
	for _, a := range attrs {
		if i := strings.Index(a, ").Expect"); i >= 0 {
			a = a[:i] + ").Expect*" + a[strings.Index(a, "["):]
		}
		if strings.Contains(a, ".func") {
			own = append(own, a)
		} else {
			api = append(api, a)
		}
	}
	pick := own
	if len(pick) == 0 {
		pick = api
	}
	sort.Strings(pick)
	uniq := pick[:1]
	for _, a := range pick[1:] {
		if a != uniq[len(uniq)-1] {
			uniq = append(uniq, a)
		}
	}
	return true, strings.Join(uniq, "+"), dump
}

// ---------------------------------------------------------------- small helpers

func mkLenClass(n int) string {
	switch {
	case n == 0:
		return "0"
	case n == 1:
		return "1"
	case n <= 8:
		return "2-8"
	case n <= 50:
		return "9-50"
	}
	return "51+"
}

func mkSortedKeys(m map[string]bool) []string {
	ks := make([]string, 0, len(m))
	for k := range m {
		ks = append(ks, k)
	}
	sort.Strings(ks)
	return ks
}

// mkFNV1a is the reference hash (FNV-1a, 32 bit), written out independently.
func mkFNV1a(b []byte) uint32 {
	h := uint32(2166136261)
	for _, c := range b {
		h ^= uint32(c)
		h *= 16777619
	}
	return h
}

// ---------------------------------------------------------------- enumerated core

// mkCoreCases is the fixed head of the case list: the smallest scripts for
// every expectation kind, every deviation and every partitioner, so that a
// violation has a minimal reproducer next to the random ones.
func mkCoreCases() []func(rng *rand.Rand) mkCase {
	var cs []func(rng *rand.Rand) mkCase
	add := func(f func(rng *rand.Rand) mkCase) { cs = append(cs, f) }
	for _, mock := range []string{"async", "sync"} {
		mock := mock
		// one expectation of each kind, one message
		for k := mkExpKind(0); k < mkNumKinds; k++ {
			k := k
			add(func(rng *rand.Rand) mkCase {
				return mkFixedProducer(rng, mock, "hash", []mkExpKind{k}, 1, 3, 1, false)
			})
		}
		// one expectation of each kind between two plain successes (offsets around it)
		for k := mkExpKind(1); k < mkNumKinds; k++ {
			k := k
			add(func(rng *rand.Rand) mkCase {
				return mkFixedProducer(rng, mock, "hash", []mkExpKind{mkS, k, mkS}, 3, 3, 1, false)
			})
		}
		// deviations: input without expectation, leftovers
		add(func(rng *rand.Rand) mkCase { return mkFixedProducer(rng, mock, "hash", nil, 1, 3, 1, false) })
		add(func(rng *rand.Rand) mkCase {
			return mkFixedProducer(rng, mock, "hash", []mkExpKind{mkS}, 0, 3, 1, false)
		})
		add(func(rng *rand.Rand) mkCase {
			return mkFixedProducer(rng, mock, "hash", []mkExpKind{mkS, mkF}, 3, 3, 1, false)
		})
		add(func(rng *rand.Rand) mkCase {
			return mkFixedProducer(rng, mock, "hash", []mkExpKind{mkS, mkF}, 1, 3, 1, false)
		})
		// partitioners over 3 partitions, 4 successes
		for _, p := range []string{"hash", "refhash", "manual", "roundrobin", "random"} {
			p := p
			add(func(rng *rand.Rand) mkCase {
				return mkFixedProducer(rng, mock, p, []mkExpKind{mkS, mkS, mkS, mkS}, 4, 3, 1, false)
			})
		}
		// two senders
		add(func(rng *rand.Rand) mkCase {
			return mkFixedProducer(rng, mock, "hash", []mkExpKind{mkS, mkF, mkS, mkF, mkS, mkS}, 6, 3, 2, false)
		})
	}
	// sync batches: all succeed, one fails, not enough expectations
	add(func(rng *rand.Rand) mkCase {
		return mkFixedProducer(rng, "sync", "hash", []mkExpKind{mkS, mkS, mkS}, 3, 3, 1, true)
	})
	add(func(rng *rand.Rand) mkCase {
		return mkFixedProducer(rng, "sync", "hash", []mkExpKind{mkS, mkF, mkS}, 3, 3, 1, true)
	})
	add(func(rng *rand.Rand) mkCase {
		return mkFixedProducer(rng, "sync", "hash", []mkExpKind{mkS}, 2, 3, 1, true)
	})
	// sync: a message without a value against a value checker (a tombstone is a legal message)
	add(func(rng *rand.Rand) mkCase {
		c := mkFixedProducer(rng, "sync", "hash", []mkExpKind{mkVSp}, 1, 3, 1, false)
		c.msgs[0].nilValue = true
		c.msgs[0].msg.Value = nil
		c.tag = "nil-value"
		return c
	})
	// a message without a value in the middle of a script, against value checkers that reject it
	for _, mock := range []string{"sync", "async"} {
		for _, kinds := range [][]mkExpKind{{mkS, mkVSf, mkS, mkS}, {mkS, mkVFf, mkS}, {mkVSf}, {mkS, mkVSp, mkVFf, mkS}} {
			mock, kinds := mock, kinds
			add(func(rng *rand.Rand) mkCase {
				c := mkFixedProducer(rng, mock, "hash", kinds, len(kinds), 3, 1, false)
				for i, k := range kinds {
					if k.valueChecker() && i < len(c.msgs) {
						c.msgs[i].nilValue = true
						c.msgs[i].msg.Value = nil
					}
				}
				c.tag = "nil-value-mid-script"
				return c
			})
		}
	}
	// a message whose key cannot be encoded (the partitioner fails for it) in the middle of a script: it
	// takes its expectation with it, the following messages meet the following expectations
	for _, mock := range []string{"sync", "async"} {
		for _, kinds := range [][]mkExpKind{{mkS, mkF, mkS, mkS}, {mkS, mkS, mkF, mkS}, {mkF, mkS}, {mkS, mkVSp, mkS, mkF, mkS}} {
			mock, kinds := mock, kinds
			add(func(rng *rand.Rand) mkCase {
				c := mkFixedProducer(rng, mock, "hash", kinds, len(kinds), 3, 1, false)
				i := 1 % len(c.msgs)
				c.msgs[i].badKey = true
				c.msgs[i].hasKey = true
				c.msgs[i].msg.Key = mkBadKey{}
				c.tag = "bad-key-mid-script"
				return c
			})
		}
	}
	// consumer
	for i := 0; i < 11; i++ {
		i := i
		add(func(rng *rand.Rand) mkCase { return mkFixedConsumer(rng, i) })
	}
	return cs
}
