// C20, consumer mock (mocks.Consumer / mocks.PartitionConsumer): workload and oracles.
package main

import (
	"fmt"
	"math/rand"
	"strings"
	"sync"

	"github.com/Shopify/sarama"
	"github.com/Shopify/sarama/mocks"
)

type mkConsPart struct {
	topic     string
	partition int32
	expOffset int64  // given to ExpectConsumePartition (may be mocks.AnyOffset)
	nm, ne    int    // scripted messages / errors
	order     []bool // yield order: true = next message, false = next error
	preYield  bool   // everything is yielded before ConsumePartition (fits the buffers)
	consume   bool
	useOffset int64 // given to ConsumePartition
	readM     int   // how many messages / errors the application reads before closing
	readE     int
	drainM    bool // ExpectMessagesDrainedOnClose
	drainE    bool
	userClose string // close | asyncclose | none: what the application calls on the partition consumer
	yielders  int    // > 1: that many goroutines call YieldMessage on this partition consumer at once (message i by goroutine i % yielders)

	// observed
	pc          *mocks.PartitionConsumer
	got         sarama.PartitionConsumer
	consumeErr  error
	msgs        []*sarama.ConsumerMessage
	errs        []error
	offsets     []int64 // Offset of msgs[i] right after YieldMessage returned
	hwm0        int64
	hwmAfter    []int64 // HighWaterMarkOffset() right after YieldMessage i returned
	gotM        []*sarama.ConsumerMessage
	gotE        []*sarama.ConsumerError
	closedEarly string
	closeErr    error
	hwmMap      int64
	hwmMapOK    bool
	hwmEnd      int64 // concurrent yielders: HighWaterMarkOffset() after the last Yield call returned
}

type mkTP struct {
	topic     string
	partition int32
}

type mkConsSpec struct {
	buf           int
	parts         []*mkConsPart
	unexpected    []mkTP // ConsumePartition calls nobody scripted
	consumerFirst bool   // Consumer.Close before the partition consumers' Close
	closeOrder    []int
	tag           string
	notes         []string
}

func (s *mkConsSpec) mockKind() string { return "consumer" }

func (p *mkConsPart) offsetMismatch() bool {
	return p.consume && p.expOffset != mocks.AnyOffset && p.useOffset != p.expOffset
}

// deviations of the case, by reporter class (static: the workload is built so
// that they do not depend on scheduling).
func (s *mkConsSpec) deviations() map[string]int {
	d := map[string]int{}
	d["unexpected-partition"] = len(s.unexpected)
	for _, p := range s.parts {
		if !p.consume {
			d["leftover-at-close"]++ // registered, never consumed
			continue
		}
		if p.offsetMismatch() {
			d["unexpected-offset"]++
		}
		if p.drainM && p.nm-p.readM > 0 {
			d["messages-not-drained"]++
		}
		if p.drainE && p.ne-p.readE > 0 {
			d["errors-not-drained"]++
		}
	}
	for k, v := range d {
		if v == 0 {
			delete(d, k)
		}
	}
	return d
}

func (s *mkConsSpec) id() string {
	nm, ne := 0, 0
	for _, p := range s.parts {
		nm += p.nm
		ne += p.ne
	}
	t := ""
	if s.tag != "" {
		t = "-" + s.tag
	}
	return fmt.Sprintf("consumer-p%d-m%d-e%d-buf%d-u%d%s", len(s.parts), nm, ne, s.buf, len(s.unexpected), t)
}

func (s *mkConsSpec) shape() (string, bool) {
	kinds := map[string]bool{}
	modes := map[string]bool{}
	closes := map[string]bool{}
	for _, p := range s.parts {
		if p.nm > 0 {
			kinds["msg"] = true
		}
		if p.ne > 0 {
			kinds["err"] = true
		}
		if p.consume {
			if p.preYield {
				modes["pre"] = true
			} else {
				modes["concurrent"] = true
			}
			if p.readM < p.nm || p.readE < p.ne {
				modes["partial-read"] = true
			}
			if p.yielders > 1 {
				modes[fmt.Sprintf("yielders%d", p.yielders)] = true
			}
			closes[p.userClose] = true
		}
	}
	devs := map[string]bool{}
	for k := range s.deviations() {
		devs[k] = true
	}
	first := "partitions-first"
	if s.consumerFirst {
		first = "consumer-first"
	}
	path := fmt.Sprintf("consumer|parts=%d|kinds=%s|dev=%s|modes=%s|close=%s,%s|buf=%d", len(s.parts),
		strings.Join(mkSortedKeys(kinds), ","), strings.Join(mkSortedKeys(devs), ","), strings.Join(mkSortedKeys(modes), ","),
		first, strings.Join(mkSortedKeys(closes), ","), s.buf)
	return path, len(kinds) >= 2 || len(devs) > 0
}

// ---------------------------------------------------------------- generation

func mkYieldOrder(rng *rand.Rand, nm, ne int) []bool {
	o := make([]bool, 0, nm+ne)
	for i := 0; i < nm; i++ {
		o = append(o, true)
	}
	for i := 0; i < ne; i++ {
		o = append(o, false)
	}
	rng.Shuffle(len(o), func(i, j int) { o[i], o[j] = o[j], o[i] })
	return o
}

func mkMin(a, b int) int {
	if a < b {
		return a
	}
	return b
}

func mkGenConsumer(rng *rand.Rand) *mkConsSpec {
	s := &mkConsSpec{buf: []int{0, 1, 4, 256}[rng.Intn(4)]}
	topics := []string{"ta", "tb"}[:1+rng.Intn(2)]
	used := map[mkTP]bool{}
	for i, n := 0, 1+rng.Intn(4); i < n; i++ {
		tp := mkTP{topics[rng.Intn(len(topics))], rng.Int31n(6)}
		if used[tp] {
			continue
		}
		used[tp] = true
		p := &mkConsPart{topic: tp.topic, partition: tp.partition, consume: rng.Intn(100) < 88, userClose: "none"}
		switch rng.Intn(4) {
		case 0:
			p.expOffset = mocks.AnyOffset
		case 1:
			p.expOffset = sarama.OffsetOldest
		case 2:
			p.expOffset = sarama.OffsetNewest
		default:
			p.expOffset = rng.Int63n(1000)
		}
		if !p.consume {
			// Never consumed: only what fits the buffers can be scripted at all.
			p.preYield = true
			p.nm, p.ne = mkMin(rng.Intn(4), s.buf), mkMin(rng.Intn(3), s.buf)
		} else {
			switch x := rng.Intn(100); {
			case x < 10:
				p.nm = 0
			case x < 70:
				p.nm = 1 + rng.Intn(12)
			case x < 95:
				p.nm = 13 + rng.Intn(40)
			default:
				p.nm = 100 + rng.Intn(200)
			}
			if rng.Intn(3) > 0 {
				p.ne = rng.Intn(8)
			}
			p.preYield = p.nm <= s.buf && p.ne <= s.buf && rng.Intn(2) == 0
			p.useOffset = p.expOffset
			if p.expOffset == mocks.AnyOffset {
				p.useOffset = rng.Int63n(500)
			} else if rng.Intn(100) < 12 {
				p.useOffset = p.expOffset + 1 + rng.Int63n(5) // consuming an unexpected offset
			}
			// what the application reads: everything, or it leaves a tail that fits the buffers
			p.readM, p.readE = p.nm, p.ne
			if rng.Intn(100) < 40 {
				p.readM = p.nm - rng.Intn(mkMin(p.nm, s.buf)+1)
			}
			if rng.Intn(100) < 40 {
				p.readE = p.ne - rng.Intn(mkMin(p.ne, s.buf)+1)
			}
			p.drainM = rng.Intn(100) < 35
			p.drainE = rng.Intn(100) < 35
			p.userClose = []string{"close", "close", "asyncclose", "none"}[rng.Intn(4)]
			if !p.preYield && p.nm >= 4 && rng.Intn(100) < 30 {
				p.yielders = 2 + rng.Intn(4)
				if rng.Intn(2) == 0 {
					p.nm = 200 + rng.Intn(800)
				}
				p.readM, p.readE = p.nm, p.ne
			}
		}
		p.order = mkYieldOrder(rng, p.nm, p.ne)
		s.parts = append(s.parts, p)
	}
	for i, n := 0, []int{0, 0, 0, 1, 2}[rng.Intn(5)]; i < n; i++ {
		tp := mkTP{topics[rng.Intn(len(topics))], 6 + rng.Int31n(4)} // partition nobody registered
		if rng.Intn(3) == 0 {
			tp.topic = "unknown-topic"
		}
		s.unexpected = append(s.unexpected, tp)
	}
	s.consumerFirst = rng.Intn(3) == 0
	s.closeOrder = rng.Perm(len(s.parts))
	return s
}

// mkFixedConsumer: the smallest consumer scenarios, one per deviation.
func mkFixedConsumer(rng *rand.Rand, i int) *mkConsSpec {
	s := &mkConsSpec{buf: 256, tag: "core"}
	p := &mkConsPart{topic: "ta", partition: 0, expOffset: 100, useOffset: 100, nm: 3, ne: 1, readM: 3, readE: 1, consume: true, preYield: true, userClose: "close"}
	s.parts = []*mkConsPart{p}
	switch i {
	case 0: // nothing deviates
	case 1:
		s.unexpected = []mkTP{{"ta", 1}}
	case 2:
		p.useOffset = 101
	case 3:
		q := &mkConsPart{topic: "ta", partition: 1, expOffset: mocks.AnyOffset, nm: 1, preYield: true, userClose: "none"}
		s.parts = append(s.parts, q)
	case 4:
		p.drainM, p.readM = true, 1
	case 5:
		p.drainE, p.readE = true, 0
	case 6:
		s.buf = 0
		p.preYield = false
		q := &mkConsPart{topic: "tb", partition: 4, expOffset: sarama.OffsetNewest, useOffset: sarama.OffsetNewest, nm: 5, ne: 2, readM: 5, readE: 2, consume: true, userClose: "asyncclose"}
		s.parts = append(s.parts, q)
	case 7:
		s.consumerFirst = true
		p.readM, p.readE = 1, 0
	case 10: // both drain expectations violated at one Close: two deviations, two reports
		p.drainM, p.drainE = true, true
		p.nm, p.ne, p.readM, p.readE = 3, 2, 1, 0
	case 8, 9: // eight goroutines yield on one partition consumer
		s.buf = []int{0, 256}[i-8]
		p.preYield, p.yielders = false, 8
		p.nm, p.ne, p.readM, p.readE = 4000, 2, 4000, 2
		s.tag = "core-concurrent-yield"
	}
	for _, q := range s.parts {
		q.order = mkYieldOrder(rng, q.nm, q.ne)
	}
	s.closeOrder = rng.Perm(len(s.parts))
	return s
}

// ---------------------------------------------------------------- workload

func (p *mkConsPart) yieldAll(r *mkRun) {
	if p.yielders > 1 {
		var wg sync.WaitGroup
		for k := 0; k < p.yielders; k++ {
			k := k
			wg.Add(1)
			go func() {
				defer wg.Done()
				for i := k; i < len(p.msgs); i += p.yielders {
					p.pc.YieldMessage(p.msgs[i])
					r.tick()
				}
				if k == 0 {
					for _, e := range p.errs {
						p.pc.YieldError(e)
						r.tick()
					}
				}
			}()
		}
		wg.Wait()
		p.hwmEnd = p.pc.HighWaterMarkOffset()
		return
	}
	im, ie := 0, 0
	for _, isMsg := range p.order {
		if isMsg {
			m := p.msgs[im]
			im++
			p.pc.YieldMessage(m)
			r.tick()
			p.offsets = append(p.offsets, m.Offset)
			p.hwmAfter = append(p.hwmAfter, p.pc.HighWaterMarkOffset())
		} else {
			p.pc.YieldError(p.errs[ie])
			ie++
			r.tick()
		}
	}
}

func (s *mkConsSpec) run(r *mkRun) {
	cfg := mocks.NewTestConfig()
	cfg.ChannelBufferSize = s.buf
	c := mocks.NewConsumer(r, cfg)
	for _, p := range s.parts {
		p.pc = c.ExpectConsumePartition(p.topic, p.partition, p.expOffset)
		if p.drainM {
			p.pc.ExpectMessagesDrainedOnClose()
		}
		if p.drainE {
			p.pc.ExpectErrorsDrainedOnClose()
		}
		p.hwm0 = p.pc.HighWaterMarkOffset()
		for i := 0; i < p.nm; i++ {
			p.msgs = append(p.msgs, &sarama.ConsumerMessage{Key: []byte(fmt.Sprintf("%s/%d", p.topic, p.partition)), Value: []byte(fmt.Sprintf("v%d", i)), Offset: mkOffsetSentinel})
		}
		for i := 0; i < p.ne; i++ {
			p.errs = append(p.errs, &mkErr{class: "yielded", exp: i})
		}
	}
	for _, p := range s.parts {
		if p.preYield {
			p.yieldAll(r)
		}
	}
	half := len(s.unexpected) / 2
	for _, tp := range s.unexpected[:half] {
		c.ConsumePartition(tp.topic, tp.partition, sarama.OffsetOldest)
		r.tick()
	}
	for _, p := range s.parts {
		if p.consume {
			p.got, p.consumeErr = c.ConsumePartition(p.topic, p.partition, p.useOffset)
			r.tick()
		}
	}
	for _, tp := range s.unexpected[half:] {
		c.ConsumePartition(tp.topic, tp.partition, sarama.OffsetOldest)
		r.tick()
	}

	var wg sync.WaitGroup
	for _, p := range s.parts {
		p := p
		if !p.consume || p.consumeErr != nil || p.got == nil {
			if !p.preYield {
				s.notes = append(s.notes, fmt.Sprintf("%s/%d: not consumable, concurrent yields skipped", p.topic, p.partition))
			}
			continue
		}
		yielded := make(chan struct{})
		if p.preYield {
			close(yielded)
		} else {
			wg.Add(1)
			go func() {
				defer wg.Done()
				defer close(yielded)
				p.yieldAll(r)
			}()
		}
		wg.Add(1)
		go func() {
			defer wg.Done()
			mch, ech := p.got.Messages(), p.got.Errors()
			take := func(m *sarama.ConsumerMessage, ok bool) bool {
				if !ok {
					p.closedEarly = "messages"
					return false
				}
				p.gotM = append(p.gotM, m)
				r.tick()
				r.count("consumer_messages_read", 1)
				return true
			}
			takeE := func(e *sarama.ConsumerError, ok bool) bool {
				if !ok {
					p.closedEarly = "errors"
					return false
				}
				p.gotE = append(p.gotE, e)
				r.tick()
				r.count("consumer_errors_read", 1)
				return true
			}
			for len(p.gotM) < p.readM || len(p.gotE) < p.readE {
				mc, ec := mch, ech
				if len(p.gotM) >= p.readM {
					mc = nil
				}
				if len(p.gotE) >= p.readE {
					ec = nil
				}
				select {
				case m, ok := <-mc:
					if !take(m, ok) {
						return
					}
				case e, ok := <-ec:
					if !takeE(e, ok) {
						return
					}
				case <-yielded:
					// Every Yield call has returned: whatever was yielded and not
					// yet read sits in the buffers, so a non-blocking read decides
					// whether something was lost (no clock involved).
					for len(p.gotM) < p.readM {
						select {
						case m, ok := <-mch:
							if !take(m, ok) {
								return
							}
							continue
						default:
						}
						break
					}
					for len(p.gotE) < p.readE {
						select {
						case e, ok := <-ech:
							if !takeE(e, ok) {
								return
							}
							continue
						default:
						}
						break
					}
					return
				}
			}
		}()
	}
	wg.Wait()

	hw := c.HighWaterMarks()
	for _, p := range s.parts {
		p.hwmMap, p.hwmMapOK = hw[p.topic][p.partition]
	}

	closeParts := func() {
		for _, i := range s.closeOrder {
			p := s.parts[i]
			switch p.userClose {
			case "close":
				p.closeErr = p.pc.Close()
			case "asyncclose":
				p.pc.AsyncClose()
			}
			r.tick()
		}
	}
	if s.consumerFirst {
		if err := c.Close(); err != nil {
			s.notes = append(s.notes, "Consumer.Close returned "+err.Error())
		}
		closeParts()
	} else {
		closeParts()
		if err := c.Close(); err != nil {
			s.notes = append(s.notes, "Consumer.Close returned "+err.Error())
		}
	}
	r.tick()
}

// ---------------------------------------------------------------- oracles

func (s *mkConsSpec) judge(r *mkRun) {
	for _, p := range s.parts {
		where := fmt.Sprintf("%s/%d", p.topic, p.partition)
		// offsets handed out by YieldMessage are consecutive, and the high-water
		// mark is the last yielded offset + 1 (PartitionConsumer.HighWaterMarkOffset).
		for i, o := range p.offsets {
			if i > 0 && o != p.offsets[i-1]+1 {
				r.viol("offsets", "consumer:not-consecutive", fmt.Sprintf("%s: yielded message %d got offset %d after %d", where, i, o, p.offsets[i-1]))
			}
			r.count("hwm_checks", 1)
			if p.hwmAfter[i] != o+1 {
				r.viol("consumer-hwm", "HighWaterMarkOffset-after-yield", fmt.Sprintf("%s: after yielding offset %d HighWaterMarkOffset() = %d, want %d", where, o, p.hwmAfter[i], o+1))
			}
		}
		if n := len(p.offsets); n > 0 {
			r.count("hwm_checks", 1)
			if !p.hwmMapOK || p.hwmMap != p.offsets[n-1]+1 {
				r.viol("consumer-hwm", "Consumer.HighWaterMarks", fmt.Sprintf("%s: last yielded offset %d, HighWaterMarks() has %d (present=%v)", where, p.offsets[n-1], p.hwmMap, p.hwmMapOK))
			}
		}
		if !p.consume {
			continue
		}
		if p.consumeErr != nil || p.got == nil {
			if !p.offsetMismatch() {
				r.viol("wrong-outcome", "consumer:ConsumePartition-refused-a-scripted-partition", fmt.Sprintf("%s offset %d: %v", where, p.useOffset, p.consumeErr))
			}
			continue // with an unexpected offset the statement only demands the report
		}
		if p.closedEarly != "" {
			r.viol("consumer-order", "channel-closed-while-consuming", fmt.Sprintf("%s: %s channel closed after %d messages / %d errors", where, p.closedEarly, len(p.gotM), len(p.gotE)))
		}
		// scripted messages, in yield order, with the partition's identity and consecutive offsets
		if len(p.gotM) < p.readM && p.closedEarly == "" {
			r.viol("consumer-order", "message-lost", fmt.Sprintf("%s: %d messages yielded, application could read only %d of the %d it wanted", where, p.nm, len(p.gotM), p.readM))
		}
		if p.yielders > 1 {
			// several goroutines yield at once: the mock hands out offsets and
			// enqueues under one lock, so what the reader sees carries consecutive
			// offsets in delivery order, each yielded message once, and every
			// yielder's messages in that yielder's order.
			idx := map[*sarama.ConsumerMessage]int{}
			for i, m := range p.msgs {
				idx[m] = i
			}
			last := map[int]int{}
			seen := map[*sarama.ConsumerMessage]bool{}
			var maxOff int64 = -1
			for i, m := range p.gotM {
				j, ok := idx[m]
				if !ok || seen[m] {
					r.viol("consumer-order", "concurrent-yield:alien-or-duplicate", fmt.Sprintf("%s: %d-th message read (%q) was not yielded or was already read", where, i, mkValue(m)))
					break
				}
				seen[m] = true
				y := j % p.yielders
				if prev, ok := last[y]; ok && j < prev {
					r.viol("consumer-order", "concurrent-yield:yielder-order", fmt.Sprintf("%s: yielder %d's message %d read after its message %d", where, y, j, prev))
				}
				last[y] = j
				if m.Topic != p.topic || m.Partition != p.partition {
					r.viol("consumer-order", "message-topic-partition", fmt.Sprintf("%s: message %d carries %s/%d", where, i, m.Topic, m.Partition))
				}
				if i > 0 && m.Offset != p.gotM[i-1].Offset+1 {
					r.viol("offsets", "consumer:concurrent-yield-not-consecutive", fmt.Sprintf("%s: with %d goroutines yielding, the %d-th message read has offset %d after %d", where, p.yielders, i, m.Offset, p.gotM[i-1].Offset))
				}
				r.count("concurrent_yield_messages_checked", 1)
			}
			for _, m := range p.msgs {
				if m.Offset > maxOff {
					maxOff = m.Offset
				}
			}
			r.count("hwm_checks", 1)
			if len(p.msgs) > 0 && (p.hwmEnd != maxOff+1 || !p.hwmMapOK || p.hwmMap != maxOff+1) {
				r.viol("consumer-hwm", "concurrent-yield", fmt.Sprintf("%s: highest offset handed out %d, HighWaterMarkOffset() = %d, HighWaterMarks() has %d (present=%v)", where, maxOff, p.hwmEnd, p.hwmMap, p.hwmMapOK))
			}
		}
		for i, m := range p.gotM {
			if p.yielders > 1 {
				break
			}
			if m != p.msgs[i] {
				r.viol("consumer-order", "messages-out-of-order", fmt.Sprintf("%s: %d-th message read is not the %d-th yielded (value %q)", where, i, i, mkValue(m)))
				break
			}
			if m.Topic != p.topic || m.Partition != p.partition {
				r.viol("consumer-order", "message-topic-partition", fmt.Sprintf("%s: message %d carries %s/%d", where, i, m.Topic, m.Partition))
			}
			if i > 0 && m.Offset != p.gotM[i-1].Offset+1 {
				r.viol("offsets", "consumer:not-consecutive", fmt.Sprintf("%s: message %d has offset %d after %d", where, i, m.Offset, p.gotM[i-1].Offset))
			}
		}
		if len(p.gotE) < p.readE && p.closedEarly == "" {
			r.viol("consumer-order", "error-lost", fmt.Sprintf("%s: %d errors yielded, application could read only %d of the %d it wanted", where, p.ne, len(p.gotE), p.readE))
		}
		for i, e := range p.gotE {
			if e == nil || e.Err != p.errs[i] {
				r.viol("consumer-order", "errors-out-of-order", fmt.Sprintf("%s: %d-th error read is %v, yielded %v", where, i, e, p.errs[i]))
				break
			}
			if e.Topic != p.topic || e.Partition != p.partition {
				r.viol("consumer-order", "error-topic-partition", fmt.Sprintf("%s: error %d carries %s/%d", where, i, e.Topic, e.Partition))
			}
		}
		if ce, ok := p.closeErr.(sarama.ConsumerErrors); ok {
			r.count("errors_returned_by_close", int64(len(ce))) // observed, not judged
		}
	}
	r.judgeReports("consumer", s.deviations())
	n := 0
	for _, v := range s.deviations() {
		n += v
	}
	r.count("deviations_expected", int64(n))
}

func mkValue(m *sarama.ConsumerMessage) string {
	if m == nil {
		return "<nil>"
	}
	return string(m.Key) + ":" + string(m.Value)
}

func (s *mkConsSpec) describe(r *mkRun) map[string]interface{} {
	var parts []map[string]interface{}
	for _, p := range s.parts {
		var off []int64
		for i, m := range p.gotM {
			if i == 40 {
				break
			}
			off = append(off, m.Offset)
		}
		order := ""
		for i, b := range p.order {
			if i == 40 {
				break
			}
			if b {
				order += "m"
			} else {
				order += "e"
			}
		}
		parts = append(parts, map[string]interface{}{
			"topic": p.topic, "partition": p.partition, "expect_offset": p.expOffset, "consume": p.consume, "consume_offset": p.useOffset,
			"yield_messages": p.nm, "yield_errors": p.ne, "yield_order": order, "pre_yield": p.preYield, "read_messages": p.readM, "read_errors": p.readE,
			"drain_messages_expected": p.drainM, "drain_errors_expected": p.drainE, "partition_close": p.userClose,
			"got_messages": len(p.gotM), "got_errors": len(p.gotE), "got_offsets": off, "hwm_before": p.hwm0, "hwm_map": p.hwmMap,
			"consume_err": fmt.Sprint(p.consumeErr), "close_err": fmt.Sprint(p.closeErr),
		})
	}
	return map[string]interface{}{"mock": "consumer", "channel_buffer": s.buf, "partitions": parts, "unexpected_consume": fmt.Sprint(s.unexpected),
		"consumer_closed_first": s.consumerFirst, "close_order": s.closeOrder, "deviations": s.deviations(), "reporter": r.reportSample(), "notes": s.notes}
}
