// vworker runs one shard of a property's case list against the sarama working
// tree it was linked with, and journals every case before and after running it.
package main

import (
	"flag"
	"fmt"
	"io/ioutil"
	"log"
	"os"
	"runtime"
	"runtime/debug"
	"strings"
	"time"

	"github.com/Shopify/sarama"

	"verifharness/internal/proto"
)

// Engine is a family of workloads plus the monitors that judge them.
type Engine interface {
	// Count is a pure function of (prop, tier, seed).
	Count(prop, tier string, seed int64) int
	// Run executes case idx and returns its "end" record (ID, verdict, viols …).
	Run(prop, tier string, seed int64, idx int) proto.Rec
}

var engines = map[string]Engine{}

var (
	// restartAfterCase is set by an engine whose case left the process in a
	// state that cannot run further cases (e.g. a goroutine spinning inside the
	// code under test); the worker then exits with code 75 after journaling the
	// case and the runner starts a fresh child behind it.
	restartAfterCase bool

	verbose bool
	runDir  string
	curFile *os.File // current decoder input, for post-mortem attribution
)

func main() {
	engine := flag.String("engine", "", "")
	prop := flag.String("prop", "", "")
	tier := flag.String("tier", "quick", "")
	seed := flag.Int64("seed", 1, "")
	shard := flag.Int("shard", 0, "")
	nshards := flag.Int("nshards", 1, "")
	from := flag.Int("from", 0, "")
	only := flag.Int("only", -1, "")
	journal := flag.String("journal", "", "")
	count := flag.Bool("count", false, "")
	flag.BoolVar(&verbose, "v", false, "")
	flag.Parse()

	runDir = os.Getenv("VERIF_RUNDIR")
	if runDir == "" {
		runDir = os.TempDir()
	}
	sarama.Logger = log.New(ioutil.Discard, "", 0)
	if verbose && os.Getenv("VERIF_SARAMA_LOG") != "" {
		sarama.Logger = log.New(os.Stderr, "[sarama] ", log.Lmicroseconds)
	}
	eng, ok := engines[*engine]
	if !ok {
		fmt.Fprintf(os.Stderr, "unknown engine %q\n", *engine)
		os.Exit(2)
	}
	total := eng.Count(*prop, *tier, *seed)
	if *count {
		fmt.Println(total)
		return
	}
	if *journal == "" {
		fmt.Fprintln(os.Stderr, "-journal required")
		os.Exit(2)
	}
	j, err := proto.OpenJournal(*journal)
	if err != nil {
		fmt.Fprintln(os.Stderr, err)
		os.Exit(2)
	}
	curFile, _ = os.OpenFile(*journal+".cur", os.O_CREATE|os.O_RDWR|os.O_TRUNC, 0o644)
	debug.SetTraceback("all")
	debug.SetMaxStack(64 << 20) // unbounded recursion in the code under test dies quickly
	n := 0
	t0 := time.Now()
	for idx := *from; idx < total; idx++ {
		if *only >= 0 {
			if idx != *only {
				continue
			}
		} else if idx%*nshards != *shard {
			continue
		}
		j.Write(proto.Rec{T: "start", Idx: idx, ID: fmt.Sprintf("%s/%s/%d/%d", *prop, *tier, *seed, idx)})
		tc := time.Now()
		rec := runCase(eng, *prop, *tier, *seed, idx)
		rec.Ms = time.Since(tc).Milliseconds()
		rec.T = "end"
		rec.Idx = idx
		if rec.ID == "" {
			rec.ID = fmt.Sprintf("%s/%s/%d/%d", *prop, *tier, *seed, idx)
		}
		if rec.Verdict == "" {
			if len(rec.Viols) > 0 {
				rec.Verdict = "violated"
			} else {
				rec.Verdict = "held"
			}
		}
		if len(rec.Viols) > 0 && rec.Verdict != "violated" {
			rec.Verdict = "violated"
		}
		j.Write(rec)
		if verbose {
			fmt.Fprintf(os.Stderr, "case %d: %s nontrivial=%v path=%s viols=%v why=%s\n", idx, rec.Verdict, rec.NonTrivial, rec.Path, rec.Viols, rec.Why)
		}
		n++
		if restartAfterCase {
			j.Close()
			os.Exit(75)
		}
	}
	j.Write(proto.Rec{T: "done", Cases: n, Extra: map[string]interface{}{"worker_s": time.Since(t0).Seconds()}})
	j.Close()
}

// runCase shields the loop from panics raised on the case's own goroutine by
// harness-called sarama code (e.g. Plan, decode): they become violations with
// the panic class and the first sarama frame as attribution. Panics on other
// goroutines and fatal errors kill the child; the runner handles those.
func runCase(eng Engine, prop, tier string, seed int64, idx int) (rec proto.Rec) {
	defer func() {
		if r := recover(); r != nil {
			kind, attr := classifyPanic(r)
			rec.Viols = append(rec.Viols, proto.Viol{Kind: kind, Attr: attr, Msg: fmt.Sprint(r)})
			rec.Verdict = "violated"
		}
	}()
	return eng.Run(prop, tier, seed, idx)
}

func classifyPanic(r interface{}) (string, string) {
	msg := fmt.Sprint(r)
	kind := "panic:" + panicClass(msg)
	pcs := make([]uintptr, 64)
	k := runtime.Callers(3, pcs)
	fr := runtime.CallersFrames(pcs[:k])
	attr := ""
	for {
		f, more := fr.Next()
		if strings.Contains(f.Function, "github.com/Shopify/sarama") && !isHarnessFunc(f.Function, f.File) {
			attr = trimFn(f.Function)
			break
		}
		if !more {
			break
		}
	}
	return kind, attr
}

func isHarnessFunc(fn, file string) bool {
	return strings.Contains(file, "zz_verif_") || strings.Contains(file, "/verif/") || strings.Contains(fn, ".Verif") || strings.Contains(fn, ".vr")
}

func trimFn(fn string) string {
	fn = strings.TrimPrefix(fn, "github.com/Shopify/sarama/mocks.")
	fn = strings.TrimPrefix(fn, "github.com/Shopify/sarama.")
	return fn
}

func panicClass(l string) string {
	switch {
	case strings.Contains(l, "makeslice"):
		return "makeslice"
	case strings.Contains(l, "index out of range"):
		return "index"
	case strings.Contains(l, "slice bounds out of range"):
		return "slice-bounds"
	case strings.Contains(l, "nil pointer"):
		return "nil-deref"
	case strings.Contains(l, "send on closed channel"):
		return "send-on-closed"
	case strings.Contains(l, "close of closed channel"):
		return "close-of-closed"
	case strings.Contains(l, "negative WaitGroup counter"):
		return "waitgroup-negative"
	case strings.Contains(l, "divide by zero"):
		return "div-zero"
	}
	var b strings.Builder
	for _, r := range l {
		if b.Len() >= 40 {
			break
		}
		switch {
		case r >= 'a' && r <= 'z', r >= 'A' && r <= 'Z', r == '-':
			b.WriteRune(r)
		case r == ' ' || r == ':' || r == '_':
			b.WriteRune('-')
		}
	}
	return b.String()
}

// setCur records the input about to be decoded (post-mortem attribution).
func setCur(b []byte) {
	if curFile == nil {
		return
	}
	hdr := []byte(fmt.Sprintf("%08d\n", len(b)))
	curFile.WriteAt(append(hdr, b...), 0)
}
