package main

// Re-submission of ProducerMessage objects under interceptors (C18): a message object
// that has been through a producer once - delivered at once, delivered after a retry, or
// failed after its retries - is refilled and submitted again, to the same producer once
// the application has it back on Successes()/Errors(), or to a second producer after the
// first one was closed (the only moment the application knows the first producer is done
// with an object whose outcome channel is switched off). Every submission is a message
// the application submits: each interceptor of the producer it is given to runs exactly
// once for it, and its record carries the interceptors' marks exactly once.

import (
	"bytes"
	"fmt"
	"math/rand"
	"sync"
	"sync/atomic"
	"time"

	"github.com/Shopify/sarama"

	"verifharness/internal/proto"
)

func reuseInterceptCases(tier string) int {
	if tier == "thorough" {
		return 480
	}
	return 48
}

type reuseIC struct {
	name  string
	mu    *sync.Mutex
	calls map[int]map[string]int // submission id -> interceptor name -> calls
	order map[int][]string
}

func (ic *reuseIC) OnSend(m *sarama.ProducerMessage) {
	id, ok := m.Metadata.(int)
	if !ok {
		id = -1
	}
	ic.mu.Lock()
	if ic.calls[id] == nil {
		ic.calls[id] = map[string]int{}
	}
	ic.calls[id][ic.name]++
	ic.order[id] = append(ic.order[id], ic.name)
	ic.mu.Unlock()
	if v, ok := m.Value.(sarama.ByteEncoder); ok {
		m.Value = sarama.ByteEncoder(append(append([]byte{}, v...), []byte("~"+ic.name)...))
	}
}

func runReuseInterceptCase(prop, tier string, seed int64, k, idx int) proto.Rec {
	rng := rand.New(rand.NewSource(proto.SubSeed(seed, idx, "reuseic"+prop)))
	rec := proto.Rec{ID: fmt.Sprintf("%s/%s/%d/%d:reuse-ic", prop, tier, seed, idx), Obs: map[string]int64{}}
	retSucc, retErr := k&1 == 0, k&2 == 0
	firstLife := []string{"fail", "retried-success", "plain-success"}[(k>>2)%3]
	target := []string{"same", "other"}[(k/12)%2]
	retryMax := 1 + (k/24)%2
	nobj := 2 + rng.Intn(3)
	version := []sarama.KafkaVersion{sarama.V0_10_0_0, sarama.V0_11_0_0, sarama.V2_1_0_0}[rng.Intn(3)]
	// the object that goes through the scripted first life is object 0; the others are delivered at once
	refusals := map[string]int{"fail": retryMax + 1, "retried-success": 1, "plain-success": 0}[firstLife]
	// an object can only go back to the same producer when the application gets it back on a channel
	if target == "same" {
		if firstLife == "fail" {
			retErr = true
		} else {
			retSucc = true
		}
	}

	sim := sarama.VNewSim(simSocketDir(), 1)
	defer sim.Close()
	sim.CreateTopic("t", 1, 100)
	var refused int32
	sim.OnProduce = func(ctx *sarama.VSimProduceCtx) sarama.VSimProduceAction {
		for _, b := range ctx.Batches {
			for _, r := range b.Recs {
				if bytes.HasPrefix(r.Value, []byte("0:")) && int(atomic.LoadInt32(&refused)) < refusals {
					atomic.AddInt32(&refused, 1)
					return sarama.VSimProduceAction{Kind: sarama.VPErrNoAppend, Code: sarama.ErrNotEnoughReplicas}
				}
			}
		}
		return sarama.VSimProduceAction{}
	}
	var mu sync.Mutex
	calls := map[string]map[int]map[string]int{"A": {}, "B": {}}
	order := map[string]map[int][]string{"A": {}, "B": {}}
	newProducer := func(which string) (sarama.AsyncProducer, error) {
		conf := sarama.NewConfig()
		conf.ClientID = "vreuseic" + which
		conf.Version = version
		sim.ConfigureNet(conf)
		conf.Producer.Return.Successes = retSucc
		conf.Producer.Return.Errors = retErr
		conf.Producer.Retry.Max = retryMax
		conf.Producer.Retry.Backoff = time.Millisecond
		conf.Metadata.Retry.Backoff = time.Millisecond
		conf.Producer.Partitioner = sarama.NewManualPartitioner
		conf.Producer.Interceptors = []sarama.ProducerInterceptor{
			&reuseIC{name: which + "1", mu: &mu, calls: calls[which], order: order[which]},
			&reuseIC{name: which + "2", mu: &mu, calls: calls[which], order: order[which]},
		}
		return sarama.NewAsyncProducer(sim.Addrs(), conf)
	}
	type outcome struct {
		id  int
		err error
	}
	var omu sync.Mutex
	var outcomes []outcome
	var back []*sarama.ProducerMessage
	var got int64
	drain := func(p sarama.AsyncProducer) chan struct{} {
		done := make(chan struct{})
		go func() {
			defer close(done)
			succ, errs := p.Successes(), p.Errors()
			for succ != nil || errs != nil {
				select {
				case m, ok := <-succ:
					if !ok {
						succ = nil
						continue
					}
					omu.Lock()
					id, _ := m.Metadata.(int)
					outcomes = append(outcomes, outcome{id, nil})
					back = append(back, m)
					omu.Unlock()
					atomic.AddInt64(&got, 1)
				case e, ok := <-errs:
					if !ok {
						errs = nil
						continue
					}
					omu.Lock()
					id, _ := e.Msg.Metadata.(int)
					outcomes = append(outcomes, outcome{id, e.Err})
					back = append(back, e.Msg)
					omu.Unlock()
					atomic.AddInt64(&got, 1)
				}
			}
		}()
		return done
	}
	nextID := 0
	submittedTo := map[int]string{}
	fill := func(m *sarama.ProducerMessage) int {
		id := nextID
		nextID++
		m.Topic, m.Partition, m.Key = "t", 0, nil
		m.Value = sarama.ByteEncoder([]byte(fmt.Sprintf("%d:%s", id, randBytes(rng, 3))))
		m.Metadata = id
		return id
	}
	closeWait := func(p sarama.AsyncProducer, done chan struct{}) bool {
		fin := make(chan struct{})
		go func() { p.AsyncClose(); <-done; close(fin) }()
		select {
		case <-fin:
			return true
		case <-time.After(20 * time.Second):
			return false
		}
	}

	a, err := newProducer("A")
	if err != nil {
		rec.Verdict, rec.Why = "inconclusive", "producer not created: "+err.Error()
		return rec
	}
	doneA := drain(a)
	objs := make([]*sarama.ProducerMessage, nobj)
	for i := range objs {
		objs[i] = &sarama.ProducerMessage{}
		submittedTo[fill(objs[i])] = "A"
		a.Input() <- objs[i]
		time.Sleep(300 * time.Microsecond)
	}
	complete := true
	second := 0
	switch target {
	case "same":
		// objects go back in as soon as the application has them in its hands again
		deadline := time.Now().Add(20 * time.Second)
		for second < 1 && time.Now().Before(deadline) {
			omu.Lock()
			var m *sarama.ProducerMessage
			for i, b := range back {
				if b == objs[0] {
					m = b
					back = append(back[:i], back[i+1:]...)
					break
				}
			}
			omu.Unlock()
			if m == nil {
				time.Sleep(200 * time.Microsecond)
				continue
			}
			submittedTo[fill(m)] = "A"
			a.Input() <- m
			second++
		}
		if second == 0 {
			complete = false
		}
		if !closeWait(a, doneA) {
			complete = false
		}
	case "other":
		if !closeWait(a, doneA) {
			complete = false
			break
		}
		b, err := newProducer("B")
		if err != nil {
			rec.Verdict, rec.Why = "inconclusive", "second producer not created: "+err.Error()
			return rec
		}
		doneB := drain(b)
		for _, m := range objs {
			submittedTo[fill(m)] = "B"
			b.Input() <- m
			second++
			time.Sleep(300 * time.Microsecond)
		}
		if !closeWait(b, doneB) {
			complete = false
		}
	}
	ctx := fmt.Sprintf("reuse,first-life=%s,to=%s,ret-succ=%v,ret-err=%v", firstLife, target, retSucc, retErr)
	if !complete {
		rec.Verdict, rec.Why = "inconclusive", "a producer did not close within 20 s (judged by C01/C12)"
		return rec
	}
	add := func(kind, attr, msg string) {
		for _, v := range rec.Viols {
			if v.Kind == kind && v.Attr == attr {
				return
			}
		}
		rec.Viols = append(rec.Viols, proto.Viol{Kind: kind, Attr: attr, Msg: msg})
	}
	lg, _ := sim.Log("t", 0)
	inLog := map[int][]byte{}
	nLog := map[int]int{}
	for _, r := range lg {
		if id, ok := msgIDFromRecord(r); ok {
			inLog[id] = r.Value
			nLog[id]++
		}
	}
	mu.Lock()
	for id := 0; id < nextID; id++ {
		which := submittedTo[id]
		life := "first"
		if id >= nobj {
			life = "second"
		}
		for _, name := range []string{which + "1", which + "2"} {
			if n := calls[which][id][name]; n != 1 {
				add("not-once", fmt.Sprintf("%s,%s-life,calls=%d", ctx, life, n), fmt.Sprintf("interceptor %s was invoked %d time(s) for submission %d (%s life of its message object, given to producer %s)", name, n, id, life, which))
			}
		}
		if o := order[which][id]; len(o) == 2 && o[0] != which+"1" {
			add("wrong-order", ctx, fmt.Sprintf("submission %d: interceptors ran in order %v", id, o))
		}
		other := map[string]string{"A": "B", "B": "A"}[which]
		if len(calls[other][id]) > 0 {
			add("not-once", ctx+",foreign-producer", fmt.Sprintf("submission %d was given to producer %s but interceptors of producer %s ran for it", id, which, other))
		}
		// second lives meet no fault: they are in the log once, carrying each mark once
		if life == "second" || (id != 0 || firstLife != "fail") {
			if nLog[id] != 1 {
				if life == "second" {
					add("resubmission-lost", ctx, fmt.Sprintf("submission %d (second life, no fault) is in the log %d time(s)", id, nLog[id]))
				}
				continue
			}
			for _, name := range []string{which + "1", which + "2"} {
				if c := bytes.Count(inLog[id], []byte("~"+name)); c != 1 {
					add("not-once", fmt.Sprintf("%s,%s-life,on-wire=%d", ctx, life, c), fmt.Sprintf("the record of submission %d carries the mark of interceptor %s %d time(s): %q", id, name, c, inLog[id]))
				}
			}
		}
	}
	mu.Unlock()
	rec.Obs["submissions"], rec.Obs["second_lives"], rec.Obs["refused_batches"] = int64(nextID), int64(second), int64(atomic.LoadInt32(&refused))
	rec.NonTrivial = second > 0 && int(atomic.LoadInt32(&refused)) == refusals
	rec.Path = fmt.Sprintf("reuseic|%s|%s|succ=%v|err=%v|retry=%d", firstLife, target, retSucc, retErr, retryMax)
	rec.Sample = map[string]interface{}{"first_life_of_object_0": firstLife, "resubmitted_to": target, "return_successes": retSucc, "return_errors": retErr, "retry_max": retryMax, "objects": nobj, "submissions": nextID}
	if len(rec.Viols) > 0 {
		rec.Verdict = "violated"
	}
	return rec
}
