package main

// Raw simulated server of the C14 engine: plain frames over a unix socket, one
// reader and one responder goroutine per connection. The responder consumes a
// behaviour word (shared by all connections of the case, in order); when the
// word is used up it answers every request properly (behaving tail).

import (
	"encoding/binary"
	"fmt"
	"io"
	"net"
	"os"
	"path/filepath"
	"sync"
	"sync/atomic"
	"time"

	"github.com/Shopify/sarama"
)

// behaviour letters
const (
	opAnswer      = "answer"       // answer the oldest pending request properly
	opDelay       = "delay"        // as answer, after DelayMs
	opHold        = "hold"         // withhold until K are pending (or nothing more arrives), then answer all in order
	opSwap        = "swapped"      // proper frame of the SECOND oldest pending request first
	opWrongID     = "wrong-id"     // answer of the oldest with correlation id + 1000
	opStaleID     = "stale-id"     // answer of the oldest with the id of an already answered request
	opReplay      = "replay"       // an extra frame carrying the id of an already answered request; the oldest stays pending and is answered properly afterwards
	opTruncHdr    = "trunc-hdr"    // 1-7 bytes of the frame, then close
	opTruncBody   = "trunc-body"   // header and part of the body, then close
	opTruncSilent = "trunc-silent" // header and part of the body, then silence
	opShortLen    = "short-len"    // length field 0..4 / negative
	opOversize    = "oversize"     // length field > MaxResponseSize
	opBadTag      = "bad-tag"      // flexible response header with a non-empty tagged field section (falls back to short-len on a v0 header)
	opClose       = "close"        // close the connection with K requests pending (K = 0: at once)
	opSilence     = "silence"      // never answer again on this connection
)

var brFaultOps = []string{opSwap, opWrongID, opStaleID, opReplay, opTruncHdr, opTruncBody, opTruncSilent, opShortLen, opOversize, opBadTag, opClose, opSilence}

func brIsSilenceClass(op string) bool {
	return op == opSilence || op == opTruncSilent || op == opSilence+"-resume" || op == opTruncSilent+"-resume"
}

type brLetter struct {
	Op      string `json:"op"`
	K       int    `json:"k,omitempty"`     // wait until K requests are pending (or quiet)
	DelayMs int    `json:"delay,omitempty"` // sleep before acting
	Arg     int    `json:"arg,omitempty"`   // variant selector
	// HdrOnly (wrong-id, stale-id, short-len, oversize, bad-tag): only the response
	// header is written, the body never follows (the next frame starts right after).
	HdrOnly bool `json:"hdr_only,omitempty"`
	// Resume (silence, trunc-silent): the request concerned is never answered; once
	// its caller has given up (read timeout) the server carries on with the rest of the word.
	Resume bool `json:"resume,omitempty"`
}

func (l brLetter) String() string {
	s := l.Op
	if l.HdrOnly {
		s += "/hdr-only"
	}
	if l.Resume {
		s += "-resume"
	}
	if l.K > 1 || (l.Op == opClose) {
		s += fmt.Sprintf("(k=%d)", l.K)
	}
	return s
}

type srvReq struct {
	Conn     int
	RecvSeq  int64
	Corr     int32
	Kind     string
	Version  int16
	Token    string
	NoResp   bool
	AnsSeq   int64 // stamp taken just before a well-formed answer with the right id was written
	Pending  int   // requests pending on the connection right after this one arrived
	parsed   sarama.VRawReq
	consumed bool // a (good or bad) frame was produced for it
}

type srvFrame struct {
	Serial   int64
	Conn     int
	Seq      int64 // stamp before the write
	Class    string
	Corr     int32 // id written
	Oldest   int32 // id of the oldest pending request when it was written
	ForToken string
	Good     bool
}

type srvConn struct {
	ID           int
	c            net.Conn
	pending      []*srvReq
	all          []*srvReq
	answered     []*srvReq
	trouble      int64 // stamp of the first injected fault (taken before acting), 0 = none
	troubleClass string
	gone         bool
	goneCh       chan struct{}
	notify       chan struct{}
	openSeq      int64
	closeSeq     int64
	peak         int
}

type rawServer struct {
	mu       sync.Mutex
	ln       net.Listener
	path     string
	conns    []*srvConn
	word     []brLetter
	wpos     int
	executed []string // classes of the letters actually carried out
	frames   map[int64]*srvFrame
	serial   int64
	progress int64
	received int64
	stopped  bool
	quiet    time.Duration
	resume   time.Duration // pause between the victim of a silence giving up and the next answer
	// isReturned (harness-side placement aid, not an oracle input): has the call
	// carrying this token returned? A silence ends only after its victim gave up.
	isReturned func(token string) bool
	protoErr []string
	onRecv   func(n int64)
	wg       sync.WaitGroup
}

var brSockSeq int64

func newRawServer(word []brLetter, quiet, resume time.Duration) (*rawServer, error) {
	s := &rawServer{word: word, frames: map[int64]*srvFrame{}, quiet: quiet, resume: resume}
	s.path = filepath.Join(simSocketDir(), fmt.Sprintf("raw-%d.sock", atomic.AddInt64(&brSockSeq, 1)))
	os.Remove(s.path)
	ln, err := net.Listen("unix", s.path)
	if err != nil {
		return nil, err
	}
	s.ln = ln
	go s.accept()
	return s, nil
}

// Dial makes rawServer a proxy.Dialer for conf.Net.Proxy.Dialer.
func (s *rawServer) Dial(network, addr string) (net.Conn, error) {
	return net.Dial("unix", s.path)
}

func (s *rawServer) Progress() int64 { return atomic.LoadInt64(&s.progress) }

func (s *rawServer) stop() {
	s.mu.Lock()
	s.stopped = true
	conns := append([]*srvConn(nil), s.conns...)
	s.mu.Unlock()
	s.ln.Close()
	for _, c := range conns {
		c.c.Close()
	}
	os.Remove(s.path)
}

func (s *rawServer) accept() {
	for {
		nc, err := s.ln.Accept()
		if err != nil {
			return
		}
		s.mu.Lock()
		if s.stopped {
			s.mu.Unlock()
			nc.Close()
			return
		}
		c := &srvConn{ID: len(s.conns) + 1, c: nc, goneCh: make(chan struct{}), notify: make(chan struct{}, 1), openSeq: sarama.VerifNextSeq()}
		s.conns = append(s.conns, c)
		s.mu.Unlock()
		atomic.AddInt64(&s.progress, 1)
		go s.reader(c)
		go s.responder(c)
	}
}

func (s *rawServer) markGone(c *srvConn) {
	s.mu.Lock()
	if !c.gone {
		c.gone = true
		c.closeSeq = sarama.VerifNextSeq()
		close(c.goneCh)
	}
	s.mu.Unlock()
	atomic.AddInt64(&s.progress, 1)
}

func (s *rawServer) reader(c *srvConn) {
	defer s.markGone(c)
	for {
		lenb := make([]byte, 4)
		if _, err := io.ReadFull(c.c, lenb); err != nil {
			return
		}
		n := int(binary.BigEndian.Uint32(lenb))
		if n < 8 || n > 16<<20 {
			s.mu.Lock()
			s.protoErr = append(s.protoErr, fmt.Sprintf("request frame length %d", n))
			s.mu.Unlock()
			return
		}
		buf := make([]byte, n)
		if _, err := io.ReadFull(c.c, buf); err != nil {
			return
		}
		pr, err := sarama.VRawParse(buf)
		if err != nil {
			s.mu.Lock()
			s.protoErr = append(s.protoErr, err.Error())
			s.mu.Unlock()
			return
		}
		r := &srvReq{Conn: c.ID, Corr: pr.CorrID, Kind: pr.Kind, Version: pr.Version, Token: pr.Token, NoResp: pr.NoResponse, parsed: pr}
		s.mu.Lock()
		r.RecvSeq = sarama.VerifNextSeq()
		c.all = append(c.all, r)
		if !r.NoResp {
			c.pending = append(c.pending, r)
		}
		r.Pending = len(c.pending)
		if r.Pending > c.peak {
			c.peak = r.Pending
		}
		s.received++
		nrecv := s.received
		cb := s.onRecv
		s.mu.Unlock()
		atomic.AddInt64(&s.progress, 1)
		select {
		case c.notify <- struct{}{}:
		default:
		}
		if cb != nil {
			cb(nrecv)
		}
	}
}

// waitPending blocks until k requests are pending, or at least one is pending
// and nothing more has arrived for the quiet period. false = connection gone.
func (s *rawServer) waitPending(c *srvConn, k int) bool {
	for {
		s.mu.Lock()
		n := len(c.pending)
		gone := c.gone || s.stopped
		s.mu.Unlock()
		if gone {
			return false
		}
		if n >= k && (n >= 1 || k == 0) {
			return true
		}
		if n >= 1 {
			t := time.NewTimer(s.quiet)
			select {
			case <-c.notify:
				t.Stop()
			case <-c.goneCh:
				t.Stop()
				return false
			case <-t.C:
				s.mu.Lock()
				n2 := len(c.pending)
				s.mu.Unlock()
				if n2 == n {
					return true
				}
			}
		} else {
			select {
			case <-c.notify:
			case <-c.goneCh:
				return false
			}
		}
	}
}

// sleepOrGone stays silent for d and until the call whose request is left
// unanswered has returned; false = the connection went away meanwhile.
func (s *rawServer) sleepOrGone(c *srvConn, d time.Duration, victim string) bool {
	t := time.NewTimer(d)
	defer t.Stop()
	select {
	case <-t.C:
	case <-c.goneCh:
		return false
	}
	for {
		s.mu.Lock()
		f, stopped := s.isReturned, s.stopped
		s.mu.Unlock()
		if stopped {
			return false
		}
		if f == nil || f(victim) {
			atomic.AddInt64(&s.progress, 1)
			return true
		}
		select {
		case <-time.After(time.Millisecond):
		case <-c.goneCh:
			return false
		}
	}
}

func (s *rawServer) nextLetter() brLetter {
	s.mu.Lock()
	defer s.mu.Unlock()
	if s.wpos < len(s.word) {
		l := s.word[s.wpos]
		s.wpos++
		return l
	}
	return brLetter{Op: opAnswer, K: 1}
}

func (s *rawServer) noteExecuted(class string) {
	s.mu.Lock()
	s.executed = append(s.executed, class)
	s.mu.Unlock()
}

// setTrouble stamps the first injected fault of a connection BEFORE it is acted out.
func (s *rawServer) setTrouble(c *srvConn, class string) {
	s.mu.Lock()
	if c.trouble == 0 {
		c.trouble = sarama.VerifNextSeq()
		c.troubleClass = class
	}
	s.mu.Unlock()
	atomic.AddInt64(&s.progress, 1)
}

// buildFrame prepares the frame for request r; corr is the id to write.
func (s *rawServer) buildFrame(c *srvConn, r *srvReq, class string, corr int32, length int64, tagged byte) ([]byte, *srvFrame) {
	s.mu.Lock()
	s.serial++
	f := &srvFrame{Serial: s.serial, Conn: c.ID, Class: class, Corr: corr, ForToken: r.Token, Good: class == "ok"}
	if len(c.pending) > 0 {
		f.Oldest = c.pending[0].Corr
	}
	s.frames[f.Serial] = f
	s.mu.Unlock()
	hv, body, err := sarama.VRawAnswer(r.parsed, fmt.Sprintf("%s~%d", r.Token, f.Serial))
	if err != nil {
		panic("raw server: " + err.Error())
	}
	return sarama.VRawFrame(hv, corr, body, length, tagged), f
}

func (s *rawServer) hdrLen(r *srvReq) int {
	if r.Kind == "offfetch" && r.Version >= 6 {
		return 9
	}
	return 8
}

// take removes request i from the pending queue.
func (s *rawServer) take(c *srvConn, i int, good bool, f *srvFrame) {
	s.mu.Lock()
	r := c.pending[i]
	c.pending = append(c.pending[:i:i], c.pending[i+1:]...)
	r.consumed = true
	f.Seq = sarama.VerifNextSeq()
	if good {
		r.AnsSeq = f.Seq
		c.answered = append(c.answered, r)
	}
	s.mu.Unlock()
}

func (s *rawServer) write(c *srvConn, b []byte) bool {
	c.c.SetWriteDeadline(time.Now().Add(2 * time.Second))
	_, err := c.c.Write(b)
	atomic.AddInt64(&s.progress, 1)
	return err == nil
}

func (s *rawServer) answerOldest(c *srvConn) bool {
	s.mu.Lock()
	if len(c.pending) == 0 {
		s.mu.Unlock()
		return true
	}
	r := c.pending[0]
	s.mu.Unlock()
	b, f := s.buildFrame(c, r, "ok", r.Corr, -1, 0)
	s.take(c, 0, true, f)
	return s.write(c, b)
}

func (s *rawServer) responder(c *srvConn) {
	for {
		l := s.nextLetter()
		k := l.K
		if k < 1 && l.Op != opClose {
			k = 1
		}
		if l.Op == opSwap && k < 2 {
			k = 2
		}
		if !s.waitPending(c, k) {
			return
		}
		if l.DelayMs > 0 {
			time.Sleep(time.Duration(l.DelayMs) * time.Millisecond)
		}
		s.mu.Lock()
		np := len(c.pending)
		var oldest, second *srvReq
		if np > 0 {
			oldest = c.pending[0]
		}
		if np > 1 {
			second = c.pending[1]
		}
		var lastAnswered *srvReq
		if len(c.answered) > 0 {
			lastAnswered = c.answered[len(c.answered)-1]
		}
		s.mu.Unlock()

		op := l.Op
		if op == opSwap && second == nil {
			op = opAnswer // nothing to swap with
		}
		if op == opBadTag && s.hdrLen(oldest) != 9 {
			op = opShortLen
		}
		switch op {
		case opAnswer, opDelay:
			s.noteExecuted(op)
			if !s.answerOldest(c) {
				return
			}
		case opHold:
			s.noteExecuted(op)
			for i := 0; i < np; i++ {
				if !s.answerOldest(c) {
					return
				}
			}
		case opSwap:
			s.noteExecuted(op)
			s.setTrouble(c, op)
			b, f := s.buildFrame(c, second, op, second.Corr, -1, 0)
			s.take(c, 1, false, f)
			if !s.write(c, b) {
				return
			}
		case opWrongID, opStaleID:
			corr := oldest.Corr + 1000
			if op == opStaleID {
				if lastAnswered != nil {
					corr = lastAnswered.Corr
				} else {
					corr = oldest.Corr - 1
				}
			}
			s.noteExecuted(op)
			s.setTrouble(c, op)
			b, f := s.buildFrame(c, oldest, op, corr, -1, 0)
			if l.HdrOnly {
				b = b[:s.hdrLen(oldest)]
			}
			s.take(c, 0, false, f)
			if !s.write(c, b) {
				return
			}
		case opReplay:
			corr := oldest.Corr - 1
			if lastAnswered != nil {
				corr = lastAnswered.Corr
			}
			s.noteExecuted(op)
			s.setTrouble(c, op)
			b, f := s.buildFrame(c, oldest, op, corr, -1, 0)
			s.mu.Lock()
			f.Seq = sarama.VerifNextSeq()
			s.mu.Unlock()
			if !s.write(c, b) {
				return
			}
		case opShortLen, opOversize, opBadTag:
			length, tagged := int64(-1), byte(0)
			switch op {
			case opShortLen:
				length = int64([]int64{0, 1, 3, 4, 0xffffffff, 0x80000000}[l.Arg%6])
			case opOversize:
				length = int64(sarama.VRawMaxResponseSize()) + 1
				if l.Arg%2 == 1 {
					length = 0x7fffffff
				}
			case opBadTag:
				tagged = 1
			}
			s.noteExecuted(op)
			s.setTrouble(c, op)
			b, f := s.buildFrame(c, oldest, op, oldest.Corr, length, tagged)
			if l.HdrOnly {
				b = b[:s.hdrLen(oldest)]
			}
			s.take(c, 0, false, f)
			if !s.write(c, b) {
				return
			}
		case opTruncHdr, opTruncBody, opTruncSilent:
			class := op
			if op == opTruncSilent && l.Resume {
				class += "-resume"
			}
			s.noteExecuted(class)
			s.setTrouble(c, class)
			b, f := s.buildFrame(c, oldest, class, oldest.Corr, -1, 0)
			hl := s.hdrLen(oldest)
			cut := 1 + l.Arg%7
			if op != opTruncHdr {
				cut = hl + l.Arg%(len(b)-hl)
			}
			s.take(c, 0, false, f)
			s.write(c, b[:cut])
			if op == opTruncSilent {
				if l.Resume && s.sleepOrGone(c, s.resume, oldest.Token) {
					continue
				}
				return // the reader keeps reading; nothing is ever sent again
			}
			c.c.Close()
			return
		case opClose:
			s.noteExecuted(op)
			s.setTrouble(c, op)
			c.c.Close()
			return
		case opSilence:
			if !l.Resume {
				s.noteExecuted(op)
				s.setTrouble(c, op)
				return
			}
			s.noteExecuted(op + "-resume")
			s.setTrouble(c, op+"-resume")
			s.mu.Lock()
			c.pending[0].consumed = true
			c.pending = append(c.pending[:0:0], c.pending[1:]...)
			s.mu.Unlock()
			if !s.sleepOrGone(c, s.resume, oldest.Token) {
				return
			}
		default:
			panic("raw server: unknown letter " + l.Op)
		}
	}
}
