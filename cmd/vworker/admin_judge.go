package main

// Oracles of C19, written from the property statement:
//
// controller-bound operations (CreateTopic, DeleteTopic, CreatePartitions,
// AlterPartitionReassignments): nil is returned iff some request of the call
// was answered NONE (for every item, nothing missing) by the broker that was
// the controller at that moment; a NOT_CONTROLLER answer is followed by another
// attempt at the controller of that moment as long as fewer than
// max(1, Admin.Retry.Max) attempts were made; any other answer ends the call
// (no further request) and the returned error carries the broker's code.
//
// leader / coordinator-bound operations: every request names only items owned
// by the receiving broker, the requests together cover the input, and an error
// answered by any broker for any item (or a lost connection) is visible in what
// the call returns.

import (
	"errors"
	"fmt"
	"sort"
	"strings"

	"github.com/Shopify/sarama"
)

// admTypedCodes collects the broker codes reachable from err through the types the API documents.
func admTypedCodes(err error) []sarama.KError {
	var out []sarama.KError
	var walk func(e error, depth int)
	walk = func(e error, depth int) {
		if e == nil || depth > 6 {
			return
		}
		switch x := e.(type) {
		case sarama.KError:
			out = append(out, x)
		case *sarama.TopicError:
			if x != nil {
				out = append(out, x.Err)
			}
		case *sarama.TopicPartitionError:
			if x != nil {
				out = append(out, x.Err)
			}
		case sarama.ErrReassignPartitions:
			if x.Errors != nil {
				for _, s := range *x.Errors {
					walk(s, depth+1)
				}
			}
		case sarama.ErrDeleteRecords:
			if x.Errors != nil {
				for _, s := range *x.Errors {
					walk(s, depth+1)
				}
			}
		case sarama.MultiError:
			if x.Errors != nil {
				for _, s := range *x.Errors {
					walk(s, depth+1)
				}
			}
		default:
			var k sarama.KError
			var te *sarama.TopicError
			var tpe *sarama.TopicPartitionError
			switch {
			case errors.As(e, &k):
				out = append(out, k)
			case errors.As(e, &te):
				out = append(out, te.Err)
			case errors.As(e, &tpe):
				out = append(out, tpe.Err)
			default:
				if u := errors.Unwrap(e); u != nil {
					walk(u, depth+1)
				}
			}
		}
	}
	walk(err, 0)
	return out
}

// admCarries: 2 = the code is reachable through the error's types, 1 = only its text is in the message, 0 = neither.
func admCarries(err error, code sarama.KError) int {
	if err == nil {
		return 0
	}
	for _, c := range admTypedCodes(err) {
		if c == code {
			return 2
		}
	}
	if strings.Contains(err.Error(), code.Error()) {
		return 1
	}
	return 0
}

// admHasErr looks for target in err, through the multi-error types of the admin API.
func admHasErr(err, target error) bool {
	if err == nil {
		return false
	}
	if errors.Is(err, target) {
		return true
	}
	var list *[]error
	switch x := err.(type) {
	case sarama.ErrReassignPartitions:
		list = x.Errors
	case sarama.ErrDeleteRecords:
		list = x.Errors
	case sarama.MultiError:
		list = x.Errors
	}
	if list != nil {
		for _, e := range *list {
			if admHasErr(e, target) {
				return true
			}
		}
	}
	return false
}

func admErrString(err error) string {
	if err == nil {
		return "nil"
	}
	s := strings.ReplaceAll(err.Error(), "\n", " ")
	if len(s) > 160 {
		s = s[:160] + "…"
	}
	return fmt.Sprintf("%T(%s)", err, s)
}

type admAnswer struct {
	ack, nc, dropped, omitted bool
	code                      sarama.KError
	top                       bool
}

func admClassify(e *sarama.VSimAdminEvent, list bool) admAnswer {
	a := admAnswer{dropped: e.Dropped, omitted: len(e.Omitted) > 0}
	if e.Top != 0 {
		a.code, a.top = sarama.KError(e.Top), true
	} else {
		items := make([]string, 0, len(e.ItemCodes))
		for it := range e.ItemCodes {
			items = append(items, it)
		}
		sort.Strings(items)
		for _, it := range items {
			if c := e.ItemCodes[it]; c != 0 && a.code == 0 {
				a.code = sarama.KError(c)
			}
		}
	}
	a.nc = a.code == sarama.ErrNotController && !a.dropped
	complete := len(e.ItemCodes) == len(e.Items) || list
	a.ack = e.WasController && a.code == sarama.ErrNoError && !a.omitted && !a.dropped && complete
	return a
}

func admEventString(e *sarama.VSimAdminEvent) string {
	var items []string
	for _, it := range e.Items {
		if c, ok := e.ItemCodes[it]; ok {
			items = append(items, fmt.Sprintf("%s=%s", it, admCodeName(sarama.KError(c))))
		} else {
			items = append(items, it+"=<absent>")
		}
	}
	s := fmt.Sprintf("#%d %s v%d at broker %d (controller at arrival %d, when handled %d)", e.N, e.Kind, e.Version, e.Broker, e.ControllerAtArrival, e.Controller)
	if e.HasTop {
		s += " top=" + admCodeName(sarama.KError(e.Top))
	}
	s += " items[" + strings.Join(items, " ") + "]"
	if len(e.Owner) > 0 {
		s += fmt.Sprintf(" owners=%v", e.Owner)
	}
	if len(e.Applied) > 0 {
		s += fmt.Sprintf(" applied=%v", e.Applied)
	}
	if e.Dropped {
		s += " connection-dropped"
	}
	return s
}

func (r *admRun) knownController(before int64) int32 {
	var c int32
	for _, sn := range r.sim.MetaSnapshots() {
		if sn.Seq < before {
			c = sn.Controller
		}
	}
	return c
}

func (r *admRun) judge(cr *admCallRun, out *admOutcome, assignment [][]int32, concurrent bool) map[string]interface{} {
	call := cr.call
	cs := r.cs
	op := call.Op
	var evs []sarama.VSimAdminEvent
	var gevs []sarama.VSimGroupEvent
	if op == admGroupOffsets {
		for _, g := range r.sim.GroupEvents() {
			if g.Seq > cr.mark && g.Kind == "offset-fetch" && g.Group == cr.group {
				gevs = append(gevs, g)
			}
		}
	} else {
		for _, e := range r.sim.AdminEvents() {
			if e.Seq > cr.mark && cr.owns(e.Kind, e.Items) {
				evs = append(evs, e)
			}
		}
	}
	n := len(evs) + len(gevs)
	r.obs["broker_requests"] += int64(n)
	if n > 1 {
		r.obs["calls_with_several_requests"]++
	}
	var lines []string
	for i := range evs {
		lines = append(lines, admEventString(&evs[i]))
	}
	for i, g := range gevs {
		co := int32(-1)
		if i < len(cr.coordAtArrival) {
			co = cr.coordAtArrival[i]
		}
		lines = append(lines, fmt.Sprintf("offset-fetch v? at broker %d (coordinator at arrival %d) code=%d action=%d stored=%v", g.Broker, co, g.Code, g.Action, g.Stored))
	}
	retClass := "nil"
	if out.err != nil {
		retClass = "err"
		r.obs["errors_returned"]++
	} else {
		r.obs["nil_returned"]++
	}
	below := !cs.Version.IsAtLeast(admMinVersion[op])
	if below {
		r.obs["below_min_version"]++
	}
	reqV := int16(-1)
	if len(evs) > 0 {
		reqV = evs[0].Version
	}
	trace := map[string]interface{}{"call": cr.idx, "op": op, "pre": call.preString(), "final": call.finalString(), "returned": admErrString(out.err), "requests": lines}
	nv0 := len(r.vs.list)
	add := func(kind, attr, msg string) {
		r.vs.add(kind, attr, fmt.Sprintf("%s call %d (pre=%q final=%s, Retry.Max=%d, %s, %d brokers, shared admin=%v): %s; returned %s; requests seen: %s",
			cs.Name, cr.idx, call.preString(), call.finalString(), cs.RetryMax, cs.Version, cs.Brokers, cs.Shared, msg, admErrString(out.err), strings.Join(lines, " || ")))
	}
	finish := func(verdict string) map[string]interface{} {
		if len(r.vs.list) > nv0 {
			verdict = "VIOL " + r.vs.list[len(r.vs.list)-1].Kind + "|" + r.vs.list[len(r.vs.list)-1].Attr
		}
		trace["verdict"] = verdict
		return trace
	}

	if out.stuck {
		add("call-stuck", op, fmt.Sprintf("the call did not return and nothing moved any more; parked: %v", out.parked))
		return finish("stuck")
	}
	if out.slow {
		r.incon = fmt.Sprintf("call %d (%s) still running after the hard bound while things moved", cr.idx, op)
		return finish("inconclusive")
	}
	if cr.readdressed > 0 && out.err != nil && n == 0 {
		add("wrong-broker", op+":coordinator-readdressed", fmt.Sprintf("broker %d, coordinator of the call's group, had moved to a new address (announced by FindCoordinator, healthy there); the call returned an error and no request of it reached any broker", cr.readdressed))
		return finish("violated")
	}
	if out.err != nil {
		if t := out.err.Error(); strings.Contains(t, "i/o timeout") || strings.Contains(t, "connection refused") {
			r.incon = fmt.Sprintf("call %d (%s): transport error without injected silence: %s", cr.idx, op, t)
			return finish("inconclusive")
		}
	}

	if concurrent && (admHasErr(out.err, sarama.ErrNotConnected) || admHasErr(out.err, sarama.ErrControllerNotAvailable)) {
		// Artefacts of several goroutines sharing one ClusterAdmin while the controller moves: (1) Broker.Open flips
		// `opened` before it takes b.lock, so a second caller's send on the same fresh Broker can find conn == nil
		// (ErrNotConnected, no request sent); (2) one caller's deregisterController removes the broker another
		// caller's refresh has just registered as the new controller (ErrControllerNotAvailable). The statement
		// does not quantify over concurrent callers: counted, not judged.
		if admHasErr(out.err, sarama.ErrNotConnected) {
			r.obs["concurrent_callers_broker_not_connected"]++
		} else {
			r.obs["concurrent_callers_controller_not_available"]++
		}
		return finish("not-judged(concurrent callers)")
	}
	nontrivial := false
	if isAdmControllerOp(op) {
		nontrivial = r.judgeController(cr, out, evs, assignment, below, concurrent, add)
	} else if op == admGroupOffsets {
		nontrivial = r.judgeGroupOffsets(cr, out, gevs, add)
	} else {
		nontrivial = r.judgeOwnerBound(cr, out, evs, below, add)
	}
	if nontrivial {
		r.paths[fmt.Sprintf("%s|R%d|pre=%s|fin=%s|B%d|req-v%d|n=%d|%s", op, cs.RetryMax, call.preString(), call.finalString(), cs.Brokers, reqV, n, retClass)] = true
	}
	return finish("held")
}

// ---------------------------------------------------------------- controller-bound

func (r *admRun) judgeController(cr *admCallRun, out *admOutcome, evs []sarama.VSimAdminEvent, assignment [][]int32, below, concurrent bool, add func(kind, attr, msg string)) bool {
	call := cr.call
	cs := r.cs
	op := call.Op
	list := op == admListReassign
	ret := out.err
	allowed := cs.RetryMax
	if allowed < 1 {
		allowed = 1
	}
	n := len(evs)
	cl := make([]admAnswer, n)
	ackAt := -1
	nontrivial := false
	for i := range evs {
		cl[i] = admClassify(&evs[i], list)
		if cl[i].ack && ackAt < 0 {
			ackAt = i
		}
		if cl[i].ack {
			r.obs["acks_by_controller"]++
		}
		if cl[i].nc {
			r.obs["not_controller_answers"]++
			nontrivial = true
		}
		if evs[i].Controller != evs[i].ControllerAtArrival {
			r.obs["controller_moves"]++
			nontrivial = true
		}
		if cl[i].dropped {
			r.obs["connections_dropped"]++
			nontrivial = true
		}
		if cl[i].omitted {
			r.obs["answers_with_item_missing"]++
			nontrivial = true
		}
		if cl[i].code != sarama.ErrNoError && !cl[i].nc {
			r.obs["error_codes_answered"]++
			nontrivial = true
		}
	}
	if n > 1 {
		r.obs["retries_observed"] += int64(n - 1)
	}

	// routing (not judged for concurrent callers: another call's controller move may fall between this call's
	// look-up of the controller and the arrival of its request)
	for i := range evs {
		// also not for a lone call at the end of a case with concurrent batches: two refreshes of the batch
		// before may have been applied in the other order than they were served, so "the latest metadata
		// served" is not what the client has
		if concurrent || r.cs.Conc > 1 {
			break
		}
		e := &evs[i]
		if i == 0 {
			if known := r.knownController(e.Seq); known != 0 && e.Broker != known {
				add("wrong-broker", op+":first-attempt", fmt.Sprintf("the latest metadata served before the request names broker %d as controller, the request went to broker %d", known, e.Broker))
			}
		} else if cl[i-1].nc && e.Broker != e.ControllerAtArrival {
			add("wrong-broker", op+":after-NOT_CONTROLLER", fmt.Sprintf("attempt %d after a NOT_CONTROLLER answer went to broker %d while broker %d was the controller", i+1, e.Broker, e.ControllerAtArrival))
		}
	}
	// retry discipline: only a NOT_CONTROLLER answer may be followed by another request
	if !list {
		for i := 0; i < n-1; i++ {
			switch {
			case cl[i].nc:
			case cl[i].ack:
				add("retried-non-retriable", op+":after-success", fmt.Sprintf("request %d was acknowledged by the controller and another request followed", i+1))
			default:
				what := admCodeName(cl[i].code)
				if cl[i].dropped {
					what = "a dropped connection"
				} else if cl[i].omitted {
					what = "an incomplete answer"
				}
				add("retried-non-retriable", op, fmt.Sprintf("request %d was answered %s and another request followed", i+1, what))
			}
		}
	}

	// outcome
	if ret == nil {
		if ackAt < 0 {
			detail := ""
			switch {
			case n == 0:
				detail = "no-request"
				if cs.RetryMax == 0 && !list {
					detail = "no-request(retry.max=0)"
				}
			case cl[n-1].dropped:
				detail = "lost-connection-ignored"
			case cl[n-1].nc:
				detail = "NOT_CONTROLLER-ignored"
			case cl[n-1].code != sarama.ErrNoError && cl[n-1].top:
				detail = "top-level-error-ignored"
			case cl[n-1].code != sarama.ErrNoError:
				detail = "item-error-ignored"
			case cl[n-1].omitted:
				detail = "incomplete-response"
			default:
				detail = "not-acknowledged-by-controller"
			}
			add("false-success", op+":"+detail, "nil returned although no request of the call was answered NONE (complete) by the then-current controller")
		}
	} else {
		switch {
		case ackAt >= 0:
			add("false-error", op, fmt.Sprintf("request %d was acknowledged (NONE for every item) by the then-current controller, yet an error is returned", ackAt+1))
		case n == 0:
			if !below {
				add("false-error", op+":no-request", "an error is returned although no request was sent")
			}
		default:
			last := cl[n-1]
			switch {
			case last.dropped, last.omitted && last.code == sarama.ErrNoError:
			case last.nc:
				how := admCarries(ret, sarama.ErrNotController)
				if n < allowed && !list {
					attr := op
					if how == 1 {
						attr = op + ":NOT_CONTROLLER-wrapped"
					}
					add("not-retried", attr, fmt.Sprintf("the last answer was NOT_CONTROLLER after %d of %d allowed attempts and no further attempt was made", n, allowed))
				} else if how == 0 {
					add("wrong-error", op, "the returned error does not carry NOT_CONTROLLER, the last answer of the broker")
				} else if how == 1 {
					r.obs["code_only_in_error_text"]++
				}
			default:
				switch admCarries(ret, last.code) {
				case 0:
					add("wrong-error", op, fmt.Sprintf("the broker answered %s, the returned error does not carry it", admCodeName(last.code)))
				case 1:
					r.obs["code_only_in_error_text"]++
				}
			}
		}
	}

	// the cluster state changed iff success was reported
	if !call.Organic && !list && ackAt >= 0 && ret == nil {
		changed := false
		exists, parts := r.sim.TopicPartitions(cr.topic)
		switch op {
		case admCreateTopic:
			changed = exists
		case admDeleteTopic:
			changed = !exists
		case admCreatePartitions:
			changed = parts == 4
		case admAlter:
			changed = fmt.Sprint(r.sim.Replicas(cr.topic, 0)) == fmt.Sprint(assignment[0]) && fmt.Sprint(r.sim.Replicas(cr.topic, 1)) == fmt.Sprint(assignment[1])
		}
		if call.ValidateOnly {
			if changed {
				r.obs["validate_only_changed_state"]++
			}
		} else if !changed {
			add("false-success", op+":state-not-changed", "nil returned and a request acknowledged, but the cluster state does not show the requested change (request content differs from the call's arguments)")
		} else {
			r.obs["state_changes_confirmed"]++
		}
	}
	if list && ret == nil && ackAt >= 0 {
		st := out.list[cr.topic]
		if len(st) != 2 {
			add("false-success", op+":result-incomplete", fmt.Sprintf("the controller listed 2 partitions being reassigned, the call returned %d", len(st)))
		}
	}
	return nontrivial
}

// ---------------------------------------------------------------- leader / coordinator-bound (DeleteRecords, DescribeConsumerGroups, DeleteConsumerGroup, DescribeLogDirs)

func (r *admRun) judgeOwnerBound(cr *admCallRun, out *admOutcome, evs []sarama.VSimAdminEvent, below bool, add func(kind, attr, msg string)) bool {
	call := cr.call
	cs := r.cs
	op := call.Op
	ret := out.err
	B := cs.Brokers
	n := len(evs)

	// the input as the brokers see it, with the owner each item had when the call started
	want := map[string]int32{}
	wantArg := map[string]int64{}
	switch op {
	case admDeleteRecords:
		for _, p := range call.Parts {
			k := fmt.Sprintf("%s/%d", cr.topic, p)
			want[k] = admOwnerOfPartition(p, B)
			wantArg[k] = 3 + int64(p)
			if call.Organic && fmt.Sprint(p) == call.Fault.Item {
				wantArg[k] = 999
			}
		}
	case admDescribeGroups:
		for k, name := range cr.names {
			want[name] = admOwnerOfGroup(k, B)
		}
	case admDeleteGroup:
		want[cr.group] = admOwnerOfGroup(cr.idx, B)
	case admLogDirs:
		for _, b := range call.BrokerIDs {
			want[fmt.Sprint(b)] = b
		}
	}
	owners := map[int32]bool{}
	for _, o := range want {
		owners[o] = true
	}
	nontrivial := len(owners) > 1
	if len(owners) > 1 {
		r.obs["calls_spanning_several_brokers"]++
	}

	sent := map[string]int{}
	hit := map[int32]bool{}
	var misdirected, alien []string
	errSeen, transport, omitted := false, false, false
	for i := range evs {
		e := &evs[i]
		hit[e.Broker] = true
		if e.Dropped {
			errSeen, transport = true, true
			r.obs["connections_dropped"]++
		}
		if len(e.Omitted) > 0 {
			omitted = true
			r.obs["answers_with_item_missing"]++
		}
		for _, it := range e.Items {
			sent[it]++
			if _, ok := want[it]; !ok {
				alien = append(alien, fmt.Sprintf("%s@b%d", it, e.Broker))
			}
			if ow, ok := e.Owner[it]; ok && ow != e.Broker {
				misdirected = append(misdirected, fmt.Sprintf("%s(owner %d)@b%d", it, ow, e.Broker))
			}
			if a, ok := wantArg[it]; ok && e.Args[it] != a {
				add("not-split", op+":wrong-offset-for-partition", fmt.Sprintf("%s was requested with offset %d, the call asked for %d", it, e.Args[it], a))
			}
		}
		for _, c := range e.ItemCodes {
			if c != 0 {
				errSeen = true
				r.obs["error_codes_answered"]++
			}
		}
		if e.Top != 0 {
			errSeen = true
		}
	}
	if len(hit) > 1 {
		r.obs["calls_split_over_brokers"]++
		r.obs[fmt.Sprintf("calls_split_over_%d_brokers", len(hit))]++
	}
	if errSeen || omitted {
		nontrivial = true
	}
	if len(alien) > 0 {
		add("wrong-broker", op+":item-not-in-input", fmt.Sprintf("requests name items the call did not ask for: %v", alien))
	}
	if len(misdirected) > 0 {
		if len(hit) < len(owners) {
			add("not-split", op, fmt.Sprintf("the input is owned by %d brokers, requests went to %d; misdirected: %v", len(owners), len(hit), misdirected))
		} else {
			add("wrong-broker", op, fmt.Sprintf("items sent to a broker that is not their leader/coordinator: %v", misdirected))
		}
	}
	if ret == nil {
		var missing []string
		for it := range want {
			if sent[it] == 0 {
				missing = append(missing, it)
			}
		}
		sort.Strings(missing)
		if len(missing) > 0 && !(n == 0 && below) {
			if n == 0 {
				add("false-success", op+":no-request", "nil returned although no request was sent")
			} else {
				add("not-split", op+":item-not-sent", fmt.Sprintf("nil returned but no request named %v", missing))
			}
		}
	}

	switch op {
	case admDeleteRecords, admDeleteGroup:
		switch {
		case errSeen && ret == nil:
			where := "item-code"
			if transport {
				where = "lost-connection"
			}
			add("item-error-swallowed", op+":"+where, "a broker answered an error (or the connection was lost) and nil is returned")
		case !errSeen && !omitted && ret != nil && n > 0 && len(misdirected) == 0:
			add("false-error", op, "every broker answered NONE for every item, yet an error is returned")
		case n == 0 && ret != nil && !below:
			add("false-error", op+":no-request", "an error is returned although no request was sent")
		}
		if op == admDeleteGroup && ret == nil && n > 0 && !errSeen && !omitted {
			if r.sim.GroupExists(cr.group) {
				add("false-success", op+":state-not-changed", "nil returned but the group still exists")
			} else {
				r.obs["state_changes_confirmed"]++
			}
		}
		if op == admDeleteRecords && ret == nil && !errSeen && !omitted {
			ok := true
			for _, p := range call.Parts {
				if lo, _ := r.sim.LogStart(cr.topic, p); lo != 3+int64(p) {
					ok = false
				}
			}
			if !ok && len(r.vs.list) == 0 {
				add("false-success", op+":state-not-changed", "nil returned but the low watermarks are not where the call asked")
			} else if ok {
				r.obs["state_changes_confirmed"]++
			}
		}
	case admDescribeGroups:
		byID := map[string]*sarama.GroupDescription{}
		for _, g := range out.groups {
			if g != nil {
				byID[g.GroupId] = g
			}
		}
		if transport && ret == nil {
			add("item-error-swallowed", op+":lost-connection", "the connection to a coordinator was lost and nil is returned")
		}
		if ret != nil && !errSeen && !omitted && n > 0 && len(misdirected) == 0 {
			add("false-error", op, "every coordinator answered every group without error, yet an error is returned")
		}
		if ret == nil {
			for i := range evs {
				e := &evs[i]
				for it, c := range e.ItemCodes {
					g := byID[it]
					switch {
					case g == nil && c != 0:
						add("item-error-swallowed", op+":item-code", fmt.Sprintf("group %s was answered %s; the result has no description of it and no error is returned", it, admCodeName(sarama.KError(c))))
					case g == nil:
						add("item-error-swallowed", op+":description-lost", fmt.Sprintf("group %s was described by its coordinator; the result has no description of it", it))
					case int16(g.Err) != c && c != 0:
						add("item-error-swallowed", op+":item-code", fmt.Sprintf("group %s was answered %s; the result says %s", it, admCodeName(sarama.KError(c)), admCodeName(g.Err)))
					case int16(g.Err) != c:
						add("false-error", op+":item-code", fmt.Sprintf("group %s was answered NONE; the result says %s", it, admCodeName(g.Err)))
					}
				}
			}
		}
	case admLogDirs:
		if transport && ret == nil {
			add("item-error-swallowed", op+":lost-connection", "the connection to a broker was lost and nil is returned")
		}
		if ret != nil && !transport && n > 0 {
			add("false-error", op, "every broker answered, yet an error is returned")
		}
		if ret == nil {
			for i := range evs {
				e := &evs[i]
				it := fmt.Sprint(e.Broker)
				c, answered := e.ItemCodes[it]
				if !answered {
					continue
				}
				dirs, ok := out.dirs[e.Broker]
				switch {
				case !ok || len(dirs) == 0:
					add("item-error-swallowed", op+":answer-lost", fmt.Sprintf("broker %d answered %s; the result has nothing for it", e.Broker, admCodeName(sarama.KError(c))))
				case !strings.Contains(dirs[0].Path, fmt.Sprintf("broker-%d/", e.Broker)):
					add("wrong-broker", op+":result-attribution", fmt.Sprintf("the result lists %s under broker %d", dirs[0].Path, e.Broker))
				case int16(dirs[0].ErrorCode) != c && c != 0:
					add("item-error-swallowed", op+":item-code", fmt.Sprintf("broker %d answered %s; the result says %s", e.Broker, admCodeName(sarama.KError(c)), admCodeName(dirs[0].ErrorCode)))
				case int16(dirs[0].ErrorCode) != c:
					add("false-error", op+":item-code", fmt.Sprintf("broker %d answered NONE; the result says %s", e.Broker, admCodeName(dirs[0].ErrorCode)))
				}
			}
		}
	}
	return nontrivial
}

// ---------------------------------------------------------------- ListConsumerGroupOffsets

func (r *admRun) judgeGroupOffsets(cr *admCallRun, out *admOutcome, gevs []sarama.VSimGroupEvent, add func(kind, attr, msg string)) bool {
	call := cr.call
	op := call.Op
	ret := out.err
	n := len(gevs)
	nontrivial := false
	if n == 0 {
		if ret == nil {
			add("false-success", op+":no-request", "nil returned although no OffsetFetch request was sent")
		} else {
			add("false-error", op+":no-request", "an error is returned although no request was sent")
		}
		return false
	}
	for i, g := range gevs {
		if i < len(cr.coordAtArrival) && g.Broker != cr.coordAtArrival[i] {
			add("wrong-broker", op, fmt.Sprintf("the request went to broker %d, the group's coordinator was broker %d", g.Broker, cr.coordAtArrival[i]))
		}
	}
	g := gevs[n-1]
	switch {
	case g.Code == -100: // connection dropped
		nontrivial = true
		r.obs["connections_dropped"]++
		if ret == nil {
			add("item-error-swallowed", op+":lost-connection", "the connection to the coordinator was lost and nil is returned")
		}
	case g.Code == -101: // blocks left out: not demanded
		nontrivial = true
		r.obs["answers_with_item_missing"]++
	case g.Code != 0:
		nontrivial = true
		r.obs["error_codes_answered"]++
		if ret == nil {
			seen := out.offsets != nil && int16(out.offsets.Err) == g.Code
			if out.offsets != nil {
				for _, ps := range out.offsets.Blocks {
					for _, b := range ps {
						if b != nil && int16(b.Err) == g.Code {
							seen = true
						}
					}
				}
			}
			if !seen {
				add("item-error-swallowed", op+":item-code", fmt.Sprintf("the coordinator answered %s; neither an error nor a result carrying it is returned", admCodeName(sarama.KError(g.Code))))
			}
		}
	default:
		if ret != nil {
			add("false-error", op, "the coordinator answered without error, yet an error is returned")
			break
		}
		if out.offsets == nil {
			add("item-error-swallowed", op+":answer-lost", "nil error and nil result")
			break
		}
		for key, st := range g.Stored {
			b := out.offsets.GetBlock(st.Topic, st.Partition)
			switch {
			case b == nil:
				add("item-error-swallowed", op+":answer-lost", fmt.Sprintf("the coordinator answered %s = %d; the result has no block for it", key, st.Offset))
			case b.Err != sarama.ErrNoError:
				add("false-error", op+":item-code", fmt.Sprintf("%s answered NONE; the result says %s", key, admCodeName(b.Err)))
			case b.Offset != st.Offset:
				add("wrong-error", op+":offset", fmt.Sprintf("the coordinator answered %s = %d; the result says %d", key, st.Offset, b.Offset))
			}
		}
		if call.TP == nil && len(g.Stored) > 0 {
			r.obs["all_partitions_requests"]++
		}
	}
	return nontrivial
}
