package main

// The async mock with one of the outcome channels switched off (Config.Producer.Return.Errors /
// Return.Successes = false): the i-th message still meets the i-th expectation, offsets count the
// successes, and a failing checker is a deviation that is reported whatever the channels are.

import (
	"errors"
	"fmt"
	"math/rand"
	"sync"

	"github.com/Shopify/sarama"
	"github.com/Shopify/sarama/mocks"
)

type mkQuietSpec struct {
	retSucc, retErr bool
	kinds           []int // 0 succeed, 1 scripted failure, 2 checker rejects (on a success expectation), 3 checker accepts
	succ            []*sarama.ProducerMessage
	errs            []*sarama.ProducerError
	msgs            []*sarama.ProducerMessage
}

func mkGenQuiet(rng *rand.Rand) *mkQuietSpec {
	s := &mkQuietSpec{retSucc: rng.Intn(2) == 0}
	s.retErr = !s.retSucc || rng.Intn(3) == 0
	if s.retSucc && s.retErr {
		s.retErr = false
	}
	n := 3 + rng.Intn(8)
	for i := 0; i < n; i++ {
		s.kinds = append(s.kinds, rng.Intn(4))
	}
	s.kinds[rng.Intn(n)] = 2 // at least one failing checker
	return s
}

func (s *mkQuietSpec) mockKind() string { return "async" }
func (s *mkQuietSpec) id() string {
	return fmt.Sprintf("async-quiet-succ%v-err%v-n%d", s.retSucc, s.retErr, len(s.kinds))
}
func (s *mkQuietSpec) shape() (string, bool) {
	return fmt.Sprintf("async-quiet|successes=%v|errors=%v|n=%d", s.retSucc, s.retErr, len(s.kinds)), true
}

var errQuietScripted = errors.New("scripted failure")
var errQuietChecker = errors.New("checker says no")

func (s *mkQuietSpec) run(r *mkRun) {
	cfg := mocks.NewTestConfig()
	cfg.Producer.Return.Successes = s.retSucc
	cfg.Producer.Return.Errors = s.retErr
	cfg.ChannelBufferSize = 4
	mp := mocks.NewAsyncProducer(r, cfg)
	for _, k := range s.kinds {
		switch k {
		case 0:
			mp.ExpectInputAndSucceed()
		case 1:
			mp.ExpectInputAndFail(errQuietScripted)
		case 2:
			mp.ExpectInputWithCheckerFunctionAndSucceed(func(val []byte) error { return errQuietChecker })
		case 3:
			mp.ExpectInputWithCheckerFunctionAndSucceed(func(val []byte) error { return nil })
		}
	}
	var wg sync.WaitGroup
	wg.Add(2)
	go func() {
		defer wg.Done()
		for m := range mp.Successes() {
			s.succ = append(s.succ, m)
			r.tick()
		}
	}()
	go func() {
		defer wg.Done()
		for e := range mp.Errors() {
			s.errs = append(s.errs, e)
			r.tick()
		}
	}()
	for i := range s.kinds {
		m := &sarama.ProducerMessage{Topic: "t", Value: sarama.StringEncoder(fmt.Sprintf("v%d", i)), Metadata: i}
		s.msgs = append(s.msgs, m)
		mp.Input() <- m
		r.tick()
	}
	mp.Close()
	wg.Wait()
}

func (s *mkQuietSpec) judge(r *mkRun) {
	wantReports := map[string]int{}
	var wantSucc, wantErr []int
	wantOff := map[int]int64{}
	off := int64(0)
	for i, k := range s.kinds {
		switch k {
		case 0, 3:
			off++
			if s.retSucc {
				wantSucc = append(wantSucc, i)
				wantOff[i] = off
			}
		case 1:
			if s.retErr {
				wantErr = append(wantErr, i)
			}
		case 2:
			wantReports["failing-checker"]++
			wantErr = append(wantErr, i) // the mock hands a failed check to Errors() whatever Return.Errors says
		}
	}
	var gotSucc, gotErr []int
	for _, m := range s.succ {
		i, _ := m.Metadata.(int)
		gotSucc = append(gotSucc, i)
		if w, ok := wantOff[i]; ok && m.Offset != w {
			r.viol("offsets", "async-quiet", fmt.Sprintf("message %d succeeded with offset %d, want %d (successes so far)", i, m.Offset, w))
		}
	}
	for _, e := range s.errs {
		i, _ := e.Msg.Metadata.(int)
		gotErr = append(gotErr, i)
		want := errQuietScripted
		if i < len(s.kinds) && s.kinds[i] == 2 {
			want = errQuietChecker
		}
		if e.Err != want {
			r.viol("wrong-outcome", "async-quiet:error-value", fmt.Sprintf("message %d failed with %v, want %v", i, e.Err, want))
		}
	}
	if fmt.Sprint(gotSucc) != fmt.Sprint(wantSucc) {
		r.viol("wrong-outcome", fmt.Sprintf("async-quiet:successes,ret-succ=%v,ret-err=%v", s.retSucc, s.retErr), fmt.Sprintf("script %v: successes for messages %v, want %v", s.kinds, gotSucc, wantSucc))
	}
	if fmt.Sprint(gotErr) != fmt.Sprint(wantErr) {
		r.viol("wrong-outcome", fmt.Sprintf("async-quiet:errors,ret-succ=%v,ret-err=%v", s.retSucc, s.retErr), fmt.Sprintf("script %v: errors for messages %v, want %v", s.kinds, gotErr, wantErr))
	}
	r.judgeReports("async", wantReports)
	r.count("quiet_async_cases", 1)
}

func (s *mkQuietSpec) describe(r *mkRun) map[string]interface{} {
	return map[string]interface{}{"case": s.id(), "script": s.kinds, "return_successes": s.retSucc, "return_errors": s.retErr, "reporter": r.reportSample()}
}
