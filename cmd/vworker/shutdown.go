package main

// Engine "shutdown": C12. Each scenario (a component in some state of its
// life) is re-run once per crash point k: at the k-th observable event (hook
// event or request arriving at the simulated cluster) the closing call is
// started from a fresh goroutine while the event's goroutine is held only until
// the closing call has begun. Oracle: the closing calls return (quiescence
// rule), blocked Consume calls return, output channels are closed after their
// last event, nothing panics, a second Close is harmless.

import (
	"context"
	"fmt"
	"math/rand"
	"runtime"
	"sort"
	"strings"
	"sync"
	"sync/atomic"
	"time"

	"github.com/Shopify/sarama"

	"verifharness/internal/proto"
)

func init() { engines["shutdown"] = &shutdownEngine{} }

type shutdownEngine struct{}

type sdScenario struct {
	Name      string
	Component string // producer | pconsumer | consumer | group | om | client
	Variant   string
	Faults    []int
	KMax      int
}

var sdScenarios = []sdScenario{
	{Name: "producer-idle", Component: "producer", Variant: "idle", KMax: 24},
	{Name: "producer-mid-request", Component: "producer", Variant: "busy", KMax: 120},
	{Name: "producer-mid-retry", Component: "producer", Variant: "retry", Faults: []int{fOk, fRetryNoAppend, fOk, fRetryAfterAppend, fDropAfter}, KMax: 160},
	{Name: "producer-backoff", Component: "producer", Variant: "backoff", Faults: []int{fRetryNoAppend, fRetryNoAppend}, KMax: 100},
	{Name: "producer-unreachable", Component: "producer", Variant: "unreachable", KMax: 80},
	{Name: "producer-sync", Component: "producer", Variant: "sync", Faults: []int{fOk, fRetryNoAppend}, KMax: 100},
	{Name: "producer-no-errors-channel", Component: "producer", Variant: "no-errors", Faults: []int{fOk, fFatal, fOk, fFatal}, KMax: 100},
	{Name: "producer-no-successes-channel", Component: "producer", Variant: "no-successes", Faults: []int{fOk, fRetryNoAppend, fFatal}, KMax: 100},
	{Name: "pconsumer-idle", Component: "pconsumer", Variant: "idle", KMax: 30},
	{Name: "pconsumer-mid-fetch", Component: "pconsumer", Variant: "busy", KMax: 120},
	{Name: "pconsumer-slow-reader", Component: "pconsumer", Variant: "slow", KMax: 120},
	{Name: "pconsumer-reader-stops", Component: "pconsumer", Variant: "reader-stops", KMax: 120},
	{Name: "pconsumer-redispatch", Component: "pconsumer", Variant: "redispatch", Faults: []int{ffOk, ffRedispatch, ffOk, ffDrop, ffOtherCode}, KMax: 140},
	{Name: "pconsumer-fetch-dies", Component: "pconsumer", Variant: "fetch-dies", KMax: 100},
	{Name: "pconsumer-out-of-range", Component: "pconsumer", Variant: "oor", Faults: []int{ffOk, ffOutOfRange}, KMax: 60},
	{Name: "consumer-3-partitions", Component: "consumer", Variant: "three", Faults: []int{ffOk, ffOk, ffRedispatch}, KMax: 160},
	{Name: "consumer-redispatch-fails", Component: "consumer", Variant: "no-leader", Faults: []int{ffOk, ffNoLeader}, KMax: 200},
	{Name: "group-in-session", Component: "group", Variant: "session", KMax: 140},
	{Name: "group-mid-join", Component: "group", Variant: "slow-join", KMax: 40},
	{Name: "group-mid-sync", Component: "group", Variant: "slow-sync", KMax: 40},
	{Name: "group-rebalance-backoff", Component: "group", Variant: "rebalance", KMax: 80},
	{Name: "group-coordinator-unreachable", Component: "group", Variant: "unreachable", KMax: 60},
	{Name: "group-two-members", Component: "group", Variant: "two", KMax: 160},
	{Name: "group-idle-member", Component: "group", Variant: "idle-member", KMax: 120},
	{Name: "group-offset-fetch-fails", Component: "group", Variant: "offset-fetch-fails", KMax: 80},
	{Name: "group-coordinator-lost", Component: "group", Variant: "coordinator-lost", KMax: 60},
	{Name: "producer-close-takes-over", Component: "producer", Variant: "takes-over", KMax: 80},
	{Name: "group-heartbeats-die", Component: "group", Variant: "heartbeats-die", KMax: 200},
	{Name: "group-leave-fails", Component: "group", Variant: "leave-fails", KMax: 60},
	{Name: "om-mid-commit", Component: "om", Variant: "slow-commit", KMax: 80},
	{Name: "om-errors", Component: "om", Variant: "errors", KMax: 80},
	{Name: "om-manual-commit", Component: "om", Variant: "manual-commit", KMax: 80},
	{Name: "client-refresher", Component: "client", Variant: "refresher", KMax: 60},
	{Name: "client-shared", Component: "client", Variant: "shared", KMax: 120},
	{Name: "client-users-racing", Component: "client", Variant: "racing-users", KMax: 120},
}

type sdCase struct {
	sc sdScenario
	k  int
}

func sdCases(tier string) []sdCase {
	step := 4
	if tier == "thorough" {
		step = 1
	}
	var out []sdCase
	for _, sc := range sdScenarios {
		for k := 0; k <= sc.KMax; k += step {
			out = append(out, sdCase{sc, k})
		}
		out = append(out, sdCase{sc, 1 << 30}) // close after the workload ended
	}
	return out
}

func (e *shutdownEngine) Count(prop, tier string, seed int64) int { return len(sdCases(tier)) }

// sdRun is the shared state of one crash-point run.
type sdRun struct {
	sc         sdScenario
	k          int
	counter    int64
	trigger    int32 // 0 not yet, 1 triggered
	begun      chan struct{}
	atPoint    string
	closer     func()
	closeWG    sync.WaitGroup
	mu         sync.Mutex
	viols      violSet
	panics     []string
	obs        map[string]int64
	sink       *hookSink
	sim        *sarama.VSim
	notes      []string
	closeDone  chan struct{}
	livelocked bool
	app        int64
}

var sdPanicMu sync.Mutex
var sdPanicSink *sdRun

var sdPanicOnce sync.Once

func sdInstallPanicHandler() {
	sdPanicOnce.Do(sdInstallPanicHandlerOnce)
}

func sdInstallPanicHandlerOnce() {
	sarama.PanicHandler = func(v interface{}) {
		buf := make([]byte, 16<<10)
		n := runtime.Stack(buf, false)
		sdPanicMu.Lock()
		r := sdPanicSink
		sdPanicMu.Unlock()
		if r == nil {
			return
		}
		fn := "unknown"
		for _, l := range strings.Split(string(buf[:n]), "\n") {
			if strings.HasPrefix(l, "github.com/Shopify/sarama.") && !strings.Contains(l, "withRecover") && !strings.Contains(l, "Verif") && !strings.Contains(l, "verifHook") {
				fn = strings.TrimPrefix(l, "github.com/Shopify/sarama.")
				if i := strings.LastIndex(fn, "("); i > 0 {
					fn = fn[:i]
				}
				break
			}
		}
		r.mu.Lock()
		r.panics = append(r.panics, fmt.Sprintf("%s|%s|%v", panicClass(fmt.Sprint(v)), fn, v))
		r.mu.Unlock()
	}
}

// event is called for every observable event; at the k-th it starts the closer.
func (r *sdRun) event(point string) {
	r.mu.Lock()
	armed := r.closer != nil
	r.mu.Unlock()
	if !armed {
		return // the component is still being constructed
	}
	n := atomic.AddInt64(&r.counter, 1)
	// the decision and the Add are one step under r.mu, so that finish() cannot start waiting in between
	fire := false
	if int(n) == r.k+1 {
		r.mu.Lock()
		if r.trigger == 0 {
			r.trigger, r.atPoint, fire = 1, point, true
			r.closeWG.Add(1)
		}
		r.mu.Unlock()
	}
	if fire {
		go func() {
			defer r.closeWG.Done()
			r.closer()
		}()
		// hold this goroutine only until the closing call has begun
		select {
		case <-r.begun:
		case <-time.After(2 * time.Second):
		}
	}
}

func (r *sdRun) setCloser(f func()) {
	r.mu.Lock()
	r.closer = f
	r.mu.Unlock()
}

func (r *sdRun) closeBegun() {
	select {
	case <-r.begun:
	default:
		close(r.begun)
	}
}

// finish triggers the closer if no crash point was reached, and waits for it by quiescence.
func (r *sdRun) finish() (ok, stuck bool) {
	r.mu.Lock()
	fire := r.trigger == 0
	if fire {
		r.trigger, r.atPoint = 1, "end"
		r.closeWG.Add(1)
	}
	r.mu.Unlock()
	if fire {
		go func() {
			defer r.closeWG.Done()
			r.closer()
		}()
	}
	done := make(chan struct{})
	go func() { r.closeWG.Wait(); close(done) }()
	// bounded progress in logical steps: the closing call may not outlast 4000 further observable events
	startEvents := r.sink.total()
	livelock := make(chan struct{})
	go func() {
		for {
			select {
			case <-done:
				return
			case <-time.After(20 * time.Millisecond):
			}
			if r.sc.Variant == "racing-users" {
				continue // the events come from goroutines that do not depend on the closing call: no bound in steps
			}
			if r.sink.total()-startEvents > 4000 {
				close(livelock)
				return
			}
		}
	}()
	both := make(chan struct{})
	go func() {
		select {
		case <-done:
		case <-livelock:
		}
		close(both)
	}()
	ok, stuck = waitQuiescent(both, r.sink, 10*time.Second, 60*time.Second)
	select {
	case <-done:
		return true, false
	default:
	}
	select {
	case <-livelock:
		r.livelocked = true
		return false, true
	default:
	}
	return false, stuck
}

func (r *sdRun) add(kind, attr, msg string) {
	r.mu.Lock()
	r.viols.add(kind, attr, msg)
	r.mu.Unlock()
}

// chanClosed drains what is still buffered and reports whether the channel is
// closed behind it (extra = events were still buffered).
func chanClosed(ch interface{}) (closed bool, extra bool) {
	recv := func() (ok, timedOut bool) {
		to := time.After(100 * time.Millisecond)
		switch c := ch.(type) {
		case <-chan *sarama.ProducerMessage:
			select {
			case _, ok = <-c:
			case <-to:
				timedOut = true
			}
		case <-chan *sarama.ProducerError:
			select {
			case _, ok = <-c:
			case <-to:
				timedOut = true
			}
		case <-chan *sarama.ConsumerMessage:
			select {
			case _, ok = <-c:
			case <-to:
				timedOut = true
			}
		case <-chan *sarama.ConsumerError:
			select {
			case _, ok = <-c:
			case <-to:
				timedOut = true
			}
		case <-chan error:
			select {
			case _, ok = <-c:
			case <-to:
				timedOut = true
			}
		default:
			timedOut = true
		}
		return
	}
	for i := 0; i < 100000; i++ {
		ok, timedOut := recv()
		if timedOut {
			return false, extra
		}
		if !ok {
			return true, extra
		}
		extra = true
	}
	return false, extra
}

func (e *shutdownEngine) Run(prop, tier string, seed int64, idx int) proto.Rec {
	c := sdCases(tier)[idx]
	rng := rand.New(rand.NewSource(proto.SubSeed(seed, idx, "shutdown")))
	sdInstallPanicHandler()
	r := &sdRun{sc: c.sc, k: c.k, begun: make(chan struct{}), obs: map[string]int64{}}
	sdPanicMu.Lock()
	sdPanicSink = r
	sdPanicMu.Unlock()
	defer func() {
		sdPanicMu.Lock()
		sdPanicSink = nil
		sdPanicMu.Unlock()
	}()
	brokers := 2
	r.sim = sarama.VNewSim(simSocketDir(), brokers)
	defer r.sim.Close()
	r.sink = newSink()
	defer r.sink.retire()
	r.sink.extra = func() int64 { return r.sim.Progress() + atomic.LoadInt64(&r.app) }
	r.sink.onEvent = func(ev *hookEv) {}
	// crash points: hook events (through a catch-all rule) and requests at the cluster
	r.sink.anyEvent = func(ev *hookEv) { r.event(ev.Point) }
	r.sim.OnRequest = func(ctx *sarama.VSimReqCtx) sarama.VSimConnAction {
		r.event(fmt.Sprintf("request:api%d", ctx.APIKey))
		return sarama.VSimConnAction{}
	}
	switch c.sc.Component {
	case "producer":
		sdProducer(r, rng)
	case "pconsumer", "consumer":
		sdConsumer(r, rng)
	case "group":
		sdGroup(r, rng)
	case "om":
		sdOffsetManager(r, rng)
	case "client":
		sdClient(r, rng)
	}
	r.sink.retire()
	rec := proto.Rec{ID: fmt.Sprintf("%s/%s/%s/k=%d", prop, tier, c.sc.Name, c.k), Obs: r.obs}
	r.mu.Lock()
	for _, p := range r.panics {
		parts := strings.SplitN(p, "|", 3)
		r.viols.add("panic:"+parts[0], parts[1], fmt.Sprintf("scenario %s, close injected at %q (k=%d): panic %s", c.sc.Name, r.atPoint, c.k, parts[2]))
	}
	rec.Viols = r.viols.list
	r.mu.Unlock()
	rec.Obs["events_before_close"] = int64(minInt(c.k, int(atomic.LoadInt64(&r.counter))))
	rec.Obs["events_total"] = atomic.LoadInt64(&r.counter)
	pt := r.atPoint
	rec.NonTrivial = pt != "" && pt != "end"
	rec.Path = c.sc.Name + "@" + pt
	rec.Sample = map[string]interface{}{"scenario": c.sc.Name, "component": c.sc.Component, "variant": c.sc.Variant, "crash_point_k": c.k, "close_injected_at": pt, "events_total": rec.Obs["events_total"], "notes": r.notes}
	for _, n := range r.notes {
		if strings.HasPrefix(n, "inconclusive:") && len(rec.Viols) == 0 {
			rec.Verdict, rec.Why = "inconclusive", n
		}
	}
	return rec
}

func sdBaseConf(r *sdRun, id string) *sarama.Config {
	conf := sarama.NewConfig()
	conf.ClientID = id
	conf.Version = sarama.V1_0_0_0
	r.sim.ConfigureNet(conf)
	conf.Metadata.Retry.Backoff = time.Millisecond
	conf.Metadata.Retry.Max = 2
	conf.Metadata.RefreshFrequency = 10 * time.Minute
	conf.Net.ReadTimeout = 80 * time.Millisecond
	conf.Net.DialTimeout = 500 * time.Millisecond
	return conf
}

func (r *sdRun) judgeFinish(what string) bool {
	ok, stuck := r.finish()
	if ok {
		return true
	}
	if stuck {
		who := parkedSaramaGoroutines()
		how := "nothing moved any more"
		if r.livelocked {
			how = "4000 further observable events went by (background activity only)"
		}
		_ = how
		r.add("close-stuck", r.sc.Component+":"+r.sc.Variant, fmt.Sprintf("scenario %s: %s injected at %q (k=%d) did not complete: %s; parked: %s", r.sc.Name, what, r.atPoint, r.k, how, strings.Join(who, "; ")))
	} else {
		r.notes = append(r.notes, "inconclusive: closing still progressing after 60 s")
	}
	return false
}

// ---------------------------------------------------------------- producer

func sdProducer(r *sdRun, rng *rand.Rand) {
	r.sim.CreateTopic("t", 2, 0)
	conf := sdBaseConf(r, "sdprod")
	conf.Producer.Return.Successes = true
	conf.Producer.Return.Errors = true
	conf.Producer.Retry.Max = 2
	conf.Producer.Retry.Backoff = time.Millisecond
	conf.Producer.Partitioner = sarama.NewManualPartitioner
	if r.sc.Variant == "backoff" {
		conf.Producer.Retry.Backoff = 25 * time.Millisecond
	}
	// one of the two outcome channels switched off (failures / successes are then only logged);
	// some messages are refused by the producer itself (too large), others by the cluster
	if r.sc.Variant == "no-errors" {
		conf.Producer.Return.Errors = false
		conf.Producer.MaxMessageBytes = 200
	}
	if r.sc.Variant == "no-successes" {
		conf.Producer.Return.Successes = false
		conf.Producer.MaxMessageBytes = 200
	}
	var fi int32
	faults := r.sc.Faults
	r.sim.OnProduce = func(ctx *sarama.VSimProduceCtx) sarama.VSimProduceAction {
		i := int(atomic.AddInt32(&fi, 1)) - 1
		if i >= len(faults) {
			return sarama.VSimProduceAction{}
		}
		switch faults[i] {
		case fRetryNoAppend:
			return sarama.VSimProduceAction{Kind: sarama.VPErrNoAppend, Code: sarama.ErrNotLeaderForPartition}
		case fRetryAfterAppend:
			return sarama.VSimProduceAction{Kind: sarama.VPErrAfterAppend, Code: sarama.ErrRequestTimedOut}
		case fDropAfter:
			return sarama.VSimProduceAction{Kind: sarama.VPDropAfter}
		case fFatal:
			return sarama.VSimProduceAction{Kind: sarama.VPErrNoAppend, Code: sarama.ErrInvalidTopic}
		}
		return sarama.VSimProduceAction{}
	}
	if r.sc.Variant == "sync" {
		sp, err := sarama.NewSyncProducer(r.sim.Addrs(), conf)
		if err != nil {
			r.notes = append(r.notes, "inconclusive: "+err.Error())
			return
		}
		var wg sync.WaitGroup
		r.setCloser(func() {
			r.closeBegun()
			// documented order: stop sending first. Senders racing with Close is not what the API allows,
			// so the closer waits for the senders (they must all return: outcome or error).
			wg.Wait()
			_ = sp.Close() // a second Close of a producer is not among the statement's "harmless" ones: not tried
		})
		for g := 0; g < 3; g++ {
			wg.Add(1)
			go func(g int) {
				defer wg.Done()
				for i := 0; i < 6; i++ {
					sp.SendMessage(&sarama.ProducerMessage{Topic: "t", Partition: int32(g % 2), Value: sarama.StringEncoder(fmt.Sprintf("%d:%d", g, i))})
					atomic.AddInt64(&r.app, 1)
				}
			}(g)
		}
		r.judgeFinish("SyncProducer.Close")
		return
	}
	ap, err := sarama.NewAsyncProducer(r.sim.Addrs(), conf)
	if err != nil {
		r.notes = append(r.notes, "inconclusive: "+err.Error())
		return
	}
	// the application services both channels throughout, as documented
	drained := make(chan struct{})
	var afterClose int64
	var closedFlag int32
	quitReading := make(chan struct{})
	go func() {
		defer close(drained)
		s, e := ap.Successes(), ap.Errors()
		for s != nil || e != nil {
			select {
			case <-quitReading:
				return // variant takes-over: from its call on, Close() itself reads what is still to come
			case _, ok := <-s:
				if !ok {
					s = nil
					continue
				}
				atomic.AddInt64(&r.app, 1)
			case _, ok := <-e:
				if !ok {
					e = nil
					continue
				}
				atomic.AddInt64(&r.app, 1)
			}
			if atomic.LoadInt32(&closedFlag) == 1 {
				atomic.AddInt64(&afterClose, 1)
			}
		}
	}()
	stopInput := make(chan struct{})
	inputDone := make(chan struct{})
	useClose := r.k%2 == 0
	r.setCloser(func() {
		r.closeBegun()
		// the API forbids writing to Input() after AsyncClose: stop the submitter first
		close(stopInput)
		<-inputDone
		if r.sc.Variant == "takes-over" {
			close(quitReading)
			<-drained
			ap.Close()
			atomic.StoreInt32(&closedFlag, 1)
			return
		}
		if useClose {
			ap.Close()
		} else {
			ap.AsyncClose()
		}
		<-drained
		atomic.StoreInt32(&closedFlag, 1)
	})
	n := 12
	if r.sc.Variant == "idle" {
		n = 0
	}
	go func() {
		defer close(inputDone)
		if r.sc.Variant == "unreachable" {
			for _, a := range r.sim.Addrs() {
				r.sim.SetUnreachable(a, true)
			}
			r.sim.KillConns(1)
			r.sim.KillConns(2)
		}
		for i := 0; i < n; i++ {
			m := &sarama.ProducerMessage{Topic: "t", Partition: int32(i % 2), Value: sarama.StringEncoder(fmt.Sprintf("%d:x", i))}
			if conf.Producer.MaxMessageBytes == 200 && i%5 == 3 {
				m.Value = sarama.StringEncoder(fmt.Sprintf("%d:%s", i, strings.Repeat("y", 400))) // refused by the producer: too large
			}
			select {
			case ap.Input() <- m:
				atomic.AddInt64(&r.app, 1)
			case <-stopInput:
				return
			}
			if i%3 == 2 {
				select {
				case <-time.After(time.Duration(rng.Intn(1500)) * time.Microsecond):
				case <-stopInput:
					return
				}
			}
		}
		// let the pipeline run until it is quiet (or the crash point fires)
		select {
		case <-stopInput:
		case <-time.After(60 * time.Millisecond):
		}
	}()
	select {
	case <-inputDone:
	case <-r.begun:
	}
	if r.judgeFinish("producer Close/AsyncClose") {
		if c, extra := chanClosed(ap.Successes()); !c {
			r.add("channel-not-closed", "producer:successes", fmt.Sprintf("Successes() still open after Close returned (extra event: %v)", extra))
		}
		if c, extra := chanClosed(ap.Errors()); !c {
			r.add("channel-not-closed", "producer:errors", fmt.Sprintf("Errors() still open after Close returned (extra event: %v)", extra))
		}
	}
}

// ---------------------------------------------------------------- consumer

func sdConsumer(r *sdRun, rng *rand.Rand) {
	parts := 1
	if r.sc.Component == "consumer" {
		parts = 3
	}
	r.sim.CreateTopic("t", parts, 100)
	nrec := 40
	if r.sc.Variant == "idle" {
		nrec = 0
	}
	if r.sc.Variant == "no-leader" {
		nrec = 600 // the other partitions are still reading when the leaderless one gives up and retries
	}
	var metaN, restoreAfter int32
	if r.sc.Variant == "no-leader" {
		r.sim.OnMetadata = func(ctx *sarama.VSimReqCtx) sarama.VSimConnAction {
			n := atomic.AddInt32(&metaN, 1)
			if ra := atomic.LoadInt32(&restoreAfter); ra != 0 && n > ra {
				r.sim.SetLeader("t", 0, 1)
				atomic.StoreInt32(&restoreAfter, 0)
			}
			return sarama.VSimConnAction{}
		}
	}
	for p := 0; p < parts; p++ {
		r.sim.Append("t", int32(p), genPlainLog(rng, nrec, p*100))
	}
	var fi int32
	faults := r.sc.Faults
	r.sim.OnFetch = func(ctx *sarama.VSimFetchCtx) sarama.VSimFetchAction {
		act := sarama.VSimFetchAction{Magic: 2, BatchSizes: []int{3}, MaxBatches: 1, PartIdx: -1}
		i := int(atomic.AddInt32(&fi, 1)) - 1
		if r.sc.Variant == "fetch-dies" && i >= 2 {
			// every fetch stays in flight for a while; two of three then die with
			// their connection (a close that lands meanwhile meets a failed fetch)
			act.DelayMs = 6
			if i%3 != 0 {
				act.Kind = sarama.VFDrop
			}
			return act
		}
		if i < len(faults) {
			switch faults[i] {
			case ffRedispatch:
				act.Kind, act.Code = sarama.VFErr, sarama.ErrNotLeaderForPartition
			case ffOtherCode:
				act.Kind, act.Code = sarama.VFErr, sarama.ErrRequestTimedOut
			case ffDrop:
				act.Kind = sarama.VFDrop
			case ffOutOfRange:
				act.Kind, act.Code = sarama.VFErr, sarama.ErrOffsetOutOfRange
			case ffNoLeader:
				// partition 0 is refused and stays without leader for the next 9 metadata answers: its re-dispatch fails at least once
				atomic.StoreInt32(&restoreAfter, atomic.LoadInt32(&metaN)+9)
				r.sim.SetLeader("t", 0, -1)
				act.Kind, act.Code, act.PartIdx = sarama.VFErr, sarama.ErrNotLeaderForPartition, 0
			}
		}
		return act
	}
	conf := sdBaseConf(r, "sdcons")
	conf.Consumer.Return.Errors = true
	conf.Consumer.Retry.Backoff = 2 * time.Millisecond
	conf.Consumer.MaxWaitTime = 5 * time.Millisecond
	conf.Consumer.MaxProcessingTime = 5 * time.Millisecond
	conf.ChannelBufferSize = 1
	cons, err := sarama.NewConsumer(r.sim.Addrs(), conf)
	if err != nil {
		r.notes = append(r.notes, "inconclusive: "+err.Error())
		return
	}
	var pcs []sarama.PartitionConsumer
	for p := 0; p < parts; p++ {
		pc, err := cons.ConsumePartition("t", int32(p), sarama.OffsetOldest)
		if err != nil {
			r.notes = append(r.notes, "inconclusive: "+err.Error())
			cons.Close()
			return
		}
		pcs = append(pcs, pc)
	}
	var readers sync.WaitGroup
	for _, pc := range pcs {
		readers.Add(2)
		go func(pc sarama.PartitionConsumer) {
			defer readers.Done()
			n := 0
			for {
				if r.sc.Variant == "reader-stops" {
					// PartitionConsumer.Close is documented to shut down without the application reading on
					select {
					case <-r.begun:
						return
					default:
					}
				}
				select {
				case _, ok := <-pc.Messages():
					if !ok {
						return
					}
				case <-r.begun:
					if r.sc.Variant == "reader-stops" {
						return
					}
					continue
				}
				n++
				atomic.AddInt64(&r.app, 1)
				if (r.sc.Variant == "slow" || r.sc.Variant == "reader-stops") && n%3 == 0 {
					time.Sleep(12 * time.Millisecond)
				}
			}
		}(pc)
		go func(pc sarama.PartitionConsumer) {
			defer readers.Done()
			for range pc.Errors() {
				atomic.AddInt64(&r.app, 1)
			}
		}(pc)
	}
	useAsync := r.k%2 == 1 && r.sc.Variant != "reader-stops"
	r.setCloser(func() {
		r.closeBegun()
		// documented order: partition consumers before their consumer
		for _, pc := range pcs {
			if useAsync {
				pc.AsyncClose()
			} else {
				go pc.Close() // Close drains Errors itself; our reader drains Messages
			}
		}
		readers.Wait()
		for _, pc := range pcs {
			pc.Close() // second close is harmless
		}
		cons.Close()
	})
	// workload: run until quiet
	select {
	case <-r.begun:
	case <-time.After(150 * time.Millisecond):
	}
	if r.judgeFinish("PartitionConsumer.Close + Consumer.Close") {
		for i, pc := range pcs {
			if c, _ := chanClosed(pc.Messages()); !c {
				r.add("channel-not-closed", "pconsumer:messages", fmt.Sprintf("partition %d: Messages() still open after Close", i))
			}
			if c, _ := chanClosed(pc.Errors()); !c {
				r.add("channel-not-closed", "pconsumer:errors", fmt.Sprintf("partition %d: Errors() still open after Close", i))
			}
		}
	}
}

// ---------------------------------------------------------------- group

type sdHandler struct{ r *sdRun }

func (h *sdHandler) Setup(sarama.ConsumerGroupSession) error   { return nil }
func (h *sdHandler) Cleanup(sarama.ConsumerGroupSession) error { return nil }
func (h *sdHandler) ConsumeClaim(s sarama.ConsumerGroupSession, c sarama.ConsumerGroupClaim) error {
	for m := range c.Messages() {
		s.MarkMessage(m, "")
		atomic.AddInt64(&h.r.app, 1)
	}
	return nil
}

func sdGroup(r *sdRun, rng *rand.Rand) {
	nparts := 2
	if r.sc.Variant == "idle-member" {
		nparts = 1 // two members, one partition: one member sits in a session without any claim
	}
	r.sim.CreateTopic("t", nparts, 0)
	for p := 0; p < nparts; p++ {
		r.sim.Append("t", int32(p), genPlainLog(rng, 30, p*100))
	}
	var nJoin, nSync int32
	r.sim.OnGroup = func(ctx *sarama.VSimGroupCtx) sarama.VSimGroupAction {
		switch r.sc.Variant {
		case "slow-join":
			if ctx.Kind == "join" {
				return sarama.VSimGroupAction{DelayMs: 30}
			}
		case "slow-sync":
			if ctx.Kind == "sync" {
				return sarama.VSimGroupAction{DelayMs: 30}
			}
		case "rebalance":
			if ctx.Kind == "join" && atomic.AddInt32(&nJoin, 1) <= 3 {
				return sarama.VSimGroupAction{Kind: sarama.VGError, Code: sarama.ErrRebalanceInProgress}
			}
			if ctx.Kind == "sync" && atomic.AddInt32(&nSync, 1) <= 1 {
				return sarama.VSimGroupAction{Kind: sarama.VGError, Code: sarama.ErrRebalanceInProgress}
			}
		case "unreachable":
			if ctx.Kind == "find-coordinator" {
				return sarama.VSimGroupAction{Kind: sarama.VGError, Code: sarama.ErrConsumerCoordinatorNotAvailable}
			}
		case "coordinator-lost":
			// the coordinator found first denies being it, and after that nobody can say who is:
			// the member goes round the "refresh the coordinator, try again" loop until it is closed
			if ctx.Kind == "join" {
				return sarama.VSimGroupAction{Kind: sarama.VGError, Code: sarama.ErrNotCoordinatorForConsumer}
			}
			if ctx.Kind == "find-coordinator" && atomic.AddInt32(&nSync, 1) > 1 {
				return sarama.VSimGroupAction{Kind: sarama.VGDropBefore}
			}
		case "heartbeats-die":
			// the session is established, then the coordinator stops answering heartbeats: every one of
			// them dies with its connection while the client still knows (from its cache) who the
			// coordinator is. The session gives up after the retry budget and the next one starts the same way.
			if ctx.Kind == "heartbeat" && atomic.AddInt32(&nSync, 1) > 2 {
				return sarama.VSimGroupAction{Kind: sarama.VGDropBefore}
			}
		case "leave-fails":
			// the coordinator refuses the LeaveGroup that Close sends
			if ctx.Kind == "leave" {
				return sarama.VSimGroupAction{Kind: sarama.VGError, Code: sarama.ErrNotCoordinatorForConsumer}
			}
		case "offset-fetch-fails":
			// the first two sessions die while they are being set up: the initial
			// offset of a claim cannot be fetched (not retriable)
			if ctx.Kind == "offset-fetch" && atomic.AddInt32(&nJoin, 1) <= 2 {
				return sarama.VSimGroupAction{Kind: sarama.VGError, Code: sarama.ErrGroupAuthorizationFailed}
			}
		}
		return sarama.VSimGroupAction{}
	}
	members := 1
	if r.sc.Variant == "two" || r.sc.Variant == "idle-member" {
		members = 2
	}
	var groups []sarama.ConsumerGroup
	for i := 0; i < members; i++ {
		conf := sdBaseConf(r, fmt.Sprintf("sdgrp%d", i))
		conf.Consumer.Return.Errors = true
		conf.Consumer.Group.Heartbeat.Interval = 3 * time.Millisecond
		conf.Consumer.Group.Session.Timeout = 60 * time.Millisecond
		conf.Consumer.Group.Rebalance.Timeout = 200 * time.Millisecond
		conf.Consumer.Group.Rebalance.Retry.Backoff = 10 * time.Millisecond
		conf.Consumer.Group.Rebalance.Retry.Max = 4
		conf.Consumer.Offsets.AutoCommit.Interval = 2 * time.Millisecond
		conf.Consumer.Offsets.Initial = sarama.OffsetOldest
		conf.Consumer.MaxWaitTime = 5 * time.Millisecond
		conf.Consumer.Retry.Backoff = time.Millisecond
		if r.sc.Variant == "unreachable" || r.sc.Variant == "coordinator-lost" || r.sc.Variant == "heartbeats-die" {
			conf.Metadata.Retry.Max = 1
			conf.Metadata.Retry.Backoff = 5 * time.Millisecond
		}
		g, err := sarama.NewConsumerGroup(r.sim.Addrs(), "sdg", conf)
		if err != nil {
			r.notes = append(r.notes, "inconclusive: "+err.Error())
			for _, x := range groups {
				x.Close()
			}
			return
		}
		groups = append(groups, g)
	}
	var consumers sync.WaitGroup
	var errDrain sync.WaitGroup
	var closing int32
	for _, g := range groups {
		errDrain.Add(1)
		go func(g sarama.ConsumerGroup) {
			defer errDrain.Done()
			for range g.Errors() {
				atomic.AddInt64(&r.app, 1)
			}
		}(g)
		consumers.Add(1)
		go func(g sarama.ConsumerGroup) {
			defer consumers.Done()
			for i := 0; i < 50 && atomic.LoadInt32(&closing) == 0; i++ {
				err := g.Consume(context.Background(), []string{"t"}, &sdHandler{r})
				atomic.AddInt64(&r.app, 1)
				if err == sarama.ErrClosedConsumerGroup {
					return
				}
				if err != nil {
					time.Sleep(time.Millisecond)
				}
			}
		}(g)
	}
	r.setCloser(func() {
		r.closeBegun()
		atomic.StoreInt32(&closing, 1)
		for _, g := range groups {
			g.Close()
		}
		consumers.Wait() // blocked Consume calls must return
		errDrain.Wait()
		for _, g := range groups {
			g.Close() // closing twice is harmless
		}
	})
	select {
	case <-r.begun:
	case <-time.After(200 * time.Millisecond):
	}
	if r.judgeFinish("ConsumerGroup.Close") {
		for i, g := range groups {
			if c, _ := chanClosed(g.Errors()); !c {
				r.add("channel-not-closed", "group:errors", fmt.Sprintf("member %d: Errors() still open after Close", i))
			}
		}
	}
}

// ---------------------------------------------------------------- offset manager

func sdOffsetManager(r *sdRun, rng *rand.Rand) {
	r.sim.CreateTopic("t", 2, 0)
	var nCommit int32
	var nFind int32
	r.sim.OnGroup = func(ctx *sarama.VSimGroupCtx) sarama.VSimGroupAction {
		if r.sc.Variant == "manual-commit" && ctx.Kind == "find-coordinator" && atomic.AddInt32(&nFind, 1)%3 == 0 {
			// every third lookup dies with its connection: those commits fail before anything is sent
			// (COORDINATOR_NOT_AVAILABLE would make the client sleep for two seconds)
			return sarama.VSimGroupAction{Kind: sarama.VGDropBefore}
		}
		if ctx.Kind != "commit" {
			return sarama.VSimGroupAction{}
		}
		n := atomic.AddInt32(&nCommit, 1)
		switch r.sc.Variant {
		case "manual-commit":
			// the first commit is accepted, every later one dies with its connection:
			// the committing goroutine spends its time handing errors to a slow reader
			if n > 1 {
				return sarama.VSimGroupAction{Kind: sarama.VGDropBefore}
			}
		case "slow-commit":
			return sarama.VSimGroupAction{DelayMs: 15}
		case "errors":
			switch n % 4 {
			case 1:
				return sarama.VSimGroupAction{Kind: sarama.VGError, Code: sarama.ErrNotCoordinatorForConsumer}
			case 2:
				return sarama.VSimGroupAction{Kind: sarama.VGDropBefore}
			case 3:
				return sarama.VSimGroupAction{Kind: sarama.VGOmitBlocks}
			}
		}
		return sarama.VSimGroupAction{}
	}
	conf := sdBaseConf(r, "sdom")
	conf.Consumer.Return.Errors = true
	conf.Consumer.Offsets.AutoCommit.Interval = 2 * time.Millisecond
	conf.Consumer.Offsets.Retry.Max = 2
	manual := r.sc.Variant == "manual-commit"
	if manual {
		// the application commits by itself, from its own goroutine, and reads errors slowly
		conf.Consumer.Offsets.AutoCommit.Enable = false
		conf.ChannelBufferSize = 0
		conf.Metadata.Retry.Max = 0
	}
	client, err := sarama.NewClient(r.sim.Addrs(), conf)
	if err != nil {
		r.notes = append(r.notes, "inconclusive: "+err.Error())
		return
	}
	om, err := sarama.NewOffsetManagerFromClient("sdom", client)
	if err != nil {
		client.Close()
		r.notes = append(r.notes, "inconclusive: "+err.Error())
		return
	}
	var poms []sarama.PartitionOffsetManager
	var drain sync.WaitGroup
	for p := 0; p < 2; p++ {
		pom, err := om.ManagePartition("t", int32(p))
		if err != nil {
			r.notes = append(r.notes, "inconclusive: "+err.Error())
			om.Close()
			client.Close()
			return
		}
		poms = append(poms, pom)
		drain.Add(1)
		go func(pom sarama.PartitionOffsetManager) {
			defer drain.Done()
			for range pom.Errors() {
				atomic.AddInt64(&r.app, 1)
				if manual {
					time.Sleep(6 * time.Millisecond) // slower than the commits fail: the committer waits in its send most of the time
				}
			}
		}(pom)
	}
	stopCommit := make(chan struct{})
	var nCommitCalls int64
	defer func() {
		r.mu.Lock()
		if r.obs != nil && manual {
			r.obs["om_manual_commit_calls"] = atomic.LoadInt64(&nCommitCalls)
		}
		r.mu.Unlock()
	}()
	var committer sync.WaitGroup
	if manual {
		committer.Add(1)
		go func() {
			defer committer.Done()
			for {
				select {
				case <-stopCommit:
					return
				default:
				}
				om.Commit() // keeps committing while Close runs: nothing forbids it
				atomic.AddInt64(&r.app, 1)
				atomic.AddInt64(&nCommitCalls, 1)
				time.Sleep(300 * time.Microsecond)
			}
		}()
	}
	stop := make(chan struct{})
	var markers sync.WaitGroup
	markers.Add(1)
	go func() {
		defer markers.Done()
		for i := int64(1); i < 200; i++ {
			select {
			case <-stop:
				return
			default:
			}
			poms[i%2].MarkOffset(i, "m")
			atomic.AddInt64(&r.app, 1)
			time.Sleep(500 * time.Microsecond)
		}
	}()
	r.setCloser(func() {
		r.closeBegun()
		close(stop)
		markers.Wait()
		// documented order: partition offset managers, then the offset manager, then the client
		for _, pom := range poms {
			pom.AsyncClose()
		}
		om.Close()
		close(stopCommit)
		committer.Wait()
		drain.Wait()
		client.Close()
		if err := client.Close(); err != sarama.ErrClosedClient {
			r.add("double-close", "client", fmt.Sprintf("second Client.Close returned %v", err))
		}
	})
	select {
	case <-r.begun:
	case <-time.After(120 * time.Millisecond):
	}
	if r.judgeFinish("OffsetManager.Close") {
		for i, pom := range poms {
			if c, _ := chanClosed(pom.Errors()); !c {
				r.add("channel-not-closed", "om:errors", fmt.Sprintf("partition %d: Errors() still open after Close", i))
			}
		}
	}
}

// ---------------------------------------------------------------- client

func sdClient(r *sdRun, rng *rand.Rand) {
	r.sim.CreateTopic("t", 2, 0)
	r.sim.Append("t", 0, genPlainLog(rng, 10, 0))
	conf := sdBaseConf(r, "sdcl")
	conf.Metadata.RefreshFrequency = time.Millisecond
	conf.Producer.Return.Successes = true
	conf.Consumer.Return.Errors = true
	client, err := sarama.NewClient(r.sim.Addrs(), conf)
	if err != nil {
		r.notes = append(r.notes, "inconclusive: "+err.Error())
		return
	}
	stop := make(chan struct{})
	var users sync.WaitGroup
	var closers []func()
	if r.sc.Variant == "shared" {
		// a producer and a consumer sharing the client: they are closed before it
		ap, err1 := sarama.NewAsyncProducerFromClient(client)
		cons, err2 := sarama.NewConsumerFromClient(client)
		if err1 != nil || err2 != nil {
			r.notes = append(r.notes, fmt.Sprintf("inconclusive: %v %v", err1, err2))
			client.Close()
			return
		}
		pc, err := cons.ConsumePartition("t", 0, sarama.OffsetOldest)
		if err != nil {
			r.notes = append(r.notes, "inconclusive: "+err.Error())
			client.Close()
			return
		}
		users.Add(3)
		go func() {
			defer users.Done()
			s, e := ap.Successes(), ap.Errors()
			for s != nil || e != nil {
				select {
				case _, ok := <-s:
					if !ok {
						s = nil
					}
				case _, ok := <-e:
					if !ok {
						e = nil
					}
				}
				atomic.AddInt64(&r.app, 1)
			}
		}()
		go func() {
			defer users.Done()
			for range pc.Messages() {
				atomic.AddInt64(&r.app, 1)
			}
		}()
		go func() {
			defer users.Done()
			for range pc.Errors() {
			}
		}()
		inputDone := make(chan struct{})
		go func() {
			defer close(inputDone)
			for i := 0; i < 20; i++ {
				select {
				case ap.Input() <- &sarama.ProducerMessage{Topic: "t", Partition: 1, Value: sarama.StringEncoder("x")}:
				case <-stop:
					return
				}
			}
		}()
		closers = append(closers, func() {
			<-inputDone
			ap.AsyncClose()
			pc.AsyncClose()
			users.Wait()
			cons.Close()
		})
	} else {
		users.Add(2)
		for g := 0; g < 2; g++ {
			go func() {
				defer users.Done()
				for it := 0; ; it++ {
					select {
					case <-stop:
						return
					default:
					}
					if r.sc.Variant == "racing-users" {
						if it > 800 {
							return // bounded, so that a Close that never returns ends in quiescence
						}
						time.Sleep(50 * time.Microsecond)
					}
					client.Partitions("t")
					client.Leader("t", 0)
					client.RefreshMetadata("t")
					if r.sc.Variant == "racing-users" {
						client.RefreshCoordinator("sdg")
						client.Coordinator("sdg")
						client.RefreshController()
						client.WritablePartitions("t")
					}
					atomic.AddInt64(&r.app, 1)
				}
			}()
		}
		if r.sc.Variant != "racing-users" {
			closers = append(closers, func() { users.Wait() })
		}
	}
	r.setCloser(func() {
		r.closeBegun()
		if r.sc.Variant == "racing-users" {
			// other goroutines are in the middle of their calls when the client is closed: they get
			// ErrClosedClient (or their answer), nothing panics
			if err := client.Close(); err != nil {
				r.add("close-error", "client", fmt.Sprintf("Client.Close returned %v", err))
			}
			time.Sleep(2 * time.Millisecond)
			close(stop)
			users.Wait()
			if err := client.Close(); err != sarama.ErrClosedClient {
				r.add("double-close", "client", fmt.Sprintf("second Client.Close returned %v", err))
			}
			return
		}
		close(stop)
		for _, c := range closers {
			c()
		}
		if err := client.Close(); err != nil {
			r.add("close-error", "client", fmt.Sprintf("Client.Close returned %v", err))
		}
		if err := client.Close(); err != sarama.ErrClosedClient {
			r.add("double-close", "client", fmt.Sprintf("second Client.Close returned %v", err))
		}
		if !client.Closed() {
			r.add("double-close", "client:not-closed", "Closed() is false after Close")
		}
	})
	select {
	case <-r.begun:
	case <-time.After(80 * time.Millisecond):
	}
	r.judgeFinish("Client.Close")
}

var _ = sort.Strings
