package main

// Engine "part": C17. Direct calls of every partitioner constructor / option
// against an independent reference (own FNV-1a, Kafka's toPositive rule), plus
// producer scenarios (added by prodpart.go) that check that the producer
// honours the partitioner's choice.

import (
	"fmt"
	"hash"
	"math"
	"math/rand"
	"sort"
	"time"

	"github.com/Shopify/sarama"

	"verifharness/internal/proto"
)

func init() { engines["part"] = &partEngine{} }

type partEngine struct{}

const partBatch = 5000

func partDirectCases(tier string) int {
	if tier == "thorough" {
		return 1000 // x 5000 calls
	}
	return 10
}

func (e *partEngine) Count(prop, tier string, seed int64) int {
	return partDirectCases(tier) + partProducerCases(tier)
}

// refFNV1a is an independent FNV-1a 32.
func refFNV1a(b []byte) uint32 {
	h := uint32(2166136261)
	for _, c := range b {
		h ^= uint32(c)
		h *= 16777619
	}
	return h
}

// findKeyWithHash returns a key whose FNV-1a hash is exactly target, by a
// meet-in-the-middle search (the multiplication by the odd prime is invertible).
func findKeyWithHash(target uint32, rng *rand.Rand) []byte {
	const prime = 16777619
	inv := uint32(1)
	// inverse of prime modulo 2^32 by Newton iteration
	for i := 0; i < 6; i++ {
		inv *= 2 - prime*inv
	}
	prefixLen := rng.Intn(3) // 0..2 random leading bytes so that keys differ between runs
	prefix := make([]byte, prefixLen)
	for i := range prefix {
		prefix[i] = byte('a' + rng.Intn(26))
	}
	start := uint32(2166136261)
	for _, c := range prefix {
		start = (start ^ uint32(c)) * prime
	}
	fwd := make(map[uint32][2]byte, 65536)
	for a := 0; a < 256; a++ {
		h1 := (start ^ uint32(a)) * prime
		for b := 0; b < 256; b++ {
			fwd[(h1^uint32(b))*prime] = [2]byte{byte(a), byte(b)}
		}
	}
	for c := 0; c < 256; c++ {
		for d := 0; d < 256; d++ {
			for e := 0; e < 256; e++ {
				h := target
				h = (h * inv) ^ uint32(e)
				h = (h * inv) ^ uint32(d)
				h = (h * inv) ^ uint32(c)
				if ab, ok := fwd[h]; ok {
					return append(append([]byte{}, prefix...), ab[0], ab[1], byte(c), byte(d), byte(e))
				}
			}
		}
	}
	return nil
}

type constHash struct{ v uint32 }

func (c *constHash) Write(p []byte) (int, error) { return len(p), nil }
func (c *constHash) Sum(b []byte) []byte         { return b }
func (c *constHash) Reset()                      {}
func (c *constHash) Size() int                   { return 4 }
func (c *constHash) BlockSize() int              { return 1 }
func (c *constHash) Sum32() uint32               { return c.v }

// sumHash: a custom hash that is visibly not FNV (sum of bytes times a constant).
type sumHash struct {
	s     uint32
	calls *int
}

func (c *sumHash) Write(p []byte) (int, error) {
	for _, b := range p {
		c.s += uint32(b)
	}
	*c.calls++
	return len(p), nil
}
func (c *sumHash) Sum(b []byte) []byte { return b }
func (c *sumHash) Reset()              { c.s = 0 }
func (c *sumHash) Size() int           { return 4 }
func (c *sumHash) BlockSize() int      { return 1 }
func (c *sumHash) Sum32() uint32       { return c.s * 2654435761 }

func refSumHash(b []byte) uint32 {
	var s uint32
	for _, c := range b {
		s += uint32(c)
	}
	return s * 2654435761
}

func saramaRule(h uint32, n int32) int32 {
	p := int32(h) % n
	if p < 0 {
		p = -p
	}
	return p
}

func kafkaRule(h uint32, n int32) int32 { return int32(h&0x7fffffff) % n }

type partRun struct {
	viols []proto.Viol
	seen  map[string]bool
	paths map[string]bool
	evals int
	obs   map[string]int64
	samp  map[string]interface{}
}

func (r *partRun) viol(kind, attr, msg string) {
	if r.seen[kind+"|"+attr] {
		return
	}
	r.seen[kind+"|"+attr] = true
	r.viols = append(r.viols, proto.Viol{Kind: kind, Attr: attr, Msg: msg})
}

func keyClass(k []byte, isNil bool, h uint32) string {
	switch {
	case isNil:
		return "nil"
	case len(k) == 0:
		return "empty"
	case h == 0x80000000:
		return "minint"
	case int32(h) < 0:
		return "neg"
	}
	return "pos"
}

func nClass(n int32) string {
	switch {
	case n == 1:
		return "1"
	case n == math.MaxInt32:
		return "max"
	case n&(n-1) == 0:
		return "pow2"
	case n < 8:
		return "small"
	}
	return "mid"
}

// callPartition guards one Partition call: a call that recurses without bound
// kills the process with a fatal stack overflow (the runner turns that into a
// witness); panics are turned into violations here.
func (r *partRun) callPartition(name string, p sarama.Partitioner, m *sarama.ProducerMessage, n int32) (res int32, err error, ok bool) {
	defer func() {
		if x := recover(); x != nil {
			k, a := classifyPanic(x)
			r.viol(k, name+":"+a, fmt.Sprintf("%s.Partition panicked: %v", name, x))
			ok = false
		}
	}()
	setCur([]byte(fmt.Sprintf("partitioner=%s n=%d key=%v", name, n, m.Key)))
	r.evals++
	res, err = p.Partition(m, n)
	return res, err, true
}

func (e *partEngine) Run(prop, tier string, seed int64, idx int) proto.Rec {
	if idx >= partDirectCases(tier) {
		return runPartProducerCase(prop, tier, seed, idx-partDirectCases(tier), idx)
	}
	rng := rand.New(rand.NewSource(proto.SubSeed(seed, idx, "part")))
	r := &partRun{seen: map[string]bool{}, paths: map[string]bool{}, obs: map[string]int64{}}

	// special keys, found by search and re-verified with the reference hash
	var specials [][]byte
	for _, target := range []uint32{0x80000000, 0x80000001, 0xffffffff, 0x7fffffff, 0} {
		k := findKeyWithHash(target, rng)
		if k == nil || refFNV1a(k) != target {
			r.viol("harness", "key-search", fmt.Sprintf("no key found for hash %#x", target))
			continue
		}
		specials = append(specials, k)
	}
	r.obs["special_keys_found"] = int64(len(specials))

	ns := []int32{1, 2, 3, 5, 7, 8, 16, 31, 32, 33, 63, 64, math.MaxInt32, math.MaxInt32 - 1, 1 << 30}
	for i := 0; i < 10; i++ {
		ns = append(ns, int32(1+rng.Intn(64)))
	}
	genKey := func() ([]byte, bool) {
		switch rng.Intn(10) {
		case 0:
			return nil, true
		case 1:
			return []byte{}, false
		case 2, 3:
			return specials[rng.Intn(len(specials))], false
		}
		k := make([]byte, 1+rng.Intn(24))
		rng.Read(k)
		return k, false
	}

	hashCalls := 0
	type ctor struct {
		name string
		mk   func() sarama.Partitioner
		rule func(key []byte, n int32) int32 // nil: no reference for keyed messages
	}
	ctors := []ctor{
		{"NewHashPartitioner", func() sarama.Partitioner { return sarama.NewHashPartitioner("t") }, func(k []byte, n int32) int32 { return saramaRule(refFNV1a(k), n) }},
		{"NewReferenceHashPartitioner", func() sarama.Partitioner { return sarama.NewReferenceHashPartitioner("t") }, func(k []byte, n int32) int32 { return kafkaRule(refFNV1a(k), n) }},
		{"NewCustomPartitioner()", func() sarama.Partitioner { return sarama.NewCustomPartitioner()("t") }, func(k []byte, n int32) int32 { return saramaRule(refFNV1a(k), n) }},
		{"NewCustomPartitioner(WithAbsFirst)", func() sarama.Partitioner { return sarama.NewCustomPartitioner(sarama.WithAbsFirst())("t") }, func(k []byte, n int32) int32 { return kafkaRule(refFNV1a(k), n) }},
		{"NewCustomPartitioner(WithCustomHashFunction)", func() sarama.Partitioner {
			return sarama.NewCustomPartitioner(sarama.WithCustomHashFunction(func() hash.Hash32 { return &sumHash{calls: &hashCalls} }))("t")
		}, func(k []byte, n int32) int32 { return saramaRule(refSumHash(k), n) }},
		{"NewCustomPartitioner(WithAbsFirst,WithCustomHashFunction)", func() sarama.Partitioner {
			return sarama.NewCustomPartitioner(sarama.WithAbsFirst(), sarama.WithCustomHashFunction(func() hash.Hash32 { return &sumHash{calls: &hashCalls} }))("t")
		}, func(k []byte, n int32) int32 { return kafkaRule(refSumHash(k), n) }},
		{"NewCustomHashPartitioner", func() sarama.Partitioner {
			return sarama.NewCustomHashPartitioner(func() hash.Hash32 { return &sumHash{calls: &hashCalls} })("t")
		}, func(k []byte, n int32) int32 { return saramaRule(refSumHash(k), n) }},
		{"NewCustomHashPartitioner(const MinInt32)", func() sarama.Partitioner {
			return sarama.NewCustomHashPartitioner(func() hash.Hash32 { return &constHash{0x80000000} })("t")
		}, func(k []byte, n int32) int32 { return saramaRule(0x80000000, n) }},
		{"NewCustomPartitioner(WithAbsFirst,const MinInt32)", func() sarama.Partitioner {
			return sarama.NewCustomPartitioner(sarama.WithAbsFirst(), sarama.WithCustomHashFunction(func() hash.Hash32 { return &constHash{0x80000000} }))("t")
		}, func(k []byte, n int32) int32 { return kafkaRule(0x80000000, n) }},
	}
	per := partBatch / (len(ctors) + 4)
	for _, c := range ctors {
		p := c.mk()
		usesCustomHash := c.name != "NewHashPartitioner" && c.name != "NewReferenceHashPartitioner" && c.name != "NewCustomPartitioner()" && c.name != "NewCustomPartitioner(WithAbsFirst)"
		if !p.RequiresConsistency() {
			r.viol("contract", c.name, "hash partitioner does not require consistency")
		}
		memo := map[string]int32{}
		for i := 0; i < per; i++ {
			key, isNil := genKey()
			n := ns[rng.Intn(len(ns))]
			m := &sarama.ProducerMessage{Topic: "t"}
			if !isNil {
				m.Key = sarama.ByteEncoder(key)
			}
			before := hashCalls
			got, err, ok := r.callPartition(c.name, p, m, n)
			if !ok {
				continue
			}
			h := refFNV1a(key)
			r.paths[c.name+"|"+keyClass(key, isNil, h)+"|"+nClass(n)] = true
			if err != nil {
				r.viol("partition-error", c.name, fmt.Sprintf("error %v for key %x n=%d", err, key, n))
				continue
			}
			if got < 0 || got >= n {
				r.viol("out-of-range", c.name, fmt.Sprintf("key=%x (nil=%v) n=%d -> %d", key, isNil, n, got))
			}
			if dp, ok := p.(sarama.DynamicConsistencyPartitioner); ok {
				if dp.MessageRequiresConsistency(m) != !isNil {
					r.viol("contract", c.name+":dynamic-consistency", fmt.Sprintf("MessageRequiresConsistency(key nil=%v) = %v", isNil, !isNil))
				}
			}
			if isNil {
				continue
			}
			if want := c.rule(key, n); got != want {
				kind := "reference-mismatch"
				if usesCustomHash {
					kind = "hash-not-used"
				}
				r.viol(kind, c.name, fmt.Sprintf("key=%x hash=%#x n=%d: got %d, reference %d", key, h, n, got, want))
			}
			if usesCustomHash && c.rule != nil && hashCalls == before && !isConst(c.name) {
				r.viol("hash-not-used", c.name, "the custom hash function was not invoked")
			}
			mk := fmt.Sprintf("%x/%d", key, n)
			if prev, ok := memo[mk]; ok && prev != got {
				r.viol("inconsistent-hash", c.name, fmt.Sprintf("key=%x n=%d mapped to %d and then %d", key, n, prev, got))
			}
			memo[mk] = got
		}
	}

	// keyless messages go to the fallback; a custom fallback must be the one used
	r.fallback(rng, ns, per)

	// round robin: all n partitions in n calls, also after n changes
	{
		p := sarama.NewRoundRobinPartitioner("t")
		if p.RequiresConsistency() {
			r.viol("contract", "NewRoundRobinPartitioner", "round-robin claims to require consistency")
		}
		calls := 0
		for calls < per {
			n := int32(1 + rng.Intn(64))
			reps := 1 + rng.Intn(3)
			seen := map[int32]int{}
			for i := int32(0); i < n*int32(reps); i++ {
				got, err, ok := r.callPartition("NewRoundRobinPartitioner", p, &sarama.ProducerMessage{Topic: "t"}, n)
				calls++
				if !ok || err != nil {
					continue
				}
				if got < 0 || got >= n {
					r.viol("out-of-range", "NewRoundRobinPartitioner", fmt.Sprintf("n=%d -> %d", n, got))
				}
				seen[got]++
			}
			for q := int32(0); q < n; q++ {
				if seen[q] != reps {
					r.viol("rr-cycle", "NewRoundRobinPartitioner", fmt.Sprintf("n=%d: in %d calls partition %d was chosen %d times (want %d) — distribution %v", n, n*int32(reps), q, seen[q], reps, seen))
					break
				}
			}
			r.paths["roundrobin|"+nClass(n)] = true
		}
	}
	// random
	{
		p := sarama.NewRandomPartitioner("t")
		for i := 0; i < per; i++ {
			n := ns[rng.Intn(len(ns))]
			got, err, ok := r.callPartition("NewRandomPartitioner", p, &sarama.ProducerMessage{Topic: "t"}, n)
			if ok && (err != nil || got < 0 || got >= n) {
				r.viol("out-of-range", "NewRandomPartitioner", fmt.Sprintf("n=%d -> %d err=%v", n, got, err))
			}
			r.paths["random|"+nClass(n)] = true
		}
	}
	// manual
	{
		p := sarama.NewManualPartitioner("t")
		if !p.RequiresConsistency() {
			r.viol("contract", "NewManualPartitioner", "manual partitioner does not require consistency")
		}
		for i := 0; i < per; i++ {
			n := ns[rng.Intn(len(ns))]
			want := int32(rng.Int63n(int64(n)))
			key, isNil := genKey()
			m := &sarama.ProducerMessage{Topic: "t", Partition: want}
			if !isNil {
				m.Key = sarama.ByteEncoder(key)
			}
			got, err, ok := r.callPartition("NewManualPartitioner", p, m, n)
			if ok && (err != nil || got != want) {
				r.viol("manual", "NewManualPartitioner", fmt.Sprintf("message partition %d n=%d -> %d err=%v", want, n, got, err))
			}
			r.paths["manual|"+nClass(n)] = true
		}
	}
	rec := proto.Rec{ID: fmt.Sprintf("%s/%s/%d/%d:direct", prop, tier, seed, idx), Evals: r.evals, Viols: r.viols, Obs: r.obs}
	for p := range r.paths {
		rec.Paths = append(rec.Paths, p)
	}
	sort.Strings(rec.Paths)
	rec.NonTrivial = true
	rec.Sample = map[string]interface{}{"special_keys_hex": hexAll(specials), "partition_counts": ns, "constructors": len(ctors) + 4, "calls": r.evals}
	return rec
}

func isConst(name string) bool {
	return name == "NewCustomHashPartitioner(const MinInt32)" || name == "NewCustomPartitioner(WithAbsFirst,const MinInt32)"
}

func hexAll(bs [][]byte) []string {
	var out []string
	for _, b := range bs {
		out = append(out, fmt.Sprintf("%x", b))
	}
	return out
}

// fallback: keyless messages. The built-in fallback must stay in range; a
// custom fallback (built inside the package, since the option takes an
// unexported type) must be the one that is consulted.
func (r *partRun) fallback(rng *rand.Rand, ns []int32, per int) {
	for _, name := range []string{"NewHashPartitioner", "NewReferenceHashPartitioner", "NewCustomPartitioner()"} {
		var p sarama.Partitioner
		switch name {
		case "NewHashPartitioner":
			p = sarama.NewHashPartitioner("t")
		case "NewReferenceHashPartitioner":
			p = sarama.NewReferenceHashPartitioner("t")
		default:
			p = sarama.NewCustomPartitioner()("t")
		}
		for i := 0; i < per/3; i++ {
			n := ns[rng.Intn(len(ns))]
			got, err, ok := r.callPartition(name+"(keyless)", p, &sarama.ProducerMessage{Topic: "t"}, n)
			if ok && (err != nil || got < 0 || got >= n) {
				r.viol("out-of-range", name+":fallback", fmt.Sprintf("keyless n=%d -> %d err=%v", n, got, err))
			}
		}
	}
	// custom fallback: run in a goroutine with a watchdog — unbounded recursion
	// ends in a fatal stack overflow which no recover() can stop; the journal
	// names the case and the runner classifies the crash (fatal:stack).
	rec := &sarama.VerifRecordingPartitioner{}
	p := sarama.VerifCustomFallbackPartitioner(rec)
	done := make(chan struct{})
	go func() {
		defer close(done)
		for i := 0; i < 50; i++ {
			n := ns[rng.Intn(len(ns))]
			before := rec.Calls
			got, err, ok := r.callPartition("NewCustomPartitioner(WithCustomFallbackPartitioner)", p, &sarama.ProducerMessage{Topic: "t"}, n)
			if !ok {
				return
			}
			if err != nil || got < 0 || got >= n {
				r.viol("out-of-range", "WithCustomFallbackPartitioner", fmt.Sprintf("keyless n=%d -> %d err=%v", n, got, err))
			}
			if rec.Calls != before+1 {
				r.viol("fallback-not-used", "WithCustomFallbackPartitioner", fmt.Sprintf("keyless message: the custom fallback was consulted %d times", rec.Calls-before))
			} else if got != rec.Last {
				r.viol("fallback-not-used", "WithCustomFallbackPartitioner", fmt.Sprintf("fallback chose %d but the partitioner returned %d", rec.Last, got))
			}
			// keyed messages must not touch the fallback
			before = rec.Calls
			key := []byte{byte(i), 1, 2}
			got, err, ok = r.callPartition("NewCustomPartitioner(WithCustomFallbackPartitioner)", p, &sarama.ProducerMessage{Topic: "t", Key: sarama.ByteEncoder(key)}, n)
			if ok && (err != nil || got != saramaRule(refFNV1a(key), n)) {
				r.viol("reference-mismatch", "WithCustomFallbackPartitioner", fmt.Sprintf("keyed message n=%d -> %d", n, got))
			}
			if rec.Calls != before {
				r.viol("fallback-not-used", "WithCustomFallbackPartitioner:keyed", "keyed message consulted the fallback")
			}
		}
	}()
	select {
	case <-done:
	case <-time.After(60 * time.Second):
		r.viol("never-returns", "WithCustomFallbackPartitioner", "Partition on a keyless message did not return")
		restartAfterCase = true
	}
	r.paths["custom-fallback|nil"] = true
}
