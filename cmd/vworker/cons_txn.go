package main

import (
	"fmt"
	"math/rand"

	"github.com/Shopify/sarama"
)

func dataRec(pid int64, txn bool, seq int32, tag string) sarama.VRec {
	return sarama.VRec{PID: pid, Epoch: 0, Seq: seq, Transactional: txn, TsMs: 1600000000000, Key: []byte("k" + tag), Value: []byte("v" + tag)}
}

func markerRec(pid int64, commit bool) sarama.VRec {
	k, v := sarama.VRefControlRecord(commit, 0)
	ct := int16(0)
	if commit {
		ct = 1
	}
	return sarama.VRec{PID: pid, Epoch: 0, Seq: -1, Transactional: true, Control: true, ControlType: ct, TsMs: 1600000000000, Key: k, Value: v}
}

// genTxnLog builds a log of about n records with interleaved transactions of
// 1-4 producer ids, non-transactional records in between, aborted and
// committed outcomes, the same id aborting then committing, and possibly open
// transactions at the end (then the last stable offset is below the high watermark).
func genTxnLog(rng *rand.Rand, base int64, n int) ([]sarama.VRec, []sarama.VSimAborted, int64) {
	var log []sarama.VRec
	var aborted []sarama.VSimAborted
	npid := 1 + rng.Intn(4)
	// producer ids start at 0 on a fresh cluster; large ones occur too
	pidBase := []int64{0, 0, 9000, 1 << 40}[rng.Intn(4)]
	open := map[int64]int64{} // pid -> first offset
	seqs := map[int64]int32{}
	lastWasAbort := map[int64]bool{}
	off := func() int64 { return base + int64(len(log)) }
	// woven logs (one in three): an abort marker of one producer id is put directly between two
	// records of another id's open transaction, which is aborted later (overlapping aborted transactions)
	woven := rng.Intn(3) == 0
	forceAbort := map[int64]bool{}
	for len(log) < n {
		switch rng.Intn(10) {
		case 0, 1, 2: // non-transactional record
			r := sarama.VRec{PID: -1, Epoch: -1, Seq: -1, TsMs: 1600000000000 + int64(len(log)), Key: []byte(fmt.Sprintf("n%d", len(log))), Value: []byte(fmt.Sprintf("plain-%d", len(log)))}
			log = append(log, r)
		case 3, 4, 5, 6, 7: // transactional data
			pid := pidBase + int64(rng.Intn(npid))
			if _, ok := open[pid]; !ok {
				open[pid] = off()
			}
			k := 1 + rng.Intn(3)
			for i := 0; i < k; i++ {
				log = append(log, dataRec(pid, true, seqs[pid], fmt.Sprintf("%d-%d", pid, len(log))))
				seqs[pid]++
			}
		default: // end a transaction
			for pid, first := range open {
				commit := rng.Intn(2) == 0
				if lastWasAbort[pid] && rng.Intn(2) == 0 {
					commit = true // aborted, then committed by the same id
				}
				if forceAbort[pid] {
					commit = false
					delete(forceAbort, pid)
				}
				other := int64(-1)
				if woven && !commit {
					for q := range open {
						if q != pid {
							other = q
							break
						}
					}
				}
				if other >= 0 {
					log = append(log, dataRec(other, true, seqs[other], fmt.Sprintf("%d-%d", other, len(log))))
					seqs[other]++
					forceAbort[other] = true
				}
				m := markerRec(pid, commit)
				if !commit {
					aborted = append(aborted, sarama.VSimAborted{PID: pid, FirstOffset: first, LastOffset: off()})
				}
				lastWasAbort[pid] = !commit
				log = append(log, m)
				delete(open, pid)
				if other >= 0 {
					log = append(log, dataRec(other, true, seqs[other], fmt.Sprintf("%d-%d", other, len(log))))
					seqs[other]++
				}
				break
			}
		}
	}
	lso := int64(-1)
	if rng.Intn(3) == 0 && len(open) > 0 {
		// leave the remaining transactions open: LSO = first offset of the earliest open one
		for _, first := range open {
			if lso < 0 || first < lso {
				lso = first
			}
		}
	} else {
		for pid, first := range open {
			commit := rng.Intn(2) == 0
			if forceAbort[pid] {
				commit = false
			}
			if !commit {
				aborted = append(aborted, sarama.VSimAborted{PID: pid, FirstOffset: first, LastOffset: off()})
			}
			log = append(log, markerRec(pid, commit))
		}
	}
	// Kafka keeps the aborted index ordered by first offset
	for i := 1; i < len(aborted); i++ {
		for j := i; j > 0 && aborted[j].FirstOffset < aborted[j-1].FirstOffset; j-- {
			aborted[j], aborted[j-1] = aborted[j-1], aborted[j]
		}
	}
	return log, aborted, lso
}

func oracleC11(res *consResult, vs *violSet, attr func(string) string) {
	sc := res.sc
	// the consumer must move past trailing control / aborted records
	if res.stuck || len(vs.list) > 0 {
		return
	}
	for p := 0; p < sc.Parts; p++ {
		if len(res.got[p]) != len(res.expected[p]) {
			continue
		}
		stopped := false
		for i := 0; i < res.faultsUsed; i++ {
			if sc.Faults[i] == ffOutOfRange {
				stopped = true
			}
		}
		if stopped || res.closedEarly[p] {
			continue
		}
		maxOff := int64(-1)
		for _, f := range res.fetched {
			if int(f.Partition) == p && f.Offset > maxOff {
				maxOff = f.Offset
			}
		}
		if maxOff >= 0 && maxOff < res.limit[p] {
			what := "invisible"
			i := maxOff - sc.Base
			if i >= 0 && int(i) < len(sc.Logs[p]) {
				if sc.Logs[p][i].Control {
					what = "control"
				} else if sc.Logs[p][i].Transactional {
					what = "aborted"
				}
			}
			vs.add("stuck-behind-invisible", attr(what), fmt.Sprintf("partition %d: every visible record was delivered but the fetch offset stopped at %d (a %s record), below the end %d of what can be read", p, maxOff, what, res.limit[p]))
		}
	}
}

func c11NonTrivial(res *consResult) bool {
	sc := res.sc
	for p := 0; p < sc.Parts; p++ {
		for _, f := range res.fetched {
			if int(f.Partition) != p {
				continue
			}
			for _, a := range sc.Aborted[p] {
				if f.Offset > a.FirstOffset && f.Offset <= a.LastOffset {
					return true
				}
			}
		}
		seen := map[int64]int{}
		for _, a := range sc.Aborted[p] {
			seen[a.PID]++
		}
		for _, r := range sc.Logs[p] {
			if r.Control && r.ControlType == 1 && seen[r.PID] > 0 {
				return true
			}
		}
	}
	return false
}

// ---------------------------------------------------------------- enumerated cores

type consCore struct {
	kind  string // cut | start | txn
	magic int8
	codec int8
	k     int
	pat   int
	batch int
	rc    bool
}

func consCores(prop, tier string) []consCore {
	var out []consCore
	switch prop {
	case "C03":
		step := 3
		codecs := []int8{0}
		if tier == "thorough" {
			step = 1
			codecs = []int8{0, 1}
		}
		for _, m := range []int8{0, 1, 2} {
			for _, c := range codecs {
				for k := 1; k < 420; k += step {
					out = append(out, consCore{kind: "cut", magic: m, codec: c, k: k})
				}
			}
			for s := 0; s <= 10; s++ {
				out = append(out, consCore{kind: "start", magic: m, k: s})
			}
		}
		// a record that needs the fetch size to grow up to a limit that is not on the doubling ladder
		for _, m := range []int8{0, 1, 2} {
			for v := 0; v < 6; v++ {
				out = append(out, consCore{kind: "fetchmax", magic: m, k: v})
			}
		}
		// several partitions share one broker: every fault letter at the 2nd and the 4th fetch
		for f := 1; f < nFetchFaults; f++ {
			poss := []int{1, 3}
			if f == ffNoLeader {
				poss = []int{1, 2, 3, 4, 5, 6, 8} // the position also decides how long the partition stays leaderless
			}
			for _, pos := range poss {
				for _, parts := range []int{2, 3} {
					out = append(out, consCore{kind: "shared", k: f, pat: pos, batch: parts})
				}
			}
		}
	case "C11":
		for pat := 0; pat < 6; pat++ {
			for s := 0; s <= 14; s++ {
				for _, b := range []int{1, 3} {
					for _, rc := range []bool{true, false} {
						if !rc && b == 3 {
							continue
						}
						out = append(out, consCore{kind: "txn", pat: pat, k: s, batch: b, rc: rc})
					}
				}
			}
		}
	}
	return out
}

func consCoreCount(prop, tier string) int { return len(consCores(prop, tier)) }

func consCoreScenario(prop, tier string, idx int) *consScenario {
	c := consCores(prop, tier)[idx]
	rng := rand.New(rand.NewSource(int64(idx)*7919 + 17))
	sc := &consScenario{Brokers: 1, Parts: 1, Base: 500, Version: sarama.V2_1_0_0, Magic: c.magic, Codec: c.codec, ChanBuf: 1, Pace: "prompt", MaxBatches: 2}
	switch c.kind {
	case "cut":
		// 8 records in two batches of 4; the first answer is cut after k bytes, later answers are whole
		lg := genPlainLog(rng, 8, 0)
		for i := range lg {
			lg[i].Value = []byte(fmt.Sprintf("value-%d-%s", i, randBytes(rng, 10+i)))
			lg[i].Offset = sc.Base + int64(i)
		}
		sc.Logs = [][]sarama.VRec{lg}
		sc.BatchSizes = []int{4}
		sc.Faults = []int{ffPartial}
		sc.FaultCodes = []sarama.KError{0}
		sc.CutFrac = []float64{float64(c.k-20) / 200}
		sc.StartKind, sc.StartOff = []string{"oldest"}, []int64{0}
		if c.magic < 2 {
			sc.Version = sarama.V0_10_2_0
			if c.magic == 0 {
				sc.Version = sarama.V0_9_0_0
			}
		}
	case "fetchmax":
		shapes := [][3]int{{1000, 3000, 2200}, {512, 1500, 1200}, {256, 1000, 700}, {300, 2000, 1500}, {64, 1000, 900}, {1000, 2500, 2300}}
		sh := shapes[c.k]
		lg := genPlainLog(rng, 6, 0)
		for i := range lg {
			lg[i].Value = []byte(fmt.Sprintf("value-%d-%s", i, randBytes(rng, 10)))
			lg[i].Headers = nil
			lg[i].Offset = sc.Base + int64(i)
		}
		lg[2].Value = append([]byte("big-"), randBytes(rng, sh[2])...)
		sc.Logs = [][]sarama.VRec{lg}
		sc.BatchSizes = []int{1}
		sc.MaxBatches = 3
		sc.HonourMax = true
		sc.FetchDefault, sc.FetchMax = int32(sh[0]), int32(sh[1])
		sc.StartKind, sc.StartOff = []string{"oldest"}, []int64{0}
		if c.magic < 2 {
			sc.Version = sarama.V0_10_2_0
			if c.magic == 0 {
				sc.Version = sarama.V0_9_0_0
			}
		}
	case "shared":
		sc.Parts = c.batch
		sc.BatchSizes = []int{3}
		sc.MaxBatches = 1
		for p := 0; p < sc.Parts; p++ {
			lg := genPlainLog(rng, 400, p*1000) // long enough for the other partitions to be still reading when a fault has played out
			for i := range lg {
				lg[i].Offset = sc.Base + int64(i)
			}
			sc.Logs = append(sc.Logs, lg)
			sc.StartKind, sc.StartOff = append(sc.StartKind, "oldest"), append(sc.StartOff, 0)
			sc.Later = append(sc.Later, nil)
			sc.Aborted = append(sc.Aborted, nil)
			sc.LSO = append(sc.LSO, -1)
		}
		for i := 0; i < c.pat; i++ {
			sc.Faults = append(sc.Faults, ffOk)
			sc.FaultCodes = append(sc.FaultCodes, 0)
			sc.CutFrac = append(sc.CutFrac, 0.5)
		}
		sc.Faults = append(sc.Faults, c.k)
		code := sarama.ErrNoError
		switch c.k {
		case ffRedispatch:
			code = sarama.ErrNotLeaderForPartition
		case ffOtherCode:
			code = sarama.ErrRequestTimedOut
		}
		sc.FaultCodes = append(sc.FaultCodes, code)
		sc.CutFrac = append(sc.CutFrac, 0.5)
	case "start":
		lg := genPlainLog(rng, 10, 0)
		for i := range lg {
			lg[i].Offset = sc.Base + int64(i)
		}
		sc.Logs = [][]sarama.VRec{lg}
		sc.AlignTo = 4
		sc.StartKind, sc.StartOff = []string{"literal"}, []int64{sc.Base + int64(c.k)}
		if c.magic < 2 {
			sc.Version = sarama.V0_10_2_0
			if c.magic == 0 {
				sc.Version = sarama.V0_9_0_0
			}
			if c.magic == 1 {
				sc.Codec = 1 // compressed wrapper with relative offsets, starting before S
			}
		}
	case "txn":
		sc.Magic = 2
		sc.Transactional = true
		sc.Committed = c.rc
		sc.BatchSizes = []int{c.batch}
		sc.MaxBatches = 2
		var lg []sarama.VRec
		var ab []sarama.VSimAborted
		a, b := int64(9001), int64(9002)
		if idx%3 == 0 {
			a, b = 0, 1 // the first producer ids a cluster hands out
		}
		add := func(r sarama.VRec) int64 { lg = append(lg, r); return sc.Base + int64(len(lg)-1) }
		plain := func(t string) sarama.VRec {
			return sarama.VRec{PID: -1, Epoch: -1, Seq: -1, TsMs: 1600000000000, Key: []byte("p" + t), Value: []byte("plain" + t)}
		}
		switch c.pat {
		case 0: // aborted then committed by the same id, plain records around
			add(plain("0"))
			f := add(dataRec(a, true, 0, "a0"))
			add(dataRec(a, true, 1, "a1"))
			add(plain("1"))
			l := add(markerRec(a, false))
			ab = append(ab, sarama.VSimAborted{PID: a, FirstOffset: f, LastOffset: l})
			add(dataRec(a, true, 2, "a2"))
			add(dataRec(a, true, 3, "a3"))
			add(markerRec(a, true))
			add(plain("2"))
		case 1: // overlapping: A aborted, B committed
			fa := add(dataRec(a, true, 0, "a0"))
			add(dataRec(b, true, 0, "b0"))
			add(dataRec(a, true, 1, "a1"))
			add(dataRec(b, true, 1, "b1"))
			la := add(markerRec(a, false))
			ab = append(ab, sarama.VSimAborted{PID: a, FirstOffset: fa, LastOffset: la})
			add(dataRec(b, true, 2, "b2"))
			add(markerRec(b, true))
			add(plain("0"))
		case 2: // two aborted transactions back to back by the same id
			f := add(dataRec(a, true, 0, "a0"))
			l := add(markerRec(a, false))
			ab = append(ab, sarama.VSimAborted{PID: a, FirstOffset: f, LastOffset: l})
			add(plain("0"))
			f = add(dataRec(a, true, 1, "a1"))
			add(dataRec(a, true, 2, "a2"))
			l = add(markerRec(a, false))
			ab = append(ab, sarama.VSimAborted{PID: a, FirstOffset: f, LastOffset: l})
			add(dataRec(b, true, 0, "b0"))
			add(markerRec(b, true))
		case 3: // both aborted, overlapping, markers in the other order
			fa := add(dataRec(a, true, 0, "a0"))
			fb := add(dataRec(b, true, 0, "b0"))
			add(dataRec(a, true, 1, "a1"))
			lb := add(markerRec(b, false))
			add(dataRec(a, true, 2, "a2"))
			la := add(markerRec(a, false))
			ab = append(ab, sarama.VSimAborted{PID: a, FirstOffset: fa, LastOffset: la}, sarama.VSimAborted{PID: b, FirstOffset: fb, LastOffset: lb})
			add(plain("0"))
			add(dataRec(b, true, 1, "b1"))
			add(markerRec(b, true))
		case 4, 5: // three (pat 4) / four (pat 5) aborted transactions of different ids staggered inside one fetch: the index has many orders
			ids := []int64{9001, 9002, 9003, 9004}[:c.pat-1]
			firsts := make([]int64, len(ids))
			add(plain("0"))
			for i, id := range ids {
				firsts[i] = add(dataRec(id, true, 0, fmt.Sprintf("x%d-0", i)))
				add(plain(fmt.Sprintf("s%d", i)))
			}
			for i, id := range ids {
				add(dataRec(id, true, 1, fmt.Sprintf("x%d-1", i)))
				l := add(markerRec(id, false))
				ab = append(ab, sarama.VSimAborted{PID: id, FirstOffset: firsts[i], LastOffset: l})
			}
			add(plain("9"))
			add(dataRec(ids[0], true, 2, "x0-2"))
			add(markerRec(ids[0], true))
		}
		if c.pat >= 4 {
			sc.MaxBatches = 12 // the whole staggered region in one answer
		}
		for i := range lg {
			lg[i].Offset = sc.Base + int64(i)
		}
		sc.Logs = [][]sarama.VRec{lg}
		sc.Aborted = [][]sarama.VSimAborted{ab}
		sc.LSO = []int64{-1}
		s := c.k
		if s > len(lg) {
			s = len(lg)
		}
		sc.StartKind, sc.StartOff = []string{"literal"}, []int64{sc.Base + int64(s)}
		sc.ShuffleAborted = idx%2 == 0 || c.pat >= 4
		sc.AbortedBeyond = []int64{0, 4, 1000}[idx%3]
	}
	if sc.Aborted == nil {
		sc.Aborted = [][]sarama.VSimAborted{nil}
		sc.LSO = []int64{-1}
	}
	if len(sc.Later) != sc.Parts {
		sc.Later = make([][]sarama.VRec, sc.Parts)
	}
	return sc
}
