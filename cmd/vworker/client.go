package main

// Engine "client": C15 (client metadata answers reflect the latest cluster
// metadata; refresh succeeds whenever one seed or known broker answers).
//
// Events: the metadata responses served by the simulated cluster (each with a
// version), the order in which the client applied them (hook cl.applied, fired
// inside the client's write lock), the brokers the client deregistered after a
// failed request (its own log line, also written inside the write lock), and
// every API read with the event count sampled before and after the call.
// Oracle: a reference fold written from the statement maps every prefix of
// that event sequence to the expected answer of every API; a read must equal
// the fold of some prefix inside its window.

import (
	"fmt"
	"math/rand"
	"sort"
	"strings"
	"sync"
	"sync/atomic"

	"github.com/Shopify/sarama"

	"verifharness/internal/proto"
)

func init() { engines["client"] = &clientEngine{} }

type clientEngine struct{}

// ---------------------------------------------------------------- recorder

type cliEvent struct {
	Kind string // applied | dereg
	Ver  int64  // applied: version of the response
	ID   int32  // dereg: broker id
	Addr string
	Seq  int64
}

// cliRecorder holds the state-changing events of one client in the order the
// client made them (both sources fire while the client holds its write lock).
type cliRecorder struct {
	mu        sync.Mutex
	evs       []cliEvent
	n         int64 // == len(evs), read by readers without the mutex
	noVer     int64 // applied events whose version tag could not be read
	fetchErrs int64 // "client/metadata got error from broker …" lines: a broker was tried and failed
}

func (r *cliRecorder) add(ev cliEvent) {
	r.mu.Lock()
	ev.Seq = sarama.VerifNextSeq()
	r.evs = append(r.evs, ev)
	atomic.StoreInt64(&r.n, int64(len(r.evs)))
	r.mu.Unlock()
}

func (r *cliRecorder) count() int64 { return atomic.LoadInt64(&r.n) }

func (r *cliRecorder) events() []cliEvent {
	r.mu.Lock()
	defer r.mu.Unlock()
	return append([]cliEvent(nil), r.evs...)
}

type cliRecHolder struct{ r *cliRecorder }

var curCliRec atomic.Value // cliRecHolder
var cliLoggerOnce sync.Once

// cliLogger sits in front of the library's logger: the client announces every
// broker it deregisters ("client/brokers deregistered broker #%d at %s") from
// inside its write lock, which orders these events with the applied responses.
type cliLogger struct{ next sarama.StdLogger }

func (l *cliLogger) Print(v ...interface{})   { l.next.Print(v...) }
func (l *cliLogger) Println(v ...interface{}) { l.next.Println(v...) }
func (l *cliLogger) Printf(format string, v ...interface{}) {
	if strings.HasPrefix(format, "client/brokers deregistered broker #%d at %s") && len(v) >= 2 {
		if h, ok := curCliRec.Load().(cliRecHolder); ok && h.r != nil {
			id, _ := v[0].(int32)
			addr, _ := v[1].(string)
			h.r.add(cliEvent{Kind: "dereg", ID: id, Addr: addr})
		}
	}
	if strings.HasPrefix(format, "client/metadata got error from broker") {
		if h, ok := curCliRec.Load().(cliRecHolder); ok && h.r != nil {
			atomic.AddInt64(&h.r.fetchErrs, 1)
		}
	}
	l.next.Printf(format, v...)
}

func newCliRecorder(sink *hookSink) *cliRecorder {
	cliLoggerOnce.Do(func() { sarama.Logger = &cliLogger{next: sarama.Logger} })
	r := &cliRecorder{}
	curCliRec.Store(cliRecHolder{r})
	sink.onEvent = func(ev *hookEv) {
		if ev.Point != "cl.applied" {
			return
		}
		ver := sarama.VerifMetaVersion(ev.Arg)
		if ver == 0 {
			atomic.AddInt64(&r.noVer, 1)
		}
		r.add(cliEvent{Kind: "applied", Ver: ver})
	}
	return r
}

func (r *cliRecorder) retire() { curCliRec.Store(cliRecHolder{nil}) }

// ---------------------------------------------------------------- reference fold

// cliState is the fold of a prefix of events: what every API has to answer.
type cliState struct {
	brokers    map[int32]string
	controller int32
	topics     map[string]map[int32]sarama.VSimPartSnap
	ver        int64 // newest applied version
}

func (st *cliState) key() string {
	var b strings.Builder
	ids := make([]int, 0, len(st.brokers))
	for id := range st.brokers {
		ids = append(ids, int(id))
	}
	sort.Ints(ids)
	for _, id := range ids {
		fmt.Fprintf(&b, "b%d@%s;", id, st.brokers[int32(id)])
	}
	fmt.Fprintf(&b, "c%d;", st.controller)
	names := make([]string, 0, len(st.topics))
	for t := range st.topics {
		names = append(names, t)
	}
	sort.Strings(names)
	for _, t := range names {
		ps := st.topics[t]
		pids := make([]int, 0, len(ps))
		for p := range ps {
			pids = append(pids, int(p))
		}
		sort.Ints(pids)
		fmt.Fprintf(&b, "%s{", t)
		for _, p := range pids {
			s := ps[int32(p)]
			fmt.Fprintf(&b, "%d:%d,%v,%v,%v,%d;", p, s.Leader, s.Replicas, s.Isr, s.Offline, s.Err)
		}
		b.WriteString("}")
	}
	return b.String()
}

// cliTopicKept says what the statement's "forgotten or kept exactly as their
// error class requires" means for a topic-level error code: no error and
// LEADER_NOT_AVAILABLE keep the partitions of the response, every other class
// (invalid topic, authorization failed, unknown topic, unexpected) forgets the topic.
func cliTopicKept(code int16) bool {
	return sarama.KError(code) == sarama.ErrNoError || sarama.KError(code) == sarama.ErrLeaderNotAvailable
}

// cliFold returns the states after 0, 1, … len(evs) events.
func cliFold(evs []cliEvent, snaps map[int64]sarama.VSimMetaSnapshot) (states []*cliState, missing int) {
	cur := &cliState{brokers: map[int32]string{}, controller: -1, topics: map[string]map[int32]sarama.VSimPartSnap{}}
	states = append(states, cur)
	for _, ev := range evs {
		next := &cliState{controller: cur.controller, ver: cur.ver}
		switch ev.Kind {
		case "dereg":
			next.topics = cur.topics
			next.brokers = map[int32]string{}
			for id, a := range cur.brokers {
				if id != ev.ID {
					next.brokers[id] = a
				}
			}
		case "applied":
			sn, ok := snaps[ev.Ver]
			if !ok {
				missing++
				next.brokers, next.topics = cur.brokers, cur.topics
				break
			}
			next.ver = sn.Ver
			next.controller = sn.Controller
			next.brokers = map[int32]string{}
			for id, a := range sn.Brokers {
				next.brokers[id] = a
			}
			next.topics = map[string]map[int32]sarama.VSimPartSnap{}
			if !sn.Full {
				for t, ps := range cur.topics {
					next.topics[t] = ps
				}
			}
			for t, ts := range sn.Topics {
				delete(next.topics, t)
				if cliTopicKept(ts.Err) {
					ps := map[int32]sarama.VSimPartSnap{}
					for p, s := range ts.Parts {
						ps[p] = s
					}
					next.topics[t] = ps
				}
			}
		}
		states = append(states, next)
		cur = next
	}
	return states, missing
}

// ---------------------------------------------------------------- reads

const (
	apiPartitions = iota
	apiWritable
	apiLeader
	apiReplicas
	apiISR
	apiOffline
	apiTopics
	apiBrokers
	apiBroker
	apiController
	nCliAPIs
)

var cliAPINames = []string{"Partitions", "WritablePartitions", "Leader", "Replicas", "InSyncReplicas", "OfflineReplicas", "Topics", "Brokers", "Broker", "Controller"}

type cliRead struct {
	api       int
	topic     string
	id        int32 // partition id or broker id
	a, b      int64 // event count before the call / after it returned
	ints      []int32
	strs      []string
	hasBroker bool
	bid       int32
	addr      string
	bmap      map[int32]string
	err       error
	who       int // reader index, -1 = the history's own goroutine
	step      int
}

func (r *cliRead) String() string {
	arg := ""
	switch r.api {
	case apiPartitions, apiWritable:
		arg = r.topic
	case apiLeader, apiReplicas, apiISR, apiOffline:
		arg = fmt.Sprintf("%s,%d", r.topic, r.id)
	case apiBroker:
		arg = fmt.Sprint(r.id)
	}
	res := ""
	switch r.api {
	case apiPartitions, apiWritable, apiReplicas, apiISR, apiOffline:
		res = fmt.Sprint(r.ints)
	case apiTopics:
		res = fmt.Sprint(r.strs)
	case apiBrokers:
		res = fmt.Sprint(r.bmap)
	default:
		if r.hasBroker {
			res = fmt.Sprintf("broker %d@%s", r.bid, r.addr)
		} else {
			res = "no broker"
		}
	}
	return fmt.Sprintf("%s(%s) = %s, err=%v [events before=%d after=%d, step %d, reader %d]", cliAPINames[r.api], arg, res, r.err, r.a, r.b, r.step, r.who)
}

func cliDoRead(cl sarama.Client, rec *cliRecorder, api int, topic string, id int32) cliRead {
	r := cliRead{api: api, topic: topic, id: id}
	r.a = rec.count()
	switch api {
	case apiPartitions:
		r.ints, r.err = cl.Partitions(topic)
	case apiWritable:
		r.ints, r.err = cl.WritablePartitions(topic)
	case apiLeader:
		b, err := cl.Leader(topic, id)
		r.err = err
		if b != nil {
			r.hasBroker, r.bid, r.addr = true, b.ID(), b.Addr()
		}
	case apiReplicas:
		r.ints, r.err = cl.Replicas(topic, id)
	case apiISR:
		r.ints, r.err = cl.InSyncReplicas(topic, id)
	case apiOffline:
		r.ints, r.err = cl.OfflineReplicas(topic, id)
	case apiTopics:
		r.strs, r.err = cl.Topics()
	case apiBrokers:
		bs := cl.Brokers()
		r.bmap = map[int32]string{}
		for _, b := range bs {
			if _, dup := r.bmap[b.ID()]; dup {
				r.bmap[-1000-b.ID()] = b.Addr() // the same id twice can never match a fold
			}
			r.bmap[b.ID()] = b.Addr()
		}
	case apiBroker:
		b, err := cl.Broker(id)
		r.err = err
		if b != nil {
			r.hasBroker, r.bid, r.addr = true, b.ID(), b.Addr()
		}
	case apiController:
		b, err := cl.Controller()
		r.err = err
		if b != nil {
			r.hasBroker, r.bid, r.addr = true, b.ID(), b.Addr()
		}
	}
	r.b = rec.count()
	return r
}

func eqInt32s(a, b []int32) bool {
	if len(a) != len(b) {
		return false
	}
	for i := range a {
		if a[i] != b[i] {
			return false
		}
	}
	return true
}

func sortedPartIDs(ps map[int32]sarama.VSimPartSnap) []int32 {
	out := make([]int32, 0, len(ps))
	for p := range ps {
		out = append(out, p)
	}
	sort.Slice(out, func(i, j int) bool { return out[i] < out[j] })
	return out
}

// cliMatch compares one read with what a state demands. field names the first
// disagreement (used as attribution). grey counts partitions listed as writable
// whose leader the same state reports as not available without the response
// having flagged the partition (the statement is read leniently there).
func cliMatch(st *cliState, r *cliRead, metaV5 bool) (ok bool, field string) {
	if r.err == sarama.ErrClosedClient {
		return false, "closed-client"
	}
	lna := int16(sarama.ErrLeaderNotAvailable)
	switch r.api {
	case apiPartitions:
		ps, has := st.topics[r.topic]
		if !has {
			if r.err == nil {
				return false, "no-error-for-forgotten-topic"
			}
			return true, ""
		}
		exp := sortedPartIDs(ps)
		if len(exp) == 0 { // a topic without partitions: the statement is silent on error vs empty list
			return r.err != nil || len(r.ints) == 0, "ids"
		}
		if r.err != nil {
			return false, "err"
		}
		return eqInt32s(exp, r.ints), "ids"
	case apiWritable:
		ps, has := st.topics[r.topic]
		if !has {
			if r.err == nil {
				return false, "no-error-for-forgotten-topic"
			}
			return true, ""
		}
		if r.err != nil {
			// an empty cached list sends the call into a refresh whose error it returns;
			// with at least one partition that is not flagged leaderless the list is not empty
			for _, s := range ps {
				if s.Err != lna {
					return false, "err"
				}
			}
			// ... but a topic the newest response lists is not an unknown topic
			if len(ps) > 0 && r.err == sarama.ErrUnknownTopicOrPartition {
				return false, "unknown-topic-error-for-listed-topic"
			}
			return true, ""
		}
		seen := map[int32]bool{}
		for i, p := range r.ints {
			if i > 0 && r.ints[i-1] >= p {
				return false, "order"
			}
			s, known := ps[p]
			if !known {
				return false, "ids"
			}
			if s.Err == lna {
				return false, "lists-leaderless"
			}
			seen[p] = true
		}
		for p, s := range ps {
			if _, leaderKnown := st.brokers[s.Leader]; s.Err != lna && leaderKnown && !seen[p] {
				return false, "omits-writable"
			}
		}
		return true, ""
	case apiLeader:
		var s sarama.VSimPartSnap
		has := false
		if ps, ok := st.topics[r.topic]; ok {
			s, has = ps[r.id]
		}
		addr, known := st.brokers[s.Leader]
		if !has || s.Err == lna || !known {
			if r.hasBroker {
				return false, "broker-for-unavailable-leader"
			}
			if r.err == nil {
				return false, "err"
			}
			return true, ""
		}
		if r.err != nil {
			return false, "err"
		}
		if !r.hasBroker {
			return false, "broker"
		}
		if r.bid != s.Leader {
			return false, "broker-id"
		}
		if r.addr != addr {
			return false, "broker-addr"
		}
		return true, ""
	case apiReplicas, apiISR, apiOffline:
		var s sarama.VSimPartSnap
		has := false
		if ps, ok := st.topics[r.topic]; ok {
			s, has = ps[r.id]
		}
		if !has {
			if r.err == nil {
				return false, "no-error-for-unknown-partition"
			}
			return true, ""
		}
		if r.err != nil && r.err != sarama.KError(s.Err) {
			return false, "err"
		}
		exp := s.Replicas
		if r.api == apiISR {
			exp = s.Isr
		} else if r.api == apiOffline {
			exp = s.Offline
			if !metaV5 {
				exp = nil // the response format the client asked for does not carry them
			}
		}
		return eqInt32s(exp, r.ints), "list"
	case apiTopics:
		if r.err != nil {
			return false, "err"
		}
		if len(r.strs) != len(st.topics) {
			return false, "set"
		}
		seen := map[string]bool{}
		for _, t := range r.strs {
			if _, ok := st.topics[t]; !ok || seen[t] {
				return false, "set"
			}
			seen[t] = true
		}
		return true, ""
	case apiBrokers:
		if len(r.bmap) != len(st.brokers) {
			return false, "set"
		}
		for id, a := range r.bmap {
			if st.brokers[id] != a {
				return false, "set"
			}
		}
		return true, ""
	case apiBroker, apiController:
		id := r.id
		if r.api == apiController {
			id = st.controller
		}
		addr, known := st.brokers[id]
		if !known {
			if r.hasBroker {
				return false, "broker-for-unknown-id"
			}
			if r.err == nil {
				return false, "err"
			}
			return true, ""
		}
		if r.err != nil {
			return false, "err"
		}
		if !r.hasBroker {
			return false, "broker"
		}
		if r.bid != id {
			return false, "broker-id"
		}
		if r.addr != addr {
			return false, "broker-addr"
		}
		return true, ""
	}
	return false, "api"
}

// cliExpectList is the list a state demands for the list-valued APIs (nil, false = an error is demanded).
func cliExpectList(st *cliState, r *cliRead) ([]int32, bool) {
	ps, has := st.topics[r.topic]
	if !has {
		return nil, false
	}
	switch r.api {
	case apiPartitions:
		return sortedPartIDs(ps), true
	case apiWritable:
		var out []int32
		for _, p := range sortedPartIDs(ps) {
			if ps[p].Err != int16(sarama.ErrLeaderNotAvailable) {
				out = append(out, p)
			}
		}
		return out, true
	}
	s, ok := ps[r.id]
	if !ok {
		return nil, false
	}
	switch r.api {
	case apiReplicas:
		return s.Replicas, true
	case apiISR:
		return s.Isr, true
	case apiOffline:
		return s.Offline, true
	}
	return nil, false
}

// cliIsMixture: no single state of the window explains the read, but every
// component of the answer is found in some state of the window.
func cliIsMixture(states []*cliState, r *cliRead) bool {
	if r.a >= r.b || r.err != nil {
		return false
	}
	win := states[r.a : r.b+1]
	switch r.api {
	case apiPartitions, apiWritable, apiReplicas, apiISR, apiOffline:
		if len(r.ints) == 0 {
			return false
		}
		for _, x := range r.ints {
			found := false
			for _, st := range win {
				if l, ok := cliExpectList(st, r); ok {
					for _, y := range l {
						if x == y {
							found = true
						}
					}
				}
			}
			if !found {
				return false
			}
		}
		return true
	case apiTopics:
		for _, t := range r.strs {
			found := false
			for _, st := range win {
				if _, ok := st.topics[t]; ok {
					found = true
				}
			}
			if !found {
				return false
			}
		}
		return len(r.strs) > 0
	case apiBrokers:
		for id, a := range r.bmap {
			found := false
			for _, st := range win {
				if st.brokers[id] == a {
					found = true
				}
			}
			if !found {
				return false
			}
		}
		return len(r.bmap) > 0
	case apiLeader:
		if !r.hasBroker {
			return false
		}
		idOK, addrOK := false, false
		for _, st := range win {
			if ps, ok := st.topics[r.topic]; ok {
				if s, ok := ps[r.id]; ok && s.Leader == r.bid {
					idOK = true
				}
			}
			if st.brokers[r.bid] == r.addr {
				addrOK = true
			}
		}
		return idOK && addrOK
	case apiController:
		if !r.hasBroker {
			return false
		}
		idOK, addrOK := false, false
		for _, st := range win {
			if st.controller == r.bid {
				idOK = true
			}
			if st.brokers[r.bid] == r.addr {
				addrOK = true
			}
		}
		return idOK && addrOK
	}
	return false
}

type cliJudgeStats struct {
	reads, overlapped, byLaterState, errReads, brokerReads, greyWritable, unknownLeaderNA int64
}

// cliJudgeReads applies the before-or-after clause to every read.
func cliJudgeReads(states []*cliState, reads []cliRead, metaV5 bool, vs *violSet, stats *cliJudgeStats) {
	last := int64(len(states) - 1)
	for i := range reads {
		r := &reads[i]
		stats.reads++
		if r.b > last {
			r.b = last
		}
		if r.a > r.b {
			r.a = r.b
		}
		if r.a < r.b {
			stats.overlapped++
		}
		if r.err != nil {
			stats.errReads++
		}
		if r.hasBroker {
			stats.brokerReads++
		}
		matched := int64(-1)
		for k := r.a; k <= r.b; k++ {
			if ok, _ := cliMatch(states[k], r, metaV5); ok {
				matched = k
				break
			}
		}
		if matched >= 0 {
			if matched > r.a {
				stats.byLaterState++
			}
			st := states[matched]
			switch r.api {
			case apiWritable:
				if ps, ok := st.topics[r.topic]; ok {
					for _, p := range r.ints {
						if _, known := st.brokers[ps[p].Leader]; !known {
							stats.greyWritable++
						}
					}
				}
			case apiLeader:
				if ps, ok := st.topics[r.topic]; ok {
					if s, ok := ps[r.id]; ok && s.Err != int16(sarama.ErrLeaderNotAvailable) {
						if _, known := st.brokers[s.Leader]; !known {
							stats.unknownLeaderNA++
						}
					}
				}
			}
			continue
		}
		api := cliAPINames[r.api]
		stale, future := int64(-1), int64(-1)
		for k := r.a - 1; k >= 0; k-- {
			if ok, _ := cliMatch(states[k], r, metaV5); ok {
				stale = k
				break
			}
		}
		for k := r.b + 1; k <= last; k++ {
			if ok, _ := cliMatch(states[k], r, metaV5); ok {
				future = k
				break
			}
		}
		// a broker object that no state of the window contains, and no later one either:
		// an address or a broker the newest responses have replaced or dropped
		if r.hasBroker {
			inWindow, otherAddr, later := false, false, false
			for k := r.a; k <= last; k++ {
				a, ok := states[k].brokers[r.bid]
				switch {
				case ok && a == r.addr && k <= r.b:
					inWindow = true
				case ok && a == r.addr:
					later = true
				case ok && k <= r.b:
					otherAddr = true
				}
			}
			if !inWindow && !later {
				attr := api + ":dropped-broker"
				if otherAddr {
					attr = api + ":old-address"
				}
				vs.add("stale-broker", attr, fmt.Sprintf("%s; state at the end of the window: %s", r, states[r.b].key()))
				continue
			}
		}
		if stale < 0 && future >= 0 {
			// the answer of a state whose event had not been recorded yet when the call
			// returned: the reader saw a response that was only partly applied
			vs.add("mixture", api, fmt.Sprintf("%s equals the state after %d events: the reader saw part of a response before the client had finished applying it; state at the end of the window: %s", r, future, states[r.b].key()))
			continue
		}
		_, field := cliMatch(states[r.b], r, metaV5)
		switch {
		case stale >= 0:
			vs.add("stale-after-refresh", api, fmt.Sprintf("%s equals the state after %d events, not any state of its window; state at the end of the window: %s", r, stale, states[r.b].key()))
		case field == "closed-client":
			vs.add("spurious-error", api, fmt.Sprintf("%s on an open client", r))
		case cliIsMixture(states, r):
			vs.add("mixture", api, fmt.Sprintf("%s: every component occurs in some state of the window but no single state gives this answer; window states: %s … %s", r, states[r.a].key(), states[r.b].key()))
		case r.err != nil && (field == "err"):
			vs.add("spurious-error", api, fmt.Sprintf("%s; state at the end of the window: %s", r, states[r.b].key()))
		default:
			vs.add("wrong-answer", api+":"+field, fmt.Sprintf("%s; state at the end of the window: %s", r, states[r.b].key()))
		}
	}
}

// ---------------------------------------------------------------- case list

func cliHistCount(tier string) int {
	if tier == "thorough" {
		return 5000
	}
	return 200
}

func cliReachRandCount(tier string) int {
	if tier == "thorough" {
		return 1500
	}
	return 60
}

func (e *clientEngine) Count(prop, tier string, seed int64) int {
	return len(cliReachCore()) + cliHistCount(tier) + cliReachRandCount(tier)
}

func (e *clientEngine) Run(prop, tier string, seed int64, idx int) proto.Rec {
	core := cliReachCore()
	if idx < len(core) {
		rec := runCliReachCase(core[idx])
		rec.ID = fmt.Sprintf("%s/%s/core/%d:%s", prop, tier, idx, core[idx].Name)
		return rec
	}
	idx2 := idx - len(core)
	if idx2 < cliHistCount(tier) {
		rng := rand.New(rand.NewSource(proto.SubSeed(seed, idx, "clienthist")))
		sc := cliGenHistory(rng, tier)
		rec := runCliHistory(sc, rand.New(rand.NewSource(proto.SubSeed(seed, idx, "clientrun"))))
		rec.ID = fmt.Sprintf("%s/%s/%d/%d:history", prop, tier, seed, idx)
		return rec
	}
	rng := rand.New(rand.NewSource(proto.SubSeed(seed, idx, "clientreach")))
	rc := cliGenReach(rng)
	rec := runCliReachCase(rc)
	rec.ID = fmt.Sprintf("%s/%s/%d/%d:reach", prop, tier, seed, idx)
	return rec
}
