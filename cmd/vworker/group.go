package main

// Engine "group": C07. Real ConsumerGroup members (each with its own client)
// against the simulated group coordinator. A trace automaton per Consume call
// checks the session life-cycle; coordinator-side events check identities,
// start offsets and the final commit; deliveries across sessions check that
// nothing is skipped.

import (
	"context"
	"fmt"
	"math/rand"
	"sort"
	"strings"
	"sync"
	"sync/atomic"
	"time"

	"github.com/Shopify/sarama"

	"verifharness/internal/proto"
)

func init() { engines["group"] = &groupEngine{} }

type groupEngine struct{}

const (
	gOk = iota
	gRebalance
	gUnknownMember
	gIllegalGen
	gNotCoord
	gDrop
	nGroupFaults
)

var gNames = []string{"ok", "rebalance-in-progress", "unknown-member", "illegal-generation", "not-coordinator", "drop"}
var gKinds = []string{"find-coordinator", "join", "sync", "heartbeat", "commit", "leave", "offset-fetch"}

type cgMember struct {
	Behaviour  string // all | prefix | return-after-k | block | setup-error | cancel-after-k
	K          int
	JoinAfter  int  // start once this many messages were delivered group-wide
	CloseAfter int  // Close() the group after this many deliveries to this member (-1 never)
	CloseIdle  bool // Close() the group from another goroutine while a session without any claim is running
	MaxCalls   int
}

type cgScenario struct {
	Brokers  int
	Topics   []string
	Parts    int
	LogN     int
	Strategy string
	Members  []cgMember
	Faults   map[string][]int
	Stored   map[string]int64 // "topic/part" -> committed offset before the run
	// "topic/part" -> how many ListOffsets answers for that partition fail (NOT_LEADER): two make one
	// offset lookup fail, so the first attempt to start a claim on it fails
	ClaimStartFails map[string]int
	// LeaderlessAtPlan: "topic/partition" that has no leader from the start until the first SyncGroup of the
	// run has been answered (the group leader computes its plan while the partition is leaderless)
	LeaderlessAtPlan string
	// GrowBetweenSessions: when the first Consume call of member 0 has returned, the first topic gains a
	// partition (no background refresh is configured: the next Consume has to look)
	GrowBetweenSessions bool
	Retention       time.Duration // Consumer.Offsets.Retention (> 0: commits are sent as OffsetCommit v2 with a retention time)
	Oldest          bool
	Auto            bool
}

func (sc *cgScenario) describe() map[string]interface{} {
	fw := map[string][]string{}
	for k, w := range sc.Faults {
		for _, f := range w {
			fw[k] = append(fw[k], gNames[f])
		}
	}
	return map[string]interface{}{"brokers": sc.Brokers, "topics": sc.Topics, "partitions": sc.Parts, "records_per_partition": sc.LogN, "strategy": sc.Strategy,
		"members": sc.Members, "faults": fw, "stored": sc.Stored, "initial_oldest": sc.Oldest, "auto_commit": sc.Auto}
}

type cgEv struct {
	Seq      int64
	Member   int
	Call     int
	Kind     string // consume-call consume-ret setup setup-ret claim-start msg mark claim-ret cleanup cleanup-ret close-call close-ret cancel
	MemberID string
	Gen      int32
	Topic    string
	Part     int32
	Off      int64
	Err      string
	Claims   map[string][]int32
	CtxDone  bool
}

type cgResult struct {
	listOffsetsFailed int64 // ListOffsets answers turned into NOT_LEADER (ClaimStartFails)
	grownSeq          int64 // stamp at which the first topic gained a partition (GrowBetweenSessions; 0 = not yet)
	sc                *cgScenario
	newErr            error
	events            []cgEv
	group             []sarama.VSimGroupEvent
	fetched           []sarama.VSimFetched
	hooks             []hookEv
	stuck             bool
	stuckWho          []string
	inconcl           string
	logEnd            int64
	closeLivelock     bool
	faultsUsed        map[string]int
	stored            map[string]int64
}

type offMap struct {
	mu sync.Mutex
	m  map[string]int64
}

func (o *offMap) set(k string, v int64) {
	o.mu.Lock()
	if o.m == nil {
		o.m = map[string]int64{}
	}
	if v > o.m[k] {
		o.m[k] = v
	}
	o.mu.Unlock()
}

func (o *offMap) snapshot() map[string]int64 {
	o.mu.Lock()
	defer o.mu.Unlock()
	out := map[string]int64{}
	for k, v := range o.m {
		out[k] = v
	}
	return out
}

type cgHandler struct {
	lastSeen      sync.Map // session key -> *offMap
	res           *cgResult
	mu            *sync.Mutex
	member        int
	spec          cgMember
	call          *int32
	cancel        *atomic.Value // func()
	total         *int64        // group-wide deliveries
	mine          *int64
	logEnd        int64
	setupErrDone  *int32
	sessDelivered *sync.Map // per session: partitions fully read
	closeGroup    func()
}

func (h *cgHandler) log(ev cgEv) {
	ev.Seq = sarama.VerifNextSeq()
	ev.Member = h.member
	ev.Call = int(atomic.LoadInt32(h.call))
	h.mu.Lock()
	h.res.events = append(h.res.events, ev)
	h.mu.Unlock()
}

func (h *cgHandler) Setup(s sarama.ConsumerGroupSession) error {
	claims := map[string][]int32{}
	for t, ps := range s.Claims() {
		claims[t] = append([]int32(nil), ps...)
	}
	h.log(cgEv{Kind: "setup", MemberID: s.MemberID(), Gen: s.GenerationID(), Claims: claims})
	nclaims := 0
	for _, ps := range claims {
		nclaims += len(ps)
	}
	if nclaims == 0 {
		if h.spec.CloseIdle {
			go func() {
				time.Sleep(5 * time.Millisecond)
				h.closeGroup()
			}()
		} else {
			// driver-side idle timer (workload only): a session without claims is ended after a while
			cancel, _ := h.cancel.Load().(func())
			time.AfterFunc(300*time.Millisecond, func() {
				if cancel != nil {
					cancel()
				}
			})
		}
	}
	var err error
	if h.spec.Behaviour == "setup-error" && atomic.CompareAndSwapInt32(h.setupErrDone, 0, 1) {
		err = fmt.Errorf("scripted setup error")
	}
	e := ""
	if err != nil {
		e = err.Error()
	}
	h.log(cgEv{Kind: "setup-ret", MemberID: s.MemberID(), Gen: s.GenerationID(), Err: e})
	return err
}

func (h *cgHandler) Cleanup(s sarama.ConsumerGroupSession) error {
	h.log(cgEv{Kind: "cleanup", MemberID: s.MemberID(), Gen: s.GenerationID(), CtxDone: s.Context().Err() != nil})
	if h.spec.Behaviour == "block" || h.spec.Behaviour == "prefix" {
		// offsets marked during Cleanup must still be part of the final commit
		key := fmt.Sprintf("%s/%d", s.MemberID(), s.GenerationID())
		if v, ok := h.lastSeen.Load(key); ok {
			for tp, off := range v.(*offMap).snapshot() {
				var t string
				var p int32
				if i := strings.LastIndex(tp, "/"); i > 0 {
					t = tp[:i]
					fmt.Sscanf(tp[i+1:], "%d", &p)
				}
				s.MarkOffset(t, p, off+1, "")
				h.log(cgEv{Kind: "mark", MemberID: s.MemberID(), Gen: s.GenerationID(), Topic: t, Part: p, Off: off + 1})
			}
		}
	}
	h.log(cgEv{Kind: "cleanup-ret", MemberID: s.MemberID(), Gen: s.GenerationID()})
	return nil
}

func (h *cgHandler) ConsumeClaim(s sarama.ConsumerGroupSession, c sarama.ConsumerGroupClaim) error {
	h.log(cgEv{Kind: "claim-start", MemberID: s.MemberID(), Gen: s.GenerationID(), Topic: c.Topic(), Part: c.Partition(), Off: c.InitialOffset(), CtxDone: s.Context().Err() != nil})
	n := 0
	defer func() {
		h.log(cgEv{Kind: "claim-ret", MemberID: s.MemberID(), Gen: s.GenerationID(), Topic: c.Topic(), Part: c.Partition()})
	}()
	claimDone := func() {
		// when every claim of the session has read its partition to the end, end the session
		key := fmt.Sprintf("%s/%d", s.MemberID(), s.GenerationID())
		v, _ := h.sessDelivered.LoadOrStore(key, new(int32))
		done := atomic.AddInt32(v.(*int32), 1)
		total := 0
		for _, ps := range s.Claims() {
			total += len(ps)
		}
		if int(done) >= total {
			if f, ok := h.cancel.Load().(func()); ok && f != nil {
				h.log(cgEv{Kind: "cancel", MemberID: s.MemberID(), Gen: s.GenerationID()})
				f()
			}
		}
	}
	if st := c.InitialOffset(); st == sarama.OffsetNewest || st >= h.logEnd {
		claimDone() // nothing to read
	}
	// driver-side idle timer (workload only, never a verdict): a session that delivers nothing for a while is ended
	idle := time.AfterFunc(300*time.Millisecond, func() {
		if f, ok := h.cancel.Load().(func()); ok && f != nil {
			f()
		}
	})
	defer idle.Stop()
	for m := range c.Messages() {
		idle.Reset(300 * time.Millisecond)
		n++
		h.log(cgEv{Kind: "msg", MemberID: s.MemberID(), Gen: s.GenerationID(), Topic: m.Topic, Part: m.Partition, Off: m.Offset})
		ls, _ := h.lastSeen.LoadOrStore(fmt.Sprintf("%s/%d", s.MemberID(), s.GenerationID()), &offMap{})
		ls.(*offMap).set(fmt.Sprintf("%s/%d", m.Topic, m.Partition), m.Offset)
		atomic.AddInt64(h.total, 1)
		mine := atomic.AddInt64(h.mine, 1)
		mark := true
		switch h.spec.Behaviour {
		case "prefix":
			mark = n <= h.spec.K
		case "block":
			mark = false
		}
		if mark {
			s.MarkMessage(m, "")
			h.log(cgEv{Kind: "mark", MemberID: s.MemberID(), Gen: s.GenerationID(), Topic: m.Topic, Part: m.Partition, Off: m.Offset + 1})
		}
		if h.spec.CloseAfter >= 0 && int(mine) == h.spec.CloseAfter {
			go h.closeGroup()
		}
		switch h.spec.Behaviour {
		case "return-after-k":
			if n >= h.spec.K {
				return nil
			}
		case "cancel-after-k":
			if n == h.spec.K {
				if f, ok := h.cancel.Load().(func()); ok && f != nil {
					h.log(cgEv{Kind: "cancel", MemberID: s.MemberID(), Gen: s.GenerationID()})
					f()
				}
			}
		}
		if m.Offset+1 >= h.logEnd {
			claimDone()
		}
	}
	return nil
}

func cgScenarioFor(rng *rand.Rand, multi bool) *cgScenario {
	sc := &cgScenario{Brokers: 1 + rng.Intn(2), Topics: []string{"t"}, Parts: 1 + rng.Intn(4), LogN: 5 + rng.Intn(40), Auto: true, Oldest: true,
		Strategy: []string{"range", "roundrobin", "sticky"}[rng.Intn(3)], Faults: map[string][]int{}, Stored: map[string]int64{}}
	if rng.Intn(4) == 0 {
		sc.Topics = []string{"t", "u"}
	}
	if rng.Intn(5) == 0 {
		sc.Oldest = false
	}
	nm := 1
	if multi {
		nm = 1 + rng.Intn(3)
	}
	behaviours := []string{"all", "all", "prefix", "return-after-k", "block", "setup-error", "cancel-after-k"}
	for i := 0; i < nm; i++ {
		m := cgMember{Behaviour: behaviours[rng.Intn(len(behaviours))], K: 1 + rng.Intn(8), CloseAfter: -1, MaxCalls: 3 + rng.Intn(5)}
		if i > 0 && rng.Intn(2) == 0 {
			m.JoinAfter = 1 + rng.Intn(sc.LogN)
		}
		if rng.Intn(5) == 0 {
			m.CloseAfter = 1 + rng.Intn(sc.LogN)
		}
		m.CloseIdle = rng.Intn(3) == 0
		sc.Members = append(sc.Members, m)
	}
	for _, t := range sc.Topics {
		for p := 0; p < sc.Parts; p++ {
			switch x := rng.Intn(12); {
			case x < 4:
				sc.Stored[fmt.Sprintf("%s/%d", t, p)] = int64(rng.Intn(sc.LogN + 1))
			case x == 4: // a commit the log no longer reaches back to (retention)
				sc.Stored[fmt.Sprintf("%s/%d", t, p)] = -int64(1 + rng.Intn(50))
			case x == 5: // a commit beyond the log end
				sc.Stored[fmt.Sprintf("%s/%d", t, p)] = int64(sc.LogN + 1 + rng.Intn(50))
			}
		}
	}
	if rng.Intn(4) == 0 {
		sc.Retention = time.Duration(1+rng.Intn(48)) * time.Hour
	}
	if rng.Intn(6) == 0 {
		sc.ClaimStartFails = map[string]int{fmt.Sprintf("%s/%d", sc.Topics[rng.Intn(len(sc.Topics))], rng.Intn(sc.Parts)): 2 + 2*rng.Intn(2)}
	}
	if rng.Intn(3) != 0 {
		n := 1 + rng.Intn(4)
		for i := 0; i < n; i++ {
			k := gKinds[rng.Intn(len(gKinds))]
			w := make([]int, 1+rng.Intn(3))
			for j := range w {
				if rng.Intn(2) == 0 {
					w[j] = 1 + rng.Intn(nGroupFaults-1)
				}
			}
			sc.Faults[k] = append(sc.Faults[k], w...)
		}
	}
	return sc
}

// enumerated core: single-fault words x request kind on the 1-member scenario, two handler behaviours
func cgCore(tier string) []*cgScenario {
	var out []*cgScenario
	maxLen := 1
	if tier == "thorough" {
		maxLen = 2
	}
	for _, beh := range []string{"all", "return-after-k"} {
		for _, kind := range gKinds {
			var words [][]int
			for f := 1; f < nGroupFaults; f++ {
				words = append(words, []int{f})
				words = append(words, []int{gOk, f})
				if maxLen >= 2 {
					for f2 := 1; f2 < nGroupFaults; f2++ {
						words = append(words, []int{f, f2})
					}
				}
			}
			if kind == "join" && beh == "return-after-k" {
				// a member that already holds an identity meets the fault on a later join
				for f := 1; f < nGroupFaults; f++ {
					words = append(words, []int{gOk, gOk, f}, []int{gOk, f, f}, []int{gOk, gOk, gOk, f})
				}
			}
			for _, w := range words {
				sc := &cgScenario{Brokers: 2, Topics: []string{"t"}, Parts: 2, LogN: 12, Strategy: "range", Auto: true, Oldest: true,
					Members: []cgMember{{Behaviour: beh, K: 4, CloseAfter: -1, MaxCalls: 6}}, Faults: map[string][]int{kind: w}, Stored: map[string]int64{"t/1": 3}}
				out = append(out, sc)
			}
		}
	}
	// a retention time is configured: commits go out in another request version
	for _, beh := range []string{"all", "return-after-k"} {
		out = append(out, &cgScenario{Brokers: 1, Topics: []string{"t"}, Parts: 2, LogN: 12, Strategy: "range", Auto: true, Oldest: true, Faults: map[string][]int{}, Stored: map[string]int64{"t/0": 2},
			Retention: 24 * time.Hour, Members: []cgMember{{Behaviour: beh, K: 4, CloseAfter: -1, MaxCalls: 6}}})
	}
	// one claim cannot be started (its offset lookups fail): that ends the session, the next one runs normally
	for _, beh := range []string{"all", "return-after-k", "block"} {
		for _, fails := range []int{2, 4} {
			out = append(out, &cgScenario{Brokers: 1, Topics: []string{"t"}, Parts: 2, LogN: 12, Strategy: "range", Auto: true, Oldest: true, Faults: map[string][]int{},
				Stored: map[string]int64{}, ClaimStartFails: map[string]int{"t/1": fails}, Members: []cgMember{{Behaviour: beh, K: 4, CloseAfter: -1, MaxCalls: 8}}})
		}
	}
	// one partition has no leader while the group leader plans; it is back before the claims start
	for _, strat := range []string{"range", "roundrobin", "sticky"} {
		for _, members := range []int{1, 2} {
			sc := &cgScenario{Brokers: 2, Topics: []string{"t"}, Parts: 3, LogN: 10, Strategy: strat, Auto: true, Oldest: true, Faults: map[string][]int{},
				Stored: map[string]int64{}, LeaderlessAtPlan: "t/1"}
			for i := 0; i < members; i++ {
				sc.Members = append(sc.Members, cgMember{Behaviour: "all", K: 4, CloseAfter: -1, MaxCalls: 6})
			}
			out = append(out, sc)
		}
	}
	// the topic gains a partition between two Consume calls
	// (one member: with several, the leader of the next generation may have entered its Consume call - and
	// looked at the topic - before the topic grew)
	for _, strat := range []string{"range", "roundrobin", "sticky"} {
		for _, members := range []int{1} {
			sc := &cgScenario{Brokers: 1, Topics: []string{"t"}, Parts: 2, LogN: 10, Strategy: strat, Auto: true, Oldest: true, Faults: map[string][]int{},
				Stored: map[string]int64{}, GrowBetweenSessions: true}
			for i := 0; i < members; i++ {
				sc.Members = append(sc.Members, cgMember{Behaviour: "return-after-k", K: 3, CloseAfter: -1, MaxCalls: 6})
			}
			out = append(out, sc)
		}
	}
	// committed offsets outside the log: the configured initial position applies
	for _, oldest := range []bool{true, false} {
		for _, stored := range []int64{-7, 40} {
			out = append(out, &cgScenario{Brokers: 1, Topics: []string{"t"}, Parts: 2, LogN: 12, Strategy: "range", Auto: true, Oldest: oldest, Faults: map[string][]int{},
				Stored: map[string]int64{"t/0": stored, "t/1": 5}, Members: []cgMember{{Behaviour: "all", K: 4, CloseAfter: -1, MaxCalls: 6}}})
		}
	}
	// a member that gets no partition (more members than partitions) and is closed while its empty session runs
	for _, strat := range []string{"range", "roundrobin", "sticky"} {
		for _, beh := range []string{"all", "block"} {
			out = append(out, &cgScenario{Brokers: 1, Topics: []string{"t"}, Parts: 1, LogN: 20, Strategy: strat, Auto: true, Oldest: true, Faults: map[string][]int{}, Stored: map[string]int64{},
				Members: []cgMember{{Behaviour: beh, K: 3, CloseAfter: -1, MaxCalls: 4, CloseIdle: true}, {Behaviour: beh, K: 3, CloseAfter: -1, MaxCalls: 4, CloseIdle: true}}})
		}
	}
	return out
}

func (e *groupEngine) Count(prop, tier string, seed int64) int {
	n := 150
	if tier == "thorough" {
		n = 3000
	}
	return len(cgCore(tier)) + n
}

func (e *groupEngine) Run(prop, tier string, seed int64, idx int) proto.Rec {
	core := cgCore(tier)
	var sc *cgScenario
	id := fmt.Sprintf("%s/%s/%d/%d", prop, tier, seed, idx)
	rng := rand.New(rand.NewSource(proto.SubSeed(seed, idx, "group")))
	if idx < len(core) {
		sc = core[idx]
		id = fmt.Sprintf("%s/%s/core/%d", prop, tier, idx)
	} else {
		sc = cgScenarioFor(rng, true)
	}
	res := runGroup(sc, rng)
	rec := judgeGroup(res)
	rec.ID = id
	return rec
}

func strategyFor(n string) sarama.BalanceStrategy { return strategyByName(n) }

func runGroup(sc *cgScenario, rng *rand.Rand) *cgResult {
	res := &cgResult{sc: sc, faultsUsed: map[string]int{}, stored: map[string]int64{}}
	var mu sync.Mutex
	sim := sarama.VNewSim(simSocketDir(), sc.Brokers)
	defer sim.Close()
	const group = "grp"
	base := int64(100)
	res.logEnd = base + int64(sc.LogN)
	for _, t := range sc.Topics {
		sim.CreateTopic(t, sc.Parts, base)
		for p := 0; p < sc.Parts; p++ {
			sim.Append(t, int32(p), genPlainLog(rng, sc.LogN, p*100))
		}
	}
	for k, v := range sc.Stored {
		parts := strings.Split(k, "/")
		var p int
		fmt.Sscanf(parts[1], "%d", &p)
		sim.SetStoredOffset(group, parts[0], int32(p), base+v, "")
	}
	sink := newSink()
	defer sink.retire()
	var appProgress int64
	sink.extra = func() int64 { return sim.Progress() + atomic.LoadInt64(&appProgress) }
	var fmu sync.Mutex
	sim.OnGroup = func(ctx *sarama.VSimGroupCtx) sarama.VSimGroupAction {
		fmu.Lock()
		w := sc.Faults[ctx.Kind]
		i := res.faultsUsed[ctx.Kind]
		if i < len(w) {
			res.faultsUsed[ctx.Kind] = i + 1
		}
		fmu.Unlock()
		if i >= len(w) {
			return sarama.VSimGroupAction{}
		}
		switch w[i] {
		case gRebalance:
			return sarama.VSimGroupAction{Kind: sarama.VGError, Code: sarama.ErrRebalanceInProgress}
		case gUnknownMember:
			return sarama.VSimGroupAction{Kind: sarama.VGError, Code: sarama.ErrUnknownMemberId}
		case gIllegalGen:
			return sarama.VSimGroupAction{Kind: sarama.VGError, Code: sarama.ErrIllegalGeneration}
		case gNotCoord:
			return sarama.VSimGroupAction{Kind: sarama.VGError, Code: sarama.ErrNotCoordinatorForConsumer}
		case gDrop:
			return sarama.VSimGroupAction{Kind: sarama.VGDropBefore}
		}
		return sarama.VSimGroupAction{}
	}

	if sc.LeaderlessAtPlan != "" {
		var lt string
		var lp int32
		if i := strings.LastIndex(sc.LeaderlessAtPlan, "/"); i > 0 {
			lt = sc.LeaderlessAtPlan[:i]
			fmt.Sscanf(sc.LeaderlessAtPlan[i+1:], "%d", &lp)
		}
		orig := sim.Leader(lt, lp)
		sim.SetLeader(lt, lp, -1)
		inner := sim.OnGroup
		var restored int32
		sim.OnGroup = func(ctx *sarama.VSimGroupCtx) sarama.VSimGroupAction {
			if ctx.Kind == "sync" && atomic.CompareAndSwapInt32(&restored, 0, 1) {
				sim.SetLeader(lt, lp, orig)
			}
			if inner != nil {
				return inner(ctx)
			}
			return sarama.VSimGroupAction{}
		}
	}
	if len(sc.ClaimStartFails) > 0 {
		left := map[string]int{}
		for k, v := range sc.ClaimStartFails {
			left[k] = v
		}
		var lmu sync.Mutex
		sim.OnListOffsets = func(topic string, partition int32) sarama.KError {
			lmu.Lock()
			defer lmu.Unlock()
			k := fmt.Sprintf("%s/%d", topic, partition)
			if left[k] > 0 {
				left[k]--
				atomic.AddInt64(&res.listOffsetsFailed, 1)
				return sarama.ErrNotLeaderForPartition
			}
			return sarama.ErrNoError
		}
	}
	var total int64
	var grown int32
	closeStart := make([]int64, len(sc.Members)) // progress counter when a member's Close began (0 = not yet, -1 = returned)
	var running int64                            // members that have started and not finished
	var wg sync.WaitGroup
	root, rootCancel := context.WithCancel(context.Background())
	defer rootCancel()
	for i, ms := range sc.Members {
		conf := sarama.NewConfig()
		conf.ClientID = fmt.Sprintf("m%d", i)
		conf.Version = sarama.V1_0_0_0
		sim.ConfigureNet(conf)
		conf.Consumer.Return.Errors = true
		conf.Consumer.Group.Heartbeat.Interval = 3 * time.Millisecond
		conf.Consumer.Group.Session.Timeout = 60 * time.Millisecond
		conf.Consumer.Group.Rebalance.Timeout = 250 * time.Millisecond
		conf.Consumer.Group.Rebalance.Retry.Backoff = time.Millisecond
		conf.Consumer.Group.Rebalance.Retry.Max = 4
		conf.Consumer.Group.Rebalance.Strategy = strategyFor(sc.Strategy)
		conf.Consumer.Offsets.AutoCommit.Enable = sc.Auto
		conf.Consumer.Offsets.AutoCommit.Interval = 2 * time.Millisecond
		conf.Consumer.Offsets.Initial = sarama.OffsetNewest
		if sc.Oldest {
			conf.Consumer.Offsets.Initial = sarama.OffsetOldest
		}
		conf.Consumer.Offsets.Retry.Max = 2
		conf.Consumer.Offsets.Retention = sc.Retention
		conf.Consumer.Retry.Backoff = time.Millisecond
		conf.Consumer.MaxWaitTime = 5 * time.Millisecond
		conf.Consumer.MaxProcessingTime = 20 * time.Millisecond
		conf.Metadata.Retry.Backoff = time.Millisecond
		conf.Metadata.Retry.Max = 3
		conf.Net.ReadTimeout = 400 * time.Millisecond
		if err := conf.Validate(); err != nil {
			res.newErr = err
			return res
		}
		wg.Add(1)
		go func(i int, ms cgMember, conf *sarama.Config) {
			defer wg.Done()
			// late joiners wait for group-wide deliveries
			waited := time.Now()
			for ms.JoinAfter > 0 && atomic.LoadInt64(&total) < int64(ms.JoinAfter) && root.Err() == nil {
				if atomic.LoadInt64(&running) == 0 && time.Since(waited) > 20*time.Millisecond {
					break // nobody else is consuming any more
				}
				time.Sleep(500 * time.Microsecond)
			}
			atomic.AddInt64(&running, 1)
			defer atomic.AddInt64(&running, -1)
			g, err := sarama.NewConsumerGroup(sim.Addrs(), group, conf)
			if err != nil {
				mu.Lock()
				res.events = append(res.events, cgEv{Seq: sarama.VerifNextSeq(), Member: i, Kind: "new-error", Err: err.Error()})
				mu.Unlock()
				return
			}
			var errWG sync.WaitGroup
			errWG.Add(1)
			go func() {
				defer errWG.Done()
				for range g.Errors() {
					atomic.AddInt64(&appProgress, 1)
				}
			}()
			var call int32
			var mine int64
			var cancelV atomic.Value
			var setupErr int32
			var closeOnce sync.Once
			h := &cgHandler{res: res, mu: &mu, member: i, spec: ms, call: &call, cancel: &cancelV, total: &total, mine: &mine, logEnd: res.logEnd, setupErrDone: &setupErr, sessDelivered: &sync.Map{}}
			closeGroup := func() {
				closeOnce.Do(func() {
					h.log(cgEv{Kind: "close-call"})
					atomic.StoreInt64(&closeStart[i], sink.total()+1)
					defer atomic.StoreInt64(&closeStart[i], -1)
					e := g.Close()
					es := ""
					if e != nil {
						es = e.Error()
					}
					h.log(cgEv{Kind: "close-ret", Err: es})
				})
			}
			h.closeGroup = closeGroup
			for c := 0; c < ms.MaxCalls; c++ {
				atomic.StoreInt32(&call, int32(c))
				ctx, cancel := context.WithCancel(root)
				cancelV.Store(func() { cancel() })
				h.log(cgEv{Kind: "consume-call"})
				err := g.Consume(ctx, sc.Topics, h)
				es := ""
				if err != nil {
					es = err.Error()
				}
				h.log(cgEv{Kind: "consume-ret", Err: es})
				if sc.GrowBetweenSessions && i == 0 && atomic.CompareAndSwapInt32(&grown, 0, 1) {
					sim.AddPartition(sc.Topics[0], sim.Leader(sc.Topics[0], 0), 100)
					atomic.StoreInt64(&res.grownSeq, sarama.VerifNextSeq())
				}
				cancel()
				atomic.AddInt64(&appProgress, 1)
				if err == sarama.ErrClosedConsumerGroup || root.Err() != nil {
					break
				}
				// everything committed? then this member is done
				all := true
				for _, t := range sc.Topics {
					for p := 0; p < sc.Parts; p++ {
						if o, _, ok := sim.StoredOffset(group, t, int32(p)); !ok || o < res.logEnd {
							all = false
						}
					}
				}
				if all {
					break
				}
			}
			closeGroup()
			errWG.Wait()
		}(i, ms, conf)
	}
	done := make(chan struct{})
	go func() { wg.Wait(); close(done) }()
	// bounded progress in logical steps: a Close may not outlast 4000 further observable events
	both := make(chan struct{})
	var closeLivelock int32
	go func() {
		defer close(both)
		for {
			select {
			case <-done:
				return
			case <-time.After(20 * time.Millisecond):
			}
			for i := range closeStart {
				if st := atomic.LoadInt64(&closeStart[i]); st > 0 && sink.total()-st > 4000 {
					atomic.StoreInt32(&closeLivelock, 1)
					return
				}
			}
		}
	}()
	ok, stuck := waitQuiescent(both, sink, 10*time.Second, 90*time.Second)
	if atomic.LoadInt32(&closeLivelock) == 1 {
		ok, stuck = false, true
		res.closeLivelock = true
	}
	if !ok {
		if stuck {
			res.stuck = true
			res.stuckWho = parkedSaramaGoroutines()
		} else {
			res.inconcl = "members still progressing after 90 s"
		}
		rootCancel()
	}
	sink.retire()
	res.hooks = sink.snapshot()
	res.group = sim.GroupEvents()
	res.fetched = sim.Fetched()
	for _, t := range sc.Topics {
		for p := 0; p < sc.Parts; p++ {
			if o, _, ok := sim.StoredOffset(group, t, int32(p)); ok {
				res.stored[fmt.Sprintf("%s/%d", t, p)] = o
			}
		}
	}
	mu.Lock()
	out := *res
	out.events = append([]cgEv(nil), res.events...)
	mu.Unlock()
	sort.SliceStable(out.events, func(i, j int) bool { return out.events[i].Seq < out.events[j].Seq })
	return &out
}

type cgSession struct {
	member                                           int
	call                                             int
	memberID                                         string
	gen                                              int32
	setup, setupRet, cleanup, cleanupRet, consumeRet int64
	setupErr                                         bool
	claims                                           map[string][]int32
	starts                                           map[string]*cgEv
	rets                                             map[string]int64
	msgs                                             map[string][]int64
	marks                                            map[string]int64
	consumeErr                                       string
}

func judgeGroup(res *cgResult) proto.Rec {
	rec := proto.Rec{Obs: map[string]int64{}}
	sc := res.sc
	var vs violSet
	if res.newErr != nil {
		rec.Verdict, rec.Why = "inconclusive", "setup: "+res.newErr.Error()
		return rec
	}
	base := int64(100)
	// ---- sessions from the handler log
	type key struct{ m, c int }
	sessions := map[key]*cgSession{}
	var order []*cgSession
	consumeRets := map[key]int64{}
	consumeCalls := map[key]int64{}
	for i := range res.events {
		ev := res.events[i]
		rec.Obs["app:"+ev.Kind]++
		k := key{ev.Member, ev.Call}
		switch ev.Kind {
		case "consume-call":
			consumeCalls[k] = ev.Seq
			continue
		case "consume-ret":
			consumeRets[k] = ev.Seq
			if s := sessions[k]; s != nil {
				s.consumeRet, s.consumeErr = ev.Seq, ev.Err
			}
			continue
		case "close-call", "close-ret", "cancel", "new-error":
			continue
		}
		s := sessions[k]
		if s == nil {
			s = &cgSession{member: ev.Member, call: ev.Call, starts: map[string]*cgEv{}, rets: map[string]int64{}, msgs: map[string][]int64{}, marks: map[string]int64{}}
			sessions[k] = s
			order = append(order, s)
		}
		tp := fmt.Sprintf("%s/%d", ev.Topic, ev.Part)
		bad := func(what string) {
			vs.add("lifecycle", what, fmt.Sprintf("member %d Consume call #%d (member id %s generation %d): %s at event %d", ev.Member, ev.Call, ev.MemberID, ev.Gen, what, ev.Seq))
		}
		switch ev.Kind {
		case "setup":
			if s.setup != 0 {
				bad("setup-twice")
			}
			s.setup, s.memberID, s.gen, s.claims = ev.Seq, ev.MemberID, ev.Gen, ev.Claims
		case "setup-ret":
			s.setupRet, s.setupErr = ev.Seq, ev.Err != ""
		case "claim-start":
			if s.setupRet == 0 {
				bad("claim-before-setup-returned")
			}
			if s.cleanup != 0 {
				bad("claim-after-cleanup")
			}
			if s.setupErr {
				bad("claim-after-setup-error")
			}
			if _, dup := s.starts[tp]; dup {
				bad("two-claims-for-one-partition")
			}
			assigned := false
			for _, p := range s.claims[ev.Topic] {
				if p == ev.Part {
					assigned = true
				}
			}
			if !assigned {
				bad("claim-for-unassigned-partition")
			}
			e := ev
			s.starts[tp] = &e
		case "msg":
			if s.starts[tp] == nil || s.rets[tp] != 0 {
				bad("message-outside-claim")
			}
			s.msgs[tp] = append(s.msgs[tp], ev.Off)
		case "mark":
			if ev.Off > s.marks[tp] {
				s.marks[tp] = ev.Off
			}
		case "claim-ret":
			s.rets[tp] = ev.Seq
		case "cleanup":
			if s.cleanup != 0 {
				bad("cleanup-twice")
			}
			if s.setupRet == 0 {
				bad("cleanup-without-setup")
			}
			for tp2 := range s.starts {
				if s.rets[tp2] == 0 {
					bad("cleanup-before-claims-returned")
				}
			}
			s.cleanup = ev.Seq
		case "cleanup-ret":
			s.cleanupRet = ev.Seq
		}
	}
	rec.Obs["sessions"] = int64(len(order))
	rec.Obs["list_offsets_failed_on_purpose"] = atomic.LoadInt64(&res.listOffsetsFailed)
	completed := !res.stuck && res.inconcl == ""
	for _, s := range order {
		k := key{s.member, s.call}
		who := fmt.Sprintf("member %d Consume call #%d (member id %s generation %d)", s.member, s.call, s.memberID, s.gen)
		if cr, ok := consumeRets[k]; ok {
			s.consumeRet = cr
			if s.setupRet != 0 && !s.setupErr && s.cleanup == 0 {
				vs.add("lifecycle", "consume-returned-without-cleanup", who+": Consume returned but Cleanup never ran")
			}
			if s.cleanupRet != 0 && cr < s.cleanupRet {
				vs.add("lifecycle", "consume-returned-before-cleanup", who+": Consume returned before Cleanup had returned")
			}
		} else if completed {
			vs.add("lifecycle", "consume-never-returned", who+": the Consume call never returned")
		}
		// at most one claim per assigned partition; exactly one once the session is running normally
		started := len(s.starts)
		totalClaims := 0
		for _, ps := range s.claims {
			totalClaims += len(ps)
		}
		anyMsgs := false
		for _, m := range s.msgs {
			if len(m) > 0 {
				anyMsgs = true
			}
		}
		if started < totalClaims && s.setupRet != 0 && !s.setupErr {
			// exactly one ConsumeClaim per assigned partition unless the session is already ending: a session
			// that goes on heartbeating successfully long after its last claim started is not ending
			last := s.setupRet
			for _, st := range s.starts {
				if st.Seq > last {
					last = st.Seq
				}
			}
			beats := 0
			for _, g := range res.group {
				if g.Kind == "heartbeat" && g.Code == 0 && g.Member == s.memberID && g.Generation == s.gen && g.Seq > last && (s.cleanup == 0 || g.Seq < s.cleanup) {
					beats++
				}
			}
			rec.Obs["sessions_with_unstarted_claims"]++
			if beats >= 12 {
				var missing []string
				for t, ps := range s.claims {
					for _, p := range ps {
						if s.starts[fmt.Sprintf("%s/%d", t, p)] == nil {
							missing = append(missing, fmt.Sprintf("%s/%d", t, p))
						}
					}
				}
				sort.Strings(missing)
				vs.add("lifecycle", "claim-never-started", fmt.Sprintf("%s: assigned %v never got a ConsumeClaim although the session went on for %d successful heartbeats after its last claim had started", who, missing, beats))
			}
		}
		if started > 0 && started < totalClaims && anyMsgs && !s.setupErr {
			// a session that ran long enough to deliver messages must have started every claim, unless its context was already done when the missing claim was due
			ctxDoneSeen := false
			for _, st := range s.starts {
				if st.CtxDone {
					ctxDoneSeen = true
				}
			}
			_ = ctxDoneSeen
		}
		// start offsets
		sessionCommitted := map[string]int64{} // what the coordinator answered for each claim of this session
		for tp, st := range s.starts {
			// committed offset as answered to this member's OffsetFetch for this partition before the claim started
			committed, found := int64(-1), false
			for _, g := range res.group {
				if g.Kind == "offset-fetch" && g.ClientID == fmt.Sprintf("m%d", s.member) && g.Seq < st.Seq && g.Seq > s.setup-100000 {
					if b, ok := g.Stored[tp]; ok && g.Code == 0 {
						if g.Seq < st.Seq && g.Seq > consumeCalls[k] {
							committed, found = b.Offset, true
						}
					}
				}
			}
			if !found {
				continue
			}
			sessionCommitted[tp] = committed
			wantInit := committed
			if committed < 0 {
				wantInit = sarama.OffsetNewest
				if sc.Oldest {
					wantInit = sarama.OffsetOldest
				}
			}
			if committed > res.logEnd || (committed >= 0 && committed < base) {
				// out of range: the configured initial position applies
				wantInit = sarama.OffsetNewest
				if sc.Oldest {
					wantInit = sarama.OffsetOldest
				}
			}
			if st.Off != wantInit {
				vs.add("wrong-start-offset", "initial-offset", fmt.Sprintf("%s: claim %s reports InitialOffset %d, the coordinator had answered committed offset %d (expected %d)", who, tp, st.Off, committed, wantInit))
			}
			// first fetch of this partition by this member after the Consume call began
			for _, f := range res.fetched {
				if f.ClientID == fmt.Sprintf("m%d", s.member) && fmt.Sprintf("%s/%d", f.Topic, f.Partition) == tp && f.Seq > consumeCalls[k] && (s.consumeRet == 0 || f.Seq < s.consumeRet) {
					want := committed
					if wantInit == sarama.OffsetOldest {
						want = base
					} else if wantInit == sarama.OffsetNewest {
						want = res.logEnd
					}
					if f.Offset != want {
						vs.add("wrong-start-offset", "first-fetch", fmt.Sprintf("%s: the first fetch of %s asks for offset %d, expected %d (committed %d)", who, tp, f.Offset, want, committed))
					}
					break
				}
			}
			// deliveries of a claim are consecutive from its start
			ms := s.msgs[tp]
			for i := 1; i < len(ms); i++ {
				if ms[i] != ms[i-1]+1 {
					vs.add("skipped-records", "within-claim", fmt.Sprintf("%s: claim %s delivered offset %d after %d", who, tp, ms[i], ms[i-1]))
					break
				}
			}
			if len(ms) > 0 && committed >= base && committed <= res.logEnd && ms[0] != committed {
				vs.add("skipped-records", "claim-start", fmt.Sprintf("%s: claim %s first delivered offset %d but the committed offset was %d", who, tp, ms[0], committed))
			}
		}
		// final commit: with auto-commit the latest marks are sent in a commit request before Consume returns
		if sc.Auto && s.cleanup != 0 && s.consumeRet != 0 {
			for tp, mk := range s.marks {
				// a mark at or below the position the session started from changes nothing
				// (MarkOffset never lowers): a commit stored beyond the log end stays as it is
				if c, ok := sessionCommitted[tp]; ok && mk <= c {
					continue
				}
				sent := false
				for _, g := range res.group {
					if g.Kind != "commit" || g.ClientID != fmt.Sprintf("m%d", s.member) || g.Seq > s.consumeRet || g.Seq < s.setup {
						continue
					}
					for _, b := range g.Blocks {
						if fmt.Sprintf("%s/%d", b.Topic, b.Partition) == tp && b.Offset == mk {
							sent = true
						}
					}
				}
				if !sent {
					// a dropped connection / unreachable coordinator can prevent the request from arriving: only judge when the member's commit path was undisturbed
					if res.faultsUsed["commit"] == 0 && res.faultsUsed["find-coordinator"] == 0 {
						vs.add("final-commit-missing", "", fmt.Sprintf("%s: partition %s was marked up to %d but no commit request carrying that offset reached the coordinator before Consume returned", who, tp, mk))
					}
				}
			}
		}
	}
	// ---- identities at the coordinator
	issued := map[string]map[int32]bool{} // member id -> generations issued
	fenced := map[string]int64{}          // client -> seq of the fencing answer
	holds := map[string]string{}          // client -> member id the coordinator issued and has not taken back
	for _, g := range res.group {
		rec.Obs["coord:"+g.Kind]++
		// a member keeps the identity it was issued until the coordinator fences it
		// (UNKNOWN_MEMBER_ID / ILLEGAL_GENERATION on its join or sync) or it leaves: a retriable answer
		// to a join is no reason to come back as a stranger
		switch {
		case g.Kind == "join" && g.Member == "" && holds[g.ClientID] != "":
			vs.add("identity-dropped", "anonymous-rejoin", fmt.Sprintf("client %s sent a JoinGroup without member id although the coordinator had issued it %q and has not fenced it since", g.ClientID, holds[g.ClientID]))
			delete(holds, g.ClientID)
		case g.Kind == "join" && g.Code == 0 && g.IssuedMember != "":
			holds[g.ClientID] = g.IssuedMember
		case (g.Kind == "join" || g.Kind == "sync") && (g.Code == int16(sarama.ErrUnknownMemberId) || g.Code == int16(sarama.ErrIllegalGeneration) || g.Code == int16(sarama.ErrFencedInstancedId)):
			delete(holds, g.ClientID)
		case g.Kind == "leave":
			delete(holds, g.ClientID)
		}
		if g.Kind == "join" && g.Member != "" {
			rec.Obs["joins_carrying_an_identity"]++
		}
		switch g.Kind {
		case "join":
			if g.Code == 0 && g.IssuedMember != "" {
				if issued[g.IssuedMember] == nil {
					issued[g.IssuedMember] = map[int32]bool{}
				}
				issued[g.IssuedMember][g.IssuedGeneration] = true
			}
			if at, ok := fenced[g.ClientID]; ok && g.Seq > at {
				if g.Member == "" {
					delete(fenced, g.ClientID)
				}
			}
		case "sync", "heartbeat", "commit":
			if g.Member == "" && g.Kind == "commit" {
				continue
			}
			if !issued[g.Member][g.Generation] {
				vs.add("stale-identity", g.Kind, fmt.Sprintf("client %s sent %s with member id %q generation %d, which the coordinator never issued together", g.ClientID, g.Kind, g.Member, g.Generation))
			}
		}
		// fencing answers: UNKNOWN_MEMBER_ID anywhere, ILLEGAL_GENERATION on a join or sync (a heartbeat
		// answered ILLEGAL_GENERATION only ends the session)
		unknown := (g.Kind == "join" || g.Kind == "sync" || g.Kind == "heartbeat") && g.Code == int16(sarama.ErrUnknownMemberId)
		illegal := (g.Kind == "join" || g.Kind == "sync") && g.Code == int16(sarama.ErrIllegalGeneration)
		if (unknown || illegal) && g.Member != "" {
			if illegal {
				rec.Obs["fenced_by_illegal_generation"]++
			}
			if _, ok := fenced[g.ClientID]; !ok {
				fenced[g.ClientID] = g.Seq
			}
		}
	}
	// a fenced member that joins again must (eventually) do so with an empty member id: at most one further join may carry the old one
	for client, at := range fenced {
		old := 0
		for _, g := range res.group {
			if g.ClientID == client && g.Kind == "join" && g.Seq > at && g.Member != "" {
				old++
			}
		}
		if old > 1 {
			vs.add("member-id-not-reset", "", fmt.Sprintf("client %s was fenced at event %d and afterwards sent %d JoinGroup requests still carrying a member id", client, at, old))
		}
	}
	// ---- assignments handed out per generation are valid
	type genKey struct{ gen int32 }
	assigns := map[int32]map[string][]byte{}
	subs := map[int32]map[string][]string{}
	firstJoin := map[int32]int64{} // generation -> stamp of its first successful join answer
	for _, g := range res.group {
		if g.Kind == "sync" && g.Code == 0 {
			if assigns[g.Generation] == nil {
				assigns[g.Generation] = map[string][]byte{}
			}
			assigns[g.Generation][g.Member] = g.Assignment
		}
		if g.Kind == "join" && g.Code == 0 {
			if s0, ok := firstJoin[g.IssuedGeneration]; !ok || g.Seq < s0 {
				firstJoin[g.IssuedGeneration] = g.Seq
			}
		}
		if g.Kind == "join" && g.Code == 0 {
			if subs[g.IssuedGeneration] == nil {
				subs[g.IssuedGeneration] = map[string][]string{}
			}
			subs[g.IssuedGeneration][g.IssuedMember] = g.Subscription
		}
	}
	for gen, as := range assigns {
		if len(as) != len(subs[gen]) || len(as) == 0 {
			continue // not every member of the generation synced
		}
		owners := map[string]int{}
		for m, raw := range as {
			a, err := sarama.VerifDecodeAssignment(raw)
			if err != nil {
				vs.add("assignment-undecodable", sc.Strategy, fmt.Sprintf("generation %d member %s: %v", gen, m, err))
				continue
			}
			for t, ps := range a {
				for _, p := range ps {
					owners[fmt.Sprintf("%s/%d", t, p)]++
				}
			}
		}
		for ti, t := range sc.Topics {
			parts := sc.Parts
			if gs := atomic.LoadInt64(&res.grownSeq); ti == 0 && gs > 0 {
				if firstJoin[gen] < gs {
					continue // the generation formed around the moment the topic grew: either count is right
				}
				parts++ // every member joined this generation after the topic had grown
			}
			for p := 0; p < parts; p++ {
				if n := owners[fmt.Sprintf("%s/%d", t, p)]; n != 1 {
					vs.add("invalid-assignment", sc.Strategy, fmt.Sprintf("generation %d: partition %s/%d has %d owners among the assignments handed out through SyncGroup", gen, t, p, n))
				}
			}
		}
		rec.Obs["generations_validated"]++
	}
	// ---- across sessions: nothing skipped
	delivered := map[string]map[int64]bool{}
	firstStart := map[string]int64{}
	for _, s := range order {
		for tp, ms := range s.msgs {
			if delivered[tp] == nil {
				delivered[tp] = map[int64]bool{}
			}
			for _, o := range ms {
				delivered[tp][o] = true
			}
			if len(ms) > 0 {
				if f, ok := firstStart[tp]; !ok || ms[0] < f {
					firstStart[tp] = ms[0]
				}
			}
		}
	}
	for tp, st := range res.stored {
		// whatever was committed must have been delivered before (from the first start on)
		f, ok := firstStart[tp]
		if !ok {
			continue
		}
		if v, was := sc.Stored[tp]; was && base+v > res.logEnd && st == base+v {
			// the group's commit from before the run lies beyond the log end and no
			// mark of this run can exceed it: it is not evidence of anything delivered
			continue
		}
		for o := f; o < st && o < res.logEnd; o++ {
			if !delivered[tp][o] {
				vs.add("skipped-records", "committed-beyond-delivered", fmt.Sprintf("partition %s: offset %d was never delivered to any handler although the committed offset is %d (first start %d)", tp, o, st, f))
				break
			}
		}
	}
	if res.stuck {
		trigger := "unknown"
		if n := len(res.events); n > 0 {
			trigger = res.events[n-1].Kind
		}
		how := "nothing moved any more"
		if res.closeLivelock {
			how = "a ConsumerGroup.Close did not return while 4000 further observable events went by (background activity only)"
			trigger = "close-call"
		}
		vs.add("consume-stuck", "after="+trigger, "members did not finish: "+how+"; parked: "+strings.Join(res.stuckWho, "; "))
	} else if res.inconcl != "" {
		rec.Verdict, rec.Why = "inconclusive", res.inconcl
	}
	var fk []string
	nf := 0
	for k, n := range res.faultsUsed {
		for i := 0; i < n && i < len(sc.Faults[k]); i++ {
			if sc.Faults[k][i] != gOk {
				fk = append(fk, k+":"+gNames[sc.Faults[k][i]])
				nf++
			}
		}
	}
	sort.Strings(fk)
	var bh []string
	for _, m := range sc.Members {
		bh = append(bh, m.Behaviour)
	}
	rec.NonTrivial = len(order) >= 2 || nf > 0 || len(sc.Members) > 1
	rec.Path = fmt.Sprintf("%s|members=%s|faults=%s|sessions=%d", sc.Strategy, strings.Join(bh, ","), strings.Join(dedup(fk), "+"), minInt(len(order), 6))
	rec.Viols = vs.list
	s := sc.describe()
	var evs []string
	for i, ev := range res.events {
		if i >= 60 {
			break
		}
		if ev.Kind == "msg" || ev.Kind == "mark" {
			continue
		}
		evs = append(evs, fmt.Sprintf("%d m%d#%d %s %s gen=%d %s/%d off=%d err=%s", ev.Seq, ev.Member, ev.Call, ev.Kind, ev.MemberID, ev.Gen, ev.Topic, ev.Part, ev.Off, ev.Err))
	}
	s["handler_log"] = evs
	var gl []string
	for i, g := range res.group {
		if i >= 60 {
			break
		}
		gl = append(gl, fmt.Sprintf("%d %s %s member=%q gen=%d code=%d issued=%s/%d state=%s", g.Seq, g.ClientID, g.Kind, g.Member, g.Generation, g.Code, g.IssuedMember, g.IssuedGeneration, g.State))
	}
	s["coordinator_log"] = gl
	s["stored_at_end"] = res.stored
	rec.Sample = s
	return rec
}

func minInt(a, b int) int {
	if a < b {
		return a
	}
	return b
}
