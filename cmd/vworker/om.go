package main

// Engine "om": C06. The real OffsetManager / PartitionOffsetManager against the
// simulated group coordinator. Application calls are recorded with call/return
// stamps from the global counter; each partition's history (marks, resets,
// NextOffset reads, commit observations, final store reads) is checked with
// porcupine against a sequential register model, plus conservation checks on
// what the coordinator received and stored.

import (
	"fmt"
	"math/rand"
	"sort"
	"strings"
	"sync"
	"sync/atomic"
	"time"

	"github.com/Shopify/sarama"
	"github.com/anishathalye/porcupine"

	"verifharness/internal/proto"
)

func init() { engines["om"] = &omEngine{} }

type omEngine struct{}

// per-commit coordinator behaviour alphabet
const (
	cbAccept = iota
	cbNotCoordinator
	cbCoordNotAvailable
	cbMetadataTooLarge
	cbLoadInProgress
	cbUnknownTopic
	cbOther
	cbOmitBlock
	cbDrop
	cbCoordinatorMoved
	cbPartial // one partition errs, the others are accepted
	// the group moves to another broker; the old one answers this and every later commit it still gets
	// with COORDINATOR_NOT_AVAILABLE (it never says NOT_COORDINATOR)
	cbCoordinatorMovedCNA
	nCommitBehaviours
)

var cbNames = []string{"accept", "not-coordinator", "coordinator-not-available", "metadata-too-large", "load-in-progress", "unknown-topic", "other", "omit-block", "drop", "coordinator-moved", "partial", "coordinator-moved-old-one-not-available"}

type omScenario struct {
	Topics          int   // partitions are spread round-robin over this many topics
	CloseBehaviours []int // behaviours of commit attempts arriving after Close was called (len <= Offsets.Retry.Max: the last attempt is accepted)
	Brokers         int
	Parts           int
	Auto            bool
	IntervalMs      int
	RetryMax        int
	Retention       time.Duration
	Initial         int64    // OffsetOldest / OffsetNewest
	Stored          []int64  // initial stored offset per partition, -1 = none
	Markers         int      // goroutines
	Ops             [][]omOp // per marker
	Behaviours      []int
	Steer           []steerSpec // kinds: built-marks | resp-marks
	InitFetchFaults int         // the first OffsetFetch answers say OFFSETS_LOAD_IN_PROGRESS (ManagePartition retries Metadata.Retry.Max times, then fails and is called again)
	MetaRetryMax    int         // Metadata.Retry.Max (0 or 3)
	ManualCommits   int
}

type omOp struct {
	Kind    string // mark | reset | next
	Part    int
	Off     int64
	Meta    string
	PauseUs int
}

type omEvent struct {
	Call, Ret int64
	Client    int
	Part      int
	Kind      string // mark | reset | next | commit | final
	Off       int64
	Meta      string
	ROff      int64 // result (next / commit / final)
	RMeta     string
}

type omState struct {
	O int64
	M string
}

type omInput struct {
	Kind string
	O    int64
	M    string
	Init int64 // configured initial position (for next)
}

type omOutput struct {
	O int64
	M string
}

func omModel(init omState) porcupine.Model {
	return porcupine.Model{
		Init: func() interface{} { return init },
		Step: func(st, in, out interface{}) (bool, interface{}) {
			s := st.(omState)
			i := in.(omInput)
			o := out.(omOutput)
			switch i.Kind {
			case "mark":
				if i.O > s.O {
					return true, omState{i.O, i.M}
				}
				return true, s
			case "reset":
				if i.O <= s.O {
					return true, omState{i.O, i.M}
				}
				return true, s
			case "next":
				if s.O >= 0 {
					return o.O == s.O && o.M == s.M, s
				}
				return o.O == i.Init && o.M == "", s
			case "commit", "final":
				return o.O == s.O && o.M == s.M, s
			}
			return false, s
		},
		Equal: func(a, b interface{}) bool { return a.(omState) == b.(omState) },
		DescribeOperation: func(in, out interface{}) string {
			i := in.(omInput)
			o := out.(omOutput)
			switch i.Kind {
			case "mark", "reset":
				return fmt.Sprintf("%s(%d,%q)", i.Kind, i.O, i.M)
			}
			return fmt.Sprintf("%s -> (%d,%q)", i.Kind, o.O, o.M)
		},
	}
}

func omScenarioFor(rng *rand.Rand, tier string) *omScenario {
	sc := &omScenario{Brokers: 1 + rng.Intn(2), Parts: 1 + rng.Intn(4), Auto: rng.Intn(3) != 0, IntervalMs: 1 + rng.Intn(5), RetryMax: rng.Intn(4), Markers: 1 + rng.Intn(4)}
	if rng.Intn(3) == 0 {
		sc.Retention = time.Duration(1+rng.Intn(100)) * time.Second
	}
	sc.MetaRetryMax = 3
	if rng.Intn(4) == 0 {
		sc.MetaRetryMax = 0
	}
	if rng.Intn(4) == 0 {
		sc.InitFetchFaults = 1 + rng.Intn(5)
	}
	sc.Initial = sarama.OffsetNewest
	if rng.Intn(2) == 0 {
		sc.Initial = sarama.OffsetOldest
	}
	for p := 0; p < sc.Parts; p++ {
		st := int64(-1)
		if rng.Intn(2) == 0 {
			st = int64(rng.Intn(50))
		}
		sc.Stored = append(sc.Stored, st)
	}
	maxOps := 60
	if tier == "thorough" {
		maxOps = 200
	}
	total := 5 + rng.Intn(maxOps)
	id := 0
	sc.Ops = make([][]omOp, sc.Markers)
	cur := make([]int64, sc.Parts)
	copy(cur, sc.Stored)
	// most applications pass the same metadata string with every mark and reset: then only the
	// offsets tell positions apart (a reset to a lower offset carries nothing else that is new)
	constMeta := rng.Intn(5) < 2
	for i := 0; i < total; i++ {
		g := rng.Intn(sc.Markers)
		p := rng.Intn(sc.Parts)
		op := omOp{Part: p, Meta: fmt.Sprintf("m%d", id)}
		if constMeta {
			op.Meta = ""
		}
		id++
		switch x := rng.Intn(10); {
		case x < 6:
			op.Kind = "mark"
			// mostly forward, sometimes stale
			op.Off = cur[p] + int64(rng.Intn(6)) - 1
			if op.Off < 0 {
				op.Off = int64(rng.Intn(5))
			}
			if op.Off > cur[p] {
				cur[p] = op.Off
			}
		case x < 8:
			op.Kind = "reset"
			op.Off = cur[p] - int64(rng.Intn(5)) + 1
			if op.Off < 0 {
				op.Off = 0
			}
			if op.Off <= cur[p] {
				cur[p] = op.Off
			}
		default:
			op.Kind = "next"
		}
		if rng.Intn(3) == 0 {
			op.PauseUs = rng.Intn(1500)
		}
		sc.Ops[g] = append(sc.Ops[g], op)
	}
	nb := rng.Intn(12)
	weights := []int{30, 6, 5, 4, 6, 4, 4, 4, 5, 4, 6, 4}
	sum := 0
	for _, w := range weights {
		sum += w
	}
	for i := 0; i < nb; i++ {
		x := rng.Intn(sum)
		for b, w := range weights {
			if x < w {
				if b == cbCoordinatorMoved && sc.Brokers < 2 {
					b = cbNotCoordinator
				}
				if b == cbCoordinatorMovedCNA && sc.Brokers < 2 {
					b = cbCoordNotAvailable
				}
				sc.Behaviours = append(sc.Behaviours, b)
				break
			}
			x -= w
		}
	}
	if rng.Intn(2) == 0 {
		kinds := []string{"built-marks", "resp-marks"}
		for i := 0; i < 1+rng.Intn(3); i++ {
			sc.Steer = append(sc.Steer, steerSpec{Kind: kinds[rng.Intn(2)], Nth: 1 + rng.Intn(4), K: 1 + rng.Intn(3)})
		}
	}
	sc.ManualCommits = 2 + rng.Intn(8)
	sc.Topics = 1 + rng.Intn(3)
	if sc.Auto && sc.RetryMax > 0 && rng.Intn(2) == 0 {
		n := 1 + rng.Intn(sc.RetryMax)
		for i := 0; i < n; i++ {
			sc.CloseBehaviours = append(sc.CloseBehaviours, []int{cbPartial, cbLoadInProgress, cbPartial, cbNotCoordinator, cbOmitBlock}[rng.Intn(5)])
		}
	}
	return sc
}

func (sc *omScenario) topicOf(p int) (string, int32) {
	t := sc.Topics
	if t < 1 {
		t = 1
	}
	return fmt.Sprintf("t%d", p%t), int32(p / t)
}

func (sc *omScenario) describe() map[string]interface{} {
	var bw []string
	for _, b := range sc.Behaviours {
		bw = append(bw, cbNames[b])
	}
	n := 0
	for _, o := range sc.Ops {
		n += len(o)
	}
	return map[string]interface{}{"brokers": sc.Brokers, "partitions": sc.Parts, "auto_commit": sc.Auto, "interval_ms": sc.IntervalMs, "offsets_retry_max": sc.RetryMax,
		"topics": sc.Topics, "close_behaviours": sc.CloseBehaviours, "retention": sc.Retention.String(), "initial": sc.Initial, "stored": sc.Stored, "markers": sc.Markers, "operations": n, "commit_behaviours": bw, "steer": sc.Steer}
}

type omResult struct {
	manageErrs          int64 // ManagePartition calls that returned an error while the coordinator was (made to be) loading
	sc                  *omScenario
	newErr              error
	events              []omEvent
	hooks               []hookEv
	group               []sarama.VSimGroupEvent
	final               []omState
	finalOK             []bool
	closeCall, closeRet int64
	finalFrom           int64
	stuck               bool
	stuckWho            []string
	inconcl             string
	rules               []*steerRule
	behavioursUsed      int
	tailClean           bool // the fault word was exhausted before the final flushes
	errsSeen            int64
}

func (e *omEngine) Count(prop, tier string, seed int64) int {
	if tier == "thorough" {
		return 5000
	}
	return 300
}

func (e *omEngine) Run(prop, tier string, seed int64, idx int) proto.Rec {
	rng := rand.New(rand.NewSource(proto.SubSeed(seed, idx, "om")))
	sc := omScenarioFor(rng, tier)
	res := runOM(sc, rng)
	rec := judgeOM(res)
	rec.ID = fmt.Sprintf("%s/%s/%d/%d", prop, tier, seed, idx)
	return rec
}

func runOM(sc *omScenario, rng *rand.Rand) *omResult {
	res := &omResult{sc: sc}
	var mu sync.Mutex
	sim := sarama.VNewSim(simSocketDir(), sc.Brokers)
	defer sim.Close()
	nt := sc.Topics
	if nt < 1 {
		nt = 1
	}
	for t := 0; t < nt; t++ {
		sim.CreateTopic(fmt.Sprintf("t%d", t), (sc.Parts+nt-1)/nt, 0)
	}
	const group = "g"
	for p, st := range sc.Stored {
		if st >= 0 {
			tn, tp := sc.topicOf(p)
			sim.SetStoredOffset(group, tn, tp, st, fmt.Sprintf("init%d", p))
		}
	}
	sink := newSink()
	defer sink.retire()
	var appProgress int64
	sink.extra = func() int64 { return sim.Progress() + atomic.LoadInt64(&appProgress) }

	var bi int32
	var closing, ci, staleCNA int32
	initFaults := int32(sc.InitFetchFaults)
	sim.OnGroup = func(ctx *sarama.VSimGroupCtx) sarama.VSimGroupAction {
		if ctx.Kind == "offset-fetch" && atomic.AddInt32(&initFaults, -1) >= 0 {
			return sarama.VSimGroupAction{Kind: sarama.VGError, Code: sarama.ErrOffsetsLoadInProgress}
		}
		if ctx.Kind != "commit" {
			return sarama.VSimGroupAction{}
		}
		if atomic.LoadInt32(&staleCNA) == 1 && ctx.Broker != sim.Coordinator(ctx.Group) {
			return sarama.VSimGroupAction{Kind: sarama.VGError, Code: sarama.ErrConsumerCoordinatorNotAvailable}
		}
		beh := cbAccept
		if atomic.LoadInt32(&closing) == 1 {
			j := int(atomic.AddInt32(&ci, 1)) - 1
			if j < len(sc.CloseBehaviours) {
				beh = sc.CloseBehaviours[j]
			}
		} else {
			i := int(atomic.AddInt32(&bi, 1)) - 1
			if i < len(sc.Behaviours) {
				beh = sc.Behaviours[i]
			}
		}
		switch beh {
		case cbNotCoordinator:
			return sarama.VSimGroupAction{Kind: sarama.VGError, Code: sarama.ErrNotCoordinatorForConsumer}
		case cbCoordNotAvailable:
			return sarama.VSimGroupAction{Kind: sarama.VGError, Code: sarama.ErrConsumerCoordinatorNotAvailable}
		case cbMetadataTooLarge:
			return sarama.VSimGroupAction{Kind: sarama.VGError, Code: sarama.ErrOffsetMetadataTooLarge}
		case cbLoadInProgress:
			return sarama.VSimGroupAction{Kind: sarama.VGError, Code: sarama.ErrOffsetsLoadInProgress}
		case cbUnknownTopic:
			return sarama.VSimGroupAction{Kind: sarama.VGError, Code: sarama.ErrUnknownTopicOrPartition}
		case cbOther:
			return sarama.VSimGroupAction{Kind: sarama.VGError, Code: sarama.ErrRequestTimedOut}
		case cbOmitBlock:
			return sarama.VSimGroupAction{Kind: sarama.VGOmitBlocks}
		case cbDrop:
			return sarama.VSimGroupAction{Kind: sarama.VGDropBefore}
		case cbCoordinatorMoved:
			return sarama.VSimGroupAction{Kind: sarama.VGMoveCoordinator, MoveTo: ctx.Broker%int32(sc.Brokers) + 1}
		case cbCoordinatorMovedCNA:
			sim.SetCoordinator(ctx.Group, ctx.Broker%int32(sc.Brokers)+1)
			atomic.StoreInt32(&staleCNA, 1)
			return sarama.VSimGroupAction{Kind: sarama.VGError, Code: sarama.ErrConsumerCoordinatorNotAvailable}
		case cbPartial:
			if len(ctx.Blocks) > 0 {
				b := ctx.Blocks[0]
				return sarama.VSimGroupAction{Kind: sarama.VGPartErrors, PartCodes: map[string]sarama.KError{fmt.Sprintf("%s/%d", b.Topic, b.Partition): sarama.ErrOffsetMetadataTooLarge}}
			}
		}
		return sarama.VSimGroupAction{}
	}

	conf := sarama.NewConfig()
	conf.ClientID = "vom"
	conf.Version = sarama.V1_0_0_0
	sim.ConfigureNet(conf)
	conf.Consumer.Return.Errors = true
	conf.Consumer.Offsets.AutoCommit.Enable = sc.Auto
	conf.Consumer.Offsets.AutoCommit.Interval = time.Duration(sc.IntervalMs) * time.Millisecond
	conf.Consumer.Offsets.Retry.Max = sc.RetryMax
	conf.Consumer.Offsets.Retention = sc.Retention
	conf.Consumer.Offsets.Initial = sc.Initial
	conf.Metadata.Retry.Backoff = time.Millisecond
	conf.Metadata.Retry.Max = sc.MetaRetryMax
	conf.Metadata.RefreshFrequency = 0
	conf.Net.ReadTimeout = 100 * time.Millisecond
	client, err := sarama.NewClient(sim.Addrs(), conf)
	if err != nil {
		res.newErr = err
		return res
	}
	defer client.Close()
	om, err := sarama.NewOffsetManagerFromClient(group, client)
	if err != nil {
		res.newErr = err
		return res
	}
	poms := make([]sarama.PartitionOffsetManager, sc.Parts)
	var drain sync.WaitGroup
	for p := 0; p < sc.Parts; p++ {
		tn, tp := sc.topicOf(p)
		pom, err := om.ManagePartition(tn, tp)
		for try := 0; err != nil && sc.InitFetchFaults > 0 && try < 8; try++ {
			// the coordinator was still loading and the retry budget ran out: an error, not a position; ask again
			atomic.AddInt64(&res.manageErrs, 1)
			pom, err = om.ManagePartition(tn, tp)
		}
		if err != nil {
			res.newErr = fmt.Errorf("ManagePartition: %v", err)
			return res
		}
		poms[p] = pom
		drain.Add(1)
		go func(pom sarama.PartitionOffsetManager) {
			defer drain.Done()
			for range pom.Errors() {
				atomic.AddInt64(&res.errsSeen, 1)
				atomic.AddInt64(&appProgress, 1)
			}
		}(pom)
	}
	var marks int64
	record := func(ev omEvent) {
		mu.Lock()
		res.events = append(res.events, ev)
		mu.Unlock()
		atomic.AddInt64(&appProgress, 1)
	}
	// steering
	for _, st := range sc.Steer {
		st := st
		point := "om.built"
		if st.Kind == "resp-marks" {
			point = "om.resp"
		}
		var target int64
		r := &steerRule{Name: st.Kind, Point: point, Nth: st.Nth,
			Match:  func(ev *hookEv) bool { return ev.HasReq },
			OnPark: func(ev *hookEv) { target = atomic.LoadInt64(&marks) + int64(st.K) },
			Until:  func() bool { return atomic.LoadInt64(&marks) >= target }}
		sink.addRule(r)
		res.rules = append(res.rules, r)
	}
	var wg sync.WaitGroup
	for g := 0; g < sc.Markers; g++ {
		wg.Add(1)
		go func(g int) {
			defer wg.Done()
			for _, op := range sc.Ops[g] {
				if op.PauseUs > 0 {
					time.Sleep(time.Duration(op.PauseUs) * time.Microsecond)
				}
				ev := omEvent{Client: g, Part: op.Part, Kind: op.Kind, Off: op.Off, Meta: op.Meta}
				ev.Call = sarama.VerifNextSeq()
				switch op.Kind {
				case "mark":
					poms[op.Part].MarkOffset(op.Off, op.Meta)
				case "reset":
					poms[op.Part].ResetOffset(op.Off, op.Meta)
				case "next":
					ev.ROff, ev.RMeta = poms[op.Part].NextOffset()
				}
				ev.Ret = sarama.VerifNextSeq()
				record(ev)
				if op.Kind != "next" {
					atomic.AddInt64(&marks, 1)
				}
			}
		}(g)
	}
	// manual committer (one at a time, as the API intends)
	stopCommitter := make(chan struct{})
	committerDone := make(chan struct{})
	crng := rand.New(rand.NewSource(rng.Int63()))
	go func() {
		defer close(committerDone)
		if sc.Auto {
			return
		}
		for i := 0; ; i++ {
			select {
			case <-stopCommitter:
				return
			default:
			}
			om.Commit()
			time.Sleep(time.Duration(200+crng.Intn(1500)) * time.Microsecond)
		}
	}()
	markersDone := make(chan struct{})
	go func() { wg.Wait(); close(markersDone) }()
	if ok, stuck := waitQuiescent(markersDone, sink, 10*time.Second, 40*time.Second); !ok {
		res.stuck, res.inconcl = stuck, "markers did not finish"
		if stuck {
			res.stuckWho = parkedSaramaGoroutines()
		}
		close(stopCommitter)
		return res
	}
	// let the behaviour word run out (bounded: commits only happen while something is dirty)
	deadline := time.Now().Add(2 * time.Second)
	for int(atomic.LoadInt32(&bi)) < len(sc.Behaviours) && time.Now().Before(deadline) {
		// keep the partitions dirty so that commits keep coming: re-mark the current position with fresh metadata
		time.Sleep(time.Millisecond)
		if sink.count("om.built") == 0 {
			continue
		}
		p := rng.Intn(sc.Parts)
		ev := omEvent{Client: 99, Part: p, Kind: "next"}
		ev.Call = sarama.VerifNextSeq()
		ev.ROff, ev.RMeta = poms[p].NextOffset()
		ev.Ret = sarama.VerifNextSeq()
		record(ev)
		off := ev.ROff
		if off < 0 {
			off = 0
		}
		mk := omEvent{Client: 99, Part: p, Kind: "mark", Off: off + 1, Meta: fmt.Sprintf("tail%d", ev.Call)}
		mk.Call = sarama.VerifNextSeq()
		poms[p].MarkOffset(mk.Off, mk.Meta)
		mk.Ret = sarama.VerifNextSeq()
		record(mk)
	}
	close(stopCommitter)
	<-committerDone
	res.behavioursUsed = int(atomic.LoadInt32(&bi))
	res.tailClean = res.behavioursUsed >= len(sc.Behaviours)
	res.finalFrom = sarama.VerifNextSeq()
	if !sc.Auto {
		// a mark made while a commit was in flight must be sent by a later commit
		om.Commit()
		om.Commit()
	}
	closeDone := make(chan struct{})
	go func() {
		defer close(closeDone)
		res.closeCall = sarama.VerifNextSeq()
		atomic.StoreInt32(&closing, 1)
		for _, pom := range poms {
			pom.AsyncClose()
		}
		om.Close()
		res.closeRet = sarama.VerifNextSeq()
		drain.Wait()
	}()
	if ok, stuck := waitQuiescent(closeDone, sink, 10*time.Second, 40*time.Second); !ok {
		res.stuck = stuck
		if stuck {
			res.stuckWho = parkedSaramaGoroutines()
		} else {
			res.inconcl = "Close still progressing"
		}
	}
	sink.retire()
	res.hooks = sink.snapshot()
	res.group = sim.GroupEvents()
	for p := 0; p < sc.Parts; p++ {
		tn, tp := sc.topicOf(p)
		o, m, ok := sim.StoredOffset(group, tn, tp)
		res.final = append(res.final, omState{o, m})
		res.finalOK = append(res.finalOK, ok)
	}
	mu.Lock()
	out := *res
	out.events = append([]omEvent(nil), res.events...)
	mu.Unlock()
	return &out
}

func judgeOM(res *omResult) proto.Rec {
	rec := proto.Rec{Obs: map[string]int64{}}
	sc := res.sc
	if res.newErr != nil {
		rec.Verdict, rec.Why = "inconclusive", "setup: "+res.newErr.Error()
		return rec
	}
	var vs violSet
	mode := "manual"
	if sc.Auto {
		mode = "auto"
	}
	// commit observations: [om.flush, om.built] of each flush, value from the built request
	type flush struct {
		start, built, resp int64
		blocks             []sarama.VSimCommitBlock
	}
	var flushes []*flush
	var cur *flush
	for _, ev := range res.hooks {
		rec.Obs["hook:"+ev.Point]++
		switch ev.Point {
		case "om.flush":
			cur = &flush{start: ev.Seq}
		case "om.built":
			if cur != nil && ev.HasReq {
				cur.built, cur.blocks = ev.Seq, ev.Blocks
				flushes = append(flushes, cur)
			}
		case "om.resp":
			if cur != nil {
				cur.resp = ev.Seq
			}
		}
	}
	rec.Obs["manage_partition_errors_while_loading"] = atomic.LoadInt64(&res.manageErrs)
	rec.Obs["commit_requests_built"] = int64(len(flushes))
	// every commit request the coordinator received equals the one built before it
	var commits []sarama.VSimGroupEvent
	for _, g := range res.group {
		if g.Kind == "commit" {
			commits = append(commits, g)
		}
	}
	rec.Obs["commit_requests_received"] = int64(len(commits))
	for _, c := range commits {
		var match *flush
		for _, f := range flushes {
			if f.built < c.Seq {
				match = f
			}
		}
		if match == nil || !sameBlocks(match.blocks, c.Blocks) {
			vs.add("commit-differs-from-built", mode, fmt.Sprintf("the coordinator received a commit %v that differs from the request the offset manager had built %v", c.Blocks, blocksOf(match)))
		}
		if c.Member != "" || c.Generation != sarama.GroupGenerationUndefined {
			vs.add("commit-identity", mode, fmt.Sprintf("plain offset manager sent member %q generation %d", c.Member, c.Generation))
		}
	}
	// per-partition histories
	windowHit := false
	pres := map[string]int64{}
	for p := 0; p < sc.Parts; p++ {
		var ops []porcupine.Operation
		for _, ev := range res.events {
			if ev.Part != p {
				continue
			}
			ops = append(ops, porcupine.Operation{ClientId: ev.Client, Input: omInput{Kind: ev.Kind, O: ev.Off, M: ev.Meta, Init: sc.Initial}, Call: ev.Call, Output: omOutput{ev.ROff, ev.RMeta}, Return: ev.Ret})
			if ev.Kind != "next" {
				for _, f := range flushes {
					if f.resp > 0 && ev.Ret > f.built && ev.Call < f.resp {
						windowHit = true
					}
				}
			}
		}
		nobs := 0
		for _, f := range flushes {
			for _, b := range f.blocks {
				if tn, tp := sc.topicOf(p); b.Topic == tn && b.Partition == tp {
					ops = append(ops, porcupine.Operation{ClientId: 100, Input: omInput{Kind: "commit"}, Call: f.start, Output: omOutput{b.Offset, b.Metadata}, Return: f.built})
					nobs++
				}
			}
		}
		rec.Obs["commit_observations"] += int64(nobs)
		// final store: with the tail accepted, the stored pair equals the latest state
		judgedFinal := false
		if res.tailClean && !res.stuck && res.closeRet > 0 {
			everDirty := false
			for _, ev := range res.events {
				if ev.Part == p && ev.Kind != "next" {
					everDirty = true
				}
			}
			if everDirty || res.finalOK[p] {
				fo := res.final[p]
				if !res.finalOK[p] {
					fo = omState{-1, ""}
				}
				ops = append(ops, porcupine.Operation{ClientId: 101, Input: omInput{Kind: "final"}, Call: res.finalFrom, Output: omOutput{fo.O, fo.M}, Return: res.closeRet + 1})
				judgedFinal = true
				rec.Obs["final_store_reads"]++
			}
		}
		init := omState{sc.Stored[p], ""}
		if sc.Stored[p] >= 0 {
			init.M = fmt.Sprintf("init%d", p)
		}
		r, info := porcupine.CheckOperationsVerbose(omModel(init), ops, 60*time.Second)
		switch r {
		case porcupine.Ok:
			pres["ok"]++
		case porcupine.Unknown:
			pres["unknown"]++
			if rec.Verdict == "" {
				rec.Verdict, rec.Why = "inconclusive", "porcupine timed out"
			}
		case porcupine.Illegal:
			pres["illegal"]++
			// attribute: does the history become legal without the final read / without commit observations?
			kind, attr := "not-linearizable", mode
			noFinal := filterOps(ops, func(i omInput) bool { return i.Kind != "final" })
			if judgedFinal {
				if rr, _ := porcupine.CheckOperationsVerbose(omModel(init), noFinal, 20*time.Second); rr == porcupine.Ok {
					kind = "lost-mark"
					attr = mode + ",at-close"
					if !sc.Auto {
						attr = mode + ",after-final-commits"
					}
				}
			}
			if kind == "not-linearizable" {
				noCommit := filterOps(noFinal, func(i omInput) bool { return i.Kind != "commit" })
				if rr, _ := porcupine.CheckOperationsVerbose(omModel(init), noCommit, 20*time.Second); rr == porcupine.Ok {
					kind = "commit-of-unmarked"
				} else {
					attr = mode + ",calls-only"
				}
			}
			_ = info
			vs.add(kind, attr, fmt.Sprintf("partition %d: history of %d operations (initial %v, final store %v) is not explained by the sequential model: %s", p, len(ops), init, res.final[p], describeOps(ops, 14)))
		}
		// (a) the stored offset never decreases between two accepted commits unless a reset overlapped or lay between them
		var prev *sarama.VSimGroupEvent
		for i := range commits {
			c := commits[i]
			tn, tp := sc.topicOf(p)
			code, has := c.PartCodes[fmt.Sprintf("%s/%d", tn, tp)]
			if !has || code != 0 {
				continue
			}
			var off int64
			for _, b := range c.Blocks {
				if b.Topic == tn && b.Partition == tp {
					off = b.Offset
				}
			}
			if prev != nil {
				var poff int64
				for _, b := range prev.Blocks {
					if b.Topic == tn && b.Partition == tp {
						poff = b.Offset
					}
				}
				if off < poff {
					okReset := false
					for _, ev := range res.events {
						if ev.Part == p && ev.Kind == "reset" && ev.Ret > 0 && ev.Call < c.Seq {
							okReset = true
						}
					}
					if !okReset {
						vs.add("store-regressed", mode, fmt.Sprintf("partition %d: accepted commits took the stored offset from %d back to %d without any ResetOffset before", p, poff, off))
					}
				}
			}
			cc := c
			prev = &cc
		}
	}
	for k, v := range pres {
		rec.Obs["porcupine_"+k] += v
	}
	if res.stuck {
		vs.add("close-stuck", mode, "Close / marker calls did not complete and nothing moved any more: "+strings.Join(res.stuckWho, "; "))
	} else if res.inconcl != "" && rec.Verdict == "" {
		rec.Verdict, rec.Why = "inconclusive", res.inconcl
	}
	for _, r := range res.rules {
		rec.Obs["plans_fired"] += int64(atomic.LoadInt32(&r.Fired))
		rec.Obs["plans_satisfied"] += int64(atomic.LoadInt32(&r.Satisfied))
	}
	rec.Obs["errors_seen"] = res.errsSeen
	rec.NonTrivial = windowHit
	used := map[string]bool{}
	for i := 0; i < res.behavioursUsed && i < len(sc.Behaviours); i++ {
		used[cbNames[sc.Behaviours[i]]] = true
	}
	var ul []string
	for k := range used {
		ul = append(ul, k)
	}
	sort.Strings(ul)
	rec.Path = fmt.Sprintf("%s|parts=%d|markers=%d|retry=%d|ret=%v|behav=%s|window=%v|tail=%v", mode, sc.Parts, sc.Markers, sc.RetryMax, sc.Retention > 0, strings.Join(ul, "+"), windowHit, res.tailClean)
	rec.Viols = vs.list
	s := sc.describe()
	var evs []string
	for i, ev := range res.events {
		if i >= 40 {
			break
		}
		evs = append(evs, fmt.Sprintf("[%d,%d] c%d p%d %s(%d,%q) -> (%d,%q)", ev.Call, ev.Ret, ev.Client, ev.Part, ev.Kind, ev.Off, ev.Meta, ev.ROff, ev.RMeta))
	}
	s["operations_log"] = evs
	var cl []string
	for i, c := range commits {
		if i >= 40 {
			break
		}
		cl = append(cl, fmt.Sprintf("%d b%d blocks=%v codes=%v action=%d applied=%v", c.Seq, c.Broker, c.Blocks, c.PartCodes, c.Action, c.Applied))
	}
	s["commits_at_coordinator"] = cl
	s["final_store"] = res.final
	rec.Sample = s
	return rec
}

func sameBlocks(a, b []sarama.VSimCommitBlock) bool {
	if len(a) != len(b) {
		return false
	}
	key := func(x sarama.VSimCommitBlock) string {
		return fmt.Sprintf("%s/%d/%d/%s", x.Topic, x.Partition, x.Offset, x.Metadata)
	}
	m := map[string]int{}
	for _, x := range a {
		m[key(x)]++
	}
	for _, x := range b {
		m[key(x)]--
	}
	for _, v := range m {
		if v != 0 {
			return false
		}
	}
	return true
}

func blocksOf(f interface{}) interface{} {
	return f
}

func filterOps(ops []porcupine.Operation, keep func(omInput) bool) []porcupine.Operation {
	var out []porcupine.Operation
	for _, o := range ops {
		if keep(o.Input.(omInput)) {
			out = append(out, o)
		}
	}
	return out
}

func describeOps(ops []porcupine.Operation, n int) string {
	sort.Slice(ops, func(i, j int) bool { return ops[i].Call < ops[j].Call })
	var parts []string
	start := 0
	if len(ops) > n {
		start = len(ops) - n
	}
	for _, o := range ops[start:] {
		i := o.Input.(omInput)
		out := o.Output.(omOutput)
		switch i.Kind {
		case "mark", "reset":
			parts = append(parts, fmt.Sprintf("[%d,%d]%s(%d,%s)", o.Call, o.Return, i.Kind, i.O, i.M))
		default:
			parts = append(parts, fmt.Sprintf("[%d,%d]%s->(%d,%s)", o.Call, o.Return, i.Kind, out.O, out.M))
		}
	}
	return strings.Join(parts, " ")
}
