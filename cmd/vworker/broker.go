package main

// Engine "broker" (C14): many goroutines call one sarama.Broker concurrently
// against a raw simulated server that echoes a per-call token into the typed
// response and misbehaves according to a behaviour word. Monitors: every call
// gets the response built for its own token or an error; a frame whose
// correlation id is not the oldest outstanding one is never delivered; after a
// fault nobody hangs and nobody succeeds; at most Net.MaxOpenRequests requests
// are on the wire unanswered.

import (
	"fmt"
	"math/rand"
	"net"
	"sort"
	"strconv"
	"strings"
	"sync"
	"sync/atomic"
	"time"

	"github.com/Shopify/sarama"

	"verifharness/internal/proto"
)

func init() { engines["broker"] = &brokerEngine{} }

type brokerEngine struct{}

type brCase struct {
	Name          string     `json:"name"`
	Callers       int        `json:"callers"`
	CallsPer      int        `json:"calls_per_caller"`
	Max           int        `json:"max_open_requests"`
	ReadTimeoutMs int        `json:"read_timeout_ms"`
	Word          []brLetter `json:"word"`
	CloseAt       int        `json:"close_at,omitempty"` // Close() when the server has received that many requests
	Reopen        bool       `json:"reopen,omitempty"`
	ReopenMax     int        `json:"reopen_max,omitempty"` // the re-Open passes a Config with this Net.MaxOpenRequests (0 = the same Config)
	Jitter        bool       `json:"jitter,omitempty"` // park senders briefly at br.written (between write and promise enqueue)
	PauseUs       int        `json:"pause_us,omitempty"`
	WriteFailAt   int        `json:"write_fail_at,omitempty"` // the k-th write of the client fails with a timeout, nothing written (0 = none)
	Kinds         []string   `json:"kinds"`
	Seed          int64      `json:"seed"`
}

var brAllKinds = []string{"meta", "offfetch1", "offfetch6", "findco", "consmeta", "descgroups", "joingroup", "produce1", "produce0"}

func brWordString(w []brLetter) string {
	var p []string
	for _, l := range w {
		p = append(p, l.String())
	}
	return strings.Join(p, " ")
}

// ---------------------------------------------------------------- case list

var brCoreOnce sync.Once
var brCoreList []brCase

func brCore() []brCase {
	brCoreOnce.Do(func() {
		var out []brCase
		maxes := []int{1, 2, 3, 5}
		// (1) every single fault x MaxOpenRequests x {1, 4} callers, fault hits while
		// as many requests as possible are outstanding, behaving tail afterwards.
		for _, op := range brFaultOps {
			for _, m := range maxes {
				for _, callers := range []int{1, 4} {
					k := 1
					if callers > 1 {
						k = m
						if op == opSwap && k < 2 {
							k = 2
						}
					}
					c := brCase{Name: fmt.Sprintf("core/fault=%s/max=%d/callers=%d", op, m, callers), Callers: callers, CallsPer: 6, Max: m,
						Word: []brLetter{{Op: opAnswer, K: 1}, {Op: opHold, K: callers}, {Op: op, K: k, Arg: m + callers}}, Kinds: brAllKinds}
					out = append(out, c)
					if op == opSilence || op == opTruncSilent {
						c.Name += "/resume"
						c.Word = []brLetter{{Op: opAnswer, K: 1}, {Op: opHold, K: callers}, {Op: op, K: k, Arg: m + callers, Resume: true}}
						out = append(out, c)
					}
					if brHasHdrOnly(op) {
						c.Name += "/hdr-only"
						c.Word = []brLetter{{Op: opAnswer, K: 1}, {Op: opHold, K: callers}, {Op: op, K: k, Arg: m + callers, HdrOnly: true}}
						out = append(out, c)
					}
				}
			}
		}
		// (2) pile-up: the server withholds answers until more than MaxOpenRequests
		// requests could have arrived.
		for _, m := range maxes {
			for _, callers := range []int{m + 2, 8, 16} {
				c := brCase{Name: fmt.Sprintf("core/pileup/max=%d/callers=%d", m, callers), Callers: callers, CallsPer: 4, Max: m,
					Word: []brLetter{{Op: opHold, K: m + 3}, {Op: opAnswer, K: 1}, {Op: opHold, K: m + 3}, {Op: opHold, K: m + 1}}, Kinds: brAllKinds}
				out = append(out, c)
			}
		}
		// (3) Close racing with calls, with and without re-Open, with and without a fault before.
		for _, m := range []int{1, 3} {
			for _, reopen := range []bool{false, true} {
				for _, w := range [][]brLetter{
					{{Op: opHold, K: 2}},
					{{Op: opAnswer, K: 1}, {Op: opWrongID, K: 2}},
					{{Op: opAnswer, K: 1}, {Op: opSilence, K: 2}},
					{{Op: opAnswer, K: 1}, {Op: opClose, K: 1}},
				} {
					c := brCase{Name: fmt.Sprintf("core/close-race/max=%d/reopen=%v/%s", m, reopen, w[len(w)-1].Op), Callers: 4, CallsPer: 8, Max: m,
						Word: w, CloseAt: 6, Reopen: reopen, Kinds: brAllKinds}
					out = append(out, c)
				}
			}
		}
		// (3b) re-Open with a Config that allows fewer open requests: the second connection obeys the second Config.
		for _, mm := range [][2]int{{5, 1}, {4, 2}, {8, 1}} {
			for _, closeAt := range []int{1, 3} {
				out = append(out, brCase{Name: fmt.Sprintf("core/reopen-lower/max=%d-%d/close-at=%d", mm[0], mm[1], closeAt), Callers: 10, CallsPer: 8, Max: mm[0],
					Word: []brLetter{{Op: opAnswer, K: 1}, {Op: opHold, K: mm[0] + 3}, {Op: opHold, K: mm[0] + 3}}, CloseAt: closeAt, Reopen: true, ReopenMax: mm[1], Kinds: brAllKinds})
			}
		}
		// (4) fault-free baselines (spurious errors, crosstalk under plain concurrency)
		for _, m := range maxes {
			for _, callers := range []int{1, 16} {
				out = append(out, brCase{Name: fmt.Sprintf("core/clean/max=%d/callers=%d", m, callers), Callers: callers, CallsPer: 10, Max: m,
					Word: []brLetter{{Op: opDelay, K: 1, DelayMs: 1}, {Op: opHold, K: 3}}, Kinds: brAllKinds, Jitter: callers > 1 && m%2 == 1})
			}
		}
		for i := range out {
			out[i].Seed = proto.SubSeed(0, i, "broker-core")
			out[i].ReadTimeoutMs = brReadTimeout(out[i].Word)
		}
		brCoreList = out
	})
	return brCoreList
}

func brHasHdrOnly(op string) bool {
	switch op {
	case opWrongID, opStaleID, opShortLen, opOversize, opBadTag:
		return true
	}
	return false
}

// brReadTimeout: Net.ReadTimeout is short only where the word contains a
// silence (each silence costs one timeout); elsewhere nothing should ever time
// out and the value only has to be far above scheduling noise of a loaded machine.
func brReadTimeout(w []brLetter) int {
	for _, l := range w {
		if brIsSilenceClass(l.Op) {
			return 150
		}
	}
	return 1000
}

func brRandomCount(tier string) int {
	if tier == "thorough" {
		return 10000
	}
	return 300
}

func brRandomCase(tier string, seed int64, idx int) brCase {
	rng := rand.New(rand.NewSource(proto.SubSeed(seed, idx, "broker-random")))
	c := brCase{Name: "random", Seed: proto.SubSeed(seed, idx, "broker-run")}
	c.Max = []int{1, 2, 3, 5}[rng.Intn(4)]
	switch rng.Intn(4) {
	case 0:
		c.Callers = 1 + rng.Intn(2)
	case 1:
		c.Callers = 2 + rng.Intn(4)
	case 2:
		c.Callers = c.Max + 1 + rng.Intn(3)
	default:
		c.Callers = 1 + rng.Intn(16)
	}
	budget := 120
	if tier == "thorough" {
		budget = 300
	}
	c.CallsPer = 1 + rng.Intn(50)
	if c.CallsPer*c.Callers > budget {
		c.CallsPer = budget / c.Callers
		if c.CallsPer < 1 {
			c.CallsPer = 1
		}
	}
	total := c.CallsPer * c.Callers
	n := rng.Intn(10)
	faults := 0
	for i := 0; i < n; i++ {
		var l brLetter
		switch r := rng.Intn(100); {
		case r < 25:
			l = brLetter{Op: opAnswer, K: 1}
		case r < 35:
			l = brLetter{Op: opDelay, K: 1, DelayMs: 1 + rng.Intn(3)}
		case r < 65:
			l = brLetter{Op: opHold, K: 1 + rng.Intn(c.Max+3)}
		default:
			if faults >= 3 {
				l = brLetter{Op: opHold, K: 1 + rng.Intn(c.Max+3)}
				break
			}
			faults++
			l = brLetter{Op: brFaultOps[rng.Intn(len(brFaultOps))], K: 1 + rng.Intn(c.Max+1), Arg: rng.Intn(64)}
			if l.Op == opClose && rng.Intn(3) == 0 {
				l.K = 0
			}
			if (l.Op == opSilence || l.Op == opTruncSilent) && rng.Intn(2) == 0 {
				l.Resume = true
			}
			if brHasHdrOnly(l.Op) && rng.Intn(2) == 0 {
				l.HdrOnly = true
			}
		}
		c.Word = append(c.Word, l)
	}
	if rng.Intn(100) < 40 {
		c.CloseAt = 1 + rng.Intn(total)
		c.Reopen = rng.Intn(100) < 65
	}
	c.Jitter = rng.Intn(100) < 25
	if rng.Intn(3) == 0 {
		c.PauseUs = 50 + rng.Intn(300)
	}
	if rng.Intn(100) < 20 {
		c.WriteFailAt = 1 + rng.Intn(total)
	}
	nk := 1 + rng.Intn(len(brAllKinds))
	perm := rng.Perm(len(brAllKinds))
	for _, i := range perm[:nk] {
		c.Kinds = append(c.Kinds, brAllKinds[i])
	}
	sort.Strings(c.Kinds)
	c.ReadTimeoutMs = brReadTimeout(c.Word)
	if c.Reopen && c.Max > 1 && rng.Intn(2) == 0 {
		c.ReopenMax = 1 + rng.Intn(c.Max-1)
	}
	return c
}

func (e *brokerEngine) Count(prop, tier string, seed int64) int {
	return len(brCore()) + brRandomCount(tier)
}

func (e *brokerEngine) caseFor(tier string, seed int64, idx int) brCase {
	core := brCore()
	if idx < len(core) {
		return core[idx]
	}
	return brRandomCase(tier, seed, idx-len(core))
}

// ---------------------------------------------------------------- execution

type brCall struct {
	Caller   int
	N        int
	Kind     string
	Token    string
	CallSeq  int64
	RetSeq   int64
	Returned bool
	Err      error
	Content  string // the token-carrying string of the response ("" = none)
	NilResp  bool
}

type brResult struct {
	writeFaults int32 // client writes failed on purpose
	c           brCase
	calls       []*brCall
	srv         *rawServer
	stuck       bool
	inconcl     string
	parked      []string
	closeSeq    int64 // stamp before the controller's Close()
	closeRet    int64
	closeErr    error
	reopenRet   int64 // stamp after Open() returned
	openErr     error
	closeStuck  bool
	written     int
	jitterHits  int32
}

func brInvoke(b *sarama.Broker, kind, tok string) (content string, nilResp bool, err error) {
	switch kind {
	case "meta":
		r, e := b.GetMetadata(&sarama.MetadataRequest{Version: 1, Topics: []string{tok}})
		if e != nil {
			return "", false, e
		}
		if len(r.Topics) == 1 {
			content = r.Topics[0].Name
		}
	case "offfetch1", "offfetch6":
		v := int16(1)
		if kind == "offfetch6" {
			v = 6
		}
		r, e := b.FetchOffset(&sarama.OffsetFetchRequest{Version: v, ConsumerGroup: tok})
		if e != nil {
			return "", false, e
		}
		for t := range r.Blocks {
			content = t
		}
	case "findco":
		r, e := b.FindCoordinator(&sarama.FindCoordinatorRequest{Version: 1, CoordinatorKey: tok, CoordinatorType: sarama.CoordinatorGroup})
		if e != nil {
			return "", false, e
		}
		if r.Coordinator != nil {
			content = strings.TrimSuffix(r.Coordinator.Addr(), ":9092")
		}
	case "consmeta":
		r, e := b.GetConsumerMetadata(&sarama.ConsumerMetadataRequest{ConsumerGroup: tok})
		if e != nil {
			return "", false, e
		}
		content = r.CoordinatorHost
	case "descgroups":
		r, e := b.DescribeGroups(&sarama.DescribeGroupsRequest{Groups: []string{tok}})
		if e != nil {
			return "", false, e
		}
		if len(r.Groups) == 1 {
			content = r.Groups[0].GroupId
		}
	case "joingroup":
		req := &sarama.JoinGroupRequest{Version: 1, GroupId: tok, SessionTimeout: 10000, RebalanceTimeout: 10000, ProtocolType: "consumer"}
		req.AddGroupProtocol("p", []byte{1})
		r, e := b.JoinGroup(req)
		if e != nil {
			return "", false, e
		}
		content = r.MemberId
	case "produce1", "produce0":
		req := &sarama.ProduceRequest{RequiredAcks: sarama.WaitForLocal, Timeout: 1000}
		if kind == "produce0" {
			req.RequiredAcks = sarama.NoResponse
		}
		req.AddMessage(tok, 0, &sarama.Message{Value: []byte("v")})
		r, e := b.Produce(req)
		if e != nil {
			return "", false, e
		}
		if r == nil {
			return "", true, nil
		}
		for t := range r.Blocks {
			content = t
		}
	default:
		panic("broker engine: kind " + kind)
	}
	return content, false, nil
}

var brCaseNonce int64

func runBrokerCase(c brCase) *brResult {
	res := &brResult{c: c}
	srv, err := newRawServer(c.Word, 8*time.Millisecond, time.Millisecond)
	if err != nil {
		res.inconcl = "listen: " + err.Error()
		return res
	}
	res.srv = srv
	defer srv.stop()

	conf := sarama.NewConfig()
	conf.Version = sarama.V2_5_0_0
	conf.ClientID = "c14"
	conf.Net.MaxOpenRequests = c.Max
	conf.Net.ReadTimeout = time.Duration(c.ReadTimeoutMs) * time.Millisecond
	conf.Net.WriteTimeout = 2 * time.Second
	if c.ReadTimeoutMs < 1000 {
		// words with a silence: the write timeout is far above the read timeout, so a read that is
		// (wrongly) governed by it shows as calls that stay outstanding while nothing moves
		conf.Net.WriteTimeout = 60 * time.Second
	}
	conf.Net.DialTimeout = 2 * time.Second
	conf.Net.Proxy.Enable = true
	conf.Net.Proxy.Dialer = srv
	if c.WriteFailAt > 0 {
		conf.Net.Proxy.Dialer = &brFaultyDialer{inner: srv, failAt: int32(c.WriteFailAt), res: res}
	}

	sink := newSink()
	defer sink.retire()
	var callProgress int64
	sink.extra = func() int64 { return srv.Progress() + atomic.LoadInt64(&callProgress) }
	if c.Jitter {
		jr := rand.New(rand.NewSource(c.Seed ^ 0x5eed))
		var jmu sync.Mutex
		sink.rules = append(sink.rules, &steerRule{Name: "jitter", Point: "br.written",
			Match: func(ev *hookEv) bool {
				jmu.Lock()
				defer jmu.Unlock()
				return jr.Intn(3) == 0
			},
			Until:   func() bool { return false },
			OnPark:  func(ev *hookEv) { atomic.AddInt32(&res.jitterHits, 1) },
			MaxPark: 600 * time.Microsecond})
	}

	nonce := atomic.AddInt64(&brCaseNonce, 1)
	br := sarama.NewBroker("rawhost:9092")
	if err := br.Open(conf); err != nil {
		res.inconcl = "open: " + err.Error()
		return res
	}
	if ok, err := br.Connected(); !ok {
		res.inconcl = fmt.Sprintf("connect: %v", err)
		return res
	}

	rng := rand.New(rand.NewSource(c.Seed))
	calls := make([][]*brCall, c.Callers)
	for g := 0; g < c.Callers; g++ {
		for i := 0; i < c.CallsPer; i++ {
			k := c.Kinds[rng.Intn(len(c.Kinds))]
			cl := &brCall{Caller: g, N: i, Kind: k, Token: fmt.Sprintf("k%dg%dn%d", nonce, g, i)}
			calls[g] = append(calls[g], cl)
			res.calls = append(res.calls, cl)
		}
	}

	var mu sync.Mutex // guards the brCall fields written by callers (read after the run or under mu)
	byTok := map[string]*brCall{}
	for _, cl := range res.calls {
		byTok[cl.Token] = cl
	}
	srv.mu.Lock()
	srv.isReturned = func(tok string) bool {
		mu.Lock()
		defer mu.Unlock()
		cl := byTok[tok]
		return cl != nil && cl.Returned
	}
	srv.mu.Unlock()
	start := make(chan struct{})
	var wg sync.WaitGroup
	for g := 0; g < c.Callers; g++ {
		wg.Add(1)
		go func(g int) {
			defer wg.Done()
			<-start
			for _, cl := range calls[g] {
				if c.PauseUs > 0 && (cl.N+g)%3 == 0 {
					time.Sleep(time.Duration(c.PauseUs) * time.Microsecond)
				}
				mu.Lock()
				cl.CallSeq = sarama.VerifNextSeq()
				mu.Unlock()
				content, nilResp, err := brInvoke(br, cl.Kind, cl.Token)
				mu.Lock()
				cl.RetSeq = sarama.VerifNextSeq()
				cl.Returned, cl.Err, cl.Content, cl.NilResp = true, err, content, nilResp
				mu.Unlock()
				atomic.AddInt64(&callProgress, 1)
			}
		}(g)
	}
	callersDone := make(chan struct{})
	go func() { wg.Wait(); close(callersDone) }()

	// controller: Close (and re-Open) racing with the calls
	ctlDone := make(chan struct{})
	trigger := make(chan struct{})
	var trigOnce sync.Once
	if c.CloseAt > 0 {
		at := int64(c.CloseAt)
		srv.mu.Lock()
		srv.onRecv = func(n int64) {
			if n >= at {
				trigOnce.Do(func() { close(trigger) })
			}
		}
		srv.mu.Unlock()
	}
	var closeReturned int32
	go func() {
		defer close(ctlDone)
		if c.CloseAt <= 0 {
			return
		}
		select {
		case <-trigger:
		case <-callersDone:
			return
		}
		mu.Lock()
		res.closeSeq = sarama.VerifNextSeq()
		mu.Unlock()
		cerr := br.Close()
		mu.Lock()
		res.closeRet = sarama.VerifNextSeq()
		res.closeErr = cerr
		mu.Unlock()
		atomic.StoreInt32(&closeReturned, 1)
		atomic.AddInt64(&callProgress, 1)
		if c.Reopen {
			conf2 := conf
			if c.ReopenMax > 0 {
				cp := *conf
				cp.Net.MaxOpenRequests = c.ReopenMax
				conf2 = &cp
			}
			oerr := br.Open(conf2)
			mu.Lock()
			res.reopenRet = sarama.VerifNextSeq()
			res.openErr = oerr
			mu.Unlock()
			atomic.AddInt64(&callProgress, 1)
		}
	}()

	close(start)
	done := make(chan struct{})
	go func() { <-callersDone; <-ctlDone; close(done) }()
	ok, stuck := waitQuiescent(done, sink, 3*time.Second, 40*time.Second)
	if !ok {
		mu.Lock()
		callersStuck := false
		for _, cl := range res.calls {
			if cl.CallSeq != 0 && !cl.Returned {
				callersStuck = true
			}
		}
		mu.Unlock()
		if stuck {
			res.stuck = true
			res.parked = parkedSaramaGoroutines()
			if !callersStuck {
				res.closeStuck = true
			}
		} else {
			res.inconcl = "watchdog: calls still moving after 40 s"
		}
		restartAfterCase = true
	} else {
		// release the connection; a broker that is not connected says so
		fin := make(chan struct{})
		go func() { br.Close(); close(fin) }()
		if ok2, _ := waitQuiescent(fin, sink, 3*time.Second, 20*time.Second); !ok2 {
			res.closeStuck = true
			res.parked = parkedSaramaGoroutines()
			restartAfterCase = true
		}
	}
	// let the server's readers catch up with what was written (harness-side
	// synchronisation only: fire-and-forget calls return before the server reads)
	for i := 0; i < 100; i++ {
		srv.mu.Lock()
		got := srv.received
		srv.mu.Unlock()
		if got >= int64(sink.count("br.written")) {
			break
		}
		time.Sleep(500 * time.Microsecond)
	}
	res.written = sink.count("br.written")
	// freeze the call records (stuck callers may still be running)
	mu.Lock()
	frozen := make([]*brCall, len(res.calls))
	for i, cl := range res.calls {
		cp := *cl
		frozen[i] = &cp
	}
	res.calls = frozen
	mu.Unlock()
	return res
}

// ---------------------------------------------------------------- oracles

func brIsTimeout(err error) bool {
	return err != nil && strings.Contains(err.Error(), "i/o timeout")
}

func brBucket(n int) string {
	switch {
	case n == 1:
		return "1"
	case n <= 4:
		return "2-4"
	default:
		return "5-16"
	}
}

func (e *brokerEngine) Run(prop, tier string, seed int64, idx int) proto.Rec {
	c := e.caseFor(tier, seed, idx)
	res := runBrokerCase(c)
	rec := proto.Rec{Obs: map[string]int64{}}
	rec.Sample = map[string]interface{}{"case": c.Name, "callers": c.Callers, "calls_per_caller": c.CallsPer, "max_open_requests": c.Max,
		"read_timeout_ms": c.ReadTimeoutMs, "word": brWordString(c.Word), "close_at": c.CloseAt, "reopen": c.Reopen, "reopen_max": c.ReopenMax, "jitter": c.Jitter, "kinds": strings.Join(c.Kinds, ",")}
	if res.srv == nil {
		rec.Verdict, rec.Why = "inconclusive", res.inconcl
		return rec
	}
	brJudge(res, &rec)
	return rec
}

func brJudge(res *brResult, rec *proto.Rec) {
	c := res.c
	srv := res.srv
	srv.mu.Lock()
	defer srv.mu.Unlock()

	addViol := func(kind, attr, msg string) {
		for _, v := range rec.Viols {
			if v.Kind == kind && v.Attr == attr {
				return
			}
		}
		rec.Viols = append(rec.Viols, proto.Viol{Kind: kind, Attr: attr, Msg: msg})
	}

	// index the server's view
	reqByToken := map[string]*srvReq{}
	connByID := map[int]*srvConn{}
	var firstTrouble int64
	firstTroubleClass := ""
	var firstSilence int64
	var recvTotal, framesGood, framesBad int64
	peakOver := -1 << 30
	for _, cn := range srv.conns {
		connByID[cn.ID] = cn
		// a correlation id names one request of a connection: two requests under one id cannot be told apart
		seenCorr := map[int32]string{}
		for _, r := range cn.all {
			reqByToken[r.Token] = r
			recvTotal++
			if prev, dup := seenCorr[r.Corr]; dup {
				addViol("duplicate-correlation-id", "kinds="+brKindPair(prev, r.Kind), fmt.Sprintf("connection %d: requests %s and %s (%s) were both sent with correlation id %d", cn.ID, prev, r.Token, r.Kind, r.Corr))
			}
			seenCorr[r.Corr] = r.Token + "(" + r.Kind + ")"
		}
		if cn.trouble != 0 {
			if firstTrouble == 0 || cn.trouble < firstTrouble {
				firstTrouble, firstTroubleClass = cn.trouble, cn.troubleClass
			}
			if brIsSilenceClass(cn.troubleClass) && (firstSilence == 0 || cn.trouble < firstSilence) {
				firstSilence = cn.trouble
			}
		}
		if cn.peak-c.Max > peakOver {
			peakOver = cn.peak - c.Max
		}
	}
	for _, f := range srv.frames {
		if f.Good {
			framesGood++
		} else {
			framesBad++
		}
	}
	callByToken := map[string]*brCall{}
	for _, cl := range res.calls {
		callByToken[cl.Token] = cl
	}

	var deliv []brDelivery
	var nOK, nErr, nNotConn, nStuck, nTimeout, nNoResp, nErrAfterFault, nStarted int64
	unexpectedTimeout := ""
	for _, cl := range res.calls {
		if cl.CallSeq == 0 {
			continue
		}
		nStarted++
		if !cl.Returned {
			nStuck++
			continue
		}
		sr := reqByToken[cl.Token]
		if cl.Err != nil {
			nErr++
			if cl.Err == sarama.ErrNotConnected {
				nNotConn++
				// legitimate only inside the window opened by our own Close()
				legit := res.closeSeq != 0 && cl.RetSeq > res.closeSeq && (res.reopenRet == 0 || cl.CallSeq < res.reopenRet)
				if !legit {
					addViol("spurious-error", "not-connected-without-close", fmt.Sprintf("call %s (%s) returned ErrNotConnected; call stamps [%d,%d], Close at %d, re-Open returned at %d", cl.Token, cl.Kind, cl.CallSeq, cl.RetSeq, res.closeSeq, res.reopenRet))
				}
				continue
			}
			if cl.Err == error(errInjectedWrite) {
				// the client's own write was made to fail: this call has its error, nothing was sent
				rec.Obs["calls_failed_by_injected_write_error"]++
				if sr != nil {
					addViol("crosstalk", "request-on-the-wire-after-failed-write", fmt.Sprintf("call %s (%s) returned the injected write error, yet the server received its request", cl.Token, cl.Kind))
				}
				continue
			}
			if brIsTimeout(cl.Err) {
				nTimeout++
				if firstSilence == 0 || cl.RetSeq < firstSilence {
					unexpectedTimeout = fmt.Sprintf("call %s returned %q without injected silence", cl.Token, cl.Err.Error())
				}
				continue
			}
			// an error needs a fault: either before it (anywhere), or on the connection that carried the request
			cause := firstTrouble != 0 && firstTrouble < cl.RetSeq
			if sr != nil {
				cn := connByID[sr.Conn]
				if cn.trouble == 0 || cn.trouble > cl.RetSeq {
					cause = false
				}
			}
			if !cause {
				where := "request-not-seen-by-server"
				if sr != nil {
					where = "request-on-healthy-connection"
				}
				addViol("spurious-error", where, fmt.Sprintf("call %s (%s) returned %q at stamp %d; first injected fault at %d (0 = none)", cl.Token, cl.Kind, cl.Err.Error(), cl.RetSeq, firstTrouble))
			} else {
				nErrAfterFault++
			}
			continue
		}
		// returned without error
		if cl.Kind == "produce0" {
			nNoResp++
			if !cl.NilResp {
				addViol("crosstalk", "response-for-acks0-produce", fmt.Sprintf("call %s (produce, acks=0) returned a response carrying %q", cl.Token, cl.Content))
			}
			continue
		}
		nOK++
		tok, serial := cl.Content, int64(-1)
		if i := strings.LastIndex(cl.Content, "~"); i >= 0 {
			tok = cl.Content[:i]
			serial, _ = strconv.ParseInt(cl.Content[i+1:], 10, 64)
		}
		f := srv.frames[serial]
		class := "unknown"
		if f != nil {
			class = f.Class
		}
		connOf := 0
		seqOf := cl.RetSeq
		if f != nil {
			connOf, seqOf = f.Conn, f.Seq
		}
		if tok != cl.Token {
			other := "nobody"
			if o := callByToken[tok]; o != nil {
				other = fmt.Sprintf("caller %d call %d (%s)", o.Caller, o.N, o.Kind)
			}
			deliv = append(deliv, brDelivery{connOf, seqOf, "crosstalk", "frame=" + class, fmt.Sprintf("call %s (%s, caller %d) returned the response built for %q of %s; frame %d sent with id %v", cl.Token, cl.Kind, cl.Caller, tok, other, serial, frameCorr(f))})
			continue
		}
		if f == nil {
			deliv = append(deliv, brDelivery{connOf, seqOf, "crosstalk", "frame=unknown", fmt.Sprintf("call %s returned content %q that no frame of the server carried", cl.Token, cl.Content)})
			continue
		}
		if !f.Good {
			deliv = append(deliv, brDelivery{connOf, seqOf, "mismatch-delivered", "frame=" + class, fmt.Sprintf("call %s (%s) was given frame %d which the server sent as %s (id %d, oldest outstanding id %d)", cl.Token, cl.Kind, serial, class, f.Corr, f.Oldest)})
			continue
		}
		if cn := connByID[f.Conn]; cn != nil && cn.trouble != 0 && f.Seq > cn.trouble {
			deliv = append(deliv, brDelivery{connOf, seqOf, "success-after-fault", "fault=" + cn.troubleClass, fmt.Sprintf("call %s (%s) returned a response sent (stamp %d) after the %s fault (stamp %d) on connection %d", cl.Token, cl.Kind, f.Seq, cn.troubleClass, cn.trouble, cn.ID)})
		}
	}
	// Per connection only the first wrongly delivered frame (in the order the
	// server sent them = the order the client read them) is reported: what
	// follows on that connection is a consequence of it.
	sort.Slice(deliv, func(i, j int) bool { return deliv[i].seq < deliv[j].seq })
	seenConn := map[int]bool{}
	for _, d := range deliv {
		if seenConn[d.conn] {
			continue
		}
		seenConn[d.conn] = true
		addViol(d.kind, d.attr, d.msg)
	}
	rec.Obs["wrong_deliveries"] = int64(len(deliv))

	// stuck calls (quiescence verdict)
	if res.stuck && nStuck > 0 {
		kinds := map[string]string{}
		for _, cl := range res.calls {
			if cl.CallSeq == 0 || cl.Returned {
				continue
			}
			kind, attr := "call-stuck", "no-fault"
			if sr := reqByToken[cl.Token]; sr != nil && connByID[sr.Conn].trouble != 0 {
				kind, attr = "call-stuck-after-fault", "fault="+connByID[sr.Conn].troubleClass
			} else if firstTrouble != 0 {
				kind, attr = "call-stuck-after-fault", "fault="+firstTroubleClass
			} else if res.closeSeq != 0 {
				attr = "close-race"
			}
			if _, seen := kinds[kind+attr]; !seen {
				kinds[kind+attr] = cl.Token
				addViol(kind, attr, fmt.Sprintf("%d call(s) never returned (first: %s, %s); nothing moved for 2 s; parked: %s", nStuck, cl.Token, cl.Kind, strings.Join(res.parked, "; ")))
			}
		}
	}

	// in-flight bound at every request arrival
	worstK, worstMsg := 0, ""
	for _, cn := range srv.conns {
		max := c.Max
		if c.ReopenMax > 0 && res.closeRet != 0 && cn.openSeq > res.closeRet {
			max = c.ReopenMax // a connection of the second Open: the second Config's bound
		}
		for i, r := range cn.all {
			if r.NoResp {
				continue
			}
			s := r.RecvSeq
			if cn.trouble != 0 && s > cn.trouble {
				break // after a fault the client fails calls at once and keeps writing: nothing is "awaiting a response"
			}
			cnt := 0
			var ids []string
			for _, q := range cn.all[:i+1] {
				if q.NoResp || (q.AnsSeq != 0 && q.AnsSeq < s) {
					continue
				}
				if unexpectedTimeout != "" {
					// after a read timeout nobody injected the client fails calls at once and keeps
					// writing: only requests of calls that are known to have been waiting count
					cl := callByToken[q.Token]
					if cl == nil || (cl.Returned && cl.Err != nil) {
						continue
					}
				} else if cl := callByToken[q.Token]; cl != nil && cl.Returned && cl.RetSeq < s {
					continue // its caller had already given up
				}
				cnt++
				ids = append(ids, fmt.Sprint(q.Corr))
			}
			if k := cnt - max; k > worstK {
				worstK = k
				worstMsg = fmt.Sprintf("connection %d: when request id %d arrived (stamp %d) %d requests were received and unanswered (ids %s) with Net.MaxOpenRequests=%d", cn.ID, r.Corr, s, cnt, strings.Join(ids, ","), max)
			}
		}
	}
	if worstK > 0 {
		attr := fmt.Sprintf("k=%d", worstK)
		if worstK >= 3 {
			attr = "k>=3"
		}
		addViol("inflight=max+k", attr, worstMsg)
	}

	// observations, path, verdict
	execSet := map[string]bool{}
	for _, x := range srv.executed {
		execSet[x] = true
	}
	var classes []string
	for x := range execSet {
		classes = append(classes, x)
	}
	sort.Strings(classes)
	faulted := firstTrouble != 0
	rec.Obs["calls_started"] = nStarted
	rec.Obs["calls_ok"] = nOK
	rec.Obs["calls_err"] = nErr
	rec.Obs["calls_err_after_fault"] = nErrAfterFault
	rec.Obs["calls_not_connected"] = nNotConn
	rec.Obs["calls_timeout"] = nTimeout
	rec.Obs["calls_noresponse_ok"] = nNoResp
	rec.Obs["calls_stuck"] = nStuck
	rec.Obs["srv_requests"] = recvTotal
	rec.Obs["srv_frames_good"] = framesGood
	rec.Obs["srv_frames_bad"] = framesBad
	rec.Obs["srv_conns"] = int64(len(srv.conns))
	rec.Obs["br_written_hooks"] = int64(res.written)
	rec.Obs["jitter_parks"] = int64(atomic.LoadInt32(&res.jitterHits))
	if faulted {
		rec.Obs["cases_with_fault"] = 1
	}
	if res.closeSeq != 0 {
		rec.Obs["close_raced"] = 1
	}
	if res.reopenRet != 0 {
		rec.Obs["reopened"] = 1
	}
	if peakOver >= 0 {
		rec.Obs["cases_peak_at_least_max"] = 1
	}
	if peakOver >= 1 {
		rec.Obs["cases_peak_above_max"] = 1
	}
	peak := "below-max"
	switch {
	case peakOver == 0:
		peak = "max"
	case peakOver > 0:
		peak = fmt.Sprintf("max+%d", peakOver)
	}
	ctl := "noclose"
	if res.closeSeq != 0 {
		ctl = "close"
		if res.reopenRet != 0 {
			ctl = "close+reopen"
		}
	}
	rec.Path = fmt.Sprintf("m%d/c%s/%s/%s/peak=%s", c.Max, brBucket(c.Callers), strings.Join(classes, "+"), ctl, peak)
	rec.NonTrivial = c.Callers >= 2 && (faulted || peakOver >= 0) && (nOK+nErrAfterFault) > 0
	rec.Sample["executed"] = strings.Join(srv.executed, " ")
	rec.Sample["first_fault"] = firstTroubleClass
	rec.Sample["peak_pending_minus_max"] = peakOver
	if len(rec.Viols) > 0 || verbose {
		rec.Sample["history"] = brHistory(res, 60)
	}

	if len(srv.protoErr) > 0 {
		addViol("wire-format", "request-undecodable", strings.Join(srv.protoErr, "; "))
	}
	if len(rec.Viols) > 0 {
		rec.Verdict = "violated"
		return
	}
	switch {
	case res.inconcl != "":
		rec.Verdict, rec.Why = "inconclusive", res.inconcl
	case res.closeStuck:
		rec.Verdict, rec.Why = "inconclusive", "every call returned but Close() did not (not demanded by C14; C12 judges Close); parked: "+strings.Join(res.parked, "; ")
	case unexpectedTimeout != "":
		rec.Verdict, rec.Why = "inconclusive", unexpectedTimeout
		rec.Sample["history"] = brHistory(res, 120)
	case nStarted == 0 || (recvTotal == 0 && firstTrouble == 0):
		rec.Verdict, rec.Why = "inconclusive", "no-observation: no request reached the server"
	}
}

// brKindPair names the two request kinds involved (for the signature: no spaces, order-free).
func brKindPair(prev, kind string) string {
	a := prev
	if i := strings.Index(prev, "("); i >= 0 {
		a = strings.TrimSuffix(prev[i+1:], ")")
	}
	if a > kind {
		a, kind = kind, a
	}
	return a + "+" + kind
}

// a write that times out without a byte written, injected below the Broker
type brWriteTimeout struct{}

func (*brWriteTimeout) Error() string   { return "injected write timeout (0 bytes written)" }
func (*brWriteTimeout) Timeout() bool   { return true }
func (*brWriteTimeout) Temporary() bool { return true }

var errInjectedWrite = &brWriteTimeout{}

type brFaultyDialer struct {
	inner  *rawServer
	failAt int32
	n      int32
	res    *brResult
}

func (d *brFaultyDialer) Dial(network, addr string) (net.Conn, error) {
	c, err := d.inner.Dial(network, addr)
	if err != nil {
		return nil, err
	}
	return &brFaultyConn{Conn: c, d: d}, nil
}

type brFaultyConn struct {
	net.Conn
	d *brFaultyDialer
}

func (c *brFaultyConn) Write(b []byte) (int, error) {
	if atomic.AddInt32(&c.d.n, 1) == c.d.failAt {
		atomic.AddInt32(&c.d.res.writeFaults, 1)
		return 0, errInjectedWrite
	}
	return c.Conn.Write(b)
}

type brDelivery struct {
	conn            int
	seq             int64
	kind, attr, msg string
}

func frameCorr(f *srvFrame) interface{} {
	if f == nil {
		return "?"
	}
	return f.Corr
}

// brHistory merges the API-boundary and server events in stamp order (first n).
func brHistory(res *brResult, n int) []string {
	type ev struct {
		seq int64
		s   string
	}
	var evs []ev
	for _, cl := range res.calls {
		if cl.CallSeq != 0 {
			evs = append(evs, ev{cl.CallSeq, fmt.Sprintf("call g%d %s %s", cl.Caller, cl.Kind, cl.Token)})
		}
		if cl.Returned {
			out := "-> " + cl.Content
			if cl.Err != nil {
				out = "-> error " + cl.Err.Error()
			}
			evs = append(evs, ev{cl.RetSeq, fmt.Sprintf("ret  g%d %s %s", cl.Caller, cl.Token, out)})
		}
	}
	for _, cn := range res.srv.conns {
		evs = append(evs, ev{cn.openSeq, fmt.Sprintf("srv  conn %d open", cn.ID)})
		if cn.closeSeq != 0 {
			evs = append(evs, ev{cn.closeSeq, fmt.Sprintf("srv  conn %d closed", cn.ID)})
		}
		if cn.trouble != 0 {
			evs = append(evs, ev{cn.trouble, fmt.Sprintf("srv  conn %d FAULT %s", cn.ID, cn.troubleClass)})
		}
		for _, r := range cn.all {
			evs = append(evs, ev{r.RecvSeq, fmt.Sprintf("srv  conn %d recv id=%d %s pending=%d", cn.ID, r.Corr, r.Token, r.Pending)})
		}
	}
	for _, f := range res.srv.frames {
		evs = append(evs, ev{f.Seq, fmt.Sprintf("srv  conn %d send frame %d class=%s id=%d for %s", f.Conn, f.Serial, f.Class, f.Corr, f.ForToken)})
	}
	if res.closeSeq != 0 {
		evs = append(evs, ev{res.closeSeq, "ctl  Close()"})
		evs = append(evs, ev{res.closeRet, fmt.Sprintf("ctl  Close returned %v", res.closeErr)})
	}
	if res.reopenRet != 0 {
		evs = append(evs, ev{res.reopenRet, fmt.Sprintf("ctl  Open returned %v", res.openErr)})
	}
	sort.Slice(evs, func(i, j int) bool { return evs[i].seq < evs[j].seq })
	var out []string
	for i, e := range evs {
		if i >= n {
			out = append(out, fmt.Sprintf("... %d more", len(evs)-n))
			break
		}
		out = append(out, fmt.Sprintf("%d %s", e.seq, e.s))
	}
	return out
}
