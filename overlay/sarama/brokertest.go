//go:build verif

package sarama

// In-package helpers of the C14 engine ("broker"): the raw simulated server of
// the worker reads and writes plain frames itself; what it needs from inside
// the package is (1) the token a request carries and (2) the bytes of a typed
// response that echoes a given string, produced with sarama's own encoder.

import (
	"encoding/binary"
	"fmt"
)

// VRawReq is one request frame as seen by the raw server.
type VRawReq struct {
	APIKey   int16
	Version  int16
	CorrID   int32 // read from the raw bytes, not from the decoder
	ClientID string
	Kind     string // meta | offfetch | findco | descgroups | produce | joingroup
	Token    string
	// NoResponse: the client does not wait for an answer (produce, acks = 0).
	NoResponse bool
}

// VRawParse decodes the payload of a request frame (the bytes after the 4-byte length).
func VRawParse(buf []byte) (VRawReq, error) {
	var r VRawReq
	if len(buf) < 8 {
		return r, fmt.Errorf("request frame of %d bytes", len(buf))
	}
	r.APIKey = int16(binary.BigEndian.Uint16(buf[0:2]))
	r.Version = int16(binary.BigEndian.Uint16(buf[2:4]))
	r.CorrID = int32(binary.BigEndian.Uint32(buf[4:8]))
	req := &request{}
	if err := decode(buf, req); err != nil {
		return r, err
	}
	r.ClientID = req.clientID
	switch b := req.body.(type) {
	case *MetadataRequest:
		r.Kind = "meta"
		if len(b.Topics) == 1 {
			r.Token = b.Topics[0]
		}
	case *OffsetFetchRequest:
		r.Kind = "offfetch"
		r.Token = b.ConsumerGroup
	case *FindCoordinatorRequest:
		r.Kind = "findco"
		r.Token = b.CoordinatorKey
	case *DescribeGroupsRequest:
		r.Kind = "descgroups"
		if len(b.Groups) == 1 {
			r.Token = b.Groups[0]
		}
	case *JoinGroupRequest:
		r.Kind = "joingroup"
		r.Token = b.GroupId
	case *ProduceRequest:
		r.Kind = "produce"
		for t := range b.records {
			r.Token = t
		}
		r.NoResponse = b.RequiredAcks == NoResponse
	default:
		return r, fmt.Errorf("unexpected request body %T", req.body)
	}
	if r.Token == "" {
		return r, fmt.Errorf("request %T without token", req.body)
	}
	return r, nil
}

// VRawAnswer builds the typed response for req that carries `content` in its
// string field, and returns the response header version and the encoded body.
func VRawAnswer(req VRawReq, content string) (hdrVersion int16, body []byte, err error) {
	var res protocolBody
	switch req.Kind {
	case "meta":
		m := &MetadataResponse{Version: req.Version, ControllerID: 1}
		m.AddBroker("rawhost:9092", 1)
		m.AddTopic(content, ErrNoError)
		res = m
	case "offfetch":
		o := &OffsetFetchResponse{Version: req.Version}
		o.AddBlock(content, 0, &OffsetFetchResponseBlock{Offset: 7, Metadata: "m"})
		res = o
	case "findco":
		res = &FindCoordinatorResponse{Version: req.Version, Coordinator: &Broker{id: 1, addr: content + ":9092"}}
	case "descgroups":
		res = &DescribeGroupsResponse{Groups: []*GroupDescription{{GroupId: content, State: "Stable"}}}
	case "joingroup":
		res = &JoinGroupResponse{Version: req.Version, GenerationId: 1, MemberId: content, LeaderId: "l", GroupProtocol: "p"}
	case "produce":
		p := &ProduceResponse{Version: req.Version}
		p.AddTopicPartition(content, 0, ErrNoError)
		res = p
	default:
		return 0, nil, fmt.Errorf("no answer for kind %q", req.Kind)
	}
	body, err = encode(res, nil)
	return res.headerVersion(), body, err
}

// VRawFrame puts a response header (of the given version) in front of body.
// length < 0: the correct length is written; otherwise the given value.
func VRawFrame(hdrVersion int16, corr int32, body []byte, length int64, taggedFields byte) []byte {
	hl := 8
	if hdrVersion >= 1 {
		hl = 9
	}
	out := make([]byte, hl, hl+len(body))
	l := uint32(len(body) + hl - 4)
	if length >= 0 {
		l = uint32(length)
	}
	binary.BigEndian.PutUint32(out, l)
	binary.BigEndian.PutUint32(out[4:], uint32(corr))
	if hl == 9 {
		out[8] = taggedFields
	}
	return append(out, body...)
}

// VRawMaxResponseSize exposes the limit the response header decoder applies.
func VRawMaxResponseSize() int32 { return MaxResponseSize }
