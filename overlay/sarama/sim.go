//go:build verif

package sarama

// The simulated cluster ("vsim"): brokers listening on unix-domain sockets
// (or loopback TCP), one goroutine per connection, one mutex around the state
// and an append-only event log stamped by the same global counter as the hooks.
// What a broker does with a request is decided by behaviour callbacks supplied
// by the worker (called WITHOUT the state mutex, so they may park).

import (
	"encoding/binary"
	"fmt"
	"io"
	"net"
	"os"
	"path/filepath"
	"sort"
	"sync"
	"sync/atomic"
	"time"
)

var verifSeq int64

// VerifNextSeq is the single monotonic source for hook events, cluster events
// and application-side events.
func VerifNextSeq() int64 { return atomic.AddInt64(&verifSeq, 1) }

type VSimEvent struct {
	Seq    int64
	Kind   string // e.g. "produce", "fetch", "metadata", "conn-open", "conn-close", "commit", "join" …
	Broker int32
	Conn   int64
	Info   map[string]interface{}
}

type vsPartition struct {
	leader   int32 // -1 = none
	replicas []int32
	isr      []int32
	offline  []int32
	err      KError
	logStart int64
	log      []VRec // log[i].Offset == base + i (no compaction)
	base     int64
	// idempotent producer state: per producer id
	pstate map[int64]*vsProducerState
	// transaction index
	okFetches int64         // fetch answers without error served for this partition
	aborted   []VSimAborted // first offset of each aborted transaction (with producer id and last offset)
	lso       int64         // last stable offset; -1 = equals high watermark
	// offsets a log cleaner removed (compacted topic): still counted by the log
	// (offsets are not reused) but never served
	holes map[int64]bool
}

type vsBatchMeta struct {
	epoch int16
	first int32
	last  int32
	base  int64
}

type vsProducerState struct {
	epoch   int16
	batches []vsBatchMeta // last five
}

type VSimAborted struct {
	PID         int64
	FirstOffset int64
	LastOffset  int64 // offset of the abort marker
}

type vsTopic struct {
	err   KError
	parts map[int32]*vsPartition
}

type VSimBroker struct {
	ID     int32
	sim    *VSim
	ln     net.Listener
	name   string // advertised host:port
	path   string
	down   bool // refuses connections (dialer level)
	conns  map[int64]net.Conn
	closed bool
}

type VSim struct {
	mu         sync.Mutex
	dir        string
	useTCP     bool
	brokers    map[int32]*VSimBroker
	controller int32
	electing   int // metadata answers that still report controller -1 after a move
	topics     map[string]*vsTopic
	events     []VSimEvent
	nextPID    int64
	nextConn   int64
	progress   int64 // counts requests handled; part of the quiescence counter
	metaVer    int64

	// behaviours; nil = behave
	OnRequest  func(ctx *VSimReqCtx) VSimConnAction        // any request, before it is handled
	OnProduce  func(ctx *VSimProduceCtx) VSimProduceAction // per partition batch
	OnFetch    func(ctx *VSimFetchCtx) VSimFetchAction     // per fetch request
	OnMetadata func(ctx *VSimReqCtx) VSimConnAction        // per metadata request (after OnRequest)
	OnGroup    func(ctx *VSimGroupCtx) VSimGroupAction     // join/sync/heartbeat/leave/commit/offset-fetch/find-coordinator
	OnAdmin    func(ctx *VSimAdminCtx) VSimAdminAction
	// OnListOffsets: error code to answer for one partition of a ListOffsets request (0 = answer normally).
	// Called with the cluster lock held: must not block.
	OnListOffsets func(topic string, partition int32) KError

	groups map[string]*vsGroup
	admin  vsAdminState

	unreachable map[string]bool // advertised names the dialer refuses
}

// VSimReqCtx describes a request as it arrives.
type VSimReqCtx struct {
	Seq      int64
	Broker   int32
	Conn     int64
	APIKey   int16
	Version  int16
	CorrID   int32
	ClientID string
	Size     int
	N        int // n-th request of this API key cluster-wide (1-based)
}

// VSimConnAction is what the connection does with a request.
type VSimConnAction struct {
	Kind     int // 0 proceed; 1 drop before handling; 2 handle then drop without answering; 3 handle then stay silent; 4 stay silent without handling
	DelayMs  int
	WrongID  bool // answer with another correlation id
	Truncate int  // >0: send only this many bytes of the answer, then close
}

const (
	VConnProceed = iota
	VConnDropBefore
	VConnDropAfter
	VConnSilentAfter
	VConnSilentBefore
)

var vsimSeqDir int64

// VNewSim creates a cluster with n brokers (ids 1..n). dir is the directory for
// the unix sockets; empty = loopback TCP.
func VNewSim(dir string, n int) *VSim {
	s := &VSim{dir: dir, useTCP: dir == "", brokers: map[int32]*VSimBroker{}, topics: map[string]*vsTopic{}, nextPID: 7000,
		groups: map[string]*vsGroup{}, unreachable: map[string]bool{}, controller: 1}
	s.admin.init()
	for i := 1; i <= n; i++ {
		s.AddBroker(int32(i))
	}
	return s
}

func (s *VSim) AddBroker(id int32) *VSimBroker {
	b := &VSimBroker{ID: id, sim: s, conns: map[int64]net.Conn{}}
	var err error
	if s.useTCP {
		b.ln, err = net.Listen("tcp", "127.0.0.1:0")
		if err == nil {
			b.name = b.ln.Addr().String()
		}
	} else {
		k := atomic.AddInt64(&vsimSeqDir, 1)
		b.path = filepath.Join(s.dir, fmt.Sprintf("b%d-%d.sock", id, k))
		os.Remove(b.path)
		b.ln, err = net.Listen("unix", b.path)
		b.name = fmt.Sprintf("sim%d-%d:9092", id, k)
	}
	if err != nil {
		panic(fmt.Sprintf("vsim: listen: %v", err))
	}
	s.mu.Lock()
	s.brokers[id] = b
	s.mu.Unlock()
	go b.serve()
	return b
}

// Readdress gives a broker a new advertised address (new listener); the old
// listener stops accepting.
func (s *VSim) Readdress(id int32) {
	s.mu.Lock()
	old := s.brokers[id]
	s.mu.Unlock()
	if old != nil {
		old.shutdown()
	}
	s.AddBroker(id)
}

func (s *VSim) RemoveBroker(id int32) {
	s.mu.Lock()
	b := s.brokers[id]
	delete(s.brokers, id)
	s.mu.Unlock()
	if b != nil {
		b.shutdown()
	}
}

func (b *VSimBroker) shutdown() {
	b.sim.mu.Lock()
	b.closed = true
	conns := b.conns
	b.conns = map[int64]net.Conn{}
	b.sim.mu.Unlock()
	b.ln.Close()
	for _, c := range conns {
		c.Close()
	}
	if b.path != "" {
		os.Remove(b.path)
	}
}

func (b *VSimBroker) Addr() string { return b.name }

func (s *VSim) Addrs() []string {
	s.mu.Lock()
	defer s.mu.Unlock()
	ids := make([]int, 0, len(s.brokers))
	for id := range s.brokers {
		ids = append(ids, int(id))
	}
	sort.Ints(ids)
	var out []string
	for _, id := range ids {
		out = append(out, s.brokers[int32(id)].name)
	}
	return out
}

func (s *VSim) BrokerAddr(id int32) string {
	s.mu.Lock()
	defer s.mu.Unlock()
	if b := s.brokers[id]; b != nil {
		return b.name
	}
	return ""
}

func (s *VSim) Close() {
	s.mu.Lock()
	bs := make([]*VSimBroker, 0, len(s.brokers))
	for _, b := range s.brokers {
		bs = append(bs, b)
	}
	s.mu.Unlock()
	for _, b := range bs {
		b.shutdown()
	}
}

// SetUnreachable makes the dialer refuse (or accept again) an advertised name.
func (s *VSim) SetUnreachable(name string, v bool) {
	s.mu.Lock()
	s.unreachable[name] = v
	s.mu.Unlock()
}

// KillConns closes every open connection of a broker (the listener stays).
func (s *VSim) KillConns(id int32) {
	s.mu.Lock()
	b := s.brokers[id]
	var conns []net.Conn
	if b != nil {
		for _, c := range b.conns {
			conns = append(conns, c)
		}
	}
	s.mu.Unlock()
	for _, c := range conns {
		c.Close()
	}
}

// Dialer maps advertised names to sockets.
type VSimDialer struct{ S *VSim }

func (d VSimDialer) Dial(network, addr string) (net.Conn, error) {
	s := d.S
	s.mu.Lock()
	var target *VSimBroker
	for _, b := range s.brokers {
		if b.name == addr && !b.closed {
			target = b
		}
	}
	refuse := s.unreachable[addr]
	s.mu.Unlock()
	if target == nil || refuse {
		return nil, fmt.Errorf("dial %s: connection refused (vsim)", addr)
	}
	if s.useTCP {
		return net.DialTimeout("tcp", addr, 2*time.Second)
	}
	return net.Dial("unix", target.path)
}

func (s *VSim) ConfigureNet(conf *Config) {
	if !s.useTCP {
		conf.Net.Proxy.Enable = true
		conf.Net.Proxy.Dialer = VSimDialer{s}
	}
}

func (s *VSim) logEvent(kind string, broker int32, conn int64, info map[string]interface{}) int64 {
	seq := VerifNextSeq()
	s.events = append(s.events, VSimEvent{Seq: seq, Kind: kind, Broker: broker, Conn: conn, Info: info})
	return seq
}

// LogEvent lets the worker add its own events to the same log.
func (s *VSim) LogEvent(kind string, info map[string]interface{}) int64 {
	s.mu.Lock()
	defer s.mu.Unlock()
	return s.logEvent(kind, 0, 0, info)
}

func (s *VSim) Events() []VSimEvent {
	s.mu.Lock()
	defer s.mu.Unlock()
	return append([]VSimEvent(nil), s.events...)
}

func (s *VSim) Progress() int64 { return atomic.LoadInt64(&s.progress) }

func (b *VSimBroker) serve() {
	for {
		conn, err := b.ln.Accept()
		if err != nil {
			return
		}
		s := b.sim
		s.mu.Lock()
		if b.closed {
			s.mu.Unlock()
			conn.Close()
			continue
		}
		s.nextConn++
		id := s.nextConn
		b.conns[id] = conn
		s.logEvent("conn-open", b.ID, id, nil)
		s.mu.Unlock()
		go b.handle(conn, id)
	}
}

var apiCount sync.Map

func (b *VSimBroker) handle(conn net.Conn, connID int64) {
	s := b.sim
	defer func() {
		conn.Close()
		s.mu.Lock()
		delete(b.conns, connID)
		s.logEvent("conn-close", b.ID, connID, nil)
		s.mu.Unlock()
	}()
	for {
		lenb := make([]byte, 4)
		if _, err := io.ReadFull(conn, lenb); err != nil {
			return
		}
		n := int(binary.BigEndian.Uint32(lenb))
		if n < 8 || n > 256<<20 {
			return
		}
		buf := make([]byte, n)
		if _, err := io.ReadFull(conn, buf); err != nil {
			return
		}
		atomic.AddInt64(&s.progress, 1)
		ctx := &VSimReqCtx{Seq: VerifNextSeq(), Broker: b.ID, Conn: connID, Size: n + 4,
			APIKey: int16(binary.BigEndian.Uint16(buf[0:2])), Version: int16(binary.BigEndian.Uint16(buf[2:4])),
			CorrID: int32(binary.BigEndian.Uint32(buf[4:8]))}
		if len(buf) >= 10 {
			cl := int(int16(binary.BigEndian.Uint16(buf[8:10])))
			if cl >= 0 && 10+cl <= len(buf) {
				ctx.ClientID = string(buf[10 : 10+cl])
			}
		}
		s.mu.Lock()
		cnt := s.countAPI(ctx.APIKey)
		s.mu.Unlock()
		ctx.N = cnt
		act := VSimConnAction{}
		if s.OnRequest != nil {
			act = s.OnRequest(ctx)
		}
		if act.Kind == VConnProceed && ctx.APIKey == 3 && s.OnMetadata != nil {
			act = s.OnMetadata(ctx)
		}
		if act.DelayMs > 0 {
			time.Sleep(time.Duration(act.DelayMs) * time.Millisecond)
		}
		switch act.Kind {
		case VConnDropBefore:
			s.mu.Lock()
			s.logEvent("req-dropped", b.ID, connID, map[string]interface{}{"api": ctx.APIKey, "corr": ctx.CorrID})
			s.mu.Unlock()
			return
		case VConnSilentBefore:
			s.mu.Lock()
			s.logEvent("req-ignored", b.ID, connID, map[string]interface{}{"api": ctx.APIKey, "corr": ctx.CorrID})
			s.mu.Unlock()
			b.waitClose(conn)
			return
		}
		req := &request{}
		if err := decode(buf, req); err != nil {
			// the code under test sent something its own decoder rejects: surface loudly
			s.mu.Lock()
			s.logEvent("undecodable-request", b.ID, connID, map[string]interface{}{"api": ctx.APIKey, "version": ctx.Version, "err": err.Error(), "hex": fmt.Sprintf("%x", buf[:vmin(len(buf), 256)])})
			s.mu.Unlock()
			return
		}
		resp, connAct := s.dispatch(b, connID, ctx, req, buf)
		if connAct > act.Kind {
			act.Kind = connAct
		}
		switch act.Kind {
		case VConnDropAfter:
			return
		case VConnSilentAfter:
			b.waitClose(conn)
			return
		}
		if resp == nil {
			continue // no response expected (acks=0)
		}
		corr := ctx.CorrID
		if act.WrongID {
			corr += 1000
		}
		out := vsFrame(resp.hdrVersion, corr, resp.body)
		if act.Truncate > 0 && act.Truncate < len(out) {
			conn.Write(out[:act.Truncate])
			return
		}
		if _, err := conn.Write(out); err != nil {
			return
		}
	}
}

func vmin(a, b int) int {
	if a < b {
		return a
	}
	return b
}

func (s *VSim) countAPI(key int16) int {
	if s.admin.apiCounts == nil {
		s.admin.apiCounts = map[int16]int{}
	}
	s.admin.apiCounts[key]++
	return s.admin.apiCounts[key]
}

// waitClose blocks until the peer closes the connection (silence).
func (b *VSimBroker) waitClose(conn net.Conn) {
	buf := make([]byte, 4096)
	for {
		if _, err := conn.Read(buf); err != nil {
			return
		}
	}
}

type vsResponse struct {
	hdrVersion int16
	body       []byte
}

func vsFrame(hdrVersion int16, corr int32, body []byte) []byte {
	hl := 8
	if hdrVersion >= 1 {
		hl = 9
	}
	out := make([]byte, hl, hl+len(body))
	binary.BigEndian.PutUint32(out, uint32(len(body)+hl-4))
	binary.BigEndian.PutUint32(out[4:], uint32(corr))
	return append(out, body...)
}

func vsTyped(res protocolBody) *vsResponse {
	enc, err := encode(res, nil)
	if err != nil {
		panic(fmt.Sprintf("vsim: cannot encode %T: %v", res, err))
	}
	return &vsResponse{hdrVersion: res.headerVersion(), body: enc}
}

// dispatch handles one decoded request. It returns the response (nil = none)
// and a connection action demanded by the per-API behaviour.
func (s *VSim) dispatch(b *VSimBroker, connID int64, ctx *VSimReqCtx, req *request, raw []byte) (*vsResponse, int) {
	switch r := req.body.(type) {
	case *MetadataRequest:
		return s.handleMetadata(b, connID, r), VConnProceed
	case *ProduceRequest:
		return s.handleProduce(b, connID, ctx, r, raw)
	case *InitProducerIDRequest:
		s.mu.Lock()
		s.nextPID++
		pid := s.nextPID
		s.logEvent("init-pid", b.ID, connID, map[string]interface{}{"pid": pid})
		s.mu.Unlock()
		return vsTyped(&InitProducerIDResponse{ProducerID: pid, ProducerEpoch: 0}), VConnProceed
	case *OffsetRequest:
		return s.handleListOffsets(b, connID, r), VConnProceed
	case *FetchRequest:
		return s.handleFetch(b, connID, ctx, r)
	case *ApiVersionsRequest:
		return vsTyped(&ApiVersionsResponse{}), VConnProceed
	}
	if resp, act, ok := s.dispatchGroup(b, connID, ctx, req); ok {
		return resp, act
	}
	if resp, act, ok := s.dispatchAdmin(b, connID, ctx, req); ok {
		return resp, act
	}
	s.mu.Lock()
	s.logEvent("unhandled-request", b.ID, connID, map[string]interface{}{"type": fmt.Sprintf("%T", req.body)})
	s.mu.Unlock()
	return nil, VConnDropAfter
}

// ---------------------------------------------------------------- topology

// CreateTopic adds a topic with n partitions; leaders are spread round-robin
// over the brokers, each log starts at base offset `base`.
func (s *VSim) CreateTopic(name string, n int, base int64) {
	s.mu.Lock()
	defer s.mu.Unlock()
	ids := s.brokerIDsLocked()
	t := &vsTopic{parts: map[int32]*vsPartition{}}
	for p := 0; p < n; p++ {
		l := ids[p%len(ids)]
		t.parts[int32(p)] = &vsPartition{leader: l, replicas: []int32{l}, isr: []int32{l}, base: base, logStart: base, pstate: map[int64]*vsProducerState{}, lso: -1}
	}
	s.topics[name] = t
}

func (s *VSim) brokerIDsLocked() []int32 {
	ids := make([]int32, 0, len(s.brokers))
	for id := range s.brokers {
		ids = append(ids, id)
	}
	sort.Slice(ids, func(i, j int) bool { return ids[i] < ids[j] })
	return ids
}

func (s *VSim) DeleteTopic(name string) {
	s.mu.Lock()
	delete(s.topics, name)
	s.mu.Unlock()
}

func (s *VSim) SetTopicError(name string, err KError) {
	s.mu.Lock()
	if t := s.topics[name]; t != nil {
		t.err = err
	} else {
		s.topics[name] = &vsTopic{err: err, parts: map[int32]*vsPartition{}}
	}
	s.mu.Unlock()
}

func (s *VSim) AddPartition(topic string, leader int32, base int64) int32 {
	s.mu.Lock()
	defer s.mu.Unlock()
	t := s.topics[topic]
	id := int32(len(t.parts))
	for {
		if _, ok := t.parts[id]; !ok {
			break
		}
		id++
	}
	t.parts[id] = &vsPartition{leader: leader, replicas: []int32{leader}, isr: []int32{leader}, base: base, logStart: base, pstate: map[int64]*vsProducerState{}, lso: -1}
	return id
}

func (s *VSim) RemovePartition(topic string, id int32) {
	s.mu.Lock()
	if t := s.topics[topic]; t != nil {
		delete(t.parts, id)
	}
	s.mu.Unlock()
}

// SetLeader moves leadership; leader -1 makes the partition leaderless (the
// metadata then carries LEADER_NOT_AVAILABLE for it).
func (s *VSim) SetLeader(topic string, part int32, leader int32) {
	s.mu.Lock()
	defer s.mu.Unlock()
	if t := s.topics[topic]; t != nil {
		if p := t.parts[part]; p != nil {
			p.leader = leader
			s.logEvent("leader-moved", leader, 0, map[string]interface{}{"topic": topic, "partition": part})
		}
	}
}

func (s *VSim) SetReplicas(topic string, part int32, replicas, isr, offline []int32) {
	s.mu.Lock()
	defer s.mu.Unlock()
	if t := s.topics[topic]; t != nil {
		if p := t.parts[part]; p != nil {
			p.replicas, p.isr, p.offline = replicas, isr, offline
		}
	}
}

func (s *VSim) SetPartitionError(topic string, part int32, err KError) {
	s.mu.Lock()
	defer s.mu.Unlock()
	if t := s.topics[topic]; t != nil {
		if p := t.parts[part]; p != nil {
			p.err = err
		}
	}
}

func (s *VSim) Leader(topic string, part int32) int32 {
	s.mu.Lock()
	defer s.mu.Unlock()
	if t := s.topics[topic]; t != nil {
		if p := t.parts[part]; p != nil {
			return p.leader
		}
	}
	return -1
}

func (s *VSim) SetController(id int32) {
	s.mu.Lock()
	s.controller = id
	s.mu.Unlock()
}

// Log returns a copy of a partition's log and its base offset.
func (s *VSim) Log(topic string, part int32) ([]VRec, int64) {
	s.mu.Lock()
	defer s.mu.Unlock()
	if t := s.topics[topic]; t != nil {
		if p := t.parts[part]; p != nil {
			return append([]VRec(nil), p.log...), p.base
		}
	}
	return nil, 0
}

// Append adds records to a partition log directly (consumer workloads).
func (s *VSim) Append(topic string, part int32, recs []VRec) {
	s.mu.Lock()
	defer s.mu.Unlock()
	p := s.topics[topic].parts[part]
	for _, r := range recs {
		r.Offset = p.base + int64(len(p.log))
		p.log = append(p.log, r)
	}
}

func (s *VSim) SetTxnIndex(topic string, part int32, aborted []VSimAborted, lso int64) {
	s.mu.Lock()
	defer s.mu.Unlock()
	p := s.topics[topic].parts[part]
	p.aborted = aborted
	p.lso = lso
}

// ---------------------------------------------------------------- metadata

// VSimMetaSnapshot is what one metadata response said (for C15's reference fold).
type VSimMetaSnapshot struct {
	Ver        int64
	Seq        int64
	Brokers    map[int32]string
	Controller int32
	Topics     map[string]VSimTopicSnap
	Requested  []string
	Full       bool
	Broker     int32
}

type VSimTopicSnap struct {
	Err   int16
	Parts map[int32]VSimPartSnap
}

type VSimPartSnap struct {
	Leader                 int32
	Replicas, Isr, Offline []int32
	Err                    int16
}

func (s *VSim) handleMetadata(b *VSimBroker, connID int64, r *MetadataRequest) *vsResponse {
	s.mu.Lock()
	defer s.mu.Unlock()
	s.metaVer++
	res := &MetadataResponse{Version: r.Version, ControllerID: s.controller}
	if s.electing > 0 {
		s.electing--
		res.ControllerID = -1
	}
	snap := VSimMetaSnapshot{Ver: s.metaVer, Brokers: map[int32]string{}, Controller: res.ControllerID, Topics: map[string]VSimTopicSnap{}, Requested: append([]string(nil), r.Topics...), Full: len(r.Topics) == 0, Broker: b.ID}
	for _, id := range s.brokerIDsLocked() {
		br := s.brokers[id]
		res.AddBroker(br.name, br.ID)
		rack := fmt.Sprintf("v%d", s.metaVer)
		res.Brokers[len(res.Brokers)-1].rack = &rack
		snap.Brokers[id] = br.name
	}
	names := r.Topics
	if len(names) == 0 {
		for t := range s.topics {
			names = append(names, t)
		}
		sort.Strings(names)
	}
	for _, name := range names {
		t, ok := s.topics[name]
		if !ok {
			res.AddTopic(name, ErrUnknownTopicOrPartition)
			snap.Topics[name] = VSimTopicSnap{Err: int16(ErrUnknownTopicOrPartition)}
			continue
		}
		ts := VSimTopicSnap{Err: int16(t.err), Parts: map[int32]VSimPartSnap{}}
		tm := res.AddTopic(name, t.err)
		_ = tm
		pids := make([]int, 0, len(t.parts))
		for id := range t.parts {
			pids = append(pids, int(id))
		}
		sort.Ints(pids)
		for _, pi := range pids {
			p := t.parts[int32(pi)]
			perr := p.err
			if p.leader < 0 && perr == ErrNoError {
				perr = ErrLeaderNotAvailable
			}
			res.AddTopicPartition(name, int32(pi), p.leader, append([]int32(nil), p.replicas...), append([]int32(nil), p.isr...), append([]int32(nil), p.offline...), perr)
			ts.Parts[int32(pi)] = VSimPartSnap{Leader: p.leader, Replicas: append([]int32(nil), p.replicas...), Isr: append([]int32(nil), p.isr...), Offline: append([]int32(nil), p.offline...), Err: int16(perr)}
		}
		// AddTopicPartition resets nothing on the topic error; keep the topic-level error
		for _, tmd := range res.Topics {
			if tmd.Name == name {
				tmd.Err = t.err
			}
		}
		snap.Topics[name] = ts
	}
	snap.Seq = s.logEvent("metadata", b.ID, connID, map[string]interface{}{"ver": s.metaVer, "topics": r.Topics, "snapshot": snap})
	return vsTyped(res)
}

// MetaSnapshots returns every metadata response served so far.
func (s *VSim) MetaSnapshots() []VSimMetaSnapshot {
	s.mu.Lock()
	defer s.mu.Unlock()
	var out []VSimMetaSnapshot
	for _, e := range s.events {
		if e.Kind == "metadata" {
			sn := e.Info["snapshot"].(VSimMetaSnapshot)
			sn.Seq = e.Seq
			out = append(out, sn)
		}
	}
	return out
}

// ---------------------------------------------------------------- list offsets

func (s *VSim) handleListOffsets(b *VSimBroker, connID int64, r *OffsetRequest) *vsResponse {
	s.mu.Lock()
	defer s.mu.Unlock()
	res := &OffsetResponse{Version: r.Version}
	for t, ps := range r.blocks {
		for pid, blk := range ps {
			top := s.topics[t]
			if top == nil || top.parts[pid] == nil {
				res.AddTopicPartition(t, pid, 0)
				res.Blocks[t][pid].Err = ErrUnknownTopicOrPartition
				res.Blocks[t][pid].Offsets = nil
				continue
			}
			part := top.parts[pid]
			if part.leader != b.ID {
				res.AddTopicPartition(t, pid, 0)
				res.Blocks[t][pid].Err = ErrNotLeaderForPartition
				res.Blocks[t][pid].Offsets = nil
				continue
			}
			if s.OnListOffsets != nil {
				if code := s.OnListOffsets(t, pid); code != ErrNoError {
					res.AddTopicPartition(t, pid, 0)
					res.Blocks[t][pid].Err = code
					res.Blocks[t][pid].Offsets = nil
					s.logEvent("list-offsets", b.ID, connID, map[string]interface{}{"topic": t, "partition": pid, "time": blk.time, "code": int16(code)})
					continue
				}
			}
			off := part.base + int64(len(part.log))
			if blk.time == OffsetOldest {
				off = part.logStart
			}
			res.AddTopicPartition(t, pid, off)
			s.logEvent("list-offsets", b.ID, connID, map[string]interface{}{"topic": t, "partition": pid, "time": blk.time, "offset": off})
		}
	}
	return vsTyped(res)
}

// OKFetches returns how many fetch answers without error were served for a partition.
func (s *VSim) OKFetches(topic string, part int32) int64 {
	s.mu.Lock()
	defer s.mu.Unlock()
	if t := s.topics[topic]; t != nil {
		if p := t.parts[part]; p != nil {
			return p.okFetches
		}
	}
	return 0
}

// SetHoles marks offsets of a partition as removed by log compaction: fetch
// answers are framed over the remaining records only (a batch or wrapper then
// has non-contiguous record offsets), the offsets themselves stay taken.
func (s *VSim) SetHoles(topic string, partition int32, offsets []int64) {
	s.mu.Lock()
	defer s.mu.Unlock()
	t := s.topics[topic]
	if t == nil {
		return
	}
	part := t.parts[partition]
	if part == nil {
		return
	}
	part.holes = map[int64]bool{}
	for _, o := range offsets {
		part.holes[o] = true
	}
}
