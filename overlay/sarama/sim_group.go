//go:build verif

package sarama

// Group coordinator of the simulated cluster: Kafka's group state machine
// (Empty -> PreparingRebalance -> CompletingRebalance -> Stable), member ids and
// generations issued by the coordinator, join and sync barriers, and the
// offset store.

import (
	"fmt"
	"hash/fnv"
	"sort"
	"sync"
	"time"
)

type VSimGroupCtx struct {
	ClientID   string
	Seq        int64
	Kind       string // find-coordinator | join | sync | heartbeat | leave | commit | offset-fetch
	N          int    // n-th request of this kind for this group (1-based)
	Broker     int32
	Conn       int64
	Group      string
	Member     string
	Generation int32
	Blocks     []VSimCommitBlock // commit only
}

type VSimCommitBlock struct {
	Topic     string
	Partition int32
	Offset    int64
	Metadata  string
}

const (
	VGProceed         = iota
	VGError           // answer Code (for every partition of a commit / offset fetch) without effect
	VGDropBefore      // close the connection, no effect
	VGDropAfter       // apply, then close the connection without answering
	VGOmitBlocks      // commit / offset-fetch: no effect and leave the blocks out of the answer
	VGPartErrors      // commit: PartCodes applies per "topic/partition" (others accepted)
	VGMoveCoordinator // move the group to broker MoveTo first; this request is then answered NOT_COORDINATOR
)

type VSimGroupAction struct {
	Kind      int
	Code      KError
	PartCodes map[string]KError
	MoveTo    int32
	DelayMs   int
}

// VSimGroupEvent is one coordinator request with the answer it got.
type VSimGroupEvent struct {
	ClientID         string
	Seq              int64
	Kind             string
	N                int
	Broker           int32
	Conn             int64
	Group            string
	Member           string // as sent
	Generation       int32  // as sent
	Code             int16  // answered (top level, or first non-zero partition code)
	Action           int
	IssuedMember     string // join: member id answered
	IssuedGeneration int32  // join: generation answered
	Leader           string
	Members          []string // join answer to the leader: member ids
	State            string   // group state after handling
	Blocks           []VSimCommitBlock
	PartCodes        map[string]int16
	Applied          bool                       // commit: stored
	Assignment       []byte                     // sync: assignment answered
	Subscription     []string                   // join: topics in the member metadata
	Stored           map[string]VSimCommitBlock // offset-fetch: what was answered per topic/partition
}

type vsMember struct {
	id       string
	metadata []byte
	protocol string
	joined   bool // has a pending join in the current rebalance
	wake     chan struct{}
	synced   bool
	syncWake chan struct{}
}

type vsOffset struct {
	offset   int64
	metadata string
}

type vsGroup struct {
	name           string
	coordinator    int32
	state          string
	generation     int32
	members        map[string]*vsMember
	leader         string
	protocol       string
	nextMember     int
	offsets        map[string]*vsOffset // "topic/partition"
	assignments    map[string][]byte
	counts         map[string]int
	rebalanceTimer *time.Timer
	cond           *sync.Cond
}

func (s *VSim) groupLocked(name string) *vsGroup {
	g := s.groups[name]
	if g == nil {
		ids := s.brokerIDsLocked()
		h := fnv.New32a()
		h.Write([]byte(name))
		g = &vsGroup{name: name, coordinator: ids[int(h.Sum32())%len(ids)], state: "Empty", members: map[string]*vsMember{},
			offsets: map[string]*vsOffset{}, assignments: map[string][]byte{}, counts: map[string]int{}}
		g.cond = sync.NewCond(&s.mu)
		s.groups[name] = g
	}
	return g
}

func (s *VSim) SetCoordinator(group string, broker int32) {
	s.mu.Lock()
	s.groupLocked(group).coordinator = broker
	s.mu.Unlock()
}

func (s *VSim) Coordinator(group string) int32 {
	s.mu.Lock()
	defer s.mu.Unlock()
	return s.groupLocked(group).coordinator
}

// SetStoredOffset preloads the offset store.
func (s *VSim) SetStoredOffset(group, topic string, part int32, offset int64, metadata string) {
	s.mu.Lock()
	s.groupLocked(group).offsets[fmt.Sprintf("%s/%d", topic, part)] = &vsOffset{offset, metadata}
	s.mu.Unlock()
}

func (s *VSim) StoredOffset(group, topic string, part int32) (int64, string, bool) {
	s.mu.Lock()
	defer s.mu.Unlock()
	o := s.groupLocked(group).offsets[fmt.Sprintf("%s/%d", topic, part)]
	if o == nil {
		return -1, "", false
	}
	return o.offset, o.metadata, true
}

// ExpireMember removes a member as a session timeout would and starts a rebalance.
func (s *VSim) ExpireMember(group, member string) {
	s.mu.Lock()
	g := s.groupLocked(group)
	if _, ok := g.members[member]; ok {
		delete(g.members, member)
		s.logEvent("group-expire", g.coordinator, 0, map[string]interface{}{"group": group, "member": member})
		s.prepareRebalanceLocked(g)
		s.maybeCompleteJoinLocked(g)
	}
	s.mu.Unlock()
}

// TriggerRebalance puts a stable group into PreparingRebalance (as a new member or a metadata change would).
func (s *VSim) TriggerRebalance(group string) {
	s.mu.Lock()
	g := s.groupLocked(group)
	s.prepareRebalanceLocked(g)
	s.mu.Unlock()
}

func (s *VSim) GroupState(group string) (state string, generation int32, members []string) {
	s.mu.Lock()
	defer s.mu.Unlock()
	g := s.groupLocked(group)
	for m := range g.members {
		members = append(members, m)
	}
	sort.Strings(members)
	return g.state, g.generation, members
}

func (s *VSim) prepareRebalanceLocked(g *vsGroup) {
	if g.state == "PreparingRebalance" {
		return
	}
	if len(g.members) == 0 {
		g.state = "Empty"
		return
	}
	g.state = "PreparingRebalance"
	for _, m := range g.members {
		m.joined = false
		m.synced = false
	}
	g.assignments = map[string][]byte{}
	g.cond.Broadcast()
}

// maybeCompleteJoinLocked finishes the join barrier when every member has rejoined.
func (s *VSim) maybeCompleteJoinLocked(g *vsGroup) {
	if g.state != "PreparingRebalance" {
		return
	}
	if len(g.members) == 0 {
		g.state = "Empty"
		g.cond.Broadcast()
		return
	}
	for _, m := range g.members {
		if !m.joined {
			return
		}
	}
	g.generation++
	g.state = "CompletingRebalance"
	if _, ok := g.members[g.leader]; !ok {
		ids := make([]string, 0, len(g.members))
		for id := range g.members {
			ids = append(ids, id)
		}
		sort.Strings(ids)
		g.leader = ids[0]
	}
	if g.rebalanceTimer != nil {
		g.rebalanceTimer.Stop()
		g.rebalanceTimer = nil
	}
	g.cond.Broadcast()
}

func (s *VSim) groupEvent(ev *VSimGroupEvent) {
	ev.Seq = s.logEvent("group", ev.Broker, ev.Conn, map[string]interface{}{"g": *ev})
}

// GroupEvents returns the coordinator-side history.
func (s *VSim) GroupEvents() []VSimGroupEvent {
	s.mu.Lock()
	defer s.mu.Unlock()
	var out []VSimGroupEvent
	for _, e := range s.events {
		if e.Kind == "group" {
			g := e.Info["g"].(VSimGroupEvent)
			g.Seq = e.Seq
			out = append(out, g)
		}
	}
	return out
}

func (s *VSim) dispatchGroup(b *VSimBroker, connID int64, ctx *VSimReqCtx, req *request) (*vsResponse, int, bool) {
	gc := &VSimGroupCtx{ClientID: ctx.ClientID, Seq: ctx.Seq, Broker: b.ID, Conn: connID}
	switch r := req.body.(type) {
	case *FindCoordinatorRequest:
		gc.Kind, gc.Group = "find-coordinator", r.CoordinatorKey
	case *ConsumerMetadataRequest:
		gc.Kind, gc.Group = "find-coordinator", r.ConsumerGroup
	case *JoinGroupRequest:
		gc.Kind, gc.Group, gc.Member = "join", r.GroupId, r.MemberId
	case *SyncGroupRequest:
		gc.Kind, gc.Group, gc.Member, gc.Generation = "sync", r.GroupId, r.MemberId, r.GenerationId
	case *HeartbeatRequest:
		gc.Kind, gc.Group, gc.Member, gc.Generation = "heartbeat", r.GroupId, r.MemberId, r.GenerationId
	case *LeaveGroupRequest:
		gc.Kind, gc.Group, gc.Member = "leave", r.GroupId, r.MemberId
	case *OffsetCommitRequest:
		gc.Kind, gc.Group, gc.Member, gc.Generation = "commit", r.ConsumerGroup, r.ConsumerID, r.ConsumerGroupGeneration
		for t, ps := range r.blocks {
			for p, blk := range ps {
				gc.Blocks = append(gc.Blocks, VSimCommitBlock{t, p, blk.offset, blk.metadata})
			}
		}
		sort.Slice(gc.Blocks, func(i, j int) bool {
			if gc.Blocks[i].Topic != gc.Blocks[j].Topic {
				return gc.Blocks[i].Topic < gc.Blocks[j].Topic
			}
			return gc.Blocks[i].Partition < gc.Blocks[j].Partition
		})
	case *OffsetFetchRequest:
		gc.Kind, gc.Group = "offset-fetch", r.ConsumerGroup
	default:
		return nil, 0, false
	}
	s.mu.Lock()
	g := s.groupLocked(gc.Group)
	g.counts[gc.Kind]++
	gc.N = g.counts[gc.Kind]
	s.mu.Unlock()
	act := VSimGroupAction{}
	if s.OnGroup != nil {
		act = s.OnGroup(gc)
	}
	if act.DelayMs > 0 {
		time.Sleep(time.Duration(act.DelayMs) * time.Millisecond)
	}
	ev := &VSimGroupEvent{ClientID: gc.ClientID, Kind: gc.Kind, N: gc.N, Broker: b.ID, Conn: connID, Group: gc.Group, Member: gc.Member, Generation: gc.Generation, Action: act.Kind, Blocks: gc.Blocks}
	if act.Kind == VGDropBefore {
		s.mu.Lock()
		ev.Code = -100
		ev.State = g.state
		s.groupEvent(ev)
		s.mu.Unlock()
		return nil, VConnDropAfter, true
	}
	if act.Kind == VGMoveCoordinator {
		s.mu.Lock()
		g.coordinator = act.MoveTo
		s.mu.Unlock()
	}
	if act.Kind == VGError && act.Code == ErrUnknownMemberId && gc.Member != "" {
		// make the injected answer true: the coordinator has removed the member (as a session timeout would)
		s.mu.Lock()
		if _, ok := g.members[gc.Member]; ok {
			delete(g.members, gc.Member)
			s.logEvent("group-expire", g.coordinator, 0, map[string]interface{}{"group": g.name, "member": gc.Member, "why": "injected fencing"})
			s.prepareRebalanceLocked(g)
			s.maybeCompleteJoinLocked(g)
		}
		s.mu.Unlock()
	}
	resp := s.handleGroup(b, g, gc, act, ev, req)
	if act.Kind == VGDropAfter {
		return nil, VConnDropAfter, true
	}
	return resp, VConnProceed, true
}

func (s *VSim) handleGroup(b *VSimBroker, g *vsGroup, gc *VSimGroupCtx, act VSimGroupAction, ev *VSimGroupEvent, req *request) *vsResponse {
	s.mu.Lock()
	defer s.mu.Unlock()
	defer func() {
		ev.State = g.state
		s.groupEvent(ev)
	}()
	forced := ErrNoError
	if act.Kind == VGError {
		forced = act.Code
	}
	notCoord := g.coordinator != b.ID
	switch r := req.body.(type) {
	case *FindCoordinatorRequest, *ConsumerMetadataRequest:
		code := forced
		var co *Broker
		if cb := s.brokers[g.coordinator]; cb != nil {
			co = &Broker{id: cb.ID, addr: cb.name}
		} else if code == ErrNoError {
			code = ErrConsumerCoordinatorNotAvailable
		}
		if code != ErrNoError {
			co = &Broker{id: -1, addr: ":0"}
		}
		ev.Code = int16(code)
		if _, ok := r.(*FindCoordinatorRequest); ok {
			return vsTyped(&FindCoordinatorResponse{Version: r.(*FindCoordinatorRequest).Version, Err: code, Coordinator: co})
		}
		res := &ConsumerMetadataResponse{Err: code, Coordinator: co}
		return vsTyped(res)

	case *JoinGroupRequest:
		res := &JoinGroupResponse{Version: r.Version}
		code := forced
		if code == ErrNoError && notCoord {
			code = ErrNotCoordinatorForConsumer
		}
		if code == ErrNoError && r.MemberId != "" {
			if _, ok := g.members[r.MemberId]; !ok {
				code = ErrUnknownMemberId
			}
		}
		if code != ErrNoError {
			res.Err = code
			ev.Code = int16(code)
			return vsTyped(res)
		}
		id := r.MemberId
		if id == "" {
			g.nextMember++
			id = fmt.Sprintf("%s-member-%d-%08x", ctxClientID(req), g.nextMember, uint32(g.nextMember)*2654435761)
			g.members[id] = &vsMember{id: id}
		}
		m := g.members[id]
		var proto string
		var meta []byte
		if len(r.OrderedGroupProtocols) > 0 {
			proto, meta = r.OrderedGroupProtocols[0].Name, r.OrderedGroupProtocols[0].Metadata
		} else {
			for k, v := range r.GroupProtocols {
				proto, meta = k, v
			}
		}
		m.protocol, m.metadata = proto, meta
		mm := new(ConsumerGroupMemberMetadata)
		if decode(meta, mm) == nil {
			ev.Subscription = append([]string(nil), mm.Topics...)
		}
		s.prepareRebalanceLocked(g)
		if g.state == "Empty" {
			g.state = "PreparingRebalance"
		}
		m.joined = true
		g.protocol = proto
		myGenBefore := g.generation
		// rebalance timeout: members that did not rejoin are removed
		if g.rebalanceTimer == nil {
			to := time.Duration(r.RebalanceTimeout) * time.Millisecond
			if r.Version == 0 || to <= 0 {
				to = time.Duration(r.SessionTimeout) * time.Millisecond
			}
			if to <= 0 {
				to = time.Second
			}
			gg := g
			g.rebalanceTimer = time.AfterFunc(to, func() {
				s.mu.Lock()
				if gg.state == "PreparingRebalance" {
					for id, mem := range gg.members {
						if !mem.joined {
							delete(gg.members, id)
							s.logEvent("group-expire", gg.coordinator, 0, map[string]interface{}{"group": gg.name, "member": id, "why": "rebalance timeout"})
						}
					}
					gg.rebalanceTimer = nil
					s.maybeCompleteJoinLocked(gg)
				}
				s.mu.Unlock()
			})
		}
		s.maybeCompleteJoinLocked(g)
		for g.state == "PreparingRebalance" && g.generation == myGenBefore {
			if _, still := g.members[id]; !still {
				break
			}
			g.cond.Wait()
		}
		if _, still := g.members[id]; !still {
			res.Err = ErrUnknownMemberId
			ev.Code = int16(res.Err)
			return vsTyped(res)
		}
		res.GenerationId, res.GroupProtocol, res.LeaderId, res.MemberId = g.generation, g.protocol, g.leader, id
		ev.IssuedMember, ev.IssuedGeneration, ev.Leader = id, g.generation, g.leader
		if id == g.leader {
			res.Members = map[string][]byte{}
			for mid, mem := range g.members {
				res.Members[mid] = mem.metadata
				ev.Members = append(ev.Members, mid)
			}
			sort.Strings(ev.Members)
		}
		return vsTyped(res)

	case *SyncGroupRequest:
		res := &SyncGroupResponse{}
		code := forced
		switch {
		case code != ErrNoError:
		case notCoord:
			code = ErrNotCoordinatorForConsumer
		case g.members[r.MemberId] == nil:
			code = ErrUnknownMemberId
		case r.GenerationId != g.generation:
			code = ErrIllegalGeneration
		case g.state == "PreparingRebalance":
			code = ErrRebalanceInProgress
		}
		if code != ErrNoError {
			res.Err = code
			ev.Code = int16(code)
			return vsTyped(res)
		}
		if g.state == "CompletingRebalance" {
			if r.MemberId == g.leader {
				for mid, a := range r.GroupAssignments {
					g.assignments[mid] = a
				}
				g.state = "Stable"
				g.cond.Broadcast()
			} else {
				gen := g.generation
				for g.state == "CompletingRebalance" && g.generation == gen {
					g.cond.Wait()
				}
				if g.state != "Stable" || g.generation != gen {
					res.Err = ErrRebalanceInProgress
					ev.Code = int16(res.Err)
					return vsTyped(res)
				}
			}
		}
		res.MemberAssignment = g.assignments[r.MemberId]
		ev.Assignment = res.MemberAssignment
		return vsTyped(res)

	case *HeartbeatRequest:
		code := forced
		switch {
		case code != ErrNoError:
		case notCoord:
			code = ErrNotCoordinatorForConsumer
		case g.members[r.MemberId] == nil:
			code = ErrUnknownMemberId
		case r.GenerationId != g.generation:
			code = ErrIllegalGeneration
		case g.state != "Stable":
			code = ErrRebalanceInProgress
		}
		ev.Code = int16(code)
		return vsTyped(&HeartbeatResponse{Err: code})

	case *LeaveGroupRequest:
		code := forced
		switch {
		case code != ErrNoError:
		case notCoord:
			code = ErrNotCoordinatorForConsumer
		case g.members[r.MemberId] == nil:
			code = ErrUnknownMemberId
		default:
			delete(g.members, r.MemberId)
			if len(g.members) == 0 {
				g.state = "Empty"
				g.cond.Broadcast()
			} else {
				s.prepareRebalanceLocked(g)
				s.maybeCompleteJoinLocked(g)
			}
		}
		ev.Code = int16(code)
		return vsTyped(&LeaveGroupResponse{Err: code})

	case *OffsetCommitRequest:
		res := &OffsetCommitResponse{Version: r.Version}
		code := forced
		switch {
		case code != ErrNoError:
		case notCoord:
			code = ErrNotCoordinatorForConsumer
		case r.Version >= 1 && (r.ConsumerID != "" || r.ConsumerGroupGeneration >= 0):
			switch {
			case g.members[r.ConsumerID] == nil:
				code = ErrUnknownMemberId
			case r.ConsumerGroupGeneration != g.generation:
				code = ErrIllegalGeneration
			case g.state == "CompletingRebalance":
				code = ErrRebalanceInProgress
			}
		}
		ev.PartCodes = map[string]int16{}
		if act.Kind == VGOmitBlocks {
			ev.Code = -101
			return vsTyped(res)
		}
		for _, blk := range gc.Blocks {
			key := fmt.Sprintf("%s/%d", blk.Topic, blk.Partition)
			pc := code
			if act.Kind == VGPartErrors {
				if c, ok := act.PartCodes[key]; ok && pc == ErrNoError {
					pc = c
				}
			}
			if pc == ErrNoError {
				g.offsets[key] = &vsOffset{blk.Offset, blk.Metadata}
				ev.Applied = true
			}
			ev.PartCodes[key] = int16(pc)
			if pc != ErrNoError && ev.Code == 0 {
				ev.Code = int16(pc)
			}
			res.AddError(blk.Topic, blk.Partition, pc)
		}
		return vsTyped(res)

	case *OffsetFetchRequest:
		res := &OffsetFetchResponse{Version: r.Version}
		code := forced
		if code == ErrNoError && notCoord {
			code = ErrNotCoordinatorForConsumer
		}
		ev.Code = int16(code)
		ev.Stored = map[string]VSimCommitBlock{}
		if act.Kind == VGOmitBlocks {
			ev.Code = -101
			return vsTyped(res)
		}
		if r.Version >= 2 {
			res.Err = code // group-level code (v2+)
		}
		parts := r.partitions
		if parts == nil && r.Version >= 2 && code == ErrNoError {
			// null array = every partition the group has an offset for
			parts = map[string][]int32{}
			for key := range g.offsets {
				var t string
				var p int32
				vsSplitTP(key, &t, &p)
				parts[t] = append(parts[t], p)
			}
		}
		for t, ps := range parts {
			for _, p := range ps {
				key := fmt.Sprintf("%s/%d", t, p)
				blk := &OffsetFetchResponseBlock{Offset: -1, Err: code}
				if o := g.offsets[key]; o != nil && code == ErrNoError {
					blk.Offset, blk.Metadata = o.offset, o.metadata
				}
				ev.Stored[key] = VSimCommitBlock{t, p, blk.Offset, blk.Metadata}
				res.AddBlock(t, p, blk)
			}
		}
		return vsTyped(res)
	}
	return nil
}

func ctxClientID(req *request) string {
	if req.clientID == "" {
		return "client"
	}
	return req.clientID
}
