//go:build verif

package sarama

// Independent reference reader/writer for Kafka record data, written from the
// protocol documentation (not from sarama's codecs): legacy message sets with
// magic 0/1 (CRC32-IEEE, compressed wrappers with absolute/relative inner
// offsets), record batches with magic 2 (CRC32C, zig-zag varints), all codecs.
// Only third-party compression libraries are shared with the code under test.

import (
	"bytes"
	"compress/gzip"
	"encoding/binary"
	"errors"
	"fmt"
	"hash/crc32"
	"io/ioutil"
	"sync"

	snappy "github.com/eapache/go-xerial-snappy"
	"github.com/klauspost/compress/zstd"
	"github.com/pierrec/lz4"
)

type VHeader struct{ Key, Value []byte }

// VRec is one record as the simulated log stores it and as the reference
// reader returns it.
type VRec struct {
	Offset        int64
	Key, Value    []byte // nil and empty are distinct
	Headers       []VHeader
	TsMs          int64 // milliseconds; -1 = none
	PID           int64
	Epoch         int16
	Seq           int32
	Transactional bool
	Control       bool
	ControlType   int16 // 0 abort, 1 commit (control records only)
	Magic         int8
	Codec         int8
	LogAppendTime bool
}

// VBatch is one batch (v2) or one outer message (legacy) as found on the wire.
type VBatch struct {
	Magic           int8
	Codec           int8
	BaseOffset      int64
	LastOffsetDelta int32
	PID             int64
	Epoch           int16
	BaseSeq         int32
	Transactional   bool
	Control         bool
	FirstTsMs       int64
	MaxTsMs         int64
	Recs            []VRec
	WireBytes       int
	Notes           []string // rule violations found by the reference reader
}

var vrCastagnoli = crc32.MakeTable(crc32.Castagnoli)

// one shared zstd encoder/decoder (creating them per call costs tens of milliseconds)
var (
	vrZstdOnce sync.Once
	vrZstdEnc  *zstd.Encoder
	vrZstdDec  *zstd.Decoder
)

func vrZstdInit() {
	vrZstdEnc, _ = zstd.NewWriter(nil, zstd.WithZeroFrames(true), zstd.WithEncoderConcurrency(1))
	vrZstdDec, _ = zstd.NewReader(nil, zstd.WithDecoderConcurrency(1))
}

var errVRShort = errors.New("ref: short data")

func vrZigZag(b []byte) (int64, int, error) {
	var ux uint64
	var s uint
	for i := 0; i < len(b); i++ {
		c := b[i]
		if i == 10 {
			return 0, 0, errors.New("ref: varint too long")
		}
		if c < 0x80 {
			if i == 9 && c > 1 {
				return 0, 0, errors.New("ref: varint overflows 64 bits")
			}
			ux |= uint64(c) << s
			x := int64(ux >> 1)
			if ux&1 != 0 {
				x = ^x
			}
			return x, i + 1, nil
		}
		ux |= uint64(c&0x7f) << s
		s += 7
	}
	return 0, 0, errVRShort
}

func vrPutZigZag(dst []byte, x int64) []byte {
	ux := uint64(x) << 1
	if x < 0 {
		ux = ^ux
	}
	for ux >= 0x80 {
		dst = append(dst, byte(ux)|0x80)
		ux >>= 7
	}
	return append(dst, byte(ux))
}

func vrVarintLen(x int64) int { return len(vrPutZigZag(nil, x)) }

func vrDecompress(codec int8, data []byte) ([]byte, error) {
	switch codec {
	case 0:
		return data, nil
	case 1:
		r, err := gzip.NewReader(bytes.NewReader(data))
		if err != nil {
			return nil, err
		}
		return ioutil.ReadAll(r)
	case 2:
		return snappy.Decode(data)
	case 3:
		return ioutil.ReadAll(lz4.NewReader(bytes.NewReader(data)))
	case 4:
		vrZstdOnce.Do(vrZstdInit)
		return vrZstdDec.DecodeAll(data, nil)
	}
	return nil, fmt.Errorf("ref: unknown codec %d", codec)
}

var (
	vrGzipPool = sync.Pool{New: func() interface{} { return gzip.NewWriter(ioutil.Discard) }}
	vrLz4Pool  = sync.Pool{New: func() interface{} { return lz4.NewWriter(ioutil.Discard) }}
	vrCacheMu  sync.Mutex
	vrCache    = map[string][]byte{}
)

// vrCompress compresses with pooled writers and a small memo (fetches are
// repeated after partial answers and redispatches).
func vrCompress(codec int8, data []byte) []byte {
	if codec == 0 {
		return data
	}
	key := string([]byte{byte(codec)}) + string(data)
	vrCacheMu.Lock()
	if out, ok := vrCache[key]; ok {
		vrCacheMu.Unlock()
		return out
	}
	vrCacheMu.Unlock()
	var buf bytes.Buffer
	var out []byte
	switch codec {
	case 1:
		w := vrGzipPool.Get().(*gzip.Writer)
		w.Reset(&buf)
		w.Write(data)
		w.Close()
		vrGzipPool.Put(w)
		out = buf.Bytes()
	case 2:
		out = snappy.Encode(data)
	case 3:
		w := vrLz4Pool.Get().(*lz4.Writer)
		w.Reset(&buf)
		w.Write(data)
		w.Close()
		vrLz4Pool.Put(w)
		out = buf.Bytes()
	case 4:
		vrZstdOnce.Do(vrZstdInit)
		out = vrZstdEnc.EncodeAll(data, nil)
	}
	vrCacheMu.Lock()
	if len(vrCache) > 512 {
		vrCache = map[string][]byte{}
	}
	vrCache[key] = out
	vrCacheMu.Unlock()
	return out
}

// VRefParseRecordSet parses a record set (the bytes after the int32 size of a
// produce partition / fetch partition). partial reports an incomplete trailing
// batch or message (legal in fetch responses).
func VRefParseRecordSet(b []byte) (batches []VBatch, partial bool, err error) {
	for len(b) > 0 {
		if len(b) < 17 {
			return batches, true, nil
		}
		size := int(int32(binary.BigEndian.Uint32(b[8:12])))
		if size < 0 {
			return batches, false, fmt.Errorf("ref: negative batch/message size %d", size)
		}
		if len(b) < 12+size {
			return batches, true, nil
		}
		magic := int8(b[16])
		var vb VBatch
		switch magic {
		case 0, 1:
			vb, err = vrParseLegacy(b[:12+size])
		case 2:
			vb, err = vrParseBatchV2(b[:12+size])
		default:
			err = fmt.Errorf("ref: unknown magic %d", magic)
		}
		if err != nil {
			return batches, false, err
		}
		vb.WireBytes = 12 + size
		batches = append(batches, vb)
		b = b[12+size:]
	}
	return batches, false, nil
}

func vrNullableBytes32(b []byte) ([]byte, []byte, error) {
	if len(b) < 4 {
		return nil, nil, errVRShort
	}
	n := int(int32(binary.BigEndian.Uint32(b)))
	b = b[4:]
	if n == -1 {
		return nil, b, nil
	}
	if n < -1 || n > len(b) {
		return nil, nil, fmt.Errorf("ref: bytes length %d exceeds remaining %d", n, len(b))
	}
	v := make([]byte, n)
	copy(v, b[:n])
	return v, b[n:], nil
}

func vrParseLegacy(b []byte) (VBatch, error) {
	vb := VBatch{PID: -1, Epoch: -1, BaseSeq: -1}
	off := int64(binary.BigEndian.Uint64(b[0:8]))
	body := b[12:]
	if len(body) < 14 {
		return vb, fmt.Errorf("ref: legacy message of %d bytes is too small", len(body))
	}
	crc := binary.BigEndian.Uint32(body[0:4])
	if got := crc32.ChecksumIEEE(body[4:]); got != crc {
		return vb, fmt.Errorf("ref: legacy message crc mismatch: stored %#x computed %#x (IEEE over magic..value)", crc, got)
	}
	magic := int8(body[4])
	attr := body[5]
	rest := body[6:]
	ts := int64(-1)
	if magic >= 1 {
		if len(rest) < 8 {
			return vb, errVRShort
		}
		ts = int64(binary.BigEndian.Uint64(rest[:8]))
		rest = rest[8:]
	}
	key, rest, err := vrNullableBytes32(rest)
	if err != nil {
		return vb, err
	}
	val, rest, err := vrNullableBytes32(rest)
	if err != nil {
		return vb, err
	}
	if len(rest) != 0 {
		return vb, fmt.Errorf("ref: %d trailing bytes inside legacy message", len(rest))
	}
	if attr&0xf0 != 0 && !(magic >= 1 && attr&0xf7 == attr) {
		vb.Notes = append(vb.Notes, fmt.Sprintf("legacy attributes %#x has reserved bits set", attr))
	}
	vb.Magic, vb.Codec, vb.BaseOffset = magic, int8(attr&7), off
	logAppend := magic >= 1 && attr&8 != 0
	vb.FirstTsMs, vb.MaxTsMs = ts, ts
	if vb.Codec == 0 {
		vb.Recs = []VRec{{Offset: off, Key: key, Value: val, TsMs: ts, PID: -1, Epoch: -1, Seq: -1, Magic: magic, LogAppendTime: logAppend}}
		return vb, nil
	}
	inner, err := vrDecompress(vb.Codec, val)
	if err != nil {
		return vb, fmt.Errorf("ref: decompressing legacy wrapper (codec %d): %v", vb.Codec, err)
	}
	ib, part, err := VRefParseRecordSet(inner)
	if err != nil {
		return vb, fmt.Errorf("ref: inner message set: %v", err)
	}
	if part {
		return vb, errors.New("ref: inner message set is truncated")
	}
	for _, x := range ib {
		if x.Codec != 0 {
			vb.Notes = append(vb.Notes, "nested compressed wrapper inside a wrapper")
		}
		if x.Magic != magic {
			vb.Notes = append(vb.Notes, fmt.Sprintf("inner magic %d differs from wrapper magic %d", x.Magic, magic))
		}
		for _, r := range x.Recs {
			r.Codec = vb.Codec
			if logAppend {
				r.TsMs = ts
				r.LogAppendTime = true
			}
			vb.Recs = append(vb.Recs, r)
		}
	}
	if len(vb.Recs) == 0 {
		return vb, errors.New("ref: empty compressed wrapper")
	}
	if magic >= 1 {
		// inner offsets are relative: 0..n-1, the wrapper carries the offset of the last inner message
		for i := range vb.Recs {
			if vb.Recs[i].Offset != int64(i) {
				vb.Notes = append(vb.Notes, fmt.Sprintf("magic-1 wrapper: inner offset %d at index %d is not relative (want %d)", vb.Recs[i].Offset, i, i))
			}
		}
		last := vb.Recs[len(vb.Recs)-1].Offset
		for i := range vb.Recs {
			vb.Recs[i].Offset = off - last + vb.Recs[i].Offset
		}
	}
	vb.LastOffsetDelta = int32(len(vb.Recs) - 1)
	return vb, nil
}

func vrParseBatchV2(b []byte) (VBatch, error) {
	vb := VBatch{Magic: 2}
	if len(b) < 61 {
		return vb, fmt.Errorf("ref: record batch of %d bytes is smaller than its 61-byte header", len(b))
	}
	vb.BaseOffset = int64(binary.BigEndian.Uint64(b[0:8]))
	// b[8:12] batchLength (checked by the caller), b[12:16] partitionLeaderEpoch, b[16] magic
	crc := binary.BigEndian.Uint32(b[17:21])
	if got := crc32.Checksum(b[21:], vrCastagnoli); got != crc {
		return vb, fmt.Errorf("ref: record batch crc mismatch: stored %#x computed %#x (CRC32C over attributes..end)", crc, got)
	}
	attr := binary.BigEndian.Uint16(b[21:23])
	vb.Codec = int8(attr & 7)
	logAppend := attr&8 != 0
	vb.Transactional = attr&16 != 0
	vb.Control = attr&32 != 0
	if attr&^0x3f != 0 {
		vb.Notes = append(vb.Notes, fmt.Sprintf("batch attributes %#x has unknown bits set", attr))
	}
	vb.LastOffsetDelta = int32(binary.BigEndian.Uint32(b[23:27]))
	vb.FirstTsMs = int64(binary.BigEndian.Uint64(b[27:35]))
	vb.MaxTsMs = int64(binary.BigEndian.Uint64(b[35:43]))
	vb.PID = int64(binary.BigEndian.Uint64(b[43:51]))
	vb.Epoch = int16(binary.BigEndian.Uint16(b[51:53]))
	vb.BaseSeq = int32(binary.BigEndian.Uint32(b[53:57]))
	n := int(int32(binary.BigEndian.Uint32(b[57:61])))
	if n < 0 {
		return vb, fmt.Errorf("ref: negative record count %d", n)
	}
	payload, err := vrDecompress(vb.Codec, b[61:])
	if err != nil {
		return vb, fmt.Errorf("ref: decompressing records (codec %d): %v", vb.Codec, err)
	}
	for i := 0; i < n; i++ {
		l, k, err := vrZigZag(payload)
		if err != nil {
			return vb, fmt.Errorf("ref: record %d length: %v", i, err)
		}
		if k != vrVarintLen(l) {
			vb.Notes = append(vb.Notes, fmt.Sprintf("record %d length varint is not minimal", i))
		}
		payload = payload[k:]
		if l < 0 || int(l) > len(payload) {
			return vb, fmt.Errorf("ref: record %d length %d exceeds remaining %d", i, l, len(payload))
		}
		rb := payload[:l]
		payload = payload[l:]
		rec, notes, err := vrParseRecord(rb)
		if err != nil {
			return vb, fmt.Errorf("ref: record %d: %v", i, err)
		}
		for _, nn := range notes {
			vb.Notes = append(vb.Notes, fmt.Sprintf("record %d: %s", i, nn))
		}
		od := rec.Offset
		rec.Offset = vb.BaseOffset + od
		tsDelta := rec.TsMs
		rec.TsMs = vb.FirstTsMs + tsDelta
		if logAppend {
			rec.TsMs = vb.MaxTsMs
			rec.LogAppendTime = true
		}
		rec.PID, rec.Epoch, rec.Magic, rec.Codec = vb.PID, vb.Epoch, 2, vb.Codec
		rec.Seq = -1
		if vb.BaseSeq >= 0 {
			rec.Seq = vb.BaseSeq + int32(i)
		}
		rec.Transactional, rec.Control = vb.Transactional, vb.Control
		if vb.Control {
			if len(rec.Key) >= 4 {
				rec.ControlType = int16(binary.BigEndian.Uint16(rec.Key[2:4]))
			} else {
				vb.Notes = append(vb.Notes, "control record key shorter than 4 bytes")
			}
		}
		if od != int64(i) {
			vb.Notes = append(vb.Notes, fmt.Sprintf("offsetDelta-seq: record %d has offset delta %d", i, od))
		}
		vb.Recs = append(vb.Recs, rec)
	}
	if len(payload) != 0 {
		return vb, fmt.Errorf("ref: %d trailing bytes after %d records", len(payload), n)
	}
	return vb, nil
}

func vrParseRecord(b []byte) (VRec, []string, error) {
	var r VRec
	var notes []string
	if len(b) < 1 {
		return r, nil, errVRShort
	}
	if b[0] != 0 {
		notes = append(notes, fmt.Sprintf("record attributes %#x (must be 0)", b[0]))
	}
	b = b[1:]
	rd := func() (int64, error) {
		v, k, err := vrZigZag(b)
		if err != nil {
			return 0, err
		}
		if k != vrVarintLen(v) {
			notes = append(notes, "non-minimal varint")
		}
		b = b[k:]
		return v, nil
	}
	rdBytes := func(what string) ([]byte, error) {
		n, err := rd()
		if err != nil {
			return nil, err
		}
		if n == -1 {
			return nil, nil
		}
		if n < -1 || int(n) > len(b) {
			return nil, fmt.Errorf("%s length %d exceeds remaining %d", what, n, len(b))
		}
		v := make([]byte, n)
		copy(v, b[:n])
		b = b[n:]
		return v, nil
	}
	var err error
	if r.TsMs, err = rd(); err != nil {
		return r, notes, err
	}
	if r.Offset, err = rd(); err != nil {
		return r, notes, err
	}
	if r.Key, err = rdBytes("key"); err != nil {
		return r, notes, err
	}
	if r.Value, err = rdBytes("value"); err != nil {
		return r, notes, err
	}
	nh, err := rd()
	if err != nil {
		return r, notes, err
	}
	if nh < 0 || int(nh) > len(b) {
		return r, notes, fmt.Errorf("header count %d", nh)
	}
	for i := 0; i < int(nh); i++ {
		k, err := rdBytes("header key")
		if err != nil {
			return r, notes, err
		}
		if k == nil {
			notes = append(notes, "null header key")
		}
		v, err := rdBytes("header value")
		if err != nil {
			return r, notes, err
		}
		r.Headers = append(r.Headers, VHeader{k, v})
	}
	if len(b) != 0 {
		return r, notes, fmt.Errorf("%d trailing bytes in record", len(b))
	}
	return r, notes, nil
}

// ---------------------------------------------------------------- writer

// VRefBatchSpec describes a batch to be written by the reference writer.
type VRefBatchSpec struct {
	Magic         int8 // 0, 1 (legacy) or 2
	Codec         int8
	Recs          []VRec // Offset fields are absolute
	PID           int64
	Epoch         int16
	BaseSeq       int32
	Transactional bool
	Control       bool
	LogAppendTime bool
	LeaderEpoch   int32
}

func vrPutBytes32(dst []byte, b []byte) []byte {
	if b == nil {
		return binary.BigEndian.AppendUint32(dst, 0xffffffff)
	}
	dst = binary.BigEndian.AppendUint32(dst, uint32(len(b)))
	return append(dst, b...)
}

func vrLegacyMessage(magic int8, attr byte, off int64, ts int64, key, val []byte) []byte {
	var body []byte
	body = append(body, byte(magic), attr)
	if magic >= 1 {
		body = binary.BigEndian.AppendUint64(body, uint64(ts))
	}
	body = vrPutBytes32(body, key)
	body = vrPutBytes32(body, val)
	var out []byte
	out = binary.BigEndian.AppendUint64(out, uint64(off))
	out = binary.BigEndian.AppendUint32(out, uint32(len(body)+4))
	out = binary.BigEndian.AppendUint32(out, crc32.ChecksumIEEE(body))
	return append(out, body...)
}

// VRefWriteBatch writes one batch (magic 2) or one message set fragment
// (legacy: one message per record, or one compressed wrapper around them).
func VRefWriteBatch(s VRefBatchSpec) []byte {
	if len(s.Recs) == 0 {
		return nil
	}
	if s.Magic < 2 {
		var inner []byte
		for i, r := range s.Recs {
			off := r.Offset
			if s.Codec != 0 && s.Magic == 1 {
				// relative inner offsets; they keep their distances when a
				// cleaner removed records (wrapper offset = last record's offset)
				off = r.Offset - s.Recs[0].Offset
				_ = i
			}
			ts := r.TsMs
			inner = append(inner, vrLegacyMessage(s.Magic, 0, off, ts, r.Key, r.Value)...)
		}
		if s.Codec == 0 {
			return inner
		}
		last := s.Recs[len(s.Recs)-1]
		attr := byte(s.Codec)
		maxTs := int64(-1)
		for _, r := range s.Recs {
			if r.TsMs > maxTs {
				maxTs = r.TsMs
			}
		}
		if s.LogAppendTime && s.Magic == 1 {
			attr |= 8
		}
		return vrLegacyMessage(s.Magic, attr, last.Offset, maxTs, nil, vrCompress(s.Codec, inner))
	}
	base := s.Recs[0].Offset
	firstTs := s.Recs[0].TsMs
	maxTs := firstTs
	var recs []byte
	for _, r := range s.Recs {
		if r.TsMs > maxTs {
			maxTs = r.TsMs
		}
		var rb []byte
		rb = append(rb, 0)
		rb = vrPutZigZag(rb, r.TsMs-firstTs)
		rb = vrPutZigZag(rb, r.Offset-base)
		if r.Key == nil {
			rb = vrPutZigZag(rb, -1)
		} else {
			rb = vrPutZigZag(rb, int64(len(r.Key)))
			rb = append(rb, r.Key...)
		}
		if r.Value == nil {
			rb = vrPutZigZag(rb, -1)
		} else {
			rb = vrPutZigZag(rb, int64(len(r.Value)))
			rb = append(rb, r.Value...)
		}
		rb = vrPutZigZag(rb, int64(len(r.Headers)))
		for _, h := range r.Headers {
			rb = vrPutZigZag(rb, int64(len(h.Key)))
			rb = append(rb, h.Key...)
			if h.Value == nil {
				rb = vrPutZigZag(rb, -1)
			} else {
				rb = vrPutZigZag(rb, int64(len(h.Value)))
				rb = append(rb, h.Value...)
			}
		}
		recs = vrPutZigZag(recs, int64(len(rb)))
		recs = append(recs, rb...)
	}
	attr := uint16(s.Codec) & 7
	if s.LogAppendTime {
		attr |= 8
	}
	if s.Transactional {
		attr |= 16
	}
	if s.Control {
		attr |= 32
	}
	var crcPart []byte
	crcPart = binary.BigEndian.AppendUint16(crcPart, attr)
	crcPart = binary.BigEndian.AppendUint32(crcPart, uint32(s.Recs[len(s.Recs)-1].Offset-base))
	crcPart = binary.BigEndian.AppendUint64(crcPart, uint64(firstTs))
	crcPart = binary.BigEndian.AppendUint64(crcPart, uint64(maxTs))
	crcPart = binary.BigEndian.AppendUint64(crcPart, uint64(s.PID))
	crcPart = binary.BigEndian.AppendUint16(crcPart, uint16(s.Epoch))
	crcPart = binary.BigEndian.AppendUint32(crcPart, uint32(s.BaseSeq))
	crcPart = binary.BigEndian.AppendUint32(crcPart, uint32(len(s.Recs)))
	crcPart = append(crcPart, vrCompress(s.Codec, recs)...)
	var out []byte
	out = binary.BigEndian.AppendUint64(out, uint64(base))
	out = binary.BigEndian.AppendUint32(out, uint32(4+1+4+len(crcPart)))
	out = binary.BigEndian.AppendUint32(out, uint32(s.LeaderEpoch))
	out = append(out, 2)
	out = binary.BigEndian.AppendUint32(out, crc32.Checksum(crcPart, vrCastagnoli))
	return append(out, crcPart...)
}

// VRefControlRecord builds the key/value of a transaction marker.
func VRefControlRecord(commit bool, coordinatorEpoch int32) (key, value []byte) {
	key = []byte{0, 0, 0, 0}
	if commit {
		key[3] = 1
	}
	value = []byte{0, 0, 0, 0, 0, 0}
	binary.BigEndian.PutUint32(value[2:], uint32(coordinatorEpoch))
	return
}
