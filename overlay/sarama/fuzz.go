//go:build verif

package sarama

// Engine "fuzz" (property C10: malformed or corrupted input yields an error,
// never a crash or wrong data), in-package half.
//
// One case = one target (a response body at one version, a record format under
// one codec, the response header, group member data, sticky user data through
// Plan, the live response receiver) x the whole enumerated mutation space of a
// few valid encodings of it (seeds), evaluated input by input:
//
//   the decode call returns (a panic is recovered and reported; a fatal error or
//   a hang kills this process, which runs as a sub-process of the worker that
//   journals the input sequence number before every call and turns the death
//   into a witness);
//   the bytes allocated by the call stay within 64 KiB + 40 x len(input) + what
//   decompressing the nested payloads legitimately yields (runtime/metrics as a
//   cheap filter per call, runtime.ReadMemStats for the exact figure, a
//   MemProfileRate=1 re-run to name the allocation site);
//   for checksummed formats an alteration inside the checksummed span (CRC not
//   recomputed) or of a length field never decodes to a different record list
//   without an error or the partial-trailing indication (fuzz_rec.go).

import (
	"encoding/binary"
	"fmt"
	"math/rand"
	"os"
	"reflect"
	"runtime"
	"runtime/metrics"
	"sort"
	"strings"
)

// ---------------------------------------------------------------- exported API

type VerifFuzzViol struct {
	Kind, Attr, Msg string
	Count           int
	Size            int
}

// VerifFuzzResult is cumulative for one run (one incarnation of the sub-process).
type VerifFuzzResult struct {
	Name       string
	Seq        int // inputs enumerated so far (including the skipped prefix)
	Evals      int // inputs evaluated by this incarnation
	Paths      []string
	Obs        map[string]int64
	Viols      []VerifFuzzViol
	Sample     map[string]interface{}
	SeedsValid int
	Done       bool
}

type VerifFuzzHooks struct {
	// Before is called with the sequence number, the number of inputs evaluated
	// so far by this incarnation and the bytes about to be decoded.
	Before func(seq, evals int, input []byte)
	// Checkpoint is called every CheckpointEvery evaluations with the cumulative result.
	Checkpoint      func(res *VerifFuzzResult)
	CheckpointEvery int
	// Tick tells the watcher that the process is alive between two inputs or
	// between the runs of one input (building a large input, measuring again)
	Tick func()
	// ExpensiveBudget: after this many allocation-excess findings (each costs up to a
	// second: hundreds of megabytes are really allocated) the rest of the case is not evaluated
	ExpensiveBudget int
}

// VerifFuzzCount is the number of cases of a tier (pure function of the tier
// and of the protocol bodies found in the working tree).
func VerifFuzzCount(tier string) int { return len(fzCases(tier)) }

func VerifFuzzName(tier string, idx int) string {
	cs := fzCases(tier)
	if idx < 0 || idx >= len(cs) {
		return "?"
	}
	return cs[idx].name
}

// VerifFuzzRun evaluates case idx, skipping the first `from` inputs of its
// enumeration (they were evaluated by an earlier incarnation that died on input
// number `from`).
func VerifFuzzRun(tier string, seed int64, idx int, from int, hooks VerifFuzzHooks) *VerifFuzzResult {
	cs := fzCases(tier)
	c := cs[idx]
	st := &fzState{tier: tier, seed: seed, idx: idx, from: from, hooks: hooks, c: c,
		paths: map[fzPathKey]struct{}{}, obs: map[string]int64{}, viols: map[string]*VerifFuzzViol{}}
	st.thorough = tier == "thorough"
	// a standing, very coarse allocation profile: every allocation of fzProfRate bytes
	// or more is recorded with its stack, so that a gross excess can be attributed
	// without running the input again
	runtime.MemProfileRate = fzProfRate
	st.run()
	res := st.result()
	res.Done = true
	return res
}

// ---------------------------------------------------------------- cases

type fzCase struct {
	name  string
	class string // body | hdr | dec | sticky | rec | nest | bomb | plan | recv
	sub   *vcSubject
	v     int16
	arg   int // codec, header version, slice …
	arg2  int
}

var fzCaseCache = map[string][]fzCase{}

func fzCases(tier string) []fzCase {
	if cs, ok := fzCaseCache[tier]; ok {
		return cs
	}
	var cs []fzCase
	slices := 1
	if tier == "thorough" {
		slices = 3
	}
	for _, s := range vcSubjects() {
		if !s.isResponse {
			continue
		}
		for v := s.minV; v <= s.maxV; v++ {
			for sl := 0; sl < slices; sl++ {
				cs = append(cs, fzCase{name: fmt.Sprintf("body:%s/v%d#%d", s.name, v, sl), class: "body", sub: s, v: v, arg: sl, arg2: slices})
			}
		}
	}
	for _, s := range vcSubjects() {
		switch s.name {
		case "ConsumerGroupMemberMetadata", "ConsumerGroupMemberAssignment":
			for sl := 0; sl < slices; sl++ {
				cs = append(cs, fzCase{name: fmt.Sprintf("dec:%s#%d", s.name, sl), class: "dec", sub: s, v: s.minV, arg: sl, arg2: slices})
			}
		case "StickyAssignorUserDataV0", "StickyAssignorUserDataV1":
			for sl := 0; sl < slices; sl++ {
				cs = append(cs, fzCase{name: fmt.Sprintf("sticky:%s#%d", s.name, sl), class: "sticky", sub: s, v: s.minV, arg: sl, arg2: slices})
			}
		}
	}
	for hv := 0; hv <= 1; hv++ {
		cs = append(cs, fzCase{name: fmt.Sprintf("hdr:responseHeader/v%d", hv), class: "hdr", v: int16(hv)})
	}
	// record formats: format x codec
	for _, f := range []string{"RecordBatch", "MessageSet0", "MessageSet1", "Message0", "Message1", "Records0", "Records1", "Records2"} {
		for codec := 0; codec <= 4; codec++ {
			if codec == 4 && strings.HasSuffix(f, "0") {
				// (zstd needs magic 2 on a broker, but the decoder does not care: keep it)
			}
			for sl := 0; sl < slices; sl++ {
				cs = append(cs, fzCase{name: fmt.Sprintf("rec:%s/%s#%d", f, fzCodecName(codec), sl), class: "rec", arg: codec, arg2: sl*16 + slices, sub: &vcSubject{name: f}})
			}
		}
	}
	for codec := 1; codec <= 4; codec++ {
		for magic := 0; magic <= 1; magic++ {
			cs = append(cs, fzCase{name: fmt.Sprintf("nest:wrapper-in-wrapper/magic%d/%s", magic, fzCodecName(codec)), class: "nest", arg: codec, v: int16(magic)})
		}
		cs = append(cs, fzCase{name: fmt.Sprintf("bomb:declared-sizes/%s", fzCodecName(codec)), class: "bomb", arg: codec})
	}
	for k := 0; k < 4*slices; k++ {
		cs = append(cs, fzCase{name: fmt.Sprintf("plan:sticky-userdata#%d", k), class: "plan", arg: k})
	}
	for _, w := range []string{"h0", "h1", "sasl-v0", "sasl-v1"} {
		cs = append(cs, fzCase{name: "recv:" + w, class: "recv", sub: &vcSubject{name: w}})
	}
	fzCaseCache[tier] = cs
	return cs
}

func fzCodecName(c int) string {
	return []string{"none", "gzip", "snappy", "lz4", "zstd"}[c]
}

// ---------------------------------------------------------------- state

type fzPathKey struct{ kind, oc string }

type fzState struct {
	tier     string
	thorough bool
	seed     int64
	idx      int
	from     int
	hooks    VerifFuzzHooks
	c        fzCase

	tgt        *fzTarget
	seq, evals int
	paths      map[fzPathKey]struct{}
	obs        map[string]int64
	viols      map[string]*VerifFuzzViol
	sample     map[string]interface{}
	seedsValid int
	scratch    []byte
	sinceCkpt  int
	siteRuns   int
	curSeed    []byte
	judge      func(kind string, lo, hi int, seed, in []byte) int // 0 none, 1 crc, 2 length
	negSize    func(kind string, lo, hi int, seed, in []byte) bool
	origCanon  *fzRecList
	// tailDropIsPartial: the target is a whole fetch response, where a partition
	// that lost the tail of its records is the client's reading of partial trailing data
	tailDropIsPartial bool
	// rejectTail: the target is a whole body handed to decode / versionedDecode, which
	// must reject bytes left over behind it ("invalid length")
	rejectTail bool
	// stopped: the case has produced so many expensive violations (allocations of
	// hundreds of megabytes each) that the rest of its inputs is not evaluated
	stopped bool
	// fix makes checksums / lengths consistent again after a mutation (false: the
	// mutation does not concern a checksummed span, skip it); xform wraps the
	// mutated bytes (re-compress and re-frame)
	fix      func(b []byte, lo, hi int) bool
	fixTag   string
	xform    func(b []byte) []byte
	xformTag string
}

// fzTarget is what is decoded and how its result is read.
type fzTarget struct {
	name  string // path prefix, e.g. "MetadataResponse/v5"
	outer string // outermost sarama decode function
	dec   func(b []byte) fzOut
	// legit reports the decompression this input legitimately causes: number of
	// decompress calls by codec working set and bytes produced.
	legit func(b []byte) (work int64, produced int64)
	// slack is added to the allocation budget (targets that do more than decode)
	slack int64
}

type fzOut struct {
	err     error
	val     interface{}
	partial bool
	rest    int // bytes the decoder left unread (its caller goes on with them, or rejects them)
}

type fzRes struct {
	out   fzOut
	pan   interface{}
	pkind string
	pattr string
	alloc uint64
}

func (st *fzState) result() *VerifFuzzResult {
	res := &VerifFuzzResult{Name: st.c.name, Seq: st.seq, Evals: st.evals, Obs: st.obs, Sample: st.sample, SeedsValid: st.seedsValid}
	for p := range st.paths {
		pre := st.c.name
		if st.tgt != nil {
			pre = st.tgt.name
		}
		res.Paths = append(res.Paths, pre+"/"+p.kind+"/"+p.oc)
	}
	sort.Strings(res.Paths)
	keys := make([]string, 0, len(st.viols))
	for k := range st.viols {
		keys = append(keys, k)
	}
	sort.Strings(keys)
	for _, k := range keys {
		res.Viols = append(res.Viols, *st.viols[k])
	}
	return res
}

func (st *fzState) viol(kind, attr, msg string, size int) {
	if os.Getenv("VERIF_FUZZ_DEBUG") != "" {
		fmt.Fprintf(os.Stderr, "VIOL %s|%s (%d bytes) %s\n", kind, attr, size, vcTruncS(msg, 600))
	}
	k := kind + "|" + attr
	v := st.viols[k]
	if v == nil {
		st.viols[k] = &VerifFuzzViol{Kind: kind, Attr: attr, Msg: msg, Count: 1, Size: size}
		return
	}
	v.Count++
	if size < v.Size {
		v.Size, v.Msg = size, msg
	}
}

func (st *fzState) run() {
	switch st.c.class {
	case "body", "dec", "sticky":
		st.runBody()
	case "hdr":
		st.runHeader()
	case "rec":
		st.runRec()
	case "nest":
		st.runNest()
	case "bomb":
		st.runBomb()
	case "plan":
		st.runPlan()
	case "recv":
		st.runRecv()
	}
}

// ---------------------------------------------------------------- one evaluation

const fzProfRate = 4 << 20

// fzMaxAllocExcess allocation-excess findings in one incarnation end the case
// (it is violated; every further one costs up to a second)
const fzMaxAllocExcess = 150

var fzSample = []metrics.Sample{{Name: "/gc/heap/allocs:bytes"}}

func fzAllocs() uint64 {
	metrics.Read(fzSample)
	return fzSample[0].Value.Uint64()
}

// skip reports whether the next input belongs to the prefix evaluated by an
// earlier incarnation (and counts it).
func (st *fzState) skip() bool {
	if st.stopped {
		return true
	}
	st.seq++
	return st.seq <= st.from
}

func (st *fzState) call(in []byte) (res fzRes) {
	a0 := fzAllocs()
	defer func() {
		if r := recover(); r != nil {
			res.pan = r
			res.pkind, res.pattr = fzPanicSite(r)
		}
		res.alloc = fzAllocs() - a0
	}()
	res.out = st.tgt.dec(in)
	return
}

// seedOK decodes a candidate seed (a valid encoding) with the decoder under test.
// It is journaled like every other input, so that a valid encoding that kills
// the process or never returns is a witness too; a candidate that did so in an
// earlier incarnation is not a seed.
func (st *fzState) seedOK(b []byte) (o fzOut, ok bool) {
	if st.stopped {
		return o, false
	}
	st.seq++
	if st.seq == st.from {
		return o, false
	}
	in := append(make([]byte, 0, len(b)), b...)
	if st.seq > st.from {
		if st.hooks.Before != nil {
			st.hooks.Before(st.seq, st.evals+1, in)
		}
		st.evals++
	}
	defer func() {
		if r := recover(); r != nil {
			ok = false
			if st.seq > st.from {
				k, a := fzPanicSite(r)
				st.viol(k, a, fmt.Sprintf("%s: decoding a valid encoding panicked: %v; input=%s", st.tgt.name, r, vcHex(b, 200)), len(b))
			}
		}
	}()
	o = st.tgt.dec(in)
	return o, o.err == nil && !o.partial
}

func (st *fzState) tick() {
	if st.hooks.Tick != nil {
		st.hooks.Tick()
	}
}

func (st *fzState) callQuiet(in []byte) {
	st.tick()
	defer func() { recover() }()
	st.tgt.dec(in)
}

// eval evaluates one input; the caller has already called skip(). lo..hi is
// the range of the seed the mutation touched (for the content oracle).
func (st *fzState) eval(kind string, in []byte, lo, hi int) {
	in = in[:len(in):len(in)]
	if st.hooks.Before != nil {
		st.hooks.Before(st.seq, st.evals+1, in)
	}
	st.evals++
	res := st.call(in)
	oc := ""
	switch {
	case res.pan != nil:
		oc = "panic"
		st.obs["panics"]++
		st.viol(res.pkind, res.pattr, fmt.Sprintf("%s, mutation %s at [%d,%d) of a %d-byte valid encoding: %v; input(%d)=%s", st.tgt.name, kind, lo, hi, len(st.curSeed), res.pan, len(in), vcHex(in, 200)), len(in))
	case res.out.err != nil:
		oc = "err:" + fzErrClass(res.out.err)
		st.obs["errors"]++
	case kind == "append" && st.rejectTail:
		oc = "ok"
		st.obs["accepted"]++
		st.viol("length-accepted", "trailing-bytes-behind-body", fmt.Sprintf("%s (%s): a valid %d-byte encoding followed by %d more bytes decodes without error (the frame announces more than the body holds); input=%s",
			st.tgt.name, st.tgt.outer, len(st.curSeed), len(in)-len(st.curSeed), vcHex(in, 200)), len(in))
	case res.out.partial:
		oc = "partial"
		st.obs["partial"]++
		if st.judge != nil && st.negSize != nil && st.negSize(kind, lo, hi, st.curSeed, in) {
			st.viol("length-accepted", "legacy-message-size:negative-taken-for-truncation", fmt.Sprintf("%s (%s), mutation %s at [%d,%d): the size field of a legacy message is negative now and the set decodes without error, with the partial-trailing indication, as if it had been cut short; seed=%s input=%s",
				st.tgt.name, st.tgt.outer, kind, lo, hi, vcHex(st.curSeed, 160), vcHex(in, 160)), len(in))
		}
	case res.out.rest > 0:
		oc = "ok-rest-unread"
		st.obs["accepted_rest_unread"]++
	default:
		oc = "ok"
		st.obs["accepted"]++
	}
	st.paths[fzPathKey{kind, oc}] = struct{}{}

	// allocation: cheap filter, then the exact figure
	n := uint64(len(in))
	if res.alloc > 16<<10+10*n {
		st.obs["alloc_suspects"]++
		st.checkAlloc(kind, in, lo, hi, res.alloc)
	}

	// content oracle for checksummed formats
	if st.judge != nil && res.pan == nil && res.out.err == nil && !res.out.partial && res.out.rest == 0 {
		if j := st.judge(kind, lo, hi, st.curSeed, in); j != 0 {
			st.obs["content_judged_accepted"]++
			got := fzCanon(res.out.val)
			diff, part := fzCompareRecords(st.origCanon, got)
			if diff != "" && st.tailDropIsPartial && !fzSameKeys(st.origCanon, got) {
				// the partitions of the response are not the original ones any more: the length that was
				// altered (or the bytes removed / added inside a record set) moved the boundaries of the
				// partitions behind it, whose ids and sizes no checksum covers. That is an alteration of
				// unprotected framing bytes in effect, which this oracle does not judge.
				st.obs["content_partitions_reframed"]++
				diff = ""
			}
			if diff == "records-dropped" && st.tailDropIsPartial {
				// a fetch partition whose tail cannot be decoded is cut there and the rest is
				// fetched again: that is how the client treats partial trailing data
				st.obs["content_tail_dropped_as_partial"]++
				diff = ""
			} else if diff == "" {
				st.obs["content_same_records"]++
			}
			if diff != "" {
				k, what := "crc-accepted", "an alteration inside the checksummed span (checksum not recomputed)"
				if j == 2 || j == 4 || j == 5 {
					k, what = "length-accepted", "a length that disagrees with the data"
				}
				where := []string{"", "legacy-message", "legacy-message-size", "record-batch", "batch-length", "records-size"}[j]
				st.viol(k, where+":"+diff, fmt.Sprintf("%s (%s), mutation %s at [%d,%d): %s decodes without error or partial indication to other records (partition %s: original %s, got %s); seed=%s input=%s",
					st.tgt.name, st.tgt.outer, kind, lo, hi, what, part, vcTruncS(strings.Join(st.origCanon.recs[part], " "), 400), vcTruncS(strings.Join(got.recs[part], " "), 400), vcHex(st.curSeed, 160), vcHex(in, 160)), len(in))
			}
		}
	}

	st.sinceCkpt++
	every := st.hooks.CheckpointEvery
	if every <= 0 {
		every = 4000
	}
	if st.sinceCkpt >= every && st.hooks.Checkpoint != nil {
		st.sinceCkpt = 0
		st.hooks.Checkpoint(st.result())
	}
}

// emit applies the case's fix-up / re-framing to a mutated encoding and evaluates it.
func (st *fzState) emit(kind string, b []byte, lo, hi int) {
	if st.fix != nil {
		if !st.fix(b, lo, hi) {
			return
		}
		kind += st.fixTag
	}
	if st.xform != nil {
		b = st.xform(b)
		kind = st.xformTag + kind
	}
	st.eval(kind, b, lo, hi)
}

func fzExact(f func()) uint64 {
	var m0, m1 runtime.MemStats
	runtime.ReadMemStats(&m0)
	f()
	runtime.ReadMemStats(&m1)
	return m1.TotalAlloc - m0.TotalAlloc
}

func (st *fzState) checkAlloc(kind string, in []byte, lo, hi int, seen uint64) {
	n := int64(len(in))
	budget := int64(64<<10) + 40*n + st.tgt.slack
	gross := int64(seen) > budget+8*fzProfRate
	var work, produced int64
	legit := func() {
		if st.tgt.legit != nil {
			func() {
				defer func() { recover() }()
				st.tick()
				work, produced = st.tgt.legit(in)
			}()
			st.obs["legit_computed"]++
		}
		budget += work + 8*produced
	}
	exact := int64(seen)
	if gross {
		// large objects are counted at once by the runtime: no second run needed for the figure
		legit()
		gross = exact > budget+8*fzProfRate
	}
	if !gross {
		budget = int64(64<<10) + 40*n + st.tgt.slack
		exact = int64(fzExact(func() { st.callQuiet(in) }))
		st.obs["alloc_exact_measures"]++
		if exact <= budget {
			return
		}
		legit()
		if exact <= budget {
			st.obs["alloc_explained_by_decompression"]++
			return
		}
		// pools refilled after a collection, one-time initialisations: the steady
		// state of the same call decides
		for i := 0; i < 2 && exact > budget && exact-budget < 16<<20; i++ {
			if e := int64(fzExact(func() { st.callQuiet(in) })); e < exact {
				exact = e
			}
		}
		if exact <= budget {
			st.obs["alloc_transient"]++
			return
		}
	} else if exact <= budget {
		st.obs["alloc_explained_by_decompression"]++
		return
	}
	st.obs["alloc_excess"]++
	if max := st.hooks.ExpensiveBudget; (max > 0 && st.obs["alloc_excess"] >= int64(max)) || st.obs["alloc_excess"] >= fzMaxAllocExcess {
		st.stopped = true
		st.obs["stopped_early"] = 1
	}
	attr := st.tgt.outer
	if st.siteRuns >= 400 {
		st.obs["alloc_excess_site_not_profiled"]++
		return
	}
	st.siteRuns++
	site := ""
	if gross {
		site = fzStandingSite()
	} else {
		site = fzAllocSite(func() { st.callQuiet(in) })
	}
	if site != "" {
		attr = site
	}
	st.viol("alloc-excess", attr, fmt.Sprintf("%s, mutation %s at [%d,%d): decode allocated %d bytes for a %d-byte input (budget 64KiB + 40 x input + decompression: %d; decompression produced %d bytes); input=%s",
		st.tgt.name, kind, lo, hi, exact, n, budget, produced, vcHex(in, 200)), len(in))
}

type fzProfKey [32]uintptr

var fzProfSeen = map[fzProfKey]int64{}

func fzProfSnap() map[fzProfKey]int64 {
	runtime.GC()
	runtime.GC()
	n, _ := runtime.MemProfile(nil, true)
	recs := make([]runtime.MemProfileRecord, n+64)
	n, ok := runtime.MemProfile(recs, true)
	if !ok {
		return nil
	}
	m := map[fzProfKey]int64{}
	for _, r := range recs[:n] {
		m[fzProfKey(r.Stack0)] += r.AllocBytes
	}
	return m
}

func fzProfBest(before, after map[fzProfKey]int64) string {
	var best fzProfKey
	var bestN int64
	site := ""
	for k, v := range after {
		d := v - before[k]
		if d <= bestN {
			continue
		}
		var pcs []uintptr
		for _, pc := range k {
			if pc == 0 {
				break
			}
			pcs = append(pcs, pc)
		}
		// allocations of the harness itself (reference decompression, scenario servers) are not the subject
		if s := fzSiteOf(pcs, false); s != "" && !strings.HasPrefix(s, "harness") && !strings.HasPrefix(s, "?") {
			best, bestN, site = k, d, s
		}
	}
	_ = best
	return site
}

// fzStandingSite names the stack that allocated most since the last time it was asked.
func fzStandingSite() string {
	now := fzProfSnap()
	site := fzProfBest(fzProfSeen, now)
	fzProfSeen = now
	return site
}

// fzAllocSite re-runs f with every allocation sampled and returns the innermost
// sarama function (plus the dependency function below it) of the stack that
// allocated most.
func fzAllocSite(f func()) string {
	before := fzProfSnap()
	runtime.MemProfileRate = 1
	f()
	runtime.MemProfileRate = fzProfRate
	after := fzProfSnap()
	fzProfSeen = after
	return fzProfBest(before, after)
}

// fzSiteOf names the innermost sarama function of a stack that is not harness
// code, followed by ">dep.Func" when the innermost non-runtime frame belongs
// to a dependency.
func fzSiteOf(pcs []uintptr, afterPanic bool) string {
	fr := runtime.CallersFrames(pcs)
	dep := ""
	started := !afterPanic
	for {
		f, more := fr.Next()
		fn := f.Function
		switch {
		case fn == "":
		case !started:
			if fn == "runtime.gopanic" || fn == "runtime.sigpanic" {
				started = true
			}
		case strings.HasPrefix(fn, "runtime.") || strings.HasPrefix(fn, "runtime/"):
		case strings.HasPrefix(fn, "github.com/Shopify/sarama."):
			if strings.Contains(f.File, "zz_verif_") {
				if dep != "" {
					return "harness>" + dep
				}
				return "harness:" + strings.TrimPrefix(fn, "github.com/Shopify/sarama.")
			}
			s := strings.TrimPrefix(fn, "github.com/Shopify/sarama.")
			if i := strings.Index(s, ".func"); i > 0 {
				s = s[:i]
			}
			if dep != "" {
				return s + ">" + dep
			}
			return s
		default:
			if dep == "" {
				dep = fzShortFn(fn)
			}
		}
		if !more {
			break
		}
	}
	if dep != "" {
		return "?>" + dep
	}
	return ""
}

// fzShortFn keeps the package of a dependency function (which of its functions
// runs out of bounds or allocates is its own business and changes with its version):
// github.com/klauspost/compress/zstd.(*Decoder).DecodeAll -> zstd
func fzShortFn(fn string) string {
	if i := strings.LastIndex(fn, "/"); i >= 0 {
		fn = fn[i+1:]
	}
	if i := strings.Index(fn, "."); i > 0 {
		fn = fn[:i]
	}
	return fn
}

func fzPanicSite(r interface{}) (kind, attr string) {
	pcs := make([]uintptr, 96)
	k := runtime.Callers(2, pcs)
	attr = fzSiteOf(pcs[:k], true)
	return "panic:" + vcPanicClass(r), attr
}

// fzErrClass: the words of an error message up to its first number (lengths,
// offsets and checksums vary from input to input).
func fzErrClass(err error) string {
	switch err {
	case ErrInsufficientData:
		return "insufficient-data"
	case errInvalidArrayLength:
		return "invalid-array-length"
	case errInvalidByteSliceLength:
		return "invalid-byteslice-length"
	case errInvalidStringLength:
		return "invalid-string-length"
	}
	s := err.Error()
	if pe, ok := err.(PacketDecodingError); ok {
		s = pe.Info
	}
	var b strings.Builder
	dash := false
	for _, c := range s {
		if b.Len() >= 36 || (c >= '0' && c <= '9') {
			break
		}
		switch {
		case c >= 'a' && c <= 'z', c >= 'A' && c <= 'Z':
			b.WriteRune(c)
			dash = false
		default:
			if !dash && b.Len() > 0 {
				b.WriteByte('-')
				dash = true
			}
		}
	}
	c := strings.Trim(b.String(), "-")
	if c == "" {
		c = "error"
	}
	return c
}

// ---------------------------------------------------------------- generic mutators

func (st *fzState) buf(n int) []byte {
	if cap(st.scratch) < n {
		st.scratch = make([]byte, n+4096)
	}
	return st.scratch[:n]
}

// fzPositions: every position of short encodings; for long ones the first 192,
// the last 128 and 64 evenly spaced ones in between.
func fzPositions(n int, all bool) []int {
	if n <= 384 || all {
		p := make([]int, n)
		for i := range p {
			p[i] = i
		}
		return p
	}
	var p []int
	for i := 0; i < 192; i++ {
		p = append(p, i)
	}
	mid := n - 192 - 128
	for k := 0; k < 64; k++ {
		p = append(p, 192+k*mid/64)
	}
	for i := n - 128; i < n; i++ {
		p = append(p, i)
	}
	return p
}

var fzLen4Values = []int64{-1, 0, -2, 0x7fffffff, -0x80000000}
var fzLen2Values = []int64{-1, 0, -2, 0x7fff}
var fzByteValues = []byte{0x00, 0xff, 0x80, 0x7f, 0x01}

// fzUvarHuge etc.: replacements of one (assumed single-byte) varint
var fzVarSeqs = [][]byte{
	{0xff, 0xff, 0xff, 0xff, 0x0f},                                     // 2^32-1
	{0xff, 0xff, 0xff, 0xff, 0xff, 0xff, 0xff, 0xff, 0xff, 0x01},       // 2^64-1 (zigzag: min int64)
	{0xfe, 0xff, 0xff, 0xff, 0xff, 0xff, 0xff, 0xff, 0xff, 0x01},       // zigzag: max int64
	{0xff, 0xff, 0xff, 0xff, 0xff, 0xff, 0xff, 0xff, 0xff, 0xff, 0x01}, // too long: overflow
	{0xfe, 0xff, 0xff, 0xff, 0x0f},                                     // zigzag: 2^31-1
	{0x80, 0x80, 0x80, 0x80, 0x10},                                     // 2^32 (zigzag 2^31)
}

// mutate enumerates the structured mutations of one valid encoding.
func (st *fzState) mutate(seed []byte, rng *rand.Rand) {
	st.curSeed = seed
	n := len(seed)
	pos := fzPositions(n, false)
	be := binary.BigEndian

	// the seed itself (must be accepted: measured like every other input)
	if !st.skip() {
		b := st.buf(n)
		copy(b, seed)
		st.emit("valid", b, 0, 0)
	}
	// bytes behind a complete body: the frame then announces more than the body holds
	if st.rejectTail {
		for k, tail := range [][]byte{{0}, {0, 0, 0, 0}, {0xff, 0xff, 0xff, 0xff}, {0, 0, 0, 1, 0, 0, 0, 0}} {
			if st.skip() {
				continue
			}
			b := st.buf(n + len(tail))
			copy(b, seed)
			copy(b[n:], tail)
			st.emit("append", b, n, n)
			_ = k
		}
	}
	// truncation at every position
	for _, p := range pos {
		if st.skip() {
			continue
		}
		b := st.buf(p)
		copy(b, seed[:p])
		st.emit("trunc", b, p, n)
	}
	// single bit flips
	for _, p := range pos {
		for bit := uint(0); bit < 8; bit++ {
			if n > 384 && bit != 0 && bit != 7 && bit != uint(p%6)+1 {
				continue
			}
			if st.skip() {
				continue
			}
			b := st.buf(n)
			copy(b, seed)
			b[p] ^= 1 << bit
			st.emit("bit1", b, p, p+1)
		}
	}
	// every 4-byte window as a length / count
	for _, p := range pos {
		if p+4 > n {
			break
		}
		rem := int64(n - p - 4)
		orig := int64(int32(be.Uint32(seed[p:])))
		for k := 0; k <= len(fzLen4Values); k++ {
			var v int64
			if k < len(fzLen4Values) {
				v = fzLen4Values[k]
			} else {
				v = rem + 1
			}
			if v == orig {
				continue
			}
			if st.skip() {
				continue
			}
			b := st.buf(n)
			copy(b, seed)
			be.PutUint32(b[p:], uint32(v))
			st.emit("len4", b, p, p+4)
		}
	}
	// every 2-byte window as a length
	for _, p := range pos {
		if p+2 > n {
			break
		}
		rem := int64(n - p - 2)
		orig := int64(int16(be.Uint16(seed[p:])))
		for k := 0; k <= len(fzLen2Values); k++ {
			var v int64
			if k < len(fzLen2Values) {
				v = fzLen2Values[k]
			} else {
				v = rem + 1
				if v > 0x7fff {
					continue
				}
			}
			if v == orig {
				continue
			}
			if st.skip() {
				continue
			}
			b := st.buf(n)
			copy(b, seed)
			be.PutUint16(b[p:], uint16(v))
			st.emit("len2", b, p, p+2)
		}
	}
	// every byte set to corner values (compact lengths 0 / 1 / 0x7f, tagged-field counts …)
	for _, p := range pos {
		for _, v := range fzByteValues {
			if seed[p] == v {
				continue
			}
			if st.skip() {
				continue
			}
			b := st.buf(n)
			copy(b, seed)
			b[p] = v
			st.emit("byte", b, p, p+1)
		}
	}
	// every byte replaced by a long / huge / overflowing varint; stretched varints;
	// a compact length that says "one more than what is left"
	for _, p := range pos {
		rem := uint64(n - p - 1)
		for k := 0; k < len(fzVarSeqs)+3; k++ {
			var seq []byte
			var tmp [12]byte
			switch {
			case k < len(fzVarSeqs):
				seq = fzVarSeqs[k]
			case k == len(fzVarSeqs):
				// same value, non-minimal encoding (only for one-byte varints)
				if seed[p] >= 0x80 {
					continue
				}
				seq = append(tmp[:0], seed[p]|0x80, 0x80, 0x00)
			case k == len(fzVarSeqs)+1:
				// compact length = remaining + 2 (i.e. length remaining+1)
				m := binary.PutUvarint(tmp[:], rem+2)
				seq = tmp[:m]
			default:
				// zigzag length = remaining + 1
				m := binary.PutVarint(tmp[:], int64(rem)+1)
				seq = tmp[:m]
			}
			if st.skip() {
				continue
			}
			b := st.buf(n - 1 + len(seq))
			copy(b, seed[:p])
			copy(b[p:], seq)
			copy(b[p+len(seq):], seed[p+1:])
			st.emit("varint", b, p, p+1)
		}
	}
	// deletions and insertions (every later length then disagrees with the data)
	for _, p := range pos {
		for k := 0; k < 5; k++ {
			var b []byte
			switch k {
			case 0: // delete one byte
				b = st.buf(n - 1)
				copy(b, seed[:p])
				copy(b[p:], seed[p+1:])
			case 1: // delete four bytes
				if p+4 > n {
					continue
				}
				b = st.buf(n - 4)
				copy(b, seed[:p])
				copy(b[p:], seed[p+4:])
			case 2: // insert a zero byte
				b = st.buf(n + 1)
				copy(b, seed[:p])
				b[p] = 0
				copy(b[p+1:], seed[p:])
			case 3: // insert ff ff ff ff
				b = st.buf(n + 4)
				copy(b, seed[:p])
				b[p], b[p+1], b[p+2], b[p+3] = 0xff, 0xff, 0xff, 0xff
				copy(b[p+4:], seed[p:])
			case 4: // duplicate the next eight bytes
				e := p + 8
				if e > n {
					e = n
				}
				b = st.buf(n + e - p)
				copy(b, seed[:e])
				copy(b[e:], seed[p:])
			}
			if st.skip() {
				b = nil
				continue
			}
			kind := "delete"
			hi := p + 1
			if k == 1 {
				hi = p + 4
			}
			if k >= 2 {
				kind = "insert"
				hi = p
			}
			st.emit(kind, b, p, hi)
		}
	}
	// multi-bit flips
	nb := 48
	if st.thorough {
		nb = 256
	}
	for i := 0; i < nb && n > 0; i++ {
		k := 2 + rng.Intn(7)
		flips := make([][2]int, k)
		lo, hi := n, 0
		for j := range flips {
			flips[j] = [2]int{rng.Intn(n), rng.Intn(8)}
			if flips[j][0] < lo {
				lo = flips[j][0]
			}
			if flips[j][0]+1 > hi {
				hi = flips[j][0] + 1
			}
		}
		if st.skip() {
			continue
		}
		b := st.buf(n)
		copy(b, seed)
		for _, f := range flips {
			b[f[0]] ^= 1 << uint(f[1])
		}
		st.emit("bitN", b, lo, hi)
	}
}

// randomStrings: purely random inputs of at most 64 bytes, with a bias to
// small integers so that counts and lengths are sometimes plausible.
func (st *fzState) randomStrings(rng *rand.Rand, count int) {
	st.curSeed = nil
	for i := 0; i < count; i++ {
		n := rng.Intn(65)
		mode := rng.Intn(3)
		raw := make([]byte, n)
		for j := range raw {
			switch mode {
			case 0:
				raw[j] = byte(rng.Intn(256))
			case 1:
				raw[j] = byte(rng.Intn(4))
			default:
				if rng.Intn(3) == 0 {
					raw[j] = byte(rng.Intn(256))
				}
			}
		}
		if st.skip() {
			continue
		}
		b := st.buf(n)
		copy(b, raw)
		st.emit("random", b, 0, n)
	}
}

// splices: the head of one valid encoding followed by the tail of another.
func (st *fzState) splices(seeds [][]byte, rng *rand.Rand, count int) {
	if len(seeds) < 2 {
		return
	}
	for i := 0; i < count; i++ {
		a := seeds[rng.Intn(len(seeds))]
		c := seeds[rng.Intn(len(seeds))]
		if len(a) == 0 || len(c) == 0 {
			continue
		}
		x, y := rng.Intn(len(a)), rng.Intn(len(c))
		if st.skip() {
			continue
		}
		b := st.buf(x + len(c) - y)
		copy(b, a[:x])
		copy(b[x:], c[y:])
		st.curSeed = a
		st.emit("splice", b, x, len(a))
	}
}

// ---------------------------------------------------------------- targets: protocol bodies and plain decoders

func fzOuterName(x interface{}) string {
	t := reflect.TypeOf(x)
	if t.Kind() == reflect.Ptr {
		return "(*" + t.Elem().Name() + ").decode"
	}
	return t.Name() + ".decode"
}

func (st *fzState) bodyTarget() *fzTarget {
	s, v := st.c.sub, st.c.v
	t := &fzTarget{name: fmt.Sprintf("%s/v%d", s.name, v), outer: fzOuterName(s.mk(v))}
	switch st.c.class {
	case "body":
		t.dec = func(b []byte) fzOut {
			x := s.mk(v)
			err := versionedDecode(b, x.(versionedDecoder), v)
			return fzOut{err: err, val: x}
		}
		if s.name == "FetchResponse" {
			t.legit = func(b []byte) (int64, int64) { return fzLegitFetch(b, v) }
		}
	case "dec":
		t.name = s.name
		t.dec = func(b []byte) fzOut {
			x := s.mk(v)
			err := decode(b, x.(decoder))
			return fzOut{err: err, val: x}
		}
	case "sticky":
		t.name = s.name + ":deserialize"
		t.outer = "deserializeTopicPartitionAssignment"
		t.dec = func(b []byte) fzOut {
			x, err := deserializeTopicPartitionAssignment(b)
			return fzOut{err: err, val: x}
		}
	}
	return t
}

// fzBodySeeds builds valid encodings of the case's body: a fixed core
// (systematic plans and fixed random values) plus values drawn from the run seed.
func (st *fzState) fzBodySeeds() [][]byte {
	s, v := st.c.sub, st.c.v
	fixed, seeded, maxLen := 2, 1, 1200
	if st.thorough {
		fixed, seeded, maxLen = 6, 18, 6000
	}
	var out [][]byte
	seen := map[string]bool{}
	try := func(i int, base int64) bool {
		r := rand.New(rand.NewSource(vcMix(base, int64(v)+1000, int64(i))))
		fc := &vcFillCtx{r: r, version: v, body: s.name}
		switch i {
		case 0:
			fc.plan, fc.minimal = "one", true
		case 1:
			fc.plan = "empty"
		}
		if s.recArm != nil {
			fc.recArm = s.recArm(v)
		} else if s.name == "FetchResponse" {
			fc.recArm = "any"
		}
		var v0 interface{}
		func() {
			defer func() { recover() }()
			if s.gen != nil {
				v0, _ = s.gen(nil, fc, v)
			} else {
				v0 = s.mk(v)
				vcFill(reflect.ValueOf(v0).Elem(), fc)
			}
		}()
		if v0 == nil {
			return false
		}
		enc, ok := v0.(encoder)
		if !ok {
			return false
		}
		e := vcEncode(enc)
		if e.pan != nil || e.err != nil || e.mismatch || len(e.b) > maxLen {
			st.obs["seeds_not_encodable"]++
			return false
		}
		if seen[string(e.b)] {
			return false
		}
		// the seed must be accepted by the decoder under test
		if _, ok = st.seedOK(e.b); !ok {
			st.obs["seeds_rejected_by_decoder"]++
			return false
		}
		seen[string(e.b)] = true
		out = append(out, e.b)
		return true
	}
	slice, slices := st.c.arg, st.c.arg2
	if slices < 1 {
		slices = 1
	}
	// valid values are numbered in the order found; slice j keeps numbers = j mod slices
	draw := func(first, want int, base int64) {
		k := 0
		for i := 0; i < want*slices*4 && k < want*slices; i++ {
			n := len(out)
			if try(first+i, base) {
				if k%slices != slice {
					out = out[:n]
				}
				k++
			}
		}
	}
	draw(0, fixed, 0x5eed)
	draw(100, seeded, st.seed)
	if s.name == "FetchResponse" {
		// make sure nested records are present: keep drawing until two seeds carry some
		have, want := 0, 1
		if st.thorough {
			want = 3
		}
		for i := 0; i < 80 && have < want; i++ {
			n := len(out)
			if try(1000+i, 0x5eed+int64(slice)) {
				if _, produced := fzLegitFetch(out[n], v); produced == 0 && !fzFetchHasRecords(out[n], v) {
					out = out[:n]
					continue
				}
				have++
			}
		}
	}
	return out
}

func (st *fzState) runBody() {
	st.tgt = st.bodyTarget()
	st.rejectTail = st.c.class != "sticky" // (sticky user data V0 followed by four bytes is V1)
	seeds := st.fzBodySeeds()
	st.seedsValid = len(seeds)
	st.obs["seeds"] = int64(len(seeds))
	rng := rand.New(rand.NewSource(vcMix(st.seed, int64(st.idx), 77)))
	if len(seeds) > 0 {
		st.sample = map[string]interface{}{"target": st.tgt.name, "decode": st.tgt.outer, "seeds": len(seeds), "first_seed_hex": vcHex(seeds[0], 120)}
	}
	for _, sd := range seeds {
		if st.tgt.legit != nil {
			st.fetchJudge(sd)
		}
		st.mutate(sd, rng)
		st.judge = nil
		if st.tgt.legit != nil {
			st.fetchFixedMutations(sd, rng)
		}
	}
	nr, ns := 192, 64
	if st.thorough {
		nr, ns = 3000, 1500
	}
	st.randomStrings(rng, nr)
	st.splices(seeds, rng, ns)
}

// ---------------------------------------------------------------- response header

func (st *fzState) runHeader() {
	hv := st.c.v
	st.tgt = &fzTarget{name: fmt.Sprintf("responseHeader/v%d", hv), outer: "(*responseHeader).decode"}
	st.tgt.dec = func(b []byte) fzOut {
		h := &responseHeader{}
		err := versionedDecode(b, h, hv)
		return fzOut{err: err, val: h}
	}
	rng := rand.New(rand.NewSource(vcMix(st.seed, int64(st.idx), 78)))
	st.rejectTail = true
	var seeds [][]byte
	for _, l := range []int64{5, 6, 8, 100, 65536, int64(MaxResponseSize) - 1, int64(MaxResponseSize)} {
		for _, corr := range []int32{0, 1, -1, 2147483647, -2147483648} {
			b := make([]byte, 8, 9)
			binary.BigEndian.PutUint32(b, uint32(l))
			binary.BigEndian.PutUint32(b[4:], uint32(corr))
			if hv >= 1 {
				b = append(b, 0)
			}
			if _, ok := st.seedOK(b); ok {
				seeds = append(seeds, b)
			}
		}
	}
	st.seedsValid = len(seeds)
	st.sample = map[string]interface{}{"target": st.tgt.name, "seeds": len(seeds)}
	for _, sd := range seeds {
		st.mutate(sd, rng)
	}
	// every length class
	for _, l := range []int64{-1, 0, 1, 4, int64(MaxResponseSize) + 1, 0x7fffffff, -0x80000000} {
		if st.skip() {
			continue
		}
		b := st.buf(8 + int(hv))
		for i := range b {
			b[i] = 0
		}
		binary.BigEndian.PutUint32(b, uint32(l))
		st.eval("length-class", b, 0, 4)
	}
	nr := 2000
	if st.thorough {
		nr = 200000
	}
	st.randomStrings(rng, nr)
}
