//go:build verif

package sarama

// Reference reader of the C09 engine, written from the Kafka protocol guide
// (https://kafka.apache.org/protocol, "Record Batch", "Message sets", request
// and response headers), not from sarama's decoder. It uses none of sarama's
// decode functions; only the third-party decompressors sarama links anyway.

import (
	"bytes"
	"compress/gzip"
	"encoding/binary"
	"fmt"
	"hash/crc32"
	"io/ioutil"
	"time"

	gsnappy "github.com/golang/snappy"
	"github.com/klauspost/compress/zstd"
	"github.com/pierrec/lz4"
)

// vcWire is one firing of the reference reader: rule is stable, msg is not.
type vcWire struct {
	rule string
	msg  string
}

type vcRef struct {
	viols  []vcWire
	checks int64
	crcs   int64
}

func (rr *vcRef) fail(rule, format string, a ...interface{}) {
	rr.viols = append(rr.viols, vcWire{rule: rule, msg: fmt.Sprintf(format, a...)})
}

func (rr *vcRef) eq(rule string, got, want interface{}) {
	rr.checks++
	if got != want {
		rr.fail(rule, "on the wire %v, value has %v", got, want)
	}
}

func (rr *vcRef) eqBytes(rule string, got, want []byte) {
	rr.checks++
	if !bytes.Equal(got, want) {
		rr.fail(rule, "on the wire %x, value has %x", vcTrunc(got, 32), vcTrunc(want, 32))
	}
}

// vcRd is a cursor over bytes.
type vcRd struct {
	b   []byte
	off int
	bad bool
}

func (r *vcRd) rem() int { return len(r.b) - r.off }
func (r *vcRd) need(n int) bool {
	if r.bad || n < 0 || r.rem() < n {
		r.bad = true
		return false
	}
	return true
}
func (r *vcRd) i8() int8 {
	if !r.need(1) {
		return 0
	}
	x := int8(r.b[r.off])
	r.off++
	return x
}
func (r *vcRd) i16() int16 {
	if !r.need(2) {
		return 0
	}
	x := int16(binary.BigEndian.Uint16(r.b[r.off:]))
	r.off += 2
	return x
}
func (r *vcRd) i32() int32 {
	if !r.need(4) {
		return 0
	}
	x := int32(binary.BigEndian.Uint32(r.b[r.off:]))
	r.off += 4
	return x
}
func (r *vcRd) i64() int64 {
	if !r.need(8) {
		return 0
	}
	x := int64(binary.BigEndian.Uint64(r.b[r.off:]))
	r.off += 8
	return x
}
func (r *vcRd) raw(n int) []byte {
	if !r.need(n) {
		return nil
	}
	x := r.b[r.off : r.off+n]
	r.off += n
	return x
}

// uvarint reads a base-128 little-endian unsigned varint; minimal tells
// whether the encoding used the fewest bytes possible.
func (r *vcRd) uvarint() (x uint64, minimal bool) {
	var shift uint
	start := r.off
	for {
		if !r.need(1) {
			return 0, false
		}
		c := r.b[r.off]
		r.off++
		if shift >= 64 || (shift == 63 && c > 1) {
			r.bad = true
			return 0, false
		}
		x |= uint64(c&0x7f) << shift
		if c&0x80 == 0 {
			n := r.off - start
			return x, n == 1 || c != 0
		}
		shift += 7
	}
}

// varint is the zig-zag signed form used inside records.
func (r *vcRd) varint() (int64, bool) {
	u, min := r.uvarint()
	return int64(u>>1) ^ -int64(u&1), min
}

// nullable string: int16 length, -1 = null
func (r *vcRd) str16() (s string, null bool) {
	n := r.i16()
	if r.bad {
		return "", false
	}
	if n == -1 {
		return "", true
	}
	if n < -1 {
		r.bad = true
		return "", false
	}
	return string(r.raw(int(n))), false
}

// nullable bytes: int32 length, -1 = null
func (r *vcRd) bytes32() (b []byte, null bool) {
	n := r.i32()
	if r.bad {
		return nil, false
	}
	if n == -1 {
		return nil, true
	}
	if n < -1 {
		r.bad = true
		return nil, false
	}
	return r.raw(int(n)), false
}

// ---------------------------------------------------------------- decompression

var vcZstdDec, _ = zstd.NewReader(nil)

var vcXerialMagic = []byte{0x82, 'S', 'N', 'A', 'P', 'P', 'Y', 0}

func vcRefDecompress(codec int, data []byte) ([]byte, error) {
	switch codec {
	case 0:
		return data, nil
	case 1:
		if len(data) < 2 || data[0] != 0x1f || data[1] != 0x8b {
			return nil, fmt.Errorf("no gzip magic")
		}
		zr, err := gzip.NewReader(bytes.NewReader(data))
		if err != nil {
			return nil, err
		}
		return ioutil.ReadAll(zr)
	case 2:
		if len(data) >= 16 && bytes.Equal(data[:8], vcXerialMagic) {
			// xerial framing: magic, version int32, compat int32, then (int32 size, snappy block)*
			var out []byte
			pos := 16
			for pos < len(data) {
				if pos+4 > len(data) {
					return nil, fmt.Errorf("xerial: truncated block size")
				}
				n := int(binary.BigEndian.Uint32(data[pos:]))
				pos += 4
				if n < 0 || pos+n > len(data) {
					return nil, fmt.Errorf("xerial: block overruns")
				}
				blk, err := gsnappy.Decode(nil, data[pos:pos+n])
				if err != nil {
					return nil, err
				}
				out = append(out, blk...)
				pos += n
			}
			return out, nil
		}
		// raw snappy block (what Kafka's record batches carry when the producer does not frame)
		return gsnappy.Decode(nil, data)
	case 3:
		if len(data) < 4 || binary.LittleEndian.Uint32(data) != 0x184D2204 {
			return nil, fmt.Errorf("no lz4 frame magic")
		}
		return ioutil.ReadAll(lz4.NewReader(bytes.NewReader(data)))
	case 4:
		if len(data) < 4 || binary.LittleEndian.Uint32(data) != 0xFD2FB528 {
			return nil, fmt.Errorf("no zstd frame magic")
		}
		return vcZstdDec.DecodeAll(data, nil)
	}
	return nil, fmt.Errorf("codec %d is not defined", codec)
}

// ---------------------------------------------------------------- records

type vcRefHeader struct{ key, val []byte }

type vcRefRecord struct {
	attrs    int8
	tsDelta  int64
	offDelta int64
	key, val []byte
	keyNull  bool
	valNull  bool
	hdrs     []vcRefHeader
}

type vcRefBatch struct {
	baseOffset      int64
	leaderEpoch     int32
	attrs           int16
	lastOffsetDelta int32
	firstTs, maxTs  int64
	pid             int64
	epoch           int16
	baseSeq         int32
	count           int32
	recs            []vcRefRecord
}

type vcRefMsg struct {
	offset   int64
	magic    int8
	attrs    int8
	ts       int64
	key, val []byte // val is the decompressed payload for wrappers
	keyNull  bool
	valNull  bool
	inner    []vcRefItem
}

type vcRefItem struct {
	batch *vcRefBatch
	msg   *vcRefMsg
}

var vcCastagnoli = crc32.MakeTable(crc32.Castagnoli)

// vcRefRecordSet parses a record set: a concatenation of v2 record batches
// and/or legacy message-set entries. pfx prefixes the rule names.
func (rr *vcRef) vcRefRecordSet(b []byte, pfx string, depth int) []vcRefItem {
	var items []vcRefItem
	r := &vcRd{b: b}
	for r.rem() > 0 {
		if r.rem() < 17 {
			rr.fail(pfx+"records.truncated", "%d stray bytes at offset %d of a %d-byte record set", r.rem(), r.off, len(b))
			return items
		}
		magic := int8(b[r.off+16])
		if magic >= 2 {
			bt := rr.vcRefBatchAt(r, pfx)
			if bt == nil {
				return items
			}
			items = append(items, vcRefItem{batch: bt})
		} else {
			m := rr.vcRefMsgAt(r, pfx, depth)
			if m == nil {
				return items
			}
			items = append(items, vcRefItem{msg: m})
		}
	}
	return items
}

func (rr *vcRef) vcRefBatchAt(r *vcRd, pfx string) *vcRefBatch {
	start := r.off
	bt := &vcRefBatch{}
	bt.baseOffset = r.i64()
	batchLen := r.i32()
	rr.checks++
	if r.bad || batchLen < 49 || int(batchLen) > r.rem() {
		rr.fail(pfx+"batch.length", "batchLength %d, but %d bytes follow the length field (minimum 49)", batchLen, r.rem())
		return nil
	}
	end := r.off + int(batchLen)
	bt.leaderEpoch = r.i32()
	magic := r.i8()
	rr.checks++
	if magic != 2 {
		rr.fail(pfx+"batch.magic", "magic %d", magic)
		return nil
	}
	crc := uint32(r.i32())
	rr.crcs++
	if want := crc32.Checksum(r.b[r.off:end], vcCastagnoli); crc != want {
		rr.fail(pfx+"batch.crc", "crc field %#08x, CRC-32C of attributes..end is %#08x", crc, want)
	}
	bt.attrs = r.i16()
	rr.checks++
	if bt.attrs&^0x3f != 0 {
		rr.fail(pfx+"batch.attributes", "reserved attribute bits set: %#04x", uint16(bt.attrs))
	}
	bt.lastOffsetDelta = r.i32()
	bt.firstTs = r.i64()
	bt.maxTs = r.i64()
	bt.pid = r.i64()
	bt.epoch = r.i16()
	bt.baseSeq = r.i32()
	bt.count = r.i32()
	if r.bad || r.off-start != 61 {
		rr.fail(pfx+"batch.header", "fixed header is %d bytes, 61 expected", r.off-start)
		return nil
	}
	payload := r.b[r.off:end]
	r.off = end
	codec := int(bt.attrs & 7)
	raw, err := vcRefDecompress(codec, payload)
	rr.checks++
	if err != nil {
		rr.fail(fmt.Sprintf("%sbatch.decompress:codec%d", pfx, codec), "%v (payload %x)", err, vcTrunc(payload, 32))
		return bt
	}
	rd := &vcRd{b: raw}
	rr.checks++
	if bt.count < 0 {
		rr.fail(pfx+"batch.record-count", "record count %d", bt.count)
		return bt
	}
	for i := int32(0); i < bt.count; i++ {
		rec, ok := rr.vcRefRecordAt(rd, pfx, int(i))
		if !ok {
			return bt
		}
		bt.recs = append(bt.recs, rec)
	}
	rr.checks++
	if rd.rem() != 0 {
		rr.fail(pfx+"batch.records-trailing", "%d bytes left after %d records", rd.rem(), bt.count)
	}
	return bt
}

func (rr *vcRef) vcRefRecordAt(rd *vcRd, pfx string, i int) (vcRefRecord, bool) {
	var rec vcRefRecord
	minimal := true
	vi := func() int64 {
		x, m := rd.varint()
		if !m {
			minimal = false
		}
		return x
	}
	length := vi()
	bodyStart := rd.off
	rr.checks++
	if rd.bad || length < 0 || int(length) > rd.rem() {
		rr.fail(pfx+"record.length", "record %d: length %d with %d bytes left", i, length, rd.rem())
		return rec, false
	}
	rec.attrs = rd.i8()
	rec.tsDelta = vi()
	rec.offDelta = vi()
	kl := vi()
	if kl < 0 {
		rec.keyNull = true
		if kl != -1 {
			rr.fail(pfx+"record.null-length", "record %d: key length %d", i, kl)
		}
	} else {
		rec.key = rd.raw(int(kl))
	}
	vl := vi()
	if vl < 0 {
		rec.valNull = true
		if vl != -1 {
			rr.fail(pfx+"record.null-length", "record %d: value length %d", i, vl)
		}
	} else {
		rec.val = rd.raw(int(vl))
	}
	hc := vi()
	if hc < 0 || hc > int64(rd.rem()) {
		rr.fail(pfx+"record.header-count", "record %d: header count %d", i, hc)
		return rec, false
	}
	for h := int64(0); h < hc && !rd.bad; h++ {
		var hd vcRefHeader
		hk := vi()
		if hk < 0 {
			// the protocol does not allow a null header key; sarama's RecordHeader can hold one
			if hk != -1 {
				rr.fail(pfx+"record.null-length", "record %d: header key length %d", i, hk)
			}
		} else {
			hd.key = rd.raw(int(hk))
		}
		hv := vi()
		if hv < 0 {
			if hv != -1 {
				rr.fail(pfx+"record.null-length", "record %d: header value length %d", i, hv)
			}
		} else {
			hd.val = rd.raw(int(hv))
		}
		rec.hdrs = append(rec.hdrs, hd)
	}
	rr.checks += 2
	if rd.bad {
		rr.fail(pfx+"record.truncated", "record %d runs past the records payload", i)
		return rec, false
	}
	if got := rd.off - bodyStart; int64(got) != length {
		rr.fail(pfx+"record.length", "record %d: length field %d, record body is %d bytes", i, length, got)
		return rec, false
	}
	if !minimal {
		rr.fail(pfx+"record.varint-minimal", "record %d uses a padded varint", i)
	}
	return rec, true
}

func (rr *vcRef) vcRefMsgAt(r *vcRd, pfx string, depth int) *vcRefMsg {
	m := &vcRefMsg{}
	m.offset = r.i64()
	size := r.i32()
	rr.checks++
	if r.bad || size < 14 || int(size) > r.rem() {
		rr.fail(pfx+"message.size", "message size %d with %d bytes left (minimum 14)", size, r.rem())
		return nil
	}
	end := r.off + int(size)
	crc := uint32(r.i32())
	rr.crcs++
	if want := crc32.ChecksumIEEE(r.b[r.off:end]); crc != want {
		rr.fail(pfx+"message.crc", "crc field %#08x, CRC-32 of magic..value is %#08x", crc, want)
	}
	m.magic = r.i8()
	rr.checks++
	if m.magic != 0 && m.magic != 1 {
		rr.fail(pfx+"message.magic", "magic %d", m.magic)
		return nil
	}
	m.attrs = r.i8()
	rr.checks++
	allowed := int8(0x07)
	if m.magic == 1 {
		allowed = 0x0f
	}
	if m.attrs&^allowed != 0 {
		rr.fail(pfx+"message.attributes", "attribute bits %#02x not defined for magic %d", uint8(m.attrs), m.magic)
	}
	if m.magic == 1 {
		m.ts = r.i64()
	}
	m.key, m.keyNull = r.bytes32()
	m.val, m.valNull = r.bytes32()
	rr.checks++
	if r.bad || r.off != end {
		rr.fail(pfx+"message.size", "message size %d, fields end %d bytes from its start", size, r.off-(end-int(size)))
		r.bad = true
		return nil
	}
	codec := int(m.attrs & 7)
	if codec != 0 && !m.valNull {
		raw, err := vcRefDecompress(codec, m.val)
		rr.checks++
		if err != nil {
			rr.fail(fmt.Sprintf("%smessage.decompress:codec%d", pfx, codec), "%v (payload %x)", err, vcTrunc(m.val, 32))
			return m
		}
		m.val = raw
		if depth < 3 {
			m.inner = rr.vcRefRecordSet(raw, pfx+"inner.", depth+1)
		}
	}
	return m
}

func vcMillis(t time.Time) int64 {
	if t.IsZero() {
		return -1
	}
	return t.UnixNano() / int64(time.Millisecond)
}

// vcRefCompareBatch holds what the reference reader saw against the value that was encoded.
func (rr *vcRef) vcRefCompareBatch(bt *vcRefBatch, b *RecordBatch, pfx string) {
	rr.eq(pfx+"batch.field:FirstOffset", bt.baseOffset, b.FirstOffset)
	rr.eq(pfx+"batch.field:PartitionLeaderEpoch", bt.leaderEpoch, b.PartitionLeaderEpoch)
	rr.eq(pfx+"batch.field:Codec", int(bt.attrs&7), int(b.Codec))
	rr.eq(pfx+"batch.field:LogAppendTime", bt.attrs&0x08 != 0, b.LogAppendTime)
	rr.eq(pfx+"batch.field:IsTransactional", bt.attrs&0x10 != 0, b.IsTransactional)
	rr.eq(pfx+"batch.field:Control", bt.attrs&0x20 != 0, b.Control)
	rr.eq(pfx+"batch.field:LastOffsetDelta", bt.lastOffsetDelta, b.LastOffsetDelta)
	rr.eq(pfx+"batch.field:FirstTimestamp", bt.firstTs, vcMillis(b.FirstTimestamp))
	rr.eq(pfx+"batch.field:MaxTimestamp", bt.maxTs, vcMillis(b.MaxTimestamp))
	rr.eq(pfx+"batch.field:ProducerID", bt.pid, b.ProducerID)
	rr.eq(pfx+"batch.field:ProducerEpoch", bt.epoch, b.ProducerEpoch)
	rr.eq(pfx+"batch.field:FirstSequence", bt.baseSeq, b.FirstSequence)
	rr.eq(pfx+"batch.record-count", int(bt.count), len(b.Records))
	if len(bt.recs) != len(b.Records) {
		return
	}
	for i, rec := range bt.recs {
		v := b.Records[i]
		rr.eq(pfx+"record.field:Attributes", rec.attrs, v.Attributes)
		rr.eq(pfx+"record.field:TimestampDelta", rec.tsDelta, int64(v.TimestampDelta/time.Millisecond))
		rr.eq(pfx+"record.field:OffsetDelta", rec.offDelta, v.OffsetDelta)
		rr.eq(pfx+"record.field:Key#null", rec.keyNull, v.Key == nil)
		rr.eqBytes(pfx+"record.field:Key", rec.key, v.Key)
		rr.eq(pfx+"record.field:Value#null", rec.valNull, v.Value == nil)
		rr.eqBytes(pfx+"record.field:Value", rec.val, v.Value)
		rr.eq(pfx+"record.field:Headers#len", len(rec.hdrs), len(v.Headers))
		if len(rec.hdrs) == len(v.Headers) {
			for j, h := range rec.hdrs {
				rr.eqBytes(pfx+"record.field:Headers.Key", h.key, v.Headers[j].Key)
				rr.eqBytes(pfx+"record.field:Headers.Value", h.val, v.Headers[j].Value)
			}
		}
	}
}

func (rr *vcRef) vcRefCompareMsg(m *vcRefMsg, blk *MessageBlock, pfx string) {
	v := blk.Msg
	rr.eq(pfx+"message.field:Offset", m.offset, blk.Offset)
	rr.eq(pfx+"message.field:Version", m.magic, v.Version)
	rr.eq(pfx+"message.field:Codec", int(m.attrs&7), int(v.Codec))
	rr.eq(pfx+"message.field:LogAppendTime", m.attrs&0x08 != 0, v.LogAppendTime)
	if m.magic == 1 {
		rr.eq(pfx+"message.field:Timestamp", m.ts, vcMillis(v.Timestamp))
	}
	rr.eq(pfx+"message.field:Key#null", m.keyNull, v.Key == nil)
	rr.eqBytes(pfx+"message.field:Key", m.key, v.Key)
	rr.eq(pfx+"message.field:Value#null", m.valNull, v.Value == nil)
	rr.eqBytes(pfx+"message.field:Value", m.val, v.Value)
}

// vcRefCompareRecords matches parsed items against the Records values that were encoded, in order.
func (rr *vcRef) vcRefCompareRecords(items []vcRefItem, set []*Records, pfx string) {
	type want struct {
		batch *RecordBatch
		blk   *MessageBlock
	}
	var ws []want
	for _, r := range set {
		if r == nil {
			continue
		}
		switch {
		case r.RecordBatch != nil && r.recordsType != legacyRecords:
			ws = append(ws, want{batch: r.RecordBatch})
		case r.MsgSet != nil && r.recordsType != defaultRecords:
			for _, blk := range r.MsgSet.Messages {
				ws = append(ws, want{blk: blk})
			}
		}
	}
	rr.eq(pfx+"records.count", len(items), len(ws))
	if len(items) != len(ws) {
		return
	}
	for i, it := range items {
		w := ws[i]
		switch {
		case it.batch != nil && w.batch != nil:
			rr.vcRefCompareBatch(it.batch, w.batch, pfx)
		case it.msg != nil && w.blk != nil:
			rr.vcRefCompareMsg(it.msg, w.blk, pfx)
		default:
			rr.fail(pfx+"records.format", "item %d: wire has batch=%v, value has batch=%v", i, it.batch != nil, w.batch != nil)
		}
	}
}

// ---------------------------------------------------------------- framing

// vcRefRequest parses a framed request and returns the body bytes.
func (rr *vcRef) vcRefRequest(b []byte, key, version int16, corr int32, clientID string, headerVersion int16) []byte {
	r := &vcRd{b: b}
	size := r.i32()
	rr.checks++
	if r.bad || int(size) != len(b)-4 {
		rr.fail("request.size", "size prefix %d, %d bytes follow it", size, len(b)-4)
		return nil
	}
	rr.eq("request.header:api_key", r.i16(), key)
	rr.eq("request.header:api_version", r.i16(), version)
	rr.eq("request.header:correlation_id", r.i32(), corr)
	if headerVersion >= 1 {
		s, null := r.str16()
		rr.checks++
		if r.bad {
			rr.fail("request.header:client_id", "client id does not fit")
			return nil
		}
		// sarama's request has a plain string client id, so null is never expected
		rr.eq("request.header:client_id#null", null, false)
		rr.eq("request.header:client_id", s, clientID)
	}
	if headerVersion >= 2 {
		n, min := r.uvarint()
		rr.checks++
		if r.bad || !min || n != 0 {
			rr.fail("request.header:tagged_fields", "tagged field count %d (minimal=%v)", n, min)
			return nil
		}
	}
	if r.bad {
		rr.fail("request.header", "header does not fit in %d bytes", len(b))
		return nil
	}
	return b[r.off:]
}

// vcRefProduceRequest: Produce v0-v8 (non-flexible):
//
//	[transactional_id NULLABLE_STRING (v3+)] acks INT16 timeout_ms INT32
//	topic_data [name STRING partition_data [index INT32 records BYTES]]
func (rr *vcRef) vcRefProduceRequest(b []byte, version int16, v *ProduceRequest) {
	r := &vcRd{b: b}
	if version >= 3 {
		s, null := r.str16()
		rr.eq("produce.field:TransactionalID#null", null, v.TransactionalID == nil)
		if !null && v.TransactionalID != nil {
			rr.eq("produce.field:TransactionalID", s, *v.TransactionalID)
		}
	}
	rr.eq("produce.field:RequiredAcks", r.i16(), int16(v.RequiredAcks))
	rr.eq("produce.field:Timeout", r.i32(), v.Timeout)
	nt := r.i32()
	rr.eq("produce.topics#len", int(nt), len(v.records))
	seenT := map[string]bool{}
	for i := int32(0); i < nt && !r.bad; i++ {
		topic, null := r.str16()
		if null {
			rr.fail("produce.topic#null", "null topic name")
		}
		rr.checks++
		if seenT[topic] {
			rr.fail("produce.topic-duplicate", "topic %q twice", topic)
		}
		seenT[topic] = true
		parts, ok := v.records[topic]
		rr.checks++
		if !ok {
			rr.fail("produce.topic-unknown", "topic %q is not in the value", topic)
		}
		np := r.i32()
		rr.eq("produce.partitions#len", int(np), len(parts))
		seenP := map[int32]bool{}
		for j := int32(0); j < np && !r.bad; j++ {
			id := r.i32()
			data, null := r.bytes32()
			if r.bad {
				break
			}
			rr.checks += 2
			if seenP[id] {
				rr.fail("produce.partition-duplicate", "partition %d twice", id)
			}
			seenP[id] = true
			rec, ok := parts[id]
			if !ok {
				rr.fail("produce.partition-unknown", "partition %d of %q is not in the value", id, topic)
				continue
			}
			if null {
				rr.fail("produce.records#null", "null record set")
				continue
			}
			items := rr.vcRefRecordSet(data, "produce.", 0)
			rc := rec
			rr.vcRefCompareRecords(items, []*Records{&rc}, "produce.")
		}
	}
	rr.checks++
	if r.bad || r.rem() != 0 {
		rr.fail("produce.framing", "body does not parse as Produce v%d (bad=%v, %d bytes left)", version, r.bad, r.rem())
	}
}

// vcRefFetchResponse: Fetch v0-v11:
//
//	[throttle_time_ms INT32 (v1+)] [error_code INT16 session_id INT32 (v7+)]
//	responses [topic STRING partitions [partition_index INT32 error_code INT16 high_watermark INT64
//	  [last_stable_offset INT64 (v4+)] [log_start_offset INT64 (v5+)]
//	  [aborted_transactions [producer_id INT64 first_offset INT64] (v4+, nullable)]
//	  [preferred_read_replica INT32 (v11+)] records NULLABLE_BYTES]]
func (rr *vcRef) vcRefFetchResponse(b []byte, version int16, v *FetchResponse) {
	r := &vcRd{b: b}
	if version >= 1 {
		rr.eq("fetch.field:ThrottleTime", r.i32(), int32(v.ThrottleTime/time.Millisecond))
	}
	if version >= 7 {
		rr.eq("fetch.field:ErrorCode", r.i16(), v.ErrorCode)
		rr.eq("fetch.field:SessionID", r.i32(), v.SessionID)
	}
	nt := r.i32()
	rr.eq("fetch.topics#len", int(nt), len(v.Blocks))
	for i := int32(0); i < nt && !r.bad; i++ {
		topic, _ := r.str16()
		parts, ok := v.Blocks[topic]
		rr.checks++
		if !ok {
			rr.fail("fetch.topic-unknown", "topic %q is not in the value", topic)
		}
		np := r.i32()
		rr.eq("fetch.partitions#len", int(np), len(parts))
		for j := int32(0); j < np && !r.bad; j++ {
			id := r.i32()
			errc := r.i16()
			hwm := r.i64()
			var lso, lstart int64
			var aborted [][2]int64
			abortedNull := false
			if version >= 4 {
				lso = r.i64()
				if version >= 5 {
					lstart = r.i64()
				}
				na := r.i32()
				if na < 0 {
					abortedNull = true
				}
				for k := int32(0); k < na && !r.bad; k++ {
					aborted = append(aborted, [2]int64{r.i64(), r.i64()})
				}
			}
			replica := int32(-1)
			if version >= 11 {
				replica = r.i32()
			}
			data, _ := r.bytes32()
			if r.bad {
				break
			}
			blk, ok := parts[id]
			rr.checks++
			if !ok || blk == nil {
				rr.fail("fetch.partition-unknown", "partition %d of %q is not in the value", id, topic)
				continue
			}
			rr.eq("fetch.field:Err", errc, int16(blk.Err))
			rr.eq("fetch.field:HighWaterMarkOffset", hwm, blk.HighWaterMarkOffset)
			if version >= 4 {
				rr.eq("fetch.field:LastStableOffset", lso, blk.LastStableOffset)
				if version >= 5 {
					rr.eq("fetch.field:LogStartOffset", lstart, blk.LogStartOffset)
				}
				_ = abortedNull
				rr.eq("fetch.field:AbortedTransactions#len", len(aborted), len(blk.AbortedTransactions))
				if len(aborted) == len(blk.AbortedTransactions) {
					for k, a := range aborted {
						rr.eq("fetch.field:AbortedTransactions.ProducerID", a[0], blk.AbortedTransactions[k].ProducerID)
						rr.eq("fetch.field:AbortedTransactions.FirstOffset", a[1], blk.AbortedTransactions[k].FirstOffset)
					}
				}
			}
			if version >= 11 {
				rr.eq("fetch.field:PreferredReadReplica", replica, blk.PreferredReadReplica)
			}
			items := rr.vcRefRecordSet(data, "fetch.", 0)
			rr.vcRefCompareRecords(items, blk.RecordsSet, "fetch.")
		}
	}
	rr.checks++
	if r.bad || r.rem() != 0 {
		rr.fail("fetch.framing", "body does not parse as Fetch response v%d (bad=%v, %d bytes left)", version, r.bad, r.rem())
	}
}

// consumer protocol member metadata: version INT16, topics [STRING], user_data BYTES
func (rr *vcRef) vcRefMemberMetadata(b []byte, v *ConsumerGroupMemberMetadata) {
	r := &vcRd{b: b}
	rr.eq("member-metadata.field:Version", r.i16(), v.Version)
	n := r.i32()
	rr.eq("member-metadata.field:Topics#len", int(n), len(v.Topics))
	for i := int32(0); i < n && !r.bad; i++ {
		s, _ := r.str16()
		if int(i) < len(v.Topics) {
			rr.eq("member-metadata.field:Topics", s, v.Topics[i])
		}
	}
	d, null := r.bytes32()
	rr.eq("member-metadata.field:UserData#null", null, v.UserData == nil)
	rr.eqBytes("member-metadata.field:UserData", d, v.UserData)
	rr.checks++
	if r.bad || r.rem() != 0 {
		rr.fail("member-metadata.framing", "bad=%v, %d bytes left", r.bad, r.rem())
	}
}

func (rr *vcRef) vcRefTopicPartitions(r *vcRd, want map[string][]int32, pfx string) {
	n := r.i32()
	rr.eq(pfx+".field:Topics#len", int(n), len(want))
	for i := int32(0); i < n && !r.bad; i++ {
		s, _ := r.str16()
		ps, ok := want[s]
		rr.checks++
		if !ok {
			rr.fail(pfx+".topic-unknown", "topic %q is not in the value", s)
		}
		np := r.i32()
		rr.eq(pfx+".field:Topics.partitions#len", int(np), len(ps))
		for j := int32(0); j < np && !r.bad; j++ {
			p := r.i32()
			if int(j) < len(ps) {
				rr.eq(pfx+".field:Topics.partitions", p, ps[j])
			}
		}
	}
}

// consumer protocol assignment: version INT16, topic_partitions [topic STRING partitions [INT32]], user_data BYTES
func (rr *vcRef) vcRefMemberAssignment(b []byte, v *ConsumerGroupMemberAssignment) {
	r := &vcRd{b: b}
	rr.eq("member-assignment.field:Version", r.i16(), v.Version)
	rr.vcRefTopicPartitions(r, v.Topics, "member-assignment")
	d, null := r.bytes32()
	rr.eq("member-assignment.field:UserData#null", null, v.UserData == nil)
	rr.eqBytes("member-assignment.field:UserData", d, v.UserData)
	rr.checks++
	if r.bad || r.rem() != 0 {
		rr.fail("member-assignment.framing", "bad=%v, %d bytes left", r.bad, r.rem())
	}
}

// sticky assignor user data: previous assignment [topic STRING partitions [INT32]] [generation INT32 (v1)]
func (rr *vcRef) vcRefSticky(b []byte, topics map[string][]int32, hasGen bool, gen int32) {
	r := &vcRd{b: b}
	rr.vcRefTopicPartitions(r, topics, "sticky")
	if hasGen {
		rr.eq("sticky.field:Generation", r.i32(), gen)
	}
	rr.checks++
	if r.bad || r.rem() != 0 {
		rr.fail("sticky.framing", "bad=%v, %d bytes left", r.bad, r.rem())
	}
}
