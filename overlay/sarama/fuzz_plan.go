//go:build verif

package sarama

// Engine "fuzz": sticky user data written by other members, read through
// BalanceStrategySticky.Plan; and the live Broker receive paths (response
// receiver, SASL handshake / authenticate reads) fed by a raw TCP server.

import (
	"encoding/binary"
	"fmt"
	"io"
	"math/rand"
	"net"
	"os"
	"runtime"
	"sort"
	"sync"
	"time"
)

var fzDebug = os.Getenv("VERIF_FUZZ_DEBUG") != ""

// ---------------------------------------------------------------- sticky user data through Plan

func (st *fzState) runPlan() {
	k := st.c.arg
	rng := rand.New(rand.NewSource(vcMix(st.seed, int64(st.idx), 82)))
	// group shapes: members x topics; the mutated bytes are the user data of one member
	shapes := []struct{ members, topics, parts int }{{2, 1, 3}, {3, 2, 4}, {4, 3, 3}, {3, 2, 6}}
	sh := shapes[k%len(shapes)]
	topics := map[string][]int32{}
	var tnames []string
	for t := 0; t < sh.topics; t++ {
		name := fmt.Sprintf("t%d", t)
		tnames = append(tnames, name)
		for p := 0; p < sh.parts+t; p++ {
			topics[name] = append(topics[name], int32(p))
		}
	}
	var mnames []string
	for m := 0; m < sh.members; m++ {
		mnames = append(mnames, fmt.Sprintf("m%d", m))
	}
	base := map[string]ConsumerGroupMemberMetadata{}
	for _, m := range mnames {
		base[m] = ConsumerGroupMemberMetadata{Version: 1, Topics: tnames}
	}
	// valid user data: what each member would send after a first plan
	first, err := (&stickyBalanceStrategy{}).Plan(base, topics)
	if err != nil {
		st.obs["plan_seed_failed"]++
		return
	}
	valid := map[string][]byte{}
	var seeds [][]byte
	for _, m := range mnames {
		for _, gen := range []int32{1, 7} {
			b, err := (&stickyBalanceStrategy{}).AssignmentData(m, first[m], gen)
			if err == nil {
				if gen == 1 {
					valid[m] = b
				}
				seeds = append(seeds, b)
			}
		}
		if b, err := encode(&StickyAssignorUserDataV0{Topics: first[m]}, nil); err == nil {
			seeds = append(seeds, b)
		}
	}
	// user data that decodes but lies: partitions that do not exist, partitions of other members, every partition
	all := map[string][]int32{}
	for t, ps := range topics {
		all[t] = append([]int32{}, ps...)
	}
	lies := []map[string][]int32{all, {"t0": {0, 0, 0, 1, 1}}, {"nope": {0, 1, 2}}, {"t0": {-1, 2147483647, -2147483648}}, {}}
	for _, l := range lies {
		for _, gen := range []int32{0, -1, 2147483647, 7} {
			if b, err := encode(&StickyAssignorUserDataV1{Topics: l, Generation: gen}, nil); err == nil {
				seeds = append(seeds, b)
			}
		}
	}
	victim := mnames[(k/len(shapes))%len(mnames)]
	st.tgt = &fzTarget{name: fmt.Sprintf("sticky-plan/m%dt%d", sh.members, sh.topics), outer: "(*stickyBalanceStrategy).Plan", slack: 2 << 20}
	st.tgt.dec = func(b []byte) fzOut {
		members := make(map[string]ConsumerGroupMemberMetadata, len(base))
		for m, md := range base {
			md.UserData = valid[m]
			if m == victim {
				md.UserData = b
			}
			members[m] = md
		}
		plan, err := (&stickyBalanceStrategy{}).Plan(members, topics)
		return fzOut{err: err, val: plan}
	}
	st.sample = map[string]interface{}{"target": st.tgt.name, "members": sh.members, "topics": sh.topics, "mutated_member": victim, "seeds": len(seeds)}
	if len(seeds) > 0 {
		st.sample["first_seed_hex"] = vcHex(seeds[0], 120)
	}
	keep := 6
	if st.thorough {
		keep = len(seeds)
	}
	for i, sd := range seeds {
		if _, ok := st.seedOK(sd); !ok {
			st.obs["seeds_rejected_by_decoder"]++
			continue
		}
		st.seedsValid++
		if i >= keep && i%5 != k%5 {
			// the remaining seeds are evaluated as they are (lying user data), not mutated
			if !st.skip() {
				st.curSeed = sd
				b := st.buf(len(sd))
				copy(b, sd)
				st.eval("valid", b, 0, 0)
			}
			continue
		}
		st.mutate(sd, rng)
	}
	nr := 512
	if st.thorough {
		nr = 20000
	}
	st.randomStrings(rng, nr)
	st.splices(seeds, rng, nr/4)
}

// ---------------------------------------------------------------- live receive paths

type fzRecvStep struct {
	data       []byte // what the server writes after reading a request
	close      bool   // then closes the connection
	corrOffset int    // where to patch the request's correlation id into data (-1: nowhere)
	corrDelta  int32
}

type fzRecvScenario struct {
	name   string
	class  string // what is wrong with the frame ("" = nothing: the call must succeed)
	steps  []fzRecvStep
	honest int // bytes of a frame the server really delivers in full (legitimate allocation)
}

func fzFrame(hv int, length int64, corrDelta int32, body []byte) fzRecvStep {
	b := make([]byte, 8, 9+len(body))
	binary.BigEndian.PutUint32(b, uint32(length))
	if hv >= 1 {
		b = append(b, 0)
	}
	b = append(b, body...)
	return fzRecvStep{data: b, corrOffset: 4, corrDelta: corrDelta}
}

type fzRecvServer struct {
	ln   net.Listener
	mu   sync.Mutex
	sent int
	reqs int
	wg   sync.WaitGroup
}

func fzServe(sc *fzRecvScenario) (*fzRecvServer, error) {
	ln, err := net.Listen("tcp", "127.0.0.1:0")
	if err != nil {
		return nil, err
	}
	s := &fzRecvServer{ln: ln}
	s.wg.Add(1)
	go func() {
		defer s.wg.Done()
		c, err := ln.Accept()
		if err != nil {
			return
		}
		defer c.Close()
		for i := 0; ; i++ {
			c.SetReadDeadline(time.Now().Add(3 * time.Second))
			var hdr [4]byte
			if _, err := io.ReadFull(c, hdr[:]); err != nil {
				return
			}
			n := int(binary.BigEndian.Uint32(hdr[:]))
			if n < 0 || n > 1<<20 {
				return
			}
			req := make([]byte, n)
			if _, err := io.ReadFull(c, req); err != nil {
				return
			}
			s.mu.Lock()
			s.reqs++
			s.mu.Unlock()
			if i >= len(sc.steps) {
				// nothing scripted: stay silent until the client gives up
				continue
			}
			stp := sc.steps[i]
			out := append([]byte{}, stp.data...)
			if stp.corrOffset >= 0 && len(out) >= stp.corrOffset+4 && len(req) >= 8 {
				// a Kafka request: api key, version, correlation id (a raw SASL v0 token has none)
				corr := int32(binary.BigEndian.Uint32(req[4:8]))
				binary.BigEndian.PutUint32(out[stp.corrOffset:], uint32(corr+stp.corrDelta))
			}
			c.SetWriteDeadline(time.Now().Add(2 * time.Second))
			w, _ := c.Write(out)
			s.mu.Lock()
			s.sent += w
			s.mu.Unlock()
			if stp.close {
				return
			}
		}
	}()
	return s, nil
}

func (s *fzRecvServer) stop() {
	s.ln.Close()
	s.wg.Wait()
}

type fzRecvOutcome struct {
	err1, err2 error
	ok1        bool
	opened     bool
	openErr    error
	sent       int
}

// fzRecvRun plays one scenario against a fresh Broker (out is filled in place:
// a panic of the call leaves what was observed so far).
func fzRecvRun(mode string, sc *fzRecvScenario, out *fzRecvOutcome) {
	srv, err := fzServe(sc)
	if err != nil {
		out.openErr = err
		return
	}
	defer func() {
		srv.stop()
		srv.mu.Lock()
		out.sent = srv.sent
		srv.mu.Unlock()
	}()
	conf := NewConfig()
	conf.Version = V2_4_0_0
	conf.Net.DialTimeout = 2 * time.Second
	conf.Net.ReadTimeout = 150 * time.Millisecond
	conf.Net.WriteTimeout = 500 * time.Millisecond
	conf.ClientID = "fz"
	switch mode {
	case "sasl-v0", "sasl-v1":
		conf.Net.SASL.Enable = true
		conf.Net.SASL.User = "u"
		conf.Net.SASL.Password = "p"
		conf.Net.SASL.Handshake = true
		conf.Net.SASL.Mechanism = SASLTypePlaintext
		conf.Net.SASL.Version = SASLHandshakeV0
		if mode == "sasl-v1" {
			conf.Net.SASL.Version = SASLHandshakeV1
		}
	}
	b := NewBroker(srv.ln.Addr().String())
	if err := b.Open(conf); err != nil {
		out.openErr = err
		return
	}
	defer b.Close()
	out.opened, out.openErr = b.Connected()
	if !out.opened {
		return
	}
	call := func() error {
		if mode == "h1" {
			_, err := b.ListPartitionReassignments(&ListPartitionReassignmentsRequest{TimeoutMs: 100})
			return err
		}
		_, err := b.GetMetadata(&MetadataRequest{Version: 5, Topics: []string{"t"}})
		return err
	}
	out.err1 = call()
	out.ok1 = out.err1 == nil
	out.err2 = call()
	return
}

func (st *fzState) recvScenarios(mode string, rng *rand.Rand) []*fzRecvScenario {
	var scs []*fzRecvScenario
	add := func(name, class string, honest int, steps ...fzRecvStep) {
		scs = append(scs, &fzRecvScenario{name: name, class: class, steps: steps, honest: honest})
	}
	closing := func(s fzRecvStep) fzRecvStep { s.close = true; return s }
	raw := func(b []byte) fzRecvStep { return fzRecvStep{data: b, corrOffset: -1} }
	max := int64(MaxResponseSize)

	if mode == "h0" || mode == "h1" {
		hv := 0
		var body []byte
		if mode == "h1" {
			hv = 1
			r := &ListPartitionReassignmentsResponse{}
			r.AddBlock("t", 0, []int32{1, 2}, []int32{2}, []int32{})
			body = vcEncode(r).b
		} else {
			r := &MetadataResponse{Version: 5}
			r.AddBroker("localhost:9092", 1)
			r.AddTopicPartition("t", 0, 1, []int32{1}, []int32{1}, nil, ErrNoError)
			body = vcEncode(r).b
		}
		if len(body) == 0 {
			st.obs["receiver_no_valid_body"]++
			return nil
		}
		good := int64(4 + hv + len(body))
		full := int(good) + 4
		add("valid", "", 2*full, fzFrame(hv, good, 0, body), fzFrame(hv, good, 0, body))
		add("valid-then-trailing-bytes", "", 2*full, fzFrame(hv, good, 0, append(append([]byte{}, body...), 1, 2, 3)), fzFrame(hv, good, 0, body))
		for _, l := range []int64{-1, 0, 1, 3, 4, 5, 6, 7, 8, 9, good - 1, good + 1, good + 1000, 1 << 20, 16 << 20, max - 1, max, max + 1, 0x7fffffff, -0x80000000} {
			class := "length-disagrees"
			switch {
			case l <= 4:
				class = "length-below-header"
			case l > max:
				class = "length-above-max"
			}
			add(fmt.Sprintf("length=%d,then-close", l), class, 0, closing(fzFrame(hv, l, 0, body)))
			if l > good {
				add(fmt.Sprintf("length=%d,then-silence", l), class, 0, fzFrame(hv, l, 0, body))
				add(fmt.Sprintf("length=%d,header-only,then-close", l), class, 0, closing(fzFrame(hv, l, 0, nil)))
			}
		}
		for _, d := range []int32{1, -1, 1000, -0x80000000} {
			add(fmt.Sprintf("correlation-id%+d", d), "wrong-correlation-id", full, fzFrame(hv, good, d, body))
		}
		honest := fzFrame(hv, good, 0, body)
		for k := 0; k < len(honest.data); k++ {
			if k > 12 && k < len(honest.data)-3 && k%7 != 0 {
				continue
			}
			add(fmt.Sprintf("truncated-after-%d-bytes,then-close", k), "truncated", 0, closing(fzRecvStep{data: honest.data[:k], corrOffset: 4}))
		}
		add("silence", "truncated", 0, raw(nil))
		add("half-frame-then-silence", "truncated", 0, fzRecvStep{data: honest.data[:len(honest.data)/2], corrOffset: 4})
		if hv == 1 {
			for _, tag := range []byte{1, 0x7f, 0x80, 0xff} {
				f := fzFrame(hv, good, 0, body)
				f.data[8] = tag
				add(fmt.Sprintf("tagged-fields=%#x", tag), "header-tagged-fields", full, f)
			}
		}
		// bodies the decoders of this engine's other cases see, end to end
		nb := 80
		if st.thorough {
			nb = 3000
		}
		for i := 0; i < nb; i++ {
			mb := append([]byte{}, body...)
			switch rng.Intn(4) {
			case 0:
				mb = mb[:rng.Intn(len(mb))]
			case 1:
				p := rng.Intn(len(mb))
				mb[p] ^= 1 << uint(rng.Intn(8))
			case 2:
				if len(mb) >= 4 {
					p := rng.Intn(len(mb) - 3)
					binary.BigEndian.PutUint32(mb[p:], uint32(fzLen4Values[rng.Intn(len(fzLen4Values))]))
				}
			default:
				rng.Read(mb)
			}
			add(fmt.Sprintf("body-mutation-%d", i%4), "body", 4+hv+len(mb)+4+full, fzFrame(hv, int64(4+hv+len(mb)), 0, mb), fzFrame(hv, good, 0, body))
		}
		return scs
	}

	// SASL PLAIN: handshake (raw read in sendAndReceiveSASLHandshake), then the
	// token exchange (v0: raw 4-byte read; v1: SaslAuthenticate response)
	hs := vcEncode(&SaslHandshakeResponse{Err: ErrNoError, EnabledMechanisms: []string{"PLAIN"}}).b
	hgood := int64(4 + len(hs))
	authOK := raw([]byte{0, 0, 0, 0})
	if mode == "sasl-v1" {
		ab := vcEncode(&SaslAuthenticateResponse{Err: ErrNoError, SaslAuthBytes: []byte{}}).b
		authOK = fzFrame(0, int64(4+len(ab)), 0, ab)
	}
	md := &MetadataResponse{Version: 5}
	md.AddBroker("localhost:9092", 1)
	mdb := vcEncode(md).b
	meta := fzFrame(0, int64(4+len(mdb)), 0, mdb)
	add("valid", "", 2*(len(hs)+len(mdb)+32), fzFrame(0, hgood, 0, hs), authOK, meta, meta)
	for _, l := range []int64{-1, 0, 1, 2, 3, 4, 5, hgood - 1, hgood + 1, 1 << 20, 64 << 20, max, max + 1, 0x7fffffff, -0x80000000, 0xffffffff} {
		class := "length-disagrees"
		switch {
		case l < 4:
			class = "length-below-header"
		case l > max:
			class = "length-above-max"
		}
		add(fmt.Sprintf("handshake-length=%d,then-close", l), "handshake:"+class, 0, closing(fzFrame(0, l, 0, hs)))
		if l > hgood {
			add(fmt.Sprintf("handshake-length=%d,then-silence", l), "handshake:"+class, 0, fzFrame(0, l, 0, hs))
		}
	}
	hon := fzFrame(0, hgood, 0, hs)
	for k := 0; k < len(hon.data); k++ {
		add(fmt.Sprintf("handshake-truncated-after-%d-bytes", k), "handshake:truncated", 0, closing(fzRecvStep{data: hon.data[:k], corrOffset: 4}))
	}
	for i := 0; i < 60; i++ {
		mb := append([]byte{}, hs...)
		switch rng.Intn(3) {
		case 0:
			p := rng.Intn(len(mb))
			mb[p] ^= 1 << uint(rng.Intn(8))
		case 1:
			if len(mb) >= 4 {
				p := rng.Intn(len(mb) - 3)
				binary.BigEndian.PutUint32(mb[p:], uint32(fzLen4Values[rng.Intn(len(fzLen4Values))]))
			}
		default:
			rng.Read(mb)
		}
		add(fmt.Sprintf("handshake-body-mutation-%d", i%3), "body", len(mb)+8, fzFrame(0, int64(4+len(mb)), 0, mb), authOK, meta)
	}
	if mode == "sasl-v1" {
		ab := vcEncode(&SaslAuthenticateResponse{Err: ErrNoError, SaslAuthBytes: []byte{}}).b
		ag := int64(4 + len(ab))
		for _, l := range []int64{-1, 0, 3, 4, 5, ag - 1, ag + 1, 1 << 20, 64 << 20, max, max + 1, 0x7fffffff, -0x80000000} {
			class := "length-disagrees"
			switch {
			case l <= 4:
				class = "length-below-header"
			case l > max:
				class = "length-above-max"
			}
			add(fmt.Sprintf("authenticate-length=%d,then-close", l), "authenticate:"+class, 0, fzFrame(0, hgood, 0, hs), closing(fzFrame(0, l, 0, ab)))
		}
		add("authenticate-correlation-id+1", "authenticate:wrong-correlation-id", 0, fzFrame(0, hgood, 0, hs), fzFrame(0, ag, 1, ab))
		for i := 0; i < 40; i++ {
			mb := append([]byte{}, ab...)
			if rng.Intn(2) == 0 {
				p := rng.Intn(len(mb))
				mb[p] ^= 1 << uint(rng.Intn(8))
			} else if len(mb) >= 4 {
				p := rng.Intn(len(mb) - 3)
				binary.BigEndian.PutUint32(mb[p:], uint32(fzLen4Values[rng.Intn(len(fzLen4Values))]))
			}
			add("authenticate-body-mutation", "body", len(mb)+len(hs)+16, fzFrame(0, hgood, 0, hs), fzFrame(0, int64(4+len(mb)), 0, mb), meta)
		}
	} else {
		for k := 0; k < 4; k++ {
			add(fmt.Sprintf("token-answer-truncated-after-%d-bytes", k), "authenticate:truncated", 0, fzFrame(0, hgood, 0, hs), closing(raw(make([]byte, k))))
		}
	}
	return scs
}

func (st *fzState) runRecv() {
	mode := st.c.sub.name
	rng := rand.New(rand.NewSource(vcMix(st.seed, int64(st.idx), 83)))
	st.tgt = &fzTarget{name: "receiver/" + mode, outer: "(*Broker).responseReceiver"}
	scs := st.recvScenarios(mode, rng)
	st.sample = map[string]interface{}{"target": st.tgt.name, "scenarios": len(scs)}
	for _, sc := range scs {
		if st.skip() {
			continue
		}
		var first []byte
		for _, s := range sc.steps {
			first = append(first, s.data...)
			if len(first) > 4096 {
				first = first[:4096]
				break
			}
		}
		if st.hooks.Before != nil {
			st.hooks.Before(st.seq, st.evals+1, first)
		}
		st.evals++
		var out fzRecvOutcome
		var sent int
		var pan interface{}
		var pk, pa string
		var m0, m1 runtime.MemStats
		runtime.ReadMemStats(&m0)
		t0 := time.Now()
		func() {
			defer func() {
				if r := recover(); r != nil {
					pan = r
					pk, pa = fzPanicSite(r)
				}
			}()
			fzRecvRun(mode, sc, &out)
		}()
		sent = out.sent
		runtime.ReadMemStats(&m1)
		alloc := int64(m1.TotalAlloc - m0.TotalAlloc)
		if fzDebug {
			fmt.Fprintf(os.Stderr, "recv %-50s %8.1fms alloc=%d sent=%d opened=%v err1=%v err2=%v\n", sc.name, float64(time.Since(t0).Microseconds())/1000, alloc, sent, out.opened, out.err1, out.err2)
		}
		oc := "error"
		switch {
		case pan != nil:
			oc = "panic"
			st.viol(pk, pa, fmt.Sprintf("%s, scenario %s: %v; server bytes=%s", st.tgt.name, sc.name, pan, vcHex(first, 120)), len(first))
		case out.openErr != nil && !out.opened:
			oc = "open-error:" + fzErrClass(out.openErr)
		case out.ok1:
			oc = "ok"
		default:
			oc = "error:" + fzErrClass(out.err1)
		}
		class := sc.class
		if class == "" {
			class = "valid"
		}
		st.paths[fzPathKey{class, oc}] = struct{}{}
		st.obs["receiver_exchanges"]++
		if sc.class == "" {
			if out.ok1 && out.opened {
				st.seedsValid++
			} else {
				st.obs["receiver_valid_exchange_failed"]++
				if st.sample["valid_exchange_error"] == nil {
					st.sample["valid_exchange_error"] = fmt.Sprintf("%s: open=%v/%v call=%v", sc.name, out.opened, out.openErr, out.err1)
				}
			}
		} else if sc.class != "body" && pan == nil {
			// a frame that is wrong must not be handed to the caller as a response
			accepted := out.opened && out.ok1
			if mode[0] == 's' && len(sc.steps) <= 2 {
				accepted = out.opened // the wrong frame is part of opening the connection
			}
			// MaxResponseSize: "If a broker returns a response message larger than this value, Sarama will
			// return a PacketDecodingError to protect the client from running out of memory"
			if len(sc.class) >= 16 && sc.class[len(sc.class)-16:] == "length-above-max" && !accepted {
				e := out.err1
				if !out.opened {
					e = out.openErr
				}
				if _, isPDE := e.(PacketDecodingError); e != nil && !isPDE {
					st.viol("receiver:oversize-not-rejected", sc.class, fmt.Sprintf("%s, scenario %s: a frame announcing more than MaxResponseSize was not rejected by its length (the caller got %q after the body was waited for); server bytes=%s", st.tgt.name, sc.name, e.Error(), vcHex(first, 120)), len(first))
				}
			}
			if accepted {
				st.viol("receiver:accepted-bad-frame", sc.class, fmt.Sprintf("%s, scenario %s: the call returned a response and no error; server bytes=%s", st.tgt.name, sc.name, vcHex(first, 120)), len(first))
			} else {
				st.obs["receiver_bad_frames_rejected"]++
			}
		}
		// allocation: what the server really delivered (and a delivered honest frame) justifies memory, an announced length does not
		budget := int64(2<<20) + 40*int64(sent) + 4*int64(sc.honest)
		if alloc > budget {
			// steady state of the same exchange
			runtime.ReadMemStats(&m0)
			func() {
				defer func() { recover() }()
				fzRecvRun(mode, sc, &fzRecvOutcome{})
			}()
			runtime.ReadMemStats(&m1)
			if a := int64(m1.TotalAlloc - m0.TotalAlloc); a < alloc {
				alloc = a
			}
		}
		if alloc > budget {
			site := fzAllocSite(func() {
				defer func() { recover() }()
				fzRecvRun(mode, sc, &fzRecvOutcome{})
			})
			if site == "" {
				site = st.tgt.outer
			}
			k := "receiver:alloc-announced-size"
			if sc.class == "body" {
				k = "alloc-excess" // a well-framed body: the decoder of the response allocates
			}
			st.viol(k, site, fmt.Sprintf("%s, scenario %s: %d bytes allocated while the server sent %d bytes in all (budget %d); server bytes=%s", st.tgt.name, sc.name, alloc, sent, budget, vcHex(first, 120)), len(first))
		}
		st.sinceCkpt++
		if st.sinceCkpt >= 50 && st.hooks.Checkpoint != nil {
			st.sinceCkpt = 0
			st.hooks.Checkpoint(st.result())
		}
	}
	names := map[string]bool{}
	for _, sc := range scs {
		names[sc.class] = true
	}
	var cl []string
	for c := range names {
		cl = append(cl, c)
	}
	sort.Strings(cl)
	st.sample["classes"] = fmt.Sprint(cl)
}
