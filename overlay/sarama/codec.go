//go:build verif

package sarama

// Engine "codec" (property C09, wire round-trip), in-package half. One case =
// one subject (a protocol body or a record format) over all its versions.
// For every generated value v0 at version V:
//   b1 = encode(v0)           both passes run here: prepEncoder.length must equal realEncoder.off
//   v1 = decode(b1)           no error, no trailing bytes
//   b2 = encode(v1)           same length; same bytes unless a map-ordered section exists (then same byte histogram)
//   v2 = decode(b2)           equal to v1 (nil and empty collections compare equal)
//   v1 == v0 on every carried leaf (carried = perturbing that leaf alone changes b1)
//   the reference reader (codec_ref.go) parses b1's framing, CRCs, varints and nested records.

import (
	"encoding/hex"
	"fmt"
	"math/rand"
	"os"
	"reflect"
	"runtime"
	"sort"
	"strings"
	"time"
)

// ---------------------------------------------------------------- exported API

type VerifCodecViol struct {
	Kind, Attr, Msg string
	Count           int
}

type VerifCodecPair struct {
	Version    int16
	Values     int
	EncodeOK   int
	EncodeErrs int
}

type VerifCodecResult struct {
	Body    string
	Evals   int
	Paths   []string
	Viols   []VerifCodecViol
	Obs     map[string]int64
	Sample  map[string]interface{}
	Pairs   []VerifCodecPair
	ZeroEnc []string // "(B,V)" pairs none of whose values could be encoded
	EncErrs map[string]int
}

// VerifCodecBodies lists the subjects; the index is the case index.
func VerifCodecBodies() []string {
	subs := vcSubjects()
	out := make([]string, len(subs))
	for i, s := range subs {
		out[i] = s.name
	}
	return out
}

// VerifCodecRun runs n values per version of subject idx.
func VerifCodecRun(seed int64, idx int, n int) VerifCodecResult {
	subs := vcSubjects()
	s := subs[idx]
	run := &vcRun{sub: s, seed: seed, n: n, obs: map[string]int64{}, viols: map[string]*vcViolRec{}, paths: map[string]bool{}, encErrs: map[string]int{}}
	run.hasMap = vcHasMap(reflect.TypeOf(s.mk(s.minV)), map[reflect.Type]bool{})
	nv := int(s.maxV-s.minV) + 1
	run.pathCap = 200 / nv
	if run.pathCap > 48 {
		run.pathCap = 48
	}
	if run.pathCap < 4 {
		run.pathCap = 4
	}
	for v := s.minV; v <= s.maxV; v++ {
		run.version(v)
	}
	return run.result()
}

// ---------------------------------------------------------------- subjects

type vcSubject struct {
	name       string
	minV, maxV int16
	mk         func(v int16) interface{}
	recArm     func(v int16) string
	gen        func(run *vcRun, fc *vcFillCtx, v int16) (interface{}, map[string]interface{}) // custom generator (+ facts for the wire check)
	wire       func(rr *vcRef, b []byte, v0 interface{}, v int16, facts map[string]interface{})
	special    func(run *vcRun, v int16, i int, r *rand.Rand) // replaces the generic procedure
	isRequest  bool
	isResponse bool
}

// vcMaxVersionOverride corrects the generated registry, whose maxV is read off
// the case labels of requiredVersion().
var vcMaxVersionOverride = map[string]int16{
	// requiredVersion() returns MinVersion for every version, but encode/decode gate fields up to
	// "version >= 5" (log_start_offset) and ProduceRequest goes up to 7; the header comment of
	// produce_response.go documents v7.
	"ProduceResponse": 7,
	// Broker.sendAndReceiveSASLHandshake sends Version 1 (same layout as v0); requiredVersion() has no switch.
	"SaslHandshakeRequest": 1,
	// MatchingAcl/Resource encode the pattern type for version == 1 (acl_bindings.go), as DeleteAclsRequest v1 does.
	"DeleteAclsResponse": 1,
}

func vcSetVersionField(x interface{}, v int16) {
	rv := reflect.ValueOf(x).Elem()
	if rv.Kind() != reflect.Struct {
		return
	}
	t := rv.Type()
	for i := 0; i < t.NumField(); i++ {
		if vcRuleFor(t, t.Field(i)) == vcRulePin {
			vcSettable(rv.Field(i)).SetInt(int64(v))
		}
	}
}

var vcSubjectCache []*vcSubject

func vcSubjects() []*vcSubject {
	if vcSubjectCache != nil {
		return vcSubjectCache
	}
	var subs []*vcSubject
	for _, bi := range verifBodyList {
		bi := bi
		s := &vcSubject{name: bi.name, minV: bi.minV, maxV: bi.maxV}
		if mv, ok := vcMaxVersionOverride[bi.name]; ok {
			s.maxV = mv
		}
		s.mk = func(v int16) interface{} {
			x := bi.mk()
			// what allocateBody / the caller of versionedDecode do before decoding
			vcSetVersionField(x, v)
			return x
		}
		s.isRequest = strings.HasSuffix(bi.name, "Request")
		s.isResponse = strings.HasSuffix(bi.name, "Response")
		switch bi.name {
		case "ProduceRequest":
			s.recArm = func(v int16) string {
				if v >= 3 {
					return "default"
				}
				if v >= 2 {
					return "legacy1"
				}
				return "legacy0"
			}
			s.wire = func(rr *vcRef, b []byte, v0 interface{}, v int16, _ map[string]interface{}) {
				rr.vcRefProduceRequest(b, v, v0.(*ProduceRequest))
			}
		case "FetchResponse":
			s.wire = func(rr *vcRef, b []byte, v0 interface{}, v int16, _ map[string]interface{}) {
				rr.vcRefFetchResponse(b, v, v0.(*FetchResponse))
			}
		}
		subs = append(subs, s)
	}
	sort.Slice(subs, func(i, j int) bool { return subs[i].name < subs[j].name })
	armByV := func(v int16) string { return []string{"legacy0", "legacy1", "default"}[v] }
	subs = append(subs,
		&vcSubject{name: "RecordBatch", minV: 2, maxV: 2, mk: func(int16) interface{} { return &RecordBatch{} },
			recArm: func(int16) string { return "default" },
			wire: func(rr *vcRef, b []byte, v0 interface{}, _ int16, _ map[string]interface{}) {
				items := rr.vcRefRecordSet(b, "", 0)
				rr.vcRefCompareRecords(items, []*Records{{RecordBatch: v0.(*RecordBatch)}}, "")
			}},
		&vcSubject{name: "MessageSet", minV: 0, maxV: 1, mk: func(int16) interface{} { return &MessageSet{} },
			recArm: armByV,
			wire: func(rr *vcRef, b []byte, v0 interface{}, _ int16, _ map[string]interface{}) {
				items := rr.vcRefRecordSet(b, "", 0)
				rr.vcRefCompareRecords(items, []*Records{{MsgSet: v0.(*MessageSet)}}, "")
			}},
		&vcSubject{name: "Message", minV: 0, maxV: 1, mk: func(int16) interface{} { return &Message{} },
			recArm: armByV,
			wire: func(rr *vcRef, b []byte, v0 interface{}, _ int16, _ map[string]interface{}) {
				// frame the bare message as a message-set entry for the reader
				fb := make([]byte, 12+len(b))
				fb[8], fb[9], fb[10], fb[11] = byte(len(b)>>24), byte(len(b)>>16), byte(len(b)>>8), byte(len(b))
				copy(fb[12:], b)
				items := rr.vcRefRecordSet(fb, "", 0)
				rr.vcRefCompareRecords(items, []*Records{{MsgSet: &MessageSet{Messages: []*MessageBlock{{Offset: 0, Msg: v0.(*Message)}}}}}, "")
			}},
		&vcSubject{name: "Records", minV: 0, maxV: 2, mk: func(int16) interface{} { return &Records{} },
			recArm: armByV,
			gen: func(run *vcRun, fc *vcFillCtx, v int16) (interface{}, map[string]interface{}) {
				// callers never hand an empty buffer to Records.decode (FetchResponseBlock loops while bytes remain)
				for try := 0; ; try++ {
					if try == 3 {
						fc.plan = ""
					}
					r := &Records{}
					vcFill(reflect.ValueOf(r).Elem(), fc)
					if r.RecordBatch != nil || vcRecordsCount(r) > 0 {
						return r, nil
					}
				}
			},
			wire: func(rr *vcRef, b []byte, v0 interface{}, _ int16, _ map[string]interface{}) {
				items := rr.vcRefRecordSet(b, "", 0)
				rr.vcRefCompareRecords(items, []*Records{v0.(*Records)}, "")
			}},
		&vcSubject{name: "ConsumerGroupMemberMetadata", mk: func(int16) interface{} { return &ConsumerGroupMemberMetadata{} },
			wire: func(rr *vcRef, b []byte, v0 interface{}, _ int16, _ map[string]interface{}) {
				rr.vcRefMemberMetadata(b, v0.(*ConsumerGroupMemberMetadata))
			}},
		&vcSubject{name: "ConsumerGroupMemberAssignment", mk: func(int16) interface{} { return &ConsumerGroupMemberAssignment{} },
			wire: func(rr *vcRef, b []byte, v0 interface{}, _ int16, _ map[string]interface{}) {
				rr.vcRefMemberAssignment(b, v0.(*ConsumerGroupMemberAssignment))
			}},
		&vcSubject{name: "StickyAssignorUserDataV0", mk: func(int16) interface{} { return &StickyAssignorUserDataV0{} },
			wire: func(rr *vcRef, b []byte, v0 interface{}, _ int16, _ map[string]interface{}) {
				rr.vcRefSticky(b, v0.(*StickyAssignorUserDataV0).Topics, false, 0)
			}},
		&vcSubject{name: "StickyAssignorUserDataV1", minV: 1, maxV: 1, mk: func(int16) interface{} { return &StickyAssignorUserDataV1{} },
			wire: func(rr *vcRef, b []byte, v0 interface{}, _ int16, _ map[string]interface{}) {
				x := v0.(*StickyAssignorUserDataV1)
				rr.vcRefSticky(b, x.Topics, true, x.Generation)
			}},
		&vcSubject{name: "responseHeader", minV: 0, maxV: 1, mk: func(int16) interface{} { return &responseHeader{} }, special: vcResponseHeaderCase},
		&vcSubject{name: "request", minV: 1, maxV: 2, mk: func(int16) interface{} { return &request{} }, special: vcRequestCase},
		&vcSubject{name: "ProduceSet", minV: 0, maxV: 3, mk: func(pv int16) interface{} { return &ProduceRequest{Version: pv} },
			gen: vcProduceSetGen, wire: vcProduceSetWire, isRequest: true},
	)
	vcSubjectCache = subs
	return subs
}

// ---------------------------------------------------------------- run state

type vcViolRec struct {
	kind, attr, msg string
	size            int
	count           int
	lastEval        int
}

type vcRun struct {
	sub     *vcSubject
	seed    int64
	n       int
	hasMap  bool
	obs     map[string]int64
	viols   map[string]*vcViolRec
	paths   map[string]bool
	pathCap int
	perV    map[int16]int
	pairs   []VerifCodecPair
	zero    []string
	evals   int
	sample  map[string]interface{}
	encErrs map[string]int
}

var vcDebug = os.Getenv("VERIF_CODEC_DEBUG") != ""

func (run *vcRun) viol(kind, attr, msg string, size int) {
	if vcDebug {
		fmt.Fprintf(os.Stderr, "VIOL %s|%s (%d bytes) %s\n", kind, attr, size, vcTruncS(msg, 1500))
	}
	k := kind + "|" + attr
	v := run.viols[k]
	if v == nil {
		run.viols[k] = &vcViolRec{kind: kind, attr: attr, msg: msg, size: size, count: 1, lastEval: run.evals}
		return
	}
	if v.lastEval != run.evals {
		v.count++ // counted once per value
		v.lastEval = run.evals
	}
	if size < v.size {
		v.size, v.msg = size, msg
	}
}

func (run *vcRun) result() VerifCodecResult {
	res := VerifCodecResult{Body: run.sub.name, Evals: run.evals, Obs: run.obs, Sample: run.sample, Pairs: run.pairs, ZeroEnc: run.zero, EncErrs: run.encErrs}
	for p := range run.paths {
		res.Paths = append(res.Paths, p)
	}
	sort.Strings(res.Paths)
	keys := make([]string, 0, len(run.viols))
	for k := range run.viols {
		keys = append(keys, k)
	}
	sort.Strings(keys)
	for _, k := range keys {
		v := run.viols[k]
		res.Viols = append(res.Viols, VerifCodecViol{Kind: v.kind, Attr: v.attr, Msg: v.msg, Count: v.count})
	}
	return res
}

func vcMix(a, b, c int64) int64 {
	x := uint64(a)*0x9e3779b97f4a7c15 ^ uint64(b)*0xbf58476d1ce4e5b9 ^ uint64(c)*0x94d049bb133111eb
	x ^= x >> 31
	x *= 0xd6e8feb86659fd93
	x ^= x >> 29
	return int64(x >> 1)
}

func (run *vcRun) version(v int16) {
	pair := VerifCodecPair{Version: v}
	for i := 0; i < run.n; i++ {
		r := rand.New(rand.NewSource(vcMix(run.seed, int64(v)+1000, int64(i))))
		run.evals++
		run.obs["values"]++
		pair.Values++
		if run.sub.special != nil {
			run.sub.special(run, v, i, r)
			pair.EncodeOK++
			continue
		}
		if run.value(v, i, r) {
			pair.EncodeOK++
		} else {
			pair.EncodeErrs++
		}
	}
	run.pairs = append(run.pairs, pair)
	run.obs["pairs"]++
	if pair.EncodeOK == 0 {
		run.zero = append(run.zero, fmt.Sprintf("%s/v%d", run.sub.name, v))
		run.obs["pairs_without_successful_encode"]++
	}
}

// ---------------------------------------------------------------- guarded encode / decode

type vcEncRes struct {
	b        []byte
	prepLen  int
	realOff  int
	err      error
	pan      interface{}
	panFn    string
	mismatch bool
}

const vcSlack = 1 << 16

func vcPanicFrame() string {
	pcs := make([]uintptr, 64)
	k := runtime.Callers(3, pcs)
	fr := runtime.CallersFrames(pcs[:k])
	for {
		f, more := fr.Next()
		if strings.Contains(f.Function, "github.com/Shopify/sarama.") && !strings.Contains(f.File, "zz_verif_") {
			fn := strings.TrimPrefix(f.Function, "github.com/Shopify/sarama.")
			return fn
		}
		if !more {
			return ""
		}
	}
}

func vcPanicClass(r interface{}) string {
	l := fmt.Sprint(r)
	switch {
	case strings.Contains(l, "makeslice"):
		return "makeslice"
	case strings.Contains(l, "index out of range"):
		return "index"
	case strings.Contains(l, "slice bounds out of range"):
		return "slice-bounds"
	case strings.Contains(l, "nil pointer"):
		return "nil-deref"
	case strings.Contains(l, "divide by zero"):
		return "div-zero"
	case strings.Contains(l, "nil map"):
		return "nil-map"
	}
	var b strings.Builder
	for _, c := range l {
		if b.Len() >= 40 {
			break
		}
		switch {
		case c >= 'a' && c <= 'z', c >= 'A' && c <= 'Z', c == '-':
			b.WriteRune(c)
		case c == ' ' || c == ':' || c == '_':
			b.WriteRune('-')
		}
	}
	return b.String()
}

// vcEncode runs the sizing pass and the writing pass itself, with slack behind
// the sized buffer so that a disagreement is observed instead of panicking.
func vcEncode(e encoder) (res vcEncRes) {
	defer func() {
		if r := recover(); r != nil {
			res.pan = r
			res.panFn = vcPanicFrame()
		}
	}()
	var prep prepEncoder
	if err := e.encode(&prep); err != nil {
		res.err = err
		return
	}
	res.prepLen = prep.length
	if prep.length < 0 || prep.length > int(MaxRequestSize) {
		res.err = PacketEncodingError{fmt.Sprintf("invalid request size (%d)", prep.length)}
		return
	}
	real := realEncoder{raw: make([]byte, prep.length+vcSlack)}
	if err := e.encode(&real); err != nil {
		res.err = err
		return
	}
	res.realOff = real.off
	res.mismatch = real.off != prep.length
	if real.off <= len(real.raw) {
		res.b = real.raw[:real.off:real.off]
	}
	return
}

type vcDecRes struct {
	err      error
	trailing int
	pan      interface{}
	panFn    string
}

func vcDecode(b []byte, x interface{}, version int16) (res vcDecRes) {
	defer func() {
		if r := recover(); r != nil {
			res.pan = r
			res.panFn = vcPanicFrame()
		}
	}()
	buf := append(make([]byte, 0, len(b)), b...)
	rd := realDecoder{raw: buf}
	switch d := x.(type) {
	case versionedDecoder:
		res.err = d.decode(&rd, version)
	case decoder:
		res.err = d.decode(&rd)
	default:
		res.err = fmt.Errorf("harness: %T has no decode method", x)
	}
	if res.err == nil {
		res.trailing = len(buf) - rd.off
	}
	return
}

func vcErrClass(err error) string {
	if err == ErrInsufficientData {
		return "insufficient-data"
	}
	s := err.Error()
	if pe, ok := err.(PacketDecodingError); ok {
		s = pe.Info
	}
	if pe, ok := err.(PacketEncodingError); ok {
		s = pe.Info
	}
	var b strings.Builder
	dash := false
	for _, c := range s {
		if b.Len() >= 48 {
			break
		}
		switch {
		case c >= 'a' && c <= 'z', c >= 'A' && c <= 'Z':
			b.WriteRune(c)
			dash = false
		default:
			if !dash && b.Len() > 0 {
				b.WriteByte('-')
				dash = true
			}
		}
	}
	return strings.Trim(b.String(), "-")
}

func vcHist(b []byte) (h [256]int32) {
	for _, c := range b {
		h[c]++
	}
	return
}

// vcSameWire: identical bytes, or (with map-ordered sections) same length and same multiset of bytes.
func (run *vcRun) sameWire(a, b []byte) bool {
	if len(a) != len(b) {
		return false
	}
	if !run.hasMap {
		return string(a) == string(b)
	}
	return vcHist(a) == vcHist(b)
}

func vcHex(b []byte, max int) string {
	if len(b) > max {
		return hex.EncodeToString(b[:max]) + fmt.Sprintf("…(+%d bytes)", len(b)-max)
	}
	return hex.EncodeToString(b)
}

// ---------------------------------------------------------------- the oracle

func (run *vcRun) attr(v int16, detail string) string {
	// the version is part of the message, not of the signature: one mechanism
	// usually shows in every version that carries the field
	a := run.sub.name
	if detail != "" {
		a += ":" + detail
	}
	return a
}

func (run *vcRun) value(v int16, i int, r *rand.Rand) bool {
	s := run.sub
	fc := &vcFillCtx{r: r, version: v, body: s.name, many: i%8 == 7}
	switch i {
	case 0:
		fc.plan = "zero"
	case 1:
		fc.plan = "empty"
	case 2:
		fc.plan = "snappyempty"
	case 3:
		fc.plan, fc.minimal = "one", true
	case 4:
		fc.plan = "many"
	}
	if s.recArm != nil {
		fc.recArm = s.recArm(v)
	} else if s.name == "FetchResponse" {
		fc.recArm = "any"
	}
	var v0 interface{}
	var facts map[string]interface{}
	if s.gen != nil {
		v0, facts = s.gen(run, fc, v)
	} else {
		v0 = s.mk(v)
		vcFill(reflect.ValueOf(v0).Elem(), fc)
	}
	rv0 := reflect.ValueOf(v0)
	// pv is the protocol version handed to decode; for subjects whose "version"
	// axis is a variant index (ProduceSet) it is read off the generated body
	pv := v
	if pb, ok := v0.(protocolBody); ok && s.gen != nil {
		pv = pb.version()
	}
	where := func() string { return fmt.Sprintf("seed=%d value=%d", run.seed, i) }
	dump := func() string { return vcDump(rv0, 1500) }

	c0 := vcClone(rv0)
	e1 := vcEncode(c0.Interface().(encoder))
	if e1.pan != nil {
		run.viol("panic:"+vcPanicClass(e1.pan), run.attr(v, "encode:"+e1.panFn), fmt.Sprintf("%s: encode panicked: %v; value %s", where(), e1.pan, dump()), 1<<30)
		return false
	}
	if e1.err != nil {
		run.obs["encode_errors"]++
		run.encErrs[fmt.Sprintf("v%d: %s", v, vcTruncS(e1.err.Error(), 80))]++
		return false
	}
	b1 := e1.b
	if e1.mismatch {
		run.viol("prep-real-mismatch", run.attr(v, ""), fmt.Sprintf("%s: sizing pass says %d bytes, writing pass wrote %d; value %s", where(), e1.prepLen, e1.realOff, dump()), len(b1))
		return true
	}
	size := len(b1)
	tail := func() string { return fmt.Sprintf("; value %s; b1=%s", dump(), vcHex(b1, 300)) }

	// reference reader on b1
	rr := &vcRef{}
	if s.wire != nil {
		s.wire(rr, b1, v0, v, facts)
	}
	if s.isRequest {
		run.requestFraming(rr, v0, pv, b1, r, false)
	}
	if s.isResponse && len(b1) > 0 {
		run.responseFraming(rr, v0, len(b1), r)
	}
	run.obs["wire_checks"] += rr.checks
	run.obs["crc_checks"] += rr.crcs
	for _, w := range rr.viols {
		run.viol("wire", run.attr(v, w.rule), fmt.Sprintf("%s: %s%s", where(), w.msg, tail()), size)
	}

	// decode
	v1 := s.mk(pv)
	d1 := vcDecode(b1, v1, pv)
	rv1 := reflect.ValueOf(v1)
	switch {
	case d1.pan != nil:
		run.viol("panic:"+vcPanicClass(d1.pan), run.attr(v, "decode:"+d1.panFn), fmt.Sprintf("%s: decode of own encoding panicked: %v%s", where(), d1.pan, tail()), size)
		return true
	case d1.err != nil:
		run.viol("decode-error", run.attr(v, vcErrClass(d1.err)), fmt.Sprintf("%s: decode of own encoding fails: %v%s", where(), d1.err, tail()), size)
		return true
	case d1.trailing != 0:
		run.viol("trailing-bytes", run.attr(v, ""), fmt.Sprintf("%s: decode stopped %d bytes before the end of its own %d-byte encoding%s", where(), d1.trailing, len(b1), tail()), size)
		return true
	}

	// carried leaves: structural ones (collection lengths, pointer nil-ness) first,
	// shallowest first, then a sample of the scalar ones
	var leaves []vcLeaf
	vcLeaves(rv0.Elem(), nil, "", &leaves)
	var structural, scalar []int
	for li := range leaves {
		if leaves[li].kind == vcLeafLen || leaves[li].kind == vcLeafNil {
			structural = append(structural, li)
		} else {
			scalar = append(scalar, li)
		}
	}
	sort.SliceStable(structural, func(x, y int) bool { return len(leaves[structural[x]].steps) < len(leaves[structural[y]].steps) })
	if len(structural) > 48 {
		structural = structural[:48]
	}
	r.Shuffle(len(scalar), func(x, y int) { scalar[x], scalar[y] = scalar[y], scalar[x] })
	if len(scalar) > 64 {
		scalar = scalar[:64]
	}
	order := append(structural, scalar...)
	nonZeroCarried := false
	lossy := false
	// Scalar leaves are perturbed on one working copy (perturb, reset the encoder's
	// scratch fields, encode, undo) unless encoding changes the value itself.
	var work reflect.Value
	var caches []reflect.Value
	vcDiffIgnoreParams = true
	inPlace := vcDiff(c0, rv0, "") == ""
	vcDiffIgnoreParams = false
	if inPlace {
		work = vcClone(rv0)
		inPlace = vcCollectCaches(work, &caches)
	}
	for _, li := range order {
		l := &leaves[li]
		scalarLeaf := l.kind == vcLeafScalar || l.kind == vcLeafBytes || l.kind == vcLeafTime
		var p, saved reflect.Value
		if inPlace && scalarLeaf {
			p = work
			if !vcApply(p.Elem(), l.steps, func(x reflect.Value) bool {
				saved = reflect.New(x.Type()).Elem()
				saved.Set(x)
				return true
			}) {
				run.obs["leaves_not_perturbable"]++
				continue
			}
			for _, c := range caches {
				c.Set(reflect.Zero(c.Type()))
			}
		} else {
			p = vcClone(rv0)
		}
		pfc := &vcFillCtx{r: rand.New(rand.NewSource(int64(li) + 7)), version: pv, body: s.name, minimal: true, recArm: fc.recArm, depth: 3}
		if pfc.recArm == "any" || pfc.recArm == "" {
			pfc.recArm = "default"
			if s.name == "FetchResponse" && pv < 4 {
				pfc.recArm = "legacy1"
			}
		}
		if !vcPerturb(p.Elem(), l, pfc) {
			run.obs["leaves_not_perturbable"]++
			continue
		}
		ep := vcEncode(p.Interface().(encoder))
		if saved.IsValid() {
			vcApply(p.Elem(), l.steps, func(x reflect.Value) bool { x.Set(saved); return true })
		}
		run.obs["leaves_perturbed"]++
		if ep.pan != nil || ep.err != nil || ep.mismatch {
			run.obs["perturbed_value_not_encodable"]++
			continue
		}
		if run.sameWire(b1, ep.b) {
			continue
		}
		run.obs["carried_leaves"]++
		if l.nonZero {
			nonZeroCarried = true
		}
		if eq, where2, msg := vcLeafEqual(rv0.Elem(), rv1.Elem(), l); !eq {
			lossy = true
			run.viol("leaf-mismatch", run.attr(v, where2), fmt.Sprintf("%s: carried field not preserved: %s%s", where(), msg, tail()), size)
		}
	}
	// decode is told the version; a body that has a Version field must hold it afterwards
	if pb, ok := v0.(protocolBody); ok && s.gen == nil && pb.version() == v && v != 0 {
		fresh := reflect.New(rv0.Type().Elem()).Interface()
		df := vcDecode(b1, fresh, v)
		if df.pan == nil && df.err == nil && df.trailing == 0 {
			if got := fresh.(protocolBody).version(); got != v {
				run.viol("leaf-mismatch", run.attr(v, "Version(not set by decode)"), fmt.Sprintf("%s: decode(b1, version=%d) into a fresh %s leaves Version=%d%s", where(), v, s.name, got, tail()), size)
			}
		}
	}

	if lossy {
		// the decoded value already differs from the sent one; what re-encoding it
		// yields is a consequence of that, not a finding of its own
		run.obs["reencode_skipped_after_leaf_mismatch"]++
	}
	// re-encode, decode again (compression levels are encoder parameters the
	// wire does not carry: the decoded value inherits them from the sent one)
	c1 := vcClone(rv1)
	vcCopyParams(rv0, c1)
	e2 := vcEncode(c1.Interface().(encoder))
	ok2 := false
	switch {
	case lossy:
	case e2.pan != nil:
		run.viol("panic:"+vcPanicClass(e2.pan), run.attr(v, "reencode:"+e2.panFn), fmt.Sprintf("%s: encoding the decoded value panicked: %v%s", where(), e2.pan, tail()), size)
	case e2.err != nil:
		run.viol("reencode-error", run.attr(v, vcErrClass(e2.err)), fmt.Sprintf("%s: the decoded value cannot be encoded: %v%s", where(), e2.err, tail()), size)
	case e2.mismatch:
		run.viol("prep-real-mismatch", run.attr(v, "reencode"), fmt.Sprintf("%s: sizing pass says %d bytes, writing pass wrote %d on the decoded value%s", where(), e2.prepLen, e2.realOff, tail()), size)
	case len(e2.b) != len(b1):
		run.viol("reencode-length", run.attr(v, ""), fmt.Sprintf("%s: %d bytes, re-encoded %d bytes: b2=%s; decoded value %s%s", where(), len(b1), len(e2.b), vcHex(e2.b, 300), vcDump(rv1, 800), tail()), size)
		ok2 = true
	case !run.sameWire(b1, e2.b):
		run.viol("reencode-bytes", run.attr(v, ""), fmt.Sprintf("%s: re-encoding differs (map-ordered=%v): b2=%s%s", where(), run.hasMap, vcHex(e2.b, 300), tail()), size)
		ok2 = true
	default:
		ok2 = true
	}
	if ok2 {
		v2 := s.mk(pv)
		d2 := vcDecode(e2.b, v2, pv)
		switch {
		case d2.pan != nil:
			run.viol("panic:"+vcPanicClass(d2.pan), run.attr(v, "decode2:"+d2.panFn), fmt.Sprintf("%s: second decode panicked: %v%s", where(), d2.pan, tail()), size)
		case d2.err != nil:
			run.viol("second-roundtrip", run.attr(v, "decode-error"), fmt.Sprintf("%s: the re-encoding does not decode: %v; b2=%s%s", where(), d2.err, vcHex(e2.b, 300), tail()), size)
		case d2.trailing != 0:
			run.viol("second-roundtrip", run.attr(v, "trailing-bytes"), fmt.Sprintf("%s: %d trailing bytes on the re-encoding%s", where(), d2.trailing, tail()), size)
		default:
			if d := vcDiff(rv1, reflect.ValueOf(v2), ""); d != "" {
				run.viol("second-roundtrip", run.attr(v, vcGenericPath(d)), fmt.Sprintf("%s: decode(encode(decode(b1))) differs from decode(b1) at %s%s", where(), d, tail()), size)
			}
		}
	}

	if nonZeroCarried {
		p := fmt.Sprintf("%s/v%d/%s", s.name, v, vcShape(leaves))
		if !run.paths[p] {
			if run.perV == nil {
				run.perV = map[int16]int{}
			}
			if run.perV[v] < run.pathCap {
				run.perV[v]++
				run.paths[p] = true
			}
		}
		if run.sample == nil {
			run.sample = map[string]interface{}{"body": s.name, "version": v, "value": vcDump(rv0, 1200), "hex": vcHex(b1, 600), "leaves": len(leaves)}
		}
	}
	return true
}

// vcGenericPath strips indices/keys and the values from a vcDiff message.
func vcGenericPath(d string) string {
	if i := strings.Index(d, ": "); i >= 0 {
		d = d[:i]
	}
	var sb strings.Builder
	depth := 0
	for _, c := range d {
		switch {
		case c == '[':
			depth++
			if depth == 1 {
				sb.WriteString("[]")
			}
		case c == ']':
			if depth > 0 {
				depth--
			}
		case depth == 0:
			sb.WriteRune(c)
		}
	}
	return strings.TrimPrefix(sb.String(), ".")
}

// vcShape is the shape signature of a value: size classes of its first
// collections and the codecs it uses.
func vcShape(leaves []vcLeaf) string {
	var parts []string
	seen := map[string]bool{}
	codecs := map[int64]bool{}
	for i := range leaves {
		l := &leaves[i]
		if l.kind != vcLeafLen || len(parts) >= 4 {
			continue
		}
		g := l.generic()
		if seen[g] {
			continue
		}
		seen[g] = true
		name := g
		if j := strings.LastIndexAny(name, ".]"); j >= 0 && j+1 < len(name) {
			name = name[j+1:]
		}
		name = strings.TrimSuffix(name, "#len")
		cls := "0"
		if l.nonZero {
			cls = "n"
		}
		parts = append(parts, name+cls)
	}
	_ = codecs
	// how many scalar leaves are non-zero and how many pointers are nil
	nz, nilp := 0, 0
	for i := range leaves {
		switch leaves[i].kind {
		case vcLeafScalar, vcLeafBytes, vcLeafTime:
			if leaves[i].nonZero {
				nz++
			}
		case vcLeafNil:
			if !leaves[i].nonZero {
				nilp++
			}
		}
	}
	cls := "many"
	switch {
	case nz == 0:
		cls = "0"
	case nz == 1:
		cls = "1"
	case nz <= 4:
		cls = "few"
	}
	parts = append(parts, "nz"+cls)
	if nilp > 0 {
		parts = append(parts, "nilptr")
	}
	return strings.Join(parts, ",")
}

// ---------------------------------------------------------------- request / response framing

var vcClientIDs = []string{"", "sarama", "c", "client-ü", strings.Repeat("k", 300)}
var vcCorrIDs = []int32{0, 1, -1, 2147483647, -2147483648, 4242}

func (run *vcRun) requestFraming(rr *vcRef, v0 interface{}, v int16, b1 []byte, r *rand.Rand, headerOnly bool) {
	body, ok := vcClone(reflect.ValueOf(v0)).Interface().(protocolBody)
	if !ok {
		return
	}
	req := &request{correlationID: vcCorrIDs[r.Intn(len(vcCorrIDs))], clientID: vcClientIDs[r.Intn(len(vcClientIDs))], body: body}
	e := vcEncode(req)
	rr.checks++
	if e.pan != nil || e.err != nil {
		rr.fail("request.encode", "framed encoding fails (%v %v) although the body alone encodes", e.err, e.pan)
		return
	}
	if e.mismatch {
		rr.fail("request.prep-real", "sizing pass %d, writing pass %d on the framed request", e.prepLen, e.realOff)
		return
	}
	rest := rr.vcRefRequest(e.b, body.key(), body.version(), req.correlationID, req.clientID, body.headerVersion())
	if rest == nil {
		return
	}
	rr.checks++
	if !run.sameWire(rest, b1) {
		rr.fail("request.body", "bytes after the header (%d) differ from the body's own encoding (%d): %s", len(rest), len(b1), vcHex(rest, 120))
		return
	}
	rr.eq("request.header:api_version=version-under-test", body.version(), v)
	// sarama's own request decoder, as the mock broker uses it
	if allocateBody(body.key(), body.version()) == nil {
		return
	}
	got := &request{}
	d := vcDecode(e.b[4:], got, 0)
	rr.checks++
	if d.pan != nil || d.err != nil || d.trailing != 0 {
		// the body-level oracle reports body decode failures; only report what is new here
		want := vcDecode(b1, run.sub.mk(v), v)
		if want.pan == nil && want.err == nil && want.trailing == 0 {
			rr.fail("request.decode", "request.decode fails (%v %v, %d trailing) on a body that decodes alone", d.err, d.pan, d.trailing)
		}
		return
	}
	rr.eq("request.decode:correlationID", got.correlationID, req.correlationID)
	rr.eq("request.decode:clientID", got.clientID, req.clientID)
	// the decoded request, framed again, must be the same request on the wire
	if !headerOnly && got.body != nil && reflect.TypeOf(got.body) == reflect.TypeOf(body) {
		gc := vcClone(reflect.ValueOf(got.body))
		vcCopyParams(reflect.ValueOf(v0), gc)
		re := vcEncode(&request{correlationID: got.correlationID, clientID: got.clientID, body: gc.Interface().(protocolBody)})
		rr.checks++
		switch {
		case re.pan != nil || re.err != nil || re.mismatch:
			// the body-level oracle reports re-encode failures
		case len(re.b) >= 8 && len(e.b) >= 8 && string(re.b[4:8]) != string(e.b[4:8]):
			rr.fail("request.reencode:api_key/api_version", "decoded request frames itself as key/version %x, it was sent as %x", re.b[4:8], e.b[4:8])
		}
	}
}

func (run *vcRun) responseFraming(rr *vcRef, v0 interface{}, bodyLen int, r *rand.Rand) {
	body, ok := v0.(protocolBody)
	if !ok {
		return
	}
	corr := vcCorrIDs[r.Intn(len(vcCorrIDs))]
	vcCheckResponseHeader(rr, body.headerVersion(), corr, uint32(bodyLen))
}

// vcCheckResponseHeader: response header v0 = size INT32, correlation_id INT32;
// v1 adds an (empty) tagged field section. size counts everything after itself.
func vcCheckResponseHeader(rr *vcRef, hv int16, corr int32, bodyLen uint32) {
	hb := (&MockBroker{}).encodeHeader(hv, corr, bodyLen)
	rd := &vcRd{b: hb}
	size := rd.i32()
	rr.eq("response.header:size", int64(size), int64(len(hb))-4+int64(bodyLen))
	rr.eq("response.header:correlation_id", rd.i32(), corr)
	if hv >= 1 {
		n, min := rd.uvarint()
		rr.checks++
		if n != 0 || !min {
			rr.fail("response.header:tagged_fields", "count %d minimal=%v", n, min)
		}
	}
	rr.checks++
	if rd.bad || rd.rem() != 0 {
		rr.fail("response.header:length", "header v%d is %d bytes", hv, len(hb))
	}
	var h responseHeader
	d := vcDecode(hb, &h, hv)
	rr.checks++
	if d.pan != nil || d.err != nil || d.trailing != 0 {
		if int64(size) > 4 && int64(size) <= int64(MaxResponseSize) {
			rr.fail("response.header:decode", "responseHeader.decode: %v %v trailing=%d on %x", d.err, d.pan, d.trailing, hb)
		}
		return
	}
	rr.eq("response.header:decoded-length", h.length, size)
	rr.eq("response.header:decoded-correlation_id", h.correlationID, corr)
}

// subject "responseHeader": corner values through the mock broker's writer and
// through a reference writer, both read by responseHeader.decode.
func vcResponseHeaderCase(run *vcRun, v int16, i int, r *rand.Rand) {
	rr := &vcRef{}
	corrs := []int32{0, 1, -1, 2147483647, -2147483648, r.Int31()}
	lens := []uint32{1, 2, 100, 65536, uint32(MaxResponseSize) - 16, uint32(r.Intn(1<<20)) + 1}
	corr := corrs[i%len(corrs)]
	bl := lens[(i/len(corrs))%len(lens)]
	vcCheckResponseHeader(rr, v, corr, bl)
	// reference writer -> sarama reader
	hb := make([]byte, 8, 9)
	sz := int64(4) + int64(bl)
	if v >= 1 {
		sz++
		hb = append(hb, 0)
	}
	hb[0], hb[1], hb[2], hb[3] = byte(sz>>24), byte(sz>>16), byte(sz>>8), byte(sz)
	hb[4], hb[5], hb[6], hb[7] = byte(uint32(corr)>>24), byte(uint32(corr)>>16), byte(uint32(corr)>>8), byte(uint32(corr))
	var h responseHeader
	d := vcDecode(hb, &h, v)
	rr.checks++
	if d.pan != nil || d.err != nil || d.trailing != 0 {
		rr.fail("response.header:decode-reference", "responseHeader.decode: %v %v trailing=%d on %x", d.err, d.pan, d.trailing, hb)
	} else {
		rr.eq("response.header:decoded-length", int64(h.length), sz)
		rr.eq("response.header:decoded-correlation_id", h.correlationID, corr)
	}
	run.obs["wire_checks"] += rr.checks
	for _, w := range rr.viols {
		run.viol("wire", run.attr(v, w.rule), fmt.Sprintf("seed=%d value=%d: %s", run.seed, i, w.msg), len(hb))
	}
	p := fmt.Sprintf("responseHeader/v%d/corr%d,len%d", v, i%len(corrs), (i/len(corrs))%len(lens))
	if len(run.paths) < 200 {
		run.paths[p] = true
	}
	if run.sample == nil {
		run.sample = map[string]interface{}{"body": "responseHeader", "version": v, "value": fmt.Sprintf("correlationID=%d payload=%d", corr, bl), "hex": vcHex(hb, 40)}
	}
}

// subject "request": header framing (v = header version 1 or 2) around
// generated bodies of every request type with that header version.
func vcRequestCase(run *vcRun, v int16, i int, r *rand.Rand) {
	var cands []*vcSubject
	for _, s := range vcSubjects() {
		if !s.isRequest || s.gen != nil {
			continue
		}
		for bv := s.minV; bv <= s.maxV; bv++ {
			if b, ok := s.mk(bv).(protocolBody); ok && b.headerVersion() == v {
				cands = append(cands, s)
				break
			}
		}
	}
	if len(cands) == 0 {
		return
	}
	s := cands[i%len(cands)]
	var vers []int16
	for bv := s.minV; bv <= s.maxV; bv++ {
		if s.mk(bv).(protocolBody).headerVersion() == v {
			vers = append(vers, bv)
		}
	}
	bv := vers[r.Intn(len(vers))]
	fc := &vcFillCtx{r: r, version: bv, body: s.name}
	if s.recArm != nil {
		fc.recArm = s.recArm(bv)
	}
	v0 := s.mk(bv)
	vcFill(reflect.ValueOf(v0).Elem(), fc)
	e := vcEncode(vcClone(reflect.ValueOf(v0)).Interface().(encoder))
	if e.pan != nil || e.err != nil || e.mismatch {
		run.obs["encode_errors"]++
		return
	}
	sub := &vcRun{sub: s, hasMap: vcHasMap(reflect.TypeOf(v0), map[reflect.Type]bool{}), obs: run.obs}
	rr := &vcRef{}
	sub.requestFraming(rr, v0, bv, e.b, r, true) // what the decoded body looks like is judged per body, not here
	run.obs["wire_checks"] += rr.checks
	for _, w := range rr.viols {
		run.viol("wire", fmt.Sprintf("request v%d:%s:%s", v, s.name, w.rule), fmt.Sprintf("seed=%d value=%d: %s v%d: %s; value %s", run.seed, i, s.name, bv, w.msg, vcDump(reflect.ValueOf(v0), 600)), len(e.b))
	}
	p := fmt.Sprintf("request/v%d/%s", v, s.name)
	run.paths[p] = true
	if run.sample == nil {
		run.sample = map[string]interface{}{"body": "request", "version": v, "value": s.name + " " + vcDump(reflect.ValueOf(v0), 600), "hex": vcHex(e.b, 300)}
	}
}

// ---------------------------------------------------------------- batches built by sarama's own produce path

var vcProduceSetVersions = []KafkaVersion{V0_8_2_0, V0_10_0_0, V0_11_0_0, V2_1_0_0}

type vcSentMsg struct {
	key, val []byte
	hdrs     []RecordHeader
	ts       time.Time
}

// vcProduceSetGen feeds generated ProducerMessages through produceSet.add /
// buildRequest (what the async producer does) and returns the request.
func vcProduceSetGen(run *vcRun, fc *vcFillCtx, v int16) (interface{}, map[string]interface{}) {
	conf := NewConfig()
	conf.Version = vcProduceSetVersions[v]
	codecs := []CompressionCodec{CompressionNone, CompressionGZIP, CompressionSnappy, CompressionLZ4}
	if v >= 3 {
		codecs = append(codecs, CompressionZSTD)
	}
	conf.Producer.Compression = codecs[fc.pick(len(codecs))]
	conf.Producer.CompressionLevel = vcLevelFor(conf.Producer.Compression, fc)
	conf.Producer.RequiredAcks = []RequiredAcks{NoResponse, WaitForLocal, WaitForAll}[fc.pick(3)]
	conf.Producer.Timeout = time.Duration(fc.pick(60000)) * time.Millisecond
	parent := &asyncProducer{conf: conf, txnmgr: &transactionManager{producerID: noProducerID, producerEpoch: noProducerEpoch}}
	if v >= 2 && fc.chance(0.3) {
		parent.txnmgr.producerID = int64(fc.pick(1000))
		parent.txnmgr.producerEpoch = int16(fc.pick(5))
	}
	ps := newProduceSet(parent)
	sent := map[string]map[int32][]vcSentMsg{}
	n := 1 + fc.pick(6)
	base := int64(1600000000000) + int64(fc.pick(100000))
	for i := 0; i < n; i++ {
		m := &ProducerMessage{Topic: fmt.Sprintf("t%d", fc.pick(2)), Partition: int32(fc.pick(2))}
		var sm vcSentMsg
		if k := fc.bytesVal(); k != nil {
			m.Key = ByteEncoder(k)
			sm.key = k
		}
		if val := fc.bytesVal(); val != nil {
			m.Value = ByteEncoder(val)
			sm.val = val
		}
		if v >= 2 {
			for h := fc.pick(3); h > 0; h-- {
				m.Headers = append(m.Headers, RecordHeader{Key: []byte(fc.str()), Value: fc.bytesVal()})
			}
			sm.hdrs = m.Headers
		}
		ms := base + int64(i)*int64(fc.pick(50))
		m.Timestamp = time.Unix(ms/1000, (ms%1000)*int64(time.Millisecond)+int64(fc.pick(999999)))
		sm.ts = m.Timestamp.Truncate(time.Millisecond)
		if err := ps.add(m); err != nil {
			continue
		}
		if sent[m.Topic] == nil {
			sent[m.Topic] = map[int32][]vcSentMsg{}
		}
		sent[m.Topic][m.Partition] = append(sent[m.Topic][m.Partition], sm)
	}
	req := ps.buildRequest()
	return req, map[string]interface{}{"sent": sent, "kafka": v, "codec": conf.Producer.Compression}
}

// vcProduceSetWire reads the request with the reference reader and holds it
// against the messages that were added: order, content, offset deltas 0..n-1,
// LastOffsetDelta = n-1, timestamps relative to the first.
func vcProduceSetWire(rr *vcRef, b []byte, v0 interface{}, v int16, facts map[string]interface{}) {
	req := v0.(*ProduceRequest)
	rr.vcRefProduceRequest(b, req.Version, req)
	sent := facts["sent"].(map[string]map[int32][]vcSentMsg)
	r := &vcRd{b: b}
	if req.Version >= 3 {
		r.str16()
	}
	r.i16()
	r.i32()
	nt := r.i32()
	for i := int32(0); i < nt && !r.bad; i++ {
		topic, _ := r.str16()
		np := r.i32()
		for j := int32(0); j < np && !r.bad; j++ {
			id := r.i32()
			data, _ := r.bytes32()
			if r.bad {
				return
			}
			want := sent[topic][id]
			sub := &vcRef{}
			items := sub.vcRefRecordSet(data, "", 0)
			rr.checks += sub.checks
			rr.crcs += sub.crcs
			if len(items) != 1 && !(req.Version < 3 && facts["codec"].(CompressionCodec) == CompressionNone) {
				rr.fail("produceset.items", "%d batches/wrappers for one partition", len(items))
				continue
			}
			if req.Version >= 3 {
				bt := items[0].batch
				if bt == nil {
					rr.fail("produceset.format", "v%d request carries a legacy message set", req.Version)
					continue
				}
				rr.eq("produceset.record-count", len(bt.recs), len(want))
				rr.eq("produceset.LastOffsetDelta=n-1", int(bt.lastOffsetDelta), len(bt.recs)-1)
				if len(bt.recs) != len(want) {
					continue
				}
				rr.eq("produceset.FirstTimestamp", bt.firstTs, vcMillis(want[0].ts))
				for k, rec := range bt.recs {
					rr.eq("produceset.OffsetDelta=i", rec.offDelta, int64(k))
					rr.eq("produceset.TimestampDelta", rec.tsDelta, vcMillis(want[k].ts)-bt.firstTs)
					rr.eqBytes("produceset.key", rec.key, want[k].key)
					rr.eq("produceset.key#null", rec.keyNull, want[k].key == nil)
					rr.eqBytes("produceset.value", rec.val, want[k].val)
					rr.eq("produceset.value#null", rec.valNull, want[k].val == nil)
					rr.eq("produceset.headers#len", len(rec.hdrs), len(want[k].hdrs))
					if len(rec.hdrs) == len(want[k].hdrs) {
						for h := range rec.hdrs {
							rr.eqBytes("produceset.header.key", rec.hdrs[h].key, want[k].hdrs[h].Key)
							rr.eqBytes("produceset.header.value", rec.hdrs[h].val, want[k].hdrs[h].Value)
						}
					}
				}
				continue
			}
			msgs := items
			if facts["codec"].(CompressionCodec) != CompressionNone {
				if items[0].msg == nil {
					rr.fail("produceset.format", "wrapper expected")
					continue
				}
				msgs = items[0].msg.inner
				if v >= 1 {
					for k, it := range msgs {
						if it.msg != nil {
							rr.eq("produceset.inner-offset=i", it.msg.offset, int64(k))
						}
					}
				}
			}
			rr.eq("produceset.record-count", len(msgs), len(want))
			if len(msgs) != len(want) {
				continue
			}
			for k, it := range msgs {
				if it.msg == nil {
					rr.fail("produceset.format", "legacy request carries a record batch")
					break
				}
				rr.eqBytes("produceset.key", it.msg.key, want[k].key)
				rr.eqBytes("produceset.value", it.msg.val, want[k].val)
				rr.eq("produceset.value#null", it.msg.valNull, want[k].val == nil)
				if v >= 1 {
					rr.eq("produceset.magic", it.msg.magic, int8(1))
					rr.eq("produceset.timestamp", it.msg.ts, vcMillis(want[k].ts))
				} else {
					rr.eq("produceset.magic", it.msg.magic, int8(0))
				}
			}
		}
	}
}
