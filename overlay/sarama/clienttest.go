//go:build verif

package sarama

// Helpers of the "client" engine (C15): read-only views of the client's seed
// lists, a steering helper for the seed order, the version tag smuggled into
// metadata responses, and a recording dialer with bootstrap aliases.

import (
	"fmt"
	"net"
	"strconv"
	"strings"
	"sync"
)

// VerifMetaVersion extracts N from the "v<N>" rack strings the simulated
// cluster puts on every broker of a metadata response (0 = not found).
func VerifMetaVersion(x interface{}) int64 {
	r, ok := x.(*MetadataResponse)
	if !ok || r == nil {
		return 0
	}
	for _, b := range r.Brokers {
		if b == nil || b.rack == nil {
			continue
		}
		s := *b.rack
		if strings.HasPrefix(s, "v") {
			if n, err := strconv.ParseInt(s[1:], 10, 64); err == nil {
				return n
			}
		}
	}
	return 0
}

// VerifClientSeeds returns the addresses of the seed brokers the client would
// still try (in order) and of the seeds it has parked as dead.
func VerifClientSeeds(c Client) (live, dead []string) {
	cl, ok := c.(*client)
	if !ok || cl == nil {
		return nil, nil
	}
	cl.lock.RLock()
	defer cl.lock.RUnlock()
	for _, b := range cl.seedBrokers {
		live = append(live, b.addr)
	}
	for _, b := range cl.deadSeeds {
		dead = append(dead, b.addr)
	}
	return live, dead
}

// VerifClientSetSeedOrder reorders the live seed list to the given address
// order (steering: NewClient shuffles the seeds with a time-based source, the
// enumerated core wants every order). Addresses not in the list keep their
// relative order behind the named ones. No broker object is created or dropped.
func VerifClientSetSeedOrder(c Client, order []string) bool {
	cl, ok := c.(*client)
	if !ok || cl == nil {
		return false
	}
	cl.lock.Lock()
	defer cl.lock.Unlock()
	var out []*Broker
	used := map[*Broker]bool{}
	for _, a := range order {
		for _, b := range cl.seedBrokers {
			if b.addr == a && !used[b] {
				out = append(out, b)
				used[b] = true
				break
			}
		}
	}
	for _, b := range cl.seedBrokers {
		if !used[b] {
			out = append(out, b)
		}
	}
	cl.seedBrokers = out
	return true
}

// VSimDial is one dial attempt seen by the recording dialer.
type VSimDial struct {
	Seq     int64
	Addr    string
	Refused bool
	OldConn bool // not a dial: a write on an established connection to an unreachable address
}

// VSimRecDialer wraps the simulated cluster's dialer: it records every dial
// attempt, refuses the addresses in its own table, and resolves bootstrap
// aliases (names that are not advertised in metadata) to brokers.
type VSimRecDialer struct {
	S      *VSim
	mu     sync.Mutex
	dials  []VSimDial
	refuse map[string]bool
	alias  map[string]int32
}

func VNewRecDialer(s *VSim) *VSimRecDialer {
	return &VSimRecDialer{S: s, refuse: map[string]bool{}, alias: map[string]int32{}}
}

// String keeps the library's "using proxy %s" log line from reflecting into the struct.
func (d *VSimRecDialer) String() string { return "vsim-rec-dialer" }

// SetRefuse makes an address unreachable (or reachable again). While an
// address is unreachable, writes on connections that were dialled through it
// fail too (an unreachable broker does not keep answering on an old
// connection); once it is reachable again an untouched old connection works.
func (d *VSimRecDialer) SetRefuse(addr string, v bool) {
	d.mu.Lock()
	d.refuse[addr] = v
	d.mu.Unlock()
}

type vsimRecConn struct {
	net.Conn
	d    *VSimRecDialer
	addr string
}

func (c *vsimRecConn) Write(b []byte) (int, error) {
	c.d.mu.Lock()
	refused := c.d.refuse[c.addr]
	if refused {
		c.d.dials = append(c.d.dials, VSimDial{Seq: VerifNextSeq(), Addr: c.addr, Refused: true, OldConn: true})
	}
	c.d.mu.Unlock()
	if refused {
		return 0, fmt.Errorf("write %s: network is unreachable (vsim table)", c.addr)
	}
	return c.Conn.Write(b)
}

func (d *VSimRecDialer) ClearRefuse() {
	d.mu.Lock()
	d.refuse = map[string]bool{}
	d.mu.Unlock()
}

func (d *VSimRecDialer) SetAlias(name string, broker int32) {
	d.mu.Lock()
	d.alias[name] = broker
	d.mu.Unlock()
}

func (d *VSimRecDialer) Dials() []VSimDial {
	d.mu.Lock()
	defer d.mu.Unlock()
	return append([]VSimDial(nil), d.dials...)
}

func (d *VSimRecDialer) ResetDials() {
	d.mu.Lock()
	d.dials = nil
	d.mu.Unlock()
}

func (d *VSimRecDialer) Dial(network, addr string) (net.Conn, error) {
	d.mu.Lock()
	refuse := d.refuse[addr]
	target, isAlias := d.alias[addr]
	d.mu.Unlock()
	real := addr
	if isAlias && !refuse {
		real = d.S.BrokerAddr(target)
		if real == "" {
			refuse = true
		}
	}
	var conn net.Conn
	var err error
	if refuse {
		err = fmt.Errorf("dial %s: connection refused (vsim table)", addr)
	} else {
		conn, err = VSimDialer{d.S}.Dial(network, real)
	}
	d.mu.Lock()
	d.dials = append(d.dials, VSimDial{Seq: VerifNextSeq(), Addr: addr, Refused: err != nil})
	d.mu.Unlock()
	if err == nil {
		conn = &vsimRecConn{Conn: conn, d: d, addr: addr}
	}
	return conn, err
}

// Configure installs the dialer in a config (unix-socket clusters only).
func (d *VSimRecDialer) Configure(conf *Config) {
	conf.Net.Proxy.Enable = true
	conf.Net.Proxy.Dialer = d
}
