//go:build verif

package sarama

import (
	"encoding/binary"
	"math/rand"
	"sort"
	"sync/atomic"
	"time"
)

type VSimFetchPart struct {
	Topic     string
	Partition int32
	Offset    int64
	MaxBytes  int32
}

type VSimFetchCtx struct {
	ClientID  string
	ReqSeq    int64
	N         int // n-th fetch request cluster-wide
	Broker    int32
	Conn      int64
	Version   int16
	Isolation int8
	MaxWaitMs int32
	Parts     []VSimFetchPart
}

const (
	VFOk             = iota
	VFErr            // Code for every partition of the request (or only PartIdx >= 0)
	VFDrop           // close the connection
	VFSilent         // never answer
	VFEmpty          // valid blocks with high watermark but no records
	VFOmitBlock      // leave the partition blocks out of the answer
	VFThrottledEmpty // throttle time set, no blocks at all
)

// VSimFetchAction: what to do with a fetch and how to frame the data.
type VSimFetchAction struct {
	Kind    int
	Code    KError
	PartIdx int // VFErr/VFOmitBlock: index into the sorted partition list, -1 = all

	Magic          int8 // 0, 1 or 2: format the data is served in
	Codec          int8
	BatchSizes     []int // sizes of consecutive batches (cycled); empty = 1 record per batch
	MaxBatches     int   // batches per partition in one answer (0 = 3)
	AlignTo        int   // > 0: batches start at multiples of AlignTo from the log base (a batch may start before the fetch offset)
	CutAt          int   // > 0: cut the record set after this many bytes (partial trailing data); applies to the first partition with data
	HonourMax      bool  // cut the record set at the request's per-partition max bytes (so large records need a bigger fetch)
	LogAppend      bool
	DelayMs        int
	ShuffleAborted int64 // != 0: seed used to shuffle the aborted-transaction list
	// AbortedBeyond: the aborted-transaction list also names transactions that begin up to this many
	// offsets behind the last record served (a broker collects its index up to a coarse upper bound)
	AbortedBeyond int64
}

// VSimFetched records what one partition block of a fetch answer contained.
type VSimFetched struct {
	ClientID    string
	Seq         int64
	N           int
	Broker      int32
	Conn        int64
	Version     int16
	Isolation   int8
	Topic       string
	Partition   int32
	Offset      int64 // fetch offset
	MaxBytes    int32
	Action      int
	Code        int16
	Magic       int8
	Codec       int8
	FirstServed int64 // first record offset contained in the served batches (may be < Offset), -1 none
	LastServed  int64 // last record offset fully contained
	Batches     int
	Partial     bool // the record set ends with an incomplete batch/message
	SetBytes    int
	HWM         int64
	LSO         int64
	Aborted     []VSimAborted
	NotLeader   bool
}

func (s *VSim) handleFetch(b *VSimBroker, connID int64, ctx *VSimReqCtx, r *FetchRequest) (*vsResponse, int) {
	fc := &VSimFetchCtx{ClientID: ctx.ClientID, ReqSeq: ctx.Seq, N: ctx.N, Broker: b.ID, Conn: connID, Version: r.Version, Isolation: int8(r.Isolation), MaxWaitMs: r.MaxWaitTime}
	for t, ps := range r.blocks {
		for pid, blk := range ps {
			fc.Parts = append(fc.Parts, VSimFetchPart{t, pid, blk.fetchOffset, blk.maxBytes})
		}
	}
	sort.Slice(fc.Parts, func(i, j int) bool {
		if fc.Parts[i].Topic != fc.Parts[j].Topic {
			return fc.Parts[i].Topic < fc.Parts[j].Topic
		}
		return fc.Parts[i].Partition < fc.Parts[j].Partition
	})
	act := VSimFetchAction{Magic: 2, PartIdx: -1}
	if s.OnFetch != nil {
		act = s.OnFetch(fc)
	}
	if act.DelayMs > 0 {
		time.Sleep(time.Duration(act.DelayMs) * time.Millisecond)
	}
	switch act.Kind {
	case VFDrop, VFSilent:
		s.mu.Lock()
		for _, p := range fc.Parts {
			s.logEvent("fetch", b.ID, connID, map[string]interface{}{"fetched": VSimFetched{ClientID: ctx.ClientID, N: fc.N, Broker: b.ID, Conn: connID, Version: r.Version, Topic: p.Topic, Partition: p.Partition, Offset: p.Offset, MaxBytes: p.MaxBytes, Action: act.Kind, FirstServed: -1, LastServed: -1}})
		}
		s.mu.Unlock()
		if act.Kind == VFDrop {
			return nil, VConnDropAfter
		}
		return nil, VConnSilentAfter
	}
	// long-poll emulation: when every partition is at its log end, wait a little
	if act.Kind == VFOk {
		s.mu.Lock()
		any := false
		for _, p := range fc.Parts {
			if t := s.topics[p.Topic]; t != nil {
				if part := t.parts[p.Partition]; part != nil && part.leader == b.ID && p.Offset < part.base+int64(len(part.log)) {
					any = true
				}
			}
		}
		s.mu.Unlock()
		if !any {
			w := int(r.MaxWaitTime)
			if w > 5 {
				w = 5
			}
			if w > 0 {
				time.Sleep(time.Duration(w) * time.Millisecond)
			}
		}
	}

	var body []byte
	if r.Version >= 1 {
		thr := uint32(0)
		if act.Kind == VFThrottledEmpty {
			thr = 25
		}
		body = binary.BigEndian.AppendUint32(body, thr)
	}
	if r.Version >= 7 {
		body = binary.BigEndian.AppendUint16(body, 0)
		body = binary.BigEndian.AppendUint32(body, 0)
	}
	type blk struct {
		part int32
		b    []byte
	}
	byTopic := map[string][]blk{}
	var order []string
	cutUsed := false
	s.mu.Lock()
	for i, p := range fc.Parts {
		rec := VSimFetched{ClientID: ctx.ClientID, N: fc.N, Broker: b.ID, Conn: connID, Version: r.Version, Isolation: int8(r.Isolation), Topic: p.Topic, Partition: p.Partition,
			Offset: p.Offset, MaxBytes: p.MaxBytes, Action: act.Kind, Magic: act.Magic, Codec: act.Codec, FirstServed: -1, LastServed: -1}
		if act.Kind == VFThrottledEmpty || (act.Kind == VFOmitBlock && (act.PartIdx < 0 || act.PartIdx == i)) {
			s.logEvent("fetch", b.ID, connID, map[string]interface{}{"fetched": rec})
			continue
		}
		var part *vsPartition
		if t := s.topics[p.Topic]; t != nil {
			part = t.parts[p.Partition]
		}
		code := ErrNoError
		switch {
		case part == nil:
			code = ErrUnknownTopicOrPartition
		case part.leader != b.ID:
			code = ErrNotLeaderForPartition
			rec.NotLeader = true
		case act.Kind == VFErr && (act.PartIdx < 0 || act.PartIdx == i):
			code = act.Code
		}
		var set []byte
		hwm, lso, logStart := int64(-1), int64(-1), int64(-1)
		var aborted []VSimAborted
		if part != nil && code == ErrNoError {
			hwm = part.base + int64(len(part.log))
			lso = hwm
			if part.lso >= 0 {
				lso = part.lso
			}
			logStart = part.logStart
			if p.Offset < part.logStart || p.Offset > hwm {
				code = ErrOffsetOutOfRange
			} else if act.Kind == VFOk {
				limit := hwm
				if r.Isolation == ReadCommitted {
					limit = lso
				}
				set, rec.FirstServed, rec.LastServed, rec.Batches = s.frameLocked(part, p.Offset, limit, &act)
				if act.HonourMax && int(p.MaxBytes) > 0 && len(set) > int(p.MaxBytes) {
					set = set[:p.MaxBytes]
				}
				if act.CutAt > 0 && !cutUsed && len(set) > act.CutAt {
					set = set[:act.CutAt]
					cutUsed = true
				}
				// recompute what is fully contained after cutting
				if bs, partial, err := VRefParseRecordSet(set); err == nil {
					rec.Partial = partial
					rec.Batches = len(bs)
					rec.FirstServed, rec.LastServed = -1, -1
					for _, vb := range bs {
						for _, rr := range vb.Recs {
							if rec.FirstServed < 0 {
								rec.FirstServed = rr.Offset
							}
							rec.LastServed = rr.Offset
						}
					}
				}
				if r.Isolation == ReadCommitted && r.Version >= 4 {
					upper := rec.LastServed + act.AbortedBeyond
					for _, a := range part.aborted {
						if a.LastOffset >= p.Offset && a.FirstOffset <= upper {
							aborted = append(aborted, a)
						}
					}
					if act.ShuffleAborted != 0 {
						rng := rand.New(rand.NewSource(act.ShuffleAborted + int64(fc.N)))
						rng.Shuffle(len(aborted), func(x, y int) { aborted[x], aborted[y] = aborted[y], aborted[x] })
					}
				}
			}
		}
		if part != nil && code == ErrNoError && act.Kind == VFOk {
			part.okFetches++
		}
		rec.Code, rec.SetBytes, rec.HWM, rec.LSO, rec.Aborted = int16(code), len(set), hwm, lso, aborted
		s.logEvent("fetch", b.ID, connID, map[string]interface{}{"fetched": rec})
		var pb []byte
		pb = binary.BigEndian.AppendUint32(pb, uint32(p.Partition))
		pb = binary.BigEndian.AppendUint16(pb, uint16(code))
		pb = binary.BigEndian.AppendUint64(pb, uint64(hwm))
		if r.Version >= 4 {
			pb = binary.BigEndian.AppendUint64(pb, uint64(lso))
			if r.Version >= 5 {
				pb = binary.BigEndian.AppendUint64(pb, uint64(logStart))
			}
			if r.Isolation == ReadCommitted {
				pb = binary.BigEndian.AppendUint32(pb, uint32(len(aborted)))
				for _, a := range aborted {
					pb = binary.BigEndian.AppendUint64(pb, uint64(a.PID))
					pb = binary.BigEndian.AppendUint64(pb, uint64(a.FirstOffset))
				}
			} else {
				pb = binary.BigEndian.AppendUint32(pb, 0xffffffff) // null
			}
		}
		if r.Version >= 11 {
			pb = binary.BigEndian.AppendUint32(pb, 0xffffffff) // preferred read replica -1
		}
		pb = binary.BigEndian.AppendUint32(pb, uint32(len(set)))
		pb = append(pb, set...)
		if _, ok := byTopic[p.Topic]; !ok {
			order = append(order, p.Topic)
		}
		byTopic[p.Topic] = append(byTopic[p.Topic], blk{p.Partition, pb})
	}
	s.mu.Unlock()
	atomic.AddInt64(&s.progress, 1)
	body = binary.BigEndian.AppendUint32(body, uint32(len(order)))
	for _, t := range order {
		body = binary.BigEndian.AppendUint16(body, uint16(len(t)))
		body = append(body, t...)
		body = binary.BigEndian.AppendUint32(body, uint32(len(byTopic[t])))
		for _, x := range byTopic[t] {
			body = append(body, x.b...)
		}
	}
	return &vsResponse{hdrVersion: 0, body: body}, VConnProceed
}

// frameLocked writes the batches served for a fetch at offset `from`, never
// beyond `limit` (exclusive). Batches respect producer boundaries (a batch
// holds records of one producer id / control flag), start at the batch that
// contains `from` when AlignTo is set, and are written by the reference writer.
func (s *VSim) frameLocked(part *vsPartition, from, limit int64, act *VSimFetchAction) (set []byte, first, last int64, nb int) {
	first, last = -1, -1
	idx := int(from - part.base)
	end := int(limit - part.base)
	if end > len(part.log) {
		end = len(part.log)
	}
	if idx >= end {
		return nil, -1, -1, 0
	}
	maxB := act.MaxBatches
	if maxB <= 0 {
		maxB = 3
	}
	// Only a batch (magic 2) or a compressed wrapper can begin before the fetch
	// offset: uncompressed legacy messages are located individually by a broker.
	align := act.AlignTo
	if act.Magic < 2 && act.Codec == 0 && part.log[idx].PID < 0 {
		align = 0
	}
	sameProducer := func(a, b VRec) bool {
		return a.PID == b.PID && a.Epoch == b.Epoch && a.Transactional == b.Transactional && !a.Control && !b.Control
	}
	// In aligned mode the log has a fixed batch layout: a batch starts at every
	// multiple of AlignTo and wherever the producer changes; the answer begins
	// with the batch that contains the fetch offset.
	boundary := func(i int) bool {
		return i == 0 || i%align == 0 || !sameProducer(part.log[i-1], part.log[i])
	}
	start := idx
	if align > 0 {
		for !boundary(start) {
			start--
		}
	}
	k := 0
	for nb < maxB && start < end {
		size := 1
		if len(act.BatchSizes) > 0 {
			size = act.BatchSizes[k%len(act.BatchSizes)]
			k++
		} else if act.AlignTo > 0 {
			size = act.AlignTo
		}
		stop := start + size
		if align > 0 {
			stop = start + 1
			for stop < len(part.log) && !boundary(stop) {
				stop++
			}
		}
		if stop > end {
			stop = end
		}
		r0 := part.log[start]
		for j := start + 1; j < stop; j++ {
			if !sameProducer(part.log[j-1], part.log[j]) {
				stop = j
				break
			}
		}
		var recs []VRec
		for _, r := range part.log[start:stop] {
			if !part.holes[r.Offset] {
				recs = append(recs, r)
			}
		}
		if len(recs) == 0 { // everything in this range was compacted away
			start = stop
			continue
		}
		r0 = recs[0]
		magic := act.Magic
		if r0.Transactional || r0.Control || r0.PID >= 0 && magic < 2 {
			magic = 2
		}
		if magic < 2 {
			for i := range recs {
				recs[i].Headers = nil
				if magic == 0 {
					recs[i].TsMs = -1
				}
			}
		}
		spec := VRefBatchSpec{Magic: magic, Codec: act.Codec, Recs: recs, PID: r0.PID, Epoch: r0.Epoch, BaseSeq: r0.Seq, Transactional: r0.Transactional, Control: r0.Control, LogAppendTime: act.LogAppend}
		if r0.PID < 0 {
			spec.PID, spec.Epoch, spec.BaseSeq = -1, -1, -1
		}
		if r0.Control {
			spec.Codec = 0
		}
		set = append(set, VRefWriteBatch(spec)...)
		if first < 0 {
			first = recs[0].Offset
		}
		last = recs[len(recs)-1].Offset
		nb++
		start = stop
	}
	return set, first, last, nb
}

// Fetched returns every partition block served so far.
func (s *VSim) Fetched() []VSimFetched {
	s.mu.Lock()
	defer s.mu.Unlock()
	var out []VSimFetched
	for _, e := range s.events {
		if e.Kind == "fetch" {
			f := e.Info["fetched"].(VSimFetched)
			f.Seq = e.Seq
			out = append(out, f)
		}
	}
	return out
}
