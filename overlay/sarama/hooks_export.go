//go:build verif

package sarama

// Harness-side helpers injected into package sarama at build time (never part
// of the repository). They expose read-only views of unexported state to the
// monitors living outside the package.

// VerifMsgInfo is what a hook handler may read off a ProducerMessage.
type VerifMsgInfo struct {
	Flags    int
	Retries  int
	HasSeq   bool
	Seq      int32
	Epoch    int16
	IsSyn    bool
	IsFin    bool
	Shutdown bool
}

func VerifMsg(m *ProducerMessage) VerifMsgInfo {
	return VerifMsgInfo{Flags: int(m.flags), Retries: m.retries, HasSeq: m.hasSequence, Seq: m.sequenceNumber, Epoch: m.producerEpoch,
		IsSyn: m.flags&syn != 0, IsFin: m.flags&fin != 0, Shutdown: m.flags&shutdown != 0}
}

// VerifRecordingPartitioner records how often it was consulted and what it chose.
type VerifRecordingPartitioner struct {
	Calls             int
	Last              int32
	NumPartitionsSeen []int32
}

func (r *VerifRecordingPartitioner) Partition(m *ProducerMessage, n int32) (int32, error) {
	r.Calls++
	r.NumPartitionsSeen = append(r.NumPartitionsSeen, n)
	r.Last = int32((r.Calls * 7) % int(n))
	return r.Last, nil
}
func (r *VerifRecordingPartitioner) RequiresConsistency() bool { return false }

// VerifCustomFallbackPartitioner builds NewCustomPartitioner(WithCustomFallbackPartitioner(fb))
// where fb is a hash partitioner whose own keyless fallback is rec: the option
// takes an unexported type, so it can only be built from inside the package.
func VerifCustomFallbackPartitioner(rec *VerifRecordingPartitioner) Partitioner {
	fb := NewHashPartitioner("fallback").(*hashPartitioner)
	fb.random = rec
	return NewCustomPartitioner(WithCustomFallbackPartitioner(fb))("t")
}

// VerifSetPart is one partition of a produce set as seen by a hook.
type VerifSetPart struct {
	Topic     string
	Partition int32
	Msgs      []*ProducerMessage
	FirstSeq  int32
}

// VerifSetInfo reads a *produceSet (hook argument of bp.added / bp.bridge / bp.response).
func VerifSetInfo(x interface{}) (pid int64, epoch int16, parts []VerifSetPart) {
	ps, ok := x.(*produceSet)
	if !ok || ps == nil {
		return -1, -1, nil
	}
	for t, m := range ps.msgs {
		for p, set := range m {
			vp := VerifSetPart{Topic: t, Partition: p, Msgs: append([]*ProducerMessage(nil), set.msgs...), FirstSeq: -1}
			if set.recordsToSend.RecordBatch != nil {
				vp.FirstSeq = set.recordsToSend.RecordBatch.FirstSequence
			}
			parts = append(parts, vp)
		}
	}
	return ps.producerID, ps.producerEpoch, parts
}

// VerifPSetMsgs reads a *partitionSet (hook argument of ap.retryBatch).
func VerifPSetMsgs(x interface{}) []*ProducerMessage {
	ps, ok := x.(*partitionSet)
	if !ok || ps == nil {
		return nil
	}
	return append([]*ProducerMessage(nil), ps.msgs...)
}

// VerifCommitBlocks reads an *OffsetCommitRequest (hook argument of om.built / om.resp).
func VerifCommitBlocks(x interface{}) (blocks []VSimCommitBlock, ok bool) {
	r, isReq := x.(*OffsetCommitRequest)
	if !isReq || r == nil {
		return nil, false
	}
	for t, ps := range r.blocks {
		for p, b := range ps {
			blocks = append(blocks, VSimCommitBlock{t, p, b.offset, b.metadata})
		}
	}
	return blocks, true
}

// VerifBrokerID reads the id of a *Broker (hook argument of br.written).
func VerifBrokerID(x interface{}) int32 {
	if b, ok := x.(*Broker); ok && b != nil {
		return b.id
	}
	return -1
}

// VerifDecodeAssignment decodes a member assignment as handed out through SyncGroup.
func VerifDecodeAssignment(raw []byte) (map[string][]int32, error) {
	if len(raw) == 0 {
		return map[string][]int32{}, nil
	}
	a := new(ConsumerGroupMemberAssignment)
	if err := decode(raw, a); err != nil {
		return nil, err
	}
	return a.Topics, nil
}
