//go:build verif

package sarama

// Harness-side helpers injected into package sarama at build time (never part
// of the repository). They expose read-only views of unexported state to the
// monitors living outside the package.

// VerifMsgInfo is what a hook handler may read off a ProducerMessage.
type VerifMsgInfo struct {
	Flags    int
	Retries  int
	HasSeq   bool
	Seq      int32
	Epoch    int16
	IsSyn    bool
	IsFin    bool
	Shutdown bool
}

func VerifMsg(m *ProducerMessage) VerifMsgInfo {
	return VerifMsgInfo{Flags: int(m.flags), Retries: m.retries, HasSeq: m.hasSequence, Seq: m.sequenceNumber, Epoch: m.producerEpoch,
		IsSyn: m.flags&syn != 0, IsFin: m.flags&fin != 0, Shutdown: m.flags&shutdown != 0}
}
