//go:build verif

package sarama

// Harness-side helpers injected into package sarama at build time (never part
// of the repository). They expose read-only views of unexported state to the
// monitors living outside the package.

// VerifMsgInfo is what a hook handler may read off a ProducerMessage.
type VerifMsgInfo struct {
	Flags    int
	Retries  int
	HasSeq   bool
	Seq      int32
	Epoch    int16
	IsSyn    bool
	IsFin    bool
	Shutdown bool
}

func VerifMsg(m *ProducerMessage) VerifMsgInfo {
	return VerifMsgInfo{Flags: int(m.flags), Retries: m.retries, HasSeq: m.hasSequence, Seq: m.sequenceNumber, Epoch: m.producerEpoch,
		IsSyn: m.flags&syn != 0, IsFin: m.flags&fin != 0, Shutdown: m.flags&shutdown != 0}
}

// VerifRecordingPartitioner records how often it was consulted and what it chose.
type VerifRecordingPartitioner struct {
	Calls int
	Last  int32
	NumPartitionsSeen []int32
}

func (r *VerifRecordingPartitioner) Partition(m *ProducerMessage, n int32) (int32, error) {
	r.Calls++
	r.NumPartitionsSeen = append(r.NumPartitionsSeen, n)
	r.Last = int32((r.Calls * 7) % int(n))
	return r.Last, nil
}
func (r *VerifRecordingPartitioner) RequiresConsistency() bool { return false }

// VerifCustomFallbackPartitioner builds NewCustomPartitioner(WithCustomFallbackPartitioner(fb))
// where fb is a hash partitioner whose own keyless fallback is rec: the option
// takes an unexported type, so it can only be built from inside the package.
func VerifCustomFallbackPartitioner(rec *VerifRecordingPartitioner) Partitioner {
	fb := NewHashPartitioner("fallback").(*hashPartitioner)
	fb.random = rec
	return NewCustomPartitioner(WithCustomFallbackPartitioner(fb))("t")
}
