//go:build verif

package sarama

// Engine "fuzz", record formats: seeds written by the reference writer
// (ref_records.go), the content oracle for checksummed spans and length fields,
// mutations that recompute checksums / rebuild compressed payloads so that they
// reach the record parsers, wrapper-in-wrapper nesting, payloads that declare
// sizes they do not carry, and the account of what decompression legitimately
// yields for an input (a mirror of the order in which sarama's decoders consume
// a record set).

import (
	"bytes"
	"compress/gzip"
	"encoding/binary"
	"fmt"
	"hash/crc32"
	"io/ioutil"
	"math/rand"
	"sort"
	"strings"

	snappy "github.com/eapache/go-xerial-snappy"
	"github.com/klauspost/compress/zstd"
	"github.com/pierrec/lz4"
)

// ---------------------------------------------------------------- canonical record lists

func fzB(b []byte) string {
	if b == nil {
		return "nil"
	}
	return fmt.Sprintf("%x", b)
}

// the canonical form is a list of lines: one per batch header, record, message
// (a compressed wrapper message is one line followed by the lines of its inner set)

func fzCanonBatch(out *[]string, b *RecordBatch) {
	if b == nil {
		return
	}
	*out = append(*out, fmt.Sprintf("B{off=%d codec=%d ctl=%v lat=%v last=%d ts=%d/%d pid=%d ep=%d seq=%d txn=%v n=%d}", b.FirstOffset, b.Codec, b.Control, b.LogAppendTime,
		b.LastOffsetDelta, vcMillis(b.FirstTimestamp), vcMillis(b.MaxTimestamp), b.ProducerID, b.ProducerEpoch, b.FirstSequence, b.IsTransactional, len(b.Records)))
	for _, r := range b.Records {
		if r == nil {
			*out = append(*out, "R<nil>")
			continue
		}
		var sb strings.Builder
		fmt.Fprintf(&sb, "R{a=%d t=%d o=%d k=%s v=%s h=", r.Attributes, int64(r.TimestampDelta), r.OffsetDelta, fzB(r.Key), fzB(r.Value))
		for _, h := range r.Headers {
			if h == nil {
				sb.WriteString("<nil>")
				continue
			}
			fmt.Fprintf(&sb, "(%s:%s)", fzB(h.Key), fzB(h.Value))
		}
		sb.WriteString("}")
		*out = append(*out, sb.String())
	}
}

func fzCanonSet(out *[]string, ms *MessageSet) {
	if ms == nil {
		return
	}
	for _, blk := range ms.Messages {
		if blk == nil || blk.Msg == nil {
			*out = append(*out, "M<nil>")
			continue
		}
		fzCanonMsg(out, blk.Offset, blk.Msg)
	}
}

func fzCanonMsg(out *[]string, off int64, m *Message) {
	l := fmt.Sprintf("M{off=%d v=%d codec=%d lat=%v ts=%d k=%s ", off, m.Version, m.Codec, m.LogAppendTime, vcMillis(m.Timestamp), fzB(m.Key))
	if m.Set != nil {
		*out = append(*out, l+"wrapper}")
		fzCanonSet(out, m.Set)
		return
	}
	*out = append(*out, l+"v="+fzB(m.Value)+"}")
}

func fzCanonRecords(out *[]string, r *Records) {
	if r == nil {
		return
	}
	if r.RecordBatch != nil {
		fzCanonBatch(out, r.RecordBatch)
	}
	if r.MsgSet != nil {
		fzCanonSet(out, r.MsgSet)
	}
}

func fzRecordsPartial(r *Records) bool {
	if r == nil {
		return false
	}
	if r.RecordBatch != nil && r.RecordBatch.PartialTrailingRecord {
		return true
	}
	if r.MsgSet != nil && (r.MsgSet.PartialTrailingMessage || r.MsgSet.OverflowMessage) {
		return true
	}
	return false
}

// fzRecList is what a decoded value says about records: per partition (one
// pseudo partition for the bare formats) the list of batch headers and records
// in order, and whether the partition carries the partial-trailing indication.
type fzRecList struct {
	recs    map[string][]string
	partial map[string]bool
}

func fzCanon(val interface{}) *fzRecList {
	rl := &fzRecList{recs: map[string][]string{}, partial: map[string]bool{}}
	var lines []string
	switch x := val.(type) {
	case *RecordBatch:
		fzCanonBatch(&lines, x)
	case *MessageSet:
		fzCanonSet(&lines, x)
	case *Message:
		fzCanonMsg(&lines, 0, x)
	case *Records:
		fzCanonRecords(&lines, x)
	case *FetchResponse:
		for topic, parts := range x.Blocks {
			for id, blk := range parts {
				var pl []string
				key := fmt.Sprintf("%q/%d", topic, id)
				partial := false
				if blk != nil {
					partial = blk.Partial
					for _, rs := range blk.RecordsSet {
						fzCanonRecords(&pl, rs)
						if fzRecordsPartial(rs) {
							partial = true
						}
					}
				}
				rl.recs[key] = pl
				if partial {
					rl.partial[key] = true
				}
			}
		}
		return rl
	}
	rl.recs[""] = lines
	return rl
}

func (rl *fzRecList) String() string {
	keys := make([]string, 0, len(rl.recs))
	for k := range rl.recs {
		keys = append(keys, k)
	}
	sort.Strings(keys)
	var sb strings.Builder
	for _, k := range keys {
		if k != "" {
			sb.WriteString(k + ": ")
		}
		if rl.partial[k] {
			sb.WriteString("(partial) ")
		}
		sb.WriteString(strings.Join(rl.recs[k], " "))
		sb.WriteString("; ")
	}
	return sb.String()
}

func fzSameKeys(a, b *fzRecList) bool {
	if len(a.recs) != len(b.recs) {
		return false
	}
	for k := range a.recs {
		if _, ok := b.recs[k]; !ok {
			return false
		}
	}
	return true
}

// fzCompareRecords: "" when every partition the decoder hands out without the
// partial indication carries exactly the original records; "records-dropped"
// when such a partition carries a proper prefix of them or an original
// partition is not handed out at all (nothing else differs); else
// "records-altered" and the partition where other records surfaced.
func fzCompareRecords(orig, got *fzRecList) (class, where string) {
	for k, g := range got.recs {
		if got.partial[k] {
			continue
		}
		o, ok := orig.recs[k]
		if !ok {
			if len(g) > 0 {
				return "records-altered", k
			}
			continue
		}
		same := len(g) <= len(o)
		for i := 0; same && i < len(g); i++ {
			if g[i] != o[i] {
				same = false
			}
		}
		switch {
		case same && len(g) == len(o):
		case same:
			class = "records-dropped"
		default:
			return "records-altered", k
		}
	}
	for k, o := range orig.recs {
		if _, ok := got.recs[k]; !ok && len(o) > 0 {
			class = "records-dropped"
		}
	}
	return class, ""
}

// ---------------------------------------------------------------- what decompression legitimately yields

type fzLegitAcc struct {
	work, produced int64
	calls          int
}

func (a *fzLegitAcc) decompress(codec int8, data []byte) ([]byte, error) {
	if codec == 0 {
		return data, nil
	}
	a.calls++
	switch codec {
	case 1:
		a.work += 96 << 10
	case 2:
		a.work += 8 << 10
	case 3:
		// pierrec/lz4 keeps two buffers of the block size the frame declares (at most 4 MiB)
		bs := int64(4 << 20)
		if len(data) > 5 {
			switch (data[5] >> 4) & 7 {
			case 4:
				bs = 64 << 10
			case 5:
				bs = 256 << 10
			case 6:
				bs = 1 << 20
			}
		}
		a.work += 2*bs + 64<<10
	case 4:
		a.work += 1 << 20
	default:
		return nil, fmt.Errorf("codec")
	}
	if a.calls > 5000 || a.produced > 1<<31 {
		return nil, fmt.Errorf("enough")
	}
	out, err := fzSafeDecompress(codec, data)
	a.produced += int64(len(out))
	return out, err
}

var fzZstdDec *zstd.Decoder

// fzSafeDecompress is the reference decompression used to account for what an
// input legitimately yields; it refuses payloads that declare more than they
// can carry instead of allocating for them.
func fzSafeDecompress(codec int8, data []byte) ([]byte, error) {
	switch codec {
	case 2:
		plausible := func(raw []byte) bool {
			d, n := binary.Uvarint(raw)
			// a snappy element of three bytes yields at most 64
			return n > 0 && d <= uint64(64*len(raw))+64
		}
		if bytes.HasPrefix(data, vcXerialMagic) && len(data) >= 16 {
			p := 16
			for p+4 <= len(data) {
				sz := int(int32(binary.BigEndian.Uint32(data[p:])))
				p += 4
				if sz < 0 || sz > len(data)-p {
					return nil, fmt.Errorf("ref: xerial chunk size")
				}
				if !plausible(data[p : p+sz]) {
					return nil, fmt.Errorf("ref: snappy block declares more than it can hold")
				}
				p += sz
			}
		} else if !plausible(data) {
			return nil, fmt.Errorf("ref: snappy block declares more than it can hold")
		}
	case 4:
		if fzZstdDec == nil {
			fzZstdDec, _ = zstd.NewReader(nil, zstd.WithDecoderConcurrency(1), zstd.WithDecoderMaxMemory(64<<20))
		}
		return fzZstdDec.DecodeAll(data, nil)
	}
	switch codec {
	case 1:
		if fzGzipRd == nil {
			r, err := gzip.NewReader(bytes.NewReader(data))
			if err != nil {
				return nil, err
			}
			fzGzipRd = r
		} else if err := fzGzipRd.Reset(bytes.NewReader(data)); err != nil {
			return nil, err
		}
		return ioutil.ReadAll(fzGzipRd)
	case 3:
		if fzLz4Rd == nil {
			fzLz4Rd = lz4.NewReader(nil)
		}
		fzLz4Rd.Reset(bytes.NewReader(data))
		return ioutil.ReadAll(fzLz4Rd)
	}
	return vrDecompress(codec, data)
}

var (
	fzGzipRd *gzip.Reader
	fzLz4Rd  *lz4.Reader
)

func fzBytes32(b []byte, p int) (val []byte, next int, ok bool) {
	if p+4 > len(b) {
		return nil, 0, false
	}
	n := int(int32(binary.BigEndian.Uint32(b[p:])))
	p += 4
	if n == -1 {
		return nil, p, true
	}
	if n < 0 || n > len(b)-p {
		return nil, 0, false
	}
	return b[p : p+n], p + n, true
}

// message mirrors Message.decode on the stream b (crc first); returns the
// bytes consumed.
func (a *fzLegitAcc) message(b []byte, depth int) (int, bool) {
	if len(b) < 6 {
		return 0, false
	}
	magic := int8(b[4])
	if magic > 1 || magic < 0 && false {
		return 0, false
	}
	codec := int8(b[5]) & 7
	p := 6
	if magic == 1 {
		p += 8
	}
	var ok bool
	if _, p, ok = fzBytes32(b, p); !ok {
		return 0, false
	}
	var val []byte
	if val, p, ok = fzBytes32(b, p); !ok {
		return 0, false
	}
	if val != nil && codec != 0 {
		out, err := a.decompress(codec, val)
		if err != nil {
			return 0, false
		}
		if depth < 20000 {
			a.set(out, depth+1)
		}
	}
	if crc32.ChecksumIEEE(b[4:p]) != binary.BigEndian.Uint32(b) {
		return 0, false
	}
	return p, true
}

// set mirrors MessageSet.decode; returns the bytes consumed and whether the
// decoder would go on with what follows (false: error or partial).
func (a *fzLegitAcc) set(b []byte, depth int) (int, bool) {
	p := 0
	for len(b)-p > 0 {
		if len(b)-p < 17 {
			return p, false
		}
		if int8(b[p+16]) > 1 {
			return p, true
		}
		size := int(int32(binary.BigEndian.Uint32(b[p+8:])))
		if size > len(b)-p-12 {
			return p, false
		}
		n, ok := a.message(b[p+12:], depth)
		if !ok || n != size {
			return p, false
		}
		p += 12 + n
	}
	return p, true
}

// batch mirrors RecordBatch.decode.
func (a *fzLegitAcc) batch(b []byte) (int, bool) {
	if len(b) < 61 {
		return 0, false
	}
	batchLen := int(int32(binary.BigEndian.Uint32(b[8:])))
	buf := batchLen - recordBatchOverhead
	if buf < 0 || buf > len(b)-61 {
		return 0, false
	}
	end := 61 + buf
	if crc32.Checksum(b[21:end], vrCastagnoli) != binary.BigEndian.Uint32(b[17:]) {
		return 0, false
	}
	codec := int8(b[22]) & 7
	if _, err := a.decompress(codec, b[61:end]); err != nil {
		return 0, false
	}
	return end, true
}

// records mirrors the loop of FetchResponseBlock.decode over a record set.
func (a *fzLegitAcc) records(b []byte) {
	p := 0
	for len(b)-p >= 17 {
		if int8(b[p+16]) < 2 {
			n, ok := a.set(b[p:], 0)
			if !ok || n == 0 {
				return
			}
			p += n
		} else {
			n, ok := a.batch(b[p:])
			if !ok {
				return
			}
			p += n
		}
	}
}

// fzFetchWalk mirrors FetchResponse.decode up to every record set: visit gets
// the position of the int32 records size and the region it announces (clipped
// to the buffer when it announces more than there is).
func fzFetchWalk(b []byte, v int16, visit func(sizePos, from, to int)) {
	be := binary.BigEndian
	p := 0
	need := func(n int) bool { return len(b)-p >= n }
	arr := func() (int, bool) {
		if !need(4) {
			return 0, false
		}
		n := int(int32(be.Uint32(b[p:])))
		p += 4
		if n > len(b)-p || n > 2*65535 {
			return 0, false
		}
		return n, true
	}
	if v >= 1 {
		p += 4
	}
	if v >= 7 {
		p += 6
	}
	if p > len(b) {
		return
	}
	nt, ok := arr()
	if !ok {
		return
	}
	for i := 0; i < nt; i++ {
		if !need(2) {
			return
		}
		sl := int(int16(be.Uint16(b[p:])))
		p += 2
		if sl < -1 || sl > len(b)-p {
			return
		}
		if sl > 0 {
			p += sl
		}
		nb, ok := arr()
		if !ok {
			return
		}
		for j := 0; j < nb; j++ {
			// partition, error, high water mark
			if !need(4 + 2 + 8) {
				return
			}
			p += 14
			if v >= 4 {
				if !need(8) {
					return
				}
				p += 8
				if v >= 5 {
					if !need(8) {
						return
					}
					p += 8
				}
				na, ok := arr()
				if !ok {
					return
				}
				for k := 0; k < na; k++ {
					if !need(16) {
						return
					}
					p += 16
				}
			}
			if v >= 11 {
				if !need(4) {
					return
				}
				p += 4
			}
			if !need(4) {
				return
			}
			sizePos := p
			rs := int(int32(be.Uint32(b[p:])))
			p += 4
			if rs < 0 || rs > len(b)-p {
				return
			}
			visit(sizePos, p, p+rs)
			p += rs
		}
	}
}

func fzLegitFetch(b []byte, v int16) (int64, int64) {
	a := &fzLegitAcc{}
	fzFetchWalk(b, v, func(_, from, to int) { a.records(b[from:to]) })
	return a.work, a.produced
}

func fzFetchHasRecords(b []byte, v int16) bool {
	has := false
	fzFetchWalk(b, v, func(_, from, to int) {
		if to-from >= 26 {
			has = true
		}
	})
	return has
}

// ---------------------------------------------------------------- spans of a valid record set

type fzSpan struct {
	start, end             int // whole entry
	lenPos                 int // int32 batch length / message size
	crcPos, crcFrom, crcTo int
	ieee                   bool
}

// fzSpansOfSet walks the top-level entries of a valid record set at b[from:to].
func fzSpansOfSet(b []byte, from, to int) []fzSpan {
	var out []fzSpan
	p := from
	for to-p >= 17 {
		size := int(int32(binary.BigEndian.Uint32(b[p+8:])))
		if size < 0 || p+12+size > to {
			break
		}
		sp := fzSpan{start: p, end: p + 12 + size, lenPos: p + 8}
		if int8(b[p+16]) >= 2 {
			sp.crcPos, sp.crcFrom, sp.crcTo = p+17, p+21, p+12+size
		} else {
			sp.crcPos, sp.crcFrom, sp.crcTo, sp.ieee = p+12, p+16, p+12+size, true
		}
		out = append(out, sp)
		p = sp.end
	}
	return out
}

func fzFixCRC(b []byte, sp fzSpan, to int) {
	if sp.crcPos+4 > len(b) || to > len(b) || sp.crcFrom > to {
		return
	}
	if sp.ieee {
		binary.BigEndian.PutUint32(b[sp.crcPos:], crc32.ChecksumIEEE(b[sp.crcFrom:to]))
	} else {
		binary.BigEndian.PutUint32(b[sp.crcPos:], crc32.Checksum(b[sp.crcFrom:to], vrCastagnoli))
	}
}

// fzJudgeFor builds the content-oracle classifier of a seed: 1 = the mutation
// altered a checksummed span (or the stored checksum), 2 = it altered nothing
// but length fields outside the checksummed spans / cut the data short, 0 =
// not judged (it also altered bytes no checksum covers: offsets, leader epoch,
// the magic byte of a batch, the framing of the response).
func fzJudgeFor(spans []fzSpan, lenFields []int, truncAlways bool) func(kind string, lo, hi int, seed, in []byte) int {
	// codes: 1 checksummed span of a legacy message, 3 of a record batch; 2 size
	// field of a legacy message, 4 batch length, 5 records size of a fetch
	// partition / truncation
	inCRC := func(i int) int {
		for _, sp := range spans {
			if i >= sp.crcPos && i < sp.crcTo {
				if sp.ieee {
					return 1
				}
				return 3
			}
		}
		return 0
	}
	inLen := func(i int) int {
		for _, sp := range spans {
			if i >= sp.lenPos && i < sp.lenPos+4 {
				if sp.ieee {
					return 2
				}
				return 4
			}
		}
		for _, lp := range lenFields {
			if i >= lp && i < lp+4 {
				return 5
			}
		}
		return 0
	}
	return func(kind string, lo, hi int, seed, in []byte) int {
		kind = strings.TrimSuffix(kind, "+crc")
		switch kind {
		case "valid":
			return inCRC(spans[0].crcFrom)
		case "trunc":
			if truncAlways {
				return 5
			}
			for _, sp := range spans {
				if lo == sp.start || lo == sp.end {
					return 0 // a shorter valid set
				}
			}
			return 5
		case "insert":
			for _, sp := range spans {
				if lo > sp.crcPos && lo < sp.crcTo {
					return inCRC(lo)
				}
			}
			return 0
		case "delete", "varint":
			for i := lo; i < hi; i++ {
				if c := inCRC(i); c != 0 {
					return c
				}
			}
			return 0
		case "bit1", "bitN", "len4", "len2", "byte":
			if len(seed) != len(in) {
				return 0
			}
			crc, ln, other := 0, 0, false
			for i := lo; i < hi && i < len(in); i++ {
				if in[i] == seed[i] {
					continue
				}
				if c := inCRC(i); c != 0 {
					crc = c
				} else if c := inLen(i); c != 0 {
					ln = c
				} else {
					other = true
				}
			}
			// bytes no checksum covers were altered too: the records may legitimately differ
			switch {
			case other:
				return 0
			case crc != 0:
				return crc
			case ln != 0:
				return ln
			}
		}
		return 0
	}
}

// fzNegSizeFor: did a same-size mutation alter nothing but the size field of a legacy message, and is
// that size negative now? Such a length disagrees with the data and has to be reported as an error: the
// partial-trailing indication (meant for a set cut short by the fetch size) is not an answer to it.
func fzNegSizeFor(spans []fzSpan) func(kind string, lo, hi int, seed, in []byte) bool {
	return func(kind string, lo, hi int, seed, in []byte) bool {
		switch strings.TrimSuffix(kind, "+crc") {
		case "bit1", "bitN", "len4", "len2", "byte":
		default:
			return false
		}
		if len(seed) != len(in) {
			return false
		}
		field := -1
		for i := lo; i < hi && i < len(in); i++ {
			if in[i] == seed[i] {
				continue
			}
			hit := -1
			for _, sp := range spans {
				if sp.ieee && i >= sp.lenPos && i < sp.lenPos+4 {
					hit = sp.lenPos
				}
			}
			if hit < 0 || (field >= 0 && hit != field) {
				return false
			}
			field = hit
		}
		return field >= 0 && field+4 <= len(in) && int32(binary.BigEndian.Uint32(in[field:])) < 0
	}
}

// ---------------------------------------------------------------- fetch responses with nested records

func (st *fzState) fetchSpans(sd []byte) (spans []fzSpan, lenFields []int) {
	fzFetchWalk(sd, st.c.v, func(sizePos, from, to int) {
		lenFields = append(lenFields, sizePos)
		spans = append(spans, fzSpansOfSet(sd, from, to)...)
	})
	return
}

func (st *fzState) fetchJudge(sd []byte) {
	spans, lenFields := st.fetchSpans(sd)
	st.judge = nil
	if len(spans) == 0 {
		return
	}
	var o fzOut
	func() {
		defer func() { recover() }()
		o = st.tgt.dec(append([]byte{}, sd...)) // (accepted once already, as a seed)
	}()
	if o.err != nil || o.val == nil {
		return
	}
	st.origCanon = fzCanon(o.val)
	st.judge = fzJudgeFor(spans, lenFields, true)
	st.negSize = fzNegSizeFor(spans)
	st.tailDropIsPartial = true
	st.obs["seeds_with_records"]++
}

// fetchFixedMutations: same-size mutations inside the nested record sets with
// the checksums recomputed, so that they reach the record parsers.
func (st *fzState) fetchFixedMutations(sd []byte, rng *rand.Rand) {
	spans, _ := st.fetchSpans(sd)
	if len(spans) == 0 {
		return
	}
	st.fix = func(b []byte, lo, hi int) bool {
		if len(b) != len(sd) {
			return false
		}
		hit := false
		for _, sp := range spans {
			if lo < sp.crcTo && hi > sp.crcFrom {
				hit = true
				fzFixCRC(b, sp, sp.crcTo)
			}
		}
		return hit
	}
	st.fixTag = "+crc"
	st.mutate(sd, rng)
	st.fix = nil
}

// ---------------------------------------------------------------- record format cases

func fzCompress(codec int8, data []byte) []byte {
	var buf bytes.Buffer
	switch codec {
	case 0:
		return data
	case 1:
		w := vrGzipPool.Get().(*gzip.Writer)
		w.Reset(&buf)
		w.Write(data)
		w.Close()
		vrGzipPool.Put(w)
		return buf.Bytes()
	case 2:
		return snappy.Encode(data)
	case 3:
		w := vrLz4Pool.Get().(*lz4.Writer)
		w.Reset(&buf)
		w.Write(data)
		w.Close()
		vrLz4Pool.Put(w)
		return buf.Bytes()
	case 4:
		vrZstdOnce.Do(vrZstdInit)
		return vrZstdEnc.EncodeAll(data, nil)
	}
	return data
}

// fzRecSeedRecs: record lists of growing shape.
func fzRecSeedRecs(k int, r *rand.Rand) []VRec {
	mk := func(i int, key, val []byte, hs []VHeader) VRec {
		return VRec{Offset: 100 + int64(i), Key: key, Value: val, Headers: hs, TsMs: 1600000000000 + int64(i)*7}
	}
	switch k {
	case 0:
		return []VRec{mk(0, []byte("k"), []byte("value-0"), nil)}
	case 1:
		return []VRec{
			mk(0, nil, []byte("a"), nil),
			mk(1, []byte{}, nil, []VHeader{{Key: []byte("h"), Value: []byte("x")}, {Key: []byte("trace"), Value: nil}}),
			mk(2, []byte("key-2"), []byte(strings.Repeat("v", 70)), nil),
		}
	case 2:
		var out []VRec
		for i := 0; i < 12; i++ {
			out = append(out, mk(i, []byte{byte('a' + i)}, []byte(fmt.Sprintf("payload-%03d", i)), nil))
		}
		return out
	}
	n := 1 + r.Intn(6)
	var out []VRec
	for i := 0; i < n; i++ {
		var key, val []byte
		if r.Intn(3) > 0 {
			key = make([]byte, r.Intn(9))
			r.Read(key)
		}
		if r.Intn(5) > 0 {
			val = make([]byte, r.Intn(40))
			r.Read(val)
		}
		var hs []VHeader
		for j := r.Intn(3); j > 0; j-- {
			hs = append(hs, VHeader{Key: []byte{byte('h' + j)}, Value: []byte{byte(j)}})
		}
		out = append(out, mk(i, key, val, hs))
	}
	return out
}

type fzRecSeed struct {
	b      []byte // the input of the target
	single bool   // one top-level entry
	magic  int8
	// compressed single entry: how to rebuild it around other inner bytes
	inner   []byte
	rebuild func(inner []byte) []byte
}

func (st *fzState) recTarget(format string) *fzTarget {
	t := &fzTarget{name: format + "/" + fzCodecName(st.c.arg)}
	legitSet := func(b []byte) (int64, int64) {
		a := &fzLegitAcc{}
		a.records(b)
		return a.work, a.produced
	}
	switch {
	case format == "RecordBatch":
		t.outer = "(*RecordBatch).decode"
		t.dec = func(b []byte) fzOut {
			x := &RecordBatch{}
			rd := &realDecoder{raw: b}
			err := x.decode(rd)
			return fzOut{err: err, val: x, partial: x.PartialTrailingRecord, rest: len(b) - rd.off}
		}
		t.legit = func(b []byte) (int64, int64) {
			a := &fzLegitAcc{}
			a.batch(b)
			return a.work, a.produced
		}
	case strings.HasPrefix(format, "MessageSet"):
		t.outer = "(*MessageSet).decode"
		t.dec = func(b []byte) fzOut {
			x := &MessageSet{}
			rd := &realDecoder{raw: b}
			err := x.decode(rd)
			return fzOut{err: err, val: x, partial: x.PartialTrailingMessage || x.OverflowMessage, rest: len(b) - rd.off}
		}
		t.legit = func(b []byte) (int64, int64) {
			a := &fzLegitAcc{}
			a.set(b, 0)
			return a.work, a.produced
		}
	case strings.HasPrefix(format, "Message"):
		t.outer = "(*Message).decode"
		t.dec = func(b []byte) fzOut {
			x := &Message{}
			rd := &realDecoder{raw: b}
			err := x.decode(rd)
			return fzOut{err: err, val: x, rest: len(b) - rd.off}
		}
		t.legit = func(b []byte) (int64, int64) {
			a := &fzLegitAcc{}
			a.message(b, 0)
			return a.work, a.produced
		}
	default:
		t.outer = "(*Records).decode"
		t.dec = func(b []byte) fzOut {
			x := &Records{}
			rd := &realDecoder{raw: b}
			err := x.decode(rd)
			return fzOut{err: err, val: x, partial: fzRecordsPartial(x), rest: len(b) - rd.off}
		}
		t.legit = legitSet
	}
	return t
}

func (st *fzState) recSeeds(format string, rng *rand.Rand) []fzRecSeed {
	codec := int8(st.c.arg)
	magic := int8(2)
	if format != "RecordBatch" {
		magic = int8(format[len(format)-1] - '0')
	}
	bare := strings.HasPrefix(format, "Message") && !strings.HasPrefix(format, "MessageSet")
	slice, slices := st.c.arg2/16, st.c.arg2%16
	nshapes := 3
	if st.thorough {
		nshapes = 12
	}
	var out []fzRecSeed
	for k := 0; k < nshapes; k++ {
		if k%slices != slice {
			continue
		}
		var r *rand.Rand
		// shapes 0 and 1 are fixed, the others are drawn from the run seed
		r = rand.New(rand.NewSource(vcMix(st.seed, int64(st.idx), int64(k))))
		shape := k
		if k >= 2 {
			shape = 3
			if st.thorough && k == 2 {
				shape = 2
			}
		}
		recs := fzRecSeedRecs(shape, r)
		if bare && codec == 0 {
			recs = recs[:1]
		}
		spec := VRefBatchSpec{Magic: magic, Codec: codec, Recs: recs, PID: -1, Epoch: -1, BaseSeq: -1}
		if magic == 2 && k%2 == 1 {
			spec.PID, spec.Epoch, spec.BaseSeq, spec.Transactional = 4000+int64(k), 3, int32(10*k), k%4 == 1
		}
		wire := VRefWriteBatch(spec)
		sd := fzRecSeed{b: wire, magic: magic}
		if magic == 2 {
			sd.single = true
			hdr := append([]byte{}, wire[:61]...)
			inner, err := vrDecompress(codec, wire[61:])
			if err == nil {
				sd.inner = inner
				sd.rebuild = func(in []byte) []byte {
					comp := fzCompress(codec, in)
					b := append(append([]byte{}, hdr...), comp...)
					binary.BigEndian.PutUint32(b[8:], uint32(len(b)-12))
					binary.BigEndian.PutUint32(b[17:], crc32.Checksum(b[21:], vrCastagnoli))
					return b
				}
			}
		} else if codec != 0 {
			sd.single = true
			// one wrapper message: offset(8) size(4) crc(4) magic attr [ts] key(-1) value
			p := 12 + 4 + 2
			var ts int64
			if magic == 1 {
				ts = int64(binary.BigEndian.Uint64(wire[p:]))
				p += 8
			}
			p += 4 // nil key
			vl := int(binary.BigEndian.Uint32(wire[p:]))
			val := wire[p+4 : p+4+vl]
			off := int64(binary.BigEndian.Uint64(wire))
			attr := wire[17]
			inner, err := vrDecompress(codec, val)
			if err == nil {
				sd.inner = inner
				sd.rebuild = func(in []byte) []byte {
					m := vrLegacyMessage(magic, attr, off, ts, nil, fzCompress(codec, in))
					if bare {
						return m[12:]
					}
					return m
				}
			}
		} else {
			sd.single = len(recs) == 1
		}
		if bare {
			sd.b = wire[12:]
		}
		out = append(out, sd)
	}
	return out
}

func (st *fzState) runRec() {
	format := st.c.sub.name
	st.tgt = st.recTarget(format)
	rng := rand.New(rand.NewSource(vcMix(st.seed, int64(st.idx), 79)))
	bare := strings.HasPrefix(format, "Message") && !strings.HasPrefix(format, "MessageSet")
	seeds := st.recSeeds(format, rng)
	var raw [][]byte
	for _, sd := range seeds {
		o, ok := st.seedOK(sd.b)
		if !ok {
			st.obs["seeds_rejected_by_decoder"]++
			if st.sample == nil {
				st.sample = map[string]interface{}{"target": st.tgt.name}
			}
			st.sample["rejected_seed"] = fmt.Sprintf("%v: %s", o.err, vcHex(sd.b, 120))
			continue
		}
		st.seedsValid++
		raw = append(raw, sd.b)
		if st.sample == nil || st.sample["first_seed_hex"] == nil {
			st.sample = map[string]interface{}{"target": st.tgt.name, "decode": st.tgt.outer, "first_seed_hex": vcHex(sd.b, 160), "records": vcTruncS(fzCanon(o.val).String(), 400)}
		}
		// A: plain mutations, judged by the content oracle
		var spans []fzSpan
		if bare {
			spans = []fzSpan{{start: 0, end: len(sd.b), lenPos: -8, crcPos: 0, crcFrom: 4, crcTo: len(sd.b), ieee: true}}
		} else {
			spans = fzSpansOfSet(sd.b, 0, len(sd.b))
		}
		st.origCanon = fzCanon(o.val)
		st.judge = fzJudgeFor(spans, nil, false)
		st.negSize = fzNegSizeFor(spans)
		st.mutate(sd.b, rng)
		st.judge = nil

		// B: the same mutations with checksums (and, for a single entry, the length) made consistent
		seedLen := len(sd.b)
		single := sd.single
		st.fix = func(b []byte, lo, hi int) bool {
			if len(b) != seedLen {
				if !single || len(b) < 21 {
					return false
				}
				sp := spans[0]
				if !bare {
					binary.BigEndian.PutUint32(b[sp.lenPos:], uint32(len(b)-12))
				}
				fzFixCRC(b, sp, len(b))
				return true
			}
			hit := false
			for _, sp := range spans {
				if lo < sp.crcTo && hi > sp.crcFrom {
					hit = true
					fzFixCRC(b, sp, sp.crcTo)
				}
			}
			return hit
		}
		st.fixTag = "+crc"
		st.mutate(sd.b, rng)
		st.fix = nil

		// C: mutations of the uncompressed inner bytes, re-compressed and re-framed
		if sd.rebuild != nil && st.c.arg != 0 {
			rb := sd.rebuild
			st.xform = func(b []byte) []byte { return rb(b) }
			st.xformTag = "inner:"
			st.mutate(sd.inner, rng)
			st.xform = nil
		}
	}
	nr, ns := 256, 128
	if st.thorough {
		nr, ns = 4000, 2000
	}
	st.randomStrings(rng, nr)
	st.splices(raw, rng, ns)
}

// ---------------------------------------------------------------- wrapper inside wrapper

func (st *fzState) runNest() {
	codec := int8(st.c.arg)
	magic := int8(st.c.v)
	st.tgt = st.recTarget(fmt.Sprintf("MessageSet%d", magic))
	st.tgt.name = fmt.Sprintf("nested-wrappers/magic%d/%s", magic, fzCodecName(int(codec)))
	depths := []int{2, 3, 4, 8, 16, 64, 256, 1024}
	if st.thorough {
		depths = append(depths, 2048)
	}
	st.sample = map[string]interface{}{"target": st.tgt.name, "depths": fmt.Sprint(depths)}
	rng := rand.New(rand.NewSource(vcMix(st.seed, int64(st.idx), 80)))
	inner := vrLegacyMessage(magic, 0, 0, 1600000000000, []byte("k"), []byte("innermost"))
	cur := inner
	d := 0
	for _, depth := range depths {
		for ; d < depth; d++ {
			cur = vrLegacyMessage(magic, byte(codec), int64(d), 1600000000000, nil, fzCompress(codec, cur))
			if d%64 == 0 {
				st.tick()
			}
		}
		if st.skip() {
			continue
		}
		st.curSeed = cur
		b := st.buf(len(cur))
		copy(b, cur)
		st.seedsValid++
		st.eval(fmt.Sprintf("depth%d", depth), b, 0, 0)
		// the innermost levels corrupted: flip bits in the last bytes (deepest payload), CRC of the outermost fixed
		for i := 0; i < 24; i++ {
			if st.skip() {
				continue
			}
			b := st.buf(len(cur))
			copy(b, cur)
			p := len(b) - 1 - rng.Intn(fzMinInt(len(b)-30, 64))
			b[p] ^= 1 << uint(rng.Intn(8))
			binary.BigEndian.PutUint32(b[12:], crc32.ChecksumIEEE(b[16:]))
			st.eval(fmt.Sprintf("depth%d+corrupt", depth), b, p, p+1)
		}
	}
	// a v2 batch and garbage inside a wrapper; a wrapper whose payload is itself (as far as bytes allow)
	batch := VRefWriteBatch(VRefBatchSpec{Magic: 2, Codec: codec, Recs: fzRecSeedRecs(1, rng), PID: -1, Epoch: -1, BaseSeq: -1})
	for i, payload := range [][]byte{batch, append(append([]byte{}, inner...), batch...), {}, {0}, bytes.Repeat([]byte{0xff}, 40)} {
		w := vrLegacyMessage(magic, byte(codec), 7, 1600000000000, nil, fzCompress(codec, payload))
		if st.skip() {
			continue
		}
		st.curSeed = w
		b := st.buf(len(w))
		copy(b, w)
		st.eval(fmt.Sprintf("wrapped-payload%d", i), b, 0, 0)
	}
	// honest high-ratio payloads: what decompression legitimately yields must not be flagged
	sizes := []int{1 << 16, 1 << 20, 4 << 20}
	if st.thorough {
		sizes = append(sizes, 32<<20)
	}
	for _, sz := range sizes {
		one := vrLegacyMessage(magic, 0, 0, 1600000000000, nil, make([]byte, sz))
		w := vrLegacyMessage(magic, byte(codec), 0, 1600000000000, nil, fzCompress(codec, one))
		if st.skip() {
			continue
		}
		st.curSeed = nil
		b := st.buf(len(w))
		copy(b, w)
		st.eval(fmt.Sprintf("ratio-%dKiB", sz>>10), b, 0, 0)
	}
}

func fzMinInt(a, b int) int {
	if a < b {
		return a
	}
	return b
}

// ---------------------------------------------------------------- payloads that declare sizes they do not carry

func (st *fzState) runBomb() {
	codec := int8(st.c.arg)
	rng := rand.New(rand.NewSource(vcMix(st.seed, int64(st.idx), 81)))
	var payloads [][]byte
	var names []string
	add := func(n string, b []byte) { payloads = append(payloads, b); names = append(names, n) }
	uv := func(x uint64) []byte { var t [10]byte; return append([]byte{}, t[:binary.PutUvarint(t[:], x)]...) }
	be32 := func(x uint32) []byte { var t [4]byte; binary.BigEndian.PutUint32(t[:], x); return t[:] }
	switch codec {
	case 1:
		good := fzCompress(1, []byte("hello hello hello hello"))
		add("truncated", good[:len(good)-9])
		// FEXTRA with a length beyond the data, FNAME never terminated, reserved flags
		add("fextra-long", []byte{0x1f, 0x8b, 8, 4, 0, 0, 0, 0, 0, 0xff, 0xff, 0xff, 1, 2, 3})
		add("fname-open", append([]byte{0x1f, 0x8b, 8, 8, 0, 0, 0, 0, 0, 0xff}, bytes.Repeat([]byte{'a'}, 40)...))
		add("stored-block-len", []byte{0x1f, 0x8b, 8, 0, 0, 0, 0, 0, 0, 0xff, 0x01, 0xff, 0xff, 0x00, 0x00, 1, 2, 3})
		add("two-members", append(append([]byte{}, good...), good...))
	case 2:
		for _, d := range []uint64{1 << 16, 1 << 20, 1 << 26, 1 << 30, 0xffffffff, 1 << 32, 1 << 40, 1<<63 - 1} {
			add(fmt.Sprintf("raw-declares-%d", d), append(uv(d), 0x00, 'x'))
			add(fmt.Sprintf("raw-declares-%d-only", d), uv(d))
		}
		x := append([]byte{}, vcXerialMagic...)
		x = append(x, 0, 0, 0, 1, 0, 0, 0, 1)
		for _, cl := range []uint32{0, 1, 0x7fffffff, 0xffffffff, 0x80000000, 1000} {
			add(fmt.Sprintf("xerial-chunk-%d", cl), append(append(append([]byte{}, x...), be32(cl)...), 1, 2, 3))
		}
		inner := append(uv(1<<30), 0x00, 'x')
		add("xerial-chunk-declares-1GiB", append(append(append([]byte{}, x...), be32(uint32(len(inner)))...), inner...))
		add("xerial-header-only", x)
		add("xerial-short", x[:10])
	case 3:
		good := fzCompress(3, []byte("hello hello hello hello"))
		add("truncated", good[:len(good)-5])
		// frame: magic, FLG (version 01, content size), BD, content size 8 bytes, HC, block size
		for _, bd := range []byte{0x40, 0x50, 0x60, 0x70, 0x00, 0xf0} {
			hdr := []byte{0x04, 0x22, 0x4d, 0x18, 0x60, bd}
			add(fmt.Sprintf("bd-%02x-bad-hc", bd), append(append([]byte{}, hdr...), 0x00, 0xff, 0xff, 0xff, 0x7f, 1, 2, 3))
		}
		for _, bl := range []uint32{0x7fffffff, 0xffffffff, 0x80000000 | 0x00400000, 0x00400001, 1 << 20} {
			g := append([]byte{}, good[:7]...)
			var t [4]byte
			binary.LittleEndian.PutUint32(t[:], bl)
			g = append(g, t[:]...)
			g = append(g, 1, 2, 3, 4)
			add(fmt.Sprintf("block-size-%x", bl), g)
		}
	case 4:
		good := fzCompress(4, []byte("hello hello hello hello"))
		add("truncated", good[:len(good)-3])
		// magic, frame header descriptor: FCS flag 3 (8 bytes), single segment; then content size
		for _, fcs := range []uint64{1 << 20, 1 << 27, 1<<30 - 1, 1 << 30, 1 << 32, 1 << 40, 1<<63 - 1} {
			var t [8]byte
			binary.LittleEndian.PutUint64(t[:], fcs)
			b := append([]byte{0x28, 0xb5, 0x2f, 0xfd, 0xe0}, t[:]...)
			add(fmt.Sprintf("single-segment-declares-%d", fcs), append(b, 0x01, 0x00, 0x00))
			// with a window descriptor (not single segment): window log 41, FCS 8 bytes
			b2 := append([]byte{0x28, 0xb5, 0x2f, 0xfd, 0xc0, 0xf8}, t[:]...)
			add(fmt.Sprintf("window-max-declares-%d", fcs), append(b2, 0x01, 0x00, 0x00))
		}
		// RLE block of the maximum size repeated: a small input that honestly yields a lot
		rle := []byte{0x28, 0xb5, 0x2f, 0xfd, 0x00, 0x58}
		for i := 0; i < 8; i++ {
			last := byte(0)
			if i == 7 {
				last = 1
			}
			sz := uint32(128<<10)<<3 | 1<<1 | uint32(last)
			rle = append(rle, byte(sz), byte(sz>>8), byte(sz>>16), 'z')
		}
		add("rle-blocks-1MiB", rle)
	}
	type frame struct {
		name string
		mk   func(p []byte) []byte
	}
	frames := []frame{
		{"RecordBatch", func(p []byte) []byte {
			b := VRefWriteBatch(VRefBatchSpec{Magic: 2, Codec: 0, Recs: fzRecSeedRecs(0, rng), PID: -1, Epoch: -1, BaseSeq: -1})
			b = append(b[:61:61], p...)
			b[22] = b[22]&^7 | byte(codec)
			binary.BigEndian.PutUint32(b[8:], uint32(len(b)-12))
			binary.BigEndian.PutUint32(b[17:], crc32.Checksum(b[21:], vrCastagnoli))
			return b
		}},
		{"MessageSet1", func(p []byte) []byte { return vrLegacyMessage(1, byte(codec), 5, 1600000000000, nil, p) }},
		{"MessageSet0", func(p []byte) []byte { return vrLegacyMessage(0, byte(codec), 5, 0, nil, p) }},
	}
	for _, f := range frames {
		st.tgt = st.recTarget(f.name)
		st.tgt.name = "declared-sizes/" + f.name + "/" + fzCodecName(int(codec))
		for i, p := range payloads {
			w := f.mk(p)
			st.seedsValid++
			if !st.skip() {
				st.curSeed = w
				b := st.buf(len(w))
				copy(b, w)
				st.eval(names[i], b, 0, 0)
			}
			// neighbours of the payload: bit flips and byte values in its first 24 bytes, checksums kept consistent
			lim := fzMinInt(len(p), 24)
			for q := 0; q < lim; q++ {
				for _, m := range []byte{0x01, 0x80, 0xff} {
					if st.skip() {
						continue
					}
					p2 := append([]byte{}, p...)
					p2[q] ^= m
					w2 := f.mk(p2)
					b := st.buf(len(w2))
					copy(b, w2)
					st.eval(names[i]+"+flip", b, q, q+1)
				}
			}
		}
	}
	if st.sample == nil {
		st.sample = map[string]interface{}{"target": "declared-sizes/" + fzCodecName(int(codec)), "payloads": strings.Join(names, ",")}
	}
}
