//go:build verif

package sarama

// Admin side of the simulated cluster (C19).

type vsAdminState struct {
	apiCounts map[int16]int
	nBatch    int
}

func (a *vsAdminState) init() { a.apiCounts = map[int16]int{} }

type VSimAdminCtx struct {
	Seq    int64
	Kind   string
	N      int
	Broker int32
}

type VSimAdminAction struct {
	Kind int
	Code KError
}

func (s *VSim) dispatchAdmin(b *VSimBroker, connID int64, ctx *VSimReqCtx, req *request) (*vsResponse, int, bool) {
	return nil, 0, false
}
