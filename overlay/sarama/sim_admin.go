//go:build verif

package sarama

// Admin side of the simulated cluster (C19): the controller's topic operations
// (create / delete topics, create partitions, alter / list partition
// reassignments), the leader's DeleteRecords, the coordinator's DescribeGroups /
// ListGroups / DeleteGroups and the per-broker DescribeLogDirs. Every request is
// logged as a VSimEvent of kind "admin" carrying a VSimAdminEvent: who received
// it, whether that broker was the controller / leader / coordinator at that
// moment, and what it answered per item. Effects are applied to the cluster
// state exactly when the answer for the item is NONE (and the request is not
// validate-only), so "state changed iff success reported" can be checked.

import (
	"fmt"
	"sort"
	"time"
)

type vsReassign struct {
	target   []int32
	adding   []int32
	removing []int32
}

type vsAdminState struct {
	apiCounts map[int16]int
	nBatch    int

	kindCounts  map[string]int
	reassign    map[string]*vsReassign // "topic/partition" -> reassignment in progress
	knownGroups map[string]string      // group -> protocol type: exists even without members or offsets
}

func (a *vsAdminState) init() {
	a.apiCounts = map[int16]int{}
	a.kindCounts = map[string]int{}
	a.reassign = map[string]*vsReassign{}
	a.knownGroups = map[string]string{}
}

// VSimAdminCtx describes an admin request as it arrives (before any effect).
type VSimAdminCtx struct {
	Seq          int64
	Kind         string // create-topics | delete-topics | create-partitions | alter-reassignments | list-reassignments | delete-records | describe-groups | list-groups | delete-groups | describe-log-dirs
	N            int    // n-th request of this kind cluster-wide (1-based)
	Broker       int32
	Conn         int64
	Version      int16
	Items        []string // topics, "topic/partition", groups, or the broker id (describe-log-dirs); sorted
	Controller   int32    // the controller at arrival
	IsController bool
	ValidateOnly bool
}

const (
	VAProceed    = iota
	VAError      // answer Code without effect: at top level where the response has a top-level code (alter / list reassignments, list-groups), else for every item
	VAItemErrors // ItemCodes[item] is answered for the named items without effect; the others are handled normally
	VAOmit       // the items in Omit (nil = all) are left out of the answer, without effect; delete-records: a topic name omits the whole topic
	VADropBefore // close the connection without handling
	VADropAfter  // handle, then close the connection without answering
)

// VSimAdminAction is what the broker does with an admin request. MoveTo != 0
// moves the controller to that broker BEFORE the request is handled (so the
// receiving broker answers NOT_CONTROLLER if it is not MoveTo).
type VSimAdminAction struct {
	Kind      int
	Code      KError
	ItemCodes map[string]KError
	Omit      []string
	MoveTo    int32
	DelayMs   int
	// Electing: with MoveTo, that many of the following metadata answers report no controller (-1): the
	// election is still running when the client asks, although the role has already moved
	Electing int
}

// VSimAdminEvent is one admin request with the answer it got.
type VSimAdminEvent struct {
	Seq                 int64
	Kind                string
	N                   int
	Broker              int32
	Conn                int64
	Version             int16
	Items               []string
	ControllerAtArrival int32
	Controller          int32            // when handled (after the action's move)
	WasController       bool             // Broker == Controller when handled
	Owner               map[string]int32 // leader / coordinator of each item when handled (-1 = none / unknown item)
	Action              int
	HasTop              bool  // the response type has a top-level code
	Top                 int16 // top-level code answered
	ItemCodes           map[string]int16
	Omitted             []string
	Applied             []string // items whose effect was applied to the cluster state
	ValidateOnly        bool
	Dropped             bool
	Args                map[string]int64 // per item argument: delete-records offset, create-partitions count, create-topics partitions
	Result              map[string]int64 // delete-records: low watermark answered
}

func (s *VSim) adminEvent(ev *VSimAdminEvent) {
	ev.Seq = s.logEvent("admin", ev.Broker, ev.Conn, map[string]interface{}{"a": *ev})
}

// AdminEvents returns the broker-side history of admin requests.
func (s *VSim) AdminEvents() []VSimAdminEvent {
	s.mu.Lock()
	defer s.mu.Unlock()
	var out []VSimAdminEvent
	for _, e := range s.events {
		if e.Kind == "admin" {
			a := e.Info["a"].(VSimAdminEvent)
			a.Seq = e.Seq
			out = append(out, a)
		}
	}
	return out
}

// ---------------------------------------------------------------- state accessors

func (s *VSim) Controller() int32 {
	s.mu.Lock()
	defer s.mu.Unlock()
	return s.controller
}

// TopicPartitions returns whether the topic exists and how many partitions it has.
func (s *VSim) TopicPartitions(name string) (bool, int) {
	s.mu.Lock()
	defer s.mu.Unlock()
	t := s.topics[name]
	if t == nil {
		return false, 0
	}
	return true, len(t.parts)
}

func (s *VSim) Replicas(topic string, part int32) []int32 {
	s.mu.Lock()
	defer s.mu.Unlock()
	if t := s.topics[topic]; t != nil {
		if p := t.parts[part]; p != nil {
			return append([]int32(nil), p.replicas...)
		}
	}
	return nil
}

// LogStart returns the partition's low watermark (log start offset) and its high watermark.
func (s *VSim) LogStart(topic string, part int32) (int64, int64) {
	s.mu.Lock()
	defer s.mu.Unlock()
	if t := s.topics[topic]; t != nil {
		if p := t.parts[part]; p != nil {
			return p.logStart, p.base + int64(len(p.log))
		}
	}
	return -1, -1
}

// CreateGroup makes a group exist (Empty, no offsets) on the given coordinator.
func (s *VSim) CreateGroup(name string, coordinator int32, protocolType string) {
	s.mu.Lock()
	g := s.groupLocked(name)
	g.coordinator = coordinator
	s.admin.knownGroups[name] = protocolType
	s.mu.Unlock()
}

func (s *VSim) groupExistsLocked(name string) bool {
	g := s.groups[name]
	if g == nil {
		return false
	}
	if _, ok := s.admin.knownGroups[name]; ok {
		return true
	}
	return len(g.members) > 0 || len(g.offsets) > 0
}

func (s *VSim) GroupExists(name string) bool {
	s.mu.Lock()
	defer s.mu.Unlock()
	return s.groupExistsLocked(name)
}

// SetReassignment puts a partition into "being reassigned to target" (as a
// successful AlterPartitionReassignments would).
func (s *VSim) SetReassignment(topic string, part int32, target []int32) {
	s.mu.Lock()
	defer s.mu.Unlock()
	t := s.topics[topic]
	if t == nil || t.parts[part] == nil {
		return
	}
	p := t.parts[part]
	ra := &vsReassign{target: append([]int32(nil), target...)}
	for _, x := range target {
		if !vsHas(p.replicas, x) {
			ra.adding = append(ra.adding, x)
		}
	}
	for _, x := range p.replicas {
		if !vsHas(target, x) {
			ra.removing = append(ra.removing, x)
		}
	}
	s.admin.reassign[vsTP(topic, part)] = ra
}

// CompleteReassignments finishes every reassignment in progress.
func (s *VSim) CompleteReassignments() {
	s.mu.Lock()
	s.admin.reassign = map[string]*vsReassign{}
	s.mu.Unlock()
}

// ---------------------------------------------------------------- dispatch

func vsSortedKeys(m map[string]bool) []string {
	out := make([]string, 0, len(m))
	for k := range m {
		out = append(out, k)
	}
	sort.Strings(out)
	return out
}

func vsTP(t string, p int32) string { return fmt.Sprintf("%s/%d", t, p) }

func (s *VSim) dispatchAdmin(b *VSimBroker, connID int64, ctx *VSimReqCtx, req *request) (*vsResponse, int, bool) {
	ac := &VSimAdminCtx{Seq: ctx.Seq, Broker: b.ID, Conn: connID, Version: ctx.Version}
	items := map[string]bool{}
	args := map[string]int64{}
	switch r := req.body.(type) {
	case *CreateTopicsRequest:
		ac.Kind, ac.ValidateOnly = "create-topics", r.ValidateOnly
		for t, d := range r.TopicDetails {
			items[t] = true
			if d != nil {
				args[t] = int64(d.NumPartitions)
			}
		}
	case *DeleteTopicsRequest:
		ac.Kind = "delete-topics"
		for _, t := range r.Topics {
			items[t] = true
		}
	case *CreatePartitionsRequest:
		ac.Kind, ac.ValidateOnly = "create-partitions", r.ValidateOnly
		for t, tp := range r.TopicPartitions {
			items[t] = true
			if tp != nil {
				args[t] = int64(tp.Count)
			}
		}
	case *AlterPartitionReassignmentsRequest:
		ac.Kind = "alter-reassignments"
		for t, ps := range r.blocks {
			for p := range ps {
				items[vsTP(t, p)] = true
			}
		}
	case *ListPartitionReassignmentsRequest:
		ac.Kind = "list-reassignments"
		for t, ps := range r.blocks {
			for _, p := range ps {
				items[vsTP(t, p)] = true
			}
		}
	case *DeleteRecordsRequest:
		ac.Kind = "delete-records"
		for t, dt := range r.Topics {
			if dt == nil {
				continue
			}
			for p, off := range dt.PartitionOffsets {
				items[vsTP(t, p)] = true
				args[vsTP(t, p)] = off
			}
		}
	case *DescribeGroupsRequest:
		ac.Kind = "describe-groups"
		for _, g := range r.Groups {
			items[g] = true
		}
	case *ListGroupsRequest:
		ac.Kind = "list-groups"
	case *DeleteGroupsRequest:
		ac.Kind = "delete-groups"
		for _, g := range r.Groups {
			items[g] = true
		}
	case *DescribeLogDirsRequest:
		ac.Kind = "describe-log-dirs"
		items[fmt.Sprint(b.ID)] = true
	default:
		return nil, 0, false
	}
	ac.Items = vsSortedKeys(items)
	s.mu.Lock()
	s.admin.kindCounts[ac.Kind]++
	ac.N = s.admin.kindCounts[ac.Kind]
	ac.Controller = s.controller
	ac.IsController = s.controller == b.ID
	s.mu.Unlock()

	act := VSimAdminAction{}
	if s.OnAdmin != nil {
		act = s.OnAdmin(ac)
	}
	if act.DelayMs > 0 {
		time.Sleep(time.Duration(act.DelayMs) * time.Millisecond)
	}
	ev := &VSimAdminEvent{Kind: ac.Kind, N: ac.N, Broker: b.ID, Conn: connID, Version: ctx.Version, Items: ac.Items,
		ControllerAtArrival: ac.Controller, Action: act.Kind, ValidateOnly: ac.ValidateOnly,
		Owner: map[string]int32{}, ItemCodes: map[string]int16{}, Args: args, Result: map[string]int64{}}

	s.mu.Lock()
	defer s.mu.Unlock()
	if act.MoveTo != 0 {
		s.controller = act.MoveTo
		s.electing = act.Electing
		s.logEvent("controller-moved", act.MoveTo, 0, map[string]interface{}{"from": ac.Controller, "on": ac.Kind, "n": ac.N})
	}
	ev.Controller = s.controller
	ev.WasController = s.controller == b.ID
	if act.Kind == VADropBefore {
		ev.Dropped = true
		s.adminEvent(ev)
		return nil, VConnDropAfter, true
	}
	resp := s.handleAdminLocked(b, act, ev, req)
	if act.Kind == VADropAfter {
		ev.Dropped = true
		s.adminEvent(ev)
		return nil, VConnDropAfter, true
	}
	s.adminEvent(ev)
	return resp, VConnProceed, true
}

// vsAdminPick decides what the action says about one item: (code, forced, omitted).
func vsAdminPick(act VSimAdminAction, item string, perItemError bool) (KError, bool, bool) {
	switch act.Kind {
	case VAError:
		if perItemError {
			return act.Code, true, false
		}
	case VAItemErrors:
		if c, ok := act.ItemCodes[item]; ok {
			return c, true, false
		}
	case VAOmit:
		if act.Omit == nil {
			return 0, false, true
		}
		for _, o := range act.Omit {
			if o == item {
				return 0, false, true
			}
		}
	}
	return ErrNoError, false, false
}

func vsErrMsg(code KError) *string {
	if code == ErrNoError {
		return nil
	}
	m := "vsim: " + code.Error()
	return &m
}

func (s *VSim) newPartitionLocked(leader int32, replicas []int32) *vsPartition {
	if len(replicas) == 0 {
		replicas = []int32{leader}
	}
	return &vsPartition{leader: leader, replicas: append([]int32(nil), replicas...), isr: append([]int32(nil), replicas...), pstate: map[int64]*vsProducerState{}, lso: -1}
}

func (s *VSim) knownBrokersLocked(ids []int32) bool {
	for _, id := range ids {
		if s.brokers[id] == nil {
			return false
		}
	}
	return true
}

func (s *VSim) handleAdminLocked(b *VSimBroker, act VSimAdminAction, ev *VSimAdminEvent, req *request) *vsResponse {
	ids := s.brokerIDsLocked()
	record := func(item string, code KError) {
		ev.ItemCodes[item] = int16(code)
	}
	switch r := req.body.(type) {
	case *CreateTopicsRequest:
		res := &CreateTopicsResponse{Version: ev.Version, TopicErrors: map[string]*TopicError{}}
		for _, name := range ev.Items {
			d := r.TopicDetails[name]
			code, forced, omitted := vsAdminPick(act, name, true)
			if omitted {
				ev.Omitted = append(ev.Omitted, name)
				continue
			}
			switch {
			case !ev.WasController:
				code = ErrNotController
			case forced:
			case name == "":
				code = ErrInvalidTopic
			case s.topics[name] != nil:
				code = ErrTopicAlreadyExists
			case d == nil:
				code = ErrInvalidRequest
			case len(d.ReplicaAssignment) > 0 && (d.NumPartitions != -1 || d.ReplicationFactor != -1):
				code = ErrInvalidRequest
			case len(d.ReplicaAssignment) == 0 && d.NumPartitions <= 0:
				code = ErrInvalidPartitions
			case len(d.ReplicaAssignment) == 0 && (d.ReplicationFactor <= 0 || int(d.ReplicationFactor) > len(ids)):
				code = ErrInvalidReplicationFactor
			}
			if code == ErrNoError && len(d.ReplicaAssignment) > 0 {
				for p := 0; p < len(d.ReplicaAssignment); p++ {
					reps, ok := d.ReplicaAssignment[int32(p)]
					if !ok || len(reps) == 0 || !s.knownBrokersLocked(reps) {
						code = ErrInvalidReplicaAssignment
					}
				}
			}
			if code == ErrNoError && !r.ValidateOnly {
				t := &vsTopic{parts: map[int32]*vsPartition{}}
				if len(d.ReplicaAssignment) > 0 {
					for p, reps := range d.ReplicaAssignment {
						t.parts[p] = s.newPartitionLocked(reps[0], reps)
					}
				} else {
					for p := 0; p < int(d.NumPartitions); p++ {
						var reps []int32
						for k := 0; k < int(d.ReplicationFactor); k++ {
							reps = append(reps, ids[(p+k)%len(ids)])
						}
						t.parts[int32(p)] = s.newPartitionLocked(reps[0], reps)
					}
				}
				s.topics[name] = t
				ev.Applied = append(ev.Applied, name)
			}
			record(name, code)
			te := &TopicError{Err: code}
			if ev.Version >= 1 {
				te.ErrMsg = vsErrMsg(code)
			}
			res.TopicErrors[name] = te
		}
		return vsTyped(res)

	case *DeleteTopicsRequest:
		res := &DeleteTopicsResponse{Version: ev.Version, TopicErrorCodes: map[string]KError{}}
		for _, name := range ev.Items {
			code, forced, omitted := vsAdminPick(act, name, true)
			if omitted {
				ev.Omitted = append(ev.Omitted, name)
				continue
			}
			switch {
			case !ev.WasController:
				code = ErrNotController
			case forced:
			case s.topics[name] == nil:
				code = ErrUnknownTopicOrPartition
			}
			if code == ErrNoError {
				delete(s.topics, name)
				for k := range s.admin.reassign {
					if len(k) > len(name) && k[:len(name)+1] == name+"/" {
						delete(s.admin.reassign, k)
					}
				}
				ev.Applied = append(ev.Applied, name)
			}
			record(name, code)
			res.TopicErrorCodes[name] = code
		}
		return vsTyped(res)

	case *CreatePartitionsRequest:
		res := &CreatePartitionsResponse{TopicPartitionErrors: map[string]*TopicPartitionError{}}
		for _, name := range ev.Items {
			tp := r.TopicPartitions[name]
			code, forced, omitted := vsAdminPick(act, name, true)
			if omitted {
				ev.Omitted = append(ev.Omitted, name)
				continue
			}
			t := s.topics[name]
			switch {
			case !ev.WasController:
				code = ErrNotController
			case forced:
			case t == nil:
				code = ErrUnknownTopicOrPartition
			case tp == nil:
				code = ErrInvalidRequest
			case int(tp.Count) <= len(t.parts):
				code = ErrInvalidPartitions
			case len(tp.Assignment) > 0 && len(tp.Assignment) != int(tp.Count)-len(t.parts):
				code = ErrInvalidReplicaAssignment
			}
			if code == ErrNoError {
				for _, reps := range tp.Assignment {
					if len(reps) == 0 || !s.knownBrokersLocked(reps) {
						code = ErrInvalidReplicaAssignment
					}
				}
			}
			if code == ErrNoError && !r.ValidateOnly {
				have := len(t.parts)
				for p := have; p < int(tp.Count); p++ {
					reps := []int32{ids[p%len(ids)]}
					if len(tp.Assignment) > 0 {
						reps = tp.Assignment[p-have]
					}
					t.parts[int32(p)] = s.newPartitionLocked(reps[0], reps)
				}
				ev.Applied = append(ev.Applied, name)
			}
			record(name, code)
			res.TopicPartitionErrors[name] = &TopicPartitionError{Err: code, ErrMsg: vsErrMsg(code)}
		}
		return vsTyped(res)

	case *AlterPartitionReassignmentsRequest:
		res := &AlterPartitionReassignmentsResponse{Version: ev.Version}
		ev.HasTop = true
		top := ErrNoError
		switch {
		case !ev.WasController:
			top = ErrNotController
		case act.Kind == VAError:
			top = act.Code
		}
		if top != ErrNoError {
			ev.Top = int16(top)
			res.ErrorCode = top
			res.ErrorMessage = vsErrMsg(top)
			return vsTyped(res)
		}
		for _, item := range ev.Items {
			var topic string
			var part int32
			vsSplitTP(item, &topic, &part)
			code, forced, omitted := vsAdminPick(act, item, false)
			if omitted {
				ev.Omitted = append(ev.Omitted, item)
				continue
			}
			blk := r.blocks[topic][part]
			var p *vsPartition
			if t := s.topics[topic]; t != nil {
				p = t.parts[part]
			}
			switch {
			case forced:
			case p == nil:
				code = ErrUnknownTopicOrPartition
			case blk == nil || blk.replicas == nil:
				if s.admin.reassign[item] == nil {
					code = ErrNoReassignmentInProgress
				}
			case len(blk.replicas) == 0 || !s.knownBrokersLocked(blk.replicas) || vsHasDup(blk.replicas):
				code = ErrInvalidReplicaAssignment
			}
			if code == ErrNoError {
				if blk == nil || blk.replicas == nil {
					delete(s.admin.reassign, item)
				} else {
					old := p.replicas
					ra := &vsReassign{target: append([]int32(nil), blk.replicas...)}
					for _, x := range blk.replicas {
						if !vsHas(old, x) {
							ra.adding = append(ra.adding, x)
						}
					}
					for _, x := range old {
						if !vsHas(blk.replicas, x) {
							ra.removing = append(ra.removing, x)
						}
					}
					s.admin.reassign[item] = ra
					p.replicas = append([]int32(nil), blk.replicas...)
					p.isr = append([]int32(nil), blk.replicas...)
					if !vsHas(p.replicas, p.leader) {
						p.leader = p.replicas[0]
					}
				}
				ev.Applied = append(ev.Applied, item)
			}
			record(item, code)
			res.AddError(topic, part, code, vsErrMsg(code))
		}
		return vsTyped(res)

	case *ListPartitionReassignmentsRequest:
		res := &ListPartitionReassignmentsResponse{Version: ev.Version}
		ev.HasTop = true
		top := ErrNoError
		switch {
		case !ev.WasController:
			top = ErrNotController
		case act.Kind == VAError:
			top = act.Code
		}
		if top != ErrNoError {
			ev.Top = int16(top)
			res.ErrorCode = top
			res.ErrorMessage = vsErrMsg(top)
			return vsTyped(res)
		}
		for _, item := range ev.Items {
			var topic string
			var part int32
			vsSplitTP(item, &topic, &part)
			_, _, omitted := vsAdminPick(act, item, false)
			if omitted {
				ev.Omitted = append(ev.Omitted, item)
				continue
			}
			ra := s.admin.reassign[item]
			if ra == nil {
				continue // only partitions being reassigned are listed
			}
			record(item, ErrNoError)
			all := append([]int32(nil), ra.target...)
			all = append(all, ra.removing...)
			res.AddBlock(topic, part, all, append([]int32{}, ra.adding...), append([]int32{}, ra.removing...))
		}
		return vsTyped(res)

	case *DeleteRecordsRequest:
		res := &DeleteRecordsResponse{Topics: map[string]*DeleteRecordsResponseTopic{}}
		for _, item := range ev.Items {
			var topic string
			var part int32
			vsSplitTP(item, &topic, &part)
			var p *vsPartition
			if t := s.topics[topic]; t != nil {
				p = t.parts[part]
			}
			ev.Owner[item] = -1
			if p != nil {
				ev.Owner[item] = p.leader
			}
			code, forced, omitted := vsAdminPick(act, item, true)
			if _, _, topicOmitted := vsAdminPick(act, topic, true); topicOmitted {
				omitted = true
			}
			if omitted {
				ev.Omitted = append(ev.Omitted, item)
				continue
			}
			off := ev.Args[item]
			lwm := int64(-1)
			switch {
			case forced:
			case p == nil:
				code = ErrUnknownTopicOrPartition
			case p.leader != b.ID:
				code = ErrNotLeaderForPartition
			default:
				hw := p.base + int64(len(p.log))
				if off == -1 {
					off = hw
				}
				if off < 0 || off > hw {
					code = ErrOffsetOutOfRange
				} else {
					if off > p.logStart {
						p.logStart = off
					}
					lwm = p.logStart
					ev.Applied = append(ev.Applied, item)
				}
			}
			record(item, code)
			ev.Result[item] = lwm
			rt := res.Topics[topic]
			if rt == nil {
				rt = &DeleteRecordsResponseTopic{Partitions: map[int32]*DeleteRecordsResponsePartition{}}
				res.Topics[topic] = rt
			}
			rt.Partitions[part] = &DeleteRecordsResponsePartition{LowWatermark: lwm, Err: code}
		}
		return vsTyped(res)

	case *DescribeGroupsRequest:
		res := &DescribeGroupsResponse{}
		for _, name := range ev.Items {
			g := s.groupLocked(name)
			ev.Owner[name] = g.coordinator
			code, forced, omitted := vsAdminPick(act, name, true)
			if omitted {
				ev.Omitted = append(ev.Omitted, name)
				continue
			}
			if !forced && g.coordinator != b.ID {
				code = ErrNotCoordinatorForConsumer
			}
			gd := &GroupDescription{Err: code, GroupId: name}
			if code == ErrNoError {
				if !s.groupExistsLocked(name) {
					gd.State = "Dead"
				} else {
					gd.State = g.state
					gd.ProtocolType = s.admin.knownGroups[name]
					if gd.ProtocolType == "" {
						gd.ProtocolType = "consumer"
					}
					gd.Protocol = g.protocol
					gd.Members = map[string]*GroupMemberDescription{}
					for id, m := range g.members {
						gd.Members[id] = &GroupMemberDescription{ClientId: "client", ClientHost: "/vsim", MemberMetadata: m.metadata, MemberAssignment: g.assignments[id]}
					}
				}
			}
			record(name, code)
			res.Groups = append(res.Groups, gd)
		}
		return vsTyped(res)

	case *ListGroupsRequest:
		res := &ListGroupsResponse{Groups: map[string]string{}}
		ev.HasTop = true
		if act.Kind == VAError {
			res.Err = act.Code
			ev.Top = int16(act.Code)
			return vsTyped(res)
		}
		for name, g := range s.groups {
			if g.coordinator == b.ID && s.groupExistsLocked(name) {
				pt := s.admin.knownGroups[name]
				if pt == "" {
					pt = "consumer"
				}
				res.Groups[name] = pt
				ev.Applied = append(ev.Applied, name)
			}
		}
		sort.Strings(ev.Applied)
		return vsTyped(res)

	case *DeleteGroupsRequest:
		res := &DeleteGroupsResponse{GroupErrorCodes: map[string]KError{}}
		for _, name := range ev.Items {
			g := s.groupLocked(name)
			ev.Owner[name] = g.coordinator
			code, forced, omitted := vsAdminPick(act, name, true)
			if omitted {
				ev.Omitted = append(ev.Omitted, name)
				continue
			}
			switch {
			case forced:
			case g.coordinator != b.ID:
				code = ErrNotCoordinatorForConsumer
			case !s.groupExistsLocked(name):
				code = ErrGroupIDNotFound
			case len(g.members) > 0:
				code = ErrNonEmptyGroup
			}
			if code == ErrNoError {
				g.offsets = map[string]*vsOffset{}
				g.assignments = map[string][]byte{}
				g.generation = 0
				g.state = "Empty"
				delete(s.admin.knownGroups, name)
				ev.Applied = append(ev.Applied, name)
			}
			record(name, code)
			res.GroupErrorCodes[name] = code
		}
		return vsTyped(res)

	case *DescribeLogDirsRequest:
		res := &DescribeLogDirsResponse{Version: ev.Version}
		item := fmt.Sprint(b.ID)
		ev.Owner[item] = b.ID
		code, _, omitted := vsAdminPick(act, item, true)
		if omitted {
			ev.Omitted = append(ev.Omitted, item)
			return vsTyped(res)
		}
		record(item, code)
		dir := DescribeLogDirsResponseDirMetadata{ErrorCode: code, Path: fmt.Sprintf("/vsim/broker-%d/logs", b.ID)}
		if code == ErrNoError {
			want := map[string]map[int32]bool{}
			for _, dt := range r.DescribeTopics {
				want[dt.Topic] = map[int32]bool{}
				for _, p := range dt.PartitionIDs {
					want[dt.Topic][p] = true
				}
			}
			names := make([]string, 0, len(s.topics))
			for name := range s.topics {
				names = append(names, name)
			}
			sort.Strings(names)
			for _, name := range names {
				if len(want) > 0 && want[name] == nil {
					continue
				}
				t := s.topics[name]
				pids := make([]int, 0, len(t.parts))
				for id := range t.parts {
					pids = append(pids, int(id))
				}
				sort.Ints(pids)
				var parts []DescribeLogDirsResponsePartition
				for _, pi := range pids {
					p := t.parts[int32(pi)]
					if !vsHas(p.replicas, b.ID) && p.leader != b.ID {
						continue
					}
					if len(want) > 0 && !want[name][int32(pi)] {
						continue
					}
					parts = append(parts, DescribeLogDirsResponsePartition{PartitionID: int32(pi), Size: int64(len(p.log)) * 100})
				}
				if len(parts) > 0 {
					dir.Topics = append(dir.Topics, DescribeLogDirsResponseTopic{Topic: name, Partitions: parts})
				}
			}
		}
		res.LogDirs = []DescribeLogDirsResponseDirMetadata{dir}
		return vsTyped(res)
	}
	return nil
}

func vsHas(xs []int32, x int32) bool {
	for _, y := range xs {
		if y == x {
			return true
		}
	}
	return false
}

func vsHasDup(xs []int32) bool {
	for i := range xs {
		for j := i + 1; j < len(xs); j++ {
			if xs[i] == xs[j] {
				return true
			}
		}
	}
	return false
}

// vsSplitTP splits "topic/partition" at the LAST slash.
func vsSplitTP(item string, topic *string, part *int32) {
	for i := len(item) - 1; i >= 0; i-- {
		if item[i] == '/' {
			*topic = item[:i]
			var n int32
			fmt.Sscanf(item[i+1:], "%d", &n)
			*part = n
			return
		}
	}
	*topic = item
	*part = -1
}
